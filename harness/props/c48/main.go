// Driver for C48 (errguard): runs behaviour trees through the real errguard.Go + errgroup (functions that return
// nil / an error, panic with values of many kinds, call runtime.Goexit, or run nested guarded groups), records the
// completion order that decided every group and the observed Wait() result for the Coq model, and evaluates the
// property on the implementation alone: the process survives, Wait() is nil iff every member ended with nil, a
// returned error arrives as the identical value, a panic arrives as "panic recovered: <%v of the value>" + stack.
//
// The cases run in a child process; if a panic escapes a goroutine (the process dies) the parent reports the case
// that was running as a predicate failure with a replay.
package main

import (
	"context"
	"encoding/json"
	"errors"
	"fmt"
	"io"
	"os"
	"os/exec"
	"path/filepath"
	"runtime"
	"strings"
	"sync/atomic"
	"syscall"
	"time"

	"github.com/sirupsen/logrus"
	"golang.org/x/sync/errgroup"

	"github.com/dolthub/go-mysql-server/errguard"

	"verifharness/lib"
)

// ---------- behaviour trees ----------
type node struct {
	Kind     string  `json:"kind"` // ret | err | panic | goexit | nest
	ErrID    int     `json:"err_id,omitempty"`
	ErrKind  string  `json:"err_kind,omitempty"` // concrete type of the returned error ("" = pointer)
	PV       string  `json:"panic_value,omitempty"`
	Children []*node `json:"children,omitempty"`
	Post     string  `json:"post,omitempty"` // inner | panicifinner | ret | err | panic
	Limit    int     `json:"limit,omitempty"`

	err   error
	order []int
}

type caseT struct {
	Free     bool    `json:"free_schedule,omitempty"` // plain errgroup.Group, completion order left to the scheduler
	Log      string  `json:"recover_and_log,omitempty"`
	Limit    int     `json:"limit,omitempty"`
	Children []*node `json:"children"`
}

type idErr struct{ id int }

func (e *idErr) Error() string { return fmt.Sprintf("e%d", e.id) }

// returned errors whose concrete type is not pointer-like
type valErr struct{ id int }

func (e valErr) Error() string { return fmt.Sprintf("valErr%d", e.id) }

type sliceErr struct { // not comparable with ==
	id    int
	parts []string
}

func (e sliceErr) Error() string { return fmt.Sprintf("sliceErr%d%v", e.id, e.parts) }

type strErr string

func (e strErr) Error() string { return string(e) }

var errKinds = []string{"", "", "struct-value", "errno", "deadline", "ctx-err", "canceled", "uncomparable", "string-type", "wrapped", "joined"}

func makeErr(kind string, id int) error {
	switch kind {
	case "struct-value":
		return valErr{id}
	case "errno":
		return syscall.Errno(1000 + id)
	case "deadline":
		return context.DeadlineExceeded
	case "ctx-err":
		ctx, cancel := context.WithTimeout(context.Background(), time.Nanosecond)
		defer cancel()
		<-ctx.Done()
		return ctx.Err()
	case "canceled":
		return context.Canceled
	case "uncomparable":
		return sliceErr{id, []string{"a", "b"}}
	case "string-type":
		return strErr(fmt.Sprintf("strErr%d", id))
	case "wrapped":
		return fmt.Errorf("wrapped %d: %w", id, io.ErrUnexpectedEOF)
	case "joined":
		return errors.Join(&idErr{id}, io.EOF)
	}
	return &idErr{id}
}

// the id the model uses for the error value: equal values share an id
func modelID(kind string, id int) int {
	switch kind {
	case "deadline", "ctx-err":
		return 900001
	case "canceled":
		return 900002
	}
	return id
}

// sameErr: the identical error value (== on the interface; identity for pointers, value equality otherwise)
func sameErr(a, b error) (eq bool) {
	defer func() {
		if recover() != nil { // == on an uncomparable dynamic type
			sa, oka := a.(sliceErr)
			sb, okb := b.(sliceErr)
			eq = oka && okb && sa.id == sb.id && fmt.Sprint(sa.parts) == fmt.Sprint(sb.parts)
		}
	}()
	return a == b
}

type regEntry struct {
	err error
	id  int
}

// ---------- panic values ----------
type plainStruct struct {
	A int
	B string
}
type stringerT struct{}

func (stringerT) String() string { return "I am a Stringer" }

type badStringer struct{}

func (badStringer) String() string { panic("String method boom") }

type badError struct{}

func (badError) Error() string { panic("Error method boom") }

type ptrErr struct{ msg string }

func (p *ptrErr) Error() string { return p.msg }

type ptrStringer struct{ s string }

func (p *ptrStringer) String() string { return p.s }

type badErrorPtr struct{ m map[int]int }

func (p *badErrorPtr) Error() string { p.m[1] = 1; return "unreachable" } // nil map write: a runtime.Error inside Error()

type badBoth struct{}

func (badBoth) Error() string  { panic("Error of badBoth") }
func (badBoth) String() string { panic("String of badBoth") }

var zero = 0
var emptySlice = []int{}
var nilMap map[int]int
var nilPtr *plainStruct
var anyStr any = "s"
var minusOne = -1

var triggers = map[string]func(){
	"nil":                    func() { panic(nil) },
	"error":                  func() { panic(errors.New("plain error value")) },
	"wrapped-error":          func() { panic(fmt.Errorf("wrapped: %w", io.ErrUnexpectedEOF)) },
	"string":                 func() { panic("boom") },
	"empty-string":           func() { panic("") },
	"multiline":              func() { panic("line one\nline two\n") },
	"percent":                func() { panic("100%v %s %d") },
	"int":                    func() { panic(42) },
	"neg-int64":              func() { panic(int64(-9223372036854775807)) },
	"float":                  func() { panic(3.5) },
	"bool":                   func() { panic(true) },
	"struct":                 func() { panic(plainStruct{1, "x"}) },
	"ptr-struct":             func() { panic(&plainStruct{7, "p"}) },
	"slice":                  func() { panic([]int{1, 2, 3}) },
	"map":                    func() { panic(map[string]int{"a": 1}) },
	"stringer":               func() { panic(stringerT{}) },
	"bad-stringer":           func() { panic(badStringer{}) },
	"bad-error":              func() { panic(badError{}) },
	"nil-ptr-error":          func() { var p *ptrErr; panic(error(p)) },
	"nil-ptr-error-direct":   func() { var p *ptrErr; panic(p) },
	"nil-ptr-stringer":       func() { var p *ptrStringer; panic(p) },
	"bad-error-ptr":          func() { panic(&badErrorPtr{}) },
	"bad-error-and-stringer": func() { panic(badBoth{}) },
	"long-string":            func() { panic(strings.Repeat("0123456789abcdef", 20)) },
	"utf8":                   func() { panic("päńíč 日本") },
	"rt-nil-deref":           func() { _ = nilPtr.A },
	"rt-index":               func() { _ = emptySlice[zero+3] },
	"rt-divide":              func() { _ = 1 / zero },
	"rt-nil-map":             func() { nilMap[1] = 1 },
	"rt-type-assert":         func() { _ = anyStr.(int) },
	"rt-close-nil":           func() { var ch chan int; close(ch) },
	"rt-close-twice":         func() { ch := make(chan int); close(ch); close(ch) },
	"rt-neg-make":            func() { _ = make([]int, minusOne) },
	"rt-slice-range":         func() { _ = emptySlice[zero+2 : 1] },
	"panic-in-defer":         func() { defer func() { panic("second panic") }(); panic("first panic") },
	"repanic":                func() { defer func() { r := recover(); panic(fmt.Sprint("re-panic of ", r)) }(); panic("original") },
}
var pvKinds = lib.SortedKeys(triggers)

// the %v text of the value the trigger panics with (fmt and recover are the oracle for that)
func textOf(kind string) (s string) {
	defer func() { s = fmt.Sprintf("%v", recover()) }()
	triggers[kind]()
	return
}

const innerFailed = "inner group failed"

// ---------- running ----------
type grp struct {
	g      *errgroup.Group
	ctx    context.Context
	won    atomic.Int32
	forced bool
}

func newGrp(forced bool, limit int) *grp {
	G := &grp{forced: forced}
	if forced {
		G.g, G.ctx = errgroup.WithContext(context.Background())
	} else {
		G.g = new(errgroup.Group)
	}
	if limit > 0 {
		G.g.SetLimit(limit)
	}
	G.won.Store(-1)
	return G
}

// A member about to hand an error to the group calls turn: the first one goes ahead (it completes first among the
// failing members); the others wait until the group has recorded that error (errgroup cancels the context inside
// errOnce), so the completion order that decides Wait() is known: the winner first.
func (G *grp) turn(i int) {
	if !G.forced {
		return
	}
	if G.won.CompareAndSwap(-1, int32(i)) {
		return
	}
	select {
	case <-G.ctx.Done():
	case <-time.After(3 * time.Second): // the winner's error never reached the group: do not hang, the predicate will object
		turnTimeouts.Add(1)
	}
}

var turnTimeouts atomic.Int32

func (G *grp) order(n int) []int {
	w := int(G.won.Load())
	o := []int{}
	if w >= 0 {
		o = append(o, w)
	}
	for i := 0; i < n; i++ {
		if i != w {
			o = append(o, i)
		}
	}
	return o
}

func mk(n *node, G *grp, i int, forced bool) func() error {
	return func() error {
		switch n.Kind {
		case "ret":
			return nil
		case "err":
			G.turn(i)
			return n.err
		case "panic":
			G.turn(i)
			triggers[n.PV]()
		case "goexit":
			runtime.Goexit()
		case "nest":
			inner := newGrp(forced, n.Limit)
			for j, c := range n.Children {
				errguard.Go(inner.g, mk(c, inner, j, forced))
			}
			w := inner.g.Wait()
			n.order = inner.order(len(n.Children))
			switch n.Post {
			case "inner":
				if w != nil {
					G.turn(i)
				}
				return w
			case "panicifinner":
				if w != nil {
					G.turn(i)
					panic(innerFailed)
				}
				return nil
			case "ret":
				return nil
			case "err":
				G.turn(i)
				return n.err
			case "panic":
				G.turn(i)
				triggers[n.PV]()
			}
		}
		panic("driver: unreachable")
	}
}

// ---------- expectations (written independently of the Coq model) ----------
// fails: the member hands a non-nil error to its group
func fails(n *node) bool {
	switch n.Kind {
	case "err", "panic":
		return true
	case "nest":
		switch n.Post {
		case "inner", "panicifinner":
			for _, c := range n.Children {
				if fails(c) {
					return true
				}
			}
			return false
		case "err", "panic":
			return true
		}
	}
	return false
}

// candidate results of a member: identified errors it may hand over unchanged, and panic texts it may be recovered with
func candidates(n *node, ids map[int]bool, texts map[string]bool) {
	switch n.Kind {
	case "err":
		ids[modelID(n.ErrKind, n.ErrID)] = true
	case "panic":
		texts[textOf(n.PV)] = true
	case "nest":
		switch n.Post {
		case "inner":
			for _, c := range n.Children {
				candidates(c, ids, texts)
			}
		case "panicifinner":
			texts[innerFailed] = true
		case "err":
			ids[modelID(n.ErrKind, n.ErrID)] = true
		case "panic":
			texts[textOf(n.PV)] = true
		}
	}
}

func prepare(n *node, reg *[]regEntry, count func(string)) {
	if n.Kind == "err" || (n.Kind == "nest" && n.Post == "err") {
		n.err = makeErr(n.ErrKind, n.ErrID)
		*reg = append(*reg, regEntry{n.err, modelID(n.ErrKind, n.ErrID)})
		k := n.ErrKind
		if k == "" {
			k = "pointer"
		}
		count("returned_error_type_" + k)
	}
	if n.Kind == "nest" {
		count("member_nested_group/post_" + n.Post)
	} else if n.Kind == "panic" {
		count("member_panic")
	} else {
		count("member_" + n.Kind)
	}
	if n.Kind == "panic" || (n.Kind == "nest" && n.Post == "panic") {
		count("panic_value_" + n.PV)
	}
	for _, c := range n.Children {
		prepare(c, reg, count)
	}
}

func coqOrder(o []int) string { return lib.CoqListOf(o, lib.CoqNat) + "%nat" }

func coqNode(n *node) string {
	optID := func(k string) string {
		if k == "err" {
			return fmt.Sprintf("(Some %d)", modelID(n.ErrKind, n.ErrID))
		}
		return "None"
	}
	switch n.Kind {
	case "ret", "err":
		return "Ret " + optID(n.Kind)
	case "panic":
		return "Pan " + lib.CoqStr(textOf(n.PV))
	case "goexit":
		return "Goexit"
	}
	var post string
	switch n.Post {
	case "inner":
		post = "PReturnInner"
	case "panicifinner":
		post = "(PPanicIfInner " + lib.CoqStr(innerFailed) + ")"
	case "ret", "err":
		post = "(PRet " + optID(n.Post) + ")"
	case "panic":
		post = "(PPan " + lib.CoqStr(textOf(n.PV)) + ")"
	}
	o := n.order
	if o == nil { // never ran (cannot happen: every spawned member runs)
		o = []int{}
	}
	return fmt.Sprintf("Nest %s %s %s", coqOrder(o), lib.CoqListOf(n.Children, func(c *node) string { return "(" + coqNode(c) + ")" }), post)
}

var currentFile string

func run(c *lib.Ctx, cs caseT) {
	if currentFile != "" {
		b, _ := json.Marshal(cs)
		_ = os.WriteFile(currentFile, b, 0o644)
	}
	if cs.Log != "" { // errguard.RecoverAndLog: the goroutine's panic is swallowed and logged
		done := make(chan struct{})
		go func() {
			defer close(done)
			defer errguard.RecoverAndLog("c48 goroutine")
			triggers[cs.Log]()
		}()
		<-done
		c.Count("recover_and_log")
		c.Count("panic_value_" + cs.Log)
		c.CaseNoModel(cs, "")
		c.PredChecked()
		return
	}
	reg := []regEntry{}
	for _, n := range cs.Children {
		prepare(n, &reg, c.Count)
	}
	top := newGrp(!cs.Free, cs.Limit)
	for i, n := range cs.Children {
		errguard.Go(top.g, mk(n, top, i, !cs.Free))
	}
	err := top.g.Wait()

	// classify the observation
	obs, kind := "ObsOther", "other"
	gotID := 0
	msg := ""
	if err != nil {
		for _, e := range reg {
			if sameErr(err, e.err) {
				gotID = e.id
			}
		}
	}
	if err == nil {
		obs, kind = "ObsNil", "nil"
	} else if gotID != 0 {
		obs, kind = fmt.Sprintf("(ObsErr %d)", gotID), "same-error"
	} else {
		msg = err.Error()
		if idx := strings.Index(msg, "\ngoroutine "); idx >= 0 && strings.HasPrefix(msg, "panic recovered: ") {
			obs, kind = "(ObsRec "+lib.CoqStr(msg[:idx+len("\ngoroutine ")])+")", "recovered-panic"
		}
	}
	c.Count("wait_" + kind)
	c.Count(fmt.Sprintf("members_%s", bucket(len(cs.Children))))
	key := ""
	anyFail := false
	for _, n := range cs.Children {
		anyFail = anyFail || fails(n)
	}
	if anyFail {
		key = fmt.Sprintf("%v", mustJSON(cs))
	}
	var id int
	if cs.Free {
		c.Count("schedule_free(predicate only)")
		id = c.CaseNoModel(cs, key)
	} else {
		c.Count("schedule_recorded")
		term := lib.CoqTuple(coqOrder(top.order(len(cs.Children))),
			lib.CoqListOf(cs.Children, func(n *node) string { return coqNode(n) }), obs)
		id = c.Case(term, cs, key)
	}

	// the property on the implementation alone (reaching this line at all = no panic escaped)
	c.PredChecked()
	ids, texts := map[int]bool{}, map[string]bool{}
	pool := cs.Children
	if w := int(top.won.Load()); !cs.Free && w >= 0 {
		pool = cs.Children[w : w+1] // the member that completed first among the failing ones decides
	}
	for _, n := range pool {
		candidates(n, ids, texts)
	}
	switch {
	case err == nil && anyFail:
		c.PredFail(id, "wait-nil-although-a-member-failed", "Wait() = nil although a member returned an error or panicked", cs)
	case err != nil && !anyFail:
		c.PredFail(id, "wait-error-although-all-members-nil", fmt.Sprintf("Wait() = %.200q although every member ended with nil", err.Error()), cs)
	case err == nil:
	case gotID != 0:
		if !ids[gotID] {
			c.PredFail(id, "wait-returns-error-of-a-member-that-cannot-be-first", fmt.Sprintf("Wait() = %v, not an error of the member that completed first", err), cs)
		}
	case kind == "recovered-panic" && len(texts) == 0:
		c.PredFail(id, "returned-error-not-propagated-unchanged", fmt.Sprintf("the deciding member RETURNED an error, but Wait() = %.200q (%T): not that error value", msg, err), cs)
	case kind == "recovered-panic":
		ok := false
		for t := range texts {
			if strings.HasPrefix(msg, "panic recovered: "+t+"\ngoroutine ") {
				ok = true
			}
		}
		if !ok {
			c.PredFail(id, "panic-message-lacks-panic-value", fmt.Sprintf("Wait() = %.300q does not carry the %%v text of a panic value of the deciding member %q", msg, lib.SortedKeys(texts)), cs)
		}
	default:
		if len(ids) > 0 && len(texts) == 0 {
			c.PredFail(id, "returned-error-not-propagated-unchanged", fmt.Sprintf("Wait() = %.200q (%T) is not the identical error value a member returned", err.Error(), err), cs)
		} else {
			c.PredFail(id, "panic-not-converted-to-panic-recovered-error", fmt.Sprintf("Wait() = %.200q", err.Error()), cs)
		}
	}
}

func bucket(n int) string {
	switch {
	case n <= 1:
		return "1"
	case n <= 4:
		return "2-4"
	case n <= 16:
		return "5-16"
	}
	return "17-64"
}

func mustJSON(v interface{}) string { b, _ := json.Marshal(v); return string(b) }

// ---------- generator ----------
var nextID int

func genNode(r *lib.RNG, depth int) *node {
	x := r.Intn(100)
	switch {
	case x < 30:
		return &node{Kind: "ret"}
	case x < 45:
		nextID++
		return &node{Kind: "err", ErrID: nextID, ErrKind: lib.Pick(r, errKinds)}
	case x < 75 || depth >= 3:
		return &node{Kind: "panic", PV: lib.Pick(r, pvKinds)}
	case x < 80:
		return &node{Kind: "goexit"}
	}
	n := &node{Kind: "nest", Post: lib.Pick(r, []string{"inner", "inner", "inner", "panicifinner", "ret", "err", "panic"})}
	if n.Post == "err" {
		nextID++
		n.ErrID = nextID
	}
	if n.Post == "panic" {
		n.PV = lib.Pick(r, pvKinds)
	}
	if r.Chance(1, 6) {
		n.Limit = r.Range(1, 3)
	}
	k := r.Range(1, 5)
	for i := 0; i < k; i++ {
		n.Children = append(n.Children, genNode(r, depth+1))
	}
	return n
}

func gen(r *lib.RNG) caseT {
	nextID = 0
	var cs caseT
	if r.Chance(1, 25) {
		return caseT{Log: lib.Pick(r, pvKinds), Children: []*node{}}
	}
	cs.Free = r.Chance(1, 5)
	k := r.Range(1, 6)
	if r.Chance(1, 8) {
		k = r.Range(7, 64)
	}
	if r.Chance(1, 8) {
		cs.Limit = r.Range(1, 4)
	}
	mostlyOK := r.Chance(1, 4) // many all-nil groups and groups with a single failing member
	for i := 0; i < k; i++ {
		if mostlyOK && !r.Chance(1, k) {
			cs.Children = append(cs.Children, &node{Kind: lib.Pick(r, []string{"ret", "ret", "ret", "goexit"})})
		} else {
			cs.Children = append(cs.Children, genNode(r, 1))
		}
	}
	return cs
}

func body(c *lib.Ctx) {
	logrus.SetOutput(io.Discard)
	c.Header = "From Coq Require Import List NArith.\nImport ListNotations.\nFrom GMS Require Import Sys.ErrGuard Corr.C48.\nOpen Scope N_scope."
	c.CaseType = "C48.case"
	c.MismatchFn = "C48.mismatches"
	c.SetRule(fmt.Sprintf("groups of 1-64 functions started with the real errguard.Go on errgroup groups (with and without SetLimit); every "+
		"function returns nil, returns an error (a unique pointer, or a value-typed error: struct, string type, syscall.Errno, context.DeadlineExceeded / ctx.Err() / Canceled, an uncomparable struct, a wrapped or joined error), panics with one of %d kinds of values (nil, errors, typed-nil pointer errors / Stringers, strings, numbers, structs, "+
		"pointers, slices, maps, Stringers, values whose String/Error method panics, runtime.Errors from nil dereference / index / "+
		"divide / nil map / type assertion / close / make, panics during panicking), calls runtime.Goexit, or runs a nested guarded "+
		"group (depth <= 3) and returns its result / panics on it / ignores it. 4/5 of the groups use errgroup.WithContext so that "+
		"the driver can make one failing member complete first and record that completion order for the model; 1/5 leave the order "+
		"to the scheduler (predicate only); 1/25 exercise RecoverAndLog. Non-trivial = at least one member fails.", len(pvKinds)))
	currentFile = filepath.Join(c.OutDir, "current.json")
	if c.ReplayFile != "" {
		var cs caseT
		lib.LoadReplay(c.ReplayFile, &cs)
		run(c, cs)
		return
	}
	var corpus []caseT
	// the pinned tests
	corpus = append(corpus, caseT{Children: []*node{{Kind: "err", ErrID: 1}}}, caseT{Children: []*node{{Kind: "panic", PV: "string"}}})
	// every panic value kind alone, and next to a returned error
	for _, k := range pvKinds {
		corpus = append(corpus, caseT{Children: []*node{{Kind: "panic", PV: k}}})
		corpus = append(corpus, caseT{Children: []*node{{Kind: "ret"}, {Kind: "panic", PV: k}, {Kind: "goexit"}}})
		corpus = append(corpus, caseT{Log: k, Children: []*node{}})
	}
	for i, k := range errKinds[1:] {
		corpus = append(corpus, caseT{Children: []*node{{Kind: "err", ErrID: 1, ErrKind: k}}})
		corpus = append(corpus, caseT{Children: []*node{{Kind: "ret"}, {Kind: "err", ErrID: 2 + i, ErrKind: k}, {Kind: "goexit"}}})
		corpus = append(corpus, caseT{Children: []*node{{Kind: "nest", Post: "inner", Children: []*node{{Kind: "err", ErrID: 3, ErrKind: k}, {Kind: "ret"}}}}})
		corpus = append(corpus, caseT{Free: true, Children: []*node{{Kind: "err", ErrID: 4, ErrKind: k}}})
	}
	corpus = append(corpus,
		caseT{Children: []*node{{Kind: "ret"}, {Kind: "goexit"}, {Kind: "ret"}}},
		caseT{Children: []*node{{Kind: "goexit"}}},
		caseT{Children: []*node{{Kind: "nest", Post: "inner", Children: []*node{{Kind: "ret"}, {Kind: "nest", Post: "inner", Children: []*node{{Kind: "panic", PV: "rt-nil-deref"}}}}}, {Kind: "ret"}}},
		caseT{Children: []*node{{Kind: "nest", Post: "panicifinner", Children: []*node{{Kind: "err", ErrID: 1}}}, {Kind: "err", ErrID: 2}}},
		caseT{Children: []*node{{Kind: "nest", Post: "ret", Children: []*node{{Kind: "panic", PV: "nil"}, {Kind: "err", ErrID: 1}}}}},
		caseT{Limit: 1, Children: []*node{{Kind: "err", ErrID: 1}, {Kind: "panic", PV: "error"}, {Kind: "err", ErrID: 2}, {Kind: "ret"}}},
		caseT{Free: true, Children: []*node{{Kind: "err", ErrID: 1}, {Kind: "panic", PV: "int"}, {Kind: "ret"}}},
	)
	many := caseT{}
	for i := 0; i < 64; i++ {
		many.Children = append(many.Children, &node{Kind: "panic", PV: pvKinds[i%len(pvKinds)]})
	}
	corpus = append(corpus, many)
	for _, cs := range corpus {
		run(c, cs)
	}
	for i := len(corpus); i < c.N; i++ {
		run(c, gen(c.R.Fork()))
	}
	_ = os.Remove(currentFile)
}

func outDir() string {
	for i, a := range os.Args {
		if (a == "-out" || a == "--out") && i+1 < len(os.Args) {
			return os.Args[i+1]
		}
		if strings.HasPrefix(a, "-out=") || strings.HasPrefix(a, "--out=") {
			return a[strings.Index(a, "=")+1:]
		}
	}
	return ""
}

func main() {
	if os.Getenv("C48_CHILD") != "" {
		lib.Main("C48", body)
		return
	}
	cmd := exec.Command(os.Args[0], os.Args[1:]...)
	cmd.Env = append(os.Environ(), "C48_CHILD=1")
	out, err := cmd.CombinedOutput()
	if err == nil {
		os.Stdout.Write(out)
		return
	}
	// the child died: a panic escaped a goroutine (or the driver itself is broken); report the case that was running
	tail := string(out)
	if len(tail) > 1500 {
		tail = tail[:1500]
	}
	fmt.Fprintln(os.Stderr, "C48 child process died:", err, "\n", tail)
	cur, rerr := os.ReadFile(filepath.Join(outDir(), "current.json"))
	if rerr != nil {
		os.Exit(3)
	}
	lib.Main("C48", func(c *lib.Ctx) {
		var cs caseT
		_ = json.Unmarshal(cur, &cs)
		c.SetRule("the child process running the cases died; only the case that was running is reported")
		id := c.CaseNoModel(cs, "crash")
		c.PredChecked()
		first := strings.SplitN(tail, "\n", 2)[0]
		c.PredFail(id, "process-crashed", "the process died while this group was running: "+first, cs)
	})
}
