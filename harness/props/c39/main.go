// Driver for C39 (privilege checks): runs generated CREATE USER/ROLE, GRANT, REVOKE, GRANT role, DROP histories through
// the real engine with the mysql database enabled, then probes statements of each privilege class as each account's
// session.  Observed allow/deny is recorded for the Coq model and compared with an independent Go reference that keeps a
// set of granted (level, object, privilege) facts; a denied statement must leave the databases unchanged.
package main

import (
	"context"
	"fmt"
	"sort"
	"strings"

	"github.com/dolthub/go-mysql-server/memory"
	"github.com/dolthub/go-mysql-server/sql"
	"github.com/dolthub/go-mysql-server/sql/mysql_db"

	"verifharness/lib"
	"verifharness/lib/eng"
)

// ---------- case description ----------
type stmtT struct {
	Kind  string   `json:"kind"` // create-user create-role drop grant revoke grant-all revoke-all grant-role revoke-role
	User  string   `json:"user"`
	Role  string   `json:"role,omitempty"`
	DB    string   `json:"db,omitempty"`  // "" = global
	Tbl   string   `json:"tbl,omitempty"` // "" = database level
	Privs []string `json:"privs,omitempty"`
	Probe int      `json:"probe,omitempty"` // kind "probe": index into probeDefs, run as User in the middle of the history
}

type probeT struct {
	User    string `json:"user"`
	Class   string `json:"class"`
	SQL     string `json:"sql,omitempty"`
	Allowed bool   `json:"allowed"`
	Err     string `json:"err,omitempty"`
}

type caseT struct {
	History []stmtT  `json:"history"`
	Probes  []probeT `json:"probes,omitempty"`
}

var privCode = map[string]int{"SELECT": 0, "INSERT": 1, "UPDATE": 2, "DELETE": 3, "CREATE": 4, "DROP": 5, "INDEX": 12,
	"ALTER": 13, "SUPER": 15, "CREATE USER": 25, "RELOAD": 6}
var globalPrivs = []string{"SELECT", "INSERT", "UPDATE", "DELETE", "CREATE", "DROP", "INDEX", "SUPER", "CREATE USER", "RELOAD"}
var dbPrivs = []string{"SELECT", "INSERT", "UPDATE", "DELETE", "CREATE", "DROP", "INDEX", "ALTER"}
var tblPrivs = []string{"SELECT", "INSERT", "UPDATE", "DELETE", "DROP", "INDEX", "ALTER"}
var allGlobal = []int{0, 1, 2, 3, 4, 5, 6, 7, 8, 9, 11, 12, 13, 14, 15, 16, 17, 18, 19, 20, 21, 22, 23, 24, 25, 26, 27, 28, 29, 30}
var allDB = []int{13, 24, 4, 23, 16, 21, 3, 5, 26, 18, 12, 1, 17, 11, 0, 22, 27, 2}
var allTbl = []int{13, 4, 21, 3, 5, 12, 1, 11, 0, 22, 27, 2}

var userNames = []string{"u1", "u2", "u3"}
var roleNames = []string{"r1", "r2"}
var dbNames = []string{"db", "db2"}
var tblNames = []string{"t", "s"}
var dbOnlyTblNames = []string{"t", "s", "ma", "mb"} // tables of database db that grants may name

func isRole(n string) bool { return strings.HasPrefix(n, "r") }

func acct(n string) string {
	if isRole(n) {
		return "`" + n + "`@`%`"
	}
	return "`" + n + "`@`localhost`"
}

func levelSQL(s stmtT) string {
	switch {
	case s.DB == "":
		return "*.*"
	case s.Tbl == "":
		return "`" + s.DB + "`.*"
	default:
		return "`" + s.DB + "`.`" + s.Tbl + "`"
	}
}

func (s stmtT) SQL() string {
	switch s.Kind {
	case "create-user":
		return "CREATE USER " + acct(s.User)
	case "create-role":
		return "CREATE ROLE " + s.User
	case "drop":
		if isRole(s.User) {
			return "DROP ROLE " + s.User
		}
		return "DROP USER " + acct(s.User)
	case "grant":
		return "GRANT " + strings.Join(s.Privs, ", ") + " ON " + levelSQL(s) + " TO " + acct(s.User)
	case "revoke":
		return "REVOKE " + strings.Join(s.Privs, ", ") + " ON " + levelSQL(s) + " FROM " + acct(s.User)
	case "grant-all":
		return "GRANT ALL ON " + levelSQL(s) + " TO " + acct(s.User)
	case "revoke-all":
		return "REVOKE ALL ON " + levelSQL(s) + " FROM " + acct(s.User)
	case "grant-role":
		return "GRANT " + acct(s.Role) + " TO " + acct(s.User)
	case "revoke-role":
		return "REVOKE " + acct(s.Role) + " FROM " + acct(s.User)
	}
	panic("bad stmt kind " + s.Kind)
}

func coqLevel(s stmtT) string {
	switch {
	case s.DB == "":
		return "LG"
	case s.Tbl == "":
		return "(LD " + lib.CoqStr(s.DB) + ")"
	default:
		return "(LT " + lib.CoqStr(s.DB) + " " + lib.CoqStr(s.Tbl) + ")"
	}
}

func coqPrivs(ps []string) string {
	return lib.CoqListOf(ps, func(p string) string { return fmt.Sprint(privCode[p]) })
}

func (s stmtT) Coq() string {
	u := lib.CoqStr(s.User)
	switch s.Kind {
	case "create-user", "create-role":
		return "(SCreate " + u + ")"
	case "drop":
		return "(SDrop " + u + ")"
	case "grant":
		return fmt.Sprintf("(SGrant %s %s %s)", u, coqLevel(s), coqPrivs(s.Privs))
	case "revoke":
		return fmt.Sprintf("(SRevoke %s %s %s)", u, coqLevel(s), coqPrivs(s.Privs))
	case "grant-all":
		return fmt.Sprintf("(SGrantAll %s %s)", u, coqLevel(s))
	case "revoke-all":
		return fmt.Sprintf("(SRevokeAll %s %s)", u, coqLevel(s))
	case "grant-role":
		return fmt.Sprintf("(SGrantRole %s %s)", lib.CoqStr(s.Role), u)
	case "revoke-role":
		return fmt.Sprintf("(SRevokeRole %s %s)", lib.CoqStr(s.Role), u)
	}
	panic("bad stmt kind")
}

// ---------- independent reference: a set of granted facts per account ----------
type ref struct {
	facts map[string]map[string]bool // account -> "g||p" / "d|db||p" / "t|db|tbl|p"
	edges map[string]map[string]bool // grantee -> roles
	// for narrow signatures: table-level grants that a later database-level REVOKE should not have touched
	dbRevokeAfterTblGrant map[string]bool // account|db
	// q1: this copy additionally applies known root cause Q1 (a database-level REVOKE that leaves no database-level
	// privilege drops the table-level grants of that database).  Used ONLY to name the root cause of a predicate
	// failure, never to decide whether there is one.
	q1 bool
}

func newRef() *ref {
	return &ref{facts: map[string]map[string]bool{}, edges: map[string]map[string]bool{}, dbRevokeAfterTblGrant: map[string]bool{}}
}

func factKey(db, tbl string, p int) string {
	switch {
	case db == "":
		return fmt.Sprintf("g|||%d", p)
	case tbl == "":
		return fmt.Sprintf("d|%s||%d", db, p)
	default:
		return fmt.Sprintf("t|%s|%s|%d", db, tbl, p)
	}
}

func allAt(s stmtT) []int {
	switch {
	case s.DB == "":
		return allGlobal
	case s.Tbl == "":
		return allDB
	default:
		return allTbl
	}
}

func (r *ref) apply(s stmtT) {
	fs, exists := r.facts[s.User]
	switch s.Kind {
	case "create-user", "create-role":
		if !exists {
			r.facts[s.User] = map[string]bool{}
		}
	case "drop":
		if exists {
			delete(r.facts, s.User)
			delete(r.edges, s.User)
			for _, roles := range r.edges {
				delete(roles, s.User)
			}
		}
	case "grant":
		if exists {
			for _, p := range s.Privs {
				fs[factKey(s.DB, s.Tbl, privCode[p])] = true
			}
		}
	case "revoke":
		if exists {
			for _, p := range s.Privs {
				delete(fs, factKey(s.DB, s.Tbl, privCode[p]))
			}
			r.noteDbRevoke(s)
		}
	case "grant-all":
		if exists {
			for _, p := range allAt(s) {
				fs[factKey(s.DB, s.Tbl, p)] = true
			}
		}
	case "revoke-all": // removes the privileges of exactly that level
		if exists {
			for _, p := range allAt(s) {
				delete(fs, factKey(s.DB, s.Tbl, p))
			}
			// privileges outside the ALL list of the level (e.g. ALTER is in every list; SUPER only global)
			for k := range fs {
				if strings.HasPrefix(k, factKey(s.DB, s.Tbl, 0)[:len(factKey(s.DB, s.Tbl, 0))-1]) {
					delete(fs, k)
				}
			}
			r.noteDbRevoke(s)
		}
	case "grant-role":
		_, roleExists := r.facts[s.Role]
		if exists && roleExists {
			if r.edges[s.User] == nil {
				r.edges[s.User] = map[string]bool{}
			}
			r.edges[s.User][s.Role] = true
		}
	case "revoke-role":
		if r.edges[s.User] != nil {
			delete(r.edges[s.User], s.Role)
		}
	}
}

func (r *ref) noteDbRevoke(s stmtT) {
	if r.q1 && s.DB != "" && s.Tbl == "" {
		left := false
		for k := range r.facts[s.User] {
			if strings.HasPrefix(k, "d|"+s.DB+"|") {
				left = true
			}
		}
		if !left {
			for k := range r.facts[s.User] {
				if strings.HasPrefix(k, "t|"+s.DB+"|") {
					delete(r.facts[s.User], k)
				}
			}
		}
	}
	if s.DB != "" && s.Tbl == "" {
		for k := range r.facts[s.User] {
			if strings.HasPrefix(k, "t|"+s.DB+"|") {
				r.dbRevokeAfterTblGrant[s.User+"|"+s.DB] = true
			}
		}
	}
}

// anyOn: does u (or a granted role) hold any global privilege or anything on database db?
func (r *ref) anyOn(u, db string) bool {
	names := []string{u}
	for role := range r.edges[u] {
		names = append(names, role)
	}
	for _, n := range names {
		for k := range r.facts[n] {
			if strings.HasPrefix(k, "g|") || strings.HasPrefix(k, "d|"+db+"|") || strings.HasPrefix(k, "t|"+db+"|") {
				return true
			}
		}
	}
	return false
}

type need struct {
	db, tbl string
	priv    int
}

// has: does account u (with all its granted roles) hold a fact covering the need, or SUPER?
func (r *ref) has(u string, n need) (bool, string) {
	fs, ok := r.facts[u]
	if !ok {
		return false, ""
	}
	sets := map[string]map[string]bool{u: fs}
	for role := range r.edges[u] {
		if rf, ok := r.facts[role]; ok {
			sets[role] = rf
		}
	}
	for who, s := range sets {
		if s[factKey("", "", 15)] || s[factKey("", "", n.priv)] || s[factKey(n.db, "", n.priv)] || s[factKey(n.db, n.tbl, n.priv)] {
			via := ""
			if s[factKey(n.db, n.tbl, n.priv)] && !(s[factKey("", "", 15)] || s[factKey("", "", n.priv)] || s[factKey(n.db, "", n.priv)]) {
				via = who + "|" + n.db
			}
			return true, via
		}
	}
	return false, ""
}

// ---------- engine ----------
func sessAs(e *eng.E, user, host string, id uint32) *eng.S {
	base := sql.NewBaseSessionWithClientServer("srv", sql.Client{User: user, Address: host}, id)
	sess := memory.NewSession(base, e.Pro)
	ctx := sql.NewContext(context.Background(), sql.WithSession(sess))
	ctx.SetCurrentDatabase(e.DB)
	return &eng.S{E: e, Ctx: ctx, ID: id}
}

func snapshot(root *eng.S) string {
	var sb strings.Builder
	for _, d := range dbNames {
		r := root.Query("SHOW TABLES FROM " + d)
		names := eng.Bag(r.Rows)
		sb.WriteString(d + ":" + strings.Join(names, ",") + ";")
		for _, row := range r.Rows {
			t := fmt.Sprint(row[0])
			q := root.Query("SELECT * FROM `" + d + "`.`" + t + "`")
			sb.WriteString(t + "=" + strings.Join(eng.Bag(q.Rows), "/") + fmt.Sprint(len(q.Schema)) + ";")
			if t == "t" && d == "db" {
				ix := root.Query("SHOW INDEXES FROM `" + d + "`.`" + t + "`")
				sb.WriteString(fmt.Sprint(len(ix.Rows)) + ";")
			}
		}
	}
	u := root.Query("SELECT user, host FROM mysql.user")
	sb.WriteString("users=" + strings.Join(eng.Bag(u.Rows), "/"))
	return sb.String()
}

type probeDef struct {
	class string
	needs func(k int) []need
	sql   func(k int) string
	prep  func(k int) string // run by root before the probe ("" = none)
}

// unfilteredDeleteElsewhere: DELETE without WHERE/LIMIT on a table qualified with a database other than the session's
// current one (such a DELETE is converted to TRUNCATE by analyzer/process_truncate.go).
func unfilteredDeleteElsewhere(q, curDB string) bool {
	up := strings.ToUpper(q)
	if !strings.HasPrefix(up, "DELETE FROM ") || strings.Contains(up, " WHERE ") || strings.Contains(up, " LIMIT ") {
		return false
	}
	name := strings.Fields(q[len("DELETE FROM "):])[0]
	i := strings.Index(name, ".")
	return i > 0 && !strings.EqualFold(strings.Trim(name[:i], "`"), curDB)
}

var probeDefs = []probeDef{
	{"select/db.t", func(int) []need { return []need{{"db", "t", 0}} }, func(int) string { return "SELECT a FROM db.t" }, nil},
	{"select/db.s", func(int) []need { return []need{{"db", "s", 0}} }, func(int) string { return "SELECT a FROM s" }, nil},
	{"select/db2.t", func(int) []need { return []need{{"db2", "t", 0}} }, func(int) string { return "SELECT a FROM db2.t" }, nil},
	{"insert/db.t", func(int) []need { return []need{{"db", "t", 1}} }, func(k int) string { return fmt.Sprintf("INSERT INTO db.t VALUES (%d, 0)", 1000+k) }, nil},
	{"insert/db2.s", func(int) []need { return []need{{"db2", "s", 1}} }, func(k int) string { return fmt.Sprintf("INSERT INTO db2.s VALUES (%d, 0)", 1000+k) }, nil},
	{"update/db.s", func(int) []need { return []need{{"db", "s", 2}} }, func(k int) string { return fmt.Sprintf("UPDATE db.s SET b = %d", k) }, nil},
	{"delete/db2.t", func(int) []need { return []need{{"db2", "t", 3}} }, func(int) string { return "DELETE FROM db2.t" }, nil},
	{"delete-where/db2.t", func(int) []need { return []need{{"db2", "t", 3}} }, func(int) string { return "DELETE FROM db2.t WHERE a < 0" }, nil},
	{"create-table/db", func(k int) []need { return []need{{"db", fmt.Sprintf("n%d", k), 4}} }, func(k int) string { return fmt.Sprintf("CREATE TABLE db.n%d (a int primary key)", k) }, nil},
	{"drop-table/db2", func(k int) []need { return []need{{"db2", fmt.Sprintf("d%d", k), 5}} }, func(k int) string { return fmt.Sprintf("DROP TABLE db2.d%d", k) },
		func(k int) string { return fmt.Sprintf("CREATE TABLE db2.d%d (a int primary key)", k) }},
	{"create-index/db.t", func(int) []need { return []need{{"db", "t", 12}} }, func(k int) string { return fmt.Sprintf("CREATE INDEX i%d ON db.t (b)", k) }, nil},
	{"create-user/global", func(int) []need { return []need{{"db", "", 25}} }, func(k int) string { return fmt.Sprintf("CREATE USER x%d@localhost", k) }, nil},
	// multi-target statement: every listed table needs the privilege
	{"drop-tables/db.ma,db.mb", func(int) []need { return []need{{"db", "ma", 5}, {"db", "mb", 5}} }, func(int) string { return "DROP TABLE db.ma, db.mb" },
		func(int) string {
			return "CREATE TABLE IF NOT EXISTS db.ma (a int primary key); CREATE TABLE IF NOT EXISTS db.mb (a int primary key)"
		}},
}

func run(c *lib.Ctx, cs caseT) {
	e := eng.New("db")
	mdb := e.Engine.Analyzer.Catalog.MySQLDb
	mdb.AddRootAccount()
	mdb.SetPersister(&mysql_db.NoopPersister{})
	root := e.Session()
	root.MustExec("CREATE DATABASE db2",
		"CREATE TABLE db.t (a int primary key, b int)", "CREATE TABLE db.s (a int primary key, b int)",
		"CREATE TABLE db2.t (a int primary key, b int)", "CREATE TABLE db2.s (a int primary key, b int)",
		"INSERT INTO db.t VALUES (1,1),(2,2)", "INSERT INTO db.s VALUES (1,1)", "INSERT INTO db2.t VALUES (1,1)")
	rf := newRef()
	rq := newRef() // root-cause classification only
	rq.q1 = true
	cs.Probes = nil
	type pf struct{ sig, what string }
	var fails []pf
	k := 0
	var sid uint32 = 100
	nontrivial := 0
	var items []string
	before := ""
	doProbe := func(u string, pi int) {
		pd := probeDefs[pi]
		sid++
		us := sessAs(e, u, "localhost", sid) // a fresh session: its privilege cache starts empty
		k++
		if pd.prep != nil {
			for _, q := range strings.Split(pd.prep(k), "; ") {
				root.MustExec(q)
			}
			before = ""
		}
		if before == "" {
			before = snapshot(root)
		}
		q := pd.sql(k)
		r := us.Query(q)
		kind := eng.ErrKind(r.Err)
		allowed := r.Err == nil
		p := probeT{User: u, Class: pd.class, SQL: q, Allowed: allowed}
		if r.Err != nil {
			p.Err = r.Err.Error()
		}
		cs.Probes = append(cs.Probes, p)
		needs := pd.needs(k)
		want := true
		for _, n := range needs {
			ok, _ := rf.has(u, n)
			want = want && ok
		}
		items = append(items, fmt.Sprintf("(IProbe %s %d %s)", lib.CoqStr(u), pi, lib.CoqBool(allowed)))
		kindOf := strings.SplitN(pd.class, "/", 2)[0]
		c.Count(fmt.Sprintf("probe/%s/allowed_%v", kindOf, allowed))
		if allowed {
			nontrivial++
		}
		switch {
		case r.Panic != "":
			fails = append(fails, pf{"panic/probe/" + kindOf, "probe panicked: " + q + ": " + r.Panic})
		case !allowed && kind != "denied":
			fails = append(fails, pf{"probe-failed-for-another-reason/" + kindOf, fmt.Sprintf("%s as %s: %v", q, u, r.Err)})
		case allowed && !want:
			fails = append(fails, pf{"allowed-without-grant/" + kindOf,
				fmt.Sprintf("%s as %s was allowed although no granted privilege (user or roles, global/database/table) covers it", q, u)})
		case !allowed && want:
			// name the root cause from the shape of the failing input: which known defect(s), applied to the
			// reference, turn "allowed" into "denied" for this probe?
			udel := unfilteredDeleteElsewhere(q, e.DB)
			wantQ1 := true
			for _, n := range needs {
				ok, _ := rq.has(u, n)
				wantQ1 = wantQ1 && ok
			}
			wantQ2 := want && (!udel || rf.anyOn(u, e.DB))
			wantQ12 := wantQ1 && (!udel || rq.anyOn(u, e.DB))
			sig := "denied-despite-grant/" + kindOf
			switch {
			case !wantQ2:
				sig = "denied-despite-grant/unfiltered-delete-on-table-outside-current-database/no-privilege-on-current-database"
			case !wantQ1:
				sig = "denied-despite-table-grant/after-database-level-revoke-on-same-database"
			case !wantQ12:
				sig = "denied-despite-grant/unfiltered-delete-on-table-outside-current-database/privileges-on-current-database-dropped-by-database-level-revoke"
			}
			fails = append(fails, pf{sig, fmt.Sprintf("%s as %s was denied (%v) although the granted privileges cover it", q, u, r.Err)})
		}
		if !allowed {
			after := snapshot(root)
			if after != before {
				fails = append(fails, pf{"denied-statement-had-effect/" + kindOf, fmt.Sprintf("%s as %s was denied but changed the databases", q, u)})
			}
			before = after
		} else {
			before = ""
		}
	}
	for _, s := range cs.History {
		if s.Kind == "probe" {
			doProbe(s.User, s.Probe)
			c.Count("stmt/mid-history-probe")
			continue
		}
		r := root.Query(s.SQL())
		if r.Panic != "" {
			id := c.CaseNoModel(cs, "")
			c.PredFail(id, "panic/"+s.Kind, "statement panicked: "+s.SQL()+": "+r.Panic, cs)
			return
		}
		rf.apply(s)
		rq.apply(s)
		before = "" // root changed the account tables: take a new snapshot before the next probe
		items = append(items, "(IStmt "+s.Coq()+")")
		c.Count("stmt/" + s.Kind)
	}
	for _, u := range userNames {
		for pi := range probeDefs {
			doProbe(u, pi)
		}
	}
	hist := fmt.Sprint(cs.History)
	key := ""
	if nontrivial > 0 {
		key = hist
	}
	c.Count(fmt.Sprintf("history_len_%d", len(cs.History)/5*5))
	id := c.Case(lib.CoqList(items), cs, key)
	c.PredChecked()
	seen := map[string]bool{}
	for _, f := range fails {
		if !seen[f.sig] {
			seen[f.sig] = true
			c.PredFail(id, f.sig, f.what, cs)
		}
	}
}

// ---------- generator ----------
func subset(r *lib.RNG, xs []string) []string {
	n := r.Range(1, 3)
	m := map[string]bool{}
	for i := 0; i < n; i++ {
		m[lib.Pick(r, xs)] = true
	}
	out := lib.SortedKeys(m)
	sort.Strings(out)
	return out
}

func genLevel(r *lib.RNG, s *stmtT) []string {
	switch r.Intn(10) {
	case 0, 1:
		return globalPrivs
	case 2, 3, 4, 5:
		s.DB = lib.Pick(r, dbNames)
		return dbPrivs
	default:
		s.DB = lib.Pick(r, dbNames)
		s.Tbl = lib.Pick(r, tblNames)
		if s.DB == "db" {
			s.Tbl = lib.Pick(r, dbOnlyTblNames)
		}
		return tblPrivs
	}
}

// randStmt: one random statement over the given principals
func randStmt(r *lib.RNG, names []string) stmtT {
	var s stmtT
	s.User = lib.Pick(r, names)
	switch k := r.Intn(20); {
	case k < 8:
		s.Kind = "grant"
		s.Privs = subset(r, genLevel(r, &s))
	case k < 12:
		s.Kind = "revoke"
		s.Privs = subset(r, genLevel(r, &s))
	case k < 13:
		s.Kind = "grant-all"
		genLevel(r, &s)
	case k < 14:
		s.Kind = "revoke-all"
		genLevel(r, &s)
	case k < 17:
		s.Kind = "grant-role"
		s.Role = lib.Pick(r, roleNames)
		s.User = lib.Pick(r, userNames)
	case k < 18:
		s.Kind = "revoke-role"
		s.Role = lib.Pick(r, roleNames)
		s.User = lib.Pick(r, userNames)
	case k < 19:
		s.Kind = "drop"
	default:
		if isRole(s.User) {
			s.Kind = "create-role"
		} else {
			s.Kind = "create-user"
		}
	}
	return s
}

// (table, privilege) pairs that a probe statement exercises
var probed = []struct {
	db, tbl, priv string
}{{"db", "t", "SELECT"}, {"db", "t", "INSERT"}, {"db", "t", "INDEX"}, {"db", "s", "SELECT"}, {"db", "s", "UPDATE"},
	{"db2", "t", "SELECT"}, {"db2", "t", "DELETE"}, {"db2", "s", "INSERT"}, {"db", "ma", "DROP"}, {"db", "mb", "DROP"}}

// genShared: two principals of one active set (a user and a role, or two roles of the user) hold table-level grants on the
// SAME table; the user runs statements while both are in place; then the second principal's grant goes away (role revoked,
// role dropped, privilege revoked from the role, REVOKE ALL on the table). The final probes show whether anything stuck.
func genShared(r *lib.RNG) caseT {
	var cs caseT
	u := lib.Pick(r, userNames)
	first, second := u, "r1"
	cs.History = append(cs.History, stmtT{Kind: "create-user", User: u}, stmtT{Kind: "create-role", User: "r1"})
	if r.Chance(1, 3) {
		first, second = "r1", "r2"
		cs.History = append(cs.History, stmtT{Kind: "create-role", User: "r2"})
	}
	if r.Chance(1, 2) {
		other := lib.Pick(r, userNames)
		if other != u {
			cs.History = append(cs.History, stmtT{Kind: "create-user", User: other})
		}
	}
	tp := lib.Pick(r, probed[:8])
	a := lib.Pick(r, tblPrivs)
	for a == tp.priv {
		a = lib.Pick(r, tblPrivs)
	}
	grants := []stmtT{{Kind: "grant", User: first, DB: tp.db, Tbl: tp.tbl, Privs: []string{a}},
		{Kind: "grant", User: second, DB: tp.db, Tbl: tp.tbl, Privs: []string{tp.priv}}}
	if r.Bool() {
		grants[0], grants[1] = grants[1], grants[0]
	}
	cs.History = append(cs.History, grants...)
	for _, ro := range []string{first, second} {
		if ro != u {
			cs.History = append(cs.History, stmtT{Kind: "grant-role", User: u, Role: ro})
		}
	}
	names := append(append([]string{}, userNames...), roleNames...)
	for i := r.Intn(2); i > 0; i-- {
		cs.History = append(cs.History, randStmt(r, names))
	}
	for i := r.Range(1, 3); i > 0; i-- {
		cs.History = append(cs.History, stmtT{Kind: "probe", User: u, Probe: r.Intn(len(probeDefs))})
	}
	switch r.Intn(5) {
	case 0:
		cs.History = append(cs.History, stmtT{Kind: "revoke-role", User: u, Role: second})
	case 1:
		cs.History = append(cs.History, stmtT{Kind: "drop", User: second})
	case 2:
		cs.History = append(cs.History, stmtT{Kind: "revoke", User: second, DB: tp.db, Tbl: tp.tbl, Privs: []string{tp.priv}})
	case 3:
		cs.History = append(cs.History, stmtT{Kind: "revoke-all", User: second, DB: tp.db, Tbl: tp.tbl})
	default:
		cs.History = append(cs.History, stmtT{Kind: "revoke-role", User: u, Role: second}, stmtT{Kind: "drop", User: second})
	}
	if r.Chance(1, 3) {
		cs.History = append(cs.History, stmtT{Kind: "probe", User: u, Probe: r.Intn(len(probeDefs))}, randStmt(r, names))
	}
	return cs
}

// genMultiDrop: privileges on the two tables of the multi-target DROP TABLE probe, spread unevenly
func genMultiDrop(r *lib.RNG) caseT {
	var cs caseT
	u := lib.Pick(r, userNames)
	cs.History = append(cs.History, stmtT{Kind: "create-user", User: u})
	holder := u
	if r.Chance(1, 3) {
		holder = "r1"
		cs.History = append(cs.History, stmtT{Kind: "create-role", User: "r1"}, stmtT{Kind: "grant-role", User: u, Role: "r1"})
	}
	other := lib.Pick(r, []string{"SELECT", "INSERT", "ALTER", "INDEX"})
	switch r.Intn(6) {
	case 0, 1: // DROP only on the last listed table
		cs.History = append(cs.History, stmtT{Kind: "grant", User: holder, DB: "db", Tbl: "mb", Privs: []string{"DROP"}},
			stmtT{Kind: "grant", User: holder, DB: "db", Tbl: "ma", Privs: []string{other}})
	case 2: // only on the first
		cs.History = append(cs.History, stmtT{Kind: "grant", User: holder, DB: "db", Tbl: "ma", Privs: []string{"DROP"}},
			stmtT{Kind: "grant", User: holder, DB: "db", Tbl: "mb", Privs: []string{other}})
	case 3: // both
		cs.History = append(cs.History, stmtT{Kind: "grant", User: holder, DB: "db", Tbl: "ma", Privs: []string{"DROP"}},
			stmtT{Kind: "grant", User: holder, DB: "db", Tbl: "mb", Privs: []string{"DROP", other}})
	case 4: // database level
		cs.History = append(cs.History, stmtT{Kind: "grant", User: holder, DB: "db", Privs: []string{"DROP"}})
	default: // last only, nothing on the first
		cs.History = append(cs.History, stmtT{Kind: "grant", User: holder, DB: "db", Tbl: "mb", Privs: []string{"DROP"}})
	}
	names := append(append([]string{}, userNames...), roleNames...)
	for i := r.Intn(3); i > 0; i-- {
		cs.History = append(cs.History, randStmt(r, names))
	}
	return cs
}

func gen(r *lib.RNG) caseT {
	switch r.Intn(8) {
	case 0, 1:
		return genShared(r)
	case 2:
		return genMultiDrop(r)
	}
	var cs caseT
	// most accounts exist from the start
	for _, u := range userNames {
		if r.Chance(5, 6) {
			cs.History = append(cs.History, stmtT{Kind: "create-user", User: u})
		}
	}
	for _, ro := range roleNames {
		if r.Chance(3, 4) {
			cs.History = append(cs.History, stmtT{Kind: "create-role", User: ro})
		}
	}
	names := append(append([]string{}, userNames...), roleNames...)
	n := r.Range(1, 14)
	for i := 0; i < n; i++ {
		if r.Chance(1, 8) {
			cs.History = append(cs.History, stmtT{Kind: "probe", User: lib.Pick(r, userNames), Probe: r.Intn(len(probeDefs))})
			continue
		}
		cs.History = append(cs.History, randStmt(r, names))
	}
	return cs
}

func main() {
	lib.Main("C39", func(c *lib.Ctx) {
		c.Header = "From Coq Require Import List NArith.\nImport ListNotations.\nFrom GMS Require Import Sys.Privs Corr.C39.\nOpen Scope N_scope."
		c.CaseType = "C39.case"
		c.MismatchFn = "C39.mismatches"
		c.SetRule("5/8 of the cases: histories of 1-14 statements after creating most of 3 users and 2 roles (1/8 of the steps is a probe " +
			"statement run as a user in the middle of the history); 2/8: two principals of one active set (user + role, or two roles) " +
			"with table-level grants on the same table, statements run by the user while both are in place, then the second grant goes " +
			"away (revoke role / drop role / revoke / revoke all); 1/8: DROP privileges spread unevenly over the two tables of a " +
			"multi-target DROP TABLE. Statements: GRANT / REVOKE of 1-3 privileges at " +
			"global, database (db, db2) or table (t, s, ma, mb) level, GRANT ALL / REVOKE ALL at a level, GRANT role / REVOKE role, DROP and " +
			"re-CREATE, run by root; then 13 probe statements (select, insert, update, delete, create table, drop table, create " +
			"index, create user on different objects) as each of the 3 users. Non-trivial = at least one probe allowed; distinct = " +
			"distinct histories.")
		if c.ReplayFile != "" {
			var cs caseT
			lib.LoadReplay(c.ReplayFile, &cs)
			run(c, cs)
			return
		}
		cu := func(u string) stmtT { return stmtT{Kind: "create-user", User: u} }
		corpus := []caseT{
			// known finding: a database-level REVOKE (even of a privilege never granted) drops the table-level grants of that database
			{History: []stmtT{cu("u1"), {Kind: "grant", User: "u1", DB: "db", Tbl: "t", Privs: []string{"SELECT"}},
				{Kind: "revoke", User: "u1", DB: "db", Privs: []string{"INSERT"}}}},
			{History: []stmtT{cu("u1"), {Kind: "grant", User: "u1", DB: "db", Tbl: "t", Privs: []string{"SELECT"}},
				{Kind: "grant", User: "u1", DB: "db", Privs: []string{"INSERT"}}, {Kind: "revoke-all", User: "u1", DB: "db"}}},
			// both: the only privilege on the current database is a table grant dropped by a database-level REVOKE, then an
			// unfiltered DELETE on the other database
			{History: []stmtT{cu("u3"), {Kind: "grant", User: "u3", DB: "db2", Privs: []string{"DELETE"}}, {Kind: "grant", User: "u3", DB: "db", Tbl: "s", Privs: []string{"UPDATE"}},
				{Kind: "revoke", User: "u3", DB: "db", Privs: []string{"SELECT"}}}},
			// the unfiltered-DELETE defect alone
			{History: []stmtT{cu("u2"), {Kind: "grant", User: "u2", DB: "db2", Privs: []string{"SELECT", "DELETE"}}}},
			// a user and a role with table-level grants on the same table; the user runs statements; the role is revoked
			{History: []stmtT{cu("u1"), {Kind: "create-role", User: "r1"}, {Kind: "grant", User: "u1", DB: "db", Tbl: "t", Privs: []string{"SELECT"}},
				{Kind: "grant", User: "r1", DB: "db", Tbl: "t", Privs: []string{"INSERT"}}, {Kind: "grant-role", User: "u1", Role: "r1"},
				{Kind: "probe", User: "u1", Probe: 0}, {Kind: "probe", User: "u1", Probe: 3}, {Kind: "revoke-role", User: "u1", Role: "r1"}}},
			{History: []stmtT{cu("u2"), {Kind: "create-role", User: "r1"}, {Kind: "create-role", User: "r2"}, {Kind: "grant", User: "r1", DB: "db2", Tbl: "t", Privs: []string{"SELECT"}},
				{Kind: "grant", User: "r2", DB: "db2", Tbl: "t", Privs: []string{"DELETE"}}, {Kind: "grant-role", User: "u2", Role: "r1"}, {Kind: "grant-role", User: "u2", Role: "r2"},
				{Kind: "probe", User: "u2", Probe: 2}, {Kind: "drop", User: "r2"}}},
			// DROP TABLE db.ma, db.mb with DROP on the last table only
			{History: []stmtT{cu("u1"), {Kind: "grant", User: "u1", DB: "db", Tbl: "mb", Privs: []string{"DROP"}}, {Kind: "grant", User: "u1", DB: "db", Tbl: "ma", Privs: []string{"SELECT"}}}},
			{History: []stmtT{cu("u1"), {Kind: "grant", User: "u1", DB: "db", Tbl: "ma", Privs: []string{"DROP"}}, {Kind: "grant", User: "u1", DB: "db", Tbl: "mb", Privs: []string{"DROP"}}}},
			// ordinary behaviour
			{History: []stmtT{cu("u1"), {Kind: "grant", User: "u1", DB: "db", Tbl: "t", Privs: []string{"SELECT"}}}},
			{History: []stmtT{cu("u1"), cu("u2"), {Kind: "create-role", User: "r1"}, {Kind: "grant", User: "r1", DB: "db2", Privs: []string{"SELECT", "DELETE"}},
				{Kind: "grant-role", User: "u2", Role: "r1"}}},
			{History: []stmtT{cu("u1"), {Kind: "grant", User: "u1", Privs: []string{"SUPER"}}}},
			{History: []stmtT{cu("u1"), {Kind: "grant-all", User: "u1", DB: "db"}, {Kind: "revoke", User: "u1", DB: "db", Privs: []string{"SELECT"}}}},
			{History: []stmtT{cu("u3"), {Kind: "grant", User: "u3", Privs: []string{"CREATE USER", "SELECT"}}, {Kind: "drop", User: "u3"}, cu("u3")}},
			{History: []stmtT{}},
		}
		for _, cs := range corpus {
			run(c, cs)
		}
		for i := len(corpus); i < c.N; i++ {
			run(c, gen(c.R.Fork()))
		}
	})
}
