// Driver for C34 (built-in scalar functions): every case is one identity instance.  The driver issues flat
// SQL calls FN(literal, ...) through the real engine, records every call with its observed result for the
// Coq model (Corr/C34.v), and evaluates the identity on the implementation's outputs alone, with small
// independent reference computations written here (rune arithmetic, math/big, encoding/*).
package main

import (
	"bytes"
	"compress/zlib"
	"encoding/base64"
	"encoding/binary"
	"io"
	"encoding/hex"
	"fmt"
	"math/big"
	"strings"
	"unicode/utf8"

	"github.com/cockroachdb/apd/v3"

	"verifharness/lib"
	"verifharness/lib/eng"
)

// ---------- arguments and observations ----------

type Arg struct {
	K  string `json:"k"`           // s string, i integer, d decimal, n NULL
	S  string `json:"s,omitempty"` // string value
	I  string `json:"i,omitempty"` // integer / mantissa in decimal text
	Sc int    `json:"sc,omitempty"`
}

type Obs struct {
	K   string `json:"k"` // null str int dec err panic
	B   string `json:"b,omitempty"`
	I   string `json:"i,omitempty"`
	Sc  int    `json:"sc,omitempty"`
	Msg string `json:"msg,omitempty"`
}

type Call struct {
	Fn   int    `json:"fn"`
	SQL  string `json:"sql"`
	Args []Arg  `json:"-"`
	Out  Obs    `json:"out"`
}

type caseT struct {
	Fam   string `json:"fam"`
	In    []Arg  `json:"in"`
	Calls []Call `json:"calls,omitempty"`
}

func S(s string) Arg  { return Arg{K: "s", S: s} }
func I(z int64) Arg   { return Arg{K: "i", I: fmt.Sprint(z)} }
func IB(z *big.Int) Arg { return Arg{K: "i", I: z.String()} }
func D(m *big.Int, sc int) Arg { return Arg{K: "d", I: m.String(), Sc: sc} }
func NUL() Arg        { return Arg{K: "n"} }
func (a Arg) null() bool { return a.K == "n" }
func (a Arg) big() *big.Int {
	z, _ := new(big.Int).SetString(a.I, 10)
	return z
}
func (a Arg) int64() int64 { return a.big().Int64() }

var maxI64 = new(big.Int).SetUint64(1<<63 - 1)

func (a Arg) lit() string {
	switch a.K {
	case "s":
		r := strings.NewReplacer("\\", "\\\\", "'", "\\'", "\n", "\\n", "\r", "\\r")
		return "'" + r.Replace(a.S) + "'"
	case "i":
		return a.I
	case "d":
		m := a.big()
		neg := m.Sign() < 0
		t := new(big.Int).Abs(m).String()
		for len(t) <= a.Sc {
			t = "0" + t
		}
		t = t[:len(t)-a.Sc] + "." + t[len(t)-a.Sc:]
		if neg {
			t = "-" + t
		}
		return t
	}
	return "NULL"
}

func (a Arg) coq() string {
	switch a.K {
	case "s":
		rs := []rune(a.S)
		items := make([]string, len(rs))
		for i, r := range rs {
			items[i] = fmt.Sprintf("%d%%N", r)
		}
		return "AStr " + lib.CoqList(items)
	case "i":
		if a.big().Cmp(maxI64) > 0 {
			return "AUInt " + lib.CoqZStr(a.I)
		}
		return "AInt " + lib.CoqZStr(a.I)
	case "d":
		return fmt.Sprintf("ADec %s %d%%Z", lib.CoqZStr(a.I), a.Sc)
	}
	return "ANull"
}

func (o Obs) coq() string {
	switch o.K {
	case "null":
		return "ONull"
	case "str":
		b, _ := hex.DecodeString(o.B)
		items := make([]string, len(b))
		for i, c := range b {
			items[i] = fmt.Sprintf("%d%%N", c)
		}
		return "OStr " + lib.CoqList(items)
	case "int":
		return "OInt " + lib.CoqZStr(o.I)
	case "dec":
		return fmt.Sprintf("ODec %s %d%%Z", lib.CoqZStr(o.I), o.Sc)
	case "err":
		return "OErr"
	}
	return "OPanic"
}

func (o Obs) bytes() []byte { b, _ := hex.DecodeString(o.B); return b }
func (o Obs) str() string   { return string(o.bytes()) }
func (o Obs) isStr() bool   { return o.K == "str" }
func (o Obs) big() *big.Int { z, _ := new(big.Int).SetString(o.I, 10); return z }

// rat returns the numeric value of an int/dec observation.
func (o Obs) rat() *big.Rat {
	r := new(big.Rat).SetInt(o.big())
	if o.K == "dec" {
		r.Quo(r, new(big.Rat).SetInt(pow10(o.Sc)))
	}
	return r
}

func pow10(k int) *big.Int { return new(big.Int).Exp(big.NewInt(10), big.NewInt(int64(k)), nil) }

var fnNames = map[int]string{1: "CHAR_LENGTH", 2: "LENGTH", 3: "CONCAT", 4: "SUBSTRING", 5: "SUBSTRING", 6: "LEFT", 7: "RIGHT",
	8: "REVERSE", 9: "REPEAT", 10: "INSTR", 11: "LOCATE", 12: "LOCATE", 13: "INSERT", 14: "LPAD", 15: "RPAD", 16: "HEX", 17: "UNHEX",
	18: "TO_BASE64", 19: "FROM_BASE64", 20: "CONV", 21: "INET_ATON", 22: "INET_NTOA", 23: "ROUND", 24: "ROUND", 25: "TRUNCATE",
	26: "CEIL", 27: "FLOOR", 29: "LTRIM", 30: "RTRIM", 31: "REPLACE", 32: "UPPER", 33: "LOWER", 34: "BIN", 35: "OCT", 36: "HEX",
	37: "ABS", 38: "SIGN", 39: "MOD", 40: "ASCII", 41: "ORD", 42: "CHAR", 43: "SUBSTRING_INDEX", 44: "STRCMP", 45: "FIELD", 46: "ELT",
	47: "CONCAT_WS"}

var compressSeq int

type runner struct {
	s  *eng.S
	cs *caseT
}

func decText(t string) Obs {
	neg := strings.HasPrefix(t, "-")
	t = strings.TrimPrefix(t, "-")
	sc := 0
	if i := strings.IndexByte(t, '.'); i >= 0 {
		sc = len(t) - i - 1
		t = t[:i] + t[i+1:]
	}
	m, ok := new(big.Int).SetString(t, 10)
	if !ok {
		return Obs{K: "err", Msg: "unparsable decimal " + t}
	}
	if neg {
		m.Neg(m)
	}
	return Obs{K: "dec", I: m.String(), Sc: sc}
}

func (r *runner) call(fn int, args ...Arg) Obs {
	lits := make([]string, len(args))
	for i, a := range args {
		lits[i] = a.lit()
	}
	q := "SELECT " + fnNames[fn] + "(" + strings.Join(lits, ", ") + ")"
	if fn == -1 {
		q = args[0].S
	}
	res := r.s.Query(q)
	var o Obs
	switch {
	case res.Panic != "":
		o = Obs{K: "panic", Msg: res.Panic}
	case res.Err != nil:
		o = Obs{K: "err", Msg: res.Err.Error()}
	case len(res.Rows) != 1 || len(res.Rows[0]) != 1:
		o = Obs{K: "err", Msg: "unexpected result shape"}
	default:
		switch v := res.Rows[0][0].(type) {
		case nil:
			o = Obs{K: "null"}
		case string:
			o = Obs{K: "str", B: hex.EncodeToString([]byte(v))}
		case []byte:
			o = Obs{K: "str", B: hex.EncodeToString(v)}
		case int8, int16, int32, int64, int, uint8, uint16, uint32, uint64, uint:
			o = Obs{K: "int", I: fmt.Sprint(v)}
		case *apd.Decimal:
			o = decText(v.Text('f'))
		case apd.Decimal:
			o = decText(v.Text('f'))
		default:
			if st, ok := v.(fmt.Stringer); ok {
				o = decText(st.String())
			} else {
				o = Obs{K: "err", Msg: fmt.Sprintf("unexpected value type %T", v)}
			}
		}
	}
	r.cs.Calls = append(r.cs.Calls, Call{Fn: fn, SQL: q, Args: args, Out: o})
	return o
}

// trimCall issues TRIM([BOTH|LEADING|TRAILING] pat FROM s) and records it as function 28 with the direction first.
func (r *runner) trimCall(dir int, pat, str Arg) Obs {
	kw := []string{"BOTH", "LEADING", "TRAILING"}[dir]
	q := "SELECT TRIM(" + kw + " " + pat.lit() + " FROM " + str.lit() + ")"
	o := r.call(-1, S(q))
	r.cs.Calls[len(r.cs.Calls)-1] = Call{Fn: 28, SQL: q, Args: []Arg{I(int64(dir)), pat, str}, Out: o}
	return o
}

// ---------- generators ----------

var alphabet = []string{"a", "b", "c", "A", "B", "x", " ", "0", "1", "f", "é", "É", "ü", "日", "𝄞", "%", ".", "-"}
var asciiAlpha = []string{"a", "b", "c", "A", "B", "x", " ", "0", "1", "f", "%", "."}

func randStr(r *lib.RNG, maxLen int, ascii bool) string {
	n := r.Intn(maxLen + 1)
	var sb strings.Builder
	for i := 0; i < n; i++ {
		if ascii {
			sb.WriteString(lib.Pick(r, asciiAlpha))
		} else {
			sb.WriteString(lib.Pick(r, alphabet))
		}
	}
	return sb.String()
}

// exactBytes returns a string of exactly n bytes (mostly ASCII, some multi-byte characters).
func exactBytes(r *lib.RNG, n int) string {
	var sb strings.Builder
	for sb.Len() < n {
		ch := lib.Pick(r, asciiAlpha)
		if r.Chance(1, 8) {
			ch = lib.Pick(r, alphabet)
		}
		if sb.Len()+len(ch) <= n {
			sb.WriteString(ch)
		}
	}
	return sb.String()
}

func strArg(r *lib.RNG, maxLen int) Arg {
	if r.Chance(1, 25) {
		return NUL()
	}
	return S(randStr(r, maxLen, r.Chance(1, 3)))
}

var bigInts = []int64{9223372036854775807, 9223372036854775806, -9223372036854775807, 4611686018427387904, 2147483647, 2147483648,
	-2147483648, 4294967296}

func posArg(r *lib.RNG) Arg {
	switch r.Intn(12) {
	case 0:
		return NUL()
	case 1:
		return I(lib.Pick(r, bigInts))
	default:
		return I(int64(r.Range(-9, 10)))
	}
}

func smallArg(r *lib.RNG, lo, hi int) Arg {
	if r.Chance(1, 20) {
		return NUL()
	}
	return I(int64(r.Range(lo, hi)))
}

func numArg(r *lib.RNG) Arg {
	switch r.Intn(12) {
	case 0:
		return NUL()
	case 1:
		return IB(lib.Pick(r, []*big.Int{maxI64, new(big.Int).SetUint64(1<<64 - 1), new(big.Int).SetUint64(1 << 63),
			big.NewInt(-9223372036854775807), big.NewInt(5000000000000000000), new(big.Int).SetUint64(18446744073709551605)}))
	case 2, 3, 4:
		return I(int64(r.Range(-1200, 1200)))
	case 5:
		return I(r.Int63() >> uint(r.Intn(60)) * int64(1-2*r.Intn(2)))
	case 6:
		// large decimals, beyond int64
		m := new(big.Int).Mul(new(big.Int).SetUint64(r.Uint64()), big.NewInt(int64(r.Range(1, 5000))))
		if r.Bool() {
			m.Neg(m)
		}
		return D(m, r.Range(1, 3))
	default:
		m := big.NewInt(int64(r.Range(-200000, 200000)))
		if r.Chance(1, 3) {
			m = big.NewInt(int64(r.Range(-40, 40))*5 + int64(r.Intn(2))*1000)
		}
		return D(m, r.Range(1, 5))
	}
}

func gen(r *lib.RNG) caseT {
	fams := []string{"concat", "reverse", "leftright", "substr", "locate", "insert", "pad", "repeat", "hex", "unhex", "b64", "b64", "b64dec",
		"conv", "convraw", "inet_n", "inet_s", "round", "trunc", "ceilfloor", "compress",
		"trim", "replace", "case", "radix", "absmod", "ascii", "subidx", "strcmp", "fieldelt", "concatws"}
	f := lib.Pick(r, fams)
	switch f {
	case "concat":
		return caseT{Fam: f, In: []Arg{strArg(r, 6), strArg(r, 6)}}
	case "reverse", "hex":
		return caseT{Fam: f, In: []Arg{strArg(r, 8)}}
	case "leftright":
		return caseT{Fam: f, In: []Arg{strArg(r, 8), posArg(r)}}
	case "substr":
		return caseT{Fam: f, In: []Arg{strArg(r, 8), posArg(r), posArg(r)}}
	case "locate":
		s := strArg(r, 8)
		sub := strArg(r, 2)
		if !s.null() && r.Chance(2, 3) { // a piece of s, possibly case-changed
			rs := []rune(s.S)
			if len(rs) > 0 {
				a := r.Intn(len(rs))
				b := a + r.Intn(len(rs)-a) + 1
				if b > a+3 {
					b = a + 3
				}
				sub = S(string(rs[a:b]))
				if r.Chance(1, 6) {
					sub = S(strings.ToUpper(sub.S))
				}
			}
		}
		return caseT{Fam: f, In: []Arg{sub, s, smallArg(r, -1, 10)}}
	case "insert":
		return caseT{Fam: f, In: []Arg{strArg(r, 8), posArg(r), posArg(r), strArg(r, 3)}}
	case "pad":
		return caseT{Fam: f, In: []Arg{strArg(r, 5), smallArg(r, -2, 14), strArg(r, 3), I(int64(r.Intn(2)))}}
	case "repeat":
		return caseT{Fam: f, In: []Arg{strArg(r, 4), smallArg(r, -2, 6)}}
	case "unhex":
		hexAlpha := []string{"0", "1", "9", "a", "f", "A", "F", "c", "7", "g", "G", " ", "é", "x"}
		n := r.Intn(9)
		var sb strings.Builder
		for i := 0; i < n; i++ {
			if r.Chance(9, 10) {
				sb.WriteString(hexAlpha[r.Intn(9)])
			} else {
				sb.WriteString(lib.Pick(r, hexAlpha))
			}
		}
		if r.Chance(1, 25) {
			return caseT{Fam: f, In: []Arg{NUL()}}
		}
		return caseT{Fam: f, In: []Arg{S(sb.String())}}
	case "b64":
		// byte lengths up to ~400, every residue mod 57 (57 bytes = one 76-character line); the lengths whose
		// encoding is an exact multiple of 76 characters (55..57, 112..114, 169..171, ...) are over-represented
		switch r.Intn(4) {
		case 0:
			return caseT{Fam: f, In: []Arg{strArg(r, 8)}}
		case 1:
			return caseT{Fam: f, In: []Arg{strArg(r, 70)}}
		case 2:
			n := 57*r.Range(1, 7) - r.Intn(4) + r.Intn(2)
			return caseT{Fam: f, In: []Arg{S(exactBytes(r, n))}}
		}
		return caseT{Fam: f, In: []Arg{S(exactBytes(r, r.Range(0, 400)))}}
	case "trim":
		core := randStr(r, 5, r.Bool())
		pat := lib.Pick(r, []string{" ", " ", "x", "ab", "é", "", "aa", "a"})
		rep := func() string { return strings.Repeat(pat, r.Intn(3)) }
		str := rep() + core + rep()
		if r.Chance(1, 5) {
			str = strings.Repeat(" ", r.Intn(3)) + core + strings.Repeat(" ", r.Intn(3))
		}
		sa, pa := S(str), S(pat)
		if r.Chance(1, 25) {
			sa = NUL()
		}
		if r.Chance(1, 25) {
			pa = NUL()
		}
		return caseT{Fam: f, In: []Arg{sa, pa, I(int64(r.Intn(3)))}}
	case "replace":
		str := randStr(r, 9, r.Bool())
		from := randStr(r, 2, true)
		if rs := []rune(str); len(rs) > 0 && r.Chance(2, 3) {
			a := r.Intn(len(rs))
			b := a + 1 + r.Intn(2)
			if b > len(rs) {
				b = len(rs)
			}
			from = string(rs[a:b])
		}
		to := randStr(r, 3, r.Bool())
		if r.Chance(1, 6) {
			to = from
		}
		in := []Arg{S(str), S(from), S(to)}
		if r.Chance(1, 12) {
			in[r.Intn(3)] = NUL()
		}
		return caseT{Fam: f, In: in}
	case "case":
		return caseT{Fam: f, In: []Arg{strArg(r, 8)}}
	case "radix":
		var n *big.Int
		switch r.Intn(6) {
		case 0:
			n = lib.Pick(r, []*big.Int{big.NewInt(0), big.NewInt(-1), big.NewInt(-256), big.NewInt(-2), big.NewInt(255), big.NewInt(256),
				maxI64, big.NewInt(-9223372036854775807), new(big.Int).SetUint64(1<<64 - 1), big.NewInt(-65536), big.NewInt(-129)})
		case 1:
			n = big.NewInt(-int64(r.Uint64() >> uint(1+r.Intn(63))))
		default:
			n = big.NewInt(int64(r.Uint64() >> uint(1+r.Intn(63))))
		}
		return caseT{Fam: f, In: []Arg{IB(n)}}
	case "absmod":
		pick := func() Arg {
			switch r.Intn(8) {
			case 0:
				return NUL()
			case 1:
				return IB(lib.Pick(r, []*big.Int{maxI64, big.NewInt(-9223372036854775807), new(big.Int).Neg(new(big.Int).SetUint64(1 << 63)), big.NewInt(0)}))
			case 2:
				return D(big.NewInt(int64(r.Range(-5000, 5000))), r.Range(1, 3))
			}
			return I(int64(r.Range(-50, 50)))
		}
		b := I(int64(r.Range(-7, 7)))
		if r.Chance(1, 20) {
			b = NUL()
		}
		return caseT{Fam: f, In: []Arg{pick(), b}}
	case "ascii":
		var ns []Arg
		k := r.Range(1, 3)
		for i := 0; i < k; i++ {
			switch r.Intn(6) {
			case 0:
				ns = append(ns, NUL())
			case 1:
				ns = append(ns, I(lib.Pick(r, []int64{0, 255, 256, 65535, 65536, 16777215, 16777216, 4294967295, -1, -2})))
			default:
				ns = append(ns, I(int64(r.Intn(300))))
			}
		}
		return caseT{Fam: f, In: append([]Arg{strArg(r, 4)}, ns...)}
	case "subidx":
		d := lib.Pick(r, []string{".", ",", "ab", "é", "..", " "})
		n := r.Intn(5)
		parts := make([]string, n+1)
		for i := range parts {
			parts[i] = randStr(r, 3, true)
		}
		str := strings.Join(parts, d)
		in := []Arg{S(str), S(d), I(int64(r.Range(-6, 6)))}
		if r.Chance(1, 15) {
			in[2] = I(lib.Pick(r, []int64{9223372036854775807, -9223372036854775807}))
		}
		if r.Chance(1, 15) {
			in[r.Intn(3)] = NUL()
		}
		return caseT{Fam: f, In: in}
	case "strcmp":
		a := strArg(r, 4)
		b := strArg(r, 4)
		if !a.null() && r.Chance(1, 3) {
			b = S(a.S + randStr(r, 1, true))
		}
		if !a.null() && r.Chance(1, 5) {
			b = a
		}
		return caseT{Fam: f, In: []Arg{a, b}}
	case "fieldelt":
		k := r.Range(1, 4)
		in := []Arg{strArg(r, 2)}
		for i := 0; i < k; i++ {
			in = append(in, strArg(r, 2))
		}
		if !in[0].null() && r.Chance(1, 2) {
			v := in[0].S
			if r.Bool() {
				v = strings.ToUpper(v)
			}
			in[1+r.Intn(k)] = S(v)
		}
		return caseT{Fam: f, In: append(in, smallArg(r, -1, k+1))}
	case "concatws":
		k := r.Range(1, 4)
		in := []Arg{strArg(r, 2)}
		for i := 0; i < k; i++ {
			in = append(in, strArg(r, 3))
			if r.Chance(1, 6) {
				in[len(in)-1] = NUL()
			}
		}
		return caseT{Fam: f, In: in}
	case "compress":
		if r.Chance(1, 12) { // a payload at or beyond the 32 KiB window
			return caseT{Fam: f, In: []Arg{S(strings.Repeat(randStr(r, 3, true)+"q", 40000)[:r.Range(32760, 36000)]), S("tail")}}
		}
		n := r.Range(2, 5)
		in := make([]Arg, n)
		for i := range in {
			switch r.Intn(5) {
			case 0:
				in[i] = S("")
			case 1:
				in[i] = S(strings.Repeat(randStr(r, 3, false)+"x", r.Range(1, 200)))
			case 2:
				in[i] = NUL()
			default:
				in[i] = S(randStr(r, 12, false))
			}
		}
		return caseT{Fam: f, In: in}
	case "b64dec":
		// a valid encoding, damaged by a few edits
		b := []byte(base64.StdEncoding.EncodeToString([]byte(randStr(r, 7, false))))
		edits := r.Intn(3)
		for i := 0; i < edits && len(b) > 0; i++ {
			p := r.Intn(len(b))
			switch r.Intn(3) {
			case 0:
				b = append(b[:p], b[p+1:]...)
			case 1:
				b[p] = lib.Pick(r, []byte("=Az09+/\n\r -_"))
			default:
				b = append(b[:p], append([]byte{lib.Pick(r, []byte("=Az09+/\n\r -_"))}, b[p:]...)...)
			}
		}
		return caseT{Fam: f, In: []Arg{S(string(b))}}
	case "conv":
		a := int64(r.Range(2, 36))
		b := int64(r.Range(2, 36))
		v := new(big.Int).SetUint64(r.Uint64() >> uint(r.Intn(64)))
		if r.Chance(1, 10) {
			v = new(big.Int).SetUint64(1<<64 - 1 - uint64(r.Intn(2)))
		}
		t := v.Text(int(a))
		if r.Bool() {
			t = strings.ToUpper(t)
		}
		return caseT{Fam: f, In: []Arg{S(t), I(a), I(b)}}
	case "convraw":
		digs := []string{"0", "1", "7", "9", "a", "z", "F", "Z", "-", "+", "_", " ", "é", "9", "9", "f"}
		n := r.Intn(24)
		var sb strings.Builder
		if r.Chance(1, 3) {
			sb.WriteString("-")
		}
		for i := 0; i < n; i++ {
			sb.WriteString(digs[r.Intn(len(digs))])
		}
		sa := S(sb.String())
		if r.Chance(1, 25) {
			sa = NUL()
		}
		base := func() Arg {
			if r.Chance(1, 20) {
				return NUL()
			}
			b := int64(r.Range(-1, 38))
			if r.Chance(1, 4) {
				b = -b
			}
			return I(b)
		}
		return caseT{Fam: f, In: []Arg{sa, base(), base()}}
	case "inet_n":
		var n int64
		switch r.Intn(6) {
		case 0:
			n = int64(r.Range(-3, 300))
		case 1:
			n = lib.Pick(r, []int64{2147483647, 2147483648, 4294967295, 4294967296, -2147483648, -2147483649, 3232235777, 16777216})
		default:
			n = int64(r.Uint64() >> 32)
			if r.Bool() {
				n >>= 1
			}
		}
		if r.Chance(1, 30) {
			return caseT{Fam: f, In: []Arg{NUL()}}
		}
		return caseT{Fam: f, In: []Arg{I(n)}}
	case "inet_s":
		if r.Chance(1, 30) {
			return caseT{Fam: f, In: []Arg{NUL()}}
		}
		if r.Chance(1, 4) {
			al := []string{"0", "1", "2", "5", "9", ".", ".", "25", "256", "00", "a"}
			n := r.Intn(9)
			var sb strings.Builder
			for i := 0; i < n; i++ {
				sb.WriteString(lib.Pick(r, al))
			}
			return caseT{Fam: f, In: []Arg{S(sb.String())}}
		}
		oct := func() int {
			switch r.Intn(4) {
			case 0:
				return r.Intn(10)
			case 1:
				return lib.Pick(r, []int{0, 127, 128, 255, 100, 99})
			}
			return r.Intn(256)
		}
		return caseT{Fam: f, In: []Arg{S(fmt.Sprintf("%d.%d.%d.%d", oct(), oct(), oct(), oct()))}}
	case "round", "trunc":
		d := smallArg(r, -21, 8)
		if r.Chance(1, 15) {
			d = I(lib.Pick(r, []int64{-70, 70, 31, -31, 66, -66, 30, -30, 65}))
		}
		in := []Arg{numArg(r), d}
		if f == "round" && r.Chance(1, 6) {
			in = in[:1]
		}
		return caseT{Fam: f, In: in}
	}
	return caseT{Fam: "ceilfloor", In: []Arg{numArg(r)}}
}

// ---------- reference helpers (independent of the code under test) ----------

func hasMultibyte(ss ...Arg) bool {
	for _, a := range ss {
		if a.K == "s" && len(a.S) != utf8.RuneCountInString(a.S) {
			return true
		}
	}
	return false
}

func anyNull(as ...Arg) bool {
	for _, a := range as {
		if a.null() {
			return true
		}
	}
	return false
}

func foldEq(a, b []rune) bool { return strings.EqualFold(string(a), string(b)) }

type failer func(sig, what string)

// refSubstring: MySQL SUBSTRING on runes with unbounded integers.
func refSubstring(rs []rune, p, l *big.Int) string {
	n := int64(len(rs))
	var start int64
	switch {
	case p.Sign() == 0:
		return ""
	case p.Sign() < 0:
		if new(big.Int).Neg(p).Cmp(big.NewInt(n)) > 0 {
			return ""
		}
		start = n + p.Int64()
	default:
		if p.Cmp(big.NewInt(n)) > 0 {
			return ""
		}
		start = p.Int64() - 1
	}
	if l != nil && l.Sign() <= 0 {
		return ""
	}
	end := n
	if l != nil && l.Cmp(big.NewInt(n-start)) < 0 {
		end = start + l.Int64()
	}
	return string(rs[start:end])
}

func run(c *lib.Ctx, e *eng.E, cs caseT) {
	cs.Calls = nil
	r := &runner{s: e.Session(), cs: &cs}
	type pf struct{ sig, what string }
	var fails []pf
	fail := func(sig, what string) { fails = append(fails, pf{sig, what}) }
	in := cs.In
	nontrivial := true

	// a panic / unexpected error in any call is a failure of its own
	checkCrash := func(o Obs, sig string) bool {
		if o.K == "panic" {
			fail(sig, "engine panicked: "+o.Msg)
			return true
		}
		return false
	}
	wantNull := func(o Obs, what string, args ...Arg) bool {
		if anyNull(args...) {
			if o.K != "null" {
				fail(cs.Fam+"/null-not-propagated", what+" with a NULL argument returned a non-NULL result")
			}
			nontrivial = false
			return true
		}
		return false
	}

	switch cs.Fam {
	case "concat":
		a, b := in[0], in[1]
		la, lb := r.call(1, a), r.call(1, b)
		r.call(2, a)
		cc := r.call(3, a, b)
		if !wantNull(cc, "CONCAT", a, b) {
			if !cc.isStr() || cc.str() != a.S+b.S {
				fail("concat/not-concatenation", fmt.Sprintf("CONCAT(%q,%q) = %v", a.S, b.S, cc))
			} else {
				lc := r.call(1, S(cc.str()))
				if lc.K != "int" || la.K != "int" || lb.K != "int" || lc.big().Cmp(new(big.Int).Add(la.big(), lb.big())) != 0 {
					fail("char_length/concat-not-additive", fmt.Sprintf("CHAR_LENGTH(CONCAT(%q,%q)) = %v, parts %v + %v", a.S, b.S, lc, la, lb))
				}
				if la.K == "int" && la.big().Int64() != int64(utf8.RuneCountInString(a.S)) {
					fail("char_length/not-rune-count", fmt.Sprintf("CHAR_LENGTH(%q) = %v", a.S, la))
				}
			}
		}
	case "reverse":
		s := in[0]
		rv := r.call(8, s)
		if !wantNull(rv, "REVERSE", s) {
			if !rv.isStr() || !utf8.ValidString(rv.str()) {
				fail("reverse/invalid", fmt.Sprintf("REVERSE(%q) = %v", s.S, rv))
			} else {
				rr := r.call(8, S(rv.str()))
				if !rr.isStr() || rr.str() != s.S {
					fail("reverse/not-involutive", fmt.Sprintf("REVERSE(REVERSE(%q)) = %v", s.S, rr))
				}
				if utf8.RuneCountInString(rv.str()) != utf8.RuneCountInString(s.S) {
					fail("reverse/length-changed", fmt.Sprintf("REVERSE(%q) = %q", s.S, rv.str()))
				}
			}
		}
	case "leftright":
		s, n := in[0], in[1]
		l, rt := r.call(6, s, n), r.call(7, s, n)
		s1 := r.call(5, s, I(1), n)
		if checkCrash(s1, "substring/panic") || wantNull(l, "LEFT", s, n) || wantNull(rt, "RIGHT", s, n) {
			break
		}
		rs := []rune(s.S)
		nn := n.big()
		if !l.isStr() || !s1.isStr() || l.str() != s1.str() {
			fail("left/not-substring-from-1", fmt.Sprintf("LEFT(%q,%s) = %v but SUBSTRING(s,1,n) = %v", s.S, n.I, l, s1))
		}
		if l.isStr() && l.str() != refSubstring(rs, big.NewInt(1), nn) {
			fail("left/wrong", fmt.Sprintf("LEFT(%q,%s) = %q", s.S, n.I, l.str()))
		}
		if nn.Sign() >= 0 && nn.Cmp(maxI64) < 0 {
			t := r.call(4, s, IB(new(big.Int).Add(nn, big.NewInt(1))))
			if !t.isStr() || !l.isStr() || l.str()+t.str() != s.S {
				fail("left/does-not-split", fmt.Sprintf("LEFT(%q,%s) || SUBSTRING(s,n+1) = %v || %v", s.S, n.I, l, t))
			}
		}
		if nn.Sign() > 0 && nn.Cmp(big.NewInt(int64(len(rs)))) <= 0 {
			t := r.call(4, s, IB(new(big.Int).Neg(nn)))
			if !t.isStr() || !rt.isStr() || t.str() != rt.str() {
				fail("right/not-substring-from-minus-n", fmt.Sprintf("RIGHT(%q,%s) = %v but SUBSTRING(s,-n) = %v", s.S, n.I, rt, t))
			}
		}
		if rt.isStr() {
			k := int64(len(rs))
			if nn.Sign() <= 0 {
				k = 0
			} else if nn.Cmp(big.NewInt(k)) < 0 {
				k = nn.Int64()
			}
			if rt.str() != string(rs[int64(len(rs))-k:]) {
				fail("right/wrong", fmt.Sprintf("RIGHT(%q,%s) = %q", s.S, n.I, rt.str()))
			}
		}
	case "substr":
		s, p, l := in[0], in[1], in[2]
		o := r.call(5, s, p, l)
		if o.K == "panic" {
			fail("substring/panic-start-plus-len-overflows-int64", fmt.Sprintf("SUBSTRING(%q,%s,%s) panicked: %s", s.S, p.I, l.I, o.Msg))
			break
		}
		o2 := Obs{K: "null"}
		if !l.null() || true {
			o2 = r.call(4, s, p)
		}
		if wantNull(o, "SUBSTRING", s, p, l) {
			break
		}
		rs := []rune(s.S)
		if !o.isStr() || o.str() != refSubstring(rs, p.big(), l.big()) {
			fail("substring/wrong", fmt.Sprintf("SUBSTRING(%q,%s,%s) = %v", s.S, p.I, l.I, o))
		}
		if !o2.isStr() || o2.str() != refSubstring(rs, p.big(), nil) {
			fail("substring/wrong-2arg", fmt.Sprintf("SUBSTRING(%q,%s) = %v", s.S, p.I, o2))
		}
	case "locate":
		sub, s, pos := in[0], in[1], in[2]
		o := r.call(12, sub, s, pos)
		o1 := r.call(11, sub, s)
		oi := r.call(10, s, sub)
		if o.K == "panic" {
			fail("locate/panic-empty-string-position-beyond-1", fmt.Sprintf("LOCATE(%q,%q,%s) panicked: %s", sub.S, s.S, pos.I, o.Msg))
			break
		}
		if wantNull(o1, "LOCATE", sub, s) || wantNull(oi, "INSTR", sub, s) || pos.null() {
			break
		}
		rs, rsub := []rune(s.S), []rune(sub.S)
		matchAt := func(q int, fold bool) bool { // 1-based
			if q < 1 || q-1+len(rsub) > len(rs) {
				return false
			}
			seg := rs[q-1 : q-1+len(rsub)]
			if fold {
				return foldEq(seg, rsub)
			}
			return string(seg) == string(rsub)
		}
		check := func(o Obs, from int, name string) {
			if o.K != "int" {
				fail("locate/not-an-integer", fmt.Sprintf("%s = %v", name, o))
				return
			}
			p := int(o.big().Int64())
			bad := false
			if p > 0 {
				if p < from || !matchAt(p, true) {
					bad = true
				}
				for q := from; q < p && q >= 1; q++ {
					if len(rsub) > 0 && matchAt(q, false) {
						bad = true
					}
				}
			} else if len(rsub) > 0 && from >= 1 {
				for q := from; q <= len(rs); q++ {
					if matchAt(q, false) {
						bad = true
					}
				}
			}
			if bad {
				sig := "locate/wrong"
				if hasMultibyte(s) {
					sig = "locate/multibyte-byte-position"
				}
				fail(sig, fmt.Sprintf("%s = %d is not the character position of the first occurrence at or after %d", name, p, from))
			}
		}
		check(o, int(pos.int64()), fmt.Sprintf("LOCATE(%q,%q,%s)", sub.S, s.S, pos.I))
		check(o1, 1, fmt.Sprintf("LOCATE(%q,%q)", sub.S, s.S))
		if oi.K == "int" && o1.K == "int" && oi.I != o1.I {
			// root cause from the input's shape: first exact vs first case-folded occurrence (in characters)
			first := func(fold bool) int64 {
				for q := 1; q <= len(rs)+1; q++ {
					if q-1+len(rsub) <= len(rs) && matchAt(q, fold) {
						return int64(q)
					}
				}
				return 0
			}
			sig := "instr-vs-locate/differ"
			switch {
			case oi.big().Int64() == first(false) && o1.big().Int64() == first(true):
				sig = "instr-vs-locate/case-sensitivity-differs"
			case hasMultibyte(s):
				sig = "locate/multibyte-byte-position"
			}
			fail(sig, fmt.Sprintf("INSTR(%q,%q) = %s but LOCATE(%q,%q) = %s", s.S, sub.S, oi.I, sub.S, s.S, o1.I))
		}
	case "insert":
		s, p, l, n := in[0], in[1], in[2], in[3]
		o := r.call(13, s, p, l, n)
		if o.K == "panic" {
			fail("insert/panic-pos-plus-len-overflows-int64", fmt.Sprintf("INSERT(%q,%s,%s,%q) panicked: %s", s.S, p.I, l.I, n.S, o.Msg))
			break
		}
		if wantNull(o, "INSERT", s, p, l, n) {
			break
		}
		rs := []rune(s.S)
		want := s.S
		pb, lb := p.big(), l.big()
		if pb.Sign() > 0 && pb.Cmp(big.NewInt(int64(len(rs)))) <= 0 {
			st := pb.Int64() - 1
			end := int64(len(rs))
			if lb.Sign() >= 0 && lb.Cmp(big.NewInt(end-st)) < 0 {
				end = st + lb.Int64()
			}
			want = string(rs[:st]) + n.S + string(rs[end:])
		}
		if !o.isStr() || o.str() != want {
			sig := "insert/wrong"
			if hasMultibyte(s) {
				sig = "insert/multibyte-byte-offsets"
			}
			fail(sig, fmt.Sprintf("INSERT(%q,%s,%s,%q) = %v, expected %q (= LEFT(s,p-1) || n || SUBSTRING(s,p+l))", s.S, p.I, l.I, n.S, o, want))
		}
	case "pad":
		s, n, p := in[0], in[1], in[2]
		lp := in[3].I == "1"
		fn, name := 15, "RPAD"
		if lp {
			fn, name = 14, "LPAD"
		}
		o := r.call(fn, s, n, p)
		if wantNull(o, name, s, n, p) {
			break
		}
		nn := n.int64()
		if nn < 0 {
			nontrivial = false
			break
		}
		rs, rp := []rune(s.S), []rune(p.S)
		var want string
		switch {
		case nn <= int64(len(rs)):
			want = string(rs[:nn])
		case len(rp) == 0:
			want = ""
		default:
			need := int(nn) - len(rs)
			var padding []rune
			for len(padding) < need {
				padding = append(padding, rp...)
			}
			padding = padding[:need]
			if lp {
				want = string(padding) + s.S
			} else {
				want = s.S + string(padding)
			}
		}
		if !o.isStr() || o.str() != want {
			sig := strings.ToLower(name) + "/wrong"
			if hasMultibyte(s, p) {
				sig = strings.ToLower(name) + "/multibyte-byte-length"
			}
			fail(sig, fmt.Sprintf("%s(%q,%d,%q) = %v, expected %q (CHAR_LENGTH must be %d)", name, s.S, nn, p.S, o, want, utf8.RuneCountInString(want)))
		}
	case "repeat":
		s, n := in[0], in[1]
		o := r.call(9, s, n)
		if wantNull(o, "REPEAT", s, n) {
			break
		}
		if n.int64() >= 0 {
			if !o.isStr() || o.str() != strings.Repeat(s.S, int(n.int64())) {
				fail("repeat/wrong", fmt.Sprintf("REPEAT(%q,%s) = %v", s.S, n.I, o))
			}
		} else {
			nontrivial = false
		}
	case "hex":
		s := in[0]
		h := r.call(16, s)
		if wantNull(h, "HEX", s) {
			break
		}
		if !h.isStr() || h.str() != strings.ToUpper(hex.EncodeToString([]byte(s.S))) {
			fail("hex/wrong", fmt.Sprintf("HEX(%q) = %v", s.S, h))
			break
		}
		u := r.call(17, S(h.str()))
		if !u.isStr() || u.str() != s.S {
			fail("unhex/not-inverse-of-hex", fmt.Sprintf("UNHEX(HEX(%q)) = %v", s.S, u))
		}
	case "unhex":
		h := in[0]
		u := r.call(17, h)
		if wantNull(u, "UNHEX", h) {
			break
		}
		valid := true
		for _, ch := range h.S {
			if !strings.ContainsRune("0123456789abcdefABCDEF", ch) {
				valid = false
			}
		}
		if !valid {
			nontrivial = false
			if u.K != "null" {
				fail("unhex/accepts-non-hex", fmt.Sprintf("UNHEX(%q) = %v", h.S, u))
			}
			break
		}
		canon := strings.ToUpper(h.S)
		if len(canon)%2 == 1 {
			canon = "0" + canon
		}
		if !u.isStr() || strings.ToUpper(hex.EncodeToString(u.bytes())) != canon {
			fail("unhex/wrong", fmt.Sprintf("HEX(UNHEX(%q)) = %s, expected %s", h.S, strings.ToUpper(u.B), canon))
		}
	case "b64":
		s := in[0]
		t := r.call(18, s)
		if wantNull(t, "TO_BASE64", s) {
			break
		}
		enc := base64.StdEncoding.EncodeToString([]byte(s.S))
		var lines []string
		for len(enc) > 76 {
			lines = append(lines, enc[:76])
			enc = enc[76:]
		}
		lines = append(lines, enc)
		if !t.isStr() || t.str() != strings.Join(lines, "\n") {
			fail("to_base64/wrong", fmt.Sprintf("TO_BASE64(%q) = %v", s.S, t))
			break
		}
		f := r.call(19, S(t.str()))
		if !f.isStr() || f.str() != s.S {
			fail("from_base64/not-inverse", fmt.Sprintf("FROM_BASE64(TO_BASE64(%q)) = %v", s.S, f))
		}
	case "b64dec":
		o := r.call(19, in[0])
		checkCrash(o, "from_base64/panic")
		if o.isStr() { // whatever is accepted must re-encode to the input up to line breaks and trailing bits
			nontrivial = true
		} else {
			nontrivial = false
		}
	case "conv":
		n, a, b := in[0], in[1], in[2]
		x := r.call(20, n, a, b)
		v, _ := new(big.Int).SetString(n.S, int(a.int64()))
		if !x.isStr() || x.str() != strings.ToUpper(v.Text(int(b.int64()))) {
			fail("conv/wrong", fmt.Sprintf("CONV(%q,%s,%s) = %v, expected %s", n.S, a.I, b.I, x, strings.ToUpper(v.Text(int(b.int64())))))
			break
		}
		y := r.call(20, S(x.str()), b, a)
		if !y.isStr() || y.str() != strings.ToUpper(n.S) {
			fail("conv/not-round-trip", fmt.Sprintf("CONV(CONV(%q,%s,%s),%s,%s) = %v", n.S, a.I, b.I, b.I, a.I, y))
		}
	case "convraw":
		o := r.call(20, in[0], in[1], in[2])
		checkCrash(o, "conv/panic")
		if !wantNull(o, "CONV", in...) && o.K == "null" {
			nontrivial = false
		}
	case "inet_n":
		n := in[0]
		s := r.call(22, n)
		if wantNull(s, "INET_NTOA", n) {
			break
		}
		v := n.int64()
		if v < 0 || v > 4294967295 {
			nontrivial = false
			break
		}
		want := fmt.Sprintf("%d.%d.%d.%d", v>>24, (v>>16)&255, (v>>8)&255, v&255)
		if !s.isStr() || s.str() != want {
			sig := "inet_ntoa/wrong"
			if v > 2147483647 {
				sig = "inet_ntoa/above-int32-saturates"
			}
			fail(sig, fmt.Sprintf("INET_NTOA(%d) = %v, expected %s", v, s, want))
		}
		if s.isStr() {
			back := r.call(21, S(s.str()))
			if s.str() == want && (back.K != "int" || back.I != n.I) {
				fail("inet_aton/not-inverse", fmt.Sprintf("INET_ATON(INET_NTOA(%d)) = %v", v, back))
			}
		}
	case "inet_s":
		s := in[0]
		n := r.call(21, s)
		if wantNull(n, "INET_ATON", s) {
			break
		}
		var a, b, cc, d int
		k, _ := fmt.Sscanf(s.S, "%d.%d.%d.%d", &a, &b, &cc, &d)
		canonical := k == 4 && fmt.Sprintf("%d.%d.%d.%d", a, b, cc, d) == s.S && a < 256 && b < 256 && cc < 256 && d < 256 && a >= 0 && b >= 0 && cc >= 0 && d >= 0
		if !canonical {
			nontrivial = false
			if n.K == "int" && !strings.Contains(s.S, ".") {
				fail("inet_aton/accepts-garbage", fmt.Sprintf("INET_ATON(%q) = %s", s.S, n.I))
			}
			break
		}
		want := int64(a)<<24 | int64(b)<<16 | int64(cc)<<8 | int64(d)
		if n.K != "int" || n.I != fmt.Sprint(want) {
			fail("inet_aton/wrong", fmt.Sprintf("INET_ATON(%q) = %v, expected %d", s.S, n, want))
			break
		}
		back := r.call(22, I(want))
		if !back.isStr() || back.str() != s.S {
			sig := "inet_ntoa/wrong"
			if want > 2147483647 {
				sig = "inet_ntoa/above-int32-saturates"
			}
			fail(sig, fmt.Sprintf("INET_NTOA(INET_ATON(%q)) = %v", s.S, back))
		}
	case "round", "trunc":
		x := in[0]
		var d Arg
		var o Obs
		name := "ROUND"
		switch {
		case cs.Fam == "trunc":
			d = in[1]
			o = r.call(25, x, d)
			name = "TRUNCATE"
		case len(in) == 1:
			d = I(0)
			o = r.call(23, x)
		default:
			d = in[1]
			o = r.call(24, x, d)
		}
		if checkCrash(o, strings.ToLower(name)+"/panic") || wantNull(o, name, x, d) {
			break
		}
		if o.K != "int" && o.K != "dec" {
			fail(strings.ToLower(name)+"/not-a-number", fmt.Sprintf("%s(%s,%s) = %v", name, x.lit(), d.lit(), o))
			break
		}
		xv := new(big.Rat).SetInt(x.big())
		if x.K == "d" {
			xv.Quo(xv, new(big.Rat).SetInt(pow10(x.Sc)))
		}
		unit := new(big.Rat).SetInt64(1)
		if dd := d.int64(); dd >= 0 {
			unit.Quo(unit, new(big.Rat).SetInt(pow10(int(dd))))
		} else {
			unit.SetInt(pow10(int(-dd)))
		}
		diff := new(big.Rat).Sub(o.rat(), xv)
		adiff := new(big.Rat).Abs(diff)
		if cs.Fam == "round" {
			if new(big.Rat).Mul(adiff, big.NewRat(2, 1)).Cmp(unit) > 0 {
				fail("round/more-than-half-unit-away", fmt.Sprintf("ROUND(%s,%s) = %s", x.lit(), d.lit(), o.rat().FloatString(6)))
			}
		} else {
			if adiff.Cmp(unit) >= 0 || new(big.Rat).Abs(o.rat()).Cmp(new(big.Rat).Abs(xv)) > 0 || (o.rat().Sign() != 0 && o.rat().Sign() != xv.Sign()) {
				fail("truncate/not-toward-zero-within-one-unit", fmt.Sprintf("TRUNCATE(%s,%s) = %s", x.lit(), d.lit(), o.rat().FloatString(6)))
			}
		}
	case "ceilfloor":
		x := in[0]
		ce, fl := r.call(26, x), r.call(27, x)
		if wantNull(ce, "CEIL", x) || wantNull(fl, "FLOOR", x) {
			break
		}
		xv := new(big.Rat).SetInt(x.big())
		if x.K == "d" {
			xv.Quo(xv, new(big.Rat).SetInt(pow10(x.Sc)))
		}
		one := big.NewRat(1, 1)
		beyond := func(small string) string {
			lim := new(big.Rat).SetInt(maxI64)
			if new(big.Rat).Abs(xv).Cmp(lim) > 0 && x.K == "d" {
				return "decimal-beyond-int64-saturates"
			}
			if x.K == "d" && new(big.Rat).Abs(xv).Cmp(big.NewRat(1, 10)) < 0 {
				return small
			}
			return "wrong"
		}
		if ce.K != "int" || ce.rat().Cmp(xv) < 0 || new(big.Rat).Sub(ce.rat(), xv).Cmp(one) >= 0 {
			fail("ceil/"+beyond("positive-fraction-below-one-tenth-gives-zero"), fmt.Sprintf("CEIL(%s) = %s", x.lit(), ce.I))
		}
		if fl.K != "int" || fl.rat().Cmp(xv) > 0 || new(big.Rat).Sub(xv, fl.rat()).Cmp(one) >= 0 {
			fail("floor/"+beyond("negative-fraction-above-minus-one-tenth-gives-zero"), fmt.Sprintf("FLOOR(%s) = %s", x.lit(), fl.I))
		}
	case "trim":
		str, pat, dir := in[0], in[1], int(in[2].int64())
		o := r.trimCall(dir, pat, str)
		lt, rt := r.call(29, str), r.call(30, str)
		if wantNull(lt, "LTRIM", str) || wantNull(o, "TRIM", str, pat) {
			break
		}
		want := str.S
		if pat.S != "" {
			if dir == 0 || dir == 1 {
				for strings.HasPrefix(want, pat.S) {
					want = want[len(pat.S):]
				}
			}
			if dir == 0 || dir == 2 {
				for strings.HasSuffix(want, pat.S) {
					want = want[:len(want)-len(pat.S)]
				}
			}
		}
		if !o.isStr() || o.str() != want {
			fail("trim/wrong", fmt.Sprintf("TRIM(dir %d %q FROM %q) = %v, expected %q", dir, pat.S, str.S, o, want))
		}
		if !lt.isStr() || lt.str() != strings.TrimLeft(str.S, " ") || !rt.isStr() || rt.str() != strings.TrimRight(str.S, " ") {
			fail("ltrim-rtrim/wrong", fmt.Sprintf("LTRIM/RTRIM(%q) = %v / %v", str.S, lt, rt))
			break
		}
		both := r.trimCall(0, S(" "), str)
		lr := r.call(29, S(rt.str()))
		rl := r.call(30, S(lt.str()))
		if !both.isStr() || !lr.isStr() || !rl.isStr() || lr.str() != both.str() || rl.str() != both.str() {
			fail("trim/ltrim-rtrim-inconsistent", fmt.Sprintf("TRIM(%q) = %v, LTRIM(RTRIM) = %v, RTRIM(LTRIM) = %v", str.S, both, lr, rl))
		}
	case "replace":
		str, from, to := in[0], in[1], in[2]
		o := r.call(31, str, from, to)
		if wantNull(o, "REPLACE", str, from, to) {
			break
		}
		// reference: leftmost non-overlapping occurrences
		want, cnt := "", 0
		if from.S == "" {
			want = str.S
		} else {
			for rest := str.S; ; {
				i := strings.Index(rest, from.S)
				if i < 0 {
					want += rest
					break
				}
				want += rest[:i] + to.S
				rest = rest[i+len(from.S):]
				cnt++
			}
		}
		if !o.isStr() || o.str() != want {
			fail("replace/wrong", fmt.Sprintf("REPLACE(%q,%q,%q) = %v, expected %q", str.S, from.S, to.S, o, want))
			break
		}
		if len(o.str()) != len(str.S)+cnt*(len(to.S)-len(from.S)) {
			fail("replace/length-law", fmt.Sprintf("REPLACE(%q,%q,%q) has length %d", str.S, from.S, to.S, len(o.str())))
		}
		same := r.call(31, str, from, from)
		if !same.isStr() || same.str() != str.S {
			fail("replace/same-not-identity", fmt.Sprintf("REPLACE(%q,%q,%q) = %v", str.S, from.S, from.S, same))
		}
	case "case":
		str := in[0]
		up, lo := r.call(32, str), r.call(33, str)
		if wantNull(up, "UPPER", str) || wantNull(lo, "LOWER", str) {
			break
		}
		if !up.isStr() || !lo.isStr() || utf8.RuneCountInString(up.str()) != utf8.RuneCountInString(str.S) || utf8.RuneCountInString(lo.str()) != utf8.RuneCountInString(str.S) {
			fail("upper-lower/length-changed", fmt.Sprintf("UPPER/LOWER(%q) = %v / %v", str.S, up, lo))
			break
		}
		lu, ll := r.call(33, S(up.str())), r.call(33, S(lo.str()))
		if !lu.isStr() || lu.str() != lo.str() || !ll.isStr() || ll.str() != lo.str() {
			fail("upper-lower/not-consistent", fmt.Sprintf("LOWER(UPPER(%q)) = %v, LOWER(LOWER) = %v, LOWER = %q", str.S, lu, ll, lo.str()))
		}
	case "radix":
		n := in[0]
		bin, oct, hx := r.call(34, n), r.call(35, n), r.call(36, n)
		u := new(big.Int).Set(n.big())
		if u.Sign() < 0 {
			u.Add(u, new(big.Int).Lsh(big.NewInt(1), 64))
		}
		check := func(o Obs, base int, name string) {
			if !o.isStr() || strings.ToUpper(u.Text(base)) != o.str() {
				sig := strings.ToLower(name) + "/wrong"
				if name == "BIN" && n.big().Sign() < 0 {
					sig = "bin/negative-bytes-not-zero-padded"
				}
				fail(sig, fmt.Sprintf("%s(%s) = %q, expected %s (so CONV(%s(n),%d,10) <> n)", name, n.I, o.str(), strings.ToUpper(u.Text(base)), name, base))
			}
		}
		check(bin, 2, "BIN")
		check(oct, 8, "OCT")
		check(hx, 16, "HEX")
	case "absmod":
		a, b := in[0], in[1]
		ab, sg := r.call(37, a), r.call(38, a)
		if !a.null() && a.K == "i" {
			md := r.call(39, a, b)
			switch {
			case b.null() || b.I == "0":
				if md.K != "null" {
					fail("mod/by-zero-or-null-not-null", fmt.Sprintf("MOD(%s,%s) = %v", a.I, b.lit(), md))
				}
			default:
				want := new(big.Int).Rem(a.big(), b.big())
				if (md.K != "int" && md.K != "dec") || md.rat().Cmp(new(big.Rat).SetInt(want)) != 0 {
					fail("mod/wrong", fmt.Sprintf("MOD(%s,%s) = %v, expected %s", a.I, b.I, md, want))
				}
			}
		}
		if wantNull(ab, "ABS", a) || wantNull(sg, "SIGN", a) {
			break
		}
		av := new(big.Rat).SetInt(a.big())
		if a.K == "d" {
			av.Quo(av, new(big.Rat).SetInt(pow10(a.Sc)))
		}
		if (ab.K != "int" && ab.K != "dec") || ab.rat().Cmp(new(big.Rat).Abs(av)) != 0 {
			sig := "abs/wrong"
			if a.I == "-9223372036854775808" {
				sig = "abs/min-int64-stays-negative"
			}
			fail(sig, fmt.Sprintf("ABS(%s) = %v", a.lit(), ab))
		}
		if sg.K != "int" || sg.big().Int64() != int64(av.Sign()) {
			sig := "sign/wrong"
			if a.K == "d" && new(big.Rat).Abs(av).Cmp(big.NewRat(1, 2)) < 0 {
				sig = "sign/decimal-fraction-below-half-gives-zero"
			}
			fail(sig, fmt.Sprintf("SIGN(%s) = %s", a.lit(), sg.I))
		}
	case "ascii":
		str := in[0]
		as, od := r.call(40, str), r.call(41, str)
		ch := r.call(42, in[1:]...)
		if !str.null() {
			wa, wo := int64(0), int64(0)
			if len(str.S) > 0 {
				wa = int64(str.S[0])
				_, sz := utf8.DecodeRuneInString(str.S)
				for _, c := range []byte(str.S[:sz]) {
					wo = wo<<8 | int64(c)
				}
			}
			if as.K != "int" || as.big().Int64() != wa || od.K != "int" || od.big().Int64() != wo {
				fail("ascii-ord/wrong", fmt.Sprintf("ASCII/ORD(%q) = %v / %v, expected %d / %d", str.S, as, od, wa, wo))
			}
		} else if as.K != "null" || od.K != "null" {
			fail("ascii/null-not-propagated", "ASCII/ORD(NULL) is not NULL")
		}
		var want []byte
		for _, a := range in[1:] {
			if a.null() {
				continue
			}
			v := uint32(a.int64())
			if a.int64() > 4294967295 {
				v = 4294967295
			}
			b := []byte{byte(v >> 24), byte(v >> 16), byte(v >> 8), byte(v)}
			for len(b) > 1 && b[0] == 0 {
				b = b[1:]
			}
			want = append(want, b...)
		}
		if !ch.isStr() || !bytes.Equal(ch.bytes(), want) {
			fail("char/wrong", fmt.Sprintf("CHAR(%v) = %v, expected %x", in[1:], ch, want))
		}
	case "subidx":
		str, d, k := in[0], in[1], in[2]
		o := r.call(43, str, d, k)
		if wantNull(o, "SUBSTRING_INDEX", str, d, k) {
			break
		}
		parts := strings.Split(str.S, d.S)
		n := int64(len(parts))
		kk := k.int64()
		var want string
		switch {
		case kk > 0 && kk < n:
			want = strings.Join(parts[:kk], d.S)
		case kk > 0:
			want = str.S
		case kk < 0 && -kk < n:
			want = strings.Join(parts[n+kk:], d.S)
		case kk < 0:
			want = str.S
		}
		if !o.isStr() || o.str() != want {
			fail("substring_index/wrong", fmt.Sprintf("SUBSTRING_INDEX(%q,%q,%d) = %v, expected %q", str.S, d.S, kk, o, want))
			break
		}
		if kk > 0 && kk < n {
			rest := r.call(43, str, d, I(-(n - kk)))
			if !rest.isStr() || o.str()+d.S+rest.str() != str.S {
				fail("substring_index/halves-do-not-rejoin", fmt.Sprintf("SUBSTRING_INDEX(%q,%q,%d) + d + SUBSTRING_INDEX(..,%d) = %q", str.S, d.S, kk, -(n - kk), o.str()+d.S+rest.str()))
			}
		}
	case "strcmp":
		a, b := in[0], in[1]
		ab, ba, aa := r.call(44, a, b), r.call(44, b, a), r.call(44, a, a)
		if wantNull(ab, "STRCMP", a, b) {
			break
		}
		want := int64(bytes.Compare([]byte(a.S), []byte(b.S)))
		if ab.K != "int" || ba.K != "int" || ab.big().Int64() != want || ba.big().Int64() != -want || aa.K != "int" || aa.big().Int64() != 0 {
			fail("strcmp/not-antisymmetric-byte-order", fmt.Sprintf("STRCMP(%q,%q) = %v, reversed %v, self %v", a.S, b.S, ab, ba, aa))
		}
	case "fieldelt":
		key, vals, idx := in[0], in[1:len(in)-1], in[len(in)-1]
		fl := r.call(45, append([]Arg{key}, vals...)...)
		el := r.call(46, append([]Arg{idx}, vals...)...)
		wantF := int64(0)
		if !key.null() {
			for i, v := range vals {
				if !v.null() && strings.ToLower(v.S) == strings.ToLower(key.S) {
					wantF = int64(i + 1)
					break
				}
			}
		}
		if fl.K != "int" || fl.big().Int64() != wantF {
			fail("field/wrong", fmt.Sprintf("FIELD(%v) = %v, expected %d", in[:len(in)-1], fl, wantF))
		}
		if idx.null() || idx.int64() < 1 || idx.int64() > int64(len(vals)) || vals[idx.int64()-1].null() {
			if el.K != "null" {
				fail("elt/not-null", fmt.Sprintf("ELT(%s, %v) = %v", idx.lit(), vals, el))
			}
		} else if !el.isStr() || el.str() != vals[idx.int64()-1].S {
			fail("elt/wrong", fmt.Sprintf("ELT(%s, %v) = %v", idx.lit(), vals, el))
		}
		if wantF > 0 {
			back := r.call(46, append([]Arg{I(wantF)}, vals...)...)
			if !back.isStr() || strings.ToLower(back.str()) != strings.ToLower(key.S) {
				fail("elt-field/not-inverse", fmt.Sprintf("ELT(FIELD(%q, l), l) = %v", key.S, back))
			}
		}
	case "concatws":
		sep, vals := in[0], in[1:]
		o := r.call(47, in...)
		if sep.null() {
			if o.K != "null" {
				fail("concat_ws/null-separator-not-null", "CONCAT_WS(NULL, ...) is not NULL")
			}
			break
		}
		var parts []string
		for _, v := range vals {
			if !v.null() {
				parts = append(parts, v.S)
			}
		}
		if !o.isStr() || o.str() != strings.Join(parts, sep.S) {
			fail("concat_ws/wrong", fmt.Sprintf("CONCAT_WS(%v) = %v", in, o))
		}
	case "compress":
		// inverse law on the implementation alone (zlib itself is an oracle): one-shot, framing, and values that are
		// STORED by several COMPRESS calls (one multi-row INSERT, then one INSERT per row) and read back afterwards
		compressSeq++
		tbl := fmt.Sprintf("c34_compress_%d", compressSeq)
		q := func(sql string) eng.Result { return r.s.Query(sql) }
		bad := func(sig, what string) { fail("compress/"+sig, what) }
		for _, a := range in {
			res := q("SELECT UNCOMPRESS(COMPRESS(" + a.lit() + ")), COMPRESS(" + a.lit() + "), UNCOMPRESSED_LENGTH(COMPRESS(" + a.lit() + "))")
			if res.Err != nil || len(res.Rows) != 1 {
				bad("one-shot-failed", fmt.Sprintf("UNCOMPRESS(COMPRESS(%s)): %v", a.lit(), res.Err))
				continue
			}
			row := res.Rows[0]
			if a.null() {
				if row[0] != nil || row[1] != nil {
					bad("null-not-propagated", "COMPRESS(NULL) / UNCOMPRESS(NULL) is not NULL")
				}
				continue
			}
			back, _ := row[0].([]byte)
			if string(back) != a.S {
				if len(a.S) >= 32768 && row[0] == nil {
					fail("uncompress/payload-32k-or-more-returns-null", fmt.Sprintf("UNCOMPRESS(COMPRESS(<%d bytes>)) = NULL", len(a.S)))
				} else {
					bad("one-shot-not-inverse", fmt.Sprintf("UNCOMPRESS(COMPRESS(%.40q...)) = %.40q", a.S, back))
				}
			}
			comp, _ := row[1].([]byte)
			if len(a.S) == 0 {
				if len(comp) != 0 {
					bad("empty-not-empty", fmt.Sprintf("COMPRESS('') = %x", comp))
				}
			} else if len(comp) < 5 || binary.LittleEndian.Uint32(comp[:4]) != uint32(len(a.S)) {
				bad("length-prefix-wrong", fmt.Sprintf("COMPRESS(%.40q) = %.20x...: the first four bytes are not the little-endian length %d", a.S, comp, len(a.S)))
			} else if zr, err := zlib.NewReader(bytes.NewReader(comp[4:])); err != nil {
				bad("body-not-zlib", fmt.Sprintf("COMPRESS(%q) body: %v", a.S, err))
			} else if plain, err := io.ReadAll(zr); err != nil || string(plain) != a.S {
				bad("body-not-zlib", fmt.Sprintf("COMPRESS(%q) body inflates to %q (%v)", a.S, plain, err))
			}
		}
		if res := q("CREATE TABLE " + tbl + " (id INT PRIMARY KEY, c LONGBLOB)"); res.Err != nil {
			bad("setup", res.Err.Error())
			break
		}
		var vals []string
		for i, a := range in {
			vals = append(vals, fmt.Sprintf("(%d, COMPRESS(%s))", i, a.lit()))
		}
		if res := q("INSERT INTO " + tbl + " VALUES " + strings.Join(vals, ", ")); res.Err != nil {
			bad("stored-insert-failed", res.Err.Error())
		}
		for i, a := range in {
			if res := q(fmt.Sprintf("INSERT INTO %s VALUES (%d, COMPRESS(%s))", tbl, 100+i, a.lit())); res.Err != nil {
				bad("stored-insert-failed", res.Err.Error())
			}
		}
		res := q("SELECT id, UNCOMPRESS(c), c FROM " + tbl + " ORDER BY id")
		if res.Err != nil || len(res.Rows) != 2*len(in) {
			bad("stored-read-failed", fmt.Sprintf("%d rows, %v", len(res.Rows), res.Err))
		} else {
			for k, row := range res.Rows {
				a := in[k%len(in)]
				back, ok := row[1].([]byte)
				switch {
				case a.null() && row[1] != nil:
					bad("null-not-propagated", "stored COMPRESS(NULL) is not NULL")
				case !a.null() && len(a.S) >= 32768 && row[1] == nil:
					// same root cause as the one-shot failure, already reported
				case !a.null() && (!ok || string(back) != a.S):
					shape := "multi-row-insert"
					if k >= len(in) {
						shape = "insert-per-row"
					}
					bad("stored-value-not-inverse", fmt.Sprintf("row %v (%s) of %d stored COMPRESS values: UNCOMPRESS(c) = %.40q, stored from %.40q", row[0], shape, 2*len(in), back, a.S))
				}
			}
		}
		q("DROP TABLE " + tbl)
	default:
		panic("unknown family " + cs.Fam)
	}

	// record
	terms := make([]string, len(cs.Calls))
	for i, cl := range cs.Calls {
		terms[i] = lib.CoqTuple(fmt.Sprintf("%d%%N", cl.Fn), lib.CoqListOf(cl.Args, func(a Arg) string { return a.coq() }), cl.Out.coq())
	}
	key := ""
	if nontrivial {
		key = fmt.Sprintf("%s|%v", cs.Fam, cs.In)
	}
	c.Count("family_" + cs.Fam)
	if hasMultibyte(cs.In...) {
		c.Count("with_multibyte_string")
	}
	if anyNull(cs.In...) {
		c.Count("with_null_argument")
	}
	for _, cl := range cs.Calls {
		c.Count("result_" + cl.Out.K)
	}
	id := c.Case(lib.CoqList(terms), cs, key)
	c.PredChecked()
	for _, f := range fails {
		c.PredFail(id, f.sig, f.what, cs)
	}
}

func main() {
	lib.Main("C34", func(c *lib.Ctx) {
		c.Header = "From Coq Require Import List NArith ZArith.\nImport ListNotations.\nFrom GMS Require Import Corr.C34.\nOpen Scope N_scope."
		c.CaseType = "C34.case"
		c.MismatchFn = "C34.mismatches"
		c.SetRule("one identity instance per case, drawn from 20 families (COMPRESS/UNCOMPRESS one-shot and stored-then-read-back, base64 over byte lengths 0..400, concat/char_length, reverse, left/right/substring, " +
			"substring positions, locate/instr, insert, lpad/rpad, repeat, hex, unhex, base64 both ways, conv both ways, inet both ways, " +
			"round, truncate, ceil/floor); strings over an alphabet with 1-4 byte characters, 1/25 NULLs, positions in -9..10 plus " +
			"int64/int32 boundaries, numbers small, boundary, and decimals up to 24 digits. Non-trivial = no NULL argument and inside " +
			"the identity's domain; distinct = distinct (family, arguments).")
		e := eng.New("db")
		if c.ReplayFile != "" {
			var cs caseT
			lib.LoadReplay(c.ReplayFile, &cs)
			run(c, e, cs)
			return
		}
		corpus := []caseT{
			{Fam: "substr", In: []Arg{S("abc"), I(2), I(9223372036854775807)}},
			{Fam: "locate", In: []Arg{S("a"), S(""), I(5)}},
			{Fam: "locate", In: []Arg{S("b"), S("éb"), I(1)}},
			{Fam: "locate", In: []Arg{S("A"), S("abc"), I(1)}},
			{Fam: "locate", In: []Arg{S("a"), S("A%a"), I(1)}},
			{Fam: "insert", In: []Arg{S("héllo"), I(3), I(1), S("X")}},
			{Fam: "insert", In: []Arg{S("hello"), I(2), I(9223372036854775807), S("X")}},
			{Fam: "pad", In: []Arg{S("é"), I(1), S("x"), I(1)}},
			{Fam: "pad", In: []Arg{S("ab"), I(5), S("é"), I(0)}},
			{Fam: "inet_n", In: []Arg{I(3232235777)}},
			{Fam: "inet_s", In: []Arg{S("192.168.1.1")}},
			{Fam: "ceilfloor", In: []Arg{D(big.NewInt(0).SetUint64(12345678901234567890), 1)}},
			{Fam: "ceilfloor", In: []Arg{D(new(big.Int).Neg(big.NewInt(0).SetUint64(12345678901234567890)), 1)}},
			{Fam: "ceilfloor", In: []Arg{D(big.NewInt(75), 3)}},
			{Fam: "ceilfloor", In: []Arg{D(big.NewInt(-15), 3)}},
			{Fam: "concat", In: []Arg{S("héllo"), S("日本")}},
			{Fam: "reverse", In: []Arg{S("héllo𝄞")}},
			{Fam: "hex", In: []Arg{S("héllo")}},
			{Fam: "b64", In: []Arg{S(strings.Repeat("abcdefghij", 12))}},
			{Fam: "b64", In: []Arg{S(strings.Repeat("a", 57))}},
			{Fam: "b64", In: []Arg{S(strings.Repeat("ab", 57))}},
			{Fam: "b64", In: []Arg{S(strings.Repeat("abc", 57))}},
			{Fam: "b64", In: []Arg{S(strings.Repeat("abc", 57) + "d")}},
			{Fam: "compress", In: []Arg{S("aaaa"), S("bbbbbbbb"), S("héllo"), S(""), NUL()}},
			{Fam: "compress", In: []Arg{S(strings.Repeat("a", 32768)), S("x")}},
			{Fam: "radix", In: []Arg{I(-256)}},
			{Fam: "radix", In: []Arg{I(255)}},
			{Fam: "absmod", In: []Arg{IB(new(big.Int).Neg(new(big.Int).SetUint64(1 << 63))), I(3)}},
			{Fam: "absmod", In: []Arg{I(-7), I(3)}},
			{Fam: "absmod", In: []Arg{D(big.NewInt(471), 3), I(2)}},
			{Fam: "trim", In: []Arg{S("xxabxx"), S("x"), I(0)}},
			{Fam: "trim", In: []Arg{S("  a b  "), S(" "), I(0)}},
			{Fam: "replace", In: []Arg{S("aaa"), S("aa"), S("b")}},
			{Fam: "case", In: []Arg{S("héllo É")}},
			{Fam: "ascii", In: []Arg{S("日"), I(97), I(256), NUL()}},
			{Fam: "subidx", In: []Arg{S("a.b.c"), S("."), I(2)}},
			{Fam: "strcmp", In: []Arg{S("a"), S("A")}},
			{Fam: "fieldelt", In: []Arg{S("B"), S("a"), S("b"), I(2)}},
			{Fam: "concatws", In: []Arg{S(","), S("a"), NUL(), S("b")}},
			{Fam: "conv", In: []Arg{S("18446744073709551615"), I(10), I(16)}},
			{Fam: "round", In: []Arg{I(15), I(-1)}},
			{Fam: "round", In: []Arg{D(big.NewInt(-125), 2), I(1)}},
			{Fam: "trunc", In: []Arg{D(big.NewInt(-1999), 3), I(1)}},
		}
		for _, cs := range corpus {
			run(c, e, cs)
		}
		for i := len(corpus); i < c.N; i++ {
			run(c, e, gen(c.R.Fork()))
		}
	})
}
