// Driver for C10 (no SQL input crashes the engine).
// (a) cores with a Coq model (Expr/C10Strings.v): SUBSTRING / LEFT / RIGHT / INSERT / LPAD / RPAD with boundary
//     int64 arguments through the real engine; observed "panicked or not" is compared with the model.
// (b) whole-engine stream: mutated statements (token shuffles, random function names x random argument
//     types / charsets / collations, random literals), each run in its own goroutine under recover with a 5 s
//     deadline; predicate: returns rows or an error, no panic, no hang, session usable afterwards.
// Inputs that make the process itself die (unrecoverable out-of-memory) are run in a child process.
package main

import (
	"context"
	"fmt"
	"io"
	"os"
	"os/exec"
	"regexp"
	"runtime/debug"
	"strings"
	"syscall"
	"time"
	"unicode/utf8"

	sqle "github.com/dolthub/go-mysql-server"
	"github.com/dolthub/go-mysql-server/memory"
	"github.com/dolthub/go-mysql-server/sql"
	"github.com/dolthub/go-mysql-server/sql/expression/function"

	"verifharness/lib"
)

type caseT struct {
	Kind  string   `json:"kind"` // core | stmt | seq | child
	Fn    string   `json:"fn,omitempty"`
	Str   string   `json:"str,omitempty"`
	Pad   string   `json:"pad,omitempty"`
	A     int64    `json:"a,omitempty"`
	B     int64    `json:"b,omitempty"`
	Setup []string `json:"setup,omitempty"`
	Stmts []string `json:"stmts,omitempty"` // kind seq: statements run in order on a fresh, empty engine
	SQL   string   `json:"sql,omitempty"`
	Shape string   `json:"shape,omitempty"` // how the statement was produced (used in signatures)
}

// ---------- engine with stack-capturing recover and deadline ----------
type sess struct {
	e   *sqle.Engine
	s   sql.Session
	db  string
}

func newSess() *sess {
	d := memory.NewDatabase("db")
	pro := memory.NewDBProvider(d)
	e := sqle.NewDefault(pro)
	base := sql.NewBaseSessionWithClientServer("srv", sql.Client{User: "root", Address: "localhost"}, 1)
	return &sess{e: e, s: memory.NewSession(base, pro), db: "db"}
}

type result struct {
	rows    int
	err     error
	panicV  string
	frame   string // innermost go-mysql-server frame of the panic
	timeout bool
}

var frameRe = regexp.MustCompile(`github\.com/dolthub/go-mysql-server/([^\s(]+(?:\([^)]*\))?[^\s(]*)\(`)

func panicFrame(stack string) string {
	// a deferred handler may recover and panic again (planbuilder.Parse does): the frames of the original panic
	// are still on the stack below, so take the first engine frame after the LAST runtime panic entry
	lines := strings.Split(stack, "\n")
	start := 0
	for i, l := range lines {
		if strings.HasPrefix(l, "panic(") || strings.HasPrefix(l, "runtime.goPanic") || strings.HasPrefix(l, "runtime.panic") || strings.HasPrefix(l, "runtime.sigpanic") {
			start = i
		}
	}
	for _, l := range lines[start:] {
		if strings.Contains(l, "go-mysql-server/") && !strings.Contains(l, "verifharness") && strings.Contains(l, "(") && !strings.HasPrefix(l, "\t") {
			if m := frameRe.FindStringSubmatch(l); m != nil {
				return m[1]
			}
		}
	}
	return "?"
}

func (s *sess) query(q string, deadline time.Duration) result {
	ch := make(chan result, 1)
	go func() {
		var res result
		defer func() {
			if r := recover(); r != nil {
				res.panicV = fmt.Sprint(r)
				res.frame = panicFrame(string(debug.Stack()))
			}
			ch <- res
		}()
		ctx := sql.NewContext(context.Background(), sql.WithSession(s.s))
		ctx.SetCurrentDatabase(s.db)
		_, iter, _, err := s.e.Query(ctx, q)
		if err != nil {
			res.err = err
			return
		}
		for {
			_, err := iter.Next(ctx)
			if err == io.EOF {
				break
			}
			if err != nil {
				res.err = err
				iter.Close(ctx)
				return
			}
			res.rows++
			if res.rows > 100000 {
				break
			}
		}
		if err := iter.Close(ctx); err != nil {
			res.err = err
		}
	}()
	select {
	case r := <-ch:
		return r
	case <-time.After(deadline):
		return result{timeout: true}
	}
}

func normMsg(m string) string {
	m = regexp.MustCompile("`[^`]*`").ReplaceAllString(m, "`_`")
	m = regexp.MustCompile(`-?\d+`).ReplaceAllString(m, "N")
	if len(m) > 60 {
		m = m[:60]
	}
	return strings.TrimSpace(m)
}

// ---------- (a) modelled cores ----------
var boundary = []int64{-9223372036854775808, -9223372036854775807, -4611686018427387904, -2147483649, -5, -3, -2, -1, 0, 1, 2, 3, 4, 5, 7,
	2147483647, 4294967296, 1125899906842624, 4611686018427387904, 9223372036854775805, 9223372036854775806, 9223372036854775807}

// sizes that are either tiny or so large that the runtime refuses them without allocating
func safeLen(r *lib.RNG) int64 {
	if r.Chance(1, 3) {
		return lib.Pick(r, []int64{1125899906842624, 4611686018427387904, 5000000000000000000, 9223372036854775807})
	}
	return int64(r.Range(-3, 12))
}

var coreStrs = []string{"", "a", "abc", "hello world", "héllo", "日本語テキスト", "x'y"}

func genCore(r *lib.RNG) caseT {
	cs := caseT{Kind: "core", Fn: lib.Pick(r, []string{"substring", "substring", "left", "right", "insert", "lpad", "rpad"}), Str: lib.Pick(r, coreStrs)}
	pick := func() int64 {
		if r.Chance(1, 2) {
			return int64(r.Range(-6, 8))
		}
		return lib.Pick(r, boundary)
	}
	switch cs.Fn {
	case "lpad", "rpad":
		cs.A = safeLen(r)
		cs.Pad = lib.Pick(r, []string{"", "b", "xy", "é"})
	default:
		cs.A, cs.B = pick(), pick()
	}
	return cs
}

func q(s string) string { return "'" + strings.ReplaceAll(s, "'", "''") + "'" }

func (cs caseT) coreSQL() string {
	switch cs.Fn {
	case "substring":
		return fmt.Sprintf("SELECT SUBSTRING(%s, %d, %d)", q(cs.Str), cs.A, cs.B)
	case "left":
		return fmt.Sprintf("SELECT LEFT(%s, %d)", q(cs.Str), cs.A)
	case "right":
		return fmt.Sprintf("SELECT RIGHT(%s, %d)", q(cs.Str), cs.A)
	case "insert":
		return fmt.Sprintf("SELECT INSERT(%s, %d, %d, 'Z')", q(cs.Str), cs.A, cs.B)
	case "lpad":
		return fmt.Sprintf("SELECT LENGTH(LPAD(%s, %d, %s))", q(cs.Str), cs.A, q(cs.Pad))
	}
	return fmt.Sprintf("SELECT LENGTH(RPAD(%s, %d, %s))", q(cs.Str), cs.A, q(cs.Pad))
}

func shapeOf(v int64) string {
	switch {
	case v >= 4611686018427387904:
		return "huge"
	case v <= -4611686018427387904:
		return "hugeneg"
	case v < 0:
		return "neg"
	}
	return "small"
}

func runCore(c *lib.Ctx, s *sess, cs caseT) {
	sqlText := cs.coreSQL()
	res := s.query(sqlText, 5*time.Second)
	var term string
	switch cs.Fn {
	case "substring":
		term = fmt.Sprintf("CSubstring %s %s %s %s", lib.CoqZ(int64(utf8.RuneCountInString(cs.Str))), lib.CoqZ(cs.A), lib.CoqZ(cs.B), lib.CoqBool(res.panicV != ""))
	case "left":
		term = fmt.Sprintf("CLeft %s %s %s", lib.CoqZ(int64(utf8.RuneCountInString(cs.Str))), lib.CoqZ(cs.A), lib.CoqBool(res.panicV != ""))
	case "right":
		term = fmt.Sprintf("CRight %s %s %s", lib.CoqZ(int64(utf8.RuneCountInString(cs.Str))), lib.CoqZ(cs.A), lib.CoqBool(res.panicV != ""))
	case "insert":
		term = fmt.Sprintf("CInsert %s %s %s %s", lib.CoqZ(int64(len(cs.Str))), lib.CoqZ(cs.A), lib.CoqZ(cs.B), lib.CoqBool(res.panicV != ""))
	default:
		term = fmt.Sprintf("CPad %s %s %s %s", lib.CoqZ(int64(len(cs.Str))), lib.CoqZ(int64(len(cs.Pad))), lib.CoqZ(cs.A), lib.CoqBool(res.panicV != ""))
	}
	c.Count("core/" + cs.Fn)
	id := c.Case(term, cs, sqlText)
	c.PredChecked()
	switch {
	case res.timeout:
		c.PredFail(id, "hang/"+cs.Fn, sqlText+" did not return within 5 s", cs)
	case res.panicV != "":
		sig := fmt.Sprintf("panic/%s/%s,%s", cs.Fn, shapeOf(cs.A), shapeOf(cs.B))
		if cs.Fn == "lpad" || cs.Fn == "rpad" {
			sig = "panic/pad/huge-length"
		}
		c.PredFail(id, sig, fmt.Sprintf("%s panicked: %s (in %s)", sqlText, res.panicV, res.frame), cs)
	}
	if r2 := s.query("SELECT 1", 5*time.Second); r2.err != nil || r2.panicV != "" || r2.timeout || r2.rows != 1 {
		c.PredFail(id, "session-unusable-after/"+cs.Fn, "SELECT 1 failed after "+sqlText, cs)
	}
}

// ---------- (b) whole-engine stream ----------
var setup = []string{
	"CREATE TABLE t (id INT PRIMARY KEY, a INT, s VARCHAR(40), d DECIMAL(10,2), dt DATETIME, b BLOB, j JSON, KEY ia (a))",
	"CREATE TABLE u (k VARCHAR(10) COLLATE utf8mb4_0900_ai_ci PRIMARY KEY, v TEXT CHARACTER SET latin1, e ENUM('x','y','z'), st SET('p','q'))",
	"INSERT INTO t VALUES (1, 10, 'abc', 1.50, '2020-01-02 03:04:05', X'00FF', '{\"a\":[1,2]}'), (2, NULL, 'héllo', -2.25, NULL, NULL, NULL), (3, -7, '', 0, '1999-12-31 23:59:59', X'', '[]')",
	"INSERT INTO u VALUES ('k1', 'caf\\xe9', 'x', 'p,q'), ('K2', NULL, 'z', '')",
	"CREATE VIEW vw AS SELECT id, a + 1 AS a1 FROM t",
}

var seeds = []string{
	"SELECT * FROM t WHERE a > 5 ORDER BY s DESC LIMIT 2 OFFSET 1",
	"SELECT t.id, u.k FROM t JOIN u ON t.s = u.k WHERE t.a IS NOT NULL",
	"SELECT a, COUNT(*), SUM(d) FROM t GROUP BY a HAVING COUNT(*) > 0 ORDER BY 1",
	"SELECT id, ROW_NUMBER() OVER (PARTITION BY a ORDER BY id) FROM t",
	"WITH RECURSIVE c(n) AS (SELECT 1 UNION ALL SELECT n + 1 FROM c WHERE n < 5) SELECT * FROM c",
	"INSERT INTO t (id, a, s) VALUES (10, 1, 'x') ON DUPLICATE KEY UPDATE a = a + 1",
	"UPDATE t SET s = CONCAT(s, 'z'), d = d * 2 WHERE id IN (SELECT id FROM vw WHERE a1 > 0)",
	"DELETE FROM t WHERE id = 3 AND s LIKE '%a%'",
	"SELECT CASE WHEN a > 1 THEN 'big' ELSE s END, CAST(d AS CHAR), CONVERT(s USING latin1) FROM t",
	"SELECT s COLLATE utf8mb4_0900_ai_ci = 'ABC', _latin1 X'E9' , j->'$.a[0]', JSON_EXTRACT(j, '$.a') FROM t",
	"SELECT * FROM t WHERE EXISTS (SELECT 1 FROM u WHERE u.k = t.s) OR a BETWEEN -10 AND 10",
	"SELECT DATE_ADD(dt, INTERVAL 1 MONTH), DATE_FORMAT(dt, '%Y-%m-%d %H'), UNIX_TIMESTAMP(dt) FROM t",
	"ALTER TABLE t ADD COLUMN z INT DEFAULT 5, DROP COLUMN z",
	"CREATE TABLE w (x INT, CHECK (x > 0)); INSERT INTO w VALUES (1)",
	"SELECT id FROM t UNION SELECT a FROM t INTERSECT SELECT 1 EXCEPT SELECT 2",
	"PREPARE p FROM 'SELECT ? + 1'; SET @v = 2; EXECUTE p USING @v",
	"SELECT ST_AsText(ST_GeomFromText('POINT(1 2)')), ST_Distance(ST_GeomFromText('POINT(0 0)'), ST_GeomFromText('POINT(3 4)'))",
	"SELECT GROUP_CONCAT(s ORDER BY id SEPARATOR ','), JSON_ARRAYAGG(a), MAX(dt) FROM t",
	"SHOW CREATE TABLE t", "DESCRIBE u", "EXPLAIN SELECT * FROM t WHERE a = 1", "SHOW VARIABLES LIKE 'sql_mode'",
	"SELECT * FROM information_schema.columns WHERE table_name = 't'",
	"CALL no_such_proc(1)", "SET @@session.sql_mode = ''", "SELECT @@version, DATABASE(), USER()",
	"CREATE TRIGGER tr BEFORE INSERT ON t FOR EACH ROW SET NEW.a = NEW.a + 1",
	"SELECT 1 FROM DUAL WHERE 'a' REGEXP '^[a-z]+$' AND 'abc' LIKE 'a_c' ESCAPE '|'",
}

// functions whose cost is proportional to a numeric argument, that block, or that read files: not called with
// random arguments (the modelled cores cover the padding functions; SPACE is a corpus entry)
var skipFn = map[string]bool{"repeat": true, "space": true, "lpad": true, "rpad": true, "sleep": true, "benchmark": true, "get_lock": true,
	"release_lock": true, "release_all_locks": true, "is_free_lock": true, "is_used_lock": true, "load_file": true, "master_pos_wait": true,
	"st_geomfromwkb": true, "st_geometryfromwkb": true, "st_geomcollfromwkb": true, "st_geometrycollectionfromwkb": true, "st_geomcollfromwkb2": true,
	"st_pointfromwkb": true, "st_linefromwkb": true, "st_linestringfromwkb": true, "st_polyfromwkb": true, "st_polygonfromwkb": true,
	"st_mpointfromwkb": true, "st_multipointfromwkb": true, "st_mlinefromwkb": true, "st_multilinestringfromwkb": true,
	"st_mpolyfromwkb": true, "st_multipolygonfromwkb": true, "make_set": true, "export_set": true}

var fnNames []string

func init() {
	for _, f := range function.BuiltIns {
		n := strings.ToLower(f.FunctionName())
		if !skipFn[n] && !strings.Contains(n, "wkb") {
			fnNames = append(fnNames, n)
		}
	}
}

var argPool = []struct{ kind, text string }{
	{"null", "NULL"}, {"int", "0"}, {"int", "1"}, {"int", "-1"}, {"int", "7"}, {"int", "255"}, {"int", "65536"},
	{"bigint", "9223372036854775807"}, {"bigint", "-9223372036854775808"}, {"ubig", "18446744073709551615"}, {"overint", "99999999999999999999999"},
	{"dec", "1.5"}, {"dec", "-0.000001"}, {"dec", "123456789012345678901234567890.123456789"}, {"float", "1e308"}, {"float", "-1e-320"}, {"float", "1e400"},
	{"str", "''"}, {"str", "'abc'"}, {"str", "'héllo wörld'"}, {"str", "'日本語'"}, {"str", "'1'"}, {"str", "'-5.5abc'"}, {"str", "'%a_'"},
	{"str", "'2020-02-30'"}, {"str", "'0000-00-00 00:00:00'"}, {"str", "'$.a[0]'"}, {"str", "'{\"a\":{\"b\":[1,null,\"x\"]}}'"}, {"str", "'[1,'"},
	{"str", "'POINT(1 2)'"}, {"str", "'POLYGON((0 0,1 1,1 0,0 0),)'"}, {"str", "'a(b'"}, {"str", "'\\\\'"}, {"str", "'%Y-%m-%d %H:%i:%s %f %j %U'"},
	{"hex", "X''"}, {"hex", "X'00'"}, {"hex", "X'FF'"}, {"hex", "X'E9'"}, {"hex", "X'C3'"}, {"hex", "X'F0908080'"}, {"hex", "X'0101000000000000000000F03F'"},
	{"bit", "b'1010'"}, {"intro", "_latin1 X'E9'"}, {"intro", "_utf8mb4 X'C3A9'"}, {"intro", "_binary 'abc'"}, {"intro", "_ucs2 X'0041'"}, {"intro", "_utf16 X'D800'"},
	{"conv", "CONVERT('é' USING latin1)"}, {"conv", "CONVERT(X'C3' USING utf8mb4)"}, {"conv", "CONVERT('abc' USING utf16)"}, {"conv", "CONVERT('x' USING sjis)"},
	{"coll", "'Abc' COLLATE utf8mb4_0900_ai_ci"}, {"coll", "'abc' COLLATE utf8mb4_bin"}, {"coll", "_latin1 'x' COLLATE latin1_swedish_ci"}, {"coll", "'ß' COLLATE utf8mb4_unicode_ci"},
	{"date", "DATE '2020-01-01'"}, {"date", "TIMESTAMP '9999-12-31 23:59:59.999999'"}, {"date", "TIME '-838:59:59'"}, {"ival", "INTERVAL 1 DAY"},
	{"json", "JSON_ARRAY(1, 'a', NULL)"}, {"json", "CAST('{\"k\": 1}' AS JSON)"}, {"geom", "ST_GeomFromText('LINESTRING(0 0,1 1)')"}, {"geom", "ST_GeomFromText('GEOMETRYCOLLECTION EMPTY')"},
	{"col", "s"}, {"col", "a"}, {"col", "d"}, {"col", "dt"}, {"col", "b"}, {"col", "j"}, {"row", "(1, 2)"}, {"sub", "(SELECT MAX(a) FROM t)"}, {"star", "*"}, {"bool", "TRUE"},
}

func genFnCall(r *lib.RNG) caseT {
	fn := lib.Pick(r, fnNames)
	n := r.Intn(5)
	var args, kinds []string
	for i := 0; i < n; i++ {
		a := lib.Pick(r, argPool)
		args = append(args, a.text)
		kinds = append(kinds, a.kind)
	}
	from := ""
	for _, k := range kinds {
		if k == "col" {
			from = " FROM t"
		}
	}
	return caseT{Kind: "stmt", SQL: fmt.Sprintf("SELECT %s(%s)%s", fn, strings.Join(args, ", "), from), Shape: "fn/" + fn + "(" + strings.Join(kinds, ",") + ")"}
}

var tokRe = regexp.MustCompile(`'(?:[^'\\]|\\.|'')*'|[A-Za-z_@][A-Za-z_0-9@.]*|\d+(?:\.\d+)?|<=|>=|<>|!=|->>|->|:=|\S`)

func genShuffle(r *lib.RNG) caseT {
	base := lib.Pick(r, seeds)
	toks := tokRe.FindAllString(base, -1)
	k := r.Range(1, 3)
	how := ""
	for i := 0; i < k && len(toks) > 1; i++ {
		switch r.Intn(6) {
		case 0: // swap two tokens
			a, b := r.Intn(len(toks)), r.Intn(len(toks))
			toks[a], toks[b] = toks[b], toks[a]
			how += "swap,"
		case 1: // delete a token
			p := r.Intn(len(toks))
			toks = append(toks[:p], toks[p+1:]...)
			how += "del,"
		case 2: // duplicate a token
			p := r.Intn(len(toks))
			toks = append(toks[:p+1], toks[p:]...)
			how += "dup,"
		case 3: // replace by a random literal
			toks[r.Intn(len(toks))] = lib.Pick(r, argPool).text
			how += "lit,"
		case 4: // splice a token of another statement
			o := tokRe.FindAllString(lib.Pick(r, seeds), -1)
			toks[r.Intn(len(toks))] = lib.Pick(r, o)
			how += "splice,"
		default: // truncate
			toks = toks[:r.Range(1, len(toks))]
			how += "trunc,"
		}
	}
	return caseT{Kind: "stmt", SQL: strings.Join(toks, " "), Shape: "shuffle/" + strings.SplitN(base, " ", 2)[0]}
}

func runStmt(c *lib.Ctx, s **sess, cs caseT) {
	if cs.Setup != nil {
		*s = freshSess()
	}
	sqlText := cs.SQL
	low := strings.ToLower(sqlText)
	for n := range skipFn { // a shuffle may have spliced one in
		if strings.Contains(low, n+"(") || strings.Contains(low, n+" (") {
			if cs.Shape != "corpus" {
				c.Count("stmt/skipped-unsafe-function")
				return
			}
		}
	}
	res := (*s).query(sqlText, 5*time.Second)
	id := c.CaseNoModel(cs, sqlText)
	c.PredChecked()
	kind := strings.SplitN(cs.Shape, "/", 2)[0]
	switch {
	case res.timeout:
		c.Count("stmt/" + kind + "/hang")
		c.PredFail(id, "hang/"+hangSig(cs), sqlText+" did not return within 5 s", cs)
		*s = freshSess() // the stuck goroutine may hold the old session
		return
	case res.panicV != "":
		c.Count("stmt/" + kind + "/panic")
		c.PredFail(id, "panic/"+res.frame+"/"+normMsg(res.panicV), fmt.Sprintf("%s panicked: %s (in %s)", sqlText, res.panicV, res.frame), cs)
	case res.err != nil:
		c.Count("stmt/" + kind + "/error")
	default:
		c.Count("stmt/" + kind + "/ok")
	}
	if r2 := (*s).query("SELECT COUNT(*) FROM t", 5*time.Second); r2.panicV != "" || r2.timeout || (r2.err != nil && !strings.Contains(r2.err.Error(), "not found")) {
		c.PredFail(id, "session-unusable-after/"+kind, fmt.Sprintf("SELECT COUNT(*) FROM t after %s: err=%v panic=%s timeout=%v", sqlText, r2.err, r2.panicV, r2.timeout), cs)
		*s = freshSess()
	}
}

func hangSig(cs caseT) string {
	low := strings.ToLower(cs.SQL)
	if strings.Contains(low, "space(") {
		return "space/large-count"
	}
	return cs.Shape
}

func freshSess() *sess {
	s := newSess()
	for _, q := range setup {
		if r := s.query(q, 20*time.Second); r.err != nil || r.panicV != "" {
			panic(fmt.Sprintf("setup failed: %s: %v %s", q, r.err, r.panicV))
		}
	}
	return s
}

// ---------- (c) DDL / DML sequences on a fresh engine ----------
var colTypes = []string{"INT", "INT NOT NULL", "BIGINT NOT NULL", "VARCHAR(10)", "VARCHAR(10) NOT NULL", "VARCHAR(10) CHARACTER SET latin1", "DECIMAL(8,2)", "DATETIME", "TEXT", "INT DEFAULT 5"}
var idxNames = []string{"i0", "I1", "Iac", "iAC", "idx_Mixed"}

func genSeq(r *lib.RNG) caseT {
	type tab struct {
		name string
		cols []string
	}
	var tabs []tab
	var out []string
	col := func() string { return fmt.Sprintf("c%d", r.Intn(6)) }
	lits := []string{"1", "-1", "NULL", "2147483648", "-2147483649", "9223372036854775807", "'a'", "'日'", "'é'", "1.5", "''"}
	newTab := func() {
		t := tab{name: fmt.Sprintf("t%d", len(tabs))}
		n := r.Range(1, 4)
		var defs []string
		seen := map[string]bool{}
		for i := 0; i < n; i++ {
			c := col()
			if seen[c] {
				continue
			}
			seen[c] = true
			t.cols = append(t.cols, c)
			defs = append(defs, c+" "+lib.Pick(r, colTypes))
		}
		switch r.Intn(4) {
		case 0:
			defs = append(defs, "PRIMARY KEY ("+t.cols[0]+")")
		case 1:
			defs = append(defs, "KEY k0 ("+lib.Pick(r, t.cols)+")")
		}
		out = append(out, fmt.Sprintf("CREATE TABLE %s (%s)", t.name, strings.Join(defs, ", ")))
		tabs = append(tabs, t)
	}
	newTab()
	n := r.Range(2, 7)
	for i := 0; i < n; i++ {
		t := &tabs[r.Intn(len(tabs))]
		anyCol := func() string {
			if len(t.cols) > 0 && r.Chance(4, 5) {
				return lib.Pick(r, t.cols)
			}
			return col()
		}
		switch r.Intn(14) {
		case 0:
			c := anyCol()
			out = append(out, fmt.Sprintf("ALTER TABLE %s DROP COLUMN %s", t.name, c))
			var keep []string
			for _, x := range t.cols {
				if x != c {
					keep = append(keep, x)
				}
			}
			t.cols = keep
		case 1:
			c := col()
			pos := ""
			if r.Chance(1, 3) {
				pos = " FIRST"
			} else if r.Chance(1, 3) && len(t.cols) > 0 {
				pos = " AFTER " + lib.Pick(r, t.cols)
			}
			out = append(out, fmt.Sprintf("ALTER TABLE %s ADD COLUMN %s %s%s", t.name, c, lib.Pick(r, colTypes), pos))
			t.cols = append(t.cols, c)
		case 2:
			out = append(out, fmt.Sprintf("ALTER TABLE %s MODIFY COLUMN %s %s", t.name, anyCol(), lib.Pick(r, colTypes)))
		case 3:
			out = append(out, fmt.Sprintf("ALTER TABLE %s RENAME COLUMN %s TO %s", t.name, anyCol(), col()))
		case 4, 5:
			u := ""
			if r.Chance(1, 3) {
				u = "UNIQUE "
			}
			cols := anyCol()
			if r.Chance(1, 2) {
				cols += ", " + anyCol()
			}
			out = append(out, fmt.Sprintf("CREATE %sINDEX %s ON %s (%s)", u, lib.Pick(r, idxNames), t.name, cols))
		case 6:
			if r.Bool() && len(tabs) > 1 {
				o := tabs[r.Intn(len(tabs))]
				oc := col()
				if len(o.cols) > 0 && r.Chance(4, 5) {
					oc = lib.Pick(r, o.cols)
				}
				out = append(out, fmt.Sprintf("ALTER TABLE %s ADD CONSTRAINT f%d FOREIGN KEY (%s) REFERENCES %s (%s)", t.name, i, anyCol(), o.name, oc))
			} else {
				out = append(out, fmt.Sprintf("DROP INDEX %s ON %s", lib.Pick(r, idxNames), t.name))
			}
		case 7, 8:
			var vs []string
			for range t.cols {
				vs = append(vs, lib.Pick(r, lits))
			}
			if len(vs) == 0 {
				vs = []string{"1"}
			}
			out = append(out, fmt.Sprintf("INSERT INTO %s VALUES (%s)", t.name, strings.Join(vs, ", ")))
		case 9:
			out = append(out, fmt.Sprintf("SELECT * FROM %s WHERE %s IN (%s, %s)", t.name, anyCol(), lib.Pick(r, lits), lib.Pick(r, lits)))
		case 10:
			fn := lib.Pick(r, []string{"MIN", "MAX", "SUM", "COUNT", "FIRST_VALUE", "AVG"})
			a, b := r.Range(0, 3), r.Range(0, 3)
			kinds := []string{"PRECEDING", "FOLLOWING"}
			out = append(out, fmt.Sprintf("SELECT %s(%s) OVER (ORDER BY %s ROWS BETWEEN %d %s AND %d %s) FROM %s", fn, anyCol(), anyCol(), a, lib.Pick(r, kinds), b, lib.Pick(r, kinds), t.name))
		case 11:
			out = append(out, lib.Pick(r, []string{"START TRANSACTION READ ONLY", "START TRANSACTION", "COMMIT", "ROLLBACK", "SET autocommit = 0"}))
		case 12:
			out = append(out, fmt.Sprintf("UPDATE %s SET %s = %s", t.name, anyCol(), lib.Pick(r, lits)))
			if r.Chance(1, 2) {
				out = append(out, fmt.Sprintf("SELECT HEX(%s), LENGTH(%s) FROM %s", anyCol(), anyCol(), t.name))
			}
		default:
			if len(tabs) < 3 {
				newTab()
			} else {
				out = append(out, fmt.Sprintf("DELETE FROM %s WHERE %s = %s", t.name, anyCol(), lib.Pick(r, lits)))
			}
		}
	}
	return caseT{Kind: "seq", Stmts: out, Shape: "seq"}
}

func runSeq(c *lib.Ctx, cs caseT) {
	s := newSess()
	id := c.CaseNoModel(cs, strings.Join(cs.Stmts, "; "))
	c.Count("seq")
	for _, q := range cs.Stmts {
		c.PredChecked()
		res := s.query(q, 5*time.Second)
		switch {
		case res.timeout:
			c.Count("seq/hang")
			c.PredFail(id, "hang/seq", fmt.Sprintf("%q (in: %s) did not return within 5 s", q, strings.Join(cs.Stmts, "; ")), cs)
			return
		case res.panicV != "":
			c.Count("seq/panic")
			c.PredFail(id, "panic/"+res.frame+"/"+normMsg(res.panicV), fmt.Sprintf("%q panicked: %s (in %s) after: %s", q, res.panicV, res.frame, strings.Join(cs.Stmts, "; ")), cs)
		case res.err != nil:
			c.Count("seq/stmt-error")
		default:
			c.Count("seq/stmt-ok")
		}
	}
	if r2 := s.query("SELECT 1", 5*time.Second); r2.err != nil || r2.panicV != "" || r2.timeout || r2.rows != 1 {
		c.PredFail(id, "session-unusable-after/seq", "SELECT 1 failed after "+strings.Join(cs.Stmts, "; "), cs)
	}
}

// ---------- (d) charset introducers x (odd-length) hex literals, optimizer hints x arities ----------
var charsets = []string{"utf8mb4", "utf8mb3", "utf8", "utf16", "utf16le", "utf32", "ucs2", "latin1", "latin2", "latin5", "latin7", "ascii", "binary",
	"big5", "gbk", "gb2312", "gb18030", "sjis", "cp932", "ujis", "eucjpms", "euckr", "cp1250", "cp1251", "cp1256", "cp1257", "cp850", "cp852", "cp866",
	"armscii8", "dec8", "geostd8", "greek", "hebrew", "hp8", "keybcs2", "koi8r", "koi8u", "macce", "macroman", "swe7", "tis620"}
var hexBytes = []string{"61", "E4", "B8", "00", "D8", "DC", "FF", "80", "C3", "A9", "F0", "90", "41", "7F", "E9"}
var hintNames = []string{"JOIN_ORDER", "JOIN_FIXED_ORDER", "MERGE_JOIN", "LOOKUP_JOIN", "HASH_JOIN", "INNER_JOIN", "SEMI_JOIN", "ANTI_JOIN",
	"LEFT_OUTER_LOOKUP_JOIN", "NO_ICP", "LEFT_DEEP", "NO_MERGE_JOIN", "NO_SUCH_HINT"}
var hintQueries = []string{"* FROM xy JOIN uv ON x = u", "* FROM xy LEFT JOIN uv ON x = u", "* FROM xy JOIN uv ON x = u JOIN ab ON a = x",
	"* FROM xy WHERE x IN (SELECT u FROM uv)", "* FROM xy WHERE NOT EXISTS (SELECT 1 FROM uv WHERE u = x)", "x FROM xy WHERE y = 1"}

func genIntroHint(r *lib.RNG) caseT {
	out := []string{"CREATE TABLE xy (x INT PRIMARY KEY, y INT, KEY iy (y))", "CREATE TABLE uv (u INT PRIMARY KEY, v INT)", "CREATE TABLE ab (a INT PRIMARY KEY, b INT)",
		"INSERT INTO xy VALUES (1,1),(2,2)", "INSERT INTO uv VALUES (1,1),(3,3)", "INSERT INTO ab VALUES (1,1)"}
	n := r.Range(3, 6)
	for i := 0; i < n; i++ {
		if r.Bool() {
			cs := lib.Pick(r, charsets)
			var lit string
			switch r.Intn(4) {
			case 0:
				lit = lib.Pick(r, []string{"'abc'", "'a'", "''", "'abcde'", "'é'", "'日本'"})
			case 1:
				lit = "b'" + lib.Pick(r, []string{"1", "01100001", "0110000101", "111111111"}) + "'"
			default:
				k := r.Range(1, 6)
				h := ""
				for j := 0; j < k; j++ {
					h += lib.Pick(r, hexBytes)
				}
				lit = "X'" + h + "'"
			}
			e := "_" + cs + " " + lit
			switch r.Intn(5) {
			case 0:
				out = append(out, "SELECT "+e)
			case 1:
				out = append(out, "SELECT HEX("+e+"), LENGTH("+e+"), CHAR_LENGTH("+e+")")
			case 2:
				out = append(out, "SELECT "+e+" COLLATE "+cs+"_bin")
			case 3:
				out = append(out, "SELECT CONVERT("+e+" USING "+lib.Pick(r, charsets)+")")
			default:
				out = append(out, "SELECT * FROM xy WHERE "+e+" = 'a'")
			}
		} else {
			names := []string{"xy", "uv", "ab", "nosuch", "XY"}
			k := r.Intn(4)
			var args []string
			for j := 0; j < k; j++ {
				args = append(args, lib.Pick(r, names))
			}
			h := lib.Pick(r, hintNames) + "(" + strings.Join(args, ",") + ")"
			if r.Chance(1, 4) {
				k2 := r.Intn(4)
				var a2 []string
				for j := 0; j < k2; j++ {
					a2 = append(a2, lib.Pick(r, names))
				}
				h += " " + lib.Pick(r, hintNames) + "(" + strings.Join(a2, ",") + ")"
			}
			out = append(out, "SELECT /*+ "+h+" */ "+lib.Pick(r, hintQueries))
		}
	}
	return caseT{Kind: "seq", Stmts: out, Shape: "seq"}
}

// ---------- (e) JSON path functions x null / scalar members x out-of-range indexes ----------
var jsonDocs = []string{`{"a": null}`, `{"a": 5}`, `{"a": "s"}`, `{"a": [1, null, {"b": null}]}`, `{"a": {"b": null}}`, `null`, `[null]`, `[]`, `{}`, `5`, `"x"`,
	`{"a": [[], [null]]}`, `{"a": true}`}
var jsonPaths = []string{"$.a[0]", "$.a[1]", "$.a[2]", "$.a[1].b", "$.a[2].b[1]", "$[0]", "$[1]", "$[1].a", "$.a.b[1]", "$.a.b.c", "$.a[last]", "$.a[last-3]", "$.a[0 to 2]",
	"$.a[*]", "$.a[*].b[1]", "$**.b", "$**[1]", "$.a[1][0]", "$.a[4294967296]", "$", "$.a", "$.*[1]"}

func genJSON(r *lib.RNG) caseT {
	var out []string
	n := r.Range(3, 6)
	for i := 0; i < n; i++ {
		d, p := q(lib.Pick(r, jsonDocs)), q(lib.Pick(r, jsonPaths))
		p2 := q(lib.Pick(r, jsonPaths))
		switch r.Intn(14) {
		case 0:
			out = append(out, fmt.Sprintf("SELECT JSON_EXTRACT(%s, %s)", d, p))
		case 1:
			out = append(out, fmt.Sprintf("SELECT JSON_EXTRACT(%s, %s, %s)", d, p, p2))
		case 2:
			out = append(out, fmt.Sprintf("SELECT JSON_CONTAINS_PATH(%s, %s, %s, %s)", d, lib.Pick(r, []string{"'one'", "'all'"}), p, p2))
		case 3:
			out = append(out, fmt.Sprintf("SELECT JSON_CONTAINS(%s, %s, %s)", d, q(lib.Pick(r, jsonDocs)), p))
		case 4:
			out = append(out, fmt.Sprintf("SELECT JSON_SET(%s, %s, 1), JSON_INSERT(%s, %s, 1), JSON_REPLACE(%s, %s, 1)", d, p, d, p, d, p))
		case 5:
			out = append(out, fmt.Sprintf("SELECT JSON_REMOVE(%s, %s)", d, p))
		case 6:
			out = append(out, fmt.Sprintf("SELECT JSON_LENGTH(%s, %s), JSON_DEPTH(%s), JSON_TYPE(JSON_EXTRACT(%s, %s))", d, p, d, d, p))
		case 7:
			out = append(out, fmt.Sprintf("SELECT JSON_KEYS(%s, %s)", d, p))
		case 8:
			out = append(out, fmt.Sprintf("SELECT JSON_SEARCH(%s, 'one', 's', NULL, %s)", d, p))
		case 9:
			out = append(out, fmt.Sprintf("SELECT JSON_ARRAY_APPEND(%s, %s, 1), JSON_ARRAY_INSERT(%s, %s, 1)", d, p, d, p))
		case 10:
			out = append(out, fmt.Sprintf("SELECT CAST(%s AS JSON)->%s, CAST(%s AS JSON)->>%s", d, p, d, p))
		case 11:
			out = append(out, fmt.Sprintf("SELECT JSON_VALUE(%s, %s), JSON_UNQUOTE(JSON_EXTRACT(%s, %s))", d, p, d, p))
		case 12:
			out = append(out, fmt.Sprintf("SELECT * FROM JSON_TABLE(%s, %s COLUMNS (x INT PATH %s)) AS jt", d, p, p2))
		default:
			out = append(out, fmt.Sprintf("SELECT JSON_OVERLAPS(%s, %s), JSON_MERGE_PATCH(%s, %s), JSON_MERGE_PRESERVE(%s, %s)", d, q(lib.Pick(r, jsonDocs)), d, q(lib.Pick(r, jsonDocs)), d, q(lib.Pick(r, jsonDocs))))
		}
	}
	return caseT{Kind: "seq", Stmts: out, Shape: "seq"}
}

// ---------- (f) trigger DDL + DML sequences ----------
func genTrigger(r *lib.RNG) caseT {
	out := []string{"CREATE TABLE t (id INT PRIMARY KEY, v INT)", "CREATE TABLE t2 (id INT PRIMARY KEY, v INT)", "CREATE TABLE audit1 (x INT)", "CREATE TABLE audit2 (x INT, y INT)",
		"INSERT INTO t VALUES (1,1),(2,2)", "INSERT INTO t2 VALUES (1,1),(2,2)"}
	tabs := []string{"t", "t2"}
	nt := r.Range(1, 3)
	for i := 0; i < nt; i++ {
		tb := lib.Pick(r, tabs)
		ev := lib.Pick(r, []string{"INSERT", "UPDATE", "DELETE"})
		tm := lib.Pick(r, []string{"BEFORE", "BEFORE", "AFTER"})
		ref := "NEW"
		if ev == "DELETE" {
			ref = "OLD"
		}
		other := "t2"
		if tb == "t2" {
			other = "t"
		}
		var body []string
		nb := r.Range(1, 3)
		for j := 0; j < nb; j++ {
			switch r.Intn(7) {
			case 0:
				if tm == "BEFORE" && ev != "DELETE" {
					body = append(body, fmt.Sprintf("SET NEW.v = NEW.v + %d", r.Range(1, 1000)))
				} else {
					body = append(body, fmt.Sprintf("INSERT INTO audit1 VALUES (%s.v)", ref))
				}
			case 1:
				body = append(body, fmt.Sprintf("INSERT INTO audit1 VALUES (%s.v)", ref))
			case 2:
				body = append(body, fmt.Sprintf("INSERT INTO audit2 VALUES (%s.id, %s.v)", ref, ref))
			case 3:
				body = append(body, fmt.Sprintf("UPDATE %s SET v = v + %s.v WHERE id = %s.id", other, ref, ref))
			case 4:
				inner := fmt.Sprintf("INSERT INTO audit1 VALUES (%s.v)", ref)
				if tm == "BEFORE" && ev != "DELETE" {
					inner = "SET NEW.v = 5; " + inner
				}
				body = append(body, fmt.Sprintf("IF %s.v > %d THEN %s; END IF", ref, r.Range(0, 8), inner))
			case 5:
				body = append(body, fmt.Sprintf("DELETE FROM audit2 WHERE x = %s.id", ref))
			default:
				body = append(body, fmt.Sprintf("INSERT INTO %s VALUES (%s.id + 10, %s.v) ON DUPLICATE KEY UPDATE v = v + 1", other, ref, ref))
			}
		}
		b := body[0]
		if len(body) > 1 || r.Bool() {
			b = "BEGIN " + strings.Join(body, "; ") + "; END"
		}
		out = append(out, fmt.Sprintf("CREATE TRIGGER tr%d %s %s ON %s FOR EACH ROW %s", i, tm, ev, tb, b))
	}
	nd := r.Range(2, 4)
	for i := 0; i < nd; i++ {
		tb := lib.Pick(r, tabs)
		switch r.Intn(4) {
		case 0:
			out = append(out, fmt.Sprintf("INSERT INTO %s VALUES (%d, %d)", tb, r.Range(1, 6), r.Range(0, 12)))
		case 1:
			out = append(out, fmt.Sprintf("UPDATE %s SET v = v * 10 WHERE id = %d", tb, r.Range(1, 3)))
		case 2:
			out = append(out, fmt.Sprintf("DELETE FROM %s WHERE id = %d", tb, r.Range(1, 3)))
		default:
			out = append(out, fmt.Sprintf("INSERT INTO %s VALUES (%d, %d), (%d, %d)", tb, r.Range(3, 5), r.Range(0, 12), r.Range(6, 8), r.Range(0, 12)))
		}
	}
	out = append(out, "SELECT * FROM t", "SELECT * FROM t2", "SELECT * FROM audit1", "SELECT * FROM audit2")
	return caseT{Kind: "seq", Stmts: out, Shape: "seq"}
}

// ---------- child process for inputs that kill the process ----------
func childMain(sqlText string) {
	// an address-space limit and a small goroutine stack limit make the outcome independent of the machine:
	// a 64 GiB allocation or an unbounded recursion dies at once instead of after a minute
	lim := syscall.Rlimit{Cur: 8 << 30, Max: 8 << 30}
	_ = syscall.Setrlimit(syscall.RLIMIT_AS, &lim)
	debug.SetMaxStack(48 << 20)
	s := newSess()
	for _, q := range strings.Split(sqlText, "\x1f") {
		r := s.query(q, 20*time.Second)
		fmt.Printf("CHILD-STMT err=%v panic=%q timeout=%v\n", r.err, r.panicV, r.timeout)
		if r.timeout {
			break
		}
	}
	fmt.Println("CHILD-RETURNED")
	os.Exit(0)
}

func runChild(c *lib.Ctx, cs caseT) {
	stmts := cs.Stmts
	if len(stmts) == 0 {
		stmts = []string{cs.SQL}
	}
	cmd := exec.Command(os.Args[0])
	cmd.Env = append(os.Environ(), "C10_CHILD_SQL="+strings.Join(stmts, "\x1f"))
	out, err := cmd.CombinedOutput()
	text := strings.Join(stmts, "; ")
	id := c.CaseNoModel(cs, text)
	c.PredChecked()
	c.Count("child")
	o := string(out)
	switch {
	case !strings.Contains(o, "CHILD-RETURNED"):
		why := "?"
		for _, l := range strings.Split(o, "\n") {
			if strings.HasPrefix(l, "fatal error:") || strings.HasPrefix(l, "runtime: out of memory") || strings.HasPrefix(l, "runtime: goroutine stack exceeds") {
				why = l
				break
			}
		}
		c.PredFail(id, "process-crash/"+cs.Shape, fmt.Sprintf("%s killed the process (child with 8 GiB address space, 48 MiB goroutine stack): %v; %s", text, err, why), cs)
	case strings.Contains(o, "timeout=true"):
		c.PredFail(id, "hang/"+cs.Shape, text+" did not return within 20 s", cs)
	case strings.Contains(o, `panic="`) && strings.Count(o, `panic=""`) != strings.Count(o, "CHILD-STMT"):
		c.PredFail(id, "panic/"+cs.Shape, strings.TrimSpace(o), cs)
	}
}

func main() {
	if q := os.Getenv("C10_CHILD_SQL"); q != "" {
		childMain(q)
		return
	}
	lib.Main("C10", func(c *lib.Ctx) {
		c.Header = "From Coq Require Import List ZArith.\nImport ListNotations.\nFrom GMS Require Import Corr.C10.\nOpen Scope N_scope."
		c.CaseType = "C10.case"
		c.MismatchFn = "C10.mismatches"
		c.SetRule("1/4 modelled cores: SUBSTRING/LEFT/RIGHT/INSERT/LPAD/RPAD over 7 strings with small and boundary int64 arguments (pad lengths tiny or beyond the " +
			"runtime's allocation limit, never in between); 3/4 whole-engine statements: random built-in function (all registered names except blocking / " +
			"allocation-proportional / WKB-reading ones) applied to 0-4 arguments drawn from typed literals, charset introducers, CONVERT USING, COLLATE, " +
			"columns, subqueries; DDL/DML sequences on a fresh engine (CREATE TABLE, ALTER DROP/ADD/MODIFY/RENAME COLUMN, index DDL with mixed-case names, transactions, window frames, out-of-range IN lists); and 1-3 token-level edits (swap, delete, duplicate, literal, splice, truncate) of 28 seed statements. Each statement runs " +
			"in its own goroutine under recover with a 5 s deadline, followed by a probe query on the same session. Non-trivial = distinct statement text.")
		s := freshSess()
		if c.ReplayFile != "" {
			var cs caseT
			lib.LoadReplay(c.ReplayFile, &cs)
			runOne(c, &s, cs)
			return
		}
		corpus := []caseT{
			{Kind: "core", Fn: "substring", Str: "abc", A: 2, B: 9223372036854775807},
			{Kind: "core", Fn: "substring", Str: "abc", A: -1, B: 9223372036854775807},
			{Kind: "core", Fn: "insert", Str: "abc", A: 2, B: 9223372036854775807},
			{Kind: "core", Fn: "lpad", Str: "a", A: 5000000000000000000, Pad: "b"},
			{Kind: "core", Fn: "rpad", Str: "a", A: 9223372036854775807, Pad: "bc"},
			{Kind: "core", Fn: "left", Str: "abc", A: -9223372036854775808},
			{Kind: "core", Fn: "right", Str: "abc", A: 9223372036854775807},
			{Kind: "stmt", Shape: "corpus", SQL: "SELECT ST_AsText(ST_GeomFromText('POLYGON((0 0,1 1,1 0,0 0),)'))"},
			{Kind: "stmt", Shape: "corpus", SQL: "SELECT ST_AsText(ST_GeomFromText('MULTILINESTRING((0 0,1 1),)'))"},
			{Kind: "stmt", Shape: "corpus", SQL: "SELECT ST_AsText(ST_GeomFromText('MULTIPOINT((0 0),)'))"},
			{Kind: "stmt", Shape: "corpus", SQL: "SELECT ST_AsText(ST_GeomFromText('MULTIPOLYGON(((0 0,1 1,1 0,0 0)),)'))"},
			{Kind: "stmt", Shape: "corpus", SQL: "SELECT ST_AsText(ST_GeomFromWKB(X'010200000003000000" + strings.Repeat("00", 32) + "'))"},
			{Kind: "stmt", Shape: "corpus", SQL: "SELECT ord(CONVERT('x' USING sjis))"},
			{Kind: "stmt", Shape: "corpus", SQL: "SELECT 1 FROM DUAL WHERE INTERVAL 1 DAY = 't'"},
			{Kind: "stmt", Shape: "corpus", SQL: "SELECT curtime(d) FROM t"},
			{Kind: "stmt", Shape: "corpus", SQL: "SELECT string_to_vector(X'')"},
			{Kind: "stmt", Shape: "corpus", SQL: "SELECT LENGTH(SPACE(2000000000))"},
			{Kind: "seq", Stmts: []string{"CREATE TABLE t0 (c0 INT NOT NULL, c1 INT, PRIMARY KEY (c0))", "ALTER TABLE t0 DROP COLUMN c0"}},
			{Kind: "seq", Stmts: []string{"CREATE TABLE t2 (c4 INT, c0 BIGINT NOT NULL, c2 INT)", "CREATE UNIQUE INDEX i3 ON t2 (c2)", "ALTER TABLE t2 DROP COLUMN c2"}},
			{Kind: "seq", Stmts: []string{"CREATE TABLE t1 (c0 VARCHAR(10) NOT NULL)", "ALTER TABLE t1 DROP COLUMN c0", "ALTER TABLE t1 ADD COLUMN c2 INT"}},
			{Kind: "seq", Stmts: []string{"CREATE TABLE t0 (c2 INT NOT NULL)", "ALTER TABLE t0 DROP COLUMN c2", "CREATE INDEX i0 ON t0 (c0, c5)"}},
			{Kind: "seq", Stmts: []string{`SELECT JSON_UNQUOTE('"\\ud83d\\ude00"')`}},
			{Kind: "seq", Stmts: []string{`SELECT JSON_UNQUOTE('\\u123')`}},
			{Kind: "seq", Stmts: []string{"CREATE TABLE t (a VARCHAR(10) CHARACTER SET latin1)", "INSERT INTO t VALUES ('日')", "SELECT HEX(a) FROM t"}},
			{Kind: "seq", Stmts: []string{"SELECT HEX(CONVERT(_utf8mb4 x'EDA080' USING utf16))"}},
			{Kind: "seq", Stmts: []string{"CREATE TABLE t (id INT PRIMARY KEY, a INT)", "START TRANSACTION READ ONLY", "INSERT INTO t VALUES (1, 2)"}},
			{Kind: "seq", Stmts: []string{"CREATE TABLE t (id INT PRIMARY KEY, x INT)", "INSERT INTO t VALUES (1,1),(2,2),(3,3),(4,4)", "SELECT MIN(x) OVER (ORDER BY id ROWS BETWEEN 3 PRECEDING AND 2 PRECEDING) FROM t"}},
			{Kind: "seq", Stmts: []string{"CREATE TABLE t (id INT PRIMARY KEY, a INT, KEY ia (a))", "INSERT INTO t VALUES (1,1),(2,2)", "SELECT * FROM t WHERE a IN (2147483648)"}},
			{Kind: "seq", Stmts: []string{"CREATE TABLE t0 (c4 DECIMAL(8,2), c5 VARCHAR(10), PRIMARY KEY (c4))", "CREATE INDEX Iac ON t0 (c4)", "ALTER TABLE t0 RENAME COLUMN c4 TO c3", "INSERT INTO t0 VALUES (1.5, 'x')"}},
			{Kind: "seq", Stmts: []string{"CREATE TABLE t (id INT PRIMARY KEY, a INT)", "UPDATE t SET @@session.sql_mode = 'x' WHERE id IN (SELECT id FROM t)"}},
			{Kind: "seq", Stmts: []string{"CREATE TABLE t (id INT PRIMARY KEY, a INT, c INT)", "CREATE INDEX Iac ON t(a,c)", "INSERT INTO t VALUES (1,1,1)", "DROP INDEX Iac ON t", "INSERT INTO t VALUES (2,2,2)"}},
			{Kind: "stmt", Shape: "corpus", SQL: "SELECT INTERVAL 1 DAY"},
			{Kind: "seq", Stmts: []string{"CREATE TABLE t (id INT PRIMARY KEY, v INT)", "CREATE TABLE audit1 (x INT)",
				"CREATE TRIGGER b BEFORE INSERT ON t FOR EACH ROW BEGIN IF NEW.v > 5 THEN SET NEW.v = 5; INSERT INTO audit1 VALUES (NEW.v); END IF; END", "INSERT INTO t VALUES (2,9)"}},
			{Kind: "seq", Stmts: []string{"CREATE TABLE t (id INT PRIMARY KEY, v INT)", "CREATE TABLE t2 (id INT PRIMARY KEY, v INT)", "INSERT INTO t VALUES (1,1),(2,2)", "INSERT INTO t2 VALUES (1,1),(2,2)",
				"CREATE TRIGGER b2 BEFORE UPDATE ON t2 FOR EACH ROW SET NEW.v = NEW.v + 1000",
				"CREATE TRIGGER a BEFORE UPDATE ON t FOR EACH ROW BEGIN UPDATE t2 SET v = v + NEW.v WHERE id = NEW.id; END", "UPDATE t SET v = v*10 WHERE id = 2", "SELECT * FROM t"}},
			{Kind: "seq", Stmts: []string{"CREATE TABLE t (id INT PRIMARY KEY, v INT)", "CREATE TABLE audit1 (x INT)", "INSERT INTO t VALUES (1,1),(2,2)",
				"CREATE TRIGGER tr0 BEFORE UPDATE ON t FOR EACH ROW BEGIN IF NEW.v > 5 THEN SET NEW.v = 5; INSERT INTO audit1 VALUES (NEW.v); END IF; END", "UPDATE t SET v = v * 10 WHERE id = 2"}},
			{Kind: "seq", Stmts: []string{`SELECT JSON_EXTRACT('{"a": null}', '$.a[1]')`, `SELECT JSON_CONTAINS_PATH('{"a": null}', 'one', '$.a[1].b')`}},
			{Kind: "seq", Stmts: []string{`SELECT JSON_EXTRACT('{"a": 5}', '$.a.b', '$.a')`, `SELECT JSON_SEARCH('null', 'one', 's', NULL, '$[1]')`,
				`SELECT * FROM JSON_TABLE('{"a": null}', '$.a' COLUMNS (x INT PATH '$[1]')) AS jt`,
				`SELECT * FROM JSON_TABLE('{"a": null}', '$.a[4294967296]' COLUMNS (x INT PATH '$.a[last-3]')) AS jt`}},
			{Kind: "seq", Stmts: []string{"CREATE TABLE t3 (c1 BIGINT, c2 BIGINT, PRIMARY KEY (c1))", "CREATE UNIQUE INDEX i3 ON t3 (c2)", "CREATE TABLE t0 (c3 BIGINT)",
				"ALTER TABLE t3 RENAME COLUMN c1 TO c5", "ALTER TABLE t0 ADD CONSTRAINT f2 FOREIGN KEY (c3) REFERENCES t3 (c2)"}},
			{Kind: "seq", Stmts: []string{"CREATE TABLE t (a INT, b INT)", "INSERT INTO t VALUES (1,2) AS n(x)"}},
			{Kind: "seq", Stmts: []string{"PREPARE a FROM 'EXECUTE a'", "EXECUTE a"}},
			{Kind: "seq", Stmts: []string{"SELECT _utf16'abc'", "SELECT _utf8mb3 X'61E4B8'", "SELECT _utf32 X'0000006100'"}},
			{Kind: "seq", Stmts: []string{"CREATE TABLE xy (x INT PRIMARY KEY, y INT)", "CREATE TABLE uv (u INT PRIMARY KEY, v INT)",
				"SELECT /*+ LEFT_OUTER_LOOKUP_JOIN(xy) */ * FROM xy LEFT JOIN uv ON x = u", "SELECT /*+ LEFT_OUTER_LOOKUP_JOIN() */ * FROM xy LEFT JOIN uv ON x = u",
				"SELECT /*+ MERGE_JOIN(xy,uv,xy) */ * FROM xy JOIN uv ON x = u"}},
			{Kind: "child", Shape: "circular-views/stack-overflow", Stmts: []string{"CREATE TABLE t (a INT)", "CREATE VIEW v1 AS SELECT * FROM t",
				"CREATE VIEW v2 AS SELECT * FROM v1", "CREATE OR REPLACE VIEW v1 AS SELECT * FROM v2", "SELECT * FROM v1"}},
			{Kind: "child", Shape: "st_geomfromwkb/collection-count-2^32-1", SQL: "SELECT ST_AsText(ST_GeomFromWKB(X'0107000000FFFFFFFF'))"},
		}
		for _, cs := range corpus {
			runOne(c, &s, cs)
		}
		for i := len(corpus); i < c.N; i++ {
			r := c.R.Fork()
			var cs caseT
			switch k := r.Intn(10); {
			case k < 2:
				cs = genCore(r)
			case k < 5:
				cs = genFnCall(r)
			case k < 6:
				cs = genSeq(r)
			case k < 7:
				switch r.Intn(3) {
				case 0:
					cs = genIntroHint(r)
				case 1:
					cs = genJSON(r)
				default:
					cs = genTrigger(r)
				}
			default:
				cs = genShuffle(r)
			}
			if i%200 == 0 {
				cs.Setup = setup
			}
			runOne(c, &s, cs)
		}
	})
}

func runOne(c *lib.Ctx, s **sess, cs caseT) {
	switch cs.Kind {
	case "core":
		runCore(c, *s, cs)
	case "child":
		runChild(c, cs)
	case "seq":
		runSeq(c, cs)
	default:
		runStmt(c, s, cs)
	}
}
