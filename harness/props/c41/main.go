// Driver for C41 (persist / reload of accounts and grants): runs a generated CREATE USER/ROLE, GRANT, GRANT role, ALTER USER
// history on engine A whose persister keeps the bytes in memory, loads those bytes into a fresh engine B with LoadData,
// and compares SHOW GRANTS of every account and allow/deny of probe statements before vs after (predicate on the
// implementation alone).  The PrivilegeSet lookups before/after are recorded for the Coq model.
package main

import (
	"context"
	"fmt"
	"strings"

	"github.com/dolthub/go-mysql-server/memory"
	"github.com/dolthub/go-mysql-server/sql"
	"github.com/dolthub/go-mysql-server/sql/mysql_db"

	"verifharness/lib"
	"verifharness/lib/eng"
)

type stmtT struct {
	Kind  string   `json:"kind"` // create-user create-role grant grant-dynamic grant-routine grant-role lock
	User  string   `json:"user"`
	Role  string   `json:"role,omitempty"`
	Admin bool     `json:"admin,omitempty"`
	DB    string   `json:"db,omitempty"`
	Tbl   string   `json:"tbl,omitempty"`
	Privs []string `json:"privs,omitempty"`
	Pw    string   `json:"pw,omitempty"`
}

type caseT struct {
	History []stmtT  `json:"history"`
	Diff    []string `json:"diff,omitempty"`
}

var privCode = map[string]int{"SELECT": 0, "INSERT": 1, "UPDATE": 2, "DELETE": 3, "CREATE": 4, "DROP": 5, "INDEX": 12, "ALTER": 13, "RELOAD": 6, "CREATE USER": 25}
var globalPrivs = []string{"SELECT", "INSERT", "UPDATE", "DELETE", "CREATE", "DROP", "RELOAD", "CREATE USER"}
var dbPrivs = []string{"SELECT", "INSERT", "UPDATE", "DELETE", "CREATE", "DROP", "INDEX", "ALTER"}
var tblPrivs = []string{"SELECT", "INSERT", "UPDATE", "DELETE", "INDEX", "ALTER"}
var userNames = []string{"u1", "u2", "u3"}
var roleNames = []string{"r1", "r2"}

// objects as they exist; grants may spell them in another case (names are case-insensitive for the privilege maps)
var dbNames = []string{"db", "Db2"}
var tblNames = []string{"t", "Ss"}
var dbTblNames = []string{"t", "Ss", "Orders"} // tables of database db
var procNames = []string{"DoWork", "lowproc"}  // procedures of database db
var dynNames = []string{"CLONE_ADMIN", "REPLICATION_SLAVE_ADMIN"}

func isRole(n string) bool { return strings.HasPrefix(n, "r") }
func acct(n string) string {
	if isRole(n) {
		return "`" + n + "`@`%`"
	}
	return "`" + n + "`@`localhost`"
}

func levelSQL(s stmtT) string {
	switch {
	case s.DB == "":
		return "*.*"
	case s.Tbl == "":
		return "`" + s.DB + "`.*"
	default:
		return "`" + s.DB + "`.`" + s.Tbl + "`"
	}
}

func (s stmtT) SQL() string {
	switch s.Kind {
	case "create-user":
		if s.Pw != "" {
			return "CREATE USER " + acct(s.User) + " IDENTIFIED BY '" + s.Pw + "'"
		}
		return "CREATE USER " + acct(s.User)
	case "create-role":
		return "CREATE ROLE " + s.User
	case "grant":
		return "GRANT " + strings.Join(s.Privs, ", ") + " ON " + levelSQL(s) + " TO " + acct(s.User)
	case "grant-dynamic":
		q := "GRANT " + strings.Join(s.Privs, ", ") + " ON *.* TO " + acct(s.User)
		if s.Admin {
			q += " WITH GRANT OPTION"
		}
		return q
	case "grant-routine":
		return "GRANT EXECUTE ON PROCEDURE `" + s.DB + "`.`" + s.Tbl + "` TO " + acct(s.User)
	case "grant-role":
		q := "GRANT " + acct(s.Role) + " TO " + acct(s.User)
		if s.Admin {
			q += " WITH ADMIN OPTION"
		}
		return q
	case "lock":
		return "ALTER USER " + acct(s.User) + " ACCOUNT LOCK"
	}
	panic("bad kind " + s.Kind)
}

func coqLevel(db, tbl string) string {
	switch {
	case db == "":
		return "LG"
	case tbl == "":
		return "(LD " + lib.CoqStr(db) + ")"
	default:
		return "(LT " + lib.CoqStr(db) + " " + lib.CoqStr(tbl) + ")"
	}
}

type memPersister struct{ data []byte }

func (m *memPersister) Persist(ctx *sql.Context, data []byte) error {
	m.data = append([]byte{}, data...)
	return nil
}

func sessAs(e *eng.E, user, host string, id uint32) *eng.S {
	base := sql.NewBaseSessionWithClientServer("srv", sql.Client{User: user, Address: host}, id)
	sess := memory.NewSession(base, e.Pro)
	ctx := sql.NewContext(context.Background(), sql.WithSession(sess))
	ctx.SetCurrentDatabase(e.DB)
	return &eng.S{E: e, Ctx: ctx, ID: id}
}

var schema = []string{"CREATE DATABASE Db2",
	"CREATE TABLE db.t (a int primary key, b int)", "CREATE TABLE db.Ss (a int primary key, b int)",
	"CREATE TABLE Db2.t (a int primary key, b int)", "CREATE TABLE Db2.Ss (a int primary key, b int)",
	"CREATE TABLE db.Orders (a int primary key, b int)",
	"CREATE PROCEDURE db.DoWork() SELECT 1", "CREATE PROCEDURE db.lowproc() SELECT 2",
	"INSERT INTO db.t VALUES (1,1)", "INSERT INTO Db2.Ss VALUES (1,1)", "INSERT INTO db.Orders VALUES (1,1)"}

var probes = []string{"SELECT a FROM db.t", "SELECT a FROM db.Ss", "SELECT a FROM Db2.t", "SELECT a FROM Db2.Ss",
	"UPDATE db.t SET b = 2", "UPDATE Db2.Ss SET b = 2", "INSERT INTO Db2.t VALUES (9,9)", "DELETE FROM db.Ss WHERE a < 0",
	"CREATE USER x1@localhost", "SELECT a FROM db.Orders", "SELECT a FROM db.orders", "CALL db.DoWork()", "CALL db.lowproc()", "CALL db.dowork()"}

func showGrants(root *eng.S, a string) string {
	r := root.Query("SHOW GRANTS FOR " + a)
	if r.Err != nil {
		return "error: " + eng.ErrKind(r.Err)
	}
	var out []string
	for _, row := range r.Rows {
		out = append(out, fmt.Sprint(row[0]))
	}
	// order of privilege names inside one line and of lines is not part of the property: canonicalise
	for i, l := range out {
		j := strings.Index(l, " ON ")
		if j < 0 {
			j = strings.Index(l, " TO ")
		}
		if strings.HasPrefix(l, "GRANT ") && j > 0 {
			ps := strings.Split(l[6:j], ", ")
			sortStrings(ps)
			out[i] = "GRANT " + strings.Join(ps, ", ") + l[j:]
		}
	}
	sortStrings(out)
	return strings.Join(out, " | ")
}

func sortStrings(xs []string) {
	for i := 1; i < len(xs); i++ {
		for j := i; j > 0 && xs[j] < xs[j-1]; j-- {
			xs[j], xs[j-1] = xs[j-1], xs[j]
		}
	}
}

func hasAt(ps mysql_db.PrivilegeSet, db, tbl string, p int) bool {
	pt := sql.PrivilegeType(p)
	switch {
	case db == "":
		return ps.Has(pt)
	case tbl == "":
		return ps.Database(db).Has(pt)
	default:
		return ps.Database(db).Table(tbl).Has(pt)
	}
}

func run(c *lib.Ctx, cs caseT) {
	// engine A
	a := eng.New("db")
	pa := &memPersister{}
	ma := a.Engine.Analyzer.Catalog.MySQLDb
	ma.AddRootAccount()
	ma.SetPersister(pa)
	rootA := a.Session()
	rootA.MustExec(schema...)
	for _, s := range cs.History {
		r := rootA.Query(s.SQL())
		if r.Panic != "" {
			id := c.CaseNoModel(cs, "")
			c.PredFail(id, "panic/"+s.Kind, "statement panicked: "+s.SQL()+": "+r.Panic, cs)
			return
		}
		c.Count("stmt/" + s.Kind)
	}
	if pa.data == nil { // nothing was persisted (empty history): force one
		rootA.MustExec("CREATE USER zz@localhost", "DROP USER zz@localhost")
	}
	// engine B: same objects, accounts only from the persisted bytes
	b := eng.New("db")
	mb := b.Engine.Analyzer.Catalog.MySQLDb
	mb.SetPersister(&memPersister{})
	ctxB := sql.NewContext(context.Background(), sql.WithSession(memory.NewSession(sql.NewBaseSession(), b.Pro)))
	var lerr error
	p, pv := lib.Recover(func() { lerr = mb.LoadData(ctxB, pa.data) })
	if p || lerr != nil {
		id := c.CaseNoModel(cs, "")
		c.PredFail(id, "load-failed", fmt.Sprintf("LoadData of the persisted bytes failed: %v %s", lerr, pv), cs)
		return
	}
	rootB := b.Session()
	rootB.MustExec(schema...)

	type pf struct{ sig, what string }
	var fails []pf
	cs.Diff = nil
	phase := "after-reload"
	// predicate 1: SHOW GRANTS of every account
	mixedCaseGrant := false
	adminGrant := false
	dupRole := false
	adminOf := map[string]bool{}
	for _, s := range cs.History {
		if s.Kind == "grant-role" {
			if prev, ok := adminOf[s.Role+">"+s.User]; ok && prev != s.Admin {
				dupRole = true
			}
			adminOf[s.Role+">"+s.User] = s.Admin
		}
	}
	for _, s := range cs.History {
		if (s.Kind == "grant" || s.Kind == "grant-routine") && (s.DB != strings.ToLower(s.DB) || s.Tbl != strings.ToLower(s.Tbl)) {
			mixedCaseGrant = true
		}
		if s.Kind == "grant-role" && s.Admin {
			adminGrant = true
		}
	}
	compare := func() {
		for _, n := range append(append([]string{}, userNames...), roleNames...) {
			ga, gb := showGrants(rootA, acct(n)), showGrants(rootB, acct(n))
			if ga != gb {
				cs.Diff = append(cs.Diff, fmt.Sprintf("SHOW GRANTS FOR %s: before %q after %q", acct(n), ga, gb))
				sig := phase + "/show-grants-differs"
				if dupRole && strings.Count(ga, "`@`%`") > strings.Count(gb, "`@`%`") {
					sig = "show-grants-differs/role-granted-twice-with-different-admin-option-listed-twice-before-reload"
				} else if phase == "after-follow-up-revoke" && mixedCaseGrant {
					sig = phase + "/show-grants-differs/revoke-ineffective-on-mixed-case-object-name"
				}
				if adminGrant && strings.Contains(ga, "WITH ADMIN OPTION") && strings.ReplaceAll(ga, " WITH ADMIN OPTION", "") == gb {
					sig = phase + "/show-grants-differs/with-admin-option-lost-on-reload"
				}
				fails = append(fails, pf{sig, cs.Diff[len(cs.Diff)-1]})
			}
		}
		// predicate 2: allow/deny of probe statements as each user
		var sid uint32 = 100

		for _, u := range userNames {
			sid++
			ua, ub := sessAs(a, u, "localhost", sid), sessAs(b, u, "localhost", sid)
			for _, q := range probes {
				ra, rb := ua.Query(q), ub.Query(q)
				da, dbb := eng.ErrKind(ra.Err) == "denied", eng.ErrKind(rb.Err) == "denied"
				if !da {
					c.Count("probe-allowed-before")
				}
				c.Count(fmt.Sprintf("probe/denied_before_%v/denied_after_%v", da, dbb))
				if da != dbb {
					cs.Diff = append(cs.Diff, fmt.Sprintf("%s as %s: denied before=%v after=%v (%v)", q, u, da, dbb, rb.Err))
					sig := phase + "/allow-deny-differs"
					if mixedCaseGrant {
						sig = phase + "/allow-deny-differs/mixed-case-object-name"
					}
					fails = append(fails, pf{sig, cs.Diff[len(cs.Diff)-1]})
				}
			}
		}
		ua, ub := rootA.Query("SELECT user, host, plugin, authentication_string, account_locked FROM mysql.user"), rootB.Query("SELECT user, host, plugin, authentication_string, account_locked FROM mysql.user")
		if xa, xb := strings.Join(eng.Bag(ua.Rows), "/"), strings.Join(eng.Bag(ub.Rows), "/"); xa != xb || (ua.Err == nil) != (ub.Err == nil) {
			cs.Diff = append(cs.Diff, "mysql.user differs")
			fails = append(fails, pf{phase + "/user-table-differs", fmt.Sprintf("mysql.user (user, host, plugin, authentication_string, account_locked): before %q after %q", xa, xb)})
		}
		ra, rb := rootA.Query("SELECT * FROM mysql.role_edges"), rootB.Query("SELECT * FROM mysql.role_edges")
		if ea, eb := strings.Join(eng.Bag(ra.Rows), "/"), strings.Join(eng.Bag(rb.Rows), "/"); ea != eb {
			sig := phase + "/role-edges-table-differs"
			if adminGrant {
				sig = "role-edges-table-differs/with-admin-option-lost"
			}
			cs.Diff = append(cs.Diff, "mysql.role_edges differs")
			fails = append(fails, pf{sig, fmt.Sprintf("SELECT * FROM mysql.role_edges: before %d rows %q, after %q", len(ra.Rows), ea, eb)})
		}
	}
	compare()
	// model tie: lookups on the PrivilegeSet of one account before / after, role edges admin flags
	var edgeTerms []string
	collect := func(m *mysql_db.MySQLDb) []string {
		var out []string
		rd := m.Reader()
		defer rd.Close()
		rd.VisitRoleEdges(func(e *mysql_db.RoleEdge) {
			out = append(out, fmt.Sprintf("%s@%s>%s@%s|%v", e.FromUser, e.FromHost, e.ToUser, e.ToHost, e.WithAdminOption))
		})
		sortStrings(out)
		return out
	}
	ea, eb := collect(ma), collect(mb)
	for i := 0; i < len(ea) || i < len(eb); i++ {
		ba, bb := i < len(ea) && strings.HasSuffix(ea[i], "|true"), i < len(eb) && strings.HasSuffix(eb[i], "|true")
		if i >= len(ea) || i >= len(eb) {
			ba, bb = true, false // an edge exists on one side only: never agrees with the model
		}
		edgeTerms = append(edgeTerms, lib.CoqTuple(lib.CoqBool(ba), lib.CoqBool(bb)))
	}
	getPS := func(m *mysql_db.MySQLDb, n string) (mysql_db.PrivilegeSet, bool) {
		rd := m.Reader()
		defer rd.Close()
		host := "localhost"
		if isRole(n) {
			host = "%"
		}
		u, ok := rd.GetUser(mysql_db.UserPrimaryKey{Host: host, User: n})
		if !ok {
			return mysql_db.PrivilegeSet{}, false
		}
		return u.PrivilegeSet, true
	}
	for _, n := range append(append([]string{}, userNames...), roleNames...) {
		psa, oka := getPS(ma, n)
		psb, okb := getPS(mb, n)
		if oka != okb {
			fails = append(fails, pf{"account-missing-after-reload", "account " + n + " exists before/after: " + fmt.Sprint(oka, okb)})
			continue
		}
		if !oka {
			continue
		}
		var grants, looks []string
		created := false
		for _, s := range cs.History {
			if (s.Kind == "create-user" || s.Kind == "create-role") && s.User == n {
				created = true
			}
			if s.Kind == "grant" && s.User == n && created {
				grants = append(grants, "(GPriv "+coqLevel(s.DB, s.Tbl)+" "+lib.CoqListOf(s.Privs, func(p string) string { return fmt.Sprint(privCode[p]) })+")")
			}
			if s.Kind == "grant-routine" && s.User == n && created {
				grants = append(grants, "(GTouchDb "+lib.CoqStr(s.DB)+")")
			}
		}
		for _, d := range []string{"", "db", "Db2", "db2"} {
			for _, t := range []string{"", "t", "Ss", "ss"} {
				if d == "" && t != "" {
					continue
				}
				for _, p := range []int{0, 1, 2} {
					looks = append(looks, lib.CoqTuple(lib.CoqBool(hasAt(psa, d, t, p)), lib.CoqBool(hasAt(psb, d, t, p))))
				}
			}
		}
		key := ""
		if len(grants) > 0 {
			key = n + "|" + strings.Join(grants, ";")
		}
		c.Case(lib.CoqTuple(lib.CoqList(grants), lib.CoqList(looks), lib.CoqList(edgeTerms)), cs, key)
	}

	// follow-up: the same REVOKE statements on both engines must leave them in the same state again
	phase = "after-follow-up-revoke"
	nrev := 0
	for i := len(cs.History) - 1; i >= 0 && nrev < 2; i-- {
		s := cs.History[i]
		if s.Kind != "grant" && s.Kind != "grant-routine" {
			continue
		}
		q := "REVOKE " + s.Privs[0] + " ON " + levelSQL(s) + " FROM " + acct(s.User)
		if s.Kind == "grant-routine" {
			q = "REVOKE EXECUTE ON PROCEDURE `" + s.DB + "`.`" + s.Tbl + "` FROM " + acct(s.User)
		}
		ra, rb := rootA.Query(q), rootB.Query(q)
		if (ra.Err == nil) != (rb.Err == nil) {
			fails = append(fails, pf{phase + "/statement-outcome-differs", fmt.Sprintf("%s: before-engine %v, reloaded engine %v", q, ra.Err, rb.Err)})
		}
		nrev++
		c.Count("follow-up-revoke")
	}
	if nrev > 0 {
		compare()
	}
	id := c.CaseNoModel(cs, "")
	c.PredChecked()
	seen := map[string]bool{}
	for _, f := range fails {
		if !seen[f.sig] {
			seen[f.sig] = true
			c.PredFail(id, f.sig, f.what, cs)
		}
	}
}

func subset(r *lib.RNG, xs []string) []string {
	n := r.Range(1, 3)
	m := map[string]bool{}
	for i := 0; i < n; i++ {
		m[lib.Pick(r, xs)] = true
	}
	return lib.SortedKeys(m)
}

func spell(r *lib.RNG, name string) string {
	switch r.Intn(4) {
	case 0:
		return strings.ToLower(name)
	case 1:
		return strings.ToUpper(name)
	default:
		return name
	}
}

func gen(r *lib.RNG) caseT {
	var cs caseT
	mixed := r.Chance(1, 2) // half of the histories use only lower-case spellings of lower-case objects
	for _, u := range userNames {
		if r.Chance(5, 6) {
			s := stmtT{Kind: "create-user", User: u}
			if r.Chance(1, 2) {
				s.Pw = "pw" + u
			}
			cs.History = append(cs.History, s)
		}
	}
	for _, ro := range roleNames {
		if r.Chance(3, 4) {
			cs.History = append(cs.History, stmtT{Kind: "create-role", User: ro})
		}
	}
	names := append(append([]string{}, userNames...), roleNames...)
	n := r.Range(1, 10)
	for i := 0; i < n; i++ {
		s := stmtT{User: lib.Pick(r, names)}
		switch k := r.Intn(20); {
		case k < 2:
			s.Kind = "grant-dynamic"
			s.Privs = []string{lib.Pick(r, dynNames)}
			s.Admin = r.Bool()
		case k < 4:
			s.Kind = "grant-routine"
			s.DB, s.Tbl, s.Privs = "db", lib.Pick(r, procNames), []string{"EXECUTE"}
			if mixed {
				s.Tbl = spell(r, s.Tbl)
			} else {
				s.Tbl = "lowproc"
			}
		case k < 14:
			s.Kind = "grant"
			switch r.Intn(10) {
			case 0, 1:
				s.Privs = subset(r, globalPrivs)
			case 2, 3, 4, 5:
				s.DB = lib.Pick(r, dbNames)
				s.Privs = subset(r, dbPrivs)
			default:
				s.DB = lib.Pick(r, dbNames)
				s.Tbl = lib.Pick(r, tblNames)
				if s.DB == "db" {
					s.Tbl = lib.Pick(r, dbTblNames)
				}
				s.Privs = subset(r, tblPrivs)
			}
			if mixed {
				s.DB, s.Tbl = spell(r, s.DB), spell(r, s.Tbl)
			} else {
				if s.DB != "" {
					s.DB = "db"
				}
				if s.Tbl != "" {
					s.Tbl = "t"
				}
			}
		case k < 18:
			s.Kind = "grant-role"
			s.Role = lib.Pick(r, roleNames)
			s.User = lib.Pick(r, userNames)
			s.Admin = mixed && r.Chance(1, 3)
		default:
			s.Kind = "lock"
			s.User = lib.Pick(r, userNames)
		}
		cs.History = append(cs.History, s)
	}
	return cs
}

func main() {
	lib.Main("C41", func(c *lib.Ctx) {
		c.Header = "From Coq Require Import List NArith.\nImport ListNotations.\nFrom GMS Require Import Sys.Privs Sys.Serialize Corr.C41.\nOpen Scope N_scope."
		c.CaseType = "C41.case"
		c.MismatchFn = "C41.mismatches"
		c.SetRule("histories of CREATE USER (with / without password) / CREATE ROLE, 1-10 GRANTs of 1-3 privileges at global, database " +
			"(db, Db2) or table (t, Ss, Orders) level, EXECUTE on procedures (DoWork, lowproc), the dynamic privileges CLONE_ADMIN / " +
			"REPLICATION_SLAVE_ADMIN with or without GRANT OPTION, GRANT role [WITH ADMIN OPTION], ALTER USER ACCOUNT LOCK, run by root on an engine whose " +
			"persister keeps the bytes; half of the histories spell object names in mixed / upper / lower case, the other half use " +
			"lower-case objects only. The bytes are loaded into a fresh engine; SHOW GRANTS of all 5 accounts, 14 probe statements (tables and procedures with upper-case names included) as " +
			"each of 3 users and 39 PrivilegeSet lookups per account; then up to two REVOKEs of granted privileges are run on both engines and everything is compared again are compared before vs after. One Coq case per existing account; " +
			"non-trivial = the account received at least one grant.")
		if c.ReplayFile != "" {
			var cs caseT
			lib.LoadReplay(c.ReplayFile, &cs)
			run(c, cs)
			return
		}
		cu := func(u string) stmtT { return stmtT{Kind: "create-user", User: u} }
		corpus := []caseT{
			// known findings (the WITH ADMIN OPTION one was fixed by e81e089bb; its input stays)
			{History: []stmtT{cu("u1"), {Kind: "grant", User: "u1", DB: "Db2", Privs: []string{"SELECT"}}}},
			{History: []stmtT{cu("u1"), {Kind: "grant", User: "u1", DB: "db", Tbl: "Ss", Privs: []string{"SELECT"}}}},
			{History: []stmtT{cu("u1"), {Kind: "create-role", User: "r1"}, {Kind: "grant-role", User: "u1", Role: "r1", Admin: true}}},
			// dynamic privileges with different WITH GRANT OPTION flags on one account
			{History: []stmtT{cu("u1"), {Kind: "grant-dynamic", User: "u1", Privs: []string{"CLONE_ADMIN"}, Admin: true}, {Kind: "grant-dynamic", User: "u1", Privs: []string{"REPLICATION_SLAVE_ADMIN"}}}},
			{History: []stmtT{cu("u2"), {Kind: "grant-dynamic", User: "u2", Privs: []string{"REPLICATION_SLAVE_ADMIN"}, Admin: true}, {Kind: "grant-dynamic", User: "u2", Privs: []string{"CLONE_ADMIN"}}}},
			// grants on objects with upper-case letters, direct and via a role: decisions right after reload
			{History: []stmtT{cu("u1"), {Kind: "grant", User: "u1", DB: "db", Tbl: "Orders", Privs: []string{"SELECT"}}, {Kind: "grant-routine", User: "u1", DB: "db", Tbl: "DoWork", Privs: []string{"EXECUTE"}}}},
			{History: []stmtT{cu("u3"), {Kind: "create-role", User: "r1"}, {Kind: "grant", User: "r1", DB: "db", Tbl: "Orders", Privs: []string{"SELECT"}}, {Kind: "grant-routine", User: "r1", DB: "db", Tbl: "DoWork", Privs: []string{"EXECUTE"}}, {Kind: "grant-role", User: "u3", Role: "r1"}}},
			{History: []stmtT{cu("u2"), {Kind: "grant-routine", User: "u2", DB: "db", Tbl: "lowproc", Privs: []string{"EXECUTE"}}}},
			// a routine grant creates the database entry under its spelling; a later grant spells the database differently
			{History: []stmtT{{Kind: "create-role", User: "r2"}, {Kind: "grant-routine", User: "r2", DB: "db", Tbl: "lowproc", Privs: []string{"EXECUTE"}},
				{Kind: "grant", User: "r2", DB: "DB", Privs: []string{"DELETE", "INSERT"}}}},
			// ordinary behaviour
			{History: []stmtT{cu("u1"), {Kind: "grant", User: "u1", DB: "db", Privs: []string{"SELECT", "UPDATE"}}, {Kind: "grant", User: "u1", DB: "db", Tbl: "t", Privs: []string{"INSERT"}}}},
			{History: []stmtT{cu("u2"), {Kind: "create-role", User: "r2"}, {Kind: "grant", User: "r2", Privs: []string{"SELECT"}}, {Kind: "grant-role", User: "u2", Role: "r2"}, {Kind: "lock", User: "u2"}}},
			{History: []stmtT{}},
		}
		for _, cs := range corpus {
			run(c, cs)
		}
		for i := len(corpus); i < c.N; i++ {
			run(c, gen(c.R.Fork()))
		}
	})
}
