// Driver for C07 (grouping / de-duplication use the same equality as '='): calls hash.HashOf / hash.HashOfSimple from
// /repo directly on generated value pairs, and runs GROUP BY / DISTINCT / COUNT(DISTINCT) / UNION / INTERSECT / EXCEPT /
// IN / hash-join queries on the engine over generated columns; every observation is recorded for the Coq key model and
// the property predicate is evaluated with an independent Go reference of '=' (number of '='-classes).
package main

import (
	"fmt"
	"math/big"
	"sort"
	"strings"

	"github.com/cockroachdb/apd/v3"
	"github.com/dolthub/vitess/go/sqltypes"

	"github.com/dolthub/go-mysql-server/sql"
	"github.com/dolthub/go-mysql-server/sql/hash"
	"github.com/dolthub/go-mysql-server/sql/types"

	"verifharness/lib"
	x "verifharness/lib/c05expr"
	"verifharness/lib/eng"
)

// ---------- cases ----------

type pairCase struct {
	Kind   string    `json:"kind"` // "pair"
	Coll   string    `json:"coll"` // bin | ai_ci | general_ci
	Schema []bool    `json:"schema"` // per column: string type supplied in the schema
	R1     []x.Val   `json:"r1"`
	R2     []x.Val   `json:"r2"`
	Simple bool      `json:"simple,omitempty"` // also through HashOfSimple (single column)
	TScale int       `json:"tscale,omitempty"` // scale S of the DECIMAL(65,S) type handed to HashOfSimple for numbers
}

type engCase struct {
	Kind string    `json:"kind"` // "eng"
	Col  string    `json:"col"`  // int | dec-same | dec-mixed | int-dec | str-bin | str-ai-ci | str-general-ci
	X    []x.Val   `json:"x"`
	Y    []x.Val   `json:"y"`
	P    [][]x.Val `json:"pairs,omitempty"` // rows for COUNT(DISTINCT s, u)
}

type anyCase struct {
	Kind string `json:"kind"`
}

// ---------- reference '=' ----------

func ci(coll string) bool { return coll != "bin" }

func numEq(a, b x.Val) bool {
	sa, sb := 0, 0
	if a.K == "dec" {
		sa = a.S
	}
	if b.K == "dec" {
		sb = b.S
	}
	l := new(big.Int).Mul(big.NewInt(a.I), new(big.Int).Exp(big.NewInt(10), big.NewInt(int64(sb)), nil))
	r := new(big.Int).Mul(big.NewInt(b.I), new(big.Int).Exp(big.NewInt(10), big.NewInt(int64(sa)), nil))
	return l.Cmp(r) == 0
}

// refEq: '=' between two non-NULL values under the column's comparison type / collation.
// fold: case- and accent-insensitive canonical form for the small generated alphabet (written independently of the
// engine's collation tables): lower case, then the base letter of each accented letter.
var accentBase = map[rune]rune{'é': 'e', 'è': 'e', 'ê': 'e', 'ë': 'e', 'á': 'a', 'à': 'a', 'ä': 'a', 'ü': 'u', 'ö': 'o', 'ñ': 'n'}

func fold(s string) string {
	var sb strings.Builder
	for _, r := range strings.ToLower(s) {
		if b, ok := accentBase[r]; ok {
			r = b
		}
		sb.WriteRune(r)
	}
	return sb.String()
}

func refEq(coll string, a, b x.Val) bool {
	switch {
	case a.K == "str" && b.K == "str":
		if ci(coll) {
			return fold(a.B) == fold(b.B)
		}
		return a.B == b.B
	case a.K != "str" && b.K != "str":
		return numEq(a, b)
	}
	return false
}

// pairKind names what distinguishes two '='-equal values.
func pairKind(a, b x.Val) string {
	switch {
	case a.K == "dec" && b.K == "dec" && a.S != b.S:
		return "decimal-scale"
	case (a.K == "int") != (b.K == "int") && a.K != "str" && b.K != "str":
		return "int-vs-decimal"
	case a.K == "str" && b.K == "str" && a.B != b.B && strings.EqualFold(a.B, b.B):
		return "collation-variant"
	case a.K == "str" && b.K == "str" && a.B != b.B && fold(a.B) == fold(b.B):
		return "collation-variant"
	}
	return "same-representation"
}

func classes(coll string, vs []x.Val) [][]x.Val {
	var cl [][]x.Val
outer:
	for _, v := range vs {
		for i := range cl {
			if refEq(coll, cl[i][0], v) {
				cl[i] = append(cl[i], v)
				continue outer
			}
		}
		cl = append(cl, []x.Val{v})
	}
	return cl
}

func inClass(coll string, v x.Val, vs []x.Val) bool {
	for _, u := range vs {
		if refEq(coll, v, u) {
			return true
		}
	}
	return false
}

// kinds of '='-equal but differently represented pairs present in the value set
func splitKinds(coll string, vs []x.Val) string {
	ks := map[string]bool{}
	for i := range vs {
		for j := i + 1; j < len(vs); j++ {
			if refEq(coll, vs[i], vs[j]) {
				if k := pairKind(vs[i], vs[j]); k != "same-representation" {
					ks[k] = true
				}
			}
		}
	}
	if len(ks) == 0 {
		return "no-variant-pairs"
	}
	return strings.Join(lib.SortedKeys(ks), "+")
}

// ---------- Go values for hash.HashOf ----------

func goVal(r *lib.RNG, v x.Val) interface{} {
	switch v.K {
	case "null":
		return nil
	case "int":
		if r != nil && v.I >= -100 && v.I <= 100 {
			switch r.Intn(4) {
			case 0:
				return int8(v.I)
			case 1:
				return int32(v.I)
			case 2:
				return int16(v.I)
			}
		}
		return v.I
	case "dec":
		d, _, err := apd.NewFromString(x.DecText(v.I, v.S))
		if err != nil {
			panic(err)
		}
		return d
	}
	return v.B
}

var collIDs = map[string]sql.CollationID{
	"bin":        sql.Collation_utf8mb4_0900_bin,
	"ai_ci":      sql.Collation_utf8mb4_0900_ai_ci,
	"general_ci": sql.Collation_utf8mb4_general_ci,
}

func hv(v x.Val) string {
	switch v.K {
	case "null":
		return "HNull"
	case "int":
		return "(HInt " + lib.CoqZ(v.I) + ")"
	case "dec":
		return fmt.Sprintf("(HDec %s %d)", lib.CoqZ(v.I), v.S)
	}
	return "(HStr " + coqRunes(v.B) + ")"
}

// strings are modelled as code-point sequences (their UTF-8 encoding is an injective homomorphism, so key equality is
// the same on bytes and on code points); invalid UTF-8 is not generated.
func coqRunes(b string) string {
	rs := []rune(b)
	if len(rs) == 0 {
		return "[]"
	}
	parts := make([]string, len(rs))
	for i, r := range rs {
		parts[i] = fmt.Sprintf("%d", r)
	}
	return "[" + strings.Join(parts, ";") + "]"
}

func hvs(vs []x.Val) string { return lib.CoqListOf(vs, hv) }

// ---------- pools ----------

var intPool = []int64{-12, -1, 0, 1, 2, 10, 12, 100, 1000000, -9223372036854775808, 9223372036854775807}
var strPoolCI = []string{"a", "A", "b", "B", "ab", "AB", "Ab", "aB", "", "abc", "e", "é", "E", "É", "re", "ré", "Ré"}
var strPoolBin = []string{"a", "A", "b", "ab", "AB", "", "a ", "a\x00", "\x00b", "a,", ",b", "abc", "e", "é"}

func genDec(r *lib.RNG, scales []int) x.Val {
	s := lib.Pick(r, scales)
	base := lib.Pick(r, []int64{-150, -1, 0, 1, 5, 100, 125, 250, 1000})
	// value = base/100 written at scale s (exactly representable for s >= 2; for s < 2 use multiples)
	switch {
	case s >= 2:
		m := base
		for i := 2; i < s; i++ {
			m *= 10
		}
		return x.Dec(m, s)
	case s == 1:
		return x.Dec((base/10)*1, 1)
	default:
		return x.Dec(base/100, 0)
	}
}

func variant(r *lib.RNG, coll string, v x.Val) x.Val {
	switch v.K {
	case "int":
		if r.Chance(1, 2) {
			return v
		}
		return x.Int(lib.Pick(r, intPool))
	case "dec":
		switch r.Intn(3) {
		case 0:
			return v
		case 1: // same number, other scale
			if v.S < 6 {
				return x.Dec(v.I*100, v.S+2)
			}
			return v
		default:
			if v.I > 1000000000000 || v.I < -1000000000000 {
				return x.Dec(v.I+int64(r.Range(-1, 1)), v.S)
			}
			return genDec(r, []int{0, 1, 2, 4})
		}
	case "str":
		switch r.Intn(4) {
		case 0:
			return v
		case 1:
			return x.Str(strings.ToUpper(v.B))
		case 2:
			if r.Bool() {
				return x.Str(strings.NewReplacer("e", "é", "é", "e", "E", "É", "É", "E").Replace(v.B))
			}
			return x.Str(strings.ToLower(v.B))
		default:
			if ci(coll) {
				return x.Str(lib.Pick(r, strPoolCI))
			}
			return x.Str(lib.Pick(r, strPoolBin))
		}
	}
	return v
}

func genPair(r *lib.RNG) pairCase {
	c := pairCase{Kind: "pair", Coll: lib.Pick(r, []string{"bin", "ai_ci", "general_ci"})}
	n := lib.Pick(r, []int{1, 1, 1, 2, 2, 3})
	for i := 0; i < n; i++ {
		var v x.Val
		switch r.Intn(7) {
		case 0, 1:
			v = x.Int(lib.Pick(r, intPool))
		case 2, 3:
			v = genDec(r, []int{0, 1, 2, 4})
			if r.Chance(1, 5) {
				// beyond float64 precision
				v = x.Dec(lib.Pick(r, []int64{1234567890123456788, 1234567890123456789, -1234567890123456789}), 2)
			}
		case 4:
			v = x.Null()
		default:
			if ci(c.Coll) {
				v = x.Str(lib.Pick(r, strPoolCI))
			} else {
				v = x.Str(lib.Pick(r, strPoolBin))
			}
		}
		c.R1 = append(c.R1, v)
		c.R2 = append(c.R2, variant(r, c.Coll, v))
		c.Schema = append(c.Schema, v.K == "str" && r.Chance(2, 3))
	}
	// NUL shifting between adjacent raw strings
	if n == 2 && r.Chance(1, 8) && !ci(c.Coll) {
		c.R1 = []x.Val{x.Str("a\x00"), x.Str("b")}
		c.R2 = []x.Val{x.Str("a"), x.Str("\x00b")}
		c.Schema = []bool{false, false}
	}
	c.Simple = n == 1 && c.R1[0].K != "null" && c.R2[0].K != "null"
	// the compare type of the simple key: mostly wide enough for the values (InternalDecimalType has scale 30), sometimes
	// narrower than the values so that DecimalType.Convert rounds
	c.TScale = lib.Pick(r, []int{30, 30, 10, 10, 4, 2, 1, 0})
	return c
}

func runPair(c *lib.Ctx, r *lib.RNG, cs pairCase) {
	ctx := sql.NewEmptyContext()
	var sch sql.Schema
	var csch []string
	anySchema := false
	for _, s := range cs.Schema {
		if s {
			anySchema = true
		}
	}
	if anySchema {
		for _, s := range cs.Schema {
			if s {
				sch = append(sch, &sql.Column{Type: types.MustCreateString(sqltypes.VarChar, 20, collIDs[cs.Coll])})
				csch = append(csch, "CStr")
			} else {
				sch = append(sch, &sql.Column{Type: types.Int64})
				csch = append(csch, "CNone")
			}
		}
	}
	r1, r2 := make(sql.Row, len(cs.R1)), make(sql.Row, len(cs.R2))
	for i := range cs.R1 {
		r1[i] = goVal(r, cs.R1[i])
		r2[i] = goVal(r, cs.R2[i])
	}
	var h1, h2 uint64
	var e1, e2 error
	p, pv := lib.Recover(func() {
		h1, e1 = hash.HashOf(ctx, sch, r1)
		h2, e2 = hash.HashOf(ctx, sch, r2)
	})
	if p {
		id := c.CaseNoModel(cs, "")
		c.PredFail(id, "hashof-panic", "hash.HashOf panicked: "+pv, cs)
		return
	}
	if e1 != nil || e2 != nil {
		c.Count("pair:error")
		c.CaseNoModel(cs, "")
		return
	}
	same := h1 == h2
	term := "(PairCase " + lib.CoqBool(ci(cs.Coll)) + " " + lib.CoqList(csch) + " " + hvs(cs.R1) + " " + hvs(cs.R2) + " " + lib.CoqBool(same) + ")"
	key := ""
	if same {
		key = fmt.Sprintf("pair|%v|%v|%v", cs.Schema, cs.R1, cs.R2)
	}
	id := c.Case(term, cs, key)
	c.Count(fmt.Sprintf("pair:cols=%d", len(cs.R1)))
	if same {
		c.Count("pair:hash-equal")
	} else {
		c.Count("pair:hash-different")
	}

	// predicate on the implementation alone: hashes agree  <->  every column is '=' (NULL only with NULL)
	c.PredChecked()
	allEq := true
	kind := "same-representation"
	for i := range cs.R1 {
		a, b := cs.R1[i], cs.R2[i]
		if a.K == "null" || b.K == "null" {
			if a.K != b.K {
				allEq = false
			}
			continue
		}
		// hash.HashOf can only know a collation through the schema: without one the API contract is bytewise equality
		coll := "bin"
		if cs.Schema[i] {
			coll = cs.Coll
		}
		if !refEq(coll, a, b) {
			allEq = false
		} else if k := pairKind(a, b); k != "same-representation" {
			if k == "collation-variant" && cs.Schema[i] {
				// weight strings are hashed: not a reason for different hashes
				if kind == "same-representation" {
					kind = k + "-with-schema"
				}
			} else {
				kind = k
			}
		}
	}
	if allEq != same {
		dir := "equal-values-different-hash"
		if same {
			dir = "different-values-same-hash"
			kind = "nul-in-raw-string"
			for i := range cs.R1 {
				if cs.R1[i].K != "str" || !strings.Contains(cs.R1[i].B+cs.R2[i].B, "\x00") {
					cl := "bin"
					if cs.Schema[i] {
						cl = cs.Coll
					}
					if cs.R1[i].K != "null" && cs.R2[i].K != "null" && !refEq(cl, cs.R1[i], cs.R2[i]) {
						kind = "other"
					}
				}
			}
		}
		c.PredFail(id, "hashof/"+dir+"/"+kind,
			fmt.Sprintf("hash.HashOf(schema=%v, coll=%s): rows %v and %v: '=' on every column is %v but hashes equal is %v", cs.Schema, cs.Coll, valsText(cs.R1), valsText(cs.R2), allEq, same), cs)
	}

	if cs.Simple {
		a, b := cs.R1[0], cs.R2[0]
		var t sql.Type
		var st string
		wide := true // the type's scale holds every fraction digit of both values (no rounding in Convert)
		switch {
		case a.K == "str":
			t = types.MustCreateString(sqltypes.VarChar, 20, collIDs[cs.Coll])
			st = "TText"
		case a.K == "dec" || b.K == "dec":
			t = types.MustCreateDecimalType(65, uint8(cs.TScale))
			st = fmt.Sprintf("(TDec %d)", cs.TScale)
			wide = (a.K != "dec" || a.S <= cs.TScale) && (b.K != "dec" || b.S <= cs.TScale)
		default:
			t = types.Int64
			st = "TInt"
		}
		if (a.K == "str") != (b.K == "str") {
			return
		}
		var s1, s2 uint64
		p, pv := lib.Recover(func() {
			s1, _, e1 = hash.HashOfSimple(ctx, goVal(nil, a), t)
			s2, _, e2 = hash.HashOfSimple(ctx, goVal(nil, b), t)
		})
		if p {
			c.PredFail(id, "hashofsimple-panic", "hash.HashOfSimple panicked: "+pv, cs)
			return
		}
		if e1 != nil || e2 != nil {
			c.Count("simple:error")
			return
		}
		skey := ""
		if s1 == s2 {
			skey = fmt.Sprintf("simple|%s|%v|%v", st, a, b)
		}
		sid := c.Case("(SimpleCase "+lib.CoqBool(ci(cs.Coll))+" "+st+" "+hv(a)+" "+hv(b)+" "+lib.CoqBool(s1 == s2)+")", cs, skey)
		c.Count("simple:type=" + strings.Trim(strings.Fields(st)[0], "("))
		if !wide {
			// a type narrower than the values is a caller's choice (values are rounded first): model tie only
			c.Count("simple:rounding")
			return
		}
		c.PredChecked()
		c.Count("simple:checked")
		if (s1 == s2) != refEq(cs.Coll, a, b) {
			c.PredFail(sid, "hashofsimple/"+pairKind(a, b),
				fmt.Sprintf("hash.HashOfSimple(%s) on %s and %s (coll %s): '=' is %v but hashes equal is %v", t, a.SQL(), b.SQL(), cs.Coll, refEq(cs.Coll, a, b), s1 == s2), cs)
		}
	}
}

func valsText(vs []x.Val) string {
	s := make([]string, len(vs))
	for i, v := range vs {
		s[i] = fmt.Sprintf("%q", v.SQL())
	}
	return "[" + strings.Join(s, " ") + "]"
}

// ---------- engine level ----------

var colDefs = map[string][2]string{
	"int":            {"INT", "BIGINT"},
	"dec-same":       {"DECIMAL(10,2)", "DECIMAL(10,2)"},
	"dec-mixed":      {"DECIMAL(10,2)", "DECIMAL(12,4)"},
	"int-dec":        {"INT", "DECIMAL(10,2)"},
	"dec-big":        {"DECIMAL(22,2)", "DECIMAL(22,2)"},
	"str-bin":        {"VARCHAR(20)", "VARCHAR(20)"},
	"str-ai-ci":      {"VARCHAR(20) COLLATE utf8mb4_0900_ai_ci", "VARCHAR(20) COLLATE utf8mb4_0900_ai_ci"},
	"str-general-ci": {"VARCHAR(20) COLLATE utf8mb4_general_ci", "VARCHAR(20) COLLATE utf8mb4_general_ci"},
}

func collOf(col string) string {
	switch col {
	case "str-ai-ci":
		return "ai_ci"
	case "str-general-ci":
		return "general_ci"
	}
	return "bin"
}

var engStrBin = []string{"a", "A", "b", "ab", "AB", "", "a ", "abc"}

func genEng(r *lib.RNG) engCase {
	c := engCase{Kind: "eng", Col: lib.Pick(r, []string{"int", "dec-same", "dec-mixed", "dec-mixed", "int-dec", "dec-big", "str-bin", "str-ai-ci", "str-ai-ci", "str-general-ci"})}
	n := r.Range(3, 7)
	one := func(side int) x.Val {
		if r.Chance(1, 7) {
			return x.Null()
		}
		switch c.Col {
		case "int":
			return x.Int(lib.Pick(r, []int64{-1, 0, 1, 2, 10, 12}))
		case "dec-same":
			return genDec(r, []int{2})
		case "dec-big":
			// differ only beyond float64 precision
			return x.Dec(lib.Pick(r, []int64{1234567890123456788, 1234567890123456789, 1234567890123456790, 1234567890123456700, -1234567890123456789, 100}), 2)
		case "dec-mixed":
			if side == 0 {
				return genDec(r, []int{2})
			}
			return genDec(r, []int{4})
		case "int-dec":
			if side == 0 {
				return x.Int(lib.Pick(r, []int64{-1, 0, 1, 2, 10}))
			}
			return genDec(r, []int{2})
		case "str-bin":
			return x.Str(lib.Pick(r, engStrBin))
		default:
			return x.Str(lib.Pick(r, strPoolCI))
		}
	}
	for i := 0; i < n; i++ {
		c.X = append(c.X, one(0))
		c.Y = append(c.Y, one(1))
	}
	if strings.HasPrefix(c.Col, "str") {
		pool := []string{"a", "a,", ",b", "b", "", ","}
		if c.Col == "str-bin" {
			pool = []string{"a", "a,", ",b", "b", "a\x00", "\x00b", "ab"}
		}
		for i := 0; i < 5; i++ {
			c.P = append(c.P, []x.Val{x.Str(lib.Pick(r, pool)), x.Str(lib.Pick(r, pool))})
		}
	}
	return c
}

func hasEmpty(vs []x.Val) bool {
	for _, v := range vs {
		if v.K == "str" && v.B == "" {
			return true
		}
	}
	return false
}

func nonNull(vs []x.Val) []x.Val {
	var out []x.Val
	for _, v := range vs {
		if v.K != "null" {
			out = append(out, v)
		}
	}
	return out
}

type engEnv struct {
	e *eng.E
	s *eng.S
	n int
}

func count1(res eng.Result) (int, error) {
	if res.Err != nil {
		return 0, res.Err
	}
	if len(res.Rows) != 1 {
		return 0, fmt.Errorf("expected one row")
	}
	v, err := x.ValFromGo(res.Rows[0][0])
	if err != nil || v.K != "int" {
		return 0, fmt.Errorf("bad count %v", res.Rows[0][0])
	}
	return int(v.I), nil
}

func colVals(res eng.Result) ([]x.Val, error) {
	if res.Err != nil {
		return nil, res.Err
	}
	var out []x.Val
	for _, r := range res.Rows {
		v, err := x.ValFromGo(r[0])
		if err != nil {
			return nil, err
		}
		out = append(out, v)
	}
	return out, nil
}

func runEng(c *lib.Ctx, v *engEnv, cs engCase) {
	v.n++
	t := fmt.Sprintf("t%d", v.n)
	defs := colDefs[cs.Col]
	s := v.s
	s.MustExec("CREATE TABLE " + t + " (id INT PRIMARY KEY, x " + defs[0] + ", y " + defs[1] + ")")
	for i := range cs.X {
		s.MustExec(fmt.Sprintf("INSERT INTO %s VALUES (%d, %s, %s)", t, i, cs.X[i].SQL(), cs.Y[i].SQL()))
	}
	coll := collOf(cs.Col)
	cib := lib.CoqBool(ci(coll))
	S1, S2 := nonNull(cs.X), nonNull(cs.Y)
	all := append(append([]x.Val{}, S1...), S2...)
	c.Count("eng:col=" + cs.Col)

	xs := "SELECT x FROM " + t + " WHERE x IS NOT NULL"
	ys := "SELECT y FROM " + t + " WHERE y IS NOT NULL"
	U := "(SELECT x AS v FROM " + t + " WHERE x IS NOT NULL UNION ALL " + ys + ") u"
	both := func(a []x.Val, b []x.Val) int {
		n := 0
		for _, cl := range classes(coll, a) {
			if inClass(coll, cl[0], b) {
				n++
			}
		}
		return n
	}
	nIn := 0
	for _, a := range S1 {
		if inClass(coll, a, S2) {
			nIn++
		}
	}
	nJoin := 0
	for _, a := range S1 {
		for _, b := range S2 {
			if refEq(coll, a, b) {
				nJoin++
			}
		}
	}
	schemaCol := "CNone"
	if strings.HasPrefix(cs.Col, "str") {
		schemaCol = "CStr"
	}
	type chk struct {
		op, sql string
		want   int
		vals   []x.Val // the '='-relevant value set (for the signature)
		model  string  // "" | "dedup-schema" | "dedup-raw" | "cd"
		input  string  // query giving the operator's input values (for the model)
	}
	checks := []chk{
		{"group-by-column", "SELECT COUNT(*) FROM (SELECT x FROM " + t + " WHERE x IS NOT NULL GROUP BY x) q", len(classes(coll, S1)), S1, "dedup-schema", xs},
		{"distinct-column", "SELECT COUNT(*) FROM (SELECT DISTINCT x FROM " + t + " WHERE x IS NOT NULL) q", len(classes(coll, S1)), S1, "dedup-raw", xs},
		{"count-distinct-column", "SELECT COUNT(DISTINCT x) FROM " + t, len(classes(coll, S1)), S1, "cd", xs},
		{"group-by-union-all", "SELECT COUNT(*) FROM (SELECT v FROM " + U + " GROUP BY v) q", len(classes(coll, all)), all, "dedup-schema", "SELECT v FROM " + U},
		{"distinct-union-all", "SELECT COUNT(*) FROM (SELECT DISTINCT v FROM " + U + ") q", len(classes(coll, all)), all, "dedup-raw", "SELECT v FROM " + U},
		{"count-distinct-union-all", "SELECT COUNT(DISTINCT v) FROM " + U, len(classes(coll, all)), all, "cd", "SELECT v FROM " + U},
		{"union", "SELECT COUNT(*) FROM (" + xs + " UNION " + ys + ") q", len(classes(coll, all)), all, "dedup-raw", xs + " UNION ALL " + ys},
		{"intersect", "SELECT COUNT(*) FROM (" + xs + " INTERSECT " + ys + ") q", both(S1, S2), all, "", ""},
		{"except", "SELECT COUNT(*) FROM (" + xs + " EXCEPT " + ys + ") q", len(classes(coll, S1)) - both(S1, S2), all, "", ""},
		{"in-subquery", "SELECT COUNT(*) FROM " + t + " WHERE x IN (" + ys + ")", nIn, all, "", ""},
		{"hash-join", "SELECT COUNT(*) FROM " + t + " a JOIN " + t + " b ON a.x = b.y", nJoin, all, "", ""},
		{"hash-join-hinted", "SELECT /*+ HASH_JOIN(a,b) */ COUNT(*) FROM " + t + " a JOIN " + t + " b ON a.x = b.y", nJoin, all, "", ""},
	}
	if len(S2) > 0 {
		lits := make([]string, len(S2))
		for i, y := range S2 {
			lits[i] = y.SQL()
		}
		checks = append(checks, chk{"in-list", "SELECT COUNT(*) FROM " + t + " WHERE x IN (" + strings.Join(lits, ", ") + ")", nIn, all, "", ""})
	}
	for _, k := range checks {
		res := s.Query(k.sql)
		if res.Panic != "" {
			id := c.CaseNoModel(cs, "")
			c.PredFail(id, "engine-panic/"+k.op, "engine panicked on "+k.sql+": "+res.Panic, cs)
			continue
		}
		got, err := count1(res)
		if err != nil {
			c.Count("eng:error:" + k.op)
			c.CaseNoModel(cs, "")
			continue
		}
		key := ""
		if k.want < len(k.vals) {
			key = fmt.Sprintf("eng|%s|%s|%v", k.op, cs.Col, k.vals)
		}
		var id int
		modelled := false
		if k.model != "" {
			in, err := colVals(s.Query(k.input))
			if err == nil {
				modelled = true
				switch k.model {
				case "dedup-schema":
					id = c.Case("(DedupCase "+cib+" "+schemaCol+" "+hvs(in)+" "+fmt.Sprint(got)+")", cs, key)
				case "dedup-raw":
					id = c.Case("(DedupCase "+cib+" CNone "+hvs(in)+" "+fmt.Sprint(got)+")", cs, key)
				case "cd":
					rows := make([]string, len(in))
					for i, u := range in {
						rows[i] = "[" + hv(u) + "]"
					}
					id = c.Case("(CdCase "+lib.CoqList(rows)+" "+fmt.Sprint(got)+")", cs, key)
				}
			}
		}
		if !modelled {
			id = c.CaseNoModel(cs, key)
		}
		c.PredChecked()
		if got != k.want {
			dir := "split"
			if got < k.want {
				dir = "merged"
			}
			if k.op == "except" || k.op == "intersect" || k.op == "in-subquery" || k.op == "in-list" || k.op == "hash-join" || k.op == "hash-join-hinted" {
				dir = "mismatch"
			}
			kinds := splitKinds(coll, k.vals)
			if k.op == "except" && hasEmpty(S1) && !hasEmpty(S2) {
				// ExceptIter also hashes the nil row it gets at the end of the right input; its key equals the key of ('')
				if kinds == "no-variant-pairs" {
					kinds = "empty-string-vs-end-of-input-row"
				} else {
					kinds = "empty-string-vs-end-of-input-row+" + kinds
				}
			}
			c.PredFail(id, k.op+"/"+dir+"/"+kinds,
				fmt.Sprintf("%s over x %s = %s, y %s = %s: engine count %d, number by '=' (reference) %d; query: %s",
					k.op, defs[0], valsText(cs.X), defs[1], valsText(cs.Y), got, k.want, k.sql), cs)
		}
	}
	// ---- operator models: the rows of the set operations, the hash join and the IN list against the Coq functions ----
	rowsOf := func(q string) ([][]x.Val, bool) {
		res := s.Query(q)
		if res.Err != nil || res.Panic != "" {
			return nil, false
		}
		var out [][]x.Val
		for _, r := range res.Rows {
			var row []x.Val
			for _, g := range r {
				u, err := x.ValFromGo(g)
				if err != nil {
					return nil, false
				}
				row = append(row, u)
			}
			out = append(out, row)
		}
		return out, true
	}
	coqRows := func(rows [][]x.Val) string {
		parts := make([]string, len(rows))
		for i, r := range rows {
			parts[i] = hvs(r)
		}
		return lib.CoqList(parts)
	}
	setOps := func(tag, lq, rq string) {
		// the operator's inputs as the set operation sees them (after its type unification): UNION ALL, split at |left|
		both, ok1 := rowsOf(lq + " UNION ALL " + rq)
		lrows, ok2 := rowsOf(lq)
		if !ok1 || !ok2 || len(lrows) > len(both) {
			c.Count("eng:setop-input-error")
			return
		}
		L, R := both[:len(lrows)], both[len(lrows):]
		for i, op := range []string{"INTERSECT", "INTERSECT ALL", "EXCEPT", "EXCEPT ALL", "UNION"} {
			out, ok := rowsOf(lq + " " + op + " " + rq)
			if !ok {
				c.Count("eng:setop-error:" + op)
				continue
			}
			key := ""
			if len(out) > 0 && len(out) < len(L) {
				key = fmt.Sprintf("setop|%s|%s|%v|%v", op, tag, L, R)
			}
			c.Case(fmt.Sprintf("(SetOpCase %d %s %s %s)", i, coqRows(L), coqRows(R), coqRows(out)), cs, key)
			c.Count("eng:setop-model:" + op)
		}
	}
	setOps(cs.Col, xs, ys)
	planHas := func(q, node string) bool {
		res := s.Query("EXPLAIN FORMAT=TREE " + q)
		if res.Err != nil {
			return false
		}
		for _, r := range res.Rows {
			if strings.Contains(fmt.Sprint(r[0]), node) {
				return true
			}
		}
		return false
	}
	stype, sci := "TInt", lib.CoqBool(false)
	switch cs.Col {
	case "dec-same", "dec-big":
		stype = "(TDec 2)"
	case "dec-mixed", "int-dec":
		stype = "(TDec 30)"
	case "str-bin", "str-ai-ci", "str-general-ci":
		stype = "TText"
		sci = cib
	}
	jq := "SELECT /*+ HASH_JOIN(a,b) */ COUNT(*) FROM " + t + " a JOIN " + t + " b ON a.x = b.y"
	if planHas(jq, "HashLookup") {
		if got, err := count1(s.Query(jq)); err == nil {
			key := ""
			if got > 0 {
				key = fmt.Sprintf("join|%s|%v|%v", cs.Col, cs.X, cs.Y)
			}
			c.Case("(JoinCase "+sci+" "+stype+" "+hvs(cs.X)+" "+hvs(cs.Y)+" "+fmt.Sprint(got)+")", cs, key)
			c.Count("eng:join-model")
		}
	} else {
		c.Count("eng:join-not-hash")
	}
	if len(S2) > 0 {
		lits := make([]string, len(cs.Y))
		for i, y := range cs.Y {
			lits[i] = y.SQL()
		}
		iq := "SELECT COUNT(*) FROM " + t + " WHERE x IN (" + strings.Join(lits, ", ") + ")"
		// HashInTuple compares under GetCompareType(column type, type of the first literal); for strings that is LONGTEXT
		// with the default (binary) collation whatever the column's collation is
		itype, ici := stype, lib.CoqBool(false)
		if stype == "(TDec 2)" {
			itype = "(TDec 30)"
		}
		if cs.Y[0].K != "null" && planHas(iq, "HASH IN") {
			if got, err := count1(s.Query(iq)); err == nil {
				key := ""
				if got > 0 {
					key = fmt.Sprintf("in|%s|%v|%v", cs.Col, cs.X, cs.Y)
				}
				c.Case("(InCase "+ici+" "+itype+" "+hvs(cs.X)+" "+hvs(cs.Y)+" "+fmt.Sprint(got)+")", cs, key)
				c.Count("eng:in-model")
			}
		} else {
			c.Count("eng:in-not-hash")
		}
	}
	// COUNT(DISTINCT s, u) over string pairs
	if len(cs.P) > 0 {
		p := t + "p"
		s.MustExec("CREATE TABLE " + p + " (id INT PRIMARY KEY, s " + defs[0] + ", u " + defs[1] + ")")
		for i, r := range cs.P {
			s.MustExec(fmt.Sprintf("INSERT INTO %s VALUES (%d, %s, %s)", p, i, r[0].SQL(), r[1].SQL()))
		}
		res := s.Query("SELECT COUNT(DISTINCT s, u) FROM " + p)
		got, err := count1(res)
		if err == nil {
			var cl [][]x.Val
		outer:
			for _, r := range cs.P {
				for _, q := range cl {
					if refEq(coll, q[0], r[0]) && refEq(coll, q[1], r[1]) {
						continue outer
					}
				}
				cl = append(cl, r)
			}
			rows := make([]string, len(cs.P))
			for i, r := range cs.P {
				rows[i] = hvs(r)
			}
			id := c.Case("(CdCase "+lib.CoqList(rows)+" "+fmt.Sprint(got)+")", cs, "")
			c.PredChecked()
			if got != len(cl) {
				kind := "comma-in-string"
				var flat []x.Val
				for _, r := range cs.P {
					flat = append(flat, r...)
				}
				if k := splitKinds(coll, flat); k != "no-variant-pairs" && got > len(cl) {
					kind = k
				}
				dir := "split"
				if got < len(cl) {
					dir = "merged"
				}
				c.PredFail(id, "count-distinct-two-columns/"+dir+"/"+kind,
					fmt.Sprintf("COUNT(DISTINCT s, u) over %v (%s): engine %d, number of distinct pairs by '=' %d", cs.P, defs[0], got, len(cl)), cs)
			}
		}
		// two-column rows through DISTINCT / GROUP BY / UNION / EXCEPT / INTERSECT (row keys with the NUL separator)
		pairEq := func(a, b []x.Val) bool { return refEq(coll, a[0], b[0]) && refEq(coll, a[1], b[1]) }
		pclasses := func(rows [][]x.Val) [][]x.Val {
			var cl [][]x.Val
		outer2:
			for _, r := range rows {
				for _, q := range cl {
					if pairEq(q, r) {
						continue outer2
					}
				}
				cl = append(cl, r)
			}
			return cl
		}
		inRows := func(r []x.Val, rows [][]x.Val) bool {
			for _, q := range rows {
				if pairEq(q, r) {
					return true
				}
			}
			return false
		}
		h := len(cs.P) / 2
		L, R := cs.P[:h], cs.P[h:]
		nBoth, nOnlyL := 0, 0
		for _, q := range pclasses(L) {
			if inRows(q, R) {
				nBoth++
			} else {
				nOnlyL++
			}
		}
		lq := fmt.Sprintf("SELECT s, u FROM %s WHERE id < %d", p, h)
		rq := fmt.Sprintf("SELECT s, u FROM %s WHERE id >= %d", p, h)
		var flat []x.Val
		hasNul := false
		for _, r := range cs.P {
			flat = append(flat, r...)
			if strings.Contains(r[0].B+r[1].B, "\x00") {
				hasNul = true
			}
		}
		rowsCoq := make([]string, len(cs.P))
		for i, r := range cs.P {
			rowsCoq[i] = hvs(r)
		}
		type chk2 struct {
			op, sql string
			want   int
			model  string
		}
		for _, k := range []chk2{
			{"distinct-two-columns", "SELECT COUNT(*) FROM (SELECT DISTINCT s, u FROM " + p + ") q", len(pclasses(cs.P)), "[]"},
			{"group-by-two-columns", "SELECT COUNT(*) FROM (SELECT s, u FROM " + p + " GROUP BY s, u) q", len(pclasses(cs.P)), "[CStr; CStr]"},
			{"union-two-columns", "SELECT COUNT(*) FROM (" + lq + " UNION " + rq + ") q", len(pclasses(cs.P)), "[]"},
			{"except-two-columns", "SELECT COUNT(*) FROM (" + lq + " EXCEPT " + rq + ") q", nOnlyL, ""},
			{"intersect-two-columns", "SELECT COUNT(*) FROM (" + lq + " INTERSECT " + rq + ") q", nBoth, ""},
		} {
			got, err := count1(s.Query(k.sql))
			if err != nil {
				c.Count("eng:error:" + k.op)
				continue
			}
			var id int
			if k.model != "" {
				id = c.Case("(DedupRowsCase "+cib+" "+k.model+" "+lib.CoqList(rowsCoq)+" "+fmt.Sprint(got)+")", cs, "")
			} else {
				id = c.CaseNoModel(cs, "")
			}
			c.PredChecked()
			if got != k.want {
				kind := splitKinds(coll, flat)
				if hasNul && (got < k.want || k.op == "except-two-columns" || k.op == "intersect-two-columns") {
					if kind == "no-variant-pairs" {
						kind = "nul-in-string"
					} else {
						kind = "nul-in-string+" + kind
					}
				}
				c.PredFail(id, k.op+"/mismatch/"+kind,
					fmt.Sprintf("%s over rows %s (%s): engine count %d, number by '=' on both columns %d; query: %s", k.op, pairsText(cs.P), defs[0], got, k.want, k.sql), cs)
			}
		}
		setOps(cs.Col+"/two-columns", lq, rq)
		s.MustExec("DROP TABLE " + p)
	}
	s.MustExec("DROP TABLE " + t)
}

func pairsText(ps [][]x.Val) string {
	parts := make([]string, len(ps))
	for i, r := range ps {
		parts[i] = "(" + r[0].SQL() + "," + r[1].SQL() + ")"
	}
	return strings.Join(parts, " ")
}

// ---------- wide decimals and negative zero (values the int64-mantissa cases cannot express) ----------

type bigCase struct {
	Kind string   `json:"kind"` // "big"
	Col  string   `json:"col"`  // dec40 (DECIMAL(40,0)) | negzero (DECIMAL(10,2))
	X    []string `json:"x"`    // inserted literals
	Lits []string `json:"lits"` // IN-list literals
}

var big40Pool = []string{"0", "5", "1000000000000000000000000000000000000", "2000000000000000000000000000000000000",
	"99999999999999999999999999999999999", "100000000000000000000000000000000000", "-1000000000000000000000000000000000000", "7"}
var negzeroPool = []string{"-0.004", "0.00", "0", "1.00", "-0.001", "0.004", "-1.00", "-0.005"}

func genBig(r *lib.RNG) bigCase {
	c := bigCase{Kind: "big", Col: lib.Pick(r, []string{"dec40", "negzero"})}
	pool, lits := big40Pool, big40Pool
	if c.Col == "negzero" {
		pool, lits = negzeroPool, []string{"0", "1", "5", "-1", "0.00"}
	}
	for i, n := 0, r.Range(2, 5); i < n; i++ {
		c.X = append(c.X, lib.Pick(r, pool))
	}
	for i, n := 0, r.Range(1, 3); i < n; i++ {
		c.Lits = append(c.Lits, lib.Pick(r, lits))
	}
	return c
}

// stored value of a literal in a DECIMAL(p, scale) column: rounded half up on the magnitude, as an integer mantissa
func storedMant(lit string, scale int) *big.Int {
	rat, ok := new(big.Rat).SetString(lit)
	if !ok {
		panic("bad literal " + lit)
	}
	rat.Mul(rat, new(big.Rat).SetInt(new(big.Int).Exp(big.NewInt(10), big.NewInt(int64(scale)), nil)))
	neg := rat.Sign() < 0
	rat.Abs(rat)
	rat.Add(rat, big.NewRat(1, 2))
	m := new(big.Int).Quo(rat.Num(), rat.Denom())
	if neg {
		m.Neg(m)
	}
	return m
}

func runBig(c *lib.Ctx, v *engEnv, cs bigCase) {
	v.n++
	t := fmt.Sprintf("tb%d", v.n)
	s := v.s
	scale, def := 0, "DECIMAL(40,0)"
	if cs.Col == "negzero" {
		scale, def = 2, "DECIMAL(10,2)"
	}
	s.MustExec("CREATE TABLE " + t + " (id INT PRIMARY KEY, x " + def + ")")
	defer s.MustExec("DROP TABLE " + t)
	var xm []*big.Int
	negZero, beyond := false, false
	lim := new(big.Int).Exp(big.NewInt(10), big.NewInt(35), nil)
	for i, l := range cs.X {
		s.MustExec(fmt.Sprintf("INSERT INTO %s VALUES (%d, %s)", t, i, l))
		m := storedMant(l, scale)
		xm = append(xm, m)
		if m.Sign() == 0 && strings.HasPrefix(l, "-") {
			negZero = true
		}
		if new(big.Int).Abs(m).Cmp(lim) >= 0 {
			beyond = true
		}
	}
	var lm []*big.Int // literal values scaled by 10^scale
	for _, l := range cs.Lits {
		r, _ := new(big.Rat).SetString(l)
		r.Mul(r, new(big.Rat).SetInt(new(big.Int).Exp(big.NewInt(10), big.NewInt(int64(scale)), nil)))
		if !r.IsInt() {
			panic("literal finer than the column scale")
		}
		m := new(big.Int).Set(r.Num())
		lm = append(lm, m)
		if new(big.Int).Abs(m).Cmp(lim) >= 0 && cs.Col == "dec40" {
			beyond = true
		}
	}
	c.Count("big:col=" + cs.Col)
	nClasses, nJoin, nIn := 0, 0, 0
	for i, a := range xm {
		first := true
		for j, b := range xm {
			if a.Cmp(b) == 0 {
				nJoin++
				if j < i {
					first = false
				}
			}
		}
		if first {
			nClasses++
		}
		for _, l := range lm {
			if a.Cmp(l) == 0 {
				nIn++
				break
			}
		}
	}
	kind := "same-representation"
	switch {
	case negZero:
		kind = "negative-zero"
	case beyond:
		kind = "decimal-beyond-1e35"
	}
	iq := "SELECT COUNT(*) FROM " + t + " WHERE x IN (" + strings.Join(cs.Lits, ", ") + ")"
	jq := "SELECT /*+ HASH_JOIN(a,b) */ COUNT(*) FROM " + t + " a JOIN " + t + " b ON a.x = b.x"
	bigHv := func(m *big.Int) string { return "(HDec (" + m.String() + ")%Z 0)" }
	for _, k := range []struct {
		op, sql string
		want    int
	}{
		{"group-by-column", "SELECT COUNT(*) FROM (SELECT x FROM " + t + " GROUP BY x) q", nClasses},
		{"distinct-column", "SELECT COUNT(*) FROM (SELECT DISTINCT x FROM " + t + ") q", nClasses},
		{"count-distinct-column", "SELECT COUNT(DISTINCT x) FROM " + t, nClasses},
		{"in-list", iq, nIn},
		{"hash-join-hinted", jq, nJoin},
	} {
		got, err := count1(s.Query(k.sql))
		if err != nil {
			c.Count("big:error:" + k.op)
			continue
		}
		var id int
		switch {
		case cs.Col == "dec40" && k.op == "in-list":
			// HashInTuple under InternalDecimalType: HashOfSimple converts to DECIMAL(65,30), whose bound is 10^35
			xs := make([]string, len(xm))
			for i, m := range xm {
				xs[i] = bigHv(m)
			}
			ls := make([]string, len(lm))
			for i, m := range lm {
				if m.IsInt64() {
					ls[i] = "(HInt " + lib.CoqZ(m.Int64()) + ")"
				} else {
					ls[i] = bigHv(m)
				}
			}
			id = c.Case("(InCase false (TDec 30) "+lib.CoqList(xs)+" "+lib.CoqList(ls)+" "+fmt.Sprint(got)+")", cs, fmt.Sprintf("bigin|%v|%v", cs.X, cs.Lits))
		case cs.Col == "dec40" && k.op == "hash-join-hinted":
			xs := make([]string, len(xm))
			for i, m := range xm {
				xs[i] = bigHv(m)
			}
			id = c.Case("(JoinCase false (TDec 0) "+lib.CoqList(xs)+" "+lib.CoqList(xs)+" "+fmt.Sprint(got)+")", cs, "")
		default:
			id = c.CaseNoModel(cs, "")
		}
		c.PredChecked()
		if got != k.want {
			c.PredFail(id, k.op+"/mismatch/"+kind,
				fmt.Sprintf("%s over x %s = %v, IN list %v: engine count %d, number by '=' %d; query: %s", k.op, def, cs.X, cs.Lits, got, k.want, k.sql), cs)
		}
	}
}

// ---------- corpus ----------

func corpus() (ps []pairCase, es []engCase) {
	d := x.Dec
	ps = []pairCase{
		{Kind: "pair", Coll: "bin", Schema: []bool{false}, R1: []x.Val{d(100, 2)}, R2: []x.Val{d(10000, 4)}, Simple: true, TScale: 30},
		{Kind: "pair", Coll: "bin", Schema: []bool{false}, R1: []x.Val{d(125, 2)}, R2: []x.Val{d(13, 1)}, Simple: true, TScale: 1},
		{Kind: "pair", Coll: "bin", Schema: []bool{false}, R1: []x.Val{d(-4, 3)}, R2: []x.Val{d(0, 2)}, Simple: true, TScale: 2},
		{Kind: "pair", Coll: "bin", Schema: []bool{false}, R1: []x.Val{x.Int(100)}, R2: []x.Val{d(10000, 2)}, Simple: true, TScale: 30},
		{Kind: "pair", Coll: "bin", Schema: []bool{false}, R1: []x.Val{d(0, 2)}, R2: []x.Val{x.Int(0)}, Simple: true, TScale: 2},
		{Kind: "pair", Coll: "ai_ci", Schema: []bool{true}, R1: []x.Val{x.Str("a")}, R2: []x.Val{x.Str("A")}, Simple: true},
		{Kind: "pair", Coll: "ai_ci", Schema: []bool{false}, R1: []x.Val{x.Str("a")}, R2: []x.Val{x.Str("A")}},
		{Kind: "pair", Coll: "bin", Schema: []bool{false, false}, R1: []x.Val{x.Str("a\x00"), x.Str("b")}, R2: []x.Val{x.Str("a"), x.Str("\x00b")}},
		{Kind: "pair", Coll: "bin", Schema: []bool{false, false}, R1: []x.Val{x.Int(1), x.Int(12)}, R2: []x.Val{x.Int(11), x.Int(2)}},
		{Kind: "pair", Coll: "bin", Schema: []bool{false}, R1: []x.Val{x.Int(-9223372036854775808)}, R2: []x.Val{x.Int(9223372036854775807)}},
	}
	es = []engCase{
		{Kind: "eng", Col: "dec-mixed", X: []x.Val{d(100, 2), d(250, 2)}, Y: []x.Val{d(10000, 4), d(25000, 4)}},
		{Kind: "eng", Col: "int-dec", X: []x.Val{x.Int(1), x.Int(2)}, Y: []x.Val{d(100, 2), d(250, 2)}},
		{Kind: "eng", Col: "str-ai-ci", X: []x.Val{x.Str("a"), x.Str("A"), x.Str("b")}, Y: []x.Val{x.Str("A"), x.Str("B"), x.Null()},
			P: [][]x.Val{{x.Str("a,"), x.Str("b")}, {x.Str("a"), x.Str(",b")}}},
		{Kind: "eng", Col: "str-general-ci", X: []x.Val{x.Str("a"), x.Str("A"), x.Str("b")}, Y: []x.Val{x.Str("A"), x.Str("B"), x.Null()}},
		{Kind: "eng", Col: "str-bin", X: []x.Val{x.Str("a"), x.Str("A"), x.Str("a ")}, Y: []x.Val{x.Str("a"), x.Str("b"), x.Str("")},
			P: [][]x.Val{{x.Str("a,"), x.Str("b")}, {x.Str("a"), x.Str(",b")}}},
		{Kind: "eng", Col: "int", X: []x.Val{x.Int(1), x.Int(1), x.Int(2)}, Y: []x.Val{x.Int(2), x.Int(3), x.Null()}},
		{Kind: "eng", Col: "str-ai-ci", X: []x.Val{x.Str("e"), x.Str("é"), x.Str("E"), x.Str("f")}, Y: []x.Val{x.Str("é"), x.Str("x"), x.Null(), x.Null()}},
		{Kind: "eng", Col: "str-general-ci", X: []x.Val{x.Str("e"), x.Str("é"), x.Str("f")}, Y: []x.Val{x.Str("É"), x.Str("x"), x.Null()}},
		{Kind: "eng", Col: "str-bin", X: []x.Val{x.Str("e"), x.Str("é")}, Y: []x.Val{x.Str("é"), x.Str("x")},
			P: [][]x.Val{{x.Str("a\x00"), x.Str("b")}, {x.Str("a"), x.Str("b")}, {x.Str("a"), x.Str("\x00b")}, {x.Str("ab"), x.Str("b")}}},
		{Kind: "eng", Col: "dec-big", X: []x.Val{d(1234567890123456788, 2), d(1234567890123456789, 2)}, Y: []x.Val{d(1234567890123456789, 2), d(100, 2)}},
		{Kind: "eng", Col: "dec-same", X: []x.Val{d(100, 2), d(100, 2), d(-150, 2)}, Y: []x.Val{d(100, 2), d(0, 2), x.Null()}},
	}
	return
}

func main() {
	lib.Main("C07", func(c *lib.Ctx) {
		c.Header = "From Coq Require Import List NArith ZArith.\nImport ListNotations.\nFrom GMS Require Import Phys.C07HashKey Phys.C07Ops Corr.C07.\nOpen Scope N_scope."
		c.CaseType = "C07.case"
		c.MismatchFn = "C07.mismatches"
		c.SetRule("(a) pairs of rows (1-3 values: integers of several Go widths incl. int64 extremes, decimals of scales 0/1/2/4 incl. equal numbers at " +
			"different scales, ASCII strings with case variants, NUL and comma bytes, NULLs; with and without a string schema; collations bin / " +
			"0900_ai_ci / general_ci) through hash.HashOf and hash.HashOfSimple; (b) 9 of 10 cases: a generated two-column table " +
			"(INT/BIGINT, DECIMAL(10,2) twice, DECIMAL(10,2)+DECIMAL(12,4), INT+DECIMAL, VARCHAR under three collations) queried with GROUP BY, DISTINCT, " +
			"COUNT(DISTINCT), UNION, INTERSECT, EXCEPT, IN (subquery and list), hash join; counts compared with the number of '='-classes of an independent " +
			"reference. Non-trivial = pair with equal hashes, or an operator input that really contains '='-duplicates.")
		v := &engEnv{}
		v.e = eng.New("db")
		v.s = v.e.Session()
		if c.ReplayFile != "" {
			var k anyCase
			lib.LoadReplay(c.ReplayFile, &k)
			if k.Kind == "pair" {
				var cs pairCase
				lib.LoadReplay(c.ReplayFile, &cs)
				runPair(c, lib.NewRNG(1), cs)
			} else if k.Kind == "big" {
				var cs bigCase
				lib.LoadReplay(c.ReplayFile, &cs)
				runBig(c, v, cs)
			} else {
				var cs engCase
				lib.LoadReplay(c.ReplayFile, &cs)
				runEng(c, v, cs)
			}
			return
		}
		ps, es := corpus()
		for _, cs := range ps {
			runPair(c, lib.NewRNG(1), cs)
		}
		for _, cs := range es {
			runEng(c, v, cs)
		}
		for _, cs := range []bigCase{
			{Kind: "big", Col: "dec40", X: []string{"1000000000000000000000000000000000000", "0", "2000000000000000000000000000000000000"}, Lits: []string{"0", "5"}},
			{Kind: "big", Col: "dec40", X: []string{"99999999999999999999999999999999999", "7", "5"}, Lits: []string{"5", "99999999999999999999999999999999999"}},
			{Kind: "big", Col: "negzero", X: []string{"-0.004", "0.00", "0"}, Lits: []string{"0", "5"}},
			{Kind: "big", Col: "negzero", X: []string{"1.00", "-1.00", "0.004"}, Lits: []string{"1", "0"}},
		} {
			runBig(c, v, cs)
		}
		// c.N counts generated inputs: pairs are cheap (one Coq case each), an engine case yields ~12 checks
		for i := 0; i < c.N; i++ {
			r := c.R.Fork()
			if i%10 == 0 {
				runEng(c, v, genEng(r))
			} else if i%50 == 7 {
				runBig(c, v, genBig(r))
			} else {
				runPair(c, r, genPair(r))
			}
		}
		_ = sort.Strings
	})
}
