// Driver for C42 (read-only modes): every statement template is executed on a freshly populated database under the
// read-write engine and under each read-only mode (engine read-only, START TRANSACTION READ ONLY, read-only
// database).  Recorded for the Coq model: the analyzed plan as a tree of node kinds (by reflection over the node
// fields the translator listed), what plan.IsReadOnly answered, whether the read-write run changed the database.
// Predicate on the implementation alone: writes are rejected with the dump unchanged, reads succeed with the
// read-write engine's result.
package main

import (
	"context"
	"encoding/json"
	"io"
	"fmt"
	"os"
	"path/filepath"
	"reflect"
	"regexp"
	"sort"
	"strings"
	"unsafe"

	sqle "github.com/dolthub/go-mysql-server"
	"github.com/dolthub/go-mysql-server/memory"
	"github.com/dolthub/go-mysql-server/sql"
	"github.com/dolthub/go-mysql-server/sql/analyzer"
	"github.com/dolthub/go-mysql-server/sql/analyzer/analyzererrors"
	"github.com/dolthub/go-mysql-server/sql/expression"
	"github.com/dolthub/go-mysql-server/sql/types"
	"github.com/dolthub/go-mysql-server/sql/planbuilder"
	"github.com/dolthub/go-mysql-server/sql/transform"
	"github.com/dolthub/go-mysql-server/sql/mysql_db"
	"github.com/dolthub/go-mysql-server/sql/plan"

	"github.com/sirupsen/logrus"

	"verifharness/lib"
	"verifharness/lib/eng"
)

// ---------- generated table (coq/gen/C42Flags.json) ----------

type fieldT struct {
	Name string `json:"name"`
	Many bool   `json:"many"`
}
type entryT struct {
	Kind   string   `json:"kind"`
	Fields []fieldT `json:"fields"`
}

var table = map[string]entryT{}

func loadTable() {
	root := os.Getenv("VERIF_ROOT")
	if root == "" {
		root = "/verif"
	}
	b, err := os.ReadFile(filepath.Join(root, "coq", "gen", "C42Flags.json"))
	if err != nil {
		fmt.Fprintln(os.Stderr, "cannot read the generated flag table:", err)
		os.Exit(3)
	}
	var es []entryT
	if err := json.Unmarshal(b, &es); err != nil {
		fmt.Fprintln(os.Stderr, err)
		os.Exit(3)
	}
	for _, e := range es {
		table[e.Kind] = e
	}
}

// ---------- plan -> tree ----------

type treeT struct {
	Kind   string
	Data   bool
	Fields []struct {
		Name string
		Subs []*treeT
	}
	Foreign bool
}

var planPkg = reflect.TypeOf(plan.Nothing{}).PkgPath()

func isNilValue(v reflect.Value) bool {
	switch v.Kind() {
	case reflect.Ptr, reflect.Interface, reflect.Slice, reflect.Map, reflect.Func, reflect.Chan:
		return v.IsNil()
	}
	return !v.IsValid()
}

// fieldByName finds a (possibly promoted, possibly unexported) field; ok=false if an embedded pointer on the way is nil.
func fieldByName(v reflect.Value, name string) (reflect.Value, bool) {
	t := v.Type()
	sf, ok := t.FieldByName(name)
	if !ok {
		return reflect.Value{}, false
	}
	cur := v
	for _, i := range sf.Index {
		if cur.Kind() == reflect.Ptr {
			if cur.IsNil() {
				return reflect.Value{}, false
			}
			cur = cur.Elem()
		}
		cur = cur.Field(i)
	}
	if !cur.CanInterface() {
		if !cur.CanAddr() {
			return reflect.Value{}, false
		}
		cur = reflect.NewAt(cur.Type(), unsafe.Pointer(cur.UnsafeAddr())).Elem()
	}
	return cur, true
}

func toTree(n interface{}, foreign *bool, depth int) *treeT {
	v := reflect.ValueOf(n)
	for v.Kind() == reflect.Ptr || v.Kind() == reflect.Interface {
		if v.IsNil() {
			return nil
		}
		v = v.Elem()
	}
	t := &treeT{Kind: v.Type().Name()}
	e, ok := table[t.Kind]
	if v.Type().PkgPath() != planPkg || !ok || depth > 60 {
		t.Kind = "ext:" + v.Type().String()
		t.Foreign = true
		*foreign = true
		return t
	}
	if !v.CanAddr() {
		v2 := reflect.New(v.Type()).Elem()
		v2.Set(v)
		v = v2
	}
	if t.Kind == "ExternalProcedure" {
		if d, ok := fieldByName(v, "ExternalStoredProcedureDetails"); ok {
			if r, ok := fieldByName(d, "ReadOnly"); ok && r.Kind() == reflect.Bool {
				t.Data = r.Bool()
			}
		}
	}
	for _, f := range e.Fields {
		fv, ok := fieldByName(v, f.Name)
		var subs []*treeT
		if ok && !isNilValue(fv) {
			if f.Many {
				for i := 0; i < fv.Len(); i++ {
					el := fv.Index(i)
					if isNilValue(el) {
						continue
					}
					if s := toTree(el.Interface(), foreign, depth+1); s != nil {
						subs = append(subs, s)
					}
				}
			} else if s := toTree(fv.Interface(), foreign, depth+1); s != nil {
				subs = append(subs, s)
			}
		}
		t.Fields = append(t.Fields, struct {
			Name string
			Subs []*treeT
		}{f.Name, subs})
	}
	return t
}

func coqLit(s string) string { return "\"" + strings.ReplaceAll(s, "\"", "\"\"") + "\"" }

// names are emitted once in the shard header (string literals are slow to parse)
var nameIDs = map[string]string{}
var nameDefs strings.Builder

func coqString(s string) string {
	if id, ok := nameIDs[s]; ok {
		return id
	}
	return coqLit(s)
}

func defineNames() {
	var ks []string
	seen := map[string]bool{}
	for k, e := range table {
		if !seen[k] {
			seen[k] = true
			ks = append(ks, k)
		}
		for _, f := range e.Fields {
			if !seen[f.Name] {
				seen[f.Name] = true
				ks = append(ks, f.Name)
			}
		}
	}
	sort.Strings(ks)
	for i, k := range ks {
		id := fmt.Sprintf("s%d", i)
		nameIDs[k] = id
		fmt.Fprintf(&nameDefs, "Definition %s := %s.\n", id, coqLit(k))
	}
}

func (t *treeT) coq() string {
	var fs []string
	for _, f := range t.Fields {
		var subs []string
		for _, s := range f.Subs {
			subs = append(subs, s.coq())
		}
		fs = append(fs, "("+coqString(f.Name)+", "+lib.CoqList(subs)+")")
	}
	return "(Node " + coqString(t.Kind) + " " + lib.CoqBool(t.Data) + " " + lib.CoqList(fs) + ")"
}

func (t *treeT) kinds(set map[string]bool) {
	set[t.Kind] = true
	for _, f := range t.Fields {
		for _, s := range f.Subs {
			s.kinds(set)
		}
	}
}

func (t *treeT) shape() string {
	var sb strings.Builder
	sb.WriteString(t.Kind)
	first := true
	for _, f := range t.Fields {
		for _, s := range f.Subs {
			if first {
				sb.WriteString("(")
				first = false
			} else {
				sb.WriteString(",")
			}
			sb.WriteString(s.shape())
		}
	}
	if !first {
		sb.WriteString(")")
	}
	return sb.String()
}

// ---------- the two analyzer validators: recorded invocations ----------

// vtT is the tree transform.InspectWithOpaque walks (Coq: Plan.C42Validators.vt).
type vtT struct {
	Kind string
	Temp bool
	RO   int
	Dest []*vtT
	Kids []*vtT
}

func roClass(db sql.Database) int {
	ro, ok := db.(sql.ReadOnlyDatabase)
	if !ok {
		return 0
	}
	if ro.IsReadOnly() {
		return 2
	}
	return 1
}

func vKind(n sql.Node) string {
	t := reflect.TypeOf(n)
	if t.Kind() == reflect.Ptr && t.Elem().PkgPath() == planPkg {
		return t.Elem().Name()
	}
	if t.PkgPath() == planPkg {
		return "val:" + t.Name()
	}
	return "ext:" + t.String()
}

// toVT records what the validators can see of a node.  The children are found with the engine's own walk
// (transform.InspectWithOpaque with a callback that accepts the node itself and refuses everything else).
func toVT(ctx *sql.Context, n sql.Node, depth int) *vtT {
	t := &vtT{Kind: vKind(n)}
	switch x := n.(type) {
	case *plan.ResolvedTable:
		if tt, ok := x.Table.(sql.TemporaryTable); ok {
			t.Temp = tt.IsTemporary()
		}
		t.RO = roClass(x.SqlDatabase)
	case *plan.CreateTable:
		t.Temp = x.Temporary()
		t.RO = roClass(x.Database())
	case *plan.InsertInto:
		if x.Destination != nil && depth < 80 {
			t.Dest = []*vtT{toVT(ctx, x.Destination, depth+1)}
		}
	}
	if depth >= 80 {
		return t
	}
	first := true
	var kids []sql.Node
	transform.InspectWithOpaque(ctx, n, func(_ *sql.Context, c sql.Node) bool {
		if first {
			first = false
			return true
		}
		kids = append(kids, c)
		return false
	})
	for _, c := range kids {
		if c == nil || (reflect.ValueOf(c).Kind() == reflect.Ptr && reflect.ValueOf(c).IsNil()) {
			t.Kids = append(t.Kids, &vtT{Kind: "nil"})
			continue
		}
		t.Kids = append(t.Kids, toVT(ctx, c, depth+1))
	}
	return t
}

func (t *vtT) coq() string {
	sub := func(l []*vtT) string {
		var xs []string
		for _, c := range l {
			xs = append(xs, c.coq())
		}
		return lib.CoqList(xs)
	}
	return "(V " + coqString(t.Kind) + " " + lib.CoqBool(t.Temp) + " " + fmt.Sprint(t.RO) + " " + sub(t.Dest) + " " + sub(t.Kids) + ")"
}

type vcallT struct {
	Which   string `json:"which"` // txn | db
	HasTxn  bool   `json:"has_txn"`
	TxnRO   bool   `json:"txn_ro"`
	Enforce bool   `json:"enforce"`
	Res     int    `json:"res"` // 0 accepted, 1 ErrReadOnlyTransaction, 2 ErrReadOnlyDatabase, 3 ErrProcedureCallAsOfReadOnly, 9 other
	Recon   bool   `json:"reconstructed,omitempty"`
	Root    string `json:"root"`
	term    string
}

func errCode(err error) int {
	switch {
	case err == nil:
		return 0
	case sql.ErrReadOnlyTransaction.Is(err) || strings.Contains(err.Error(), "in a READ ONLY transaction"):
		return 1
	case analyzererrors.ErrReadOnlyDatabase.Is(err) || strings.HasSuffix(err.Error(), " is read-only."):
		return 2
	case sql.ErrProcedureCallAsOfReadOnly.Is(err):
		return 3
	}
	return 9
}

// recording collects the validator invocations of the statement under test (nil = do not record).
var recording *[]vcallT

var origValidate = map[string]analyzer.RuleFunc{}

func record(which string, ctx *sql.Context, n sql.Node, scope *plan.Scope, err error, recon bool) {
	if recording == nil || n == nil {
		return
	}
	func() {
		defer func() { recover() }()
		c := vcallT{Which: which, Enforce: scope.EnforcesReadOnly(), Res: errCode(err), Recon: recon}
		if t := ctx.GetTransaction(); t != nil {
			c.HasTxn = true
			c.TxnRO = t.IsReadOnly()
		}
		vt := toVT(ctx, n, 0)
		c.Root = vt.Kind
		w := "VDb"
		if which == "txn" {
			w = "VTxn"
		}
		c.term = lib.CoqTuple(w, lib.CoqTuple(lib.CoqBool(c.HasTxn), lib.CoqBool(c.TxnRO), lib.CoqBool(c.Enforce)), vt.coq(), fmt.Sprint(c.Res))
		for _, o := range *recording {
			if o.term == c.term {
				return
			}
		}
		if len(*recording) >= 24 && c.Res == 0 {
			return
		}
		*recording = append(*recording, c)
	}()
}

// installRecorders replaces, in the package-level rule list every analyzer is built from, the two validators by
// wrappers that call the original and record (input, context, verdict).  Must run before any engine is built.
func installRecorders() {
	for i := range analyzer.OnceBeforeDefault {
		r := analyzer.OnceBeforeDefault[i]
		name := r.Id.String()
		var which string
		switch name {
		case "validateReadOnlyTransaction":
			which = "txn"
		case "validateReadOnlyDatabase":
			which = "db"
		default:
			continue
		}
		orig := r.Apply
		origValidate[which] = orig
		w := which
		analyzer.OnceBeforeDefault[i].Apply = func(ctx *sql.Context, a *analyzer.Analyzer, n sql.Node, scope *plan.Scope, sel analyzer.RuleSelector, qf *sql.QueryFlags) (sql.Node, transform.TreeIdentity, error) {
			out, same, err := orig(ctx, a, n, scope, sel, qf)
			record(w, ctx, n, scope, err, false)
			return out, same, err
		}
	}
	if len(origValidate) != 2 {
		fmt.Fprintln(os.Stderr, "the read-only validators are not in analyzer.OnceBeforeDefault any more")
		os.Exit(3)
	}
}

// reconstructShortcut: literal INSERT, single-table UPDATE and DELETE are analyzed with the rule batches of
// analyzer.getBatchesForNode, which refer to the validators directly (no wrapper).  Their input is rebuilt with the
// engine's own pieces: the statement is bound as Engine.Query binds it, getBatchesForNode chooses the batches, the rules
// listed before validateReadOnlyDatabase are applied, and the two validators are called on the result.
func reconstructShortcut(e *eng.E, s *eng.S, query string) {
	if recording == nil {
		return
	}
	defer func() { recover() }()
	ctx := sql.NewContext(context.Background(), sql.WithSession(s.Ctx.Session))
	ctx.SetCurrentDatabase(s.Ctx.GetCurrentDatabase())
	a := e.Engine.Analyzer
	binder := planbuilder.New(ctx, a.Catalog, e.Engine.EventScheduler)
	bound, _, _, qFlags, err := binder.Parse(query, nil, false)
	if err != nil || bound == nil {
		return
	}
	// Engine.bindQuery: EXECUTE is replaced by the prepared statement, bound with the USING values (bindExecuteQueryNode)
	if eq, isExec := bound.(*plan.ExecuteQuery); isExec {
		prep, found := ctx.Session.GetPreparedQuery(eq.Name)
		if !found {
			return
		}
		tmp := map[string]sql.Expression{}
		for i, name := range eq.BindVars {
			if strings.HasPrefix(name.String(), "@") {
				t, val, err := ctx.GetUserVariable(ctx, strings.TrimPrefix(name.String(), "@"))
				if err != nil {
					return
				}
				if t == nil {
					t = types.Null
				}
				if val != nil {
					if val, _, err = t.Promote().Convert(ctx, val); err != nil {
						return
					}
				}
				tmp[fmt.Sprintf("v%d", i+1)] = expression.NewLiteral(val, t)
			} else {
				tmp[fmt.Sprintf("v%d", i)] = name
			}
		}
		if len(tmp) != 0 {
			binder.SetBindingsWithExpr(tmp)
		}
		if bound, _, err = binder.BindOnly(prep, query, nil); err != nil || bound == nil {
			return
		}
	}
	// Analyzer.Analyze: EXPLAIN analyzes the explained statement on its own
	if dq, isDescribe := bound.(*plan.DescribeQuery); isDescribe {
		bound = dq.Query()
	}
	batches, ok := analyzer.VerifC42GetBatchesForNode(nil, bound, qFlags)
	if !ok || batches == nil {
		return
	}
	n := bound
	for _, b := range batches {
		for _, rule := range b.Rules {
			if rule.Id.String() == "validateReadOnlyDatabase" {
				_, _, e1 := origValidate["db"](ctx, a, n, nil, analyzer.DefaultRuleSelector, qFlags)
				record("db", ctx, n, nil, e1, true)
				_, _, e2 := origValidate["txn"](ctx, a, n, nil, analyzer.DefaultRuleSelector, qFlags)
				record("txn", ctx, n, nil, e2, true)
				return
			}
			next, _, err := rule.Apply(ctx, a, n, nil, analyzer.DefaultRuleSelector, qFlags)
			if err != nil {
				return
			}
			n = next
		}
	}
}

func callsCoq(cs []vcallT) string {
	var xs []string
	for _, c := range cs {
		xs = append(xs, c.term)
	}
	return lib.CoqList(xs)
}

// ---------- database under test ----------

var setupSQL = []string{
	"create table t (a int primary key, b varchar(20), c int)",
	"insert into t values (1,'one',10),(2,'two',20),(3,'three',30),(4,null,null)",
	"create table u (x int primary key, y int, key iy (y))",
	"insert into u values (1,10),(2,20),(5,50)",
	"create table log (id int primary key auto_increment, msg varchar(50))",
	"insert into log (msg) values ('start')",
	"create table fk (id int primary key, a int, constraint fk_a foreign key (a) references t(a) on delete cascade)",
	"insert into fk values (1,1),(2,2)",
	"create table w (k int primary key, v int, check (v >= 0))",
	"insert into w values (1,1)",
	"create table tr (p int primary key, q int)",
	"create trigger tr_bi before insert on tr for each row insert into log (msg) values (concat('tr ', new.p))",
	"create view vw as select a, b from t where a > 1",
	"create procedure p_read() select count(*) from t",
	"create procedure p_write(v int) insert into log (msg) values (concat('p ', v))",
	"create procedure p_cond(v int) begin if v > 100 then insert into log (msg) values ('big'); end if; select v; end",
	"create database other",
	"create table other.o (i int primary key)",
	"insert into other.o values (7)",
	"create table other.s (x int primary key, y int)",
	"insert into other.s values (1,100),(2,200),(6,600)",
	"create procedure p_multi() begin insert into log (msg) values ('m'); update t set c = 0 where a = 1; delete from u where x = 5; end",
	"create procedure p_other() begin insert into other.o values (9); update other.s set y = y + 1; end",
}

type world struct {
	hist  *memory.HistoryDatabase
	other sql.Database
	rw    *eng.E // read-write engine over the plain provider (also used for dumps)
}

func newEngine(pro sql.DatabaseProvider) *sqle.Engine {
	e := sqle.New(analyzer.NewDefault(pro), &sqle.Config{IncludeRootAccount: true})
	e.Analyzer.Catalog.MySQLDb.SetPersister(&mysql_db.NoopPersister{})
	return e
}

func newWorld() *world {
	h := memory.NewHistoryDatabase("db")
	pro := memory.NewDBProviderWithOpts(memory.HistoryProvider(true), memory.WithDbsOption([]sql.Database{h})).(*memory.DbProvider)
	e := newEngine(pro)
	w := &world{hist: h, rw: &eng.E{Pro: pro, Engine: e, DB: "db"}}
	s := w.rw.Session()
	s.MustExec(setupSQL...)
	s.MustExec("create user 'bob'@'localhost'", "create role r1", "grant select on db.t to 'bob'@'localhost'")
	return w
}

// roEngine builds a second engine whose provider wraps every database as a memory.ReadOnlyDatabase (what
// enginetest's NewReadOnlyEngine does).
// Database db is read-only, every other database stays writable.  With plainSession the sessions are built over the
// plain provider (memory.Session.CommitTransaction cannot commit through a memory.ReadOnlyDatabase, a recorded
// finding; the analyzer still sees the read-only wrapper), otherwise over the wrapping provider.
func (w *world) roEngine(plainSession bool) *eng.E {
	var dbs []sql.Database
	ctx := sql.NewEmptyContext()
	for _, db := range w.rw.Pro.AllDatabases(ctx) {
		if h, ok := db.(*memory.HistoryDatabase); ok && h.Name() == "db" {
			dbs = append(dbs, memory.ReadOnlyDatabase{HistoryDatabase: h})
		} else {
			dbs = append(dbs, db)
		}
	}
	pro := memory.NewDBProviderWithOpts(memory.HistoryProvider(true), memory.WithDbsOption(dbs)).(*memory.DbProvider)
	e := &eng.E{Pro: pro, Engine: newEngine(pro), DB: "db"}
	if plainSession {
		e.Pro = w.rw.Pro
	}
	return e
}

func q(s *eng.S, sqlText string) string {
	r := s.Query(sqlText)
	if r.Err != nil {
		return "ERR(" + eng.ErrKind(r.Err) + ")"
	}
	return strings.Join(eng.Bag(r.Rows), ";")
}

// dump prints everything a read-only mode must preserve: databases, tables (definition + rows), views, triggers,
// routines, events, accounts and grants.  Taken through a fresh read-write session.
func (w *world) dump(withAccounts bool) string {
	ro := w.rw.Engine.ReadOnly.Load()
	w.rw.Engine.ReadOnly.Store(false)
	defer w.rw.Engine.ReadOnly.Store(ro)
	s := w.rw.Session()
	var sb strings.Builder
	dbs := s.Query("show databases")
	var names []string
	for _, r := range dbs.Rows {
		n := fmt.Sprint(r[0])
		if n == "information_schema" || n == "mysql" {
			continue
		}
		names = append(names, n)
	}
	sort.Strings(names)
	for _, db := range names {
		fmt.Fprintf(&sb, "DB %s %s\n", db, q(s, "show create database `"+db+"`"))
		ts := s.Query("show full tables from `" + db + "`")
		var tn []string
		kind := map[string]string{}
		for _, r := range ts.Rows {
			tn = append(tn, fmt.Sprint(r[0]))
			kind[fmt.Sprint(r[0])] = fmt.Sprint(r[1])
		}
		sort.Strings(tn)
		for _, t := range tn {
			cr := s.Query("show create table `" + db + "`.`" + t + "`")
			def := "?"
			if cr.Err == nil && len(cr.Rows) == 1 {
				def = fmt.Sprint(cr.Rows[0][1])
			} else if cr.Err != nil {
				def = "ERR " + cr.Err.Error()
			}
			fmt.Fprintf(&sb, " %s %s: %s\n", kind[t], t, def)
			if kind[t] == "BASE TABLE" {
				fmt.Fprintf(&sb, "  rows: %s\n", q(s, "select * from `"+db+"`.`"+t+"`"))
			}
		}
		fmt.Fprintf(&sb, " triggers: %s\n", q(s, "select trigger_name, event_manipulation, event_object_table, action_timing, action_statement from information_schema.triggers where trigger_schema = '"+db+"'"))
		fmt.Fprintf(&sb, " routines: %s\n", q(s, "select routine_name, routine_type, routine_definition from information_schema.routines where routine_schema = '"+db+"'"))
		fmt.Fprintf(&sb, " events: %s\n", q(s, "select event_name, event_definition, status from information_schema.events where event_schema = '"+db+"'"))
	}
	if withAccounts {
		fmt.Fprintf(&sb, "users: %s\n", q(s, "select user, host, account_locked, authentication_string from mysql.user"))
		fmt.Fprintf(&sb, "grants bob: %s\n", q(s, "show grants for 'bob'@'localhost'"))
		fmt.Fprintf(&sb, "tables_priv: %s\n", q(s, "select user, host, db, table_name, table_priv from mysql.tables_priv"))
		fmt.Fprintf(&sb, "role_edges: %s\n", q(s, "select * from mysql.role_edges"))
	}
	return sb.String()
}

// ---------- statement templates ----------

// class: read (must succeed with the read-write result), session (changes only session/server state, must succeed),
// dml (modifies rows of a permanent table), tmp (modifies a temporary table), ddl (schema of database db),
// dcl (accounts), other-db (creates/drops other databases), call-read / call-write (stored procedures)
type stmtT struct {
	Name    string   `json:"name"`
	Class   string   `json:"class"`
	Prelude []string `json:"prelude,omitempty"` // run in the same session before the mode is switched on
	SQL     string   `json:"sql"`
}

var templates = []stmtT{
	// ---- reads
	{Name: "select-scan", Class: "read", SQL: "select * from t"},
	{Name: "select-filter", Class: "read", SQL: "select a, b from t where c > 10"},
	{Name: "select-pk", Class: "read", SQL: "select * from t where a = 2"},
	{Name: "select-index", Class: "read", SQL: "select * from u where y = 20"},
	{Name: "select-join", Class: "read", SQL: "select t.a, u.y from t join u on t.a = u.x"},
	{Name: "select-left-join", Class: "read", SQL: "select t.a, u.y from t left join u on t.a = u.x order by t.a"},
	{Name: "select-cross", Class: "read", SQL: "select count(*) from t, u"},
	{Name: "select-group", Class: "read", SQL: "select c is null, count(*) from t group by 1 having count(*) > 0"},
	{Name: "select-distinct", Class: "read", SQL: "select distinct y from u"},
	{Name: "select-sort-limit", Class: "read", SQL: "select a from t order by a desc limit 2 offset 1"},
	{Name: "select-union", Class: "read", SQL: "select a from t union select x from u"},
	{Name: "select-union-all", Class: "read", SQL: "select a from t union all select x from u order by 1 limit 3"},
	{Name: "select-intersect", Class: "read", SQL: "select a from t intersect select x from u"},
	{Name: "select-subquery-alias", Class: "read", SQL: "select s.a from (select a from t where a > 1) s"},
	{Name: "select-in-subquery", Class: "read", SQL: "select a from t where a in (select x from u)"},
	{Name: "select-exists", Class: "read", SQL: "select a from t where exists (select 1 from u where u.x = t.a)"},
	{Name: "select-scalar-subquery", Class: "read", SQL: "select a, (select max(y) from u) from t"},
	{Name: "select-window", Class: "read", SQL: "select a, row_number() over (order by a) from t"},
	{Name: "select-named-window", Class: "read", SQL: "select a, sum(c) over w1 from t window w1 as (order by a)"},
	{Name: "select-cte", Class: "read", SQL: "with q as (select a from t) select * from q"},
	{Name: "select-recursive-cte", Class: "read", SQL: "with recursive r(n) as (select 1 union all select n+1 from r where n < 4) select * from r"},
	{Name: "select-json-table", Class: "read", SQL: "select * from json_table('[{\"a\":1},{\"a\":2}]', '$[*]' columns (a int path '$.a')) jt"},
	{Name: "select-values", Class: "read", SQL: "select * from (values row(1,2), row(3,4)) v"},
	{Name: "select-count", Class: "read", SQL: "select count(*) from t"},
	{Name: "select-view", Class: "read", SQL: "select * from vw"},
	{Name: "select-other-db", Class: "read", SQL: "select * from other.o"},
	{Name: "select-dual", Class: "read", SQL: "select 1 + 1"},
	{Name: "select-info-schema", Class: "read", SQL: "select table_name from information_schema.tables where table_schema = 'db' order by 1"},
	{Name: "select-into-var", Class: "read", SQL: "select a from t where a = 1 into @v"},
	{Name: "select-lateral", Class: "read", SQL: "select t.a, l.x from t, lateral (select x from u where u.x = t.a) l"},
	{Name: "select-for-update", Class: "read", SQL: "select * from t where a = 1 for update"},
	{Name: "table-stmt", Class: "read", SQL: "table t"},
	{Name: "show-tables", Class: "read", SQL: "show tables"},
	{Name: "show-full-tables", Class: "read", SQL: "show full tables"},
	{Name: "show-databases", Class: "read", SQL: "show databases"},
	{Name: "show-create-table", Class: "read", SQL: "show create table t"},
	{Name: "show-create-view", Class: "read", SQL: "show create view vw"},
	{Name: "show-columns", Class: "read", SQL: "show columns from t"},
	{Name: "show-full-columns", Class: "read", SQL: "show full columns from u"},
	{Name: "show-indexes", Class: "read", SQL: "show indexes from u"},
	{Name: "show-triggers", Class: "read", SQL: "show triggers"},
	{Name: "show-create-trigger", Class: "read", SQL: "show create trigger tr_bi"},
	{Name: "show-create-procedure", Class: "read", SQL: "show create procedure p_read"},
	{Name: "show-procedure-status", Class: "read", SQL: "show procedure status like 'p_read'"},
	{Name: "show-create-database", Class: "read", SQL: "show create database db"},
	{Name: "show-variables", Class: "read", SQL: "show variables like 'sql_mode'"},
	{Name: "show-status", Class: "read", SQL: "show status like 'Com_nothing%'"},
	{Name: "show-warnings", Class: "read", SQL: "show warnings"},
	{Name: "show-grants", Class: "read-acct", SQL: "show grants for 'bob'@'localhost'"},
	{Name: "show-charset", Class: "read", SQL: "show charset like 'utf8mb4'"},
	{Name: "show-collation", Class: "read", SQL: "show collation like 'utf8mb4_0900_bin'"},
	{Name: "show-table-status", Class: "read", SQL: "show table status like 'u'"},
	{Name: "show-events", Class: "read", SQL: "show events"},
	{Name: "show-privileges", Class: "read", SQL: "show privileges"},
	{Name: "show-engines", Class: "read", SQL: "show engines"},
	{Name: "show-plugins", Class: "read", SQL: "show plugins"},
	{Name: "describe", Class: "read", SQL: "describe t"},
	{Name: "explain-select", Class: "read", SQL: "explain select * from t where a = 1"},
	{Name: "explain-plan-insert", Class: "explain-write", SQL: "explain plan insert into t values (9,'x',9)"},
	{Name: "call-read", Class: "call-read", SQL: "call p_read()"},
	{Name: "call-cond-read", Class: "call-read", SQL: "call p_cond(1)"},
	{Name: "execute-read", Class: "read", Prelude: []string{"prepare s1 from 'select a from t where a > 1'"}, SQL: "execute s1"},
	// ---- session / server state
	{Name: "set-user-var", Class: "session", SQL: "set @x = 5"},
	{Name: "set-session-var", Class: "session", SQL: "set session sql_mode = 'ANSI'"},
	{Name: "set-names", Class: "session", SQL: "set names utf8mb4"},
	{Name: "use", Class: "session", SQL: "use other"},
	{Name: "prepare", Class: "session", SQL: "prepare s2 from 'insert into t values (9,''x'',9)'"},
	{Name: "deallocate", Class: "session", Prelude: []string{"prepare s3 from 'select 1'"}, SQL: "deallocate prepare s3"},
	{Name: "start-transaction", Class: "session", SQL: "start transaction"},
	{Name: "commit", Class: "session", SQL: "commit"},
	{Name: "rollback", Class: "session", SQL: "rollback"},
	{Name: "lock-tables", Class: "lock", SQL: "lock tables t read"},
	{Name: "unlock-tables", Class: "session", SQL: "unlock tables"},
	{Name: "analyze-table", Class: "session", SQL: "analyze table t"},
	// ---- DML
	{Name: "insert-values", Class: "dml", SQL: "insert into t values (9,'nine',90)"},
	{Name: "insert-multi", Class: "dml", SQL: "insert into t (a, b) values (9,'x'),(10,'y')"},
	{Name: "insert-select", Class: "dml", SQL: "insert into u select a + 100, c from t"},
	{Name: "insert-select-join", Class: "dml", SQL: "insert into log (msg) select concat(t.b, u.y) from t join u on t.a = u.x"},
	{Name: "insert-cte", Class: "dml", SQL: "insert into u with q as (select a + 200 as k, c from t) select * from q"},
	{Name: "insert-on-dup", Class: "dml", SQL: "insert into t values (1,'uno',11) on duplicate key update b = 'uno'"},
	{Name: "insert-ignore", Class: "dml", SQL: "insert ignore into t values (1,'dup',1),(11,'new',1)"},
	{Name: "insert-autoinc", Class: "dml", SQL: "insert into log (msg) values ('x')"},
	{Name: "insert-trigger", Class: "dml", SQL: "insert into tr values (1,1)"},
	{Name: "insert-set", Class: "dml", SQL: "insert into w set k = 2, v = 2"},
	{Name: "insert-other-db", Class: "dml-other", SQL: "insert into other.o values (8)"},
	{Name: "replace", Class: "dml", SQL: "replace into t values (1,'replaced',0)"},
	{Name: "update", Class: "dml", SQL: "update t set c = c + 1 where a < 3"},
	{Name: "update-all", Class: "dml", SQL: "update u set y = 0"},
	{Name: "update-subquery", Class: "dml", SQL: "update t set c = (select max(y) from u) where a = 1"},
	{Name: "update-join", Class: "dml", SQL: "update t join u on t.a = u.x set t.c = u.y + 1"},
	{Name: "update-order-limit", Class: "dml", SQL: "update t set b = 'z' order by a desc limit 1"},
	{Name: "update-fk-parent", Class: "dml", SQL: "update fk set a = 3 where id = 1"},
	{Name: "delete", Class: "dml", SQL: "delete from u where x = 5"},
	{Name: "delete-all", Class: "dml", SQL: "delete from log"},
	{Name: "delete-cascade", Class: "dml", SQL: "delete from t where a = 1"},
	{Name: "delete-subquery", Class: "dml", SQL: "delete from u where x in (select a from t)"},
	{Name: "delete-join", Class: "dml", SQL: "delete u from u join t on t.a = u.x"},
	{Name: "delete-limit", Class: "dml", SQL: "delete from t where a > 2 order by a limit 1"},
	{Name: "truncate", Class: "dml", SQL: "truncate table u"},
	{Name: "call-write", Class: "call-write", SQL: "call p_write(3)"},
	{Name: "call-cond-write", Class: "call-write", SQL: "call p_cond(500)"},
	{Name: "execute-write", Class: "dml", Prelude: []string{"prepare s4 from 'insert into t values (9,''x'',9)'"}, SQL: "execute s4"},
	{Name: "execute-write-bind", Class: "dml", Prelude: []string{"prepare s5 from 'delete from u where x = ?'", "set @k = 5"}, SQL: "execute s5 using @k"},
	{Name: "create-table-select", Class: "ddl", SQL: "create table cs as select a, b from t"},
	// ---- statements spanning the read-only database db and the writable database other
	{Name: "xdb-update-ro-first", Class: "dml", SQL: "update t join other.s on t.a = other.s.x set t.c = other.s.y + 1"},
	{Name: "xdb-update-ro-first-qualified", Class: "dml", SQL: "update db.t join other.s on db.t.a = other.s.x set db.t.c = other.s.y + 2"},
	{Name: "xdb-update-rw-first", Class: "dml", SQL: "update other.s join t on t.a = other.s.x set t.c = other.s.y + 3"},
	{Name: "xdb-update-ro-first-alias", Class: "dml", SQL: "update t as p join other.s as q on p.a = q.x set p.c = q.y + 4"},
	{Name: "xdb-update-rw-first-alias", Class: "dml", SQL: "update other.s as q join t as p on p.a = q.x set p.c = q.y + 5"},
	{Name: "xdb-update-three-tables", Class: "dml", SQL: "update t join other.s on t.a = other.s.x join other.o on other.o.i > 0 set t.c = other.s.y + other.o.i"},
	{Name: "xdb-update-both", Class: "dml", SQL: "update t join other.s on t.a = other.s.x set t.c = 77, other.s.y = 78"},
	{Name: "xdb-update-subquery", Class: "dml", SQL: "update t set c = (select max(y) from other.s) where a in (select x from other.s)"},
	{Name: "xdb-update-target-rw", Class: "dml-other", SQL: "update other.s join t on t.a = other.s.x set other.s.y = t.c"},
	{Name: "xdb-delete-ro-first", Class: "dml", SQL: "delete t from t join other.s on t.a = other.s.x"},
	{Name: "xdb-delete-rw-first", Class: "dml", SQL: "delete t from other.s join t on t.a = other.s.x"},
	{Name: "xdb-delete-ro-first-alias", Class: "dml", SQL: "delete p from t as p join other.s as q on p.a = q.x"},
	{Name: "xdb-delete-rw-first-alias", Class: "dml", SQL: "delete p from other.s as q join t as p on p.a = q.x"},
	{Name: "delete-two-targets", Class: "dml", SQL: "delete u, fk from u join fk on u.x = fk.id"},
	{Name: "xdb-delete-u-ro-first", Class: "dml", SQL: "delete u from u join other.s on u.x = other.s.x"},
	{Name: "xdb-delete-subquery", Class: "dml", SQL: "delete from u where x in (select x from other.s)"},
	{Name: "xdb-delete-target-rw", Class: "dml-other", SQL: "delete other.s from other.s join t on t.a = other.s.x"},
	{Name: "xdb-insert-select-into-ro", Class: "dml", SQL: "insert into u select x + 100, y from other.s"},
	{Name: "xdb-insert-select-join-into-ro", Class: "dml", SQL: "insert into log (msg) select concat(t.b, other.s.y) from other.s join t on t.a = other.s.x"},
	{Name: "xdb-insert-select-into-rw", Class: "dml-other", SQL: "insert into other.s select a + 100, c from t"},
	{Name: "xdb-replace-select-into-ro", Class: "dml", SQL: "replace into u select x, y from other.s"},
	{Name: "xdb-on-dup-select-into-ro", Class: "dml", SQL: "insert into u select x, y from other.s on duplicate key update y = 1"},
	{Name: "xdb-create-select-in-ro", Class: "ddl", SQL: "create table cs2 as select * from other.s"},
	{Name: "xdb-create-select-in-rw", Class: "ddl-other", SQL: "create table other.cs3 as select a, b from t"},
	{Name: "xdb-create-like-in-rw", Class: "ddl-other", SQL: "create table other.t2 like t"},
	{Name: "truncate-other", Class: "dml-other", SQL: "truncate table other.s"},
	{Name: "replace-new", Class: "dml", SQL: "replace into u values (9, 90)"},
	{Name: "on-dup-new-row", Class: "dml", SQL: "insert into u values (9, 90) on duplicate key update y = 1"},
	{Name: "truncate-log", Class: "dml", SQL: "truncate log"},
	{Name: "load-data", Class: "dml", SQL: "load data infile '%DIR%/t_new.csv' into table t fields terminated by ','"},
	{Name: "load-data-ignore", Class: "dml", SQL: "load data infile '%DIR%/t_dup.csv' ignore into table t fields terminated by ','"},
	{Name: "load-data-replace", Class: "dml", SQL: "load data infile '%DIR%/t_dup.csv' replace into table t fields terminated by ','"},
	{Name: "load-data-qualified", Class: "dml", SQL: "load data infile '%DIR%/t_new.csv' into table db.t fields terminated by ','"},
	{Name: "load-data-other", Class: "dml-other", SQL: "load data infile '%DIR%/s_new.csv' into table other.s fields terminated by ','"},
	{Name: "lock-tables-write", Class: "lock-write", SQL: "lock tables t write"},
	{Name: "lock-tables-write-qualified", Class: "lock-write", SQL: "lock tables db.u write"},
	{Name: "lock-tables-write-mixed", Class: "lock-write", SQL: "lock tables other.s read, t write"},
	{Name: "call-multi", Class: "call-write", SQL: "call p_multi()"},
	{Name: "call-other", Class: "call-write-other", SQL: "call p_other()"},
	// ---- DDL
	{Name: "create-table", Class: "ddl", SQL: "create table n1 (i int primary key, j varchar(5))"},
	{Name: "create-table-like", Class: "ddl", SQL: "create table n2 like t"},
	{Name: "create-table-if-not-exists", Class: "ddl", SQL: "create table if not exists n3 (i int)"},
	{Name: "drop-table", Class: "ddl", SQL: "drop table w"},
	{Name: "drop-table-if-exists", Class: "ddl", SQL: "drop table if exists log"},
	{Name: "rename-table", Class: "ddl", SQL: "rename table w to w2"},
	{Name: "alter-rename-table", Class: "ddl", SQL: "alter table w rename to w3"},
	{Name: "add-column", Class: "ddl", SQL: "alter table t add column d int default 7"},
	{Name: "drop-column", Class: "ddl", SQL: "alter table t drop column c"},
	{Name: "rename-column", Class: "ddl", SQL: "alter table u rename column y to yy"},
	{Name: "modify-column", Class: "ddl", SQL: "alter table t modify column b varchar(40)"},
	{Name: "change-column", Class: "ddl", SQL: "alter table u change column y z bigint"},
	{Name: "alter-default-set", Class: "ddl", SQL: "alter table t alter column c set default 5"},
	{Name: "alter-default-drop", Class: "ddl", Prelude: nil, SQL: "alter table t alter column c drop default"},
	{Name: "create-index", Class: "ddl", SQL: "create index ic on t (c)"},
	{Name: "create-unique-index", Class: "ddl", SQL: "create unique index ub on t (b)"},
	{Name: "alter-add-index", Class: "ddl", SQL: "alter table t add index ic2 (c, b)"},
	{Name: "drop-index", Class: "ddl", SQL: "drop index iy on u"},
	{Name: "alter-drop-index", Class: "ddl", SQL: "alter table u drop index iy"},
	{Name: "alter-rename-index", Class: "ddl", SQL: "alter table u rename index iy to iy2"},
	{Name: "drop-pk", Class: "ddl", SQL: "alter table w drop primary key"},
	{Name: "add-pk", Class: "ddl", Prelude: nil, SQL: "alter table tr drop primary key, add primary key (p, q)"},
	{Name: "add-fk", Class: "ddl", SQL: "alter table w add constraint fk_w foreign key (k) references t(a)"},
	{Name: "drop-fk", Class: "ddl", SQL: "alter table fk drop foreign key fk_a"},
	{Name: "add-check", Class: "ddl", SQL: "alter table u add constraint ck_y check (y < 1000)"},
	{Name: "drop-check", Class: "ddl", SQL: "alter table w drop check w_chk_1"},
	{Name: "drop-constraint", Class: "ddl", SQL: "alter table fk drop constraint fk_a"},
	{Name: "alter-auto-increment", Class: "ddl", SQL: "alter table log auto_increment = 100"},
	{Name: "alter-table-comment", Class: "ddl", SQL: "alter table t comment = 'hello'"},
	{Name: "alter-table-collation", Class: "ddl", SQL: "alter table t collate utf8mb4_bin"},
	{Name: "create-view", Class: "ddl", SQL: "create view v2 as select x from u"},
	{Name: "create-or-replace-view", Class: "ddl", SQL: "create or replace view vw as select a from t"},
	{Name: "drop-view", Class: "ddl", SQL: "drop view vw"},
	{Name: "create-trigger", Class: "ddl", SQL: "create trigger u_bi before insert on u for each row set new.y = new.y + 1"},
	{Name: "drop-trigger", Class: "ddl", SQL: "drop trigger tr_bi"},
	{Name: "create-procedure", Class: "ddl", SQL: "create procedure p_new() select 1"},
	{Name: "drop-procedure", Class: "ddl", SQL: "drop procedure p_read"},
	{Name: "create-event", Class: "ddl", SQL: "create event ev1 on schedule every 1 day disable do insert into log (msg) values ('ev')"},
	{Name: "alter-event", Class: "ddl", Prelude: nil, SQL: "alter event ev0 rename to ev9"},
	{Name: "drop-event", Class: "ddl", SQL: "drop event ev0"},
	{Name: "update-histogram", Class: "stats", SQL: "analyze table t update histogram on c using data '{\"row_count\": 4}'"},
	// ---- other databases
	{Name: "create-database", Class: "other-db", SQL: "create database fresh"},
	{Name: "drop-database", Class: "other-db", SQL: "drop database other"},
	{Name: "alter-database", Class: "other-db", SQL: "alter database other collate utf8mb4_bin"},
	// ---- accounts
	{Name: "create-user", Class: "dcl", SQL: "create user 'al'@'localhost' identified by 'pw'"},
	{Name: "drop-user", Class: "dcl", SQL: "drop user 'bob'@'localhost'"},
	{Name: "alter-user", Class: "dcl", SQL: "alter user 'bob'@'localhost' identified by 'secret'"},
	{Name: "create-role", Class: "dcl", SQL: "create role r2"},
	{Name: "drop-role", Class: "dcl", SQL: "drop role r1"},
	{Name: "grant", Class: "dcl", SQL: "grant insert on db.t to 'bob'@'localhost'"},
	{Name: "revoke", Class: "dcl", SQL: "revoke select on db.t from 'bob'@'localhost'"},
	{Name: "grant-role", Class: "dcl", SQL: "grant r1 to 'bob'@'localhost'"},
	{Name: "flush-privileges", Class: "dcl", SQL: "flush privileges"},
}

// ---------- generated statements ----------

func genSelect(r *lib.RNG, depth int) string {
	tables := []string{"t", "u", "vw", "fk", "w", "log"}
	cols := map[string]string{"t": "a", "u": "x", "vw": "a", "fk": "id", "w": "k", "log": "id"}
	if depth <= 0 {
		tb := lib.Pick(r, tables)
		return fmt.Sprintf("select %s as k from %s", cols[tb], tb)
	}
	sub := func() string { return genSelect(r, depth-1) }
	switch r.Intn(13) {
	case 0:
		return fmt.Sprintf("select k from (%s) s%d where k > %d", sub(), depth, r.Intn(4))
	case 1:
		return fmt.Sprintf("select distinct k from (%s) s%d", sub(), depth)
	case 2:
		return fmt.Sprintf("select k from (%s) s%d order by k limit %d", sub(), depth, r.Range(1, 5))
	case 3:
		return fmt.Sprintf("select k from (%s) s%d order by k desc limit 3 offset 1", sub(), depth)
	case 4:
		return fmt.Sprintf("(%s) union (%s)", sub(), sub())
	case 5:
		return fmt.Sprintf("select l.k from (%s) l join (%s) r on l.k = r.k", sub(), sub())
	case 6:
		return fmt.Sprintf("select l.k from (%s) l left join (%s) r on l.k = r.k + 1", sub(), sub())
	case 7:
		return fmt.Sprintf("select max(k) as k from (%s) s%d group by k %% 2 having count(*) > 0", sub(), depth)
	case 8:
		return fmt.Sprintf("select k from (%s) s%d where k in (%s)", sub(), depth, sub())
	case 9:
		return fmt.Sprintf("select k from (%s) s%d where exists (select 1 from u where u.x = s%d.k)", sub(), depth, depth)
	case 10:
		return fmt.Sprintf("with c%d as (%s) select k from c%d", depth, sub(), depth)
	case 11:
		return fmt.Sprintf("select k from (select k, row_number() over (order by k) as rn from (%s) s%d) z%d where rn <= 2", sub(), depth, depth)
	default:
		return fmt.Sprintf("(%s) union all (%s)", sub(), sub())
	}
}

func genStmt(r *lib.RNG) stmtT {
	d := r.Range(1, 3)
	switch r.Intn(8) {
	case 0, 1, 2:
		return stmtT{Name: "gen-select", Class: "read", SQL: genSelect(r, d)}
	case 3:
		return stmtT{Name: "gen-explain", Class: "read", SQL: "explain " + genSelect(r, d)}
	case 4:
		return stmtT{Name: "gen-insert-select", Class: "dml", SQL: fmt.Sprintf("insert into log (msg) select concat('g', k) from (%s) g", genSelect(r, d))}
	case 5:
		return stmtT{Name: "gen-update-subquery", Class: "dml", SQL: fmt.Sprintf("update w set v = v + 1 where k in (%s) or k = 1", genSelect(r, d))}
	case 6:
		return stmtT{Name: "gen-delete-subquery", Class: "dml", SQL: fmt.Sprintf("delete from u where x in (%s) or x = 5", genSelect(r, d))}
	default:
		return stmtT{Name: "gen-create-select", Class: "ddl", SQL: fmt.Sprintf("create table g%d as %s", r.Intn(100), genSelect(r, d))}
	}
}

// ---------- running one case ----------

type outcome struct {
	Err     string `json:"err,omitempty"`
	Kind    string `json:"kind,omitempty"`
	Rows    string `json:"rows,omitempty"`
	Changed bool   `json:"changed"`
	Panic   string `json:"panic,omitempty"`
	VCode   int      `json:"vcode,omitempty"` // errCode of the statement's error
	Calls   []vcallT `json:"validator_calls,omitempty"`
}

type caseT struct {
	Stmt     stmtT              `json:"stmt"`
	Plan     string             `json:"plan,omitempty"`
	IsRO     string             `json:"is_ro,omitempty"`
	Outcomes map[string]outcome `json:"outcomes,omitempty"`
}

// rodb    : read-only database, session with autocommit off (so that memory.Session.CommitTransaction is not reached)
// rodb-ac : the same with the default autocommit; evaluated for reads only
var loadDirRe = regexp.MustCompile(`[^' ]*c42-load-[^/']*/`)

var tsRe = regexp.MustCompile(`t:[0-9][0-9 :.\-]*`)

var modes = []string{"rw", "engine", "txn", "rodb", "rodb-ac"}

func runMode(st stmtT, mode string) (outcome, *treeT, string, bool) {
	w := newWorld()
	if st.Name == "alter-event" || st.Name == "drop-event" {
		w.rw.Session().MustExec("create event ev0 on schedule every 1 day disable do insert into log (msg) values ('ev')")
	}
	if st.Name == "alter-default-drop" {
		w.rw.Session().MustExec("alter table t alter column c set default 5")
	}
	e := w.rw
	if mode == "rodb" || mode == "rodb-ac" {
		e = w.roEngine(mode == "rodb")
	}
	s := e.Session()
	for _, p := range st.Prelude {
		if r := s.Query(p); r.Err != nil {
			if mode == "rw" {
				panic(fmt.Sprintf("prelude failed: %s: %v", p, r.Err))
			}
			return outcome{Err: "prelude: " + r.Err.Error(), Kind: "prelude"}, nil, "", false
		}
	}
	accounts := mode != "rodb" && mode != "rodb-ac"
	before := w.dump(accounts)
	var tree *treeT
	isro := ""
	foreign := false
	if mode == "rw" {
		// the analyzed plan, from a twin world so that analysis cannot disturb the run
		tw := newWorld()
		if st.Name == "alter-event" || st.Name == "drop-event" {
			tw.rw.Session().MustExec("create event ev0 on schedule every 1 day disable do insert into log (msg) values ('ev')")
		}
		ts := tw.rw.Session()
		for _, p := range st.Prelude {
			ts.Query(p)
		}
		ctx := sql.NewContext(context.Background(), sql.WithSession(ts.Ctx.Session))
		ctx.SetCurrentDatabase("db")
		func() {
			defer func() {
				if r := recover(); r != nil {
					isro = "analysis-panic"
				}
			}()
			node, err := tw.rw.Engine.AnalyzeQuery(ctx, st.SQL)
			if err != nil || node == nil {
				isro = "analysis-error"
				return
			}
			tree = toTree(node, &foreign, 0)
			rootIsDDL[st.Name+"|"+st.SQL] = plan.IsDDLNode(node)
			func() {
				defer func() {
					if r := recover(); r != nil {
						isro = "panic"
					}
				}()
				if plan.IsReadOnly(node) {
					isro = "true"
				} else {
					isro = "false"
				}
			}()
		}()
	}
	switch mode {
	case "engine":
		e.Engine.ReadOnly.Store(true)
	case "txn":
		if r := s.Query("start transaction read only"); r.Err != nil {
			panic("start transaction read only failed: " + r.Err.Error())
		}
	}
	var calls []vcallT
	if mode == "rw" || mode == "txn" || mode == "rodb" {
		recording = &calls
		reconstructShortcut(e, s, st.SQL)
	}
	r := s.Query(st.SQL)
	recording = nil
	var o outcome
	o.Calls = calls
	o.VCode = errCode(r.Err)
	if r.Err != nil {
		o.Err = r.Err.Error()
		if len(o.Err) > 200 {
			o.Err = o.Err[:200]
		}
		o.Kind = eng.ErrKind(r.Err)
	}
	o.Panic = r.Panic
	o.Rows = tsRe.ReplaceAllString(strings.Join(eng.Bag(r.Rows), ";"), "t:*")
	if mode == "txn" {
		s.Query("commit")
	}
	if mode == "engine" {
		e.Engine.ReadOnly.Store(false)
	}
	after := w.dump(accounts)
	o.Changed = before != after
	return o, tree, isro, foreign
}

func isWriteClass(c string) bool {
	switch c {
	case "dml", "ddl", "dcl", "other-db", "call-write", "stats", "dml-other", "ddl-other", "call-write-other", "lock-write":
		return true
	}
	return false
}

// mustReject says whether the property demands that a statement of this class, which changed the database on the
// read-write engine, is rejected under the mode.
//   engine: everything that modifies data, schema or accounts.
//   txn   : row changes of permanent tables (DDL commits implicitly, which ends the read-only transaction; MySQL and
//           the engine's own comments allow it; temporary tables may be written).
//   rodb  : everything that modifies the read-only database itself (rows, schema, routines, triggers, views).
func mustReject(class, mode string, st stmtT) bool {
	class = strings.TrimSuffix(class, "-other") // engine / transaction modes do not care which database is written
	switch mode {
	case "engine":
		return class == "dml" || class == "ddl" || class == "dcl" || class == "other-db" || class == "call-write"
	case "txn":
		return (class == "dml" || class == "call-write") && !strings.HasPrefix(st.Name, "truncate")
	case "rodb":
		return class == "dml" || class == "ddl" || class == "call-write"
	case "rodb-ac":
		return false
	}
	return false
}

// plan.IsDDLNode of the analyzed root, per statement (filled by the read-write run)
var rootIsDDL = map[string]bool{}

var acTemplates = map[string]bool{"select-scan": true, "select-join": true, "select-view": true, "show-tables": true, "describe": true}

// sig names a predicate failure by mode, kind of failure and the ROOT NODE KIND of the statement's plan (the statement
// name when there is no plan), so that one root cause gives one signature and a new statement kind gives a new one.
func sig(m, kind string, st stmtT, tree *treeT) string {
	root := st.Name
	if tree != nil {
		root = tree.Kind
		ks := map[string]bool{}
		tree.kinds(ks)
		if m == "rodb" && kind == "write-took-effect" && st.Class == "ddl" {
			// validateReadOnlyDatabase descends only below roots listed in plan.IsDDLNode, and there only looks for a
			// ResolvedTable of the read-only database
			if !rootIsDDL[st.Name+"|"+st.SQL] {
				return "rodb/write-took-effect/ddl-root-not-in-IsDDLNode"
			}
			if !ks["ResolvedTable"] {
				return "rodb/write-took-effect/ddl-plan-without-resolved-table"
			}
		}
	}
	return m + "/" + kind + "/" + root
}

func run(c *lib.Ctx, st stmtT) {
	cs := caseT{Stmt: st, Outcomes: map[string]outcome{}}
	var tree *treeT
	foreign := false
	for _, m := range modes {
		if m == "rodb-ac" && !acTemplates[st.Name] {
			continue
		}
		o, t, isro, f := runMode(st, m)
		cs.Outcomes[m] = o
		if m == "rw" {
			tree, foreign = t, f
			cs.IsRO = isro
		}
	}
	rw := cs.Outcomes["rw"]
	c.Count("class:" + st.Class)
	key := ""
	treeTerm := "(Node \"ext:none\" false [])"
	obs := "OAnalysisFailed"
	if tree != nil {
		cs.Plan = tree.shape()
		treeTerm = tree.coq()
		ks := map[string]bool{}
		tree.kinds(ks)
		for k := range ks {
			c.Count("kind:" + k)
		}
		key = cs.Plan
		switch {
		case foreign:
			obs = "OForeign"
		case cs.IsRO == "true":
			obs = "OBool true"
		case cs.IsRO == "false":
			obs = "OBool false"
		case cs.IsRO == "panic":
			obs = "OPanic"
		}
		c.Count("root:" + tree.Kind + "/is_ro=" + cs.IsRO)
	} else {
		c.Count("analysis-failed")
	}
	engRejected := cs.Outcomes["engine"].Kind == "read-only"
	vinfo := lib.CoqTuple(callsCoq(rw.Calls),
		lib.CoqTuple(fmt.Sprint(cs.Outcomes["txn"].VCode), callsCoq(cs.Outcomes["txn"].Calls)),
		lib.CoqTuple(fmt.Sprint(cs.Outcomes["rodb"].VCode), callsCoq(cs.Outcomes["rodb"].Calls)))
	for _, m := range []string{"rw", "txn", "rodb"} {
		for _, vc := range cs.Outcomes[m].Calls {
			k := "shortcut"
			if !vc.Recon {
				k = "rule"
			}
			c.Count(fmt.Sprintf("validator:%s/%s/%s/%s/res=%d", m, vc.Which, k, vc.Root, vc.Res))
		}
	}
	term := lib.CoqTuple(treeTerm, obs, lib.CoqBool(rw.Changed && rw.Err == ""), lib.CoqBool(engRejected), lib.CoqBool(cs.Outcomes["engine"].Err == ""), vinfo)
	id := c.Case(term, cs, key)

	// ---- predicate on the implementation alone
	c.PredChecked()
	if rw.Panic != "" {
		c.PredFail(id, "rw/panic/"+st.Name, "read-write engine panicked on "+st.SQL+": "+rw.Panic, cs)
		return
	}
	for _, m := range modes[1:] {
		o, ran := cs.Outcomes[m]
		if !ran {
			continue
		}
		if o.Panic != "" {
			c.PredFail(id, m+"/panic/"+strings.TrimSuffix(st.Class, "-other"), fmt.Sprintf("%s mode: engine panicked on %q: %s", m, st.SQL, o.Panic), cs)
			continue
		}
		if isWriteClass(st.Class) {
			if o.Kind == "prelude" {
				c.Count("prelude-failed:" + m)
				continue
			}
			if st.Class == "lock-write" {
				// a write lock on a table of a read-only database must not be granted; no demand in the other modes
				if m != "rodb" {
					c.Count("no-demand:" + m + "/" + st.Class)
				} else if o.Err == "" {
					c.PredFail(id, sig(m, "write-lock-granted", st, tree), fmt.Sprintf("%s mode: %q is granted on a table of the read-only database", m, st.SQL), cs)
				} else {
					c.Count("rejected:" + m + "/" + o.Kind)
				}
				continue
			}
			if strings.HasSuffix(st.Class, "-other") && m == "rodb" {
				// the statement writes only the writable database: the property makes no demand (it only guarantees that
				// read-only statements succeed); outcomes are recorded and still compared with the model
				if o.Err != "" {
					c.Count("no-demand:rodb/write-other-rejected")
				} else {
					c.Count("no-demand:rodb/write-other-accepted")
				}
				continue
			}
			if !mustReject(st.Class, m, st) {
				c.Count("no-demand:" + m + "/" + st.Class)
				continue
			}
			if o.Changed {
				c.PredFail(id, sig(m, "write-took-effect", st, tree), fmt.Sprintf("%s mode: %q changed the database (error: %q)", m, st.SQL, o.Err), cs)
			} else if rw.Changed && rw.Err == "" && o.Err == "" {
				c.PredFail(id, sig(m, "write-not-rejected", st, tree), fmt.Sprintf("%s mode: %q modifies the database on the read-write engine but was accepted without effect", m, st.SQL), cs)
			} else if m == "txn" && rw.Err == "" && o.Kind != "read-only" {
				c.PredFail(id, sig(m, "rejected-with-other-error", st, tree), fmt.Sprintf("%s mode: %q is not rejected with ErrReadOnlyTransaction but with %q", m, st.SQL, o.Err), cs)
			} else {
				c.Count("rejected:" + m + "/" + o.Kind)
			}
			continue
		}
		// reads, session statements, read-only calls
		if st.Class == "explain-write" || (st.Class == "lock" && m != "engine") || (st.Class == "read-acct" && strings.HasPrefix(m, "rodb")) {
			// no demand: EXPLAIN of a write is validated like the write; LOCK TABLES is neither a read nor a write of
			// data (the engine refuses it in read-only transactions/databases); the read-only-database engine is a
			// second engine with its own accounts
			c.Count("no-demand:" + m + "/" + st.Class)
			continue
		}
		if rw.Err != "" {
			c.Count("rw-error:" + st.Name)
			continue
		}
		if o.Changed {
			c.PredFail(id, sig(m, "read-changed-database", st, tree), fmt.Sprintf("%s mode: %q changed the database", m, st.SQL), cs)
		}
		if o.Kind == "prelude" {
			c.Count("prelude-failed:" + m)
			continue
		}
		if strings.HasPrefix(m, "rodb") && !o.Changed && strings.Contains(o.Err, "unknown database type memory.ReadOnlyDatabase") {
			c.PredFail(id, "rodb/read-fails-at-commit-unknown-database-type", fmt.Sprintf("%s mode: read-only statement %q fails with %q", m, st.SQL, o.Err), cs)
			continue
		}
		if o.Err != "" {
			c.PredFail(id, sig(m, "read-rejected", st, tree), fmt.Sprintf("%s mode: read-only statement %q fails with %q but succeeds on the read-write engine", m, st.SQL, o.Err), cs)
		} else if st.Class != "session" && o.Rows != rw.Rows {
			c.PredFail(id, sig(m, "read-result-differs", st, tree), fmt.Sprintf("%s mode: %q returns %s, read-write engine returns %s", m, st.SQL, o.Rows, rw.Rows), cs)
		} else {
			c.Count("read-ok:" + m)
		}
	}
}

func main() {
	lib.Main("C42", func(c *lib.Ctx) {
		loadTable()
		installRecorders()
		logrus.SetOutput(io.Discard)
		defineNames()
		c.Header = "From Coq Require Import List String NArith.\nImport ListNotations.\nFrom GMS Require Import Plan.ReadOnly Plan.C42Validators Corr.C42.\nOpen Scope string_scope.\n" +
			nameDefs.String() + "Open Scope N_scope."
		c.CaseType = "C42.case"
		c.MismatchFn = "C42.mismatches"
		c.SetRule("one case = one statement run on a freshly populated database (7 tables, view, trigger, 3 procedures, FK, second database, " +
			"account + role) under the read-write engine and under the three read-only modes; fixed templates for every statement kind the " +
			"engine accepts (reads, session statements, DML, DDL, DCL, CALL, PREPARE/EXECUTE), then generated nested SELECTs (depth 1-3: derived tables, " +
			"joins, unions, CTEs, IN/EXISTS, windows, grouping) alone, under EXPLAIN, and as sources of INSERT/UPDATE/DELETE/CREATE TABLE AS. " +
			"Non-trivial = the statement analyzed to a plan; distinct = distinct plan shapes (node kinds, nesting).")
		dir, err := os.MkdirTemp("", "c42-load-")
		if err != nil {
			panic(err)
		}
		defer os.RemoveAll(dir)
		os.WriteFile(filepath.Join(dir, "t_new.csv"), []byte("20,twenty,200\n21,twentyone,210\n"), 0o644)
		os.WriteFile(filepath.Join(dir, "t_dup.csv"), []byte("1,dup,1\n22,new,220\n"), 0o644)
		os.WriteFile(filepath.Join(dir, "s_new.csv"), []byte("7,700\n8,800\n"), 0o644)
		if c.ReplayFile != "" {
			var cs caseT
			lib.LoadReplay(c.ReplayFile, &cs)
			cs.Stmt.SQL = loadDirRe.ReplaceAllString(cs.Stmt.SQL, dir+"/")
			run(c, cs.Stmt)
			return
		}
		n := 0
		for _, st := range templates {
			st.SQL = strings.ReplaceAll(st.SQL, "%DIR%", dir)
			run(c, st)
			n++
		}
		for ; n < c.N; n++ {
			run(c, genStmt(c.R.Fork()))
		}
	})
}
