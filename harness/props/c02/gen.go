// C02 driver, part 3: typed random generator of databases and queries of the property's grammar.
package main

import (
	"verifharness/lib"
)

type ctype int

const (
	tInt ctype = iota
	tDec
	tStr
	tAvg // result of AVG: only projected or compared with a constant (engine computes it in float64)
)

// scope: column types of one environment row; from inside a subquery only the usable positions of an
// enclosing grouped row (its keys) may be referenced.
type scope struct {
	types  []ctype
	usable []bool // nil: all
}

type gen struct {
	r      *lib.RNG
	tables []Table
}

var intPool = []int64{-1, 0, 1, 2, 3, 5}
var decPool = []int64{0, 150, 225, -100, 100, 200}
var strPool = []string{"a", "b", "A", "ab", ""}

func (g *gen) lit(t ctype) *Val {
	if g.r.Chance(1, 12) {
		return null()
	}
	switch t {
	case tInt:
		return intv(lib.Pick(g.r, intPool))
	case tDec, tAvg:
		return &Val{K: "dec", I: lib.Pick(g.r, decPool), S: 2}
	default:
		return &Val{K: "str", Str: lib.Pick(g.r, strPool)}
	}
}

func (g *gen) genTables() {
	n := g.r.Range(1, 4)
	for t := 0; t < n; t++ {
		w := g.r.Range(1, 3)
		tb := Table{PK: -1}
		for i := 0; i < w; i++ {
			switch g.r.Intn(10) {
			case 0, 1, 2, 3, 4:
				tb.Types = append(tb.Types, "int")
			case 5, 6:
				tb.Types = append(tb.Types, "dec")
			default:
				tb.Types = append(tb.Types, "str")
			}
		}
		if t == 0 {
			tb.Types[0] = "int"
		}
		if tb.Types[0] == "int" && g.r.Chance(1, 5) {
			tb.PK = 0
		}
		for i := range tb.Types {
			if i != tb.PK && tb.Types[i] != "dec" && g.r.Chance(1, 5) { // indexed DECIMAL columns: C03's subject (<> 1.50 over an index is wrong)
				tb.Idx = append(tb.Idx, i)
			}
		}
		nr := g.r.Range(0, 6)
		if g.r.Chance(1, 10) {
			nr = 0
		}
		used := map[int64]bool{}
		for k := 0; k < nr; k++ {
			row := make([]Val, w)
			for i, ty := range tb.Types {
				var v *Val
				if g.r.Chance(1, 4) {
					v = null()
				} else {
					v = g.lit(map[string]ctype{"int": tInt, "dec": tDec, "str": tStr}[ty])
				}
				if i == tb.PK {
					x := int64(g.r.Range(-1, 8))
					for used[x] {
						x++
					}
					used[x] = true
					v = intv(x)
				}
				row[i] = *v
			}
			// duplicates are frequent
			if k > 0 && tb.PK < 0 && g.r.Chance(1, 5) {
				row = append([]Val{}, tb.Rows[g.r.Intn(k)]...)
			}
			tb.Rows = append(tb.Rows, row)
		}
		g.tables = append(g.tables, tb)
	}
}

func tyOf(s string) ctype { return map[string]ctype{"int": tInt, "dec": tDec, "str": tStr}[s] }

type colref struct{ d, i int }

func (g *gen) cols(sc []scope, want ctype) []colref {
	var out []colref
	for d, s := range sc {
		for i, t := range s.types {
			if t != want {
				continue
			}
			if d > 0 && s.usable != nil && !s.usable[i] {
				continue
			}
			// prefer the innermost scope
			reps := 1
			if d == 0 {
				reps = 4
			}
			for k := 0; k < reps; k++ {
				out = append(out, colref{d, i})
			}
		}
	}
	return out
}

// scalar expression of the wanted type
func (g *gen) scalar(sc []scope, want ctype, depth, sub int) *Expr {
	cs := g.cols(sc, want)
	if want == tAvg {
		if len(cs) > 0 {
			c := lib.Pick(g.r, cs)
			return &Expr{Op: "col", D: c.d, I: c.i}
		}
		want = tDec
		cs = g.cols(sc, want)
	}
	k := g.r.Intn(100)
	switch {
	case k < 55 && len(cs) > 0:
		c := lib.Pick(g.r, cs)
		return &Expr{Op: "col", D: c.d, I: c.i}
	case k < 70 && depth > 0 && want != tStr:
		op := lib.Pick(g.r, []string{"+", "-", "*"})
		a, b := want, want
		if want == tDec {
			// decimal results: dec±dec, dec±int, int*dec
			switch g.r.Intn(3) {
			case 0:
				b = tInt
			case 1:
				if op == "*" {
					a = tInt
				}
			}
			if op == "*" && a == tDec && b == tDec {
				b = tInt
			}
		}
		return &Expr{Op: "arith", O: op, A: g.scalar(sc, a, depth-1, sub), B: g.scalar(sc, b, depth-1, sub)}
	case k < 80 && sub > 0:
		return &Expr{Op: "scalar", Q: g.scalarSub(sc, want, sub-1)}
	}
	return konst(g.lit(want))
}

func (g *gen) numType() ctype {
	if g.r.Chance(1, 4) {
		return tDec
	}
	return tInt
}

func (g *gen) anyType() ctype {
	switch g.r.Intn(10) {
	case 0, 1:
		return tDec
	case 2, 3, 4:
		return tStr
	}
	return tInt
}

func (g *gen) boolean(sc []scope, depth, sub int) *Expr {
	k := g.r.Intn(100)
	if depth <= 0 {
		k = g.r.Intn(45)
	}
	switch {
	case k < 35:
		op := lib.Pick(g.r, []string{"=", "=", "=", "<>", "<", "<=", ">", ">="})
		if g.r.Chance(1, 4) {
			return &Expr{Op: "cmp", O: op, A: g.scalar(sc, tStr, depth-1, sub), B: g.scalar(sc, tStr, depth-1, sub)}
		}
		if len(g.cols(sc[:1], tAvg)) > 0 && g.r.Chance(1, 3) {
			return &Expr{Op: "cmp", O: op, A: g.scalar(sc[:1], tAvg, 0, 0), B: konst(g.lit(tDec))}
		}
		return &Expr{Op: "cmp", O: op, A: g.scalar(sc, g.numType(), depth-1, sub), B: g.scalar(sc, g.numType(), depth-1, sub)}
	case k < 45:
		return &Expr{Op: "isnull", A: g.scalar(sc, g.anyType(), depth-1, sub)}
	case k < 57:
		return &Expr{Op: lib.Pick(g.r, []string{"and", "or"}), A: g.boolean(sc, depth-1, sub), B: g.boolean(sc, depth-1, sub)}
	case k < 63:
		return &Expr{Op: "not", A: g.boolean(sc, depth-1, sub)}
	case k < 73:
		t := g.anyType()
		n := g.r.Range(1, 3)
		var l []*Expr
		for i := 0; i < n; i++ {
			if g.r.Chance(1, 3) {
				l = append(l, g.scalar(sc, t, 0, 0))
			} else {
				l = append(l, konst(g.lit(t)))
			}
		}
		e := &Expr{Op: "in", A: g.scalar(sc, t, depth-1, sub), L: l}
		if g.r.Bool() {
			return &Expr{Op: "not", A: e, NotSyntax: g.r.Chance(3, 4)}
		}
		return e
	case k < 83 && sub > 0:
		e := &Expr{Op: "exists", Q: g.query(sc, nil, sub-1, false)}
		g.addOuterConjunct(e.Q, sc)
		if g.r.Chance(2, 5) {
			return &Expr{Op: "not", A: e, NotSyntax: g.r.Chance(3, 4)}
		}
		return e
	case k < 96 && sub > 0:
		t := g.anyType()
		e := &Expr{Op: "inq", A: g.scalar(sc, t, depth-1, 0), Q: g.query(sc, []ctype{t}, sub-1, false)}
		g.addOuterConjunct(e.Q, sc)
		if g.r.Bool() {
			return &Expr{Op: "not", A: e, NotSyntax: g.r.Chance(3, 4)}
		}
		return e
	case k < 98:
		return konst(null())
	}
	return &Expr{Op: "cmp", O: "=", A: g.scalar(sc, tInt, 0, 0), B: g.scalar(sc, tInt, 0, 0)}
}

// addOuterConjunct: with probability 1/3 the subquery's WHERE gets a conjunct over an OUTER column only
// (... AND x0.c1 > 1): for an outer row where it is NULL the subquery is empty, so NOT EXISTS / NOT IN keep the row
func (g *gen) addOuterConjunct(q *Query, outer []scope) {
	b := peel(q)
	if b == nil || (b.K != "select" && b.K != "group") || len(outer) == 0 || !g.r.Chance(1, 3) {
		return
	}
	var cs []int
	for i, t := range outer[0].types {
		if (t == tInt || t == tDec) && (outer[0].usable == nil || outer[0].usable[i]) {
			cs = append(cs, i)
		}
	}
	if len(cs) == 0 {
		return
	}
	c := lib.Pick(g.r, cs)
	v := g.lit(outer[0].types[c])
	for v.K == "null" {
		v = g.lit(outer[0].types[c])
	}
	oc := &Expr{Op: "cmp", O: lib.Pick(g.r, []string{">", "<", "=", "<>", ">="}), A: &Expr{Op: "col", D: 1, I: c}, B: konst(v)}
	if isTrueConst(b.Wh) {
		b.Wh = oc
	} else {
		b.Wh = &Expr{Op: "and", A: b.Wh, B: oc}
	}
}

// scalar subquery of one column of the wanted type; mostly cardinality-safe
func (g *gen) scalarSub(sc []scope, want ctype, sub int) *Query {
	switch k := g.r.Intn(20); {
	case k == 0:
		return g.block(sc, []ctype{want}, sub, 0) // may return several rows: cardinality error
	case k < 12:
		return g.block(sc, []ctype{want}, sub, 2) // global aggregate: exactly one row
	default:
		q := g.block(sc, []ctype{want}, sub, 0)
		return &Query{K: "order", Q: q, OKeys: []OKey{{I: 0, Desc: g.r.Bool()}}, HasLim: true, Lim: 1, Off: g.r.Intn(2)}
	}
}

func (g *gen) from(outer []scope, sub int) (*Query, []ctype) {
	leaf := func() (*Query, []ctype) {
		if sub > 0 && g.r.Chance(1, 6) {
			// derived table: closed (no outer references)
			q, ts := g.queryT(nil, nil, sub-1, true)
			return q, ts
		}
		t := g.r.Intn(len(g.tables))
		var ts []ctype
		for _, s := range g.tables[t].Types {
			ts = append(ts, tyOf(s))
		}
		return &Query{K: "table", T: t}, ts
	}
	n := 1
	switch k := g.r.Intn(10); {
	case k < 4:
		n = 1
	case k < 9:
		n = 2
	default:
		n = 3
	}
	q, ts := leaf()
	for i := 1; i < n; i++ {
		r, rts := leaf()
		l, lts := q, ts
		if g.r.Chance(1, 4) {
			l, lts, r, rts = r, rts, l, lts
		}
		all := append(append([]ctype{}, lts...), rts...)
		jk := lib.Pick(g.r, []string{"inner", "inner", "left", "left", "right", "cross"})
		j := &Query{K: "join", JK: jk, L: l, R: r}
		if jk != "cross" {
			sc := append([]scope{{types: all}}, outer...)
			if g.r.Chance(1, 8) {
				sc = sc[:1]
			}
			j.On = g.joinCond(sc, len(lts), sub)
		}
		q, ts = j, all
	}
	return q, ts
}

// join conditions: mostly an equality between a left and a right column, sometimes any condition
func (g *gen) joinCond(sc []scope, nl int, sub int) *Expr {
	if g.r.Chance(3, 4) {
		ts := sc[0].types
		var pairs [][2]int
		for i := 0; i < nl; i++ {
			for j := nl; j < len(ts); j++ {
				num := func(t ctype) bool { return t == tInt || t == tDec }
				if ts[i] == ts[j] && ts[i] != tAvg || (num(ts[i]) && num(ts[j])) {
					pairs = append(pairs, [2]int{i, j})
				}
			}
		}
		if len(pairs) > 0 {
			p := lib.Pick(g.r, pairs)
			e := &Expr{Op: "cmp", O: lib.Pick(g.r, []string{"=", "=", "=", "<", ">="}), A: &Expr{Op: "col", I: p[0]}, B: &Expr{Op: "col", I: p[1]}}
			if g.r.Chance(1, 4) {
				return &Expr{Op: lib.Pick(g.r, []string{"and", "or"}), A: e, B: g.boolean(sc, 1, 0)}
			}
			return e
		}
	}
	s := 0
	if sub > 0 && g.r.Chance(1, 6) {
		s = 1
	}
	return g.boolean(sc, 2, s)
}

// block: one SELECT block.  mode 0: any; 1: plain select; 2: global aggregate (no GROUP BY keys)
func (g *gen) block(outer []scope, want []ctype, sub int, mode int) *Query {
	src, ts := g.from(outer, sub)
	sc := append([]scope{{types: ts}}, outer...)
	q := &Query{Src: src}
	q.Wh = konst(intv(1))
	if g.r.Chance(7, 10) {
		q.Wh = g.boolean(sc, 2, sub)
	}
	grouped := mode == 2 || (mode == 0 && g.r.Chance(3, 10))
	np := g.r.Range(1, 3)
	if want != nil {
		np = len(want)
	}
	wantT := func(i int, avail []ctype) ctype {
		if want != nil {
			if want[i] == tAvg {
				return tDec
			}
			return want[i]
		}
		if len(avail) > 0 && g.r.Chance(1, 2) {
			return lib.Pick(g.r, avail)
		}
		return g.anyType()
	}
	if !grouped {
		q.K = "select"
		for i := 0; i < np; i++ {
			q.Proj = append(q.Proj, g.scalar(sc, wantT(i, nil), 2, sub))
		}
		q.Dist = g.r.Chance(3, 20)
		return q
	}
	q.K = "group"
	var gts []ctype
	if mode != 2 {
		nk := g.r.Intn(3)
		for i := 0; i < nk && len(ts) > 0; i++ {
			ci := g.r.Intn(len(ts))
			if ts[ci] == tAvg {
				continue
			}
			var ke *Expr = &Expr{Op: "col", I: ci}
			kt := ts[ci]
			if kt == tInt && g.r.Chance(1, 8) {
				ke = &Expr{Op: "arith", O: "+", A: ke, B: konst(intv(1))}
			}
			q.Keys = append(q.Keys, ke)
			gts = append(gts, kt)
		}
	}
	nkeys := len(q.Keys)
	// addAgg appends an aggregate whose result has type t and returns its position in the grouped row
	addAgg := func(t ctype) int {
		var f string
		at := t
		switch t {
		case tInt:
			f = lib.Pick(g.r, []string{"count*", "count", "countd", "sum", "min", "max"})
			if f == "count" || f == "countd" {
				at = g.anyType()
			}
		case tDec:
			f = lib.Pick(g.r, []string{"sum", "min", "max"})
		case tStr:
			f = lib.Pick(g.r, []string{"min", "max"})
		default:
			f = "avg"
			at = g.numType()
		}
		e := konst(intv(1))
		if f != "count*" {
			e = g.scalar(sc, at, 1, 0)
		}
		q.Aggs = append(q.Aggs, Agg{F: f, E: e})
		gts = append(gts, t)
		return len(gts) - 1
	}
	type pplan struct {
		t   ctype
		pos int // >= 0: direct reference to that position of the grouped row
	}
	plans := make([]pplan, np)
	for i := 0; i < np; i++ {
		t := wantT(i, nil)
		if want != nil && want[i] == tAvg {
			t = tAvg
		}
		if want == nil && g.r.Chance(1, 10) {
			t = tAvg
		}
		plans[i] = pplan{t: t, pos: -1}
		var keyPos []int
		for k := 0; k < nkeys; k++ {
			if gts[k] == t {
				keyPos = append(keyPos, k)
			}
		}
		switch k := g.r.Intn(100); {
		case k < 35 && len(keyPos) > 0:
			plans[i].pos = lib.Pick(g.r, keyPos)
		case k < 85 || t == tAvg || (nkeys == 0 && i == 0):
			plans[i].pos = addAgg(t)
		}
	}
	if g.r.Chance(1, 3) {
		addAgg(lib.Pick(g.r, []ctype{tInt, tInt, tDec, tStr, tAvg}))
	}
	usable := make([]bool, len(gts))
	for i := range usable {
		usable[i] = i < nkeys
	}
	gsc := append([]scope{{types: gts, usable: usable}}, outer...)
	q.Hav = konst(intv(1))
	if g.r.Chance(4, 10) {
		q.Hav = g.boolean(gsc[:1], 2, 0)
	}
	for i := 0; i < np; i++ {
		if plans[i].pos >= 0 {
			q.Proj = append(q.Proj, &Expr{Op: "col", I: plans[i].pos})
		} else {
			q.Proj = append(q.Proj, g.scalar(gsc[:1], plans[i].t, 1, 0))
		}
	}
	q.Dist = g.r.Chance(1, 10)
	return q
}

// static output types of a query (needed for set operations and derived tables)
func (g *gen) types(q *Query, outer []scope) []ctype {
	switch q.K {
	case "table":
		var ts []ctype
		for _, s := range g.tables[q.T].Types {
			ts = append(ts, tyOf(s))
		}
		return ts
	case "join":
		return append(g.types(q.L, outer), g.types(q.R, outer)...)
	case "setop":
		return g.types(q.L, outer)
	case "order":
		return g.types(q.Q, outer)
	}
	return nil
}

func (g *gen) query(outer []scope, want []ctype, sub int, top bool) *Query {
	q, _ := g.queryT(outer, want, sub, top)
	return q
}

// queryT: a block, a set operation of blocks, optionally wrapped in ORDER BY / LIMIT; returns output types
func (g *gen) queryT(outer []scope, want []ctype, sub int, top bool) (*Query, []ctype) {
	var q *Query
	var ts []ctype
	if g.r.Chance(3, 20) {
		l := g.block(outer, want, sub, 0)
		lt := g.blockTypes(l, outer)
		r := g.block(outer, lt, sub, 0)
		q = &Query{K: "setop", SOp: lib.Pick(g.r, []string{"union", "union", "intersect", "except"}), All: g.r.Bool(), L: l, R: r}
		ts = lt
		if outer == nil && g.r.Chance(1, 2) {
			// left-deep chain: (A EXCEPT B) UNION C, (A EXCEPT B) INTERSECT C, ...; B is often A restricted by one more
			// conjunct, so that a value occurring k times in A occurs 0..k times in B
			inner := &Query{K: "setop", SOp: lib.Pick(g.r, []string{"except", "except", "intersect", "union"}), All: g.r.Chance(1, 3), L: l, R: r}
			if g.r.Bool() && (l.K == "select") {
				b := *l
				b.Wh = &Expr{Op: "and", A: l.Wh, B: g.boolean([]scope{{types: g.srcTypes(l.Src)}}, 1, 0)}
				inner.R = &b
			}
			c := g.block(outer, lt, sub, 0)
			q = &Query{K: "setop", SOp: lib.Pick(g.r, []string{"union", "intersect", "except"}), All: g.r.Chance(1, 4), L: inner, R: c}
		}
	} else {
		q = g.block(outer, want, sub, 0)
		ts = g.blockTypes(q, outer)
	}
	p := 1
	if top {
		p = 4
	}
	if g.r.Chance(p, 12) {
		w := len(ts)
		perm := make([]int, w)
		for i := range perm {
			perm[i] = i
		}
		for i := w - 1; i > 0; i-- {
			j := g.r.Intn(i + 1)
			perm[i], perm[j] = perm[j], perm[i]
		}
		nk := w
		if g.r.Chance(1, 4) {
			nk = g.r.Range(1, w)
		}
		o := &Query{K: "order", Q: q, ByName: q.K != "group" && g.r.Chance(1, 3)}
		for _, i := range perm[:nk] {
			o.OKeys = append(o.OKeys, OKey{I: i, Desc: g.r.Chance(1, 3)})
		}
		if nk == w && g.r.Chance(1, 2) {
			o.HasLim = true
			o.Lim = g.r.Range(0, 4)
			o.Off = g.r.Intn(3)
		}
		q = o
	}
	return q, ts
}

// output types of a block, recomputed from its projection
func (g *gen) blockTypes(q *Query, outer []scope) []ctype {
	src := g.srcTypes(q.Src)
	var row []ctype
	if q.K == "group" {
		for _, k := range q.Keys {
			row = append(row, g.exprType(k, append([]scope{{types: src}}, outer...)))
		}
		for _, a := range q.Aggs {
			switch a.F {
			case "count*", "count", "countd":
				row = append(row, tInt)
			case "avg":
				row = append(row, tAvg)
			default:
				row = append(row, g.exprType(a.E, append([]scope{{types: src}}, outer...)))
			}
		}
	} else {
		row = src
	}
	sc := append([]scope{{types: row}}, outer...)
	var out []ctype
	for _, p := range q.Proj {
		out = append(out, g.exprType(p, sc))
	}
	return out
}

func (g *gen) srcTypes(q *Query) []ctype {
	switch q.K {
	case "table":
		var ts []ctype
		for _, s := range g.tables[q.T].Types {
			ts = append(ts, tyOf(s))
		}
		return ts
	case "join":
		return append(g.srcTypes(q.L), g.srcTypes(q.R)...)
	case "select", "group":
		return g.blockTypes(q, nil)
	case "setop":
		return g.srcTypes(q.L)
	case "order":
		return g.srcTypes(q.Q)
	}
	return nil
}

func (g *gen) exprType(e *Expr, sc []scope) ctype {
	switch e.Op {
	case "const":
		switch e.V.K {
		case "dec":
			return tDec
		case "str":
			return tStr
		}
		return tInt
	case "col":
		if e.D < len(sc) && e.I < len(sc[e.D].types) {
			return sc[e.D].types[e.I]
		}
		return tInt
	case "arith":
		a, b := g.exprType(e.A, sc), g.exprType(e.B, sc)
		if a == tDec || b == tDec {
			return tDec
		}
		return tInt
	case "scalar":
		ts := g.srcTypes2(e.Q, sc)
		if len(ts) > 0 {
			return ts[0]
		}
		return tInt
	}
	return tInt
}

func (g *gen) srcTypes2(q *Query, outer []scope) []ctype {
	switch q.K {
	case "select", "group":
		return g.blockTypes(q, outer)
	case "setop":
		return g.srcTypes2(q.L, outer)
	case "order":
		return g.srcTypes2(q.Q, outer)
	}
	return g.srcTypes(q)
}

func genCase(r *lib.RNG) *Case {
	g := &gen{r: r}
	g.genTables()
	q, ts := g.queryT(nil, nil, 2, true)
	c := &Case{Tables: g.tables, Q: q}
	if q.K == "order" && len(q.OKeys) >= len(ts) {
		c.Ordered = true
	}
	if err := checkCase(c); err != nil {
		c.SQL = "ill-formed: " + err.Error()
	} else if ts := triggers(c); len(ts) > 0 {
		c.SQL = "ill-formed: avoided known-finding shape " + ts[0]
	}
	return c
}
