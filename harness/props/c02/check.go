// C02 driver, part 5: static well-formedness / type check of a case.  The generator only emits checked
// cases and the shrinker only keeps checked candidates, so that every query sent to the engine is a valid,
// well-typed statement of the property's grammar.
package main

import "fmt"

const tNull ctype = 100

func isNum(t ctype) bool { return t == tInt || t == tDec || t == tAvg || t == tNull }

func unify(a, b ctype) (ctype, bool) {
	switch {
	case a == b:
		return a, true
	case a == tNull:
		return b, true
	case b == tNull:
		return a, true
	case a == tStr || b == tStr:
		return a, false
	case a == tAvg || b == tAvg:
		return tAvg, true
	}
	return tDec, true
}

type checker struct {
	tables      []Table
	mixedIntDec bool // some comparison / IN mixes an INT operand with a DECIMAL operand
	intInDecSubquery bool // INT operand IN (subquery projecting a DECIMAL)
}

func (c *checker) mix(a, b ctype) {
	if (a == tInt && b == tDec) || (a == tDec && b == tInt) {
		c.mixedIntDec = true
	}
}

type cscope struct {
	types []ctype
	nkeys int // >= 0 for a grouped row: positions >= nkeys are aggregates
	group bool
}

func (c *checker) expr(e *Expr, sc []cscope) (ctype, error) {
	if e == nil {
		return 0, fmt.Errorf("nil expr")
	}
	boolish := func(x *Expr) error {
		t, err := c.expr(x, sc)
		if err != nil {
			return err
		}
		if t == tStr || t == tAvg {
			return fmt.Errorf("condition of type %d", t)
		}
		return nil
	}
	switch e.Op {
	case "const":
		switch e.V.K {
		case "null":
			return tNull, nil
		case "int":
			return tInt, nil
		case "dec":
			return tDec, nil
		}
		return tStr, nil
	case "col":
		if e.D >= len(sc) || e.I >= len(sc[e.D].types) {
			return 0, fmt.Errorf("column out of scope")
		}
		if e.D > 0 && sc[e.D].group && e.I >= sc[e.D].nkeys {
			return 0, fmt.Errorf("outer aggregate referenced from a subquery")
		}
		return sc[e.D].types[e.I], nil
	case "cmp":
		a, err := c.expr(e.A, sc)
		if err != nil {
			return 0, err
		}
		b, err := c.expr(e.B, sc)
		if err != nil {
			return 0, err
		}
		if _, ok := unify(a, b); !ok {
			return 0, fmt.Errorf("comparison of incompatible types")
		}
		c.mix(a, b)
		if (a == tAvg || b == tAvg) && e.A.Op != "const" && e.B.Op != "const" {
			return 0, fmt.Errorf("AVG compared with a non-constant")
		}
		return tInt, nil
	case "arith":
		a, err := c.expr(e.A, sc)
		if err != nil {
			return 0, err
		}
		b, err := c.expr(e.B, sc)
		if err != nil {
			return 0, err
		}
		if !isNum(a) || !isNum(b) || a == tAvg || b == tAvg {
			return 0, fmt.Errorf("arithmetic on non-numbers")
		}
		if a == tNull && b == tNull {
			return tNull, nil
		}
		t, _ := unify(a, b)
		return t, nil
	case "and", "or":
		if err := boolish(e.A); err != nil {
			return 0, err
		}
		return tInt, boolish(e.B)
	case "not":
		return tInt, boolish(e.A)
	case "isnull":
		_, err := c.expr(e.A, sc)
		return tInt, err
	case "in":
		a, err := c.expr(e.A, sc)
		if err != nil {
			return 0, err
		}
		if len(e.L) == 0 || a == tAvg {
			return 0, fmt.Errorf("bad IN list")
		}
		for _, l := range e.L {
			b, err := c.expr(l, sc)
			if err != nil {
				return 0, err
			}
			if _, ok := unify(a, b); !ok || b == tAvg {
				return 0, fmt.Errorf("IN list of incompatible types")
			}
			c.mix(a, b)
		}
		return tInt, nil
	case "exists":
		if b := peel(e.Q); b != nil && b.K == "group" && len(b.Keys) > 0 {
			return 0, fmt.Errorf("GROUP BY block under EXISTS")
		}
		_, err := c.query(e.Q, sc)
		return tInt, err
	case "inq":
		a, err := c.expr(e.A, sc)
		if err != nil {
			return 0, err
		}
		ts, err := c.query(e.Q, sc)
		if err != nil {
			return 0, err
		}
		if len(ts) != 1 {
			return 0, fmt.Errorf("IN subquery of width %d", len(ts))
		}
		if _, ok := unify(a, ts[0]); !ok || a == tAvg || ts[0] == tAvg {
			return 0, fmt.Errorf("IN subquery of incompatible type")
		}
		c.mix(a, ts[0])
		if a == tInt && ts[0] == tDec {
			c.intInDecSubquery = true
		}
		return tInt, nil
	case "scalar":
		ts, err := c.query(e.Q, sc)
		if err != nil {
			return 0, err
		}
		if len(ts) != 1 {
			return 0, fmt.Errorf("scalar subquery of width %d", len(ts))
		}
		return ts[0], nil
	}
	return 0, fmt.Errorf("unknown expr %q", e.Op)
}

func (c *checker) cond(e *Expr, sc []cscope) error {
	t, err := c.expr(e, sc)
	if err != nil {
		return err
	}
	if t == tStr || t == tAvg {
		return fmt.Errorf("condition is not boolean")
	}
	return nil
}

// mentionsAgg: does e (outside subqueries) reference an aggregate position of the grouped row?
func mentionsAgg(e *Expr, nkeys int) bool {
	if e == nil {
		return false
	}
	if e.Op == "col" {
		return e.D == 0 && e.I >= nkeys
	}
	if mentionsAgg(e.A, nkeys) || mentionsAgg(e.B, nkeys) {
		return true
	}
	for _, l := range e.L {
		if mentionsAgg(l, nkeys) {
			return true
		}
	}
	return false
}

func (c *checker) query(q *Query, outer []cscope) ([]ctype, error) {
	if q == nil {
		return nil, fmt.Errorf("nil query")
	}
	switch q.K {
	case "table":
		if q.T >= len(c.tables) {
			return nil, fmt.Errorf("no such table")
		}
		var ts []ctype
		for _, s := range c.tables[q.T].Types {
			ts = append(ts, tyOf(s))
		}
		return ts, nil
	case "join":
		l, err := c.query(q.L, outer)
		if err != nil {
			return nil, err
		}
		r, err := c.query(q.R, outer)
		if err != nil {
			return nil, err
		}
		all := append(append([]ctype{}, l...), r...)
		if (q.JK == "left" && q.R.K == "join") || (q.JK == "right" && q.L.K == "join") {
			// engine limitation: predicates over a null-padded side that is itself a join are pushed below the outer join
			return nil, fmt.Errorf("outer join whose null-padded side is a join")
		}
		if (q.JK == "inner" || q.JK == "cross") && (hasOuterJoin(q.L) || hasOuterJoin(q.R)) {
			return nil, fmt.Errorf("outer join nested under an inner join")
		}
		if q.JK != "cross" {
			if err := c.cond(q.On, append([]cscope{{types: all}}, outer...)); err != nil {
				return nil, err
			}
			if outerRef(q.On, 1) {
				return nil, fmt.Errorf("join condition references an enclosing query")
			}
			if hasOr(q.On) && c.anyIndexed() {
				// engine limitation (C03's subject): OR in a join condition over indexed tables is merged with WHERE ranges wrongly
				return nil, fmt.Errorf("OR in a join condition over indexed tables")
			}
			if hasSubquery(q.On) {
				// engine limitation: subqueries in ON that reference a join sibling fail with "unable to find field"
				return nil, fmt.Errorf("subquery in a join condition")
			}
		}
		return all, nil
	case "select", "group":
		src, err := c.query(q.Src, outer)
		if err != nil {
			return nil, err
		}
		if staticallyEmptyLeaf(q.Src) {
			// engine limitation: derived tables whose WHERE folds to not-TRUE are replaced by an empty table and
			// neighbouring subqueries / outer joins are then mis-planned
			return nil, fmt.Errorf("statically empty derived table")
		}
		sc := append([]cscope{{types: src}}, outer...)
		if err := c.cond(q.Wh, sc); err != nil {
			return nil, err
		}
		psc := sc
		if q.K == "group" {
			var row []ctype
			for _, k := range q.Keys {
				if k.Op == "const" || k.Op == "scalar" || k.Op == "exists" || k.Op == "inq" {
					return nil, fmt.Errorf("constant or subquery GROUP BY key")
				}
				t, err := c.expr(k, sc)
				if err != nil {
					return nil, err
				}
				if t == tAvg || t == tNull {
					return nil, fmt.Errorf("bad GROUP BY key type")
				}
				row = append(row, t)
			}
			if len(q.Aggs) == 0 {
				return nil, fmt.Errorf("no aggregates")
			}
			for _, a := range q.Aggs {
				t, err := c.expr(a.E, sc)
				if err != nil {
					return nil, err
				}
				if t == tAvg {
					return nil, fmt.Errorf("aggregate over AVG")
				}
				if len(outer) > 0 && escapesE(a.E, 1) && !innerRef(a.E) {
					// SQL: an aggregate whose argument has only outer references belongs to the OUTER block
					// (and is illegal in its WHERE); the definition would evaluate it in the inner block
					return nil, fmt.Errorf("aggregate over outer references only")
				}
				switch a.F {
				case "count*", "count", "countd":
					row = append(row, tInt)
				case "sum":
					if !isNum(t) {
						return nil, fmt.Errorf("SUM of non-number")
					}
					if t == tNull {
						t = tInt
					}
					row = append(row, t)
				case "avg":
					if !isNum(t) {
						return nil, fmt.Errorf("AVG of non-number")
					}
					row = append(row, tAvg)
				case "min", "max":
					row = append(row, t)
				default:
					return nil, fmt.Errorf("unknown aggregate")
				}
			}
			psc = append([]cscope{{types: row, nkeys: len(q.Keys), group: true}}, outer...)
			if err := c.cond(q.Hav, psc); err != nil {
				return nil, err
			}
			if hasSubquery(q.Hav) {
				return nil, fmt.Errorf("subquery in HAVING")
			}
			if outerRef(q.Hav, 1) {
				return nil, fmt.Errorf("outer reference in HAVING")
			}
			if len(q.Keys) == 0 {
				m := mentionsAgg(q.Hav, 0)
				for _, p := range q.Proj {
					m = m || mentionsAgg(p, 0)
				}
				if !m {
					return nil, fmt.Errorf("global aggregate without an aggregate in its SELECT list")
				}
			}
		}
		if len(q.Proj) == 0 {
			return nil, fmt.Errorf("empty projection")
		}
		var out []ctype
		for _, p := range q.Proj {
			t, err := c.expr(p, psc)
			if err != nil {
				return nil, err
			}
			if q.K == "group" && outerRef(p, 1) {
				return nil, fmt.Errorf("outer reference in grouped SELECT list")
			}
			if q.K == "group" && hasSubquery(p) {
				// engine limitation (only_full_group_by validation rejects subqueries in a grouped SELECT list)
				return nil, fmt.Errorf("subquery in grouped SELECT list")
			}
			out = append(out, t)
		}
		return out, nil
	case "setop":
		l, err := c.query(q.L, outer)
		if err != nil {
			return nil, err
		}
		r, err := c.query(q.R, outer)
		if err != nil {
			return nil, err
		}
		if len(l) != len(r) {
			return nil, fmt.Errorf("set operation over different widths")
		}
		if len(outer) > 0 {
			// engine limitation: set operations (also as derived tables) inside subquery expressions mis-index rows
			// ("unable to find field", slice-bounds panics, wrong column)
			return nil, fmt.Errorf("set operation inside a subquery expression")
		}
		if escapesQ(q, 0) {
			return nil, fmt.Errorf("correlated set operation")
		}
		out := make([]ctype, len(l))
		for i := range l {
			t, ok := unify(l[i], r[i])
			if !ok || l[i] != r[i] || l[i] == tNull {
				// NULL-literal columns in set operations: the engine's type unification of such branches is the subject
				// of several findings (text results, ORDER BY ignored, conversion errors); kept out of the random stream
				// INT with DECIMAL columns: value identity across types is C07's subject
				return nil, fmt.Errorf("set operation over different column types")
			}
			out[i] = t
		}
		return out, nil
	case "order":
		ts, err := c.query(q.Q, outer)
		if err != nil {
			return nil, err
		}
		seen := map[int]bool{}
		for _, k := range q.OKeys {
			if k.I >= len(ts) {
				return nil, fmt.Errorf("ORDER BY position out of range")
			}
			seen[k.I] = true
		}
		if q.ByName && q.Q.K == "group" {
			// engine limitation: its only_full_group_by validation rejects ORDER BY <select alias> on grouped queries
			return nil, fmt.Errorf("ORDER BY alias over a grouped block")
		}
		if q.HasLim && len(seen) < len(ts) {
			return nil, fmt.Errorf("LIMIT under a partial order")
		}
		return ts, nil
	}
	return nil, fmt.Errorf("unknown query kind %q", q.K)
}

// outerRef: does e (outside its subqueries) reference a scope at depth >= d?
func outerRef(e *Expr, d int) bool {
	if e == nil {
		return false
	}
	if e.Op == "col" {
		return e.D >= d
	}
	if outerRef(e.A, d) || outerRef(e.B, d) {
		return true
	}
	for _, l := range e.L {
		if outerRef(l, d) {
			return true
		}
	}
	return false
}

// escapesQ / escapesE: does the query / expression reference a scope outside itself?  d = number of scopes
// opened between the root and the current position.
func escapesE(e *Expr, d int) bool {
	if e == nil {
		return false
	}
	if e.Op == "col" {
		return e.D >= d
	}
	if escapesE(e.A, d) || escapesE(e.B, d) {
		return true
	}
	for _, l := range e.L {
		if escapesE(l, d) {
			return true
		}
	}
	return e.Q != nil && escapesQ(e.Q, d)
}

func escapesQ(q *Query, d int) bool {
	if q == nil {
		return false
	}
	switch q.K {
	case "join":
		return escapesQ(q.L, d) || escapesQ(q.R, d) || escapesE(q.On, d+1)
	case "select", "group":
		if escapesQ(q.Src, d) || escapesE(q.Wh, d+1) || escapesE(q.Hav, d+1) {
			return true
		}
		for _, p := range q.Proj {
			if escapesE(p, d+1) {
				return true
			}
		}
		for _, k := range q.Keys {
			if escapesE(k, d+1) {
				return true
			}
		}
		for _, a := range q.Aggs {
			if escapesE(a.E, d+1) {
				return true
			}
		}
		return false
	case "setop":
		return escapesQ(q.L, d) || escapesQ(q.R, d)
	case "order":
		return escapesQ(q.Q, d)
	}
	return false
}

func hasOr(e *Expr) bool {
	if e == nil {
		return false
	}
	return e.Op == "or" || hasOr(e.A) || hasOr(e.B)
}

func (c *checker) anyIndexed() bool {
	for _, t := range c.tables {
		if t.PK >= 0 || len(t.Idx) > 0 {
			return true
		}
	}
	return false
}

func staticallyEmptyLeaf(src *Query) bool {
	if src == nil {
		return false
	}
	switch src.K {
	case "table":
		return false
	case "join":
		return staticallyEmptyLeaf(src.L) || staticallyEmptyLeaf(src.R)
	}
	b := peel(src)
	return b != nil && (b.K == "select" || b.K == "group") && constFalseish(b.Wh)
}

func hasSubquery(e *Expr) bool {
	if e == nil {
		return false
	}
	if e.Q != nil || hasSubquery(e.A) || hasSubquery(e.B) {
		return true
	}
	for _, l := range e.L {
		if hasSubquery(l) {
			return true
		}
	}
	return false
}

func checkCase(cs *Case) error {
	c := &checker{tables: cs.Tables}
	ts, err := c.query(cs.Q, nil)
	if err != nil {
		return err
	}
	if cs.Ordered && (cs.Q.K != "order" || len(cs.Q.OKeys) < len(ts)) {
		return fmt.Errorf("ordered flag on an unordered query")
	}
	return nil
}
