// Driver for C02 (query results match the SQL definition): generates small databases and queries of the
// property's grammar, prints each query as SQL text for the real engine and as a Coq term for the
// definition in coq/Rel/C02Logical.v, and evaluates the property predicate on the implementation with an
// independent reference interpreter (ref.go).  A disagreement is shrunk and reported with a signature
// derived from the shape of the shrunk query.
package main

import (
	"fmt"
	"math"
	"math/big"
	"os"
	"regexp"
	"sort"
	"strings"

	"github.com/cockroachdb/apd/v3"

	"github.com/dolthub/go-mysql-server/sql"

	"verifharness/lib"
	"verifharness/lib/eng"
)

// EV: an engine value in canonical form. Kind 0 NULL, 1 exact number M*10^-S, 2 string, 3 float64, 9 unknown
type EV struct {
	Kind int
	M    *big.Int
	S    int
	Str  string
	F    float64
}

func evOf(v interface{}) EV {
	switch x := v.(type) {
	case nil:
		return EV{}
	case bool:
		if x {
			return EV{Kind: 1, M: big.NewInt(1)}
		}
		return EV{Kind: 1, M: big.NewInt(0)}
	case int:
		return EV{Kind: 1, M: big.NewInt(int64(x))}
	case int8:
		return EV{Kind: 1, M: big.NewInt(int64(x))}
	case int16:
		return EV{Kind: 1, M: big.NewInt(int64(x))}
	case int32:
		return EV{Kind: 1, M: big.NewInt(int64(x))}
	case int64:
		return EV{Kind: 1, M: big.NewInt(x)}
	case uint8:
		return EV{Kind: 1, M: big.NewInt(int64(x))}
	case uint16:
		return EV{Kind: 1, M: big.NewInt(int64(x))}
	case uint32:
		return EV{Kind: 1, M: big.NewInt(int64(x))}
	case uint64:
		return EV{Kind: 1, M: new(big.Int).SetUint64(x)}
	case uint:
		return EV{Kind: 1, M: new(big.Int).SetUint64(uint64(x))}
	case float32:
		return evFloat(float64(x))
	case float64:
		return evFloat(x)
	case string:
		return EV{Kind: 2, Str: x}
	case []byte:
		return EV{Kind: 2, Str: string(x)}
	case *apd.Decimal:
		if x == nil {
			return EV{}
		}
		return evDec(x)
	case apd.Decimal:
		return evDec(&x)
	}
	return EV{Kind: 9, Str: fmt.Sprintf("%T:%v", v, v)}
}

func evFloat(f float64) EV {
	if math.IsNaN(f) || math.IsInf(f, 0) {
		return EV{Kind: 9, Str: fmt.Sprint(f)}
	}
	return EV{Kind: 3, F: f}
}

func evDec(d *apd.Decimal) EV {
	if d.Form != apd.Finite {
		return EV{Kind: 9, Str: d.String()}
	}
	m := new(big.Int).Set(d.Coeff.MathBigInt())
	if d.Negative {
		m.Neg(m)
	}
	if d.Exponent > 0 {
		m.Mul(m, p10(int(d.Exponent)))
		return EV{Kind: 1, M: m}
	}
	return EV{Kind: 1, M: m, S: int(-d.Exponent)}
}

func (e EV) String() string {
	switch e.Kind {
	case 0:
		return "NULL"
	case 1:
		if e.S == 0 {
			return e.M.String()
		}
		return RV{Kind: 1, M: e.M, S: e.S}.String()
	case 2:
		return fmt.Sprintf("%q", e.Str)
	case 3:
		return fmt.Sprintf("float:%v", e.F)
	}
	return "?" + e.Str
}

func (v RV) String() string {
	switch v.Kind {
	case 0:
		return "NULL"
	case 2:
		return fmt.Sprintf("%q", v.Str)
	}
	if v.S == 0 {
		return v.M.String()
	}
	neg := v.M.Sign() < 0
	d := new(big.Int).Abs(v.M).String()
	for len(d) <= v.S {
		d = "0" + d
	}
	t := d[:len(d)-v.S] + "." + d[len(d)-v.S:]
	if neg {
		t = "-" + t
	}
	return t
}

// floatRound: f rounded to s decimals (exactly, halves away from zero), as an integer mantissa
func floatRound(f float64, s int) *big.Int {
	r := new(big.Rat).SetFloat64(f)
	r.Mul(r, new(big.Rat).SetInt(p10(s)))
	neg := r.Sign() < 0
	r.Abs(r)
	n := new(big.Int).Mul(r.Num(), big.NewInt(2))
	n.Add(n, r.Denom())
	n.Quo(n, new(big.Int).Mul(r.Denom(), big.NewInt(2)))
	if neg {
		n.Neg(n)
	}
	return n
}

var lenientText bool // accept a string that spells the expected number (classification of a known finding only)

func valMatches(v RV, e EV) bool {
	if lenientText && v.Kind == 1 && e.Kind == 2 {
		if r, ok := new(big.Rat).SetString(e.Str); ok {
			x := new(big.Rat).SetFrac(v.M, p10(v.S))
			return x.Cmp(r) == 0
		}
	}
	switch {
	case v.Kind == 0:
		return e.Kind == 0
	case v.Kind == 2:
		return e.Kind == 2 && e.Str == v.Str
	case e.Kind == 1:
		return v.key() == RV{Kind: 1, M: e.M, S: e.S}.key()
	case e.Kind == 3:
		return floatRound(e.F, v.S).Cmp(v.M) == 0
	}
	return false
}

func rowMatches(r []RV, e []EV) bool {
	if len(r) != len(e) {
		return false
	}
	for i := range r {
		if !valMatches(r[i], e[i]) {
			return false
		}
	}
	return true
}

func rowsMatch(ordered bool, ref [][]RV, got [][]EV) bool {
	if len(ref) != len(got) {
		return false
	}
	if ordered {
		for i := range ref {
			if !rowMatches(ref[i], got[i]) {
				return false
			}
		}
		return true
	}
	used := make([]bool, len(got))
outer:
	for _, r := range ref {
		for j, e := range got {
			if !used[j] && rowMatches(r, e) {
				used[j] = true
				continue outer
			}
		}
		return false
	}
	return true
}

// ---------- Coq printing of observations ----------

func coqOval(e EV) string {
	switch e.Kind {
	case 0:
		return "ONull"
	case 1:
		if e.S == 0 {
			return "(OInt " + lib.CoqZStr(e.M.String()) + ")"
		}
		return "(ODec " + lib.CoqZStr(e.M.String()) + " " + coqNat(e.S) + ")"
	case 2:
		return "(OStr " + coqStrN(e.Str) + ")"
	case 3:
		if e.F == 0 {
			return "(OFloat 0%Z 0%Z)"
		}
		fr, ex := math.Frexp(e.F)
		m := int64(fr * (1 << 53))
		return "(OFloat " + lib.CoqZ(m) + " " + lib.CoqZ(int64(ex-53)) + ")"
	}
	return "(OStr [255%N;255%N;255%N])"
}

func coqObsRows(rows [][]EV) string {
	return "(ORows " + lib.CoqListOf(rows, func(r []EV) string { return lib.CoqListOf(r, coqOval) }) + ")"
}

func evOfRV(v RV) EV {
	switch v.Kind {
	case 0:
		return EV{}
	case 2:
		return EV{Kind: 2, Str: v.Str}
	}
	return EV{Kind: 1, M: v.M, S: v.S}
}

func coqRefRows(rows [][]RV) string {
	es := make([][]EV, len(rows))
	for i, r := range rows {
		for _, v := range r {
			es[i] = append(es[i], evOfRV(v))
		}
	}
	return coqObsRows(es)
}

// ---------- running one case ----------

type outcome struct {
	sql     string
	refRows [][]RV
	refErr  error
	rows    [][]EV
	err     error
	panicS  string
	ekind   string // "", card, unsupported, other, panic
	negZero bool
	exceptEmptyStr bool
	nullInEmpty    bool
}

func engineErrKind(err error, panicS string) string {
	if panicS != "" {
		return "panic"
	}
	if err == nil {
		return ""
	}
	msg := err.Error()
	switch {
	case sql.ErrExpectedSingleRow.Is(err), strings.Contains(msg, "more than 1 row"):
		return "card"
	case strings.Contains(msg, "syntax error"), strings.Contains(msg, "unsupported"), strings.Contains(msg, "not supported"), strings.Contains(msg, "not yet supported"):
		return "unsupported"
	}
	return "other"
}

var numericText = regexp.MustCompile(`^-?[0-9]+(\\.[0-9]+)?$`)

func evaluate(cs *Case) *outcome {
	o := &outcome{sql: caseSQL(cs)}
	in := &interp{tables: cs.Tables}
	o.refRows, o.refErr = in.query(cs.Q, nil)
	o.negZero = in.negZero
	o.exceptEmptyStr = in.exceptEmptyStr
	o.nullInEmpty = in.nullInEmpty
	e := eng.New("db")
	s := e.Session()
	s.MustExec(setupSQL(cs)...)
	r := s.Query(o.sql)
	o.err, o.panicS = r.Err, r.Panic
	o.ekind = engineErrKind(r.Err, r.Panic)
	setop := hasSetOp(cs)
	if r.Err == nil {
		for _, row := range r.Rows {
			er := make([]EV, len(row))
			for i, v := range row {
				er[i] = evOf(v)
				// a set operation over numeric columns of different engine types (DOUBLE / BIGINT / NULL arithmetic) is
				// typed as text by the engine; the values are compared as numbers (no generated string looks like a number)
				if setop && er[i].Kind == 2 && numericText.MatchString(er[i].Str) {
					if r, ok := new(big.Rat).SetString(er[i].Str); ok {
						s := 0
						if j := strings.IndexByte(er[i].Str, '.'); j >= 0 {
							s = len(er[i].Str) - j - 1
						}
						n := new(big.Rat).Mul(r, new(big.Rat).SetInt(p10(s)))
						er[i] = EV{Kind: 1, M: new(big.Int).Set(n.Num()), S: s}
					}
				}
			}
			o.rows = append(o.rows, er)
		}
	}
	return o
}

// verdict: "" agree; otherwise the kind of disagreement between engine and reference
func (o *outcome) verdict(ordered bool) string {
	switch {
	case o.refErr != nil && o.refErr != errCard:
		return "generator-bug"
	case o.ekind == "panic":
		return "panic"
	case o.ekind == "unsupported":
		return "unsupported"
	case o.refErr == errCard:
		if o.ekind == "other" {
			return "engine-error[" + errKey(o.err) + "]"
		}
		return "" // the error, or a lazily skipped evaluation
	case o.ekind == "card":
		return "spurious-cardinality-error"
	case o.ekind == "other":
		return "engine-error[" + errKey(o.err) + "]"
	case !rowsMatch(ordered, o.refRows, o.rows):
		return "wrong-rows"
	}
	return ""
}

// errKey: the engine's error message reduced to its words (no identifiers, numbers or quoted text)
func errKey(err error) string {
	msg := err.Error()
	if i := strings.IndexAny(msg, ":\n'\""); i > 0 {
		msg = msg[:i]
	}
	var sb strings.Builder
	for _, w := range strings.Fields(msg) {
		if strings.IndexFunc(w, func(r rune) bool { return r < 'a' || r > 'z' }) >= 0 && strings.ToLower(w) != w {
			continue
		}
		if strings.ContainsAny(w, "0123456789#") {
			continue
		}
		if sb.Len() > 0 {
			sb.WriteByte('-')
		}
		sb.WriteString(strings.ToLower(w))
		if sb.Len() > 40 {
			break
		}
	}
	return sb.String()
}

func fmtRef(rows [][]RV) []string {
	out := make([]string, len(rows))
	for i, r := range rows {
		ps := make([]string, len(r))
		for j, v := range r {
			ps[j] = v.String()
		}
		out[i] = strings.Join(ps, ",")
	}
	return out
}

func fmtEng(rows [][]EV) []string {
	out := make([]string, len(rows))
	for i, r := range rows {
		ps := make([]string, len(r))
		for j, v := range r {
			ps[j] = v.String()
		}
		out[i] = strings.Join(ps, ",")
	}
	return out
}

func run(c *lib.Ctx, cs *Case) {
	cs.SQL, cs.Setup, cs.Engine, cs.Ref = "", nil, nil, nil
	o := evaluate(cs)
	cs.SQL = o.sql
	cs.Setup = setupSQL(cs)
	v := o.verdict(cs.Ordered)
	for _, f := range features(cs) {
		c.Count("has:" + f)
	}
	c.Count(fmt.Sprintf("result_rows_%s", bucket(len(o.refRows))))
	key := ""
	if len(o.refRows) > 0 {
		key = o.sql + "|" + strings.Join(cs.Setup, ";")
	}
	switch v {
	case "generator-bug":
		c.Count("generator_bug:" + o.refErr.Error())
		fmt.Fprintln(os.Stderr, "generator bug:", o.refErr, o.sql)
		c.CaseNoModel(cs, "")
		return
	case "unsupported":
		c.Count("engine_unsupported")
		if os.Getenv("C02_DEBUG") != "" {
			fmt.Fprintln(os.Stderr, "unsupported:", o.err, "\n  ", o.sql)
		}
		c.CaseNoModel(cs, "")
		return
	}
	if o.refErr == errCard {
		c.Count("definition_cardinality_error")
		if o.ekind == "" {
			c.Count("cardinality_error_not_reached_by_engine")
			c.CaseNoModel(cs, "")
			return
		}
	}
	obs := "OErrOther"
	switch o.ekind {
	case "":
		obs = coqObsRows(o.rows)
		cs.Engine = fmtEng(o.rows)
	case "card":
		obs = "OErrCard"
		cs.Engine = []string{"error: " + o.err.Error()}
	default:
		cs.Engine = []string{"error: " + fmt.Sprint(o.err)}
	}
	c.PredChecked()
	if v == "" {
		c.Case(lib.CoqTuple(coqDB(cs.Tables), coqQuery(cs.Q), lib.CoqBool(cs.Ordered), obs, "None"), cs, key)
		return
	}
	// predicate failure: shrink, classify, report; the Coq side confirms that the definition sides with
	// the reference result and not with the engine
	exp := "OErrCard"
	if o.refErr == nil {
		exp = coqRefRows(o.refRows)
		cs.Ref = fmtRef(o.refRows)
	} else {
		cs.Ref = []string{"error: scalar subquery returns more than one row"}
	}
	id := c.Case(lib.CoqTuple(coqDB(cs.Tables), coqQuery(cs.Q), lib.CoqBool(cs.Ordered), obs, "(Some "+exp+")"), cs, key)
	small := shrink(cs, v)
	so := evaluate(small)
	small.SQL, small.Setup = so.sql, setupSQL(small)
	small.Engine, small.Ref = fmtEng(so.rows), fmtRef(so.refRows)
	if so.err != nil {
		small.Engine = []string{"error: " + so.err.Error()}
	}
	cls := classify(small, so)
	sig := v + ":" + cls
	if v == "spurious-cardinality-error" && !strings.Contains(cls, "+") && cls != "" && isRootCause(cls) {
		// the same root cause surfacing as an error because the mis-evaluated filter lets a row through
		sig = "wrong-rows:" + cls
	}
	what := fmt.Sprintf("%s: engine returns %v, the SQL definition gives %v for %s  after %s", v, small.Engine, small.Ref, small.SQL, strings.Join(small.Setup, "; "))
	c.PredFail(id, sig, what, map[string]interface{}{"shrunk": small, "original": cs})
}

// outerOnlyConjunct: some conjunct of the filter references outer columns only
func outerOnlyConjunct(e *Expr) bool {
	if e == nil {
		return false
	}
	if e.Op == "and" {
		return outerOnlyConjunct(e.A) || outerOnlyConjunct(e.B)
	}
	return e.Q == nil && escapesE(e, 1) && !innerRef(e)
}

func isRootCause(name string) bool {
	for _, t := range triggerOrder {
		if t == name {
			return true
		}
	}
	return name == "decimal-negative-zero" || name == "except-drops-empty-string" || name == "null-in-empty-correlated-subquery"
}

func hasSetOp(cs *Case) bool {
	for _, p := range collect(cs).qs {
		if (*p).K == "setop" {
			return true
		}
	}
	return false
}

func bucket(n int) string {
	switch {
	case n == 0:
		return "0"
	case n <= 2:
		return "1-2"
	case n <= 6:
		return "3-6"
	}
	return "7+"
}

func main() {
	lib.Main("C02", func(c *lib.Ctx) {
		c.Header = "From Coq Require Import List ZArith NArith.\nImport ListNotations.\nFrom GMS Require Import Rel.C02Logical Corr.C02.\nOpen Scope N_scope."
		c.CaseType = "C02.case"
		c.MismatchFn = "C02.mismatches"
		c.SetRule("1-4 tables (1-3 INT/DECIMAL(10,2)/VARCHAR columns, 0-6 rows, 25% NULLs, duplicate rows, optional primary key / " +
			"secondary indexes) and a typed random query: SELECT blocks over 1-3 joined tables or derived tables " +
			"(inner/left/right/cross), 3VL filters, IN / NOT IN lists, correlated and uncorrelated EXISTS / IN / NOT IN / scalar " +
			"subqueries (nesting <= 2), GROUP BY + COUNT/SUM/MIN/MAX/AVG + HAVING, DISTINCT, UNION/INTERSECT/EXCEPT [ALL], ORDER BY " +
			"(positions) with LIMIT/OFFSET when the order is total. Non-trivial = the definition returns at least one row; distinct = " +
			"distinct (SQL text, data).")
		if c.ReplayFile != "" {
			var rec struct {
				Shrunk   *Case `json:"shrunk"`
				Original *Case `json:"original"`
			}
			lib.LoadReplay(c.ReplayFile, &rec)
			if rec.Shrunk != nil {
				run(c, rec.Shrunk)
				return
			}
			var cs Case
			lib.LoadReplay(c.ReplayFile, &cs)
			run(c, &cs)
			return
		}
		n := 0
		for _, cs := range corpus() {
			run(c, cs)
			n++
		}
		for ; n < c.N; n++ {
			cs := genCase(c.R.Fork())
			for k := 0; strings.HasPrefix(cs.SQL, "ill-formed") && k < 50; k++ {
				c.Count("generator_rejected:" + cs.SQL)
				cs = genCase(c.R.Fork())
			}
			run(c, cs)
		}
	})
}

// ---------- features / classification ----------

func features(cs *Case) []string {
	set := map[string]bool{}
	var we func(e *Expr, neg bool)
	var wq func(q *Query)
	we = func(e *Expr, neg bool) {
		if e == nil {
			return
		}
		switch e.Op {
		case "col":
			if e.D > 0 {
				set["correlated"] = true
			}
		case "const":
			if e.V.K == "null" {
				set["null-literal"] = true
			}
		case "arith":
			set["arith"] = true
		case "and", "or", "isnull", "cmp":
			set[e.Op] = true
		case "not":
			if e.A.Op != "in" && e.A.Op != "inq" && e.A.Op != "exists" {
				set["not"] = true
			}
			if (e.A.Op == "inq" || e.A.Op == "exists") && e.A.Q != nil {
				if b := peel(e.A.Q); b != nil && (b.K == "select" || b.K == "group") && outerOnlyConjunct(b.Wh) {
					set["anti-with-outer-only-conjunct"] = true
				}
			}
			we(e.A, true)
			return
		case "in", "inq", "exists":
			n := e.Op
			if neg {
				n = "not-" + n
			}
			set[n] = true
		case "scalar":
			set["scalar-subquery"] = true
		}
		we(e.A, false)
		we(e.B, false)
		for _, l := range e.L {
			we(l, false)
		}
		if e.Q != nil {
			wq(e.Q)
		}
	}
	wq = func(q *Query) {
		if q == nil {
			return
		}
		switch q.K {
		case "join":
			set["join-"+q.JK] = true
			if q.L.K != "table" && q.L.K != "join" || q.R.K != "table" && q.R.K != "join" {
				set["derived-table"] = true
			}
		case "select", "group":
			if q.Src.K != "table" && q.Src.K != "join" {
				set["derived-table"] = true
			}
			if !isTrueConst(q.Wh) {
				set["where"] = true
			}
			if q.Dist {
				set["distinct"] = true
			}
			if q.K == "group" {
				if len(q.Keys) > 0 {
					set["group-by"] = true
				} else {
					set["global-agg"] = true
				}
				for _, a := range q.Aggs {
					set["agg-"+a.F] = true
				}
				if !isTrueConst(q.Hav) {
					set["having"] = true
				}
			}
		case "setop":
			n := q.SOp
			if q.All {
				n += "-all"
			}
			set[n] = true
			if q.L.K == "setop" {
				set["set-op-chain"] = true
				if q.L.SOp == "except" && !q.L.All && !q.All {
					set["set-op-chain-except-under-distinct"] = true
				}
			}
		case "order":
			if len(q.OKeys) > 0 {
				set["order-by"] = true
			}
			if q.HasLim {
				set["limit"] = true
			}
		}
		wq(q.L)
		wq(q.R)
		we(q.On, false)
		wq(q.Src)
		we(q.Wh, false)
		for _, p := range q.Proj {
			we(p, false)
		}
		for _, k := range q.Keys {
			we(k, false)
		}
		for _, a := range q.Aggs {
			we(a.E, false)
		}
		we(q.Hav, false)
		wq(q.Q)
	}
	wq(cs.Q)
	out := make([]string, 0, len(set))
	for k := range set {
		out = append(out, k)
	}
	sort.Strings(out)
	return out
}

// classify: the signature of a (shrunk) failing case = the constructs left in it
func classify(cs *Case, o *outcome) string {
	// a known-finding shape counts only when it can explain this kind of failure
	allowed := func(t string) bool {
		kind := o.verdict(cs.Ordered)
		switch {
		case strings.HasPrefix(kind, "engine-error[table-not-found"):
			return t == "having-references-group-by-expression" || t == "having-aggregate-over-join"
		case strings.HasPrefix(kind, "engine-error[failed-to-replan-join"):
			return t == "anti-join-over-empty-join" || t == "semi-and-anti-join-in-one-filter"
		case strings.HasPrefix(kind, "engine-error[of-range-value"):
			return t == "decimal-literal-compared-with-product"
		case strings.HasPrefix(kind, "engine-error[unable-to-sort"), strings.HasPrefix(kind, "engine-error[incorrect-value"):
			return t == "distinct-order-by-position"
		case kind == "wrong-rows", kind == "spurious-cardinality-error":
			return !strings.HasPrefix(t, "having-") && !strings.Contains(t, "anti-join")
		case kind == "panic", strings.HasPrefix(kind, "engine-error[unable-to-find-field"):
			return t == "null-literal-set-operation-column-in-scalar-subquery" ||
				(t == "in-subquery-over-outer-join-with-false-condition" && kind != "panic")
		}
		return false
	}
	for _, t := range triggers(cs) {
		if allowed(t) {
			return t
		}
	}
	if o.negZero {
		return "decimal-negative-zero"
	}
	if o.nullInEmpty && o.verdict(cs.Ordered) == "wrong-rows" {
		return "null-in-empty-correlated-subquery"
	}
	if o.exceptEmptyStr && o.verdict(cs.Ordered) == "wrong-rows" {
		return "except-drops-empty-string"
	}
	f := features(cs)
	for _, t := range cs.Tables {
		if t.PK >= 0 || len(t.Idx) > 0 {
			f = append(f, "indexed-table")
			break
		}
	}
	return strings.Join(f, "+")
}
