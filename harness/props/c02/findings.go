package main

import "encoding/json"

func caseFromJSON(s string) *Case {
	var c Case
	if err := json.Unmarshal([]byte(s), &c); err != nil {
		panic(err)
	}
	return &c
}

// DECIMAL literal = DECIMAL product in a join condition: "Out of range value for column of Decimal type"
const decLiteralProduct = `{"tables":[{"types":["int"],"pk":-1,"rows":[[{"k":"int","i":-1}],[{"k":"int","i":-1}],[{"k":"int"}],[{"k":"int","i":1}],[{"k":"int","i":5}]]}],"query":{"k":"select","src":{"k":"table"},"wh":{"op":"const","v":{"k":"int","i":1}},"proj":[{"op":"scalar","q":{"k":"group","src":{"k":"join","jk":"left","l":{"k":"table"},"r":{"k":"table"},"on":{"op":"cmp","o":"=","a":{"op":"const","v":{"k":"dec","i":200,"s":2}},"b":{"op":"arith","o":"*","a":{"op":"const","v":{"k":"dec","i":200,"s":2}},"b":{"op":"col","i":1}}}},"wh":{"op":"const","v":{"k":"int","i":1}},"proj":[{"op":"col"}],"aggs":[{"f":"max","e":{"op":"const","v":{"k":"dec","i":150,"s":2}}}],"hav":{"op":"const","v":{"k":"int","i":1}}}}]},"ordered":false}`

// IN over a subquery whose join tree contains an outer join with a statically false ON: "unable to find field with index"
const inOverFalseOuterJoin = `{"tables":[{"types":["int","str","int"],"pk":-1,"rows":[[{"k":"int","i":1},{"k":"null"},{"k":"int"}],[{"k":"int","i":1},{"k":"null"},{"k":"int"}]]},{"types":["int","str","dec"],"idx":[1],"pk":-1,"rows":[[{"k":"int","i":5},{"k":"null"},{"k":"dec","i":150,"s":2}]]}],"query":{"k":"group","src":{"k":"join","jk":"cross","l":{"k":"table","t":1},"r":{"k":"table"}},"wh":{"op":"inq","a":{"op":"const","v":{"k":"int","i":1}},"q":{"k":"group","src":{"k":"table","t":1},"wh":{"op":"inq","a":{"op":"const","v":{"k":"int","i":1}},"q":{"k":"select","src":{"k":"join","jk":"inner","l":{"k":"table"},"r":{"k":"join","jk":"right","l":{"k":"table"},"r":{"k":"table","t":1},"on":{"op":"const","v":{"k":"int"}}},"on":{"op":"or","a":{"op":"cmp","o":"<","a":{"op":"const","v":{"k":"null"}},"b":{"op":"col","i":7}},"b":{"op":"col","i":3}}},"wh":{"op":"const","v":{"k":"int","i":1}},"proj":[{"op":"const","v":{"k":"int","i":1}}]}},"proj":[{"op":"const","v":{"k":"int","i":1}}],"keys":[{"op":"col","i":1}],"aggs":[{"f":"max","e":{"op":"const","v":{"k":"null"}}}],"hav":{"op":"const","v":{"k":"int","i":1}}}},"proj":[{"op":"const","v":{"k":"int","i":1}}],"keys":[{"op":"col","i":3}],"aggs":[{"f":"avg","e":{"op":"const","v":{"k":"int","i":1}}},{"f":"min","e":{"op":"const","v":{"k":"int","i":1}}}],"hav":{"op":"const","v":{"k":"int","i":1}}},"ordered":false}`

// findingCorpus: one minimal failing input per known finding (findings/C02.json), re-run first on every check.
func findingCorpus() []*Case {
	iv := func(vs ...interface{}) [][]Val {
		var out [][]Val
		for _, v := range vs {
			out = append(out, ints(v))
		}
		return out
	}
	one := Table{Types: []string{"int"}, PK: -1, Rows: iv(1, 2)}        // t: (1),(2)
	empty := Table{Types: []string{"int"}, PK: -1}                      // no rows
	two := Table{Types: []string{"int", "int"}, PK: -1, Rows: [][]Val{ints(1, 2), ints(2, 1), ints(3, 1)}}
	sel := func(src *Query, wh *Expr, proj ...*Expr) *Query {
		return &Query{K: "select", Src: src, Wh: wh, Proj: proj}
	}
	cmp := func(o string, a, b *Expr) *Expr { return &Expr{Op: "cmp", O: o, A: a, B: b} }
	ci := func(i int64) *Expr { return konst(intv(i)) }
	cd := func(m int64) *Expr { return konst(&Val{K: "dec", I: m, S: 2}) }
	cs := func(s string) *Expr { return konst(&Val{K: "str", Str: s}) }
	not := func(e *Expr) *Expr { return &Expr{Op: "not", A: e, NotSyntax: true} }
	exists := func(q *Query) *Expr { return &Expr{Op: "exists", Q: q} }
	join := func(k string, l, r *Query, on *Expr) *Query { return &Query{K: "join", JK: k, L: l, R: r, On: on} }
	gagg := func(src *Query, wh *Expr, f string, e *Expr) *Query {
		return &Query{K: "group", Src: src, Wh: wh, Aggs: []Agg{{F: f, E: e}}, Hav: tru(), Proj: []*Expr{col(0, 0)}}
	}
	idx := Table{Types: []string{"int", "int"}, PK: -1, Idx: []int{0}, Rows: [][]Val{ints(5, 2)}}
	pk := Table{Types: []string{"int", "dec"}, PK: 0, Rows: [][]Val{
		{*intv(2), {K: "dec", I: 200, S: 2}}, {*intv(8), {K: "dec", I: 0, S: 2}}, {*intv(4), {K: "dec", I: 150, S: 2}}}}
	return []*Case{
		// x NOT IN (SELECT NULL ...) is TRUE for every row
		{Tables: []Table{one}, Q: sel(tbl(0), not(&Expr{Op: "inq", A: col(0, 0), Q: sel(tbl(0), tru(), konst(null()))}), col(0, 0))},
		// EXISTS over an aggregate without GROUP BY (always one row) over an empty input
		{Tables: []Table{one, empty}, Q: sel(tbl(0), exists(gagg(tbl(1), tru(), "max", col(0, 0))), col(0, 0))},
		// 0.00 IN (SELECT SUM(0.00) FROM t): the aggregate's DECIMAL does not match the literal
		{Tables: []Table{one}, Q: sel(tbl(0), &Expr{Op: "inq", A: cd(0), Q: gagg(tbl(0), tru(), "sum", cd(0))}, col(0, 0))},
		// EXISTS (... LIMIT 0)
		{Tables: []Table{one}, Q: sel(tbl(0), exists(&Query{K: "order", Q: sel(tbl(0), tru(), col(0, 0)), OKeys: []OKey{{I: 0}}, HasLim: true, Lim: 0}), col(0, 0))},
		// EXISTS over a LEFT JOIN whose condition is false: the left rows are still there
		{Tables: []Table{one}, Q: sel(tbl(0), exists(sel(join("left", tbl(0), tbl(0), ci(0)), tru(), ci(1))), col(0, 0))},
		// SELECT DISTINCT ... ORDER BY <position>: error, or sorted on the wrong column
		{Tables: []Table{{Types: []string{"int", "int", "int"}, PK: -1, Rows: [][]Val{ints(2, 1, nil), ints(nil, 0, 5), ints(1, 1, 3)}}}, Ordered: true,
			Q: &Query{K: "order", Q: &Query{K: "select", Src: tbl(0), Wh: tru(), Proj: []*Expr{col(0, 2)}, Dist: true}, OKeys: []OKey{{I: 0, Desc: true}}}},
		{Tables: []Table{{Types: []string{"int"}, PK: -1, Rows: iv(5, 2)}}, Ordered: true,
			Q: &Query{K: "order", Q: &Query{K: "select", Src: tbl(0), Wh: tru(), Proj: []*Expr{cd(0), col(0, 0)}, Dist: true}, OKeys: []OKey{{I: 1}, {I: 0}}}},
		// HAVING on a GROUP BY expression
		{Tables: []Table{two}, Q: &Query{K: "group", Src: tbl(0), Wh: tru(), Keys: []*Expr{{Op: "arith", O: "+", A: col(0, 1), B: ci(1)}},
			Aggs: []Agg{{F: "count*", E: tru()}}, Hav: cmp(">", col(0, 0), ci(1)), Proj: []*Expr{col(0, 1)}}},
		// HAVING with an aggregate over a column of a joined table whose name also exists in the other table
		{Tables: []Table{two}, Q: &Query{K: "group", Src: join("inner", tbl(0), tbl(0), cmp("=", col(0, 0), col(0, 2))), Wh: tru(),
			Aggs: []Agg{{F: "sum", E: col(0, 0)}, {F: "min", E: col(0, 3)}}, Hav: cmp(">", col(0, 1), ci(0)), Proj: []*Expr{col(0, 0)}}},
		// MIN('A'), MIN('a'): aggregates that differ only in letter case are merged
		{Tables: []Table{one}, Q: &Query{K: "group", Src: tbl(0), Wh: tru(), Aggs: []Agg{{F: "min", E: cs("A")}, {F: "min", E: cs("a")}}, Hav: tru(),
			Proj: []*Expr{col(0, 0), col(0, 1)}}},
		// NOT EXISTS over a join whose condition is false: planner error
		{Tables: []Table{one}, Q: sel(join("inner", tbl(0), tbl(0), ci(0)), not(exists(sel(tbl(0), tru(), ci(1)))), ci(1))},
		// EXISTS and NOT EXISTS in one WHERE over empty tables: planner error
		{Tables: []Table{empty, {Types: []string{"int", "int"}, PK: -1}}, Q: &Query{K: "group", Src: tbl(1),
			Wh:   &Expr{Op: "and", A: exists(sel(tbl(0), tru(), cs(""))), B: not(exists(sel(tbl(0), tru(), ci(1))))},
			Keys: []*Expr{col(0, 1)}, Aggs: []Agg{{F: "count*", E: tru()}}, Hav: tru(), Proj: []*Expr{col(0, 1)}}},
		// UNION ... ORDER BY ... LIMIT n OFFSET m
		{Tables: []Table{one}, Ordered: true, Q: &Query{K: "order", Q: &Query{K: "setop", SOp: "union", L: sel(tbl(0), tru(), ci(1)), R: sel(tbl(0), tru(), ci(0))},
			OKeys: []OKey{{I: 0}}, HasLim: true, Lim: 4, Off: 1}},
		// UNION ALL with a NULL literal column, ordered by that column
		{Tables: []Table{{Types: []string{"int"}, PK: 0, Rows: iv(5, 3)}}, Ordered: true, Q: &Query{K: "order",
			Q:     &Query{K: "setop", SOp: "union", All: true, L: sel(tbl(0), tru(), konst(null())), R: sel(tbl(0), tru(), col(0, 0))},
			OKeys: []OKey{{I: 0, Desc: true}}}},
		// correlated filter on an outer column whose name is also an indexed column of the inner table
		{Tables: []Table{{Types: []string{"int"}, PK: -1, Rows: iv(3)}, idx},
			Q: sel(tbl(0), tru(), &Expr{Op: "scalar", Q: gagg(tbl(1), cmp("=", col(1, 0), ci(3)), "count*", tru())})},
		// INT primary key joined with a non-integral DECIMAL
		{Tables: []Table{pk}, Q: sel(join("inner", tbl(0), tbl(0), cmp("=", col(0, 0), col(0, 3))), tru(), col(0, 0), col(0, 3))},
		// an uncorrelated EXISTS filter inside a correlated subquery is hoisted and the subquery is then cached across outer rows
		{Tables: []Table{{Types: []string{"int"}, PK: -1, Rows: iv(5, nil)}, {Types: []string{"int"}, PK: -1, Rows: iv(7)}},
			Q: sel(tbl(0), not(&Expr{Op: "inq", A: ci(1), Q: sel(tbl(1), exists(sel(tbl(0), tru(), ci(1))), col(1, 0))}), col(0, 0))},
		// scalar subquery (one of several select items) over a set-operation derived table with a NULL-literal column
		// against a typed column: "unable to find field" / slice-bounds panic
		{Tables: []Table{{Types: []string{"int", "int", "int"}, PK: -1, Rows: [][]Val{ints(3, 4, 1)}}}, Q: sel(tbl(0), tru(), ci(1), &Expr{Op: "scalar", Q: gagg(
			&Query{K: "setop", SOp: "union", L: sel(tbl(0), tru(), konst(null()), cs("b")), R: sel(tbl(0), tru(), cd(150), cs("a"))}, tru(), "max", col(0, 0))}, ci(1))},
		{Tables: []Table{{Types: []string{"int", "int", "int"}, PK: -1, Rows: [][]Val{ints(3, 4, 1)}}}, Q: sel(tbl(0), tru(), ci(1), &Expr{Op: "scalar", Q: gagg(
			&Query{K: "setop", SOp: "intersect", L: &Query{K: "group", Src: join("inner", tbl(0), tbl(0), ci(1)), Wh: tru(), Aggs: []Agg{{F: "min", E: konst(null())}}, Hav: tru(), Proj: []*Expr{col(0, 0), cs("b")}},
				R: sel(tbl(0), tru(), cd(150), cs("a"))}, tru(), "max", col(0, 0))}, ci(1))},
		// INT IN (subquery projecting a DECIMAL) never matches
		{Tables: []Table{one}, Q: sel(tbl(0), &Expr{Op: "inq", A: ci(1), Q: sel(tbl(0), tru(), cd(100))}, col(0, 0))},
		// an inner join with a false ON above a LEFT JOIN returns rows
		{Tables: []Table{{Types: []string{"int"}, PK: -1, Rows: iv(1)}, {Types: []string{"int"}, PK: -1, Rows: iv(-1, 1)}},
			Q: sel(join("inner", join("left", tbl(1), tbl(0), ci(1)), tbl(0), &Expr{Op: "and", A: cmp("=", col(0, 0), col(0, 2)), B: konst(null())}), tru(), ci(1))},
		// ORDER BY ... DESC over an equi-join of two indexed columns (reverse merge join) duplicates rows
		{Tables: []Table{{Types: []string{"int", "int"}, PK: -1, Idx: []int{0}, Rows: [][]Val{ints(nil, 3), ints(3, -1)}},
			{Types: []string{"int", "int"}, PK: -1, Idx: []int{0, 1}, Rows: [][]Val{ints(nil, 5), ints(7, 3)}}}, Ordered: true,
			Q: &Query{K: "order", Q: sel(join("inner", tbl(0), tbl(1), cmp("=", col(0, 0), col(0, 3))), tru(), col(0, 0)), OKeys: []OKey{{I: 0, Desc: true}}}},
		// EXCEPT drops rows whose value is the empty string
		{Tables: []Table{{Types: []string{"str"}, PK: -1, Rows: [][]Val{{{K: "str", Str: ""}}, {{K: "str", Str: "x"}}}}},
			Q: &Query{K: "setop", SOp: "except", L: sel(tbl(0), tru(), col(0, 0)), R: sel(tbl(0), cmp("=", col(0, 0), cs("zz")), col(0, 0))}},
		caseFromJSON(inOverFalseOuterJoin),
		// a scalar subquery whose only correlation sits inside an EXISTS filter: the EXISTS is hoisted and the subquery cached
		{Tables: []Table{{Types: []string{"int"}, PK: -1, Idx: []int{0}, Rows: iv(nil, 0)}},
			Q: sel(tbl(0), tru(), &Expr{Op: "scalar", Q: &Query{K: "order", Q: sel(tbl(0), exists(sel(tbl(0), cmp("<=", col(2, 0), ci(0)), ci(1))), cd(150)),
				OKeys: []OKey{{I: 0}}, HasLim: true, Lim: 1}})},
		caseFromJSON(decLiteralProduct),
		// x IN (subquery whose select expression is an outer column only)
		{Tables: []Table{{Types: []string{"int"}, PK: -1, Rows: iv(3, 1)}, {Types: []string{"int"}, PK: -1, Rows: iv(nil)}},
			Q: sel(tbl(0), &Expr{Op: "inq", A: ci(1), Q: sel(tbl(1), col(1, 0), col(1, 0))}, col(0, 0))},
		// NULL IN (correlated subquery that is empty) is FALSE, the engine says NULL
		{Tables: []Table{{Types: []string{"int"}, PK: -1, Rows: iv(nil)}, {Types: []string{"int"}, PK: -1, Rows: iv(nil)}},
			Q: sel(tbl(0), &Expr{Op: "not", A: &Expr{Op: "inq", A: konst(null()), Q: sel(tbl(1),
				&Expr{Op: "inq", A: col(1, 0), Q: sel(tbl(1), tru(), ci(3))}, ci(5))}}, ci(1))},
		// -0.00: (-1.00) * 0 is not recognised as 0.00
		{Tables: []Table{{Types: []string{"int"}, PK: -1, Rows: iv(0)}}, Q: sel(tbl(0),
			&Expr{Op: "in", A: &Expr{Op: "arith", O: "*", A: cd(-100), B: col(0, 0)}, L: []*Expr{cd(0)}}, col(0, 0))},
	}
}
