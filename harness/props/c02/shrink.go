// C02 driver, part 4: shrinking of a failing case (drop clauses, subexpressions, rows) and the fixed corpus.
package main

type slots struct {
	qs []**Query
	es []**Expr
}

func (s *slots) walkE(p **Expr) {
	e := *p
	if e == nil {
		return
	}
	s.es = append(s.es, p)
	s.walkE(&e.A)
	s.walkE(&e.B)
	for i := range e.L {
		s.walkE(&e.L[i])
	}
	if e.Q != nil {
		s.walkQ(&e.Q)
	}
}

func (s *slots) walkQ(p **Query) {
	q := *p
	if q == nil {
		return
	}
	s.qs = append(s.qs, p)
	s.walkQ(&q.L)
	s.walkQ(&q.R)
	s.walkE(&q.On)
	s.walkQ(&q.Src)
	s.walkE(&q.Wh)
	for i := range q.Proj {
		s.walkE(&q.Proj[i])
	}
	for i := range q.Keys {
		s.walkE(&q.Keys[i])
	}
	for i := range q.Aggs {
		s.walkE(&q.Aggs[i].E)
	}
	s.walkE(&q.Hav)
	s.walkQ(&q.Q)
}

func collect(c *Case) *slots {
	s := &slots{}
	s.walkQ(&c.Q)
	return s
}

func tru() *Expr { return konst(intv(1)) }

func qVariants(q *Query, root bool) []*Query {
	var out []*Query
	cp := func() *Query { c := *q; return &c }
	switch q.K {
	case "order":
		out = append(out, q.Q)
		if q.HasLim {
			c := cp()
			c.HasLim = false
			out = append(out, c)
		}
		if len(q.OKeys) > 1 && !q.HasLim {
			c := cp()
			c.OKeys = q.OKeys[:len(q.OKeys)-1]
			out = append(out, c)
		}
	case "setop":
		out = append(out, q.L, q.R)
	case "join":
		out = append(out, q.L, q.R)
		if q.JK != "inner" && q.JK != "cross" {
			c := cp()
			c.JK = "inner"
			out = append(out, c)
		}
	case "select", "group":
		if q.Src.K != "table" && q.Src.K != "join" {
			out = append(out, q.Src)
		}
		if !isTrueConst(q.Wh) {
			c := cp()
			c.Wh = tru()
			out = append(out, c)
		}
		if q.Dist {
			c := cp()
			c.Dist = false
			out = append(out, c)
		}
		if q.K == "group" && !isTrueConst(q.Hav) {
			c := cp()
			c.Hav = tru()
			out = append(out, c)
		}
		if q.K == "group" && len(q.Keys) == 0 && len(q.Aggs) > 1 {
			c := cp()
			c.Aggs = q.Aggs[:len(q.Aggs)-1]
			out = append(out, c)
		}
		if len(q.Proj) > 1 {
			for i := range q.Proj {
				c := cp()
				c.Proj = append(append([]*Expr{}, q.Proj[:i]...), q.Proj[i+1:]...)
				out = append(out, c)
			}
		}
	}
	return out
}

func eVariants(e *Expr) []*Expr {
	var out []*Expr
	if e.Op == "const" {
		return nil
	}
	if e.A != nil {
		out = append(out, e.A)
	}
	if e.B != nil {
		out = append(out, e.B)
	}
	out = append(out, konst(intv(1)), konst(intv(0)), konst(null()))
	if e.Op == "in" && len(e.L) > 1 {
		for i := range e.L {
			c := *e
			c.L = append(append([]*Expr{}, e.L[:i]...), e.L[i+1:]...)
			out = append(out, &c)
		}
	}
	if e.Op == "not" && e.NotSyntax {
		c := *e
		c.NotSyntax = false
		out = append(out, &c)
	}
	return out
}

func shrink(cs *Case, verdict string) *Case {
	cur := cloneCase(cs)
	budget := 300
	origTriggers := map[string]bool{}
	for _, t := range triggers(cs) {
		origTriggers[t] = true
	}
	still := func(c *Case) (ok bool) {
		budget--
		defer func() {
			if r := recover(); r != nil {
				ok = false
			}
		}()
		if checkCase(c) != nil {
			budget++
			return false
		}
		// shrinking must not slide into the shape of a known finding that the original case does not have
		for _, t := range triggers(c) {
			if !origTriggers[t] {
				budget++
				return false
			}
		}
		o := evaluate(c)
		return o.verdict(c.Ordered) == verdict
	}
	for progress := true; progress && budget > 0; {
		progress = false
		// 1. query nodes
		s := collect(cur)
	queries:
		for i := range s.qs {
			nv := len(qVariants(*s.qs[i], i == 0))
			for v := 0; v < nv && budget > 0; v++ {
				cand := cloneCase(cur)
				cs2 := collect(cand)
				*cs2.qs[i] = qVariants(*cs2.qs[i], i == 0)[v]
				if cand.Q.K != "order" || len(cand.Q.OKeys) < width(cand.Q, cand.Tables) {
					cand.Ordered = false
				}
				if still(cand) {
					cur, progress = cand, true
					break queries
				}
			}
		}
		if progress {
			continue
		}
		// 2. expressions
	exprs:
		for i := range s.es {
			nv := len(eVariants(*s.es[i]))
			for v := 0; v < nv && budget > 0; v++ {
				cand := cloneCase(cur)
				cs2 := collect(cand)
				*cs2.es[i] = eVariants(*cs2.es[i])[v]
				if still(cand) {
					cur, progress = cand, true
					break exprs
				}
			}
		}
		if progress {
			continue
		}
		// 3. data: drop rows, indexes, keys
		for t := range cur.Tables {
			for r := len(cur.Tables[t].Rows) - 1; r >= 0 && budget > 0; r-- {
				cand := cloneCase(cur)
				rows := cand.Tables[t].Rows
				cand.Tables[t].Rows = append(rows[:r:r], rows[r+1:]...)
				if still(cand) {
					cur, progress = cand, true
				}
			}
			if len(cur.Tables[t].Idx) > 0 && budget > 0 {
				cand := cloneCase(cur)
				cand.Tables[t].Idx = nil
				if still(cand) {
					cur, progress = cand, true
				}
			}
			if cur.Tables[t].PK >= 0 && budget > 0 {
				cand := cloneCase(cur)
				cand.Tables[t].PK = -1
				if still(cand) {
					cur, progress = cand, true
				}
			}
		}
	}
	// unused trailing tables
	used := map[int]bool{}
	for _, p := range collect(cur).qs {
		if (*p).K == "table" {
			used[(*p).T] = true
		}
	}
	for len(cur.Tables) > 0 && !used[len(cur.Tables)-1] {
		cur.Tables = cur.Tables[:len(cur.Tables)-1]
	}
	for t := range cur.Tables {
		if !used[t] {
			cur.Tables[t].Rows = nil
		}
	}
	return cur
}

func col(d, i int) *Expr { return &Expr{Op: "col", D: d, I: i} }
func tbl(t int) *Query   { return &Query{K: "table", T: t} }
func ints(vs ...interface{}) []Val {
	out := make([]Val, len(vs))
	for i, v := range vs {
		if v == nil {
			out[i] = *null()
		} else {
			out[i] = *intv(int64(v.(int)))
		}
	}
	return out
}

// corpus: hand-written cases for every clause of the property statement (run first)
func corpus() []*Case {
	t0 := Table{Types: []string{"int", "int"}, PK: -1, Rows: [][]Val{ints(1, 1), ints(2, nil), ints(nil, 3), ints(2, 2)}}
	t1 := Table{Types: []string{"int"}, PK: -1, Rows: [][]Val{ints(1), ints(nil), ints(4)}}
	tabs := []Table{t0, t1}
	sel := func(src *Query, wh *Expr, proj ...*Expr) *Query {
		return &Query{K: "select", Src: src, Wh: wh, Proj: proj}
	}
	sub := sel(tbl(1), tru(), col(0, 0))
	notIn := &Expr{Op: "not", NotSyntax: true, A: &Expr{Op: "inq", A: col(0, 0), Q: sub}}
	cases := []*Case{
		// x NOT IN (.. NULL ..) is never TRUE
		{Tables: tabs, Q: sel(tbl(0), notIn, col(0, 0))},
		{Tables: tabs, Q: sel(tbl(0), &Expr{Op: "not", NotSyntax: true, A: &Expr{Op: "in", A: col(0, 0), L: []*Expr{konst(intv(7)), konst(null())}}}, col(0, 0))},
		// IN subquery, EXISTS correlated
		{Tables: tabs, Q: sel(tbl(0), &Expr{Op: "inq", A: col(0, 0), Q: sub}, col(0, 0), col(0, 1))},
		{Tables: tabs, Q: sel(tbl(0), &Expr{Op: "exists", Q: sel(tbl(1), &Expr{Op: "cmp", O: "=", A: col(0, 0), B: col(1, 0)}, col(0, 0))}, col(0, 0))},
		// outer joins pad with NULL
		{Tables: tabs, Q: sel(&Query{K: "join", JK: "left", L: tbl(0), R: tbl(1), On: &Expr{Op: "cmp", O: "=", A: col(0, 0), B: col(0, 2)}}, tru(), col(0, 0), col(0, 1), col(0, 2))},
		{Tables: tabs, Q: sel(&Query{K: "join", JK: "right", L: tbl(0), R: tbl(1), On: &Expr{Op: "cmp", O: "=", A: col(0, 0), B: col(0, 2)}}, tru(), col(0, 0), col(0, 1), col(0, 2))},
		// GROUP BY + aggregates + HAVING
		{Tables: tabs, Q: &Query{K: "group", Src: tbl(0), Wh: tru(), Keys: []*Expr{col(0, 0)},
			Aggs: []Agg{{F: "count*", E: tru()}, {F: "sum", E: col(0, 1)}, {F: "avg", E: col(0, 1)}, {F: "min", E: col(0, 1)}},
			Hav:  &Expr{Op: "cmp", O: ">=", A: col(0, 1), B: konst(intv(1))}, Proj: []*Expr{col(0, 0), col(0, 1), col(0, 2), col(0, 3), col(0, 4)}}},
		// set operations
		{Tables: tabs, Q: &Query{K: "setop", SOp: "intersect", All: true, L: sel(tbl(0), tru(), col(0, 0)), R: sel(tbl(0), tru(), col(0, 1))}},
		{Tables: tabs, Q: &Query{K: "setop", SOp: "except", All: true, L: sel(tbl(0), tru(), col(0, 0)), R: sel(tbl(1), tru(), col(0, 0))}},
		{Tables: tabs, Q: &Query{K: "setop", SOp: "union", L: sel(tbl(0), tru(), col(0, 0)), R: sel(tbl(1), tru(), col(0, 0))}},
		// ORDER BY, LIMIT/OFFSET, DISTINCT
		{Tables: tabs, Ordered: true, Q: &Query{K: "order", Q: &Query{K: "select", Src: tbl(0), Wh: tru(), Proj: []*Expr{col(0, 0)}, Dist: true},
			OKeys: []OKey{{I: 0, Desc: true}}, HasLim: true, Lim: 2, Off: 1}},
		// scalar subquery: correlated aggregate; more than one row is an error
		{Tables: tabs, Q: sel(tbl(0), tru(), col(0, 0), &Expr{Op: "scalar", Q: &Query{K: "group", Src: tbl(1), Wh: &Expr{Op: "cmp", O: "<=", A: col(0, 0), B: col(1, 0)}, Aggs: []Agg{{F: "max", E: col(0, 0)}}, Hav: tru(), Proj: []*Expr{col(0, 0)}}})},
		{Tables: tabs, Q: sel(tbl(0), tru(), &Expr{Op: "scalar", Q: sub})},
	}
	// correlated NOT EXISTS / NOT IN with an outer-only conjunct that is NULL for one outer row (the row is kept)
	t2 := Table{Types: []string{"int", "int"}, PK: -1, Rows: [][]Val{ints(1, 5), ints(2, nil), ints(3, 0)}}
	t3 := Table{Types: []string{"int"}, PK: -1, Rows: [][]Val{ints(1), ints(2), ints(3)}}
	and := func(a, b *Expr) *Expr { return &Expr{Op: "and", A: a, B: b} }
	gt1 := &Expr{Op: "cmp", O: ">", A: col(1, 1), B: konst(intv(1))}
	cases = append(cases,
		&Case{Tables: []Table{t2, t3}, Q: sel(tbl(0), &Expr{Op: "not", NotSyntax: true, A: &Expr{Op: "exists",
			Q: sel(tbl(1), and(&Expr{Op: "cmp", O: "=", A: col(0, 0), B: col(1, 0)}, gt1), konst(intv(1)))}}, col(0, 0))},
		&Case{Tables: []Table{t2, t3}, Q: sel(tbl(0), &Expr{Op: "not", NotSyntax: true, A: &Expr{Op: "inq", A: col(0, 0),
			Q: sel(tbl(1), gt1, col(0, 0))}}, col(0, 0))})
	// left-deep set-operation chains: a value occurring 3 times in A and once in B
	a3 := Table{Types: []string{"int"}, PK: -1, Rows: [][]Val{ints(1), ints(1), ints(1), ints(2)}}
	b1 := Table{Types: []string{"int"}, PK: -1, Rows: [][]Val{ints(1), ints(5)}}
	exc := func() *Query {
		return &Query{K: "setop", SOp: "except", L: sel(tbl(0), tru(), col(0, 0)), R: sel(tbl(1), tru(), col(0, 0))}
	}
	cases = append(cases,
		&Case{Tables: []Table{a3, b1}, Q: &Query{K: "setop", SOp: "union", L: exc(), R: sel(tbl(1), &Expr{Op: "cmp", O: "=", A: col(0, 0), B: konst(intv(5))}, col(0, 0))}},
		&Case{Tables: []Table{a3, b1}, Q: &Query{K: "setop", SOp: "intersect", L: exc(), R: sel(tbl(0), tru(), col(0, 0))}},
		&Case{Tables: []Table{a3, b1}, Q: &Query{K: "setop", SOp: "except", L: exc(), R: sel(tbl(1), &Expr{Op: "cmp", O: "=", A: col(0, 0), B: konst(intv(5))}, col(0, 0))}})
	cases = append(cases, findingCorpus()...)
	return cases
}
