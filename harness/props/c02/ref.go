// C02 driver, part 2: an independent reference interpreter of the query AST (the property predicate's
// oracle on the Go side).  Written separately from the Coq definition: numbers are big.Int mantissa +
// scale, evaluation is a direct recursive walk with Go errors.
package main

import (
	"errors"
	"fmt"
	"math/big"
	"sort"
	"strings"
)

var errCard = errors.New("card")   // scalar subquery returned more than one row
var errType = errors.New("type")   // ill-typed (generator bug)
var errShape = errors.New("shape") // ill-formed (generator bug)

// RV: reference value.  Kind 0 NULL, 1 number (M * 10^-S), 2 string.
type RV struct {
	Kind int
	M    *big.Int
	S    int
	Str  string
}

var rNull = RV{}

func rInt(i int64) RV { return RV{Kind: 1, M: big.NewInt(i)} }

func rvOf(v *Val) RV {
	switch v.K {
	case "null":
		return rNull
	case "int":
		return rInt(v.I)
	case "dec":
		return RV{Kind: 1, M: big.NewInt(v.I), S: v.S}
	default:
		return RV{Kind: 2, Str: v.Str}
	}
}

func p10(n int) *big.Int { return new(big.Int).Exp(big.NewInt(10), big.NewInt(int64(n)), nil) }

func align(a, b RV) (*big.Int, *big.Int, int) {
	s := a.S
	if b.S > s {
		s = b.S
	}
	x := new(big.Int).Mul(a.M, p10(s-a.S))
	y := new(big.Int).Mul(b.M, p10(s-b.S))
	return x, y, s
}

// compare two non-NULL values
func rcmp(a, b RV) (int, error) {
	if a.Kind == 2 && b.Kind == 2 {
		return strings.Compare(a.Str, b.Str), nil
	}
	if a.Kind == 1 && b.Kind == 1 {
		x, y, _ := align(a, b)
		return x.Cmp(y), nil
	}
	return 0, errType
}

// canonical identity key (NULL = NULL, 1 = 1.00)
func (v RV) key() string {
	switch v.Kind {
	case 0:
		return "N"
	case 2:
		return "s" + fmt.Sprintf("%q", v.Str)
	}
	m := new(big.Int).Set(v.M)
	s := v.S
	ten := big.NewInt(10)
	for s > 0 {
		q, r := new(big.Int).QuoRem(m, ten, new(big.Int))
		if r.Sign() != 0 {
			break
		}
		m = q
		s--
	}
	return fmt.Sprintf("n%s/%d", m.String(), s)
}

func rowKey(r []RV) string {
	parts := make([]string, len(r))
	for i, v := range r {
		parts[i] = v.key()
	}
	return strings.Join(parts, "|")
}

// three-valued logic: 1 true, 0 false, -1 unknown
func truth(v RV) (int, error) {
	switch v.Kind {
	case 0:
		return -1, nil
	case 1:
		if v.M.Sign() == 0 {
			return 0, nil
		}
		return 1, nil
	}
	return 0, errType
}

func rTri(t int) RV {
	if t < 0 {
		return rNull
	}
	return rInt(int64(t))
}

type interp struct {
	tables  []Table
	negZero bool // a decimal product was zero with a negative factor (the engine's -0.00)
	exceptEmptyStr bool // the left input of an EXCEPT contains the empty string
	nullInEmpty    bool // NULL IN (correlated subquery that returned no row)
}

func (in *interp) inList(x RV, ys []RV) (int, error) {
	res := 0
	for _, y := range ys {
		if x.Kind == 0 || y.Kind == 0 {
			if res == 0 {
				res = -1
			}
			continue
		}
		c, err := rcmp(x, y)
		if err != nil {
			return 0, err
		}
		if c == 0 {
			res = 1
		}
	}
	return res, nil
}

func (in *interp) expr(e *Expr, env [][]RV) (RV, error) {
	switch e.Op {
	case "const":
		return rvOf(e.V), nil
	case "col":
		if e.D >= len(env) || e.I >= len(env[e.D]) {
			return rNull, errShape
		}
		return env[e.D][e.I], nil
	case "cmp":
		a, err := in.expr(e.A, env)
		if err != nil {
			return rNull, err
		}
		b, err := in.expr(e.B, env)
		if err != nil {
			return rNull, err
		}
		if a.Kind == 0 || b.Kind == 0 {
			return rNull, nil
		}
		c, err := rcmp(a, b)
		if err != nil {
			return rNull, err
		}
		var ok bool
		switch e.O {
		case "=":
			ok = c == 0
		case "<>":
			ok = c != 0
		case "<":
			ok = c < 0
		case "<=":
			ok = c <= 0
		case ">":
			ok = c > 0
		case ">=":
			ok = c >= 0
		default:
			return rNull, errShape
		}
		if ok {
			return rInt(1), nil
		}
		return rInt(0), nil
	case "arith":
		a, err := in.expr(e.A, env)
		if err != nil {
			return rNull, err
		}
		b, err := in.expr(e.B, env)
		if err != nil {
			return rNull, err
		}
		if a.Kind == 2 || b.Kind == 2 {
			return rNull, errType
		}
		if a.Kind == 0 || b.Kind == 0 {
			return rNull, nil
		}
		switch e.O {
		case "+":
			x, y, s := align(a, b)
			return RV{Kind: 1, M: x.Add(x, y), S: s}, nil
		case "-":
			x, y, s := align(a, b)
			return RV{Kind: 1, M: x.Sub(x, y), S: s}, nil
		case "*":
			m := new(big.Int).Mul(a.M, b.M)
			if m.Sign() == 0 && a.S+b.S > 0 && (a.M.Sign() < 0 || b.M.Sign() < 0) {
				in.negZero = true
			}
			return RV{Kind: 1, M: m, S: a.S + b.S}, nil
		}
		return rNull, errShape
	case "and", "or":
		a, err := in.expr(e.A, env)
		if err != nil {
			return rNull, err
		}
		b, err := in.expr(e.B, env)
		if err != nil {
			return rNull, err
		}
		ta, err := truth(a)
		if err != nil {
			return rNull, err
		}
		tb, err := truth(b)
		if err != nil {
			return rNull, err
		}
		if e.Op == "and" {
			switch {
			case ta == 0 || tb == 0:
				return rInt(0), nil
			case ta == 1 && tb == 1:
				return rInt(1), nil
			}
			return rNull, nil
		}
		switch {
		case ta == 1 || tb == 1:
			return rInt(1), nil
		case ta == 0 && tb == 0:
			return rInt(0), nil
		}
		return rNull, nil
	case "not":
		a, err := in.expr(e.A, env)
		if err != nil {
			return rNull, err
		}
		t, err := truth(a)
		if err != nil {
			return rNull, err
		}
		if t < 0 {
			return rNull, nil
		}
		return rInt(int64(1 - t)), nil
	case "isnull":
		a, err := in.expr(e.A, env)
		if err != nil {
			return rNull, err
		}
		if a.Kind == 0 {
			return rInt(1), nil
		}
		return rInt(0), nil
	case "in":
		x, err := in.expr(e.A, env)
		if err != nil {
			return rNull, err
		}
		var ys []RV
		for _, l := range e.L {
			y, err := in.expr(l, env)
			if err != nil {
				return rNull, err
			}
			ys = append(ys, y)
		}
		t, err := in.inList(x, ys)
		return rTri(t), err
	case "exists":
		rows, err := in.query(e.Q, env)
		if err != nil {
			return rNull, err
		}
		if len(rows) > 0 {
			return rInt(1), nil
		}
		return rInt(0), nil
	case "inq":
		x, err := in.expr(e.A, env)
		if err != nil {
			return rNull, err
		}
		rows, err := in.query(e.Q, env)
		if err != nil {
			return rNull, err
		}
		if x.Kind == 0 && len(rows) == 0 && escapesQ(e.Q, 0) {
			in.nullInEmpty = true
		}
		var ys []RV
		for _, r := range rows {
			if len(r) == 0 {
				return rNull, errShape
			}
			ys = append(ys, r[0])
		}
		t, err := in.inList(x, ys)
		return rTri(t), err
	case "scalar":
		rows, err := in.query(e.Q, env)
		if err != nil {
			return rNull, err
		}
		switch len(rows) {
		case 0:
			return rNull, nil
		case 1:
			if len(rows[0]) == 0 {
				return rNull, errShape
			}
			return rows[0][0], nil
		}
		return rNull, errCard
	}
	return rNull, errShape
}

func (in *interp) cond(e *Expr, env [][]RV) (bool, error) {
	v, err := in.expr(e, env)
	if err != nil {
		return false, err
	}
	t, err := truth(v)
	return t == 1, err
}

func cat(a, b []RV) []RV { return append(append(make([]RV, 0, len(a)+len(b)), a...), b...) }

func nullRow(n int) []RV { return make([]RV, n) }

func pushEnv(r []RV, env [][]RV) [][]RV { return append([][]RV{r}, env...) }

func (in *interp) query(q *Query, env [][]RV) ([][]RV, error) {
	switch q.K {
	case "table":
		if q.T >= len(in.tables) {
			return nil, errShape
		}
		var out [][]RV
		for _, r := range in.tables[q.T].Rows {
			row := make([]RV, len(r))
			for i := range r {
				row[i] = rvOf(&r[i])
			}
			out = append(out, row)
		}
		return out, nil
	case "join":
		L, err := in.query(q.L, env)
		if err != nil {
			return nil, err
		}
		R, err := in.query(q.R, env)
		if err != nil {
			return nil, err
		}
		wl, wr := width(q.L, in.tables), width(q.R, in.tables)
		on := func(l, r []RV) (bool, error) {
			if q.JK == "cross" {
				return true, nil
			}
			return in.cond(q.On, pushEnv(cat(l, r), env))
		}
		var out [][]RV
		if q.JK == "right" {
			for _, r := range R {
				n := 0
				for _, l := range L {
					ok, err := on(l, r)
					if err != nil {
						return nil, err
					}
					if ok {
						out = append(out, cat(l, r))
						n++
					}
				}
				if n == 0 {
					out = append(out, cat(nullRow(wl), r))
				}
			}
			return out, nil
		}
		for _, l := range L {
			n := 0
			for _, r := range R {
				ok, err := on(l, r)
				if err != nil {
					return nil, err
				}
				if ok {
					out = append(out, cat(l, r))
					n++
				}
			}
			if n == 0 && q.JK == "left" {
				out = append(out, cat(l, nullRow(wr)))
			}
		}
		return out, nil
	case "select", "group":
		src, err := in.query(q.Src, env)
		if err != nil {
			return nil, err
		}
		var kept [][]RV
		for _, r := range src {
			ok, err := in.cond(q.Wh, pushEnv(r, env))
			if err != nil {
				return nil, err
			}
			if ok {
				kept = append(kept, r)
			}
		}
		rows := kept
		if q.K == "group" {
			rows, err = in.group(q, kept, env)
			if err != nil {
				return nil, err
			}
		}
		var out [][]RV
		for _, r := range rows {
			e2 := pushEnv(r, env)
			o := make([]RV, len(q.Proj))
			for i, p := range q.Proj {
				if o[i], err = in.expr(p, e2); err != nil {
					return nil, err
				}
			}
			out = append(out, o)
		}
		if q.Dist {
			out = distinct(out)
		}
		return out, nil
	case "setop":
		L, err := in.query(q.L, env)
		if err != nil {
			return nil, err
		}
		R, err := in.query(q.R, env)
		if err != nil {
			return nil, err
		}
		if q.SOp == "except" {
			for _, l := range L {
				for _, v := range l {
					if v.Kind == 2 && v.Str == "" {
						in.exceptEmptyStr = true
					}
				}
			}
		}
		return setOp(q.SOp, q.All, L, R), nil
	case "order":
		rows, err := in.query(q.Q, env)
		if err != nil {
			return nil, err
		}
		rows = append([][]RV{}, rows...)
		sort.SliceStable(rows, func(i, j int) bool {
			for _, k := range q.OKeys {
				c := ordCmp(rows[i][k.I], rows[j][k.I])
				if k.Desc {
					c = -c
				}
				if c != 0 {
					return c < 0
				}
			}
			return false
		})
		if q.HasLim {
			if q.Off >= len(rows) {
				return nil, nil
			}
			rows = rows[q.Off:]
			if q.Lim < len(rows) {
				rows = rows[:q.Lim]
			}
		}
		return rows, nil
	}
	return nil, errShape
}

func ordCmp(a, b RV) int {
	if a.Kind == 0 || b.Kind == 0 {
		return a.Kind - b.Kind // NULL first (kinds 1,2 are > 0; only sign of NULL-vs-non-NULL matters)
	}
	c, err := rcmp(a, b)
	if err != nil {
		return a.Kind - b.Kind
	}
	return c
}

func distinct(rows [][]RV) [][]RV {
	seen := map[string]bool{}
	var out [][]RV
	for _, r := range rows {
		k := rowKey(r)
		if !seen[k] {
			seen[k] = true
			out = append(out, r)
		}
	}
	return out
}

func setOp(op string, all bool, L, R [][]RV) [][]RV {
	cnt := map[string]int{}
	for _, r := range R {
		cnt[rowKey(r)]++
	}
	var out [][]RV
	switch op {
	case "union":
		out = append(append(out, L...), R...)
	case "intersect":
		for _, l := range L {
			k := rowKey(l)
			if cnt[k] > 0 {
				out = append(out, l)
				if all {
					cnt[k]--
				}
			}
		}
	case "except":
		for _, l := range L {
			k := rowKey(l)
			if cnt[k] > 0 {
				if all {
					cnt[k]--
				}
				continue
			}
			out = append(out, l)
		}
	}
	if !all {
		out = distinct(out)
	}
	return out
}

func (in *interp) group(q *Query, rows [][]RV, env [][]RV) ([][]RV, error) {
	type grp struct {
		key  []RV
		rows [][]RV
	}
	var order []string
	gs := map[string]*grp{}
	for _, r := range rows {
		e2 := pushEnv(r, env)
		k := make([]RV, len(q.Keys))
		for i, ke := range q.Keys {
			var err error
			if k[i], err = in.expr(ke, e2); err != nil {
				return nil, err
			}
		}
		ks := rowKey(k)
		if gs[ks] == nil {
			gs[ks] = &grp{key: k}
			order = append(order, ks)
		}
		gs[ks].rows = append(gs[ks].rows, r)
	}
	if len(q.Keys) == 0 && len(order) == 0 {
		gs[""] = &grp{}
		order = append(order, "")
	}
	var out [][]RV
	for _, ks := range order {
		g := gs[ks]
		row := append([]RV{}, g.key...)
		for _, a := range q.Aggs {
			var args []RV
			for _, r := range g.rows {
				v, err := in.expr(a.E, pushEnv(r, env))
				if err != nil {
					return nil, err
				}
				args = append(args, v)
			}
			v, err := aggregate(a.F, args)
			if err != nil {
				return nil, err
			}
			row = append(row, v)
		}
		ok, err := in.cond(q.Hav, pushEnv(row, env))
		if err != nil {
			return nil, err
		}
		if ok {
			out = append(out, row)
		}
	}
	return out, nil
}

func aggregate(f string, args []RV) (RV, error) {
	var nn []RV
	for _, a := range args {
		if a.Kind != 0 {
			nn = append(nn, a)
		}
	}
	switch f {
	case "count*":
		return rInt(int64(len(args))), nil
	case "count":
		return rInt(int64(len(nn))), nil
	case "countd":
		seen := map[string]bool{}
		for _, a := range nn {
			seen[a.key()] = true
		}
		return rInt(int64(len(seen))), nil
	}
	if len(nn) == 0 {
		return rNull, nil
	}
	switch f {
	case "sum", "avg":
		acc := rInt(0)
		for _, a := range nn {
			if a.Kind != 1 {
				return rNull, errType
			}
			x, y, s := align(acc, a)
			acc = RV{Kind: 1, M: x.Add(x, y), S: s}
		}
		if f == "sum" {
			return acc, nil
		}
		// sum / n at scale + 4, half away from zero
		num := new(big.Int).Mul(acc.M, big.NewInt(10000))
		neg := num.Sign() < 0
		num.Abs(num)
		n := big.NewInt(int64(len(nn)))
		num.Mul(num, big.NewInt(2)).Add(num, n)
		num.Quo(num, new(big.Int).Mul(n, big.NewInt(2)))
		if neg {
			num.Neg(num)
		}
		return RV{Kind: 1, M: num, S: acc.S + 4}, nil
	case "min", "max":
		best := nn[0]
		for _, a := range nn[1:] {
			c, err := rcmp(a, best)
			if err != nil {
				return rNull, err
			}
			if (f == "min" && c < 0) || (f == "max" && c > 0) {
				best = a
			}
		}
		return best, nil
	}
	return rNull, errShape
}
