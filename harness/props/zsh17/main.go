// scratch SQL shell (builder tool; removed at the end)
package main

import (
	"bufio"
	"fmt"
	"os"
	"strings"

	"verifharness/lib/eng"
)

func main() {
	e := eng.New("db")
	s := e.Session()
	sc := bufio.NewScanner(os.Stdin)
	for sc.Scan() {
		q := strings.TrimSpace(sc.Text())
		if q == "" || strings.HasPrefix(q, "#") {
			continue
		}
		if q == "reset" {
			e = eng.New("db")
			s = e.Session()
			fmt.Println("---- reset")
			continue
		}
		r := s.Query(q)
		fmt.Printf("> %s\n", q)
		if r.Err != nil {
			fmt.Printf("    ERR(%s): %v\n", eng.ErrKind(r.Err), r.Err)
		}
		for _, row := range r.Rows {
			fmt.Printf("    %s\n", eng.Row(row))
		}
	}
}
