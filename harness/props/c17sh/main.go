// scratch SQL shell (builder tool; removed at the end)
package main

import (
	"bufio"
	"fmt"
	"os"
	"strings"

	"verifharness/lib/eng"
)

func main() {
	e := eng.New("db")
	ss := map[string]*eng.S{}
	sc := bufio.NewScanner(os.Stdin)
	for sc.Scan() {
		line := strings.TrimSpace(sc.Text())
		if line == "" || strings.HasPrefix(line, "#") {
			continue
		}
		if line == "reset" {
			e = eng.New("db")
			ss = map[string]*eng.S{}
			fmt.Println("---- reset")
			continue
		}
		i := strings.Index(line, ":")
		sid, q := "1", line
		if i > 0 && i < 3 {
			sid, q = line[:i], strings.TrimSpace(line[i+1:])
		}
		s, ok := ss[sid]
		if !ok {
			s = e.Session()
			ss[sid] = s
		}
		r := s.Query(q)
		fmt.Printf("[%s] %s\n", sid, q)
		if r.Err != nil {
			fmt.Printf("    ERR(%s): %v\n", eng.ErrKind(r.Err), r.Err)
		}
		for _, row := range r.Rows {
			fmt.Printf("    %v\n", row)
		}
	}
}
