// Driver for C35 (clients receive exactly the engine's results over the wire).  A real server.Server listens on
// 127.0.0.1 (ephemeral port) in front of one engine; go-sql-driver/mysql clients run generated statements in text
// and prepared (binary protocol) mode, first one client alone, then 8-16 clients concurrently with disjoint
// read-only workloads.  The handler is wrapped (server.NewServerWithHandler) only to record, per statement, the
// number of rows of every Result the real Handler passes to its callback: those batch sizes go to the Coq model
// (Phys/Pipeline.v).  The property predicate is evaluated on the implementation alone: columns, rows in order,
// affected-row counts and error numbers seen by the client equal what Engine.Query produces in process.
package main

import (
	"context"
	"database/sql"
	"errors"
	"fmt"
	"net"
	"strings"
	"sync"
	"time"

	"github.com/dolthub/vitess/go/mysql"
	"github.com/dolthub/vitess/go/sqltypes"
	gomysql "github.com/go-sql-driver/mysql"
	"github.com/sirupsen/logrus"

	"github.com/dolthub/go-mysql-server/memory"
	"github.com/dolthub/go-mysql-server/server"
	gsql "github.com/dolthub/go-mysql-server/sql"
	"github.com/dolthub/go-mysql-server/sql/types"

	"verifharness/lib"
	"verifharness/lib/eng"
)

const bigRows = 6000

// ---------- recording wrapper around the real handler ----------

type rec struct {
	mysql.Handler
	mu  sync.Mutex
	log map[uint32][][]int // connection id -> per statement: rows per callback invocation
}

func (h *rec) add(id uint32, sizes []int) {
	h.mu.Lock()
	h.log[id] = append(h.log[id], sizes)
	h.mu.Unlock()
}

func (h *rec) take(id uint32) [][]int {
	h.mu.Lock()
	defer h.mu.Unlock()
	l := h.log[id]
	delete(h.log, id)
	return l
}

func (h *rec) ComQuery(ctx context.Context, c *mysql.Conn, query string, cb mysql.ResultSpoolFn) error {
	sizes := []int{}
	err := h.Handler.ComQuery(ctx, c, query, func(r *sqltypes.Result, more bool) error {
		sizes = append(sizes, len(r.Rows))
		return cb(r, more)
	})
	h.add(c.ConnectionID, sizes)
	return err
}

func (h *rec) ComMultiQuery(ctx context.Context, c *mysql.Conn, query string, cb mysql.ResultSpoolFn) (string, error) {
	sizes := []int{}
	rem, err := h.Handler.ComMultiQuery(ctx, c, query, func(r *sqltypes.Result, more bool) error {
		sizes = append(sizes, len(r.Rows))
		return cb(r, more)
	})
	h.add(c.ConnectionID, sizes)
	return rem, err
}

func (h *rec) ComStmtExecute(ctx context.Context, c *mysql.Conn, p *mysql.PrepareData, cb func(*sqltypes.Result) error) error {
	sizes := []int{}
	err := h.Handler.ComStmtExecute(ctx, c, p, func(r *sqltypes.Result) error {
		sizes = append(sizes, len(r.Rows))
		return cb(r)
	})
	h.add(c.ConnectionID, sizes)
	return err
}

// ---------- cases ----------

type caseT struct {
	Mode   string        `json:"mode"`   // "text" | "prepared"
	Kind   string        `json:"kind"`   // range | nulls | join | union | agg | error | dml
	SQL    string        `json:"sql"`    // statement sent by the client (with ? in prepared mode)
	Args   []interface{} `json:"args,omitempty"`
	Inproc string        `json:"inproc"` // the same statement with literals, run in process
	N      int           `json:"n"`      // intended result size
	Phase  string        `json:"phase"`  // "solo" | "concurrent"
	Client int           `json:"client"`
	// observations
	GotCols  []string `json:"got_cols,omitempty"`
	GotRows  int      `json:"got_rows"`
	GotErr   string   `json:"got_err,omitempty"`
	Sizes    []int    `json:"batch_sizes,omitempty"`
	FirstBad string   `json:"first_difference,omitempty"`
}

type obs struct {
	cols     []string
	rows     []string
	errno    int
	errText  string
	affected int64
	isExec   bool
	sizes    [][]int
}

const nullMark = "\x00NULL"

func canon(v interface{}) string {
	switch x := v.(type) {
	case nil:
		return nullMark
	case []byte:
		return string(x)
	case string:
		return x
	case int64:
		return fmt.Sprintf("%d", x)
	case int32:
		return fmt.Sprintf("%d", x)
	case int:
		return fmt.Sprintf("%d", x)
	case uint64:
		return fmt.Sprintf("%d", x)
	case int8, int16, uint8, uint16, uint32:
		return fmt.Sprintf("%d", x)
	}
	return fmt.Sprintf("?%T:%v", v, v)
}

func errnoOf(err error) (int, string) {
	if err == nil {
		return 0, ""
	}
	var me *gomysql.MySQLError
	if errors.As(err, &me) {
		return int(me.Number), me.Message
	}
	return -1, err.Error()
}

// runClient executes one case on a pinned connection.
func runClient(conn *sql.Conn, cs *caseT) obs {
	var o obs
	ctx, cancel := context.WithTimeout(context.Background(), 120*time.Second)
	defer cancel()
	if cs.Kind == "dml" {
		o.isExec = true
		var res sql.Result
		var err error
		if cs.Mode == "prepared" {
			var st *sql.Stmt
			st, err = conn.PrepareContext(ctx, cs.SQL)
			if err == nil {
				res, err = st.ExecContext(ctx, cs.Args...)
				st.Close()
			}
		} else {
			res, err = conn.ExecContext(ctx, cs.SQL)
		}
		o.errno, o.errText = errnoOf(err)
		if err == nil {
			o.affected, _ = res.RowsAffected()
		}
		return o
	}
	var rows *sql.Rows
	var err error
	var st *sql.Stmt
	if cs.Mode == "prepared" {
		st, err = conn.PrepareContext(ctx, cs.SQL)
		if err == nil {
			defer st.Close()
			rows, err = st.QueryContext(ctx, cs.Args...)
		}
	} else {
		rows, err = conn.QueryContext(ctx, cs.SQL)
	}
	if err != nil {
		o.errno, o.errText = errnoOf(err)
		return o
	}
	defer rows.Close()
	o.cols, _ = rows.Columns()
	vals := make([]interface{}, len(o.cols))
	ptrs := make([]interface{}, len(o.cols))
	for i := range vals {
		ptrs[i] = &vals[i]
	}
	for rows.Next() {
		if err := rows.Scan(ptrs...); err != nil {
			o.errno, o.errText = -2, err.Error()
			return o
		}
		parts := make([]string, len(vals))
		for i, v := range vals {
			parts[i] = canon(v)
		}
		o.rows = append(o.rows, strings.Join(parts, "\x01"))
	}
	if err := rows.Err(); err != nil {
		o.errno, o.errText = errnoOf(err)
	}
	return o
}

// ---------- generators ----------

var sizes = []int{0, 1, 127, 128, 129, 255, 256, 257, 511, 512, 513, 5000}

func pickN(r *lib.RNG) int {
	switch r.Intn(10) {
	case 0:
		return r.Intn(700)
	case 1:
		return 128*r.Range(1, 6) + r.Range(-1, 1)
	default:
		return lib.Pick(r, sizes)
	}
}

func gen(r *lib.RNG) caseT {
	cs := caseT{Mode: "text"}
	if r.Bool() {
		cs.Mode = "prepared"
	}
	n := pickN(r)
	cs.N = n
	k := r.Intn(20)
	switch {
	case k < 11: // id range [lo, lo+n)
		cs.Kind = "range"
		lo := r.Intn(bigRows - n + 1)
		cols := lib.Pick(r, []string{"id, s, n, t", "id", "t, s", "n, id, s", "*"})
		cs.Inproc = fmt.Sprintf("SELECT %s FROM big WHERE id >= %d AND id < %d ORDER BY id", cols, lo, lo+n)
		cs.SQL = cs.Inproc
		if cs.Mode == "prepared" {
			cs.SQL = fmt.Sprintf("SELECT %s FROM big WHERE id >= ? AND id < ? ORDER BY id", cols)
			cs.Args = []interface{}{lo, lo + n}
		}
	case k < 13: // LIMIT
		cs.Kind = "limit"
		off := r.Intn(500)
		cs.Inproc = fmt.Sprintf("SELECT id, s FROM big ORDER BY id LIMIT %d OFFSET %d", n, off)
		cs.SQL = cs.Inproc
	case k < 15: // rows with NULLs only
		cs.Kind = "nulls"
		if n > 800 {
			n = 513
			cs.N = n
		}
		cs.Inproc = fmt.Sprintf("SELECT n, id, n FROM big WHERE n IS NULL ORDER BY id LIMIT %d", n)
		cs.SQL = cs.Inproc
	case k < 16:
		cs.Kind = "join"
		if n > 600 {
			n = 257
			cs.N = n
		}
		lo := r.Intn(bigRows - n + 1)
		cs.Inproc = fmt.Sprintf("SELECT a.id, b.s, b.t FROM big a JOIN big b ON a.id = b.id WHERE a.id >= %d AND a.id < %d ORDER BY a.id", lo, lo+n)
		cs.SQL = cs.Inproc
		if cs.Mode == "prepared" {
			cs.SQL = "SELECT a.id, b.s, b.t FROM big a JOIN big b ON a.id = b.id WHERE a.id >= ? AND a.id < ? ORDER BY a.id"
			cs.Args = []interface{}{lo, lo + n}
		}
	case k < 17:
		cs.Kind = "union"
		h := n / 2
		cs.Inproc = fmt.Sprintf("SELECT id, s FROM big WHERE id < %d UNION ALL SELECT id + 100000, t FROM big WHERE id < %d ORDER BY 1", h, n-h)
		cs.SQL = cs.Inproc
	case k < 18:
		cs.Kind = "agg"
		cs.N = 1
		cs.Inproc = fmt.Sprintf("SELECT COUNT(*), MAX(id), MIN(s), COUNT(n) FROM big WHERE id < %d", n)
		cs.SQL = cs.Inproc
		if cs.Mode == "prepared" {
			cs.SQL = "SELECT COUNT(*), MAX(id), MIN(s), COUNT(n) FROM big WHERE id < ?"
			cs.Args = []interface{}{n}
		}
	default:
		cs.Kind = "error"
		cs.N = 0
		cs.Inproc = lib.Pick(r, []string{
			"SELECT * FROM missing_table",
			"SELECT nosuchcol FROM big",
			"SELECT id FROM big WHERE",
			"SELECT id, (SELECT id FROM big) FROM big WHERE id < 3 ORDER BY id", // subquery returns more than one row: fails while spooling
		})
		cs.SQL = cs.Inproc
		cs.Mode = "text"
	}
	return cs
}

// ---------- main ----------

func engineRows(rs []gsql.Row) []string {
	out := make([]string, len(rs))
	for i, r := range rs {
		parts := make([]string, len(r))
		for j, v := range r {
			parts[j] = canonEngine(v)
		}
		out[i] = strings.Join(parts, "\x01")
	}
	return out
}

func canonEngine(v interface{}) string {
	switch x := v.(type) {
	case nil:
		return nullMark
	case string:
		return x
	case []byte:
		return string(x)
	case int, int8, int16, int32, int64, uint, uint8, uint16, uint32, uint64:
		return fmt.Sprintf("%d", x)
	case float64:
		// SUM over INT yields a float64 holding an integer value in the generated data (|sum| < 2^53)
		return fmt.Sprintf("%d", int64(x))
	case fmt.Stringer:
		return x.String()
	}
	return fmt.Sprintf("?%T:%v", v, v)
}

func main() {
	lib.Main("C35", func(c *lib.Ctx) {
		c.Header = "From Coq Require Import List NArith.\nImport ListNotations.\nFrom GMS Require Import Corr.C35.\nOpen Scope N_scope."
		c.CaseType = "C35.case"
		c.MismatchFn = "C35.mismatches"
		c.SetRule("statements over a 6000-row table (BIGINT key, VARCHAR with multi-byte text and empty strings, nullable INT, TEXT): key ranges, LIMIT/OFFSET, " +
			"NULL-only rows, self-join, UNION ALL, aggregates, failing statements; result sizes mostly from {0,1,127,128,129,255,256,257,511,512,513,5000}, " +
			"some 128k-1..128k+1 and random < 700; text and prepared mode; the fixed size list first by one client in both modes, then the generated cases " +
			"spread over 8-16 concurrent clients (each case index i goes to client i mod K); DML on twin tables by one client. " +
			"Non-trivial = a successful statement; distinct = distinct (mode, statement, arguments).")
		logrus.SetLevel(logrus.PanicLevel)

		e := eng.New("db")
		s := e.Session()
		s.MustExec("CREATE TABLE big (id BIGINT PRIMARY KEY, s VARCHAR(64), n INT, t TEXT)")
		words := []string{"alpha", "", "béta", "日本語", "with space", "q'uote", "back\\slash", "x", "tab\there", "0"}
		for lo := 0; lo < bigRows; lo += 500 {
			var sb strings.Builder
			sb.WriteString("INSERT INTO big VALUES ")
			for i := lo; i < lo+500; i++ {
				if i > lo {
					sb.WriteByte(',')
				}
				nv := "NULL"
				if i%3 != 0 {
					nv = fmt.Sprintf("%d", (i*7919)%2001-1000)
				}
				w := strings.ReplaceAll(strings.ReplaceAll(words[i%len(words)], "\\", "\\\\"), "'", "''")
				fmt.Fprintf(&sb, "(%d,'%s%d',%s,'%s')", i, w, i%97, nv, strings.Repeat(w, i%4))
			}
			s.MustExec(sb.String())
		}
		s.MustExec("CREATE TABLE w1 (id INT PRIMARY KEY, v INT)", "CREATE TABLE w2 (id INT PRIMARY KEY, v INT)")

		ln, err := net.Listen("tcp", "127.0.0.1:0")
		if err != nil {
			panic(err)
		}
		h := &rec{log: map[uint32][][]int{}}
		cfg := server.Config{Protocol: "tcp", Address: ln.Addr().String(), Listener: ln}
		srv, err := server.NewServerWithHandler(cfg, e.Engine, gsql.NewContext, memory.NewSessionBuilder(e.Pro), nil,
			func(inner mysql.Handler) (mysql.Handler, error) { h.Handler = inner; return h, nil })
		if err != nil {
			panic(err)
		}
		go func() { _ = srv.Start() }()
		defer srv.Close()
		dsn := fmt.Sprintf("root:@tcp(%s)/db?interpolateParams=false", ln.Addr().String())
		db, err := sql.Open("mysql", dsn)
		if err != nil {
			panic(err)
		}
		defer db.Close()
		db.SetMaxOpenConns(40)
		for i := 0; ; i++ {
			if err = db.Ping(); err == nil {
				break
			}
			if i > 100 {
				panic("server does not answer: " + err.Error())
			}
			time.Sleep(50 * time.Millisecond)
		}

		type slot struct {
			cs  caseT
			o   obs
			cid uint32
		}
		newConn := func() (*sql.Conn, uint32) {
			conn, err := db.Conn(context.Background())
			if err != nil {
				panic(err)
			}
			var id uint32
			if err := conn.QueryRowContext(context.Background(), "SELECT CONNECTION_ID()").Scan(&id); err != nil {
				panic(err)
			}
			h.take(id)
			return conn, id
		}
		// runs the slots of one client in order on one connection and attaches the recorded batch sizes
		runSlots := func(slots []*slot) {
			conn, id := newConn()
			defer conn.Close()
			for _, sl := range slots {
				sl.cid = id
				sl.o = runClient(conn, &sl.cs)
				sl.o.sizes = h.take(id)
			}
		}

		var all []*slot
		if c.ReplayFile != "" {
			var cs caseT
			lib.LoadReplay(c.ReplayFile, &cs)
			cs.Phase = "solo"
			all = []*slot{{cs: cs}}
			runSlots(all)
		} else {
			// phase 1: the fixed size list, text and prepared, one client
			var solo []*slot
			for _, mode := range []string{"text", "prepared"} {
				for _, n := range sizes {
					cs := caseT{Mode: mode, Kind: "range", N: n, Phase: "solo"}
					cs.Inproc = fmt.Sprintf("SELECT id, s, n, t FROM big WHERE id >= %d AND id < %d ORDER BY id", 10, 10+n)
					cs.SQL = cs.Inproc
					if mode == "prepared" {
						cs.SQL = "SELECT id, s, n, t FROM big WHERE id >= ? AND id < ? ORDER BY id"
						cs.Args = []interface{}{10, 10 + n}
					}
					solo = append(solo, &slot{cs: cs})
				}
			}
			// DML on twin tables: client on w1, in process on w2
			dml := []string{
				"INSERT INTO %s VALUES (1,10),(2,20),(3,30),(4,40)",
				"UPDATE %s SET v = v + 1 WHERE id >= 2",
				"UPDATE %s SET v = v WHERE id = 1",
				"DELETE FROM %s WHERE id = 3",
				"INSERT INTO %s VALUES (1,11)",
				"DELETE FROM %s WHERE id > 100",
			}
			for i, q := range dml {
				mode := "text"
				if i%2 == 1 {
					mode = "prepared"
				}
				solo = append(solo, &slot{cs: caseT{Mode: mode, Kind: "dml", Phase: "solo", SQL: fmt.Sprintf(q, "w1"), Inproc: fmt.Sprintf(q, "w2")}})
			}
			runSlots(solo)
			all = append(all, solo...)
			// phase 2: generated cases over K concurrent clients
			K := c.R.Range(8, 16)
			c.SetExtra("concurrent_clients", K)
			per := make([][]*slot, K)
			for i := len(all); i < c.N; i++ {
				cs := gen(c.R.Fork())
				cs.Phase = "concurrent"
				k := i % K
				cs.Client = k
				sl := &slot{cs: cs}
				per[k] = append(per[k], sl)
				all = append(all, sl)
			}
			var wg sync.WaitGroup
			for k := 0; k < K; k++ {
				wg.Add(1)
				go func(k int) { defer wg.Done(); runSlots(per[k]) }(k)
			}
			wg.Wait()
		}

		// evaluation, in case order
		for _, sl := range all {
			cs := sl.cs
			o := sl.o
			exp := s.Query(cs.Inproc)
			cs.GotCols, cs.GotRows = o.cols, len(o.rows)
			if o.errno != 0 {
				cs.GotErr = fmt.Sprintf("%d %s", o.errno, o.errText)
			}
			if len(o.sizes) == 1 {
				cs.Sizes = o.sizes[0]
			} else if cs.Mode == "prepared" && len(o.sizes) >= 1 {
				cs.Sizes = o.sizes[len(o.sizes)-1]
			}
			c.Count("mode:" + cs.Mode)
			c.Count("kind:" + cs.Kind)
			c.Count("phase:" + cs.Phase)
			key := ""
			if exp.Err == nil {
				key = fmt.Sprintf("%s|%s|%v", cs.Mode, cs.SQL, cs.Args)
			}
			var id int
			if exp.Err == nil && cs.Kind != "dml" && cs.Kind != "error" && cs.Sizes != nil && cs.Kind != "agg" {
				c.Count(fmt.Sprintf("rows:%d", len(exp.Rows)))
				term := lib.CoqTuple(lib.CoqN(uint64(len(exp.Rows))), lib.CoqListOf(cs.Sizes, func(x int) string { return lib.CoqN(uint64(x)) }))
				id = c.Case(term, cs, key)
			} else {
				id = c.CaseNoModel(cs, key)
			}
			c.PredChecked()
			fail := func(sig, what string) {
				cs.FirstBad = what
				c.PredFail(id, sig, fmt.Sprintf("%s mode, %s (client %d, %s): %s", cs.Mode, cs.SQL, cs.Client, cs.Phase, what), cs)
			}
			// errors: both fail with the same MySQL error number, or neither fails
			if exp.Err != nil || o.errno != 0 {
				want := 0
				if exp.Err != nil {
					want = int(gsql.CastSQLError(exp.Err).Number())
				}
				if (exp.Err != nil) != (o.errno != 0) || (want != o.errno) {
					fail("error-differs/"+cs.Kind, fmt.Sprintf("client error %d %q, in-process error %v (errno %d)", o.errno, o.errText, exp.Err, want))
				}
				continue
			}
			if cs.Kind == "dml" {
				var want int64 = -1
				if len(exp.Rows) == 1 && len(exp.Rows[0]) == 1 {
					if ok, isOk := exp.Rows[0][0].(types.OkResult); isOk {
						want = int64(ok.RowsAffected)
					}
				}
				if want != o.affected {
					fail("affected-rows-differ", fmt.Sprintf("client affected %d, in process %d", o.affected, want))
				}
				continue
			}
			// columns
			wantCols := make([]string, len(exp.Schema))
			for i, col := range exp.Schema {
				wantCols[i] = col.Name
			}
			if strings.Join(wantCols, "\x01") != strings.Join(o.cols, "\x01") {
				fail("columns-differ", fmt.Sprintf("client columns %q, in process %q", o.cols, wantCols))
				continue
			}
			want := engineRows(exp.Rows)
			if len(want) != len(o.rows) {
				sig := "row-count-differs/lost"
				if len(o.rows) > len(want) {
					sig = "row-count-differs/extra"
				}
				fail(sig, fmt.Sprintf("client received %d rows, in process %d", len(o.rows), len(want)))
				continue
			}
			for i := range want {
				if want[i] != o.rows[i] {
					fail("row-differs", fmt.Sprintf("row %d: client %q, in process %q", i, o.rows[i], want[i]))
					break
				}
			}
		}
	})
}
