// Driver for C35 (clients receive exactly the engine's results over the wire).  A real server.Server listens on
// 127.0.0.1 (ephemeral port) in front of one engine; go-sql-driver/mysql clients run generated statements in text
// and prepared (binary protocol) mode, first one client alone, then 8-16 clients concurrently with disjoint
// read-only workloads.  The handler is wrapped (server.NewServerWithHandler) only to record, per statement, the
// number of rows of every Result the real Handler passes to its callback: those batch sizes go to the Coq model
// (Phys/Pipeline.v).  The property predicate is evaluated on the implementation alone: columns, rows in order,
// affected-row counts and error numbers seen by the client equal what Engine.Query produces in process.
package main

import (
	"context"
	"database/sql"
	"database/sql/driver"
	"errors"
	"fmt"
	"net"
	"os"
	"regexp"
	"strings"
	"sync"
	"time"

	"github.com/cockroachdb/apd/v3"

	"github.com/dolthub/vitess/go/mysql"
	"github.com/dolthub/vitess/go/sqltypes"
	gomysql "github.com/go-sql-driver/mysql"
	"github.com/sirupsen/logrus"

	"github.com/dolthub/go-mysql-server/memory"
	"github.com/dolthub/go-mysql-server/server"
	gsql "github.com/dolthub/go-mysql-server/sql"
	"github.com/dolthub/go-mysql-server/sql/types"

	"verifharness/lib"
	"verifharness/lib/eng"
)

const bigRows = 6000
const pcRows = 1040 // rows of every per-client payload table
const valRows = 640 // rows of the value-coverage table
const maxClients = 16

// ---------- recording wrapper around the real handler ----------

type rec struct {
	mysql.Handler
	mu  sync.Mutex
	log map[uint32][][]int // connection id -> per statement: rows per callback invocation
}

func (h *rec) add(id uint32, sizes []int) {
	h.mu.Lock()
	h.log[id] = append(h.log[id], sizes)
	h.mu.Unlock()
}

func (h *rec) take(id uint32) [][]int {
	h.mu.Lock()
	defer h.mu.Unlock()
	l := h.log[id]
	delete(h.log, id)
	return l
}

func (h *rec) ComQuery(ctx context.Context, c *mysql.Conn, query string, cb mysql.ResultSpoolFn) error {
	sizes := []int{}
	err := h.Handler.ComQuery(ctx, c, query, func(r *sqltypes.Result, more bool) error {
		sizes = append(sizes, len(r.Rows))
		return cb(r, more)
	})
	h.add(c.ConnectionID, sizes)
	return err
}

func (h *rec) ComMultiQuery(ctx context.Context, c *mysql.Conn, query string, cb mysql.ResultSpoolFn) (string, error) {
	sizes := []int{}
	rem, err := h.Handler.ComMultiQuery(ctx, c, query, func(r *sqltypes.Result, more bool) error {
		sizes = append(sizes, len(r.Rows))
		return cb(r, more)
	})
	h.add(c.ConnectionID, sizes)
	return rem, err
}

func (h *rec) ComStmtExecute(ctx context.Context, c *mysql.Conn, p *mysql.PrepareData, cb func(*sqltypes.Result) error) error {
	sizes := []int{}
	err := h.Handler.ComStmtExecute(ctx, c, p, func(r *sqltypes.Result) error {
		sizes = append(sizes, len(r.Rows))
		return cb(r)
	})
	h.add(c.ConnectionID, sizes)
	return err
}

// smallLn accepts connections with a small kernel send buffer, so that a result larger than a few kilobytes keeps
// the server inside its write until the client reads (slow or small-windowed clients are ordinary TCP behaviour).
var sockBuf = 16384
var wideLo, wideHi = 10, 40

type smallLn struct{ net.Listener }

func (l smallLn) Accept() (net.Conn, error) {
	c, err := l.Listener.Accept()
	if tc, ok := c.(*net.TCPConn); ok && err == nil {
		_ = tc.SetWriteBuffer(sockBuf)
	}
	return c, err
}

func init() {
	if v := os.Getenv("C35_BUF"); v != "" {
		fmt.Sscan(v, &sockBuf)
	}
	if v := os.Getenv("C35_WIDE"); v != "" {
		fmt.Sscan(v, &wideLo, &wideHi)
	}
	gomysql.RegisterDialContext("tcpsmall", func(ctx context.Context, addr string) (net.Conn, error) {
		var d net.Dialer
		c, err := d.DialContext(ctx, "tcp", addr)
		if tc, ok := c.(*net.TCPConn); ok && err == nil {
			_ = tc.SetReadBuffer(sockBuf)
		}
		return c, err
	})
}

// ---------- cases ----------

type caseT struct {
	Mode   string        `json:"mode"`   // "text" | "prepared"
	Kind   string        `json:"kind"`   // range | nulls | join | union | agg | error | dml
	SQL    string        `json:"sql"`    // statement sent by the client (with ? in prepared mode)
	Args   []interface{} `json:"args,omitempty"`
	Inproc string        `json:"inproc"` // the same statement with literals, run in process
	N      int           `json:"n"`      // intended result size
	Phase  string        `json:"phase"`  // "solo" | "concurrent"
	Client int           `json:"client"`
	Slow   int           `json:"client_read_delay_us,omitempty"` // the client waits this long before reading the rows
	// observations
	GotCols  []string `json:"got_cols,omitempty"`
	GotRows  int      `json:"got_rows"`
	GotErr   string   `json:"got_err,omitempty"`
	Sizes    []int    `json:"batch_sizes,omitempty"`
	FirstBad string   `json:"first_difference,omitempty"`
}

type obs struct {
	cols     []string
	rows     []string
	cells    [][]string
	errno    int
	errText  string
	affected int64
	isExec   bool
	sizes    [][]int
}

const nullMark = "\x00NULL"

func canon(v interface{}) string {
	switch x := v.(type) {
	case nil:
		return nullMark
	case []byte:
		return string(x)
	case string:
		return x
	case int64:
		return fmt.Sprintf("%d", x)
	case int32:
		return fmt.Sprintf("%d", x)
	case int:
		return fmt.Sprintf("%d", x)
	case uint64:
		return fmt.Sprintf("%d", x)
	case int8, int16, uint8, uint16, uint32:
		return fmt.Sprintf("%d", x)
	}
	return fmt.Sprintf("?%T:%v", v, v)
}

func errnoOf(err error) (int, string) {
	if err == nil {
		return 0, ""
	}
	var me *gomysql.MySQLError
	if errors.As(err, &me) {
		return int(me.Number), me.Message
	}
	return -1, err.Error()
}

// runClient executes one case on a pinned connection.
func runClient(conn *sql.Conn, cs *caseT) obs {
	var o obs
	ctx, cancel := context.WithTimeout(context.Background(), 120*time.Second)
	defer cancel()
	if cs.Kind == "dml" {
		o.isExec = true
		var res sql.Result
		var err error
		if cs.Mode == "prepared" {
			var st *sql.Stmt
			st, err = conn.PrepareContext(ctx, cs.SQL)
			if err == nil {
				res, err = st.ExecContext(ctx, cs.Args...)
				st.Close()
			}
		} else {
			res, err = conn.ExecContext(ctx, cs.SQL)
		}
		o.errno, o.errText = errnoOf(err)
		if err == nil {
			o.affected, _ = res.RowsAffected()
		}
		return o
	}
	var rows *sql.Rows
	var err error
	var st *sql.Stmt
	if cs.Mode == "prepared" {
		st, err = conn.PrepareContext(ctx, cs.SQL)
		if err == nil {
			defer st.Close()
			rows, err = st.QueryContext(ctx, cs.Args...)
		}
	} else {
		rows, err = conn.QueryContext(ctx, cs.SQL)
	}
	if err != nil {
		o.errno, o.errText = errnoOf(err)
		return o
	}
	defer rows.Close()
	if cs.Slow > 0 {
		time.Sleep(time.Duration(cs.Slow) * time.Microsecond)
	}
	o.cols, _ = rows.Columns()
	vals := make([]interface{}, len(o.cols))
	ptrs := make([]interface{}, len(o.cols))
	for i := range vals {
		ptrs[i] = &vals[i]
	}
	for rows.Next() {
		if err := rows.Scan(ptrs...); err != nil {
			o.errno, o.errText = -2, err.Error()
			return o
		}
		parts := make([]string, len(vals))
		for i, v := range vals {
			parts[i] = canon(v)
		}
		o.rows = append(o.rows, strings.Join(parts, "\x01"))
		o.cells = append(o.cells, parts)
	}
	if err := rows.Err(); err != nil {
		o.errno, o.errText = errnoOf(err)
	}
	return o
}

// ---------- generators ----------

var sizes = []int{0, 1, 127, 128, 129, 255, 256, 257, 511, 512, 513, 5000}

func pickN(r *lib.RNG) int {
	switch r.Intn(10) {
	case 0:
		return r.Intn(700)
	case 1:
		return 128*r.Range(1, 6) + r.Range(-1, 1)
	default:
		return lib.Pick(r, sizes)
	}
}

// genFor generates one modelled case for client k: every statement of the concurrent phase reads only the
// client's own payload table pc_k (distinct, client-specific bytes in every row), so foreign bytes are recognisable.
func genFor(r *lib.RNG, k int) caseT {
	cs := caseT{Mode: "text"}
	if r.Bool() {
		cs.Mode = "prepared"
	}
	n := pickN(r)
	if n > pcRows {
		n = lib.Pick(r, []int{1023, 1024, 1025, pcRows})
	}
	cs.N = n
	tbl := fmt.Sprintf("pc_%d", k)
	kind := r.Intn(20)
	switch {
	case kind < 12: // id range [lo, lo+n)
		cs.Kind = "range"
		lo := r.Intn(pcRows - n + 1)
		cols := lib.Pick(r, []string{"id, tag, n, u, d", "u, tag", "tag", "d, u, n, id", "*"})
		cs.Inproc = fmt.Sprintf("SELECT %s FROM %s WHERE id >= %d AND id < %d ORDER BY id", cols, tbl, lo, lo+n)
		cs.SQL = cs.Inproc
		if cs.Mode == "prepared" {
			cs.SQL = fmt.Sprintf("SELECT %s FROM %s WHERE id >= ? AND id < ? ORDER BY id", cols, tbl)
			cs.Args = []interface{}{lo, lo + n}
		}
	case kind < 14:
		cs.Kind = "limit"
		off := r.Intn(200)
		if n+off > pcRows {
			n = pcRows - off
			cs.N = n
		}
		cs.Inproc = fmt.Sprintf("SELECT id, tag, u FROM %s ORDER BY id LIMIT %d OFFSET %d", tbl, n, off)
		cs.SQL = cs.Inproc
	case kind < 15: // rows whose tag is NULL
		cs.Kind = "nulls"
		cs.Inproc = fmt.Sprintf("SELECT tag, id, u FROM %s WHERE tag IS NULL ORDER BY id", tbl)
		cs.SQL = cs.Inproc
	case kind < 16:
		cs.Kind = "join"
		if n > 600 {
			n = 257
			cs.N = n
		}
		lo := r.Intn(pcRows - n + 1)
		cs.Inproc = fmt.Sprintf("SELECT a.id, b.tag, b.u FROM %s a JOIN %s b ON a.id = b.id WHERE a.id >= %d AND a.id < %d ORDER BY a.id", tbl, tbl, lo, lo+n)
		cs.SQL = cs.Inproc
		if cs.Mode == "prepared" {
			cs.SQL = fmt.Sprintf("SELECT a.id, b.tag, b.u FROM %s a JOIN %s b ON a.id = b.id WHERE a.id >= ? AND a.id < ? ORDER BY a.id", tbl, tbl)
			cs.Args = []interface{}{lo, lo + n}
		}
	case kind < 17:
		cs.Kind = "union"
		h := n / 2
		cs.Inproc = fmt.Sprintf("SELECT id, tag FROM %s WHERE id < %d UNION ALL SELECT id + 100000, tag FROM %s WHERE id < %d ORDER BY 1", tbl, h, tbl, n-h)
		cs.SQL = cs.Inproc
	case kind < 18:
		cs.Kind = "agg"
		cs.N = 1
		cs.Inproc = fmt.Sprintf("SELECT COUNT(*), MAX(u), MIN(tag), COUNT(tag), MIN(n) FROM %s WHERE id < %d", tbl, n)
		cs.SQL = cs.Inproc
		if cs.Mode == "prepared" {
			cs.SQL = fmt.Sprintf("SELECT COUNT(*), MAX(u), MIN(tag), COUNT(tag), MIN(n) FROM %s WHERE id < ?", tbl)
			cs.Args = []interface{}{n}
		}
	default:
		cs.Kind = "error"
		cs.N = 0
		cs.Inproc = lib.Pick(r, []string{
			"SELECT * FROM missing_table",
			"SELECT nosuchcol FROM " + tbl,
			"SELECT id FROM " + tbl + " WHERE",
			"SELECT id, (SELECT id FROM " + tbl + ") FROM " + tbl + " WHERE id < 3 ORDER BY id", // fails while spooling
		})
		cs.SQL = cs.Inproc
		cs.Mode = "text"
	}
	return cs
}

// soakFor: a short statement with a trailing partial batch (never a multiple of 128 rows) on the client's table.
func soakFor(r *lib.RNG, k int) caseT {
	cs := caseT{Mode: "text", Kind: "soak", Phase: "concurrent", Client: k}
	if r.Bool() {
		cs.Mode = "prepared"
	}
	n := r.Range(1, 127)
	if r.Chance(1, 5) {
		n += 128 * r.Range(1, 2)
	}
	cols := "id, tag, n, u, d"
	if r.Chance(1, 4) {
		// wide rows: the trailing batch is larger than the connection's write buffer, and the client is slow to
		// read, so the server is still writing it while other connections run
		cols = fmt.Sprintf("id, REPEAT(tag, %d) AS wide, u, tag", r.Range(wideLo, wideHi))
		n = r.Range(60, 127)
		cs.Slow = r.Range(200, 2500)
	}
	cs.N = n
	lo := r.Intn(pcRows - n + 1)
	tbl := fmt.Sprintf("pc_%d", k)
	cs.Inproc = fmt.Sprintf("SELECT %s FROM %s WHERE id >= %d AND id < %d ORDER BY id", cols, tbl, lo, lo+n)
	cs.SQL = cs.Inproc
	if cs.Mode == "prepared" {
		cs.SQL = fmt.Sprintf("SELECT %s FROM %s WHERE id >= ? AND id < ? ORDER BY id", cols, tbl)
		cs.Args = []interface{}{lo, lo + n}
	}
	return cs
}

// ---------- canonical text of engine values (the oracle side of the comparison) ----------

// canonEngine prints an in-process value the way MySQL puts it on the wire for the column type: integers in
// decimal (unsigned ones unsigned), DECIMAL in plain notation with the column scale, DATE as YYYY-MM-DD,
// DATETIME as YYYY-MM-DD hh:mm:ss[.ffffff] with the column's fractional digits, strings and binary as their bytes.
func canonEngine(v interface{}, typ gsql.Type) string {
	switch x := v.(type) {
	case nil:
		return nullMark
	case string:
		return x
	case []byte:
		return string(x)
	case int, int8, int16, int32, int64, uint, uint8, uint16, uint32, uint64:
		return fmt.Sprintf("%d", x)
	case *apd.Decimal:
		return x.Text('f')
	case apd.Decimal:
		return x.Text('f')
	case time.Time:
		ts := strings.ToLower(typ.String())
		if strings.HasPrefix(ts, "date") && !strings.HasPrefix(ts, "datetime") {
			return x.Format("2006-01-02")
		}
		if strings.Contains(ts, "(6)") {
			return x.Format("2006-01-02 15:04:05.000000")
		}
		return x.Format("2006-01-02 15:04:05")
	case fmt.Stringer:
		return x.String()
	}
	return fmt.Sprintf("?%T:%v", v, v)
}

func engineCells(rs []gsql.Row, sch gsql.Schema) [][]string {
	out := make([][]string, len(rs))
	for i, r := range rs {
		parts := make([]string, len(r))
		for j, v := range r {
			parts[j] = canonEngine(v, sch[j].Type)
		}
		out[i] = parts
	}
	return out
}

// classOf names the class of a column type for the signature of a value mismatch.
func classOf(typ gsql.Type, want string) string {
	ts := strings.ToLower(typ.String())
	switch {
	case want == nullMark:
		return "null"
	case strings.Contains(ts, "unsigned"):
		w := strings.Fields(ts)[0]
		if w == "bigint" && len(want) >= 19 && (len(want) > 19 || want >= "9223372036854775808") {
			return "bigint-unsigned/above-int64"
		}
		return w + "-unsigned"
	case strings.HasPrefix(ts, "tinyint"), strings.HasPrefix(ts, "smallint"), strings.HasPrefix(ts, "mediumint"), strings.HasPrefix(ts, "int"), strings.HasPrefix(ts, "bigint"):
		sign := "nonneg"
		if strings.HasPrefix(want, "-") {
			sign = "negative"
		}
		return strings.Fields(strings.Split(ts, "(")[0])[0] + "-signed/" + sign
	case strings.HasPrefix(ts, "decimal"):
		return "decimal"
	case strings.HasPrefix(ts, "datetime"), strings.HasPrefix(ts, "timestamp"):
		if want < "1000" {
			return "datetime/year-below-1000"
		}
		return "datetime"
	case strings.HasPrefix(ts, "date"):
		if len(want) >= 4 && want[:4] < "1000" {
			return "date/year-below-1000"
		}
		return "date"
	case strings.HasPrefix(ts, "year"):
		return "year"
	case strings.Contains(ts, "binary"), strings.Contains(ts, "blob"):
		return "binary"
	default:
		kind := "ascii"
		for i := 0; i < len(want); i++ {
			if want[i] == 0 {
				kind = "with-nul"
				break
			}
			if want[i] >= 0x80 {
				kind = "multi-byte"
			}
		}
		return "string/" + kind
	}
}

var foreignTag = regexp.MustCompile(`cl(\d\d)\|`)

// foreign reports whether the received cell carries the payload tag of another client.
func foreign(cell string, client int) bool {
	for _, m := range foreignTag.FindAllStringSubmatch(cell, -1) {
		if m[1] != fmt.Sprintf("%02d", client) {
			return true
		}
	}
	return false
}

func sqlStr(s string) string {
	var sb strings.Builder
	sb.WriteByte('\'')
	for i := 0; i < len(s); i++ {
		switch c := s[i]; c {
		case '\\':
			sb.WriteString(`\\`)
		case '\'':
			sb.WriteString(`''`)
		case 0:
			sb.WriteString(`\0`)
		default:
			sb.WriteByte(c)
		}
	}
	sb.WriteByte('\'')
	return sb.String()
}

// ---------- main ----------

func main() {
	lib.Main("C35", func(c *lib.Ctx) {
		c.Header = "From Coq Require Import List NArith.\nImport ListNotations.\nFrom GMS Require Import Corr.C35.\nOpen Scope N_scope."
		c.CaseType = "C35.case"
		c.MismatchFn = "C35.mismatches"
		c.SetRule("solo phase (one client, text and prepared mode): key ranges of a 6000-row table with result sizes {0,1,127,128,129,255,256,257,511,512,513,5000}; " +
			"full scans and ranges of a 640-row value table holding the boundary values of TINYINT..BIGINT signed/unsigned, DECIMAL(20,5)/(65,0), VARCHAR/TEXT with " +
			"multi-byte and NUL bytes, VARBINARY, DATE, DATETIME, DATETIME(6), YEAR and NULLs; DML on twin tables; failing statements; DATE below year 1000 (known finding). " +
			"Concurrent phase: 8-16 clients, each reading only its own 1040-row payload table (client tag in every string, client-specific BIGINT/BIGINT UNSIGNED >= 2^63/DECIMAL): " +
			"generated ranges, LIMIT, NULL rows, self-join, UNION ALL, aggregates, errors with sizes around every multiple of 128, then a soak of several hundred short " +
			"statements per client whose last batch is partial (predicate only). Every received VALUE is compared with the in-process value. " +
			"Non-trivial = a successful statement; distinct = distinct (mode, statement, arguments).")
		logrus.SetLevel(logrus.PanicLevel)

		t0 := time.Now()
		e := eng.New("db")
		s := e.Session()
		s.MustExec("CREATE TABLE big (id BIGINT PRIMARY KEY, s VARCHAR(64), n INT, t TEXT)")
		words := []string{"alpha", "", "béta", "日本語", "with space", "q'uote", "back\\slash", "x", "tab\there", "0"}
		for lo := 0; lo < bigRows; lo += 500 {
			var sb strings.Builder
			sb.WriteString("INSERT INTO big VALUES ")
			for i := lo; i < lo+500; i++ {
				if i > lo {
					sb.WriteByte(',')
				}
				nv := "NULL"
				if i%3 != 0 {
					nv = fmt.Sprintf("%d", (i*7919)%2001-1000)
				}
				fmt.Fprintf(&sb, "(%d,%s,%s,%s)", i, sqlStr(fmt.Sprintf("%s%d", words[i%len(words)], i%97)), nv, sqlStr(strings.Repeat(words[i%len(words)], i%4)))
			}
			s.MustExec(sb.String())
		}
		s.MustExec("CREATE TABLE w1 (id INT PRIMARY KEY, v INT)", "CREATE TABLE w2 (id INT PRIMARY KEY, v INT)")

		// value-coverage table: every column cycles through its own pool (pool lengths pairwise different)
		s.MustExec(`CREATE TABLE vals (id INT PRIMARY KEY, i8 TINYINT, u8 TINYINT UNSIGNED, i16 SMALLINT, u16 SMALLINT UNSIGNED, i24 MEDIUMINT, u24 MEDIUMINT UNSIGNED,
			i32 INT, u32 INT UNSIGNED, i64 BIGINT, u64 BIGINT UNSIGNED, d1 DECIMAL(20,5), d2 DECIMAL(65,0), s VARCHAR(64), b VARBINARY(32), tx TEXT,
			dt DATE, dtm DATETIME(6), dtm0 DATETIME, yr YEAR)`)
		pools := [][]string{
			{"-128", "127", "0", "-1", "NULL", "1"},
			{"255", "0", "128", "127", "NULL"},
			{"-32768", "32767", "0", "-1", "NULL", "256", "-129"},
			{"65535", "0", "32768", "NULL"},
			{"-8388608", "8388607", "0", "-1", "NULL", "65536", "-32769", "1"},
			{"16777215", "0", "8388608", "NULL", "1"},
			{"-2147483648", "2147483647", "0", "-1", "NULL", "16777216", "-8388609"},
			{"4294967295", "0", "2147483648", "2147483647", "NULL", "1"},
			{"-9223372036854775808", "9223372036854775807", "0", "-1", "NULL", "4294967296", "-2147483649", "1", "-9223372036854775807"},
			{"18446744073709551615", "9223372036854775808", "9223372036854775807", "0", "NULL", "18446744073709551614", "1", "9223372036854775809", "4294967296", "12345678901234567890"},
			{"-123456789012345.67891", "0.00001", "0", "NULL", "999999999999999.99999", "-0.00001", "1.5"},
			{"99999999999999999999999999999999999999999999999999999999999999999", "-1", "0", "NULL", "-99999999999999999999999999999999999999999999999999999999999999999"},
			{sqlStr("日本\x00x"), "''", "NULL", sqlStr("é"), sqlStr("plain"), sqlStr("a\x00\x00b"), sqlStr("NULL"), sqlStr("𝄞 clef"), sqlStr(" lead and trail ")},
			{"X'00FF10'", "X''", "NULL", "X'80'", "X'C328'", "X'000000'", "X'7F'"},
			{sqlStr("é"), "''", "NULL", sqlStr(strings.Repeat("long text ", 30)), sqlStr("x\x00y")},
			{"'9999-12-31'", "'1000-01-01'", "'2024-02-29'", "NULL", "'1970-01-01'"},
			{"'2024-02-29 23:59:59.999999'", "'1970-01-01 00:00:00.000001'", "NULL", "'9999-12-31 23:59:59.999999'", "'1000-01-01 00:00:00.000000'", "'2001-02-03 04:05:06.100000'"},
			{"'1000-01-01 00:00:00'", "'2038-01-19 03:14:07'", "NULL", "'9999-12-31 23:59:59'"},
			{"2155", "1901", "NULL", "2000", "1970"},
		}
		for lo := 0; lo < valRows; lo += 160 {
			var sb strings.Builder
			sb.WriteString("INSERT INTO vals VALUES ")
			for i := lo; i < lo+160; i++ {
				if i > lo {
					sb.WriteByte(',')
				}
				fmt.Fprintf(&sb, "(%d", i)
				for j, pl := range pools {
					sb.WriteByte(',')
					sb.WriteString(pl[(i+j*(i/len(pl)))%len(pl)])
				}
				sb.WriteByte(')')
			}
			s.MustExec(sb.String())
		}
		s.MustExec("CREATE TABLE olddate (id INT PRIMARY KEY, d DATE)", "INSERT INTO olddate VALUES (1, '0001-01-01'), (2, '0999-12-31')")
		// per-client payload tables
		K := c.R.Range(8, maxClients)
		if c.ReplayFile != "" {
			K = maxClients
		}
		for k := 0; k < K; k++ {
			s.MustExec(fmt.Sprintf("CREATE TABLE pc_%d (id INT PRIMARY KEY, tag VARCHAR(64), n BIGINT, u BIGINT UNSIGNED, d DECIMAL(20,5))", k))
			for lo := 0; lo < pcRows; lo += 500 {
				var sb strings.Builder
				fmt.Fprintf(&sb, "INSERT INTO pc_%d VALUES ", k)
				for i := lo; i < lo+500; i++ {
					if i > lo {
						sb.WriteByte(',')
					}
					tag := "NULL"
					if i%37 != 36 {
						tag = sqlStr(fmt.Sprintf("cl%02d|row%05d|%s", k, i, strings.Repeat(string(rune('A'+k)), i%23)))
					}
					fmt.Fprintf(&sb, "(%d,%s,%d,%d,%d.%05d)", i, tag, int64(k)*1000000000+int64(i), uint64(18446744073709551615)-uint64(k*1000000+i), k, i)
				}
				s.MustExec(sb.String())
			}
		}

		if os.Getenv("C35_TIMING") != "" {
			fmt.Fprintln(os.Stderr, "setup done", time.Since(t0))
		}
		ln, err := net.Listen("tcp", "127.0.0.1:0")
		if err != nil {
			panic(err)
		}
		h := &rec{log: map[uint32][][]int{}}
		cfg := server.Config{Protocol: "tcp", Address: ln.Addr().String(), Listener: smallLn{ln}}
		srv, err := server.NewServerWithHandler(cfg, e.Engine, gsql.NewContext, memory.NewSessionBuilder(e.Pro), nil,
			func(inner mysql.Handler) (mysql.Handler, error) { h.Handler = inner; return h, nil })
		if err != nil {
			panic(err)
		}
		go func() { _ = srv.Start() }()
		defer srv.Close()
		dsn := fmt.Sprintf("root:@tcpsmall(%s)/db?interpolateParams=false", ln.Addr().String())
		db, err := sql.Open("mysql", dsn)
		if err != nil {
			panic(err)
		}
		defer db.Close()
		db.SetMaxOpenConns(64)
		for i := 0; ; i++ {
			if err = db.Ping(); err == nil {
				break
			}
			if i > 100 {
				panic("server does not answer: " + err.Error())
			}
			time.Sleep(50 * time.Millisecond)
		}

		type slot struct {
			cs    caseT
			o     obs
			fresh bool // run on a connection of its own (the statement may kill it)
		}
		newConn := func() (*sql.Conn, uint32) {
			conn, err := db.Conn(context.Background())
			if err != nil {
				panic(err)
			}
			var id uint32
			if err := conn.QueryRowContext(context.Background(), "SELECT CONNECTION_ID()").Scan(&id); err != nil {
				panic(err)
			}
			h.take(id)
			return conn, id
		}
		// runs the slots of one client in order on one connection and attaches the recorded batch sizes
		runSlots := func(slots []*slot) {
			conn, id := newConn()
			defer func() { conn.Close() }()
			for _, sl := range slots {
				if sl.fresh {
					c2, id2 := newConn()
					sl.o = runClient(c2, &sl.cs)
					sl.o.sizes = h.take(id2)
					c2.Raw(func(interface{}) error { return driver.ErrBadConn })
					c2.Close()
					continue
				}
				sl.o = runClient(conn, &sl.cs)
				sl.o.sizes = h.take(id)
				if sl.o.errno < 0 { // connection-level failure: continue on a new connection
					conn.Close()
					conn, id = newConn()
				}
			}
		}

		var all []*slot   // modelled / individually recorded cases
		var soak [][]*slot // per client, predicate only
		if c.ReplayFile != "" {
			var cs caseT
			lib.LoadReplay(c.ReplayFile, &cs)
			cs.Phase = "solo"
			all = []*slot{{cs: cs, fresh: true}}
			runSlots(all)
		} else {
			// ----- solo phase -----
			var solo []*slot
			for _, mode := range []string{"text", "prepared"} {
				for _, n := range sizes {
					cs := caseT{Mode: mode, Kind: "range", N: n, Phase: "solo"}
					cs.Inproc = fmt.Sprintf("SELECT id, s, n, t FROM big WHERE id >= %d AND id < %d ORDER BY id", 10, 10+n)
					cs.SQL = cs.Inproc
					if mode == "prepared" {
						cs.SQL = "SELECT id, s, n, t FROM big WHERE id >= ? AND id < ? ORDER BY id"
						cs.Args = []interface{}{10, 10 + n}
					}
					solo = append(solo, &slot{cs: cs})
				}
				// value coverage
				for _, rg := range [][2]int{{0, valRows}, {0, 1}, {100, 228}, {17, 146}, {300, 600}} {
					cs := caseT{Mode: mode, Kind: "values", N: rg[1] - rg[0], Phase: "solo"}
					cs.Inproc = fmt.Sprintf("SELECT * FROM vals WHERE id >= %d AND id < %d ORDER BY id", rg[0], rg[1])
					cs.SQL = cs.Inproc
					if mode == "prepared" {
						cs.SQL = "SELECT * FROM vals WHERE id >= ? AND id < ? ORDER BY id"
						cs.Args = []interface{}{rg[0], rg[1]}
					}
					solo = append(solo, &slot{cs: cs})
				}
				cs := caseT{Mode: mode, Kind: "values", N: valRows, Phase: "solo"}
				cs.Inproc = "SELECT u64, i64, u32, i8, d1, s, b, dtm, MAX(id) FROM vals GROUP BY u64, i64, u32, i8, d1, s, b, dtm ORDER BY MAX(id)"
				cs.SQL = cs.Inproc
				if mode == "prepared" {
					cs.SQL = "SELECT u64, i64, u32, i8, d1, s, b, dtm, MAX(id) FROM vals WHERE id >= ? GROUP BY u64, i64, u32, i8, d1, s, b, dtm ORDER BY MAX(id)"
					cs.Args = []interface{}{0}
				}
				solo = append(solo, &slot{cs: cs})
				// known finding: DATE below year 1000
				od := caseT{Mode: mode, Kind: "olddate", N: 2, Phase: "solo", Inproc: "SELECT id, d FROM olddate ORDER BY id", SQL: "SELECT id, d FROM olddate ORDER BY id"}
				if mode == "prepared" {
					od.SQL = "SELECT id, d FROM olddate WHERE id >= ? ORDER BY id"
					od.Args = []interface{}{0}
				}
				solo = append(solo, &slot{cs: od, fresh: true})
			}
			for _, q := range []string{"SELECT * FROM missing_table", "SELECT nosuchcol FROM big", "SELECT id FROM big WHERE",
				"SELECT id, (SELECT id FROM big) FROM big WHERE id < 3 ORDER BY id", "INSERT INTO big VALUES (1, 'dup', NULL, 'dup')"} {
				solo = append(solo, &slot{cs: caseT{Mode: "text", Kind: "error", Phase: "solo", SQL: q, Inproc: q}})
			}
			dml := []string{
				"INSERT INTO %s VALUES (1,10),(2,20),(3,30),(4,40)",
				"UPDATE %s SET v = v + 1 WHERE id >= 2",
				"UPDATE %s SET v = v WHERE id = 1",
				"DELETE FROM %s WHERE id = 3",
				"INSERT INTO %s VALUES (1,11)",
				"DELETE FROM %s WHERE id > 100",
			}
			for i, q := range dml {
				mode := "text"
				if i%2 == 1 {
					mode = "prepared"
				}
				solo = append(solo, &slot{cs: caseT{Mode: mode, Kind: "dml", Phase: "solo", SQL: fmt.Sprintf(q, "w1"), Inproc: fmt.Sprintf(q, "w2")}})
			}
			runSlots(solo)
			all = append(all, solo...)
			if os.Getenv("C35_TIMING") != "" {
				fmt.Fprintln(os.Stderr, "solo done", time.Since(t0))
			}

			// ----- concurrent phase -----
			nsoak := 150
			if c.Tier == "thorough" {
				nsoak = 4000
			}
			c.SetExtra("concurrent_clients", K)
			c.SetExtra("soak_statements_per_client", nsoak)
			per := make([][]*slot, K)
			for i := len(all); i < c.N; i++ {
				k := i % K
				cs := genFor(c.R.Fork(), k)
				cs.Phase = "concurrent"
				cs.Client = k
				sl := &slot{cs: cs}
				per[k] = append(per[k], sl)
				all = append(all, sl)
			}
			soak = make([][]*slot, K)
			for k := 0; k < K; k++ {
				r := c.R.Fork()
				for j := 0; j < nsoak; j++ {
					soak[k] = append(soak[k], &slot{cs: soakFor(r, k)})
				}
			}
			var wg sync.WaitGroup
			for k := 0; k < K; k++ {
				wg.Add(1)
				go func(k int) {
					defer wg.Done()
					// interleave: a third of the soak, the modelled cases, the rest of the soak
					a := len(soak[k]) / 3
					runSlots(soak[k][:a])
					runSlots(per[k])
					runSlots(soak[k][a:])
				}(k)
			}
			wg.Wait()
		}

		if os.Getenv("C35_TIMING") != "" {
			fmt.Fprintln(os.Stderr, "clients done", time.Since(t0))
		}
		// ----- evaluation, in case order -----
		// compare returns "" or (signature, description) of the first difference between client and engine
		compare := func(cs *caseT, o obs, exp eng.Result) (string, string) {
			if exp.Err != nil || o.errno != 0 {
				want := 0
				if exp.Err != nil {
					want = int(gsql.CastSQLError(exp.Err).Number())
				}
				if (exp.Err != nil) != (o.errno != 0) || (want != o.errno) {
					if cs.Phase == "concurrent" && exp.Err == nil && foreign(o.errText, cs.Client) {
						return "cross-talk/foreign-client-bytes", fmt.Sprintf("the client could not decode a row: %q - it carries another client's payload", o.errText)
					}
					if cs.Phase == "concurrent" && exp.Err == nil && o.errno < 0 {
						again := obs{}
						func() {
							conn, id := newConn()
							defer conn.Close()
							again = runClient(conn, cs)
							h.take(id)
						}()
						if again.errno == 0 {
							return "cross-talk/concurrent-only/connection-broken", fmt.Sprintf("the connection broke while reading the result (%q); the same statement alone succeeds with %d rows", o.errText, len(again.cells))
						}
					}
					if cs.Kind == "olddate" {
						return "date-year-below-1000-unpadded", fmt.Sprintf("DATE values before year 1000: client error %d %q (the binary protocol cannot carry the unpadded text), in process %v", o.errno, o.errText, exp.Err)
					}
					return "error-differs/" + cs.Kind, fmt.Sprintf("client error %d %q, in-process error %v (errno %d)", o.errno, o.errText, exp.Err, want)
				}
				return "", ""
			}
			if cs.Kind == "dml" {
				var want int64 = -1
				if len(exp.Rows) == 1 && len(exp.Rows[0]) == 1 {
					if ok, isOk := exp.Rows[0][0].(types.OkResult); isOk {
						want = int64(ok.RowsAffected)
					}
				}
				if want != o.affected {
					return "affected-rows-differ", fmt.Sprintf("client affected %d, in process %d", o.affected, want)
				}
				return "", ""
			}
			wantCols := make([]string, len(exp.Schema))
			for i, col := range exp.Schema {
				wantCols[i] = col.Name
			}
			if strings.Join(wantCols, "\x01") != strings.Join(o.cols, "\x01") {
				return "columns-differ", fmt.Sprintf("client columns %q, in process %q", o.cols, wantCols)
			}
			want := engineCells(exp.Rows, exp.Schema)
			if len(want) != len(o.cells) {
				sig := "row-count-differs/lost"
				if len(o.cells) > len(want) {
					sig = "row-count-differs/extra"
				}
				return sig, fmt.Sprintf("client received %d rows, in process %d", len(o.cells), len(want))
			}
			for i := range want {
				for j := range want[i] {
					if want[i][j] == o.cells[i][j] {
						continue
					}
					got := o.cells[i][j]
					what := fmt.Sprintf("row %d column %s (%s): client received %q, in process %q", i, wantCols[j], exp.Schema[j].Type.String(), got, want[i][j])
					if cs.Phase == "concurrent" && (foreign(got, cs.Client) || foreign(strings.Join(o.cells[i], "\x01"), cs.Client)) {
						return "cross-talk/foreign-client-bytes", what + " - the row carries another client's payload"
					}
					cl := classOf(exp.Schema[j].Type, want[i][j])
					if strings.HasSuffix(cl, "year-below-1000") {
						return "date-year-below-1000-unpadded", what
					}
					if cs.Phase == "concurrent" {
						// is it reproducible alone? decides between an encoding defect and interference between connections
						again := obs{}
						func() {
							conn, id := newConn()
							defer conn.Close()
							again = runClient(conn, cs)
							h.take(id)
						}()
						if len(again.cells) == len(want) && len(again.cells[i]) > j && again.cells[i][j] == want[i][j] {
							return "cross-talk/concurrent-only/" + cl, what + " - the same statement alone returns the in-process value"
						}
					}
					return "value-differs/" + cl, what
				}
			}
			return "", ""
		}

		for _, sl := range all {
			cs := sl.cs
			o := sl.o
			exp := s.Query(cs.Inproc)
			cs.GotCols, cs.GotRows = o.cols, len(o.rows)
			if o.errno != 0 {
				cs.GotErr = fmt.Sprintf("%d %s", o.errno, o.errText)
			}
			if len(o.sizes) == 1 {
				cs.Sizes = o.sizes[0]
			} else if cs.Mode == "prepared" && len(o.sizes) >= 1 {
				cs.Sizes = o.sizes[len(o.sizes)-1]
			}
			c.Count("mode:" + cs.Mode)
			c.Count("kind:" + cs.Kind)
			c.Count("phase:" + cs.Phase)
			key := ""
			if exp.Err == nil {
				key = fmt.Sprintf("%s|%s|%v", cs.Mode, cs.SQL, cs.Args)
			}
			sig, what := compare(&cs, o, exp)
			var id int
			modelled := exp.Err == nil && o.errno == 0 && cs.Kind != "dml" && cs.Kind != "error" && cs.Kind != "agg" && cs.Kind != "olddate" && cs.Sizes != nil
			if modelled {
				c.Count(fmt.Sprintf("rows:%d", len(exp.Rows)))
				term := lib.CoqTuple(lib.CoqN(uint64(len(exp.Rows))), lib.CoqListOf(cs.Sizes, func(x int) string { return lib.CoqN(uint64(x)) }))
				id = c.Case(term, cs, key)
			} else {
				id = c.CaseNoModel(cs, key)
			}
			c.PredChecked()
			if sig != "" {
				cs.FirstBad = what
				c.PredFail(id, sig, fmt.Sprintf("%s mode, %s %v (client %d, %s phase): %s", cs.Mode, cs.SQL, cs.Args, cs.Client, cs.Phase, what), cs)
			}
		}
		for k := range soak {
			for _, sl := range soak[k] {
				cs := sl.cs
				exp := s.Query(cs.Inproc)
				c.Count("soak_statements")
				c.PredChecked()
				if sig, what := compare(&cs, sl.o, exp); sig != "" {
					cs.FirstBad = what
					cs.GotRows = len(sl.o.rows)
					id := c.CaseNoModel(cs, "")
					c.PredFail(id, sig, fmt.Sprintf("%s mode, %s %v (client %d of the concurrent soak): %s", cs.Mode, cs.SQL, cs.Args, cs.Client, what), cs)
				}
			}
		}
	})
}
