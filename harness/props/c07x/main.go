package main

import (
	"fmt"
	"os"

	"verifharness/lib/eng"
)

func main() {
	e := eng.New("db")
	s := e.Session()
	s.MustExec(
		"CREATE TABLE c (id INT PRIMARY KEY, s VARCHAR(20) COLLATE utf8mb4_0900_ai_ci, g VARCHAR(20) COLLATE utf8mb4_general_ci, bn VARCHAR(20))",
		"INSERT INTO c VALUES (1,'e','e','e'),(2,'é','é','é'),(3,'E','E','E'),(4,'f','f','f')",
		"CREATE TABLE c2 (id INT PRIMARY KEY, s VARCHAR(20) COLLATE utf8mb4_0900_ai_ci)",
		"INSERT INTO c2 VALUES (1,'é'),(2,'x')",
		"CREATE TABLE p (id INT PRIMARY KEY, s VARCHAR(20), u VARCHAR(20))",
		"INSERT INTO p VALUES (1,'a\\0','b'),(2,'a','\\0b'),(3,'a','b')",
		"CREATE TABLE big (id INT PRIMARY KEY, x DECIMAL(22,2))",
		"INSERT INTO big VALUES (1, 12345678901234567.88),(2, 12345678901234567.89)",
	)
	for _, q := range os.Args[1:] {
		r := s.Query(q)
		fmt.Println(q, "=>", eng.Rows(r.Rows), r.Err)
	}
}
