// Driver for C17 (transactions of the in-memory backend): 2-3 sessions plus an observer session on one engine,
// generated histories of transactional statements executed sequentially in the generated interleaving.  Every
// statement's result is recorded for the Coq state machine (Store/C17Txn.v); the property predicate is evaluated
// on the implementation alone against a specification-level reference written here (committed state, private
// view per open transaction, commit points), which knows nothing about the session staging of the engine.
package main

import (
	"encoding/json"
	"fmt"
	"sort"
	"strings"

	"verifharness/lib"
	"verifharness/lib/eng"
)

const nTables = 3

type KV [2]int64

type Stmt struct {
	S   int    `json:"s"`           // session (0 = observer, inserted by the runner)
	K   string `json:"k"`           // read ins updall updkey delkey delge delall trunc begin beginro commit rollback setac bad sp createx dropx cridx altcom badddl joinread updjoin inssel deljoin
	T   int    `json:"t,omitempty"` // table
	U   int    `json:"u,omitempty"` // second table of a multi-table statement
	KVs []KV   `json:"kvs,omitempty"`
	A   int64  `json:"a,omitempty"`
	B   int64  `json:"b,omitempty"`
}

type caseT struct {
	Init   [][]KV `json:"init"`
	H      []Stmt `json:"h"`
	Serial bool   `json:"serial"` // transactions of different sessions do not overlap (by construction)
}

func (q Stmt) sql() string {
	t := fmt.Sprintf("t%d", q.T)
	switch q.K {
	case "read":
		return "SELECT k, v FROM " + t + " ORDER BY k"
	case "ins":
		var vs []string
		for _, kv := range q.KVs {
			vs = append(vs, fmt.Sprintf("(%d,%d)", kv[0], kv[1]))
		}
		return "INSERT INTO " + t + " VALUES " + strings.Join(vs, ",")
	case "updall":
		return fmt.Sprintf("UPDATE %s SET v = v + %d", t, q.A)
	case "updkey":
		return fmt.Sprintf("UPDATE %s SET v = %d WHERE k = %d", t, q.B, q.A)
	case "delkey":
		return fmt.Sprintf("DELETE FROM %s WHERE k = %d", t, q.A)
	case "delge":
		return fmt.Sprintf("DELETE FROM %s WHERE k >= %d", t, q.A)
	case "delall":
		return "DELETE FROM " + t
	case "trunc":
		return "TRUNCATE TABLE " + t
	case "begin":
		switch q.A {
		case 1:
			return "START TRANSACTION"
		case 2:
			return "START TRANSACTION READ WRITE"
		}
		return "BEGIN"
	case "beginro":
		return "START TRANSACTION READ ONLY"
	case "sp":
		return []string{"SAVEPOINT sp1", "ROLLBACK TO SAVEPOINT sp1", "RELEASE SAVEPOINT sp1", "ROLLBACK TO sp1"}[q.A]
	case "createx":
		return fmt.Sprintf("CREATE TABLE x%d (a INT)", q.A)
	case "dropx":
		return fmt.Sprintf("DROP TABLE x%d", q.A)
	case "cridx":
		return fmt.Sprintf("CREATE INDEX i%d ON %s (v)", q.A, t)
	case "altcom":
		return fmt.Sprintf("ALTER TABLE %s COMMENT = 'c%d'", t, q.A)
	case "badddl":
		return "DROP TABLE no_such_table"
	case "joinread":
		return fmt.Sprintf("SELECT x.k, x.v + y.v FROM %s x JOIN t%d y ON x.k = y.k ORDER BY x.k", t, q.U)
	case "updjoin":
		return fmt.Sprintf("UPDATE %s JOIN t%d ON %s.k = t%d.k SET %s.v = %s.v + %d, t%d.v = t%d.v + %d", t, q.U, t, q.U, t, t, q.A, q.U, q.U, q.B)
	case "inssel":
		return fmt.Sprintf("INSERT INTO %s SELECT k + %d, v FROM t%d", t, q.A, q.U)
	case "deljoin":
		return fmt.Sprintf("DELETE %s, t%d FROM %s JOIN t%d ON %s.k = t%d.k WHERE %s.k >= %d", t, q.U, t, q.U, t, q.U, t, q.A)
	case "commit":
		return "COMMIT"
	case "rollback":
		return "ROLLBACK"
	case "setac":
		return fmt.Sprintf("SET autocommit = %d", q.A)
	case "bad":
		return "SELECT * FROM no_such_table"
	}
	panic("bad stmt kind " + q.K)
}

// a statement that writes rows of one table
func (q Stmt) isWrite() bool {
	switch q.K {
	case "ins", "updall", "updkey", "delkey", "delge", "delall", "trunc":
		return true
	}
	return false
}

// a statement over two tables
func (q Stmt) isMulti() bool {
	switch q.K {
	case "joinread", "updjoin", "inssel", "deljoin":
		return true
	}
	return false
}

// DML that a READ ONLY transaction must reject (TRUNCATE and the other DDL are C42's business)
func (q Stmt) isDML() bool {
	return (q.isWrite() && q.K != "trunc") || (q.isMulti() && q.K != "joinread")
}

// statements with an implicit commit
func (q Stmt) isDDL() bool {
	switch q.K {
	case "trunc", "createx", "dropx", "cridx", "altcom":
		return true
	}
	return false
}

func coqKVs(kvs []KV) string {
	return lib.CoqListOf(kvs, func(kv KV) string { return fmt.Sprintf("KV %s %s", coqZ(kv[0]), coqZ(kv[1])) })
}

// small numbers are written as the constants z0..z399 / n0..n9 of Corr/C17.v (number literals are slow to read)
func coqN(n int) string {
	if n >= 0 && n < 10 {
		return fmt.Sprintf("n%d", n)
	}
	return fmt.Sprintf("%d", n)
}

func coqZ(z int64) string {
	if z >= 0 && z < 400 {
		return fmt.Sprintf("z%d", z)
	}
	if z < 0 {
		return fmt.Sprintf("(%d)", z)
	}
	return fmt.Sprintf("%d", z)
}

func (q Stmt) coq() string {
	t := coqN(q.T)
	switch q.K {
	case "read":
		return "QRead " + t
	case "ins":
		return fmt.Sprintf("QIns %s %s", t, coqKVs(q.KVs))
	case "updall":
		return fmt.Sprintf("QUpdAll %s %s", t, coqZ(q.A))
	case "updkey":
		return fmt.Sprintf("QUpdKey %s %s %s", t, coqZ(q.A), coqZ(q.B))
	case "delkey":
		return fmt.Sprintf("QDelKey %s %s", t, coqZ(q.A))
	case "delge":
		return fmt.Sprintf("QDelGe %s %s", t, coqZ(q.A))
	case "delall":
		return "QDelAll " + t
	case "trunc":
		return "QTrunc " + t
	case "begin":
		return "QBegin"
	case "beginro":
		return "QBeginRO"
	case "sp":
		return "QSp"
	case "createx", "dropx":
		return "QDdl []"
	case "cridx", "altcom":
		return "QDdl [" + t + "]"
	case "badddl":
		return "QBad"
	case "joinread":
		return fmt.Sprintf("QJoinRead %s %s", t, coqN(q.U))
	case "updjoin":
		return fmt.Sprintf("QUpdJoin %s %s %s %s", t, coqN(q.U), coqZ(q.A), coqZ(q.B))
	case "inssel":
		return fmt.Sprintf("QInsSel %s %s %s", t, coqN(q.U), coqZ(q.A))
	case "deljoin":
		return fmt.Sprintf("QDelJoin %s %s %s", t, coqN(q.U), coqZ(q.A))
	case "commit":
		return "QCommit"
	case "rollback":
		return "QRollback"
	case "setac":
		return "QSetAC " + lib.CoqBool(q.A != 0)
	case "bad":
		return "QBad"
	}
	panic("bad stmt kind " + q.K)
}

// ---- independent reference semantics of the write statements on a table (sorted by key) ----

func cloneKVs(d []KV) []KV { return append([]KV{}, d...) }

func applyRef(q Stmt, d []KV) ([]KV, bool) {
	out := cloneKVs(d)
	switch q.K {
	case "ins":
		for _, kv := range q.KVs {
			for _, x := range out {
				if x[0] == kv[0] {
					return d, false
				}
			}
			out = append(out, kv)
		}
		sort.Slice(out, func(i, j int) bool { return out[i][0] < out[j][0] })
	case "updall":
		for i := range out {
			out[i][1] += q.A
		}
	case "updkey":
		for i := range out {
			if out[i][0] == q.A {
				out[i][1] = q.B
			}
		}
	case "delall", "trunc":
		out = out[:0]
	case "delkey", "delge":
		out = out[:0]
		for _, x := range d {
			if (q.K == "delkey" && x[0] != q.A) || (q.K == "delge" && x[0] < q.A) {
				out = append(out, x)
			}
		}
	}
	return out, true
}

func hasKey(d []KV, k int64) bool {
	for _, x := range d {
		if x[0] == k {
			return true
		}
	}
	return false
}

// reference semantics of the two-table statements: rows returned (joinread) or new contents of both tables and success
func applyMultiRef(q Stmt, a, b []KV) (rows, na, nb []KV, ok bool) {
	na, nb, ok = cloneKVs(a), cloneKVs(b), true
	switch q.K {
	case "joinread":
		rows = []KV{}
		for _, x := range a {
			for _, y := range b {
				if x[0] == y[0] {
					rows = append(rows, KV{x[0], x[1] + y[1]})
				}
			}
		}
	case "updjoin":
		for i := range na {
			if hasKey(b, na[i][0]) {
				na[i][1] += q.A
			}
		}
		for i := range nb {
			if hasKey(a, nb[i][0]) {
				nb[i][1] += q.B
			}
		}
	case "inssel":
		for _, y := range b {
			if hasKey(na, y[0]+q.A) {
				return nil, a, b, false
			}
			na = append(na, KV{y[0] + q.A, y[1]})
		}
		sort.Slice(na, func(i, j int) bool { return na[i][0] < na[j][0] })
	case "deljoin":
		na, nb = []KV{}, []KV{}
		for _, x := range a {
			if !(x[0] >= q.A && hasKey(b, x[0])) {
				na = append(na, x)
			}
		}
		for _, y := range b {
			if !(y[0] >= q.A && hasKey(a, y[0])) {
				nb = append(nb, y)
			}
		}
	}
	return
}

func eqKVs(a, b []KV) bool {
	if len(a) != len(b) {
		return false
	}
	for i := range a {
		if a[i] != b[i] {
			return false
		}
	}
	return true
}

// ---- generator ----

// names of side tables / indexes / comments are numbered per case
type genT struct {
	r     *lib.RNG
	next  int64
	sides []int64 // side tables that exist
}

func (g *genT) two() (int, int) {
	a := g.r.Intn(nTables)
	b := (a + 1 + g.r.Intn(nTables-1)) % nTables
	return a, b
}

func (g *genT) write(s int) Stmt {
	r := g.r
	q := Stmt{S: s, T: r.Intn(nTables)}
	switch r.Intn(12) {
	case 8:
		q.K = "delall"
	case 9:
		q.T, q.U = g.two()
		q.K, q.A, q.B = "updjoin", int64(r.Range(1, 9)), int64(r.Range(10, 19))
	case 10:
		q.T, q.U = g.two()
		q.K, q.A = "inssel", int64(lib.Pick(r, []int{0, 3, 6, 10}))
	case 11:
		q.T, q.U = g.two()
		q.K, q.A = "deljoin", int64(r.Range(1, 6))
	case 0, 1, 2:
		q.K = "ins"
		n := 1
		if r.Chance(1, 3) {
			n = 2
		}
		for i := 0; i < n; i++ {
			q.KVs = append(q.KVs, KV{int64(r.Range(1, 7)), int64(r.Range(0, 99))})
		}
	case 3:
		q.K, q.A = "updall", int64(r.Range(1, 9))
	case 4, 5:
		q.K, q.A, q.B = "updkey", int64(r.Range(1, 7)), int64(r.Range(100, 199))
	case 6:
		q.K, q.A = "delkey", int64(r.Range(1, 7))
	default:
		q.K, q.A = "delge", int64(r.Range(3, 8))
	}
	return q
}

func (g *genT) rw(s int) Stmt {
	r := g.r
	switch {
	case r.Chance(1, 4):
		return Stmt{S: s, K: "read", T: r.Intn(nTables)}
	case r.Chance(1, 8):
		a, b := g.two()
		return Stmt{S: s, K: "joinread", T: a, U: b}
	case r.Chance(1, 14):
		return Stmt{S: s, K: "sp", A: int64(r.Intn(4))}
	}
	return g.write(s)
}

// a successful DDL statement with an implicit commit; DROP TABLE only where no other session can hold the table
func (g *genT) ddl(s int, allowDrop bool) Stmt {
	r := g.r
	g.next++
	switch x := r.Intn(5); {
	case x == 0 && allowDrop && len(g.sides) > 0:
		i := r.Intn(len(g.sides))
		n := g.sides[i]
		g.sides = append(g.sides[:i], g.sides[i+1:]...)
		return Stmt{S: s, K: "dropx", A: n}
	case x <= 1:
		g.sides = append(g.sides, g.next)
		return Stmt{S: s, K: "createx", A: g.next}
	case x == 2:
		return Stmt{S: s, K: "cridx", T: r.Intn(nTables), A: g.next}
	case x == 3:
		return Stmt{S: s, K: "altcom", T: r.Intn(nTables), A: g.next}
	}
	return Stmt{S: s, K: "trunc", T: r.Intn(nTables)}
}

func (g *genT) end(s int) Stmt {
	return Stmt{S: s, K: lib.Pick(g.r, []string{"commit", "commit", "rollback"})}
}

func gen(r *lib.RNG) caseT {
	var c caseT
	g := &genT{r: r}
	for t := 0; t < nTables; t++ {
		var d []KV
		for k := 1; k <= 6; k++ {
			if r.Chance(1, 3) {
				d = append(d, KV{int64(k), int64(r.Range(0, 99))})
			}
		}
		if d == nil {
			d = []KV{}
		}
		c.Init = append(c.Init, d)
	}
	ns := r.Range(2, 3)
	add := func(qs ...Stmt) { c.H = append(c.H, qs...) }
	if r.Chance(2, 5) {
		// non-overlapping: a sequence of blocks
		c.Serial = true
		nb := r.Range(3, 8)
		for i := 0; i < nb; i++ {
			s := r.Range(1, ns)
			switch r.Intn(10) {
			case 0, 1:
				add(g.rw(s))
			case 2:
				switch r.Intn(3) {
				case 0:
					add(Stmt{S: s, K: lib.Pick(r, []string{"bad", "badddl"})})
				case 1:
					add(g.ddl(s, true)) // DDL of an autocommit session
				default:
					// an explicit BEGIN inside an autocommit-off block, with no COMMIT in between: the BEGIN commits the pending
					// work and a later ROLLBACK must not discard it
					add(Stmt{S: s, K: "setac", A: 0}, g.write(s), Stmt{S: s, K: "begin", A: int64(r.Intn(3))})
					for j, n := 0, r.Range(0, 2); j < n; j++ {
						add(g.rw(s))
					}
					add(g.end(s), Stmt{S: s, K: "setac", A: 1})
				}
			case 3:
				// an autocommit-off block: SET autocommit = 0; body; [DDL]; COMMIT | ROLLBACK | nothing; SET autocommit = 1
				add(Stmt{S: s, K: "setac", A: 0})
				for j, n := 0, r.Range(0, 4); j < n; j++ {
					add(g.rw(s))
				}
				if r.Chance(1, 4) {
					add(g.ddl(s, true))
				}
				if r.Chance(3, 4) {
					add(g.end(s))
				}
				add(Stmt{S: s, K: "setac", A: 1})
			case 4:
				// a transaction (or an autocommit statement) whose only write to the table is DELETE FROM t / TRUNCATE
				t := r.Intn(nTables)
				switch r.Intn(4) {
				case 0:
					add(Stmt{S: s, K: "delall", T: t})
				case 1:
					add(Stmt{S: s, K: "trunc", T: t})
				case 2:
					add(Stmt{S: s, K: "begin"}, Stmt{S: s, K: "delall", T: t}, Stmt{S: s, K: "read", T: (t + 1) % nTables}, g.end(s))
				default:
					add(Stmt{S: s, K: "begin"}, Stmt{S: s, K: "read", T: (t + 1) % nTables}, Stmt{S: s, K: "trunc", T: t}, Stmt{S: s, K: "commit"})
				}
			case 5:
				// a READ ONLY transaction, then a write of the same session: the mode must be gone (also with autocommit off, where
				// no statement end commits and clears the transaction object on the way)
				off := r.Chance(1, 3)
				if off {
					add(Stmt{S: s, K: "setac", A: 0})
				}
				add(Stmt{S: s, K: "beginro"})
				for j, n := 0, r.Range(1, 4); j < n; j++ {
					add(g.rw(s))
				}
				if r.Chance(1, 5) {
					add(g.ddl(s, true))
				}
				add(g.end(s))
				if r.Chance(1, 2) {
					add(g.write(s))
					if off {
						add(g.end(s))
					}
				} else {
					add(Stmt{S: s, K: "begin", A: int64(r.Intn(3))}, g.write(s), g.end(s))
				}
				if off {
					add(Stmt{S: s, K: "setac", A: 1})
				}
			case 6:
				// DDL inside an explicit transaction: commits the pending work; the final ROLLBACK must not undo it
				add(Stmt{S: s, K: "begin", A: int64(r.Intn(3))})
				for j, n := 0, r.Range(1, 3); j < n; j++ {
					add(g.rw(s))
				}
				add(g.ddl(s, true))
				if r.Chance(1, 4) {
					// statements between the implicit commit and the end of the block (known finding: they are not auto-committed)
					for j, n := 0, r.Range(1, 2); j < n; j++ {
						add(g.rw(s))
					}
				}
				add(Stmt{S: s, K: lib.Pick(r, []string{"commit", "rollback", "rollback"})})
			default:
				add(Stmt{S: s, K: "begin", A: int64(r.Intn(3))})
				for j, n := 0, r.Range(0, 4); j < n; j++ {
					add(g.rw(s))
				}
				if r.Chance(1, 8) {
					add(Stmt{S: s, K: "bad"})
				}
				add(g.end(s))
			}
		}
		return c
	}
	// arbitrary interleaving
	n := r.Range(5, 18)
	open := map[int]bool{}
	for i := 0; i < n; i++ {
		s := r.Range(1, ns)
		x := r.Intn(100)
		switch {
		case open[s] && x < 58, !open[s] && x < 43:
			add(g.rw(s))
		case x < 68 && !open[s], x < 61:
			add(Stmt{S: s, K: "begin", A: int64(r.Intn(3))})
			open[s] = true
		case x < 72 && !open[s], x < 64:
			add(Stmt{S: s, K: "beginro"})
			open[s] = true
		case x < 82:
			add(Stmt{S: s, K: "commit"})
			open[s] = false
		case x < 88:
			add(Stmt{S: s, K: "rollback"})
			open[s] = false
		case x < 92:
			add(Stmt{S: s, K: "setac", A: int64(r.Intn(2))})
		case x < 97:
			// DDL; mostly followed at once by the end of the transaction
			add(g.ddl(s, false))
			if r.Chance(3, 4) {
				add(g.end(s))
				open[s] = false
			}
		default:
			add(Stmt{S: s, K: lib.Pick(r, []string{"bad", "badddl"})})
		}
	}
	return c
}

// ---- running ----

type obsT struct {
	Kind string // ok err rows
	Rows []KV
}

func (o obsT) coq() string {
	switch o.Kind {
	case "ok":
		return "OOk"
	case "err":
		return "OErr"
	}
	return "ORows " + coqKVs(o.Rows)
}

type sessRef struct {
	ac, explicit, ro bool
	// an implicit-commit DDL statement ended this session's explicit transaction and no COMMIT / ROLLBACK / START
	// TRANSACTION followed yet: by the SQL rules the session is back to its autocommit mode, the engine still treats it as
	// inside the explicit transaction (known finding); failures at this session's statements carry that signature
	divergent bool
	// private view of the open transaction, per touched table: the CANDIDATES still consistent with what the session has
	// observed - each is some committed version of the table since the transaction began, plus the session's own changes
	// (which committed version a transaction reads is not specified; that it is a committed one is)
	priv      map[int][][]KV
	written   map[int]bool
	ambiguous map[int]bool   // another session's commit changed the table after this transaction first touched it
	versions  map[int][][]KV // committed versions of every table since this transaction began
	started   bool
}

func (sr *sessRef) endTx() {
	sr.priv, sr.written, sr.ambiguous = map[int][][]KV{}, map[int]bool{}, map[int]bool{}
	sr.versions, sr.started = map[int][][]KV{}, false
}

func (sr *sessRef) start(committed [][]KV) {
	if !sr.started {
		sr.started = true
		for t := range committed {
			sr.versions[t] = [][]KV{cloneKVs(committed[t])}
		}
	}
}

func (sr *sessRef) ensure(t int) {
	if _, ok := sr.priv[t]; !ok {
		sr.priv[t] = [][]KV{}
		for _, v := range sr.versions[t] {
			sr.priv[t] = append(sr.priv[t], cloneKVs(v))
		}
	}
}

func (sr *sessRef) single(t int) bool { return !sr.ambiguous[t] && len(sr.priv[t]) == 1 }

func inCands(c [][]KV, d []KV) bool {
	for _, x := range c {
		if eqKVs(x, d) {
			return true
		}
	}
	return false
}

const sigImplicit = "implicit-commit-keeps-explicit-transaction-flag"

func run(c *lib.Ctx, cs caseT) {
	e := eng.New("db")
	setup := e.Session()
	for t := 0; t < nTables; t++ {
		setup.MustExec(fmt.Sprintf("CREATE TABLE t%d (k INT PRIMARY KEY, v INT)", t))
		if t < len(cs.Init) && len(cs.Init[t]) > 0 {
			setup.MustExec(Stmt{K: "ins", T: t, KVs: cs.Init[t]}.sql())
		}
	}
	sess := map[int]*eng.S{}
	get := func(i int) *eng.S {
		if sess[i] == nil {
			sess[i] = e.Session()
		}
		return sess[i]
	}
	type failT struct{ sig, what string }
	var fails []failT
	masked := false // the statement being checked belongs to a session in the known divergent state
	fail := func(sig, what string) {
		if masked && sig != "panic" {
			sig = sigImplicit
		}
		fails = append(fails, failT{sig, what})
	}
	refs := map[int]*sessRef{}
	ref := func(s int) *sessRef {
		if refs[s] == nil {
			refs[s] = &sessRef{ac: true}
			refs[s].endTx()
		}
		return refs[s]
	}

	exec := func(q Stmt) obsT {
		r := get(q.S).Query(q.sql())
		if r.Panic != "" {
			fail("panic", fmt.Sprintf("session %d: %s panicked: %s", q.S, q.sql(), r.Panic))
			return obsT{Kind: "err"}
		}
		if r.Err != nil {
			k := eng.ErrKind(r.Err)
			switch {
			case (q.K == "ins" || q.K == "inssel") && k == "dup-key":
			case (q.K == "bad" || q.K == "badddl") && k == "not-found":
			case q.K == "sp" && strings.Contains(r.Err.Error(), "savepoints are not supported"):
			case q.isDML() && k == "read-only":
				// whether the rejection was due is decided by the reference below
			default:
				fail("unexpected-error/"+q.K, fmt.Sprintf("session %d: %s failed: %v", q.S, q.sql(), r.Err))
			}
			return obsT{Kind: "err"}
		}
		if q.K == "read" || q.K == "joinread" {
			o := obsT{Kind: "rows", Rows: []KV{}}
			for _, row := range r.Rows {
				var kv KV
				for i := 0; i < 2; i++ {
					switch x := row[i].(type) {
					case int32:
						kv[i] = int64(x)
					case int64:
						kv[i] = x
					default:
						fail("unexpected-value", fmt.Sprintf("%s returned %T", q.sql(), row[i]))
					}
				}
				o.Rows = append(o.Rows, kv)
			}
			return o
		}
		return obsT{Kind: "ok"}
	}

	var full []Stmt
	var obs []obsT
	// committed state as seen by the observer
	committed := make([][]KV, nTables)
	for t := 0; t < nTables; t++ {
		committed[t] = []KV{}
		if t < len(cs.Init) {
			committed[t] = cloneKVs(cs.Init[t])
		}
	}
	nCommitPoints, nTxWrites := 0, 0
	for i, q := range cs.H {
		sr := ref(q.S)
		masked = sr.divergent
		inTx := sr.explicit || !sr.ac
		sr.start(committed)
		o := exec(q)
		full, obs = append(full, q), append(obs, o)
		// classification by the specification: does this statement end a transaction by committing it?
		commitPoint := false
		switch {
		case q.K == "begin", q.K == "beginro", q.K == "commit":
			commitPoint = true
		case q.isDDL():
			// a DDL statement that was refused did not commit anything
			commitPoint = o.Kind == "ok"
		case q.K == "setac":
			commitPoint = !sr.explicit && q.A != 0
		case q.K == "rollback":
		default:
			commitPoint = !inTx
		}
		// reference: the statement's own effect on the private view.  A savepoint statement must change nothing whether it is
		// refused (this backend) or accepted; DML refused by a READ ONLY transaction must change nothing (whether it has to
		// be refused is C42's question: an accepted one is treated as the write it is)
		rejectedRO := sr.ro && q.isDML() && o.Kind == "err"
		switch {
		case q.K == "sp", rejectedRO:
		case q.isMulti():
			sr.ensure(q.T)
			sr.ensure(q.U)
			if sr.single(q.T) && sr.single(q.U) {
				rows, na, nb, okRef := applyMultiRef(q, sr.priv[q.T][0], sr.priv[q.U][0])
				switch {
				case q.K == "joinread":
					if o.Kind != "rows" || !eqKVs(o.Rows, rows) {
						fail("read-differs-from-own-view", fmt.Sprintf("step %d session %d: %s returned %v, expected %v", i, q.S, q.sql(), o.Rows, rows))
					}
				case okRef != (o.Kind == "ok"):
					fail("write-outcome-differs", fmt.Sprintf("step %d session %d: %s gave %s on %v / %v", i, q.S, q.sql(), o.Kind, sr.priv[q.T], sr.priv[q.U]))
				default:
					sr.priv[q.T][0], sr.priv[q.U][0] = na, nb
				}
			} else {
				// more than one committed version could have been read: no claim about these tables in this transaction
				sr.ambiguous[q.T], sr.ambiguous[q.U] = true, true
			}
			if q.K != "joinread" {
				sr.written[q.T] = true
				if q.K != "inssel" {
					sr.written[q.U] = true
				}
				if inTx {
					nTxWrites++
				}
			}
		case q.K == "read" || q.isWrite():
			sr.ensure(q.T)
			if !sr.ambiguous[q.T] {
				var keep [][]KV
				if q.K == "read" {
					for _, cand := range sr.priv[q.T] {
						if o.Kind == "rows" && eqKVs(o.Rows, cand) {
							keep = append(keep, cand)
						}
					}
					if len(keep) == 0 {
						fail("read-differs-from-own-view", fmt.Sprintf("step %d session %d: %s returned %v, expected one of %v (a committed state since the transaction began, plus own changes)", i, q.S, q.sql(), o.Rows, sr.priv[q.T]))
						keep = sr.priv[q.T]
					}
				} else {
					for _, cand := range sr.priv[q.T] {
						if nd, okRef := applyRef(q, cand); okRef == (o.Kind == "ok") {
							keep = append(keep, nd)
						}
					}
					if len(keep) == 0 {
						fail("write-outcome-differs", fmt.Sprintf("step %d session %d: %s gave %s, impossible on any of %v", i, q.S, q.sql(), o.Kind, sr.priv[q.T]))
						keep = sr.priv[q.T]
					}
				}
				sr.priv[q.T] = keep
			} else if q.isWrite() && o.Kind == "ok" {
				for ci := range sr.priv[q.T] {
					sr.priv[q.T][ci], _ = applyRef(q, sr.priv[q.T][ci])
				}
			}
			if q.isWrite() {
				sr.written[q.T] = true
				if inTx {
					nTxWrites++
				}
			}
		}
		// observer reads every table after every statement
		before := committed
		after := make([][]KV, nTables)
		for t := 0; t < nTables; t++ {
			oq := Stmt{S: 0, K: "read", T: t}
			oo := exec(oq)
			full, obs = append(full, oq), append(obs, oo)
			after[t] = oo.Rows
		}
		for t := 0; t < nTables; t++ {
			changed := !eqKVs(before[t], after[t])
			switch {
			case !commitPoint && changed:
				fail("uncommitted-change-visible/"+q.K, fmt.Sprintf("step %d session %d: %s is not a commit point but the observer's t%d changed from %v to %v", i, q.S, q.sql(), t, before[t], after[t]))
			case commitPoint && sr.written[t] && !sr.ambiguous[t] && !inCands(sr.priv[t], after[t]):
				fail("commit-not-published/"+q.K, fmt.Sprintf("step %d session %d: %s commits, t%d should be %v, observer sees %v", i, q.S, q.sql(), t, sr.priv[t], after[t]))
			case commitPoint && !sr.written[t] && changed && cs.Serial:
				// only demanded when transactions do not overlap (there it can never legitimately happen); with
				// overlapping transactions the backend documents no isolation and a commit may republish a table it only read
				fail("commit-changes-table-it-did-not-write/"+q.K, fmt.Sprintf("step %d session %d: %s commits a transaction that did not write t%d, yet the observer's t%d changed from %v to %v", i, q.S, q.sql(), t, t, before[t], after[t]))
			}
			if changed {
				for s2, r2 := range refs {
					if s2 != q.S {
						if _, touched := r2.priv[t]; touched {
							r2.ambiguous[t] = true
						}
						if r2.started {
							r2.versions[t] = append(r2.versions[t], cloneKVs(after[t]))
						}
					}
				}
			}
		}
		committed = after
		// mode transitions by the specification
		switch {
		case q.K == "begin", q.K == "beginro":
			sr.endTx()
			sr.explicit, sr.ro, sr.divergent = true, q.K == "beginro", false
			sr.start(committed)
		case q.K == "commit", q.K == "rollback":
			sr.endTx()
			sr.explicit, sr.ro, sr.divergent = false, false, false
		case q.K == "setac":
			if commitPoint {
				sr.endTx()
			}
			sr.ac = q.A != 0
		case q.isDDL() && commitPoint:
			// the implicit commit ends the transaction, explicit or not, together with its READ ONLY mode
			sr.endTx()
			if sr.explicit {
				sr.divergent = true
				c.Count("ddl-ends-explicit-transaction")
			}
			sr.explicit, sr.ro = false, false
		default:
			if commitPoint {
				sr.endTx()
			}
		}
		if commitPoint {
			nCommitPoints++
		}
		if cs.Serial {
			for s2, r2 := range refs {
				if len(r2.ambiguous) > 0 && !r2.divergent && !masked {
					fail("driver-bug", fmt.Sprintf("serial history became ambiguous for session %d", s2))
				}
			}
		}
	}
	masked = false

	items := make([]string, len(full))
	last := make([][]KV, nTables) // the observer's previous read of each table (initially: the initial contents)
	for t := range last {
		last[t] = []KV{}
		if t < len(cs.Init) {
			last[t] = cs.Init[t]
		}
	}
	for i := range full {
		o := obs[i].coq()
		if full[i].S == 0 && full[i].K == "read" && obs[i].Kind == "rows" {
			if eqKVs(obs[i].Rows, last[full[i].T]) {
				o = "OSame"
			}
			last[full[i].T] = obs[i].Rows
		}
		items[i] = fmt.Sprintf("Ev %s (%s) (%s)", coqN(full[i].S), full[i].coq(), o)
	}
	// the observer's round over all tables with nothing new is one token
	var packed []string
	for i := 0; i < len(items); i++ {
		if full[i].S == 0 && full[i].T == 0 && i+nTables <= len(items) {
			all := true
			for j := 0; j < nTables; j++ {
				all = all && full[i+j].S == 0 && full[i+j].K == "read" && full[i+j].T == j && strings.HasSuffix(items[i+j], "(OSame)")
			}
			if all {
				packed = append(packed, "EvS")
				i += nTables - 1
				continue
			}
		}
		packed = append(packed, items[i])
	}
	items = packed
	tabs := make([]string, nTables)
	for t := range tabs {
		tabs[t] = "[]"
		if t < len(cs.Init) {
			tabs[t] = coqKVs(cs.Init[t])
		}
	}
	key := ""
	if nTxWrites > 0 {
		b, _ := json.Marshal(cs)
		key = string(b)
	}
	if cs.Serial {
		c.Count("history/non-overlapping")
	} else {
		c.Count("history/interleaved")
	}
	c.Count(fmt.Sprintf("statements/%d", (len(cs.H)/5)*5))
	for _, q := range cs.H {
		c.Count("stmt/" + q.K)
	}
	if nTxWrites > 0 {
		c.Count("has-write-inside-open-transaction")
	}
	id := c.Case(fmt.Sprintf("Case %s %s", lib.CoqList(tabs), lib.CoqList(items)), cs, key)
	c.PredChecked()
	seen := map[string]bool{}
	for _, f := range fails {
		if !seen[f.sig] {
			seen[f.sig] = true
			c.PredFail(id, f.sig, f.what, cs)
		}
	}
}

func main() {
	lib.Main("C17", func(c *lib.Ctx) {
		c.Header = "From Coq Require Import List NArith ZArith.\nImport ListNotations.\nFrom GMS Require Import Store.C17Txn Corr.C17.\nOpen Scope N_scope."
		c.CaseType = "C17.case"
		c.MismatchFn = "C17.mismatches"
		c.SetRule("3 tables (k INT PRIMARY KEY, v INT) with 0-6 initial rows, 2-3 sessions + an observer session on one engine; " +
			"histories of 5-30 statements (single/multi-row INSERT with duplicate keys, UPDATE, DELETE, unfiltered DELETE, TRUNCATE, SELECT, join SELECT, " +
			"UPDATE ... JOIN, INSERT ... SELECT, two-table DELETE, BEGIN / START TRANSACTION [READ WRITE | READ ONLY], COMMIT, ROLLBACK, SET autocommit, " +
			"SAVEPOINT / ROLLBACK TO / RELEASE, CREATE TABLE / DROP TABLE / CREATE INDEX / ALTER TABLE with their implicit commit, statements failing in analysis), " +
			"40% built from non-overlapping transaction blocks, 60% arbitrary interleavings; the observer reads every table after every statement. " +
			"Non-trivial = at least one write inside an open (explicit or autocommit-off) transaction; distinct = distinct cases.")
		if c.ReplayFile != "" {
			var cs caseT
			lib.LoadReplay(c.ReplayFile, &cs)
			run(c, cs)
			return
		}
		corpus := []caseT{
			// rollback restores, commit publishes
			{Init: [][]KV{{{1, 10}, {2, 20}}, {}, {}}, Serial: true, H: []Stmt{
				{S: 1, K: "begin"}, {S: 1, K: "ins", T: 0, KVs: []KV{{3, 30}}}, {S: 1, K: "read", T: 0}, {S: 1, K: "rollback"}, {S: 1, K: "read", T: 0},
				{S: 2, K: "begin"}, {S: 2, K: "updall", T: 0, A: 5}, {S: 2, K: "ins", T: 1, KVs: []KV{{1, 1}}}, {S: 2, K: "commit"}, {S: 1, K: "read", T: 0}}},
			// overlapping transactions (outside the property's final-state quantifier, compared with the model only):
			// a transaction that only READ t0 republishes its snapshot when it commits
			{Init: [][]KV{{{1, 10}, {2, 20}}, {}, {}}, H: []Stmt{
				{S: 1, K: "begin"}, {S: 1, K: "read", T: 0}, {S: 2, K: "ins", T: 0, KVs: []KV{{4, 40}}}, {S: 1, K: "commit"}, {S: 2, K: "read", T: 0}}},
			// same through the implicit commit of BEGIN and through SET autocommit = 1
			{Init: [][]KV{{{1, 10}}, {}, {}}, H: []Stmt{
				{S: 1, K: "begin"}, {S: 1, K: "read", T: 0}, {S: 2, K: "delkey", T: 0, A: 1}, {S: 1, K: "begin"}, {S: 1, K: "rollback"}}},
			{Init: [][]KV{{{1, 10}}, {}, {}}, H: []Stmt{
				{S: 1, K: "setac", A: 0}, {S: 1, K: "read", T: 0}, {S: 2, K: "updall", T: 0, A: 1}, {S: 1, K: "setac", A: 1}}},
			// autocommit off, a write, then an explicit BEGIN with no COMMIT in between: BEGIN commits the pending work and
			// the later ROLLBACK must not discard it
			{Init: [][]KV{{{1, 10}}, {}, {}}, Serial: true, H: []Stmt{
				{S: 1, K: "setac", A: 0}, {S: 1, K: "ins", T: 0, KVs: []KV{{6, 60}}}, {S: 1, K: "begin", A: 1}, {S: 1, K: "ins", T: 0, KVs: []KV{{7, 70}}},
				{S: 1, K: "rollback"}, {S: 1, K: "read", T: 0}, {S: 1, K: "setac", A: 1}, {S: 2, K: "read", T: 0}}},
			// a transaction whose only write is an unfiltered DELETE (planned as a truncate) / TRUNCATE: must become visible
			{Init: [][]KV{{{1, 10}, {2, 20}}, {{1, 1}}, {}}, Serial: true, H: []Stmt{
				{S: 1, K: "begin"}, {S: 1, K: "delall", T: 0}, {S: 1, K: "read", T: 0}, {S: 1, K: "commit"}, {S: 2, K: "read", T: 0},
				{S: 2, K: "delall", T: 1}, {S: 1, K: "read", T: 1}, {S: 1, K: "ins", T: 0, KVs: []KV{{3, 30}}},
				{S: 1, K: "begin"}, {S: 1, K: "delall", T: 0}, {S: 1, K: "rollback"}, {S: 2, K: "read", T: 0},
				{S: 2, K: "trunc", T: 0}, {S: 1, K: "read", T: 0}, {S: 1, K: "ins", T: 1, KVs: []KV{{4, 4}}},
				{S: 1, K: "begin"}, {S: 1, K: "trunc", T: 1}, {S: 1, K: "commit"}, {S: 2, K: "read", T: 1}}},
			// autocommit off; failed statements; error inside a transaction
			{Init: [][]KV{{{1, 10}}, {{1, 1}}, {}}, Serial: true, H: []Stmt{
				{S: 1, K: "setac", A: 0}, {S: 1, K: "ins", T: 0, KVs: []KV{{5, 50}}}, {S: 1, K: "setac", A: 1},
				{S: 1, K: "ins", T: 0, KVs: []KV{{6, 60}, {1, 11}}}, {S: 2, K: "begin"}, {S: 2, K: "ins", T: 0, KVs: []KV{{7, 70}}},
				{S: 2, K: "ins", T: 0, KVs: []KV{{8, 80}, {1, 11}}}, {S: 2, K: "bad"}, {S: 2, K: "begin"}, {S: 2, K: "rollback"}}},
			// DDL with an implicit commit as the last statement of an explicit transaction: the earlier write is published and
			// the ROLLBACK does not undo it (CREATE TABLE, CREATE INDEX on the written table, ALTER TABLE, DROP TABLE)
			{Init: [][]KV{{{1, 10}}, {{1, 1}}, {}}, Serial: true, H: []Stmt{
				{S: 1, K: "begin"}, {S: 1, K: "ins", T: 0, KVs: []KV{{2, 20}}}, {S: 1, K: "createx", A: 1}, {S: 1, K: "rollback"}, {S: 2, K: "read", T: 0},
				{S: 2, K: "begin", A: 1}, {S: 2, K: "updall", T: 1, A: 3}, {S: 2, K: "cridx", T: 1, A: 2}, {S: 2, K: "rollback"}, {S: 1, K: "read", T: 1},
				{S: 1, K: "begin"}, {S: 1, K: "delkey", T: 0, A: 1}, {S: 1, K: "altcom", T: 2, A: 3}, {S: 1, K: "commit"},
				{S: 2, K: "setac", A: 0}, {S: 2, K: "ins", T: 2, KVs: []KV{{5, 50}}}, {S: 2, K: "dropx", A: 1}, {S: 2, K: "rollback"}, {S: 2, K: "setac", A: 1},
				{S: 1, K: "read", T: 2}, {S: 1, K: "badddl"}}},
			// KNOWN FINDING: a statement after the implicit commit, autocommit on: the engine keeps the explicit-transaction
			// flag, does not commit the INSERT on its own, and the ROLLBACK discards it
			{Init: [][]KV{{{1, 10}}, {}, {}}, Serial: true, H: []Stmt{
				{S: 1, K: "begin"}, {S: 1, K: "ins", T: 0, KVs: []KV{{2, 20}}}, {S: 1, K: "createx", A: 1}, {S: 1, K: "ins", T: 0, KVs: []KV{{3, 30}}},
				{S: 1, K: "rollback"}, {S: 2, K: "read", T: 0}}},
			{Init: [][]KV{{{1, 10}}, {}, {}}, Serial: true, H: []Stmt{
				{S: 1, K: "begin"}, {S: 1, K: "trunc", T: 1}, {S: 1, K: "ins", T: 0, KVs: []KV{{3, 30}}}, {S: 1, K: "read", T: 0}, {S: 1, K: "commit"}}},
			// READ ONLY transactions: DML rejected, reads served, the mode ends with COMMIT / ROLLBACK / a new START TRANSACTION
			{Init: [][]KV{{{1, 10}}, {{1, 1}}, {}}, Serial: true, H: []Stmt{
				{S: 1, K: "beginro"}, {S: 1, K: "ins", T: 0, KVs: []KV{{2, 20}}}, {S: 1, K: "delall", T: 1}, {S: 1, K: "read", T: 0},
				{S: 1, K: "updjoin", T: 0, U: 1, A: 1, B: 2}, {S: 1, K: "joinread", T: 0, U: 1}, {S: 1, K: "commit"},
				{S: 1, K: "ins", T: 0, KVs: []KV{{2, 20}}}, {S: 1, K: "beginro"}, {S: 1, K: "rollback"}, {S: 1, K: "begin"},
				{S: 1, K: "ins", T: 0, KVs: []KV{{3, 30}}}, {S: 1, K: "commit"}, {S: 1, K: "beginro"}, {S: 1, K: "begin", A: 2},
				{S: 1, K: "delkey", T: 0, A: 1}, {S: 1, K: "commit"}, {S: 2, K: "read", T: 0}}},
			// READ ONLY with autocommit off: after ROLLBACK / COMMIT the next implicit transaction is READ WRITE
			{Init: [][]KV{{{1, 10}}, {}, {}}, Serial: true, H: []Stmt{
				{S: 1, K: "setac", A: 0}, {S: 1, K: "beginro"}, {S: 1, K: "read", T: 0}, {S: 1, K: "rollback"}, {S: 1, K: "ins", T: 0, KVs: []KV{{2, 20}}},
				{S: 1, K: "commit"}, {S: 1, K: "beginro"}, {S: 1, K: "commit"}, {S: 1, K: "delkey", T: 0, A: 1}, {S: 1, K: "setac", A: 1}, {S: 2, K: "read", T: 0}}},
			// READ ONLY overlapping: the rejected DML registered its table, the commit republishes the snapshot
			{Init: [][]KV{{{1, 10}}, {{1, 1}}, {}}, H: []Stmt{
				{S: 1, K: "beginro"}, {S: 1, K: "delall", T: 0}, {S: 2, K: "ins", T: 1, KVs: []KV{{9, 9}}}, {S: 2, K: "ins", T: 0, KVs: []KV{{9, 9}}},
				{S: 1, K: "commit"}, {S: 2, K: "read", T: 0}, {S: 2, K: "read", T: 1}}},
			// savepoint statements fail and change nothing
			{Init: [][]KV{{{1, 10}}, {}, {}}, Serial: true, H: []Stmt{
				{S: 1, K: "sp", A: 0}, {S: 1, K: "begin"}, {S: 1, K: "ins", T: 0, KVs: []KV{{2, 20}}}, {S: 1, K: "sp", A: 0}, {S: 1, K: "read", T: 0},
				{S: 1, K: "sp", A: 1}, {S: 1, K: "sp", A: 3}, {S: 1, K: "read", T: 0}, {S: 1, K: "sp", A: 2}, {S: 1, K: "commit"}, {S: 2, K: "read", T: 0},
				{S: 2, K: "setac", A: 0}, {S: 2, K: "delkey", T: 0, A: 1}, {S: 2, K: "sp", A: 0}, {S: 2, K: "rollback"}, {S: 2, K: "setac", A: 1}}},
			// statements over two tables, three tables in play
			{Init: [][]KV{{{1, 10}, {2, 20}, {3, 30}}, {{1, 1}, {3, 3}, {4, 4}}, {}}, Serial: true, H: []Stmt{
				{S: 1, K: "begin"}, {S: 1, K: "joinread", T: 0, U: 1}, {S: 1, K: "updjoin", T: 0, U: 1, A: 100, B: 200}, {S: 1, K: "inssel", T: 2, U: 0, A: 10},
				{S: 1, K: "inssel", T: 2, U: 1, A: 12}, {S: 1, K: "deljoin", T: 0, U: 1, A: 3}, {S: 1, K: "read", T: 2}, {S: 1, K: "commit"},
				{S: 2, K: "updjoin", T: 1, U: 0, A: 1, B: 2}, {S: 2, K: "inssel", T: 2, U: 0, A: 10}, {S: 2, K: "joinread", T: 2, U: 1},
				{S: 2, K: "begin"}, {S: 2, K: "deljoin", T: 1, U: 0, A: 1}, {S: 2, K: "rollback"}, {S: 1, K: "joinread", T: 1, U: 0}}},
			// overlapping: an unfiltered DELETE registers every table in the session; a later read of another table inside the
			// own transaction is the snapshot taken then, and the commit republishes it (model comparison only)
			{Init: [][]KV{{{1, 10}}, {{1, 1}}, {{1, 5}}}, H: []Stmt{
				{S: 1, K: "begin"}, {S: 1, K: "delall", T: 0}, {S: 2, K: "ins", T: 1, KVs: []KV{{6, 6}}}, {S: 1, K: "read", T: 1}, {S: 1, K: "commit"},
				{S: 2, K: "read", T: 1}}},
		}
		for _, cs := range corpus {
			run(c, cs)
		}
		for i := len(corpus); i < c.N; i++ {
			run(c, gen(c.R.Fork()))
		}
	})
}
