// Driver for C17 (transactions of the in-memory backend): 2-3 sessions plus an observer session on one engine,
// generated histories of transactional statements executed sequentially in the generated interleaving.  Every
// statement's result is recorded for the Coq state machine (Store/C17Txn.v); the property predicate is evaluated
// on the implementation alone against a specification-level reference written here (committed state, private
// view per open transaction, commit points), which knows nothing about the session staging of the engine.
package main

import (
	"encoding/json"
	"fmt"
	"sort"
	"strings"

	"verifharness/lib"
	"verifharness/lib/eng"
)

const nTables = 2

type KV [2]int64

type Stmt struct {
	S   int    `json:"s"`           // session (0 = observer, inserted by the runner)
	K   string `json:"k"`           // read ins updall updkey delkey delge begin commit rollback setac bad
	T   int    `json:"t,omitempty"` // table
	KVs []KV   `json:"kvs,omitempty"`
	A   int64  `json:"a,omitempty"`
	B   int64  `json:"b,omitempty"`
}

type caseT struct {
	Init   [][]KV `json:"init"`
	H      []Stmt `json:"h"`
	Serial bool   `json:"serial"` // transactions of different sessions do not overlap (by construction)
}

func (q Stmt) sql() string {
	t := fmt.Sprintf("t%d", q.T)
	switch q.K {
	case "read":
		return "SELECT k, v FROM " + t + " ORDER BY k"
	case "ins":
		var vs []string
		for _, kv := range q.KVs {
			vs = append(vs, fmt.Sprintf("(%d,%d)", kv[0], kv[1]))
		}
		return "INSERT INTO " + t + " VALUES " + strings.Join(vs, ",")
	case "updall":
		return fmt.Sprintf("UPDATE %s SET v = v + %d", t, q.A)
	case "updkey":
		return fmt.Sprintf("UPDATE %s SET v = %d WHERE k = %d", t, q.B, q.A)
	case "delkey":
		return fmt.Sprintf("DELETE FROM %s WHERE k = %d", t, q.A)
	case "delge":
		return fmt.Sprintf("DELETE FROM %s WHERE k >= %d", t, q.A)
	case "delall":
		return "DELETE FROM " + t
	case "trunc":
		return "TRUNCATE TABLE " + t
	case "begin":
		if q.A == 1 {
			return "START TRANSACTION"
		}
		return "BEGIN"
	case "commit":
		return "COMMIT"
	case "rollback":
		return "ROLLBACK"
	case "setac":
		return fmt.Sprintf("SET autocommit = %d", q.A)
	case "bad":
		return "SELECT * FROM no_such_table"
	}
	panic("bad stmt kind " + q.K)
}

func (q Stmt) isWrite() bool {
	switch q.K {
	case "ins", "updall", "updkey", "delkey", "delge", "delall", "trunc":
		return true
	}
	return false
}

func coqKVs(kvs []KV) string {
	return lib.CoqListOf(kvs, func(kv KV) string { return fmt.Sprintf("KV %s %s", coqZ(kv[0]), coqZ(kv[1])) })
}

func coqZ(z int64) string {
	if z < 0 {
		return fmt.Sprintf("(%d)", z)
	}
	return fmt.Sprintf("%d", z)
}

func (q Stmt) coq() string {
	t := fmt.Sprintf("%d", q.T)
	switch q.K {
	case "read":
		return "QRead " + t
	case "ins":
		return fmt.Sprintf("QIns %s %s", t, coqKVs(q.KVs))
	case "updall":
		return fmt.Sprintf("QUpdAll %s %s", t, coqZ(q.A))
	case "updkey":
		return fmt.Sprintf("QUpdKey %s %s %s", t, coqZ(q.A), coqZ(q.B))
	case "delkey":
		return fmt.Sprintf("QDelKey %s %s", t, coqZ(q.A))
	case "delge":
		return fmt.Sprintf("QDelGe %s %s", t, coqZ(q.A))
	case "delall":
		return "QDelAll " + t
	case "trunc":
		return "QTrunc " + t
	case "begin":
		return "QBegin"
	case "commit":
		return "QCommit"
	case "rollback":
		return "QRollback"
	case "setac":
		return "QSetAC " + lib.CoqBool(q.A != 0)
	case "bad":
		return "QBad"
	}
	panic("bad stmt kind " + q.K)
}

// ---- independent reference semantics of the write statements on a table (sorted by key) ----

func cloneKVs(d []KV) []KV { return append([]KV{}, d...) }

func applyRef(q Stmt, d []KV) ([]KV, bool) {
	out := cloneKVs(d)
	switch q.K {
	case "ins":
		for _, kv := range q.KVs {
			for _, x := range out {
				if x[0] == kv[0] {
					return d, false
				}
			}
			out = append(out, kv)
		}
		sort.Slice(out, func(i, j int) bool { return out[i][0] < out[j][0] })
	case "updall":
		for i := range out {
			out[i][1] += q.A
		}
	case "updkey":
		for i := range out {
			if out[i][0] == q.A {
				out[i][1] = q.B
			}
		}
	case "delall", "trunc":
		out = out[:0]
	case "delkey", "delge":
		out = out[:0]
		for _, x := range d {
			if (q.K == "delkey" && x[0] != q.A) || (q.K == "delge" && x[0] < q.A) {
				out = append(out, x)
			}
		}
	}
	return out, true
}

func eqKVs(a, b []KV) bool {
	if len(a) != len(b) {
		return false
	}
	for i := range a {
		if a[i] != b[i] {
			return false
		}
	}
	return true
}

// ---- generator ----

func genWrite(r *lib.RNG, s int) Stmt {
	q := Stmt{S: s, T: r.Intn(nTables)}
	switch r.Intn(9) {
	case 8:
		q.K = "delall"
	case 0, 1, 2:
		q.K = "ins"
		n := 1
		if r.Chance(1, 3) {
			n = 2
		}
		for i := 0; i < n; i++ {
			q.KVs = append(q.KVs, KV{int64(r.Range(1, 7)), int64(r.Range(0, 99))})
		}
	case 3:
		q.K, q.A = "updall", int64(r.Range(1, 9))
	case 4, 5:
		q.K, q.A, q.B = "updkey", int64(r.Range(1, 7)), int64(r.Range(100, 199))
	case 6:
		q.K, q.A = "delkey", int64(r.Range(1, 7))
	default:
		q.K, q.A = "delge", int64(r.Range(3, 8))
	}
	return q
}

func genRW(r *lib.RNG, s int) Stmt {
	if r.Chance(1, 3) {
		return Stmt{S: s, K: "read", T: r.Intn(nTables)}
	}
	return genWrite(r, s)
}

func gen(r *lib.RNG) caseT {
	var c caseT
	for t := 0; t < nTables; t++ {
		var d []KV
		for k := 1; k <= 6; k++ {
			if r.Chance(1, 3) {
				d = append(d, KV{int64(k), int64(r.Range(0, 99))})
			}
		}
		if d == nil {
			d = []KV{}
		}
		c.Init = append(c.Init, d)
	}
	ns := r.Range(2, 3)
	if r.Chance(2, 5) {
		// non-overlapping: a sequence of blocks
		c.Serial = true
		nb := r.Range(3, 8)
		for i := 0; i < nb; i++ {
			s := r.Range(1, ns)
			switch r.Intn(7) {
			case 0, 1:
				c.H = append(c.H, genRW(r, s))
			case 2:
				if r.Chance(1, 2) {
					c.H = append(c.H, Stmt{S: s, K: "bad"})
					break
				}
				// an autocommit-off block; sometimes an explicit BEGIN inside it, with no COMMIT in between: the BEGIN
				// commits the pending work and a later ROLLBACK must not discard it
				c.H = append(c.H, Stmt{S: s, K: "setac", A: 0})
				for j, n := 0, r.Range(0, 3); j < n; j++ {
					c.H = append(c.H, genRW(r, s))
				}
				if r.Chance(1, 2) {
					c.H = append(c.H, genWrite(r, s))
					c.H = append(c.H, Stmt{S: s, K: "begin", A: int64(r.Intn(2))})
					for j, n := 0, r.Range(0, 2); j < n; j++ {
						c.H = append(c.H, genRW(r, s))
					}
				}
				c.H = append(c.H, Stmt{S: s, K: lib.Pick(r, []string{"commit", "rollback", "rollback"})})
				c.H = append(c.H, Stmt{S: s, K: "setac", A: 1})
			case 3:
				// a transaction (or an autocommit statement) whose only write to the table is DELETE FROM t / TRUNCATE
				t := r.Intn(nTables)
				switch r.Intn(4) {
				case 0:
					c.H = append(c.H, Stmt{S: s, K: "delall", T: t})
				case 1:
					c.H = append(c.H, Stmt{S: s, K: "trunc", T: t})
				case 2:
					c.H = append(c.H, Stmt{S: s, K: "begin"}, Stmt{S: s, K: "delall", T: t}, Stmt{S: s, K: lib.Pick(r, []string{"commit", "commit", "rollback"})})
				default:
					c.H = append(c.H, Stmt{S: s, K: "begin"}, Stmt{S: s, K: "read", T: 1 - t}, Stmt{S: s, K: "trunc", T: t}, Stmt{S: s, K: "commit"})
				}
			default:
				c.H = append(c.H, Stmt{S: s, K: "begin", A: int64(r.Intn(2))})
				for j, n := 0, r.Range(0, 4); j < n; j++ {
					c.H = append(c.H, genRW(r, s))
				}
				if r.Chance(1, 8) {
					c.H = append(c.H, Stmt{S: s, K: "bad"})
				}
				c.H = append(c.H, Stmt{S: s, K: lib.Pick(r, []string{"commit", "commit", "rollback"})})
			}
		}
		return c
	}
	// arbitrary interleaving
	n := r.Range(5, 18)
	open := map[int]bool{}
	for i := 0; i < n; i++ {
		s := r.Range(1, ns)
		x := r.Intn(100)
		switch {
		case open[s] && x < 60, !open[s] && x < 45:
			c.H = append(c.H, genRW(r, s))
		case x < 72 && !open[s], x < 64:
			c.H = append(c.H, Stmt{S: s, K: "begin", A: int64(r.Intn(2))})
			open[s] = true
		case x < 82:
			c.H = append(c.H, Stmt{S: s, K: "commit"})
			open[s] = false
		case x < 90:
			c.H = append(c.H, Stmt{S: s, K: "rollback"})
			open[s] = false
		case x < 94:
			c.H = append(c.H, Stmt{S: s, K: "setac", A: int64(r.Intn(2))})
		case x < 96:
			c.H = append(c.H, Stmt{S: s, K: "trunc", T: r.Intn(nTables)}, Stmt{S: s, K: "commit"})
			open[s] = false
		default:
			c.H = append(c.H, Stmt{S: s, K: "bad"})
		}
	}
	return c
}

// ---- running ----

type obsT struct {
	Kind string // ok err rows
	Rows []KV
}

func (o obsT) coq() string {
	switch o.Kind {
	case "ok":
		return "OOk"
	case "err":
		return "OErr"
	}
	return "ORows " + coqKVs(o.Rows)
}

type sessRef struct {
	ac, explicit bool
	// private view of the open transaction, per touched table: the CANDIDATES still consistent with what the session has
	// observed - each is some committed version of the table since the transaction began, plus the session's own changes
	// (which committed version a transaction reads is not specified; that it is a committed one is)
	priv      map[int][][]KV
	written   map[int]bool
	ambiguous map[int]bool     // another session's commit changed the table after this transaction first touched it
	versions  map[int][][]KV   // committed versions of every table since this transaction began
	started   bool
}

func (sr *sessRef) endTx() {
	sr.priv, sr.written, sr.ambiguous = map[int][][]KV{}, map[int]bool{}, map[int]bool{}
	sr.versions, sr.started = map[int][][]KV{}, false
}

func (sr *sessRef) start(committed [][]KV) {
	if !sr.started {
		sr.started = true
		for t := range committed {
			sr.versions[t] = [][]KV{cloneKVs(committed[t])}
		}
	}
}

func inCands(c [][]KV, d []KV) bool {
	for _, x := range c {
		if eqKVs(x, d) {
			return true
		}
	}
	return false
}

func run(c *lib.Ctx, cs caseT) {
	e := eng.New("db")
	setup := e.Session()
	for t := 0; t < nTables; t++ {
		setup.MustExec(fmt.Sprintf("CREATE TABLE t%d (k INT PRIMARY KEY, v INT)", t))
		if t < len(cs.Init) && len(cs.Init[t]) > 0 {
			setup.MustExec(Stmt{K: "ins", T: t, KVs: cs.Init[t]}.sql())
		}
	}
	sess := map[int]*eng.S{}
	get := func(i int) *eng.S {
		if sess[i] == nil {
			sess[i] = e.Session()
		}
		return sess[i]
	}
	type failT struct{ sig, what string }
	var fails []failT
	fail := func(sig, what string) { fails = append(fails, failT{sig, what}) }

	exec := func(q Stmt) obsT {
		r := get(q.S).Query(q.sql())
		if r.Panic != "" {
			fail("panic", fmt.Sprintf("session %d: %s panicked: %s", q.S, q.sql(), r.Panic))
			return obsT{Kind: "err"}
		}
		if r.Err != nil {
			k := eng.ErrKind(r.Err)
			if !(q.K == "ins" && k == "dup-key") && !(q.K == "bad" && k == "not-found") {
				fail("unexpected-error/"+q.K, fmt.Sprintf("session %d: %s failed: %v", q.S, q.sql(), r.Err))
			}
			return obsT{Kind: "err"}
		}
		if q.K == "read" {
			o := obsT{Kind: "rows", Rows: []KV{}}
			for _, row := range r.Rows {
				var kv KV
				for i := 0; i < 2; i++ {
					switch x := row[i].(type) {
					case int32:
						kv[i] = int64(x)
					case int64:
						kv[i] = x
					default:
						fail("unexpected-value", fmt.Sprintf("%s returned %T", q.sql(), row[i]))
					}
				}
				o.Rows = append(o.Rows, kv)
			}
			return o
		}
		return obsT{Kind: "ok"}
	}

	var full []Stmt
	var obs []obsT
	// committed state as seen by the observer
	committed := make([][]KV, nTables)
	for t := 0; t < nTables; t++ {
		committed[t] = []KV{}
		if t < len(cs.Init) {
			committed[t] = cloneKVs(cs.Init[t])
		}
	}
	refs := map[int]*sessRef{}
	ref := func(s int) *sessRef {
		if refs[s] == nil {
			refs[s] = &sessRef{ac: true}
			refs[s].endTx()
		}
		return refs[s]
	}
	nCommitPoints, nTxWrites := 0, 0
	for i, q := range cs.H {
		sr := ref(q.S)
		inTx := sr.explicit || !sr.ac
		// classification by the specification: does this statement end a transaction by committing it?
		commitPoint := false
		switch q.K {
		case "begin", "commit", "trunc":
			commitPoint = true
		case "setac":
			commitPoint = !sr.explicit && q.A != 0
		case "rollback":
		default:
			commitPoint = !inTx
		}
		sr.start(committed)
		o := exec(q)
		full, obs = append(full, q), append(obs, o)
		// reference: the statement's own effect on the private view
		if q.K == "read" || q.isWrite() {
			if _, ok := sr.priv[q.T]; !ok {
				for _, v := range sr.versions[q.T] {
					sr.priv[q.T] = append(sr.priv[q.T], cloneKVs(v))
				}
			}
			if !sr.ambiguous[q.T] {
				var keep [][]KV
				if q.K == "read" {
					for _, cand := range sr.priv[q.T] {
						if o.Kind == "rows" && eqKVs(o.Rows, cand) {
							keep = append(keep, cand)
						}
					}
					if len(keep) == 0 {
						fail("read-differs-from-own-view", fmt.Sprintf("step %d session %d: %s returned %v, expected one of %v (a committed state since the transaction began, plus own changes)", i, q.S, q.sql(), o.Rows, sr.priv[q.T]))
						keep = sr.priv[q.T]
					}
				} else {
					for _, cand := range sr.priv[q.T] {
						if nd, okRef := applyRef(q, cand); okRef == (o.Kind == "ok") {
							keep = append(keep, nd)
						}
					}
					if len(keep) == 0 {
						fail("write-outcome-differs", fmt.Sprintf("step %d session %d: %s gave %s, impossible on any of %v", i, q.S, q.sql(), o.Kind, sr.priv[q.T]))
						keep = sr.priv[q.T]
					}
				}
				sr.priv[q.T] = keep
			} else if q.isWrite() && o.Kind == "ok" {
				for ci := range sr.priv[q.T] {
					sr.priv[q.T][ci], _ = applyRef(q, sr.priv[q.T][ci])
				}
			}
			if q.isWrite() {
				sr.written[q.T] = true
				if inTx {
					nTxWrites++
				}
			}
		}
		// observer reads every table after every statement
		before := committed
		after := make([][]KV, nTables)
		for t := 0; t < nTables; t++ {
			oq := Stmt{S: 0, K: "read", T: t}
			oo := exec(oq)
			full, obs = append(full, oq), append(obs, oo)
			after[t] = oo.Rows
		}
		for t := 0; t < nTables; t++ {
			changed := !eqKVs(before[t], after[t])
			switch {
			case !commitPoint && changed:
				fail("uncommitted-change-visible/"+q.K, fmt.Sprintf("step %d session %d: %s is not a commit point but the observer's t%d changed from %v to %v", i, q.S, q.sql(), t, before[t], after[t]))
			case commitPoint && sr.written[t] && !sr.ambiguous[t] && !inCands(sr.priv[t], after[t]):
				fail("commit-not-published/"+q.K, fmt.Sprintf("step %d session %d: %s commits, t%d should be %v, observer sees %v", i, q.S, q.sql(), t, sr.priv[t], after[t]))
			case commitPoint && !sr.written[t] && changed && cs.Serial:
				// only demanded when transactions do not overlap (there it can never legitimately happen); with
				// overlapping transactions the backend documents no isolation and a commit may republish a table it only read
				fail("commit-changes-table-it-did-not-write/"+q.K, fmt.Sprintf("step %d session %d: %s commits a transaction that did not write t%d, yet the observer's t%d changed from %v to %v", i, q.S, q.sql(), t, t, before[t], after[t]))
			}
			if changed {
				for s2, r2 := range refs {
					if s2 != q.S {
						if _, touched := r2.priv[t]; touched {
							r2.ambiguous[t] = true
						}
						if r2.started {
							r2.versions[t] = append(r2.versions[t], cloneKVs(after[t]))
						}
					}
				}
			}
		}
		committed = after
		// mode transitions by the specification
		switch q.K {
		case "begin":
			sr.endTx()
			sr.explicit = true
			sr.start(committed)
		case "commit", "rollback":
			sr.endTx()
			sr.explicit = false
		case "setac":
			if commitPoint {
				sr.endTx()
			}
			sr.ac = q.A != 0
		default:
			if commitPoint {
				sr.endTx()
			}
		}
		if commitPoint {
			nCommitPoints++
		}
		if cs.Serial {
			for s2, r2 := range refs {
				if len(r2.ambiguous) > 0 {
					fail("driver-bug", fmt.Sprintf("serial history became ambiguous for session %d", s2))
				}
			}
		}
	}

	items := make([]string, len(full))
	for i := range full {
		items[i] = fmt.Sprintf("Ev %d (%s) (%s)", full[i].S, full[i].coq(), obs[i].coq())
	}
	tabs := []string{"[]", "[]"}
	for t := range cs.Init {
		if t < 2 {
			tabs[t] = coqKVs(cs.Init[t])
		}
	}
	key := ""
	if nTxWrites > 0 {
		b, _ := json.Marshal(cs)
		key = string(b)
	}
	if cs.Serial {
		c.Count("history/non-overlapping")
	} else {
		c.Count("history/interleaved")
	}
	c.Count(fmt.Sprintf("statements/%d", (len(cs.H)/5)*5))
	for _, q := range cs.H {
		c.Count("stmt/" + q.K)
	}
	if nTxWrites > 0 {
		c.Count("has-write-inside-open-transaction")
	}
	id := c.Case(fmt.Sprintf("Case %s %s %s", tabs[0], tabs[1], lib.CoqList(items)), cs, key)
	c.PredChecked()
	seen := map[string]bool{}
	for _, f := range fails {
		if !seen[f.sig] {
			seen[f.sig] = true
			c.PredFail(id, f.sig, f.what, cs)
		}
	}
}

func main() {
	lib.Main("C17", func(c *lib.Ctx) {
		c.Header = "From Coq Require Import List NArith ZArith.\nImport ListNotations.\nFrom GMS Require Import Store.C17Txn Corr.C17.\nOpen Scope N_scope."
		c.CaseType = "C17.case"
		c.MismatchFn = "C17.mismatches"
		c.SetRule("2 tables (k INT PRIMARY KEY, v INT) with 0-6 initial rows, 2-3 sessions + an observer session on one engine; " +
			"histories of 5-30 statements (single/multi-row INSERT with duplicate keys, UPDATE, DELETE, SELECT, BEGIN/START TRANSACTION, " +
			"COMMIT, ROLLBACK, SET autocommit, a statement failing in analysis), 40% built from non-overlapping transaction blocks, " +
			"60% arbitrary interleavings; the observer reads both tables after every statement. " +
			"Non-trivial = at least one write inside an open (explicit or autocommit-off) transaction; distinct = distinct cases.")
		if c.ReplayFile != "" {
			var cs caseT
			lib.LoadReplay(c.ReplayFile, &cs)
			run(c, cs)
			return
		}
		corpus := []caseT{
			// rollback restores, commit publishes
			{Init: [][]KV{{{1, 10}, {2, 20}}, {}}, Serial: true, H: []Stmt{
				{S: 1, K: "begin"}, {S: 1, K: "ins", T: 0, KVs: []KV{{3, 30}}}, {S: 1, K: "read", T: 0}, {S: 1, K: "rollback"}, {S: 1, K: "read", T: 0},
				{S: 2, K: "begin"}, {S: 2, K: "updall", T: 0, A: 5}, {S: 2, K: "ins", T: 1, KVs: []KV{{1, 1}}}, {S: 2, K: "commit"}, {S: 1, K: "read", T: 0}}},
			// overlapping transactions (outside the property's final-state quantifier, compared with the model only):
			// a transaction that only READ t0 republishes its snapshot when it commits
			{Init: [][]KV{{{1, 10}, {2, 20}}, {}}, H: []Stmt{
				{S: 1, K: "begin"}, {S: 1, K: "read", T: 0}, {S: 2, K: "ins", T: 0, KVs: []KV{{4, 40}}}, {S: 1, K: "commit"}, {S: 2, K: "read", T: 0}}},
			// same through the implicit commit of BEGIN and through SET autocommit = 1
			{Init: [][]KV{{{1, 10}}, {}}, H: []Stmt{
				{S: 1, K: "begin"}, {S: 1, K: "read", T: 0}, {S: 2, K: "delkey", T: 0, A: 1}, {S: 1, K: "begin"}, {S: 1, K: "rollback"}}},
			{Init: [][]KV{{{1, 10}}, {}}, H: []Stmt{
				{S: 1, K: "setac", A: 0}, {S: 1, K: "read", T: 0}, {S: 2, K: "updall", T: 0, A: 1}, {S: 1, K: "setac", A: 1}}},
			// autocommit off, a write, then an explicit BEGIN with no COMMIT in between: BEGIN commits the pending work and
			// the later ROLLBACK must not discard it
			{Init: [][]KV{{{1, 10}}, {}}, Serial: true, H: []Stmt{
				{S: 1, K: "setac", A: 0}, {S: 1, K: "ins", T: 0, KVs: []KV{{6, 60}}}, {S: 1, K: "begin", A: 1}, {S: 1, K: "ins", T: 0, KVs: []KV{{7, 70}}},
				{S: 1, K: "rollback"}, {S: 1, K: "read", T: 0}, {S: 1, K: "setac", A: 1}, {S: 2, K: "read", T: 0}}},
			// a transaction whose only write is an unfiltered DELETE (planned as a truncate) / TRUNCATE: must become visible
			{Init: [][]KV{{{1, 10}, {2, 20}}, {{1, 1}}}, Serial: true, H: []Stmt{
				{S: 1, K: "begin"}, {S: 1, K: "delall", T: 0}, {S: 1, K: "read", T: 0}, {S: 1, K: "commit"}, {S: 2, K: "read", T: 0},
				{S: 2, K: "delall", T: 1}, {S: 1, K: "read", T: 1}, {S: 1, K: "ins", T: 0, KVs: []KV{{3, 30}}},
				{S: 1, K: "begin"}, {S: 1, K: "delall", T: 0}, {S: 1, K: "rollback"}, {S: 2, K: "read", T: 0},
				{S: 2, K: "trunc", T: 0}, {S: 1, K: "read", T: 0}, {S: 1, K: "ins", T: 1, KVs: []KV{{4, 4}}},
				{S: 1, K: "begin"}, {S: 1, K: "trunc", T: 1}, {S: 1, K: "commit"}, {S: 2, K: "read", T: 1}}},
			// autocommit off; failed statements; error inside a transaction
			{Init: [][]KV{{{1, 10}}, {{1, 1}}}, Serial: true, H: []Stmt{
				{S: 1, K: "setac", A: 0}, {S: 1, K: "ins", T: 0, KVs: []KV{{5, 50}}}, {S: 1, K: "setac", A: 1},
				{S: 1, K: "ins", T: 0, KVs: []KV{{6, 60}, {1, 11}}}, {S: 2, K: "begin"}, {S: 2, K: "ins", T: 0, KVs: []KV{{7, 70}}},
				{S: 2, K: "ins", T: 0, KVs: []KV{{8, 80}, {1, 11}}}, {S: 2, K: "bad"}, {S: 2, K: "begin"}, {S: 2, K: "rollback"}}},
		}
		for _, cs := range corpus {
			run(c, cs)
		}
		for i := len(corpus); i < c.N; i++ {
			run(c, gen(c.R.Fork()))
		}
	})
}
