// Driver for C40 (authentication): runs validateMysqlNativePassword, matchesHostPattern, MySQLDb.ValidateHash and
// userValidator.HandleUser from /repo on generated accounts and login attempts (including malformed auth
// responses), records the observations for the Coq model (H := SHA-1) and evaluates the property predicate with an
// independent reference (crypto/sha1 + encoding/hex from the standard library, own host matching).
package main

import (
	"bytes"
	"context"
	"crypto/ecdsa"
	"crypto/elliptic"
	"crypto/rand"
	"crypto/sha1"
	"crypto/tls"
	"crypto/x509"
	"crypto/x509/pkix"
	"math/big"
	dsql "database/sql"
	"encoding/hex"
	"errors"
	"fmt"
	"net"
	"strings"
	"time"

	"github.com/dolthub/vitess/go/mysql"
	gomysql "github.com/go-sql-driver/mysql"
	"github.com/sirupsen/logrus"

	sqle "github.com/dolthub/go-mysql-server"
	"github.com/dolthub/go-mysql-server/memory"
	"github.com/dolthub/go-mysql-server/server"

	"github.com/dolthub/go-mysql-server/sql"
	"github.com/dolthub/go-mysql-server/sql/mysql_db"

	"verifharness/lib"
)

type acct struct {
	Name   string `json:"name"`
	Host   string `json:"host"`
	Auth   string `json:"auth"`
	Locked bool   `json:"locked"`
	Plugin string `json:"plugin"`
}

type caseT struct {
	Kind    string `json:"kind"` // validate | hostpat | sha | login
	Resp    []byte `json:"resp,omitempty"`
	Salt    []byte `json:"salt,omitempty"`
	Auth    string `json:"auth,omitempty"`
	Host    string `json:"host,omitempty"`
	Pat     string `json:"pat,omitempty"`
	Msg     []byte `json:"msg,omitempty"`
	Enabled bool   `json:"enabled,omitempty"`
	Users   []acct `json:"users,omitempty"`
	Name    string `json:"name,omitempty"`
	Note    string `json:"note,omitempty"`
	Out     string `json:"out,omitempty"`
	Pw      string `json:"pw,omitempty"` // wire cases: the password the real client (go-sql-driver) logs in with
}

// wireAttempt starts a real server (server.NewServer on an ephemeral 127.0.0.1 port) over an engine whose mysql database
// holds exactly cs.Users, logs in with go-sql-driver as cs.Name / cs.Pw and, when accepted, asks CURRENT_USER().
// Returns the identity the session runs as, or denied (error 1045), or another error.
func wireAttempt(cs caseT) (accepted bool, ident string, denied bool, other error) {
	pro := memory.NewDBProvider(memory.NewDatabase("db"))
	e := sqle.NewDefault(pro)
	mdb := e.Analyzer.Catalog.MySQLDb
	mdb.SetPersister(&mysql_db.NoopPersister{})
	mdb.SetEnabled(true)
	ed := mdb.Editor()
	for _, a := range cs.Users {
		ps := mysql_db.NewPrivilegeSet()
		ed.PutUser(&mysql_db.User{User: a.Name, Host: a.Host, AuthString: a.Auth, Locked: a.Locked, Plugin: a.Plugin, PrivilegeSet: ps})
	}
	ed.Close()
	srv, err := server.NewServer(server.Config{Protocol: "tcp", Address: "127.0.0.1:0"}, e, sql.NewContext, memory.NewSessionBuilder(pro), nil)
	if err != nil {
		return false, "", false, err
	}
	go srv.Start()
	defer srv.Close()
	_, port, _ := net.SplitHostPort(srv.Listener.Addr().String())
	cfg := gomysql.NewConfig()
	cfg.User, cfg.Passwd, cfg.Net, cfg.Addr = cs.Name, cs.Pw, "tcp", "127.0.0.1:"+port
	cfg.Timeout, cfg.ReadTimeout = 5*time.Second, 10*time.Second
	// a Connector, not a DSN: FormatDSN drops the password when the user name is empty
	connector, err := gomysql.NewConnector(cfg)
	if err != nil {
		return false, "", false, err
	}
	conn := dsql.OpenDB(connector)
	defer conn.Close()
	var cu string
	err = conn.QueryRow("SELECT CURRENT_USER()").Scan(&cu)
	if err != nil {
		var me *gomysql.MySQLError
		if errors.As(err, &me) && me.Number == 1045 {
			return false, "", true, nil
		}
		return false, "", false, err
	}
	return true, cu, false, nil
}

const native = "mysql_native_password"

func sha(b ...[]byte) []byte {
	h := sha1.New()
	for _, x := range b {
		h.Write(x)
	}
	return h.Sum(nil)
}

func stored(pw string) string {
	if pw == "" {
		return ""
	}
	return "*" + strings.ToUpper(hex.EncodeToString(sha(sha([]byte(pw)))))
}

// honest client: SHA1(pw) XOR SHA1(salt ++ SHA1(SHA1(pw)))
func honest(salt []byte, pw string) []byte {
	if pw == "" {
		return nil
	}
	s1 := sha([]byte(pw))
	sc := sha(salt, sha(s1))
	out := make([]byte, 20)
	for i := range out {
		out[i] = s1[i] ^ sc[i]
	}
	return out
}

// refProves: does resp (first 20 bytes) prove knowledge of a preimage of the hash stored in auth?
func refProves(resp, salt []byte, auth string) bool {
	if len(resp) < 20 || auth == "" {
		return false
	}
	a := strings.TrimPrefix(auth, "*")
	if strings.HasPrefix(auth, "*") {
		a = auth[1:]
	}
	hash, err := hex.DecodeString(a)
	if err != nil {
		return false
	}
	sc := sha(salt, hash)
	s1 := make([]byte, 20)
	for i := range s1 {
		s1[i] = sc[i] ^ resp[i]
	}
	return bytes.Equal(sha(s1), hash)
}

// refGlob: '%' = any run of bytes (not newline), everything else literal.
func refGlob(p, h string) bool {
	if p == "" {
		return h == ""
	}
	if p[0] == '%' {
		for i := 0; i <= len(h); i++ {
			if refGlob(p[1:], h[i:]) {
				return true
			}
			if i < len(h) && h[i] == '\n' {
				break
			}
		}
		return false
	}
	return h != "" && h[0] == p[0] && refGlob(p[1:], h[1:])
}

func isLoop(h string) bool { return h == "localhost" || h == "127.0.0.1" || h == "::1" }

func patMatch(p, h string) bool {
	if strings.Contains(p, "%") {
		return refGlob(p, h)
	}
	return p == h
}

// conservative: what every reading of "the account's host pattern matches the client" includes
func matchStrict(client, acctHost string) bool {
	if patMatch(acctHost, client) {
		return true
	}
	return isLoop(client) && patMatch(acctHost, "localhost")
}

// liberal: all loopback spellings are the same host
func matchLiberal(client, acctHost string) bool {
	if matchStrict(client, acctHost) {
		return true
	}
	if isLoop(client) {
		for _, a := range []string{"localhost", "127.0.0.1", "::1"} {
			if patMatch(acctHost, a) {
				return true
			}
		}
	}
	return false
}

type fakeAddr struct{ net, s string }

func (a fakeAddr) Network() string { return a.net }
func (a fakeAddr) String() string  { return a.s }

func coqBool(b bool) string { return lib.CoqBool(b) }

func coqUser(a acct) string {
	return fmt.Sprintf("(mkUser %s %s %s %s %s)", lib.CoqStr(a.Name), lib.CoqStr(a.Host), lib.CoqStr(a.Auth), coqBool(a.Locked), lib.CoqStr(a.Plugin))
}

func shortPanicSig(resp []byte, pv string) string {
	if len(resp) > 0 && len(resp) < 20 && strings.Contains(pv, "index out of range") {
		return "native-password/response-shorter-than-20-bytes/index-out-of-range-panic"
	}
	return "panic/other"
}

func runValidate(c *lib.Ctx, cs caseT) {
	var out bool
	p, pv := lib.Recover(func() { out = mysql_db.VerifC40ValidateMysqlNativePassword(cs.Resp, cs.Salt, cs.Auth) })
	code := 0
	switch {
	case p:
		code = 2
		cs.Out = "panic: " + pv
	case out:
		code = 1
		cs.Out = "true"
	default:
		cs.Out = "false"
	}
	proves := refProves(cs.Resp, cs.Salt, cs.Auth)
	key := ""
	if code == 1 || (len(cs.Resp) >= 20 && !proves && cs.Auth != "") {
		key = fmt.Sprintf("v|%x|%x|%s", cs.Resp, cs.Salt, cs.Auth)
	}
	c.Count(fmt.Sprintf("validate/resp_len_%s/out_%d", lenClass(len(cs.Resp)), code))
	id := c.Case(fmt.Sprintf("(CValidate %s %s %s %d)", lib.CoqBytes(cs.Resp), lib.CoqBytes(cs.Salt), lib.CoqStr(cs.Auth), code), cs, key)
	c.PredChecked()
	switch {
	case p:
		c.PredFail(id, shortPanicSig(cs.Resp, pv),
			fmt.Sprintf("validateMysqlNativePassword(resp=%x (%d bytes), salt=%x, %q) panicked instead of rejecting: %s", cs.Resp, len(cs.Resp), cs.Salt, cs.Auth, pv), cs)
	case out && !proves:
		c.PredFail(id, "native-password/accepted-without-proof-of-password",
			fmt.Sprintf("validateMysqlNativePassword(resp=%x, salt=%x, %q) = true but the response does not prove knowledge of the password", cs.Resp, cs.Salt, cs.Auth), cs)
	case !out && proves && len(cs.Resp) == 20:
		c.PredFail(id, "native-password/valid-credentials-rejected",
			fmt.Sprintf("validateMysqlNativePassword(resp=%x, salt=%x, %q) = false for a valid 20-byte response", cs.Resp, cs.Salt, cs.Auth), cs)
	}
	// len(resp) > 20 with a valid 20-byte prefix: the property does not decide (knowledge is proven, the packet is oversized)
}

func lenClass(n int) string {
	switch {
	case n == 0:
		return "0"
	case n < 20:
		return "1-19"
	case n == 20:
		return "20"
	default:
		return "gt20"
	}
}

func runHostPat(c *lib.Ctx, cs caseT) {
	var out bool
	p, pv := lib.Recover(func() { out = mysql_db.VerifC40MatchesHostPattern(cs.Host, cs.Pat) })
	cs.Out = fmt.Sprint(out)
	if p {
		id := c.CaseNoModel(cs, "")
		c.PredFail(id, "panic/other", "matchesHostPattern panicked: "+pv, cs)
		return
	}
	key := ""
	if out {
		key = "h|" + cs.Host + "|" + cs.Pat
	}
	c.Count(fmt.Sprintf("hostpat/out_%v", out))
	id := c.Case(fmt.Sprintf("(CHostPat %s %s %s)", lib.CoqStr(cs.Host), lib.CoqStr(cs.Pat), coqBool(out)), cs, key)
	c.PredChecked()
	want := strings.Contains(cs.Pat, "%") && refGlob(cs.Pat, cs.Host)
	if out != want {
		c.PredFail(id, "host-pattern/wildcard-match-differs",
			fmt.Sprintf("matchesHostPattern(%q, %q) = %v, reference %v", cs.Host, cs.Pat, out, want), cs)
	}
}

func runSha(c *lib.Ctx, cs caseT) {
	d := sha(cs.Msg)
	cs.Out = hex.EncodeToString(d)
	c.Count("sha1")
	c.Case(fmt.Sprintf("(CSha %s %s)", lib.CoqBytes(cs.Msg), lib.CoqBytes(d)), cs, "")
}

func addrOf(host string) net.Addr {
	if host == "@unix" {
		return fakeAddr{"unix", "/tmp/mysql.sock"}
	}
	return fakeAddr{"tcp", net.JoinHostPort(host, "54321")}
}

func runLogin(c *lib.Ctx, cs caseT) {
	db := mysql_db.CreateEmptyMySQLDb()
	db.SetEnabled(cs.Enabled)
	ed := db.Editor()
	for _, a := range cs.Users {
		ed.PutUser(&mysql_db.User{User: a.Name, Host: a.Host, AuthString: a.Auth, Locked: a.Locked, Plugin: a.Plugin,
			PrivilegeSet: mysql_db.NewPrivilegeSet()})
	}
	ed.Close()
	addr := addrOf(cs.Host)
	clientHost := cs.Host
	if clientHost == "@unix" {
		clientHost = "localhost"
	}
	var g mysql.Getter
	var err error
	var nativeOK bool
	var p bool
	var pv string
	if cs.Kind == "wire" {
		// the real salt is chosen by the server and not observable; the verdict for an honest client does not depend on
		// it (C40_honest_client_accepted / C40_accept_iff), so the model and the predicate use a surrogate salt
		cs.Resp = honest(cs.Salt, cs.Pw)
		acc, ident, denied, other := wireAttempt(cs)
		switch {
		case other != nil:
			id := c.CaseNoModel(cs, "")
			c.PredFail(id, "wire/login-failed-with-another-error", fmt.Sprintf("login as %q with accounts %v: %v", cs.Name, cs.Users, other), cs)
			return
		case denied:
			err = errors.New("Access denied (1045)")
		case acc:
			var m *acct
			for i := range cs.Users {
				if cs.Users[i].Name+"@"+cs.Users[i].Host == ident {
					m = &cs.Users[i]
				}
			}
			if m == nil {
				id := c.CaseNoModel(cs, "")
				c.PredFail(id, "wire/current-user-is-not-an-account", fmt.Sprintf("login as %q accepted, CURRENT_USER() = %q is none of the accounts %v", cs.Name, ident, cs.Users), cs)
				return
			}
			g = sql.MysqlConnectionUser{User: m.Name, Host: m.Host}
		}
	} else {
		p, pv = lib.Recover(func() { g, err = db.ValidateHash(cs.Salt, cs.Name, cs.Resp, addr) })
	}
	p2, pv2 := lib.Recover(func() {
		nativeOK = mysql_db.VerifC40NewUserValidator(db, mysql.MysqlNativePassword).HandleUser(cs.Name, addr)
	})
	var outTerm string
	accepted := false
	var an, ah string
	switch {
	case p:
		outTerm = "OPanic"
		cs.Out = "panic: " + pv
	case err != nil:
		outTerm = "ODeny"
		cs.Out = "deny: " + err.Error()
	default:
		u, ok := g.(sql.MysqlConnectionUser)
		if !ok {
			id := c.CaseNoModel(cs, "")
			c.PredFail(id, "login/unexpected-getter-type", fmt.Sprintf("ValidateHash returned %T", g), cs)
			return
		}
		accepted, an, ah = true, u.User, u.Host
		outTerm = fmt.Sprintf("(OAccept %s %s)", lib.CoqStr(an), lib.CoqStr(ah))
		cs.Out = fmt.Sprintf("accept as %q@%q", an, ah)
	}
	if p2 {
		id := c.CaseNoModel(cs, "")
		c.PredFail(id, "panic/other", "HandleUser panicked: "+pv2, cs)
		return
	}
	key := ""
	if accepted && cs.Enabled {
		key = fmt.Sprintf("l|%v|%s|%s|%x", cs.Users, cs.Name, cs.Host, cs.Resp)
	}
	c.Count(cs.Kind + "/" + strings.SplitN(cs.Out, ":", 2)[0][:4] + "/resp_len_" + lenClass(len(cs.Resp)))
	term := fmt.Sprintf("(CLogin %s %s %s %s %s %s %s %s)", coqBool(cs.Enabled), lib.CoqListOf(cs.Users, coqUser),
		lib.CoqStr(cs.Name), lib.CoqStr(clientHost), lib.CoqBytes(cs.Salt), lib.CoqBytes(cs.Resp), outTerm, coqBool(nativeOK))
	id := c.Case(term, cs, key)

	// ---- property predicate on the implementation alone ----
	c.PredChecked()
	if !cs.Enabled {
		return // accounts disabled: everyone is accepted by design; the property is about enabled accounts
	}
	credsOK := func(a acct) (ok, decided bool) {
		if a.Auth == "" {
			return len(cs.Resp) == 0, true
		}
		pr := refProves(cs.Resp, cs.Salt, a.Auth)
		if len(cs.Resp) > 20 && pr {
			return true, false // oversized packet with a valid prefix: not decided by the property
		}
		return pr, true
	}
	var strict, liberal []acct
	for _, a := range cs.Users {
		if a.Name != cs.Name && a.Name != "" {
			continue
		}
		if matchStrict(clientHost, a.Host) {
			strict = append(strict, a)
		}
		if matchLiberal(clientHost, a.Host) {
			liberal = append(liberal, a)
		}
	}
	switch {
	case p:
		c.PredFail(id, "login/"+shortPanicSig(cs.Resp, pv),
			fmt.Sprintf("ValidateHash(user=%q, host=%q, resp=%x (%d bytes)) with accounts %v panicked instead of rejecting: %s", cs.Name, cs.Host, cs.Resp, len(cs.Resp), cs.Users, pv), cs)
	case accepted:
		var m *acct
		for i := range liberal {
			if liberal[i].Name == an && liberal[i].Host == ah {
				m = &liberal[i]
			}
		}
		switch {
		case m == nil:
			c.PredFail(id, "login/accepted-as-account-that-does-not-match",
				fmt.Sprintf("client %q@%q accepted as %q@%q, which is not an account matching that user and host (accounts %v)", cs.Name, cs.Host, an, ah, cs.Users), cs)
		case m.Locked:
			c.PredFail(id, "login/locked-account-accepted", fmt.Sprintf("client %q@%q accepted as locked account %q@%q", cs.Name, cs.Host, an, ah), cs)
		default:
			if ok, _ := credsOK(*m); !ok {
				c.PredFail(id, "login/accepted-without-valid-credentials",
					fmt.Sprintf("client %q@%q accepted as %q@%q (auth %q) with response %x that does not prove the password", cs.Name, cs.Host, an, ah, m.Auth, cs.Resp), cs)
			}
		}
	default: // denied
		if len(strict) > 0 {
			all := true
			for _, a := range liberal {
				ok, decided := credsOK(a)
				if a.Locked || !ok || !decided {
					all = false
				}
			}
			if all {
				c.PredFail(id, "login/valid-credentials-rejected",
					fmt.Sprintf("client %q@%q with valid credentials for every matching unlocked account %v was rejected: %v", cs.Name, cs.Host, liberal, err), cs)
			}
		}
	}
}

// ---------- caching_sha2_password over TLS: password changes take effect immediately ----------
func selfSigned() (tls.Certificate, error) {
	key, err := ecdsa.GenerateKey(elliptic.P256(), rand.Reader)
	if err != nil {
		return tls.Certificate{}, err
	}
	tmpl := &x509.Certificate{SerialNumber: big.NewInt(1), Subject: pkix.Name{CommonName: "127.0.0.1"},
		NotBefore: time.Now().Add(-time.Hour), NotAfter: time.Now().Add(24 * time.Hour),
		KeyUsage: x509.KeyUsageDigitalSignature | x509.KeyUsageKeyEncipherment, ExtKeyUsage: []x509.ExtKeyUsage{x509.ExtKeyUsageServerAuth},
		IPAddresses: []net.IP{net.ParseIP("127.0.0.1")}}
	der, err := x509.CreateCertificate(rand.Reader, tmpl, tmpl, &key.PublicKey, key)
	if err != nil {
		return tls.Certificate{}, err
	}
	return tls.Certificate{Certificate: [][]byte{der}, PrivateKey: key}, nil
}

var tlsCert *tls.Certificate

// tryLogin: "ok", "denied" (1045) or "error: ..."
func tryLogin(port, user, pw string, useTLS bool) string {
	cfg := gomysql.NewConfig()
	cfg.User, cfg.Passwd, cfg.Net, cfg.Addr = user, pw, "tcp", "127.0.0.1:"+port
	cfg.Timeout, cfg.ReadTimeout = 5*time.Second, 10*time.Second
	if useTLS {
		cfg.TLS = &tls.Config{InsecureSkipVerify: true}
	}
	connector, err := gomysql.NewConnector(cfg)
	if err != nil {
		return "error: " + err.Error()
	}
	conn := dsql.OpenDB(connector)
	defer conn.Close()
	var one int
	if err = conn.QueryRow("SELECT 1").Scan(&one); err != nil {
		var me *gomysql.MySQLError
		if errors.As(err, &me) && me.Number == 1045 {
			return "denied"
		}
		return "error: " + err.Error()
	}
	return "ok"
}

// runSha2: an account with plugin cs.Pat (caching_sha2_password or mysql_native_password) and a sequence of password
// changes (cs.Users[i].Auth = i-th password, set by CREATE USER / ALTER USER run by root); after every change, logins over TLS
// with every password used so far: exactly the current one is accepted (twice in a row: a server-side fast-auth cache is
// filled by the first successful login).
func runSha2(c *lib.Ctx, cs caseT) {
	if tlsCert == nil {
		cert, err := selfSigned()
		if err != nil {
			panic(err)
		}
		tlsCert = &cert
	}
	pro := memory.NewDBProvider(memory.NewDatabase("db"))
	e := sqle.NewDefault(pro)
	mdb := e.Analyzer.Catalog.MySQLDb
	mdb.AddRootAccount()
	mdb.SetPersister(&mysql_db.NoopPersister{})
	rootCtx := func() *sql.Context {
		base := sql.NewBaseSessionWithClientServer("srv", sql.Client{User: "root", Address: "localhost"}, 1)
		return sql.NewContext(context.Background(), sql.WithSession(memory.NewSession(base, pro)))
	}
	exec := func(q string) error {
		ctx := rootCtx()
		_, iter, _, err := e.Query(ctx, q)
		if err != nil {
			return err
		}
		for {
			if _, err = iter.Next(ctx); err != nil {
				break
			}
		}
		return iter.Close(ctx)
	}
	srv, err := server.NewServer(server.Config{Protocol: "tcp", Address: "127.0.0.1:0", TLSConfig: &tls.Config{Certificates: []tls.Certificate{*tlsCert}}},
		e, sql.NewContext, memory.NewSessionBuilder(pro), nil)
	if err != nil {
		id := c.CaseNoModel(cs, "")
		c.PredFail(id, "wire/server-start-failed", err.Error(), cs)
		return
	}
	go srv.Start()
	defer srv.Close()
	_, port, _ := net.SplitHostPort(srv.Listener.Addr().String())
	plugin := cs.Pat
	var log []string
	fail := ""
	var used []string
	for i, a := range cs.Users {
		pw := a.Auth
		q := fmt.Sprintf("ALTER USER 'cs'@'%%' IDENTIFIED WITH %s BY '%s'", plugin, pw)
		if i == 0 {
			q = fmt.Sprintf("CREATE USER 'cs'@'%%' IDENTIFIED WITH %s BY '%s'", plugin, pw)
		}
		if err := exec(q); err != nil {
			id := c.CaseNoModel(cs, "")
			c.PredFail(id, "wire/password-statement-failed", q+": "+err.Error(), cs)
			return
		}
		seen := false
		for _, u := range used {
			seen = seen || u == pw
		}
		if !seen {
			used = append(used, pw)
		}
		// old passwords first (before any login with the new one), then the new one twice, then the old ones again
		order := append(append([]string{}, used...), pw, pw)
		order = append(order, used...)
		for _, try := range order {
			got := tryLogin(port, "cs", try, true)
			want := "denied"
			if try == pw {
				want = "ok"
			}
			log = append(log, fmt.Sprintf("after %q: login with %q -> %s", pw, try, got))
			if got != want && fail == "" {
				switch {
				case strings.HasPrefix(got, "error"):
					fail = "wire/login-failed-with-another-error"
				case got == "ok":
					fail = "wire/" + plugin + "/old-password-accepted-after-password-change"
				default:
					fail = "wire/" + plugin + "/current-password-rejected"
				}
				cs.Out = log[len(log)-1]
			}
		}
		c.Count("pwchange/" + plugin)
	}
	cs.Note = strings.Join(log, "; ")
	id := c.CaseNoModel(cs, fmt.Sprintf("pw|%s|%v", plugin, cs.Users))
	c.PredChecked()
	if fail != "" {
		c.PredFail(id, fail, cs.Out+" (full sequence: "+cs.Note+")", cs)
	}
}

func run(c *lib.Ctx, cs caseT) {
	switch cs.Kind {
	case "validate":
		runValidate(c, cs)
	case "hostpat":
		runHostPat(c, cs)
	case "sha":
		runSha(c, cs)
	case "login", "wire":
		runLogin(c, cs)
	case "pwchange":
		runSha2(c, cs)
	default:
		panic("unknown case kind " + cs.Kind)
	}
}

// ---------- generators ----------
var pws = []string{"pw", "secret", "p", "pässwort", "123456", "", "a b", "x'y"}
var names = []string{"u", "v", "", "root", "bob"}
var acctHosts = []string{"%", "localhost", "127.0.0.1", "::1", "10.0.0.5", "10.%", "10.0.%", "%.example.com",
	"host.example.com", "%.com", "10.0.0.%", "1%5", "127.%", "%::1", "local%", "192.168.1.1", "%.%.%.%",
	// one '%' in the middle whose literal prefix and suffix overlap in a short host: must NOT match that host
	"::%:1", "fe80::%::1", "127.0.%0.0.1", "local%alhost", "10.%0.0.5"}
var clientHosts = []string{"@unix", "localhost", "127.0.0.1", "::1", "10.0.0.5", "10.1.2.3", "host.example.com",
	"192.168.1.1", "other.org", "105", "a.b.com", "fe80::1", "fe80::::1"}

func randBytes(r *lib.RNG, n int) []byte {
	b := make([]byte, n)
	for i := range b {
		b[i] = byte(r.Intn(256))
	}
	return b
}

func genSalt(r *lib.RNG) []byte {
	switch r.Intn(10) {
	case 0:
		return nil
	case 1:
		return randBytes(r, r.Range(1, 40))
	default:
		return randBytes(r, 20)
	}
}

// genAuth: the string stored for pw, or a damaged variant
func genAuth(r *lib.RNG, pw string) (string, string) {
	s := stored(pw)
	switch r.Intn(14) {
	case 0:
		return strings.ToLower(s), "lowercase-hex"
	case 1:
		return strings.TrimPrefix(s, "*"), "no-star"
	case 2:
		if len(s) > 3 {
			b := []byte(s)
			b[r.Range(1, len(b)-1)] = "GZ* -"[r.Intn(5)]
			return string(b), "bad-hex-char"
		}
	case 3:
		if len(s) > 3 {
			return s[:len(s)-1], "odd-length"
		}
	case 4:
		if len(s) > 5 {
			return s[:len(s)-r.Range(1, 10)*2], "short-hash"
		}
	case 5:
		return "*", "star-only"
	case 6:
		return s + "00", "long-hash"
	}
	return s, "stored"
}

// genResp: an honest response for pw or a wrong / malformed one
func genResp(r *lib.RNG, salt []byte, pw string) ([]byte, string) {
	h := honest(salt, pw)
	switch r.Intn(12) {
	case 0:
		return honest(salt, lib.Pick(r, pws)), "other-password"
	case 1:
		if len(h) == 20 {
			b := append([]byte{}, h...)
			b[r.Intn(20)] ^= 1 << uint(r.Intn(8))
			return b, "bit-flip"
		}
	case 2:
		if len(h) == 20 {
			return h[:r.Range(1, 19)], "truncated"
		}
		return randBytes(r, r.Range(1, 19)), "short-random"
	case 3:
		if len(h) == 20 {
			return append(append([]byte{}, h...), randBytes(r, r.Range(1, 12))...), "oversized-valid-prefix"
		}
	case 4:
		return randBytes(r, r.Range(21, 40)), "oversized-random"
	case 5:
		return nil, "empty"
	case 6:
		return randBytes(r, 20), "random-20"
	case 7:
		return []byte{0}, "single-zero"
	}
	return h, "honest"
}

func genValidate(r *lib.RNG) caseT {
	pw := lib.Pick(r, pws)
	salt := genSalt(r)
	auth, n1 := genAuth(r, pw)
	resp, n2 := genResp(r, salt, pw)
	return caseT{Kind: "validate", Resp: resp, Salt: salt, Auth: auth, Note: n1 + "/" + n2}
}

var patAlpha = []string{"%", "%", "1", "0", ".", "a", "b", "com", "10.", "x", "\n", "*", "+", "(", "\\", "é"}

// genOverlap: pattern = prefix % suffix where prefix ends with what suffix starts with; hosts: the two glued with the
// overlap shared (must not match), glued without sharing (matches), with filler (matches), truncated variants
func genOverlap(r *lib.RNG) (pat, host string) {
	ov := lib.Pick(r, []string{":", "::", "a", "ab", ".", "0.", "1", ".0.0"})
	pre := lib.Pick(r, []string{"", ":", "fe80", "10.", "x", "127.0"}) + ov
	suf := ov + lib.Pick(r, []string{"", "1", ":1", "b", ".1", "com"})
	pat = pre + "%" + suf
	switch r.Intn(6) {
	case 0, 1, 2:
		host = pre + suf[len(ov):] // overlap shared: shorter than prefix+suffix
	case 3:
		host = pre + suf
	case 4:
		host = pre + lib.Pick(r, []string{"z", ov, "0", "::"}) + suf
	default:
		host = pre[:len(pre)-1] + suf
	}
	return
}

func genHostPat(r *lib.RNG) caseT {
	var pat, host string
	if r.Chance(1, 4) {
		pat, host = genOverlap(r)
		return caseT{Kind: "hostpat", Host: host, Pat: pat, Note: "mid-pattern wildcard, overlapping prefix/suffix"}
	}
	if r.Chance(1, 3) {
		pat, host = lib.Pick(r, acctHosts), lib.Pick(r, clientHosts)
		if host == "@unix" {
			host = "localhost"
		}
	} else {
		n := r.Range(0, 5)
		var hb strings.Builder
		for i := 0; i < n; i++ {
			t := lib.Pick(r, patAlpha)
			pat += t
			if t == "%" {
				k := r.Intn(3)
				for j := 0; j < k; j++ {
					hb.WriteString(lib.Pick(r, patAlpha[2:]))
				}
			} else if r.Chance(9, 10) {
				hb.WriteString(t)
			}
		}
		host = hb.String()
	}
	return caseT{Kind: "hostpat", Host: host, Pat: pat}
}

func genLogin(r *lib.RNG) caseT {
	cs := caseT{Kind: "login", Enabled: !r.Chance(1, 25), Salt: genSalt(r)}
	n := r.Range(0, 5)
	seen := map[string]bool{}
	pwOf := map[string]string{}
	// the client first, so that accounts can be biased towards it
	cs.Name = lib.Pick(r, names)
	if r.Chance(1, 10) {
		cs.Name = "nobody"
	}
	cs.Host = lib.Pick(r, clientHosts)
	for i := 0; i < n; i++ {
		a := acct{Name: lib.Pick(r, names), Host: lib.Pick(r, acctHosts), Plugin: native}
		if r.Chance(1, 2) { // bias towards a host pattern that matches the client
			ch := cs.Host
			if ch == "@unix" {
				ch = "localhost"
			}
			for try := 0; try < 6 && !matchLiberal(ch, a.Host); try++ {
				a.Host = lib.Pick(r, acctHosts)
			}
			if r.Chance(1, 4) {
				a.Host = ch
			}
		}
		if r.Chance(1, 2) {
			a.Name = cs.Name
			if a.Name == "nobody" {
				a.Name = ""
			}
		}
		if seen[a.Name+"@"+a.Host] {
			continue
		}
		seen[a.Name+"@"+a.Host] = true
		pw := lib.Pick(r, pws)
		if r.Chance(1, 6) {
			a.Auth, _ = genAuth(r, pw)
		} else {
			a.Auth = stored(pw)
		}
		a.Locked = r.Chance(1, 8)
		if r.Chance(1, 8) {
			a.Plugin = "caching_sha2_password"
		}
		pwOf[a.Name+"@"+a.Host] = pw
		cs.Users = append(cs.Users, a)
	}
	// the response: mostly honest for one of the accounts
	pw := lib.Pick(r, pws)
	if len(cs.Users) > 0 && r.Chance(4, 5) {
		a := lib.Pick(r, cs.Users)
		ch := cs.Host
		if ch == "@unix" {
			ch = "localhost"
		}
		for try := 0; try < 8 && !((a.Name == cs.Name || a.Name == "") && matchLiberal(ch, a.Host)); try++ {
			a = lib.Pick(r, cs.Users)
		}
		pw = pwOf[a.Name+"@"+a.Host]
	}
	cs.Resp, cs.Note = genResp(r, cs.Salt, pw)
	if cs.Users == nil {
		cs.Users = []acct{}
	}
	return cs
}

// genWire: a login case for the real client: client host is always 127.0.0.1, native-password accounts with well-formed
// stored strings, the client knows a password (mostly that of a matching account)
func genWire(r *lib.RNG) caseT {
	cs := genLogin(r)
	cs.Kind, cs.Enabled, cs.Host = "wire", true, "127.0.0.1"
	cs.Salt = randBytes(r, 20)
	var match []acct
	for i := range cs.Users {
		a := &cs.Users[i]
		a.Plugin = native
		if r.Chance(1, 2) {
			a.Host = lib.Pick(r, []string{"localhost", "127.0.0.1", "::1", "%", "127.%", "local%", "%.0.0.1", "10.%", "%host", "127.0.%0.0.1", "local%alhost", "::%:1", "127.%.1", "l%t"})
		}
		a.Auth = stored(lib.Pick(r, pws))
	}
	seen := map[string]bool{}
	var us []acct
	for _, a := range cs.Users {
		if !seen[a.Name+"@"+a.Host] {
			seen[a.Name+"@"+a.Host] = true
			us = append(us, a)
			if (a.Name == cs.Name || a.Name == "") && matchLiberal("127.0.0.1", a.Host) {
				match = append(match, a)
			}
		}
	}
	cs.Users = us
	if cs.Users == nil {
		cs.Users = []acct{}
	}
	cs.Pw = lib.Pick(r, pws)
	if len(match) > 0 && r.Chance(3, 4) {
		want := lib.Pick(r, match).Auth
		for _, pw := range pws {
			if stored(pw) == want {
				cs.Pw = pw
			}
		}
	}
	cs.Resp, cs.Note = nil, "real client"
	return cs
}

func genPwChange(r *lib.RNG) caseT {
	cs := caseT{Kind: "pwchange", Pat: "caching_sha2_password"}
	if r.Chance(1, 4) {
		cs.Pat = native
	}
	n := r.Range(2, 4)
	for i := 0; i < n; i++ {
		cs.Users = append(cs.Users, acct{Auth: lib.Pick(r, []string{"pw1", "pw2", "secret", "123456", "p"})})
	}
	return cs
}

func gen(r *lib.RNG) caseT {
	if r.Chance(1, 12) {
		return genWire(r)
	}
	if r.Chance(1, 60) {
		return genPwChange(r)
	}
	switch k := r.Intn(20); {
	case k < 6:
		return genValidate(r)
	case k < 9:
		return genHostPat(r)
	case k < 10:
		return caseT{Kind: "sha", Msg: randBytes(r, r.Intn(130))}
	default:
		return genLogin(r)
	}
}

func main() {
	logrus.SetLevel(logrus.PanicLevel) // the server logs every connection
	lib.Main("C40", func(c *lib.Ctx) {
		c.Header = "From Coq Require Import List NArith.\nImport ListNotations.\nFrom GMS Require Import Sys.Auth Corr.C40.\nOpen Scope N_scope."
		c.CaseType = "C40.case"
		c.MismatchFn = "C40.mismatches"
		c.SetRule("four kinds of case from one stream: validate (password, salt of 0/20/other length, stored string or a damaged " +
			"variant, honest / wrong-password / bit-flipped / truncated / oversized / empty / random response), hostpat (account host " +
			"patterns vs client hosts, plus random patterns over an alphabet with regexp metacharacters and newline), sha (random " +
			"messages, ties the Coq SHA-1 to crypto/sha1), login (0-5 accounts with host patterns, passwords, locked flags, plugins; " +
			"a client name/host biased towards the accounts; responses as for validate), wire (1/12 of the cases: the same account tables served by server.NewServer on an ephemeral 127.0.0.1 port, a real login by go-sql-driver with a password, outcome + CURRENT_USER()). Non-trivial = an accepted login / a true " +
			"verdict / a well-formed wrong response / a matching pattern; distinct = distinct inputs.")
		if c.ReplayFile != "" {
			var cs caseT
			lib.LoadReplay(c.ReplayFile, &cs)
			run(c, cs)
			return
		}
		salt := []byte{1, 2, 3, 4, 5, 6, 7, 8, 9, 10, 11, 12, 13, 14, 15, 16, 17, 18, 19, 20}
		u := acct{Name: "u", Host: "10.%", Auth: stored("pw"), Plugin: native}
		corpus := []caseT{
			// the defect fixed by a87f03e51 (kept: it must stay fixed): non-empty response shorter than 20 bytes
			{Kind: "validate", Resp: []byte{1}, Salt: nil, Auth: "*00", Note: "former panic witness"},
			{Kind: "validate", Resp: honest(salt, "pw")[:19], Salt: salt, Auth: stored("pw"), Note: "19 of 20 honest bytes"},
			{Kind: "login", Enabled: true, Users: []acct{{Name: "u", Host: "%", Auth: "*00", Plugin: native}}, Name: "u", Host: "h", Salt: nil, Resp: []byte{1}, Note: "former panic witness (login)"},
			{Kind: "login", Enabled: true, Users: []acct{u}, Name: "u", Host: "10.0.0.5", Salt: salt, Resp: []byte{1, 2, 3}, Note: "nonvacuous: truncated response"},
			// ordinary behaviour
			{Kind: "validate", Resp: honest(salt, "pw"), Salt: salt, Auth: stored("pw")},
			{Kind: "validate", Resp: honest(salt, "px"), Salt: salt, Auth: stored("pw")},
			{Kind: "validate", Resp: append(honest(salt, "pw"), 7, 7), Salt: salt, Auth: stored("pw"), Note: "oversized, valid prefix"},
			{Kind: "validate", Resp: honest(salt, "pw"), Salt: salt, Auth: strings.ToLower(stored("pw"))},
			{Kind: "login", Enabled: true, Users: []acct{u}, Name: "u", Host: "10.0.0.5", Salt: salt, Resp: honest(salt, "pw")},
			{Kind: "login", Enabled: true, Users: []acct{u}, Name: "u", Host: "10.0.0.5", Salt: salt, Resp: honest(salt, "px")},
			{Kind: "login", Enabled: true, Users: []acct{u}, Name: "u", Host: "11.0.0.5", Salt: salt, Resp: honest(salt, "pw")},
			{Kind: "login", Enabled: true, Users: []acct{{Name: "", Host: "%", Plugin: native}, {Name: "u", Host: "localhost", Auth: stored("pw"), Plugin: native}}, Name: "u", Host: "::1", Salt: salt, Resp: honest(salt, "pw")},
			{Kind: "login", Enabled: true, Users: []acct{{Name: "", Host: "%", Plugin: native}}, Name: "bob", Host: "@unix", Salt: salt, Resp: nil},
			{Kind: "login", Enabled: true, Users: []acct{{Name: "u", Host: "127.%", Auth: stored("pw"), Locked: true, Plugin: native}}, Name: "u", Host: "127.0.0.1", Salt: salt, Resp: honest(salt, "pw")},
			{Kind: "login", Enabled: false, Users: []acct{}, Name: "any", Host: "1.2.3.4", Salt: salt, Resp: nil},
			{Kind: "wire", Enabled: true, Users: []acct{{Name: "u", Host: "127.%", Auth: stored("pw"), Plugin: native}}, Name: "u", Host: "127.0.0.1", Salt: salt, Pw: "pw"},
			{Kind: "wire", Enabled: true, Users: []acct{{Name: "u", Host: "127.%", Auth: stored("pw"), Plugin: native}}, Name: "u", Host: "127.0.0.1", Salt: salt, Pw: "px"},
			{Kind: "wire", Enabled: true, Users: []acct{{Name: "u", Host: "localhost", Auth: stored("pw"), Locked: true, Plugin: native}}, Name: "u", Host: "127.0.0.1", Salt: salt, Pw: "pw"},
			{Kind: "wire", Enabled: true, Users: []acct{{Name: "", Host: "%", Auth: "", Plugin: native}, {Name: "v", Host: "10.%", Auth: stored("pw"), Plugin: native}}, Name: "bob", Host: "127.0.0.1", Salt: salt, Pw: ""},
			{Kind: "pwchange", Pat: "caching_sha2_password", Users: []acct{{Auth: "pw1"}, {Auth: "pw2"}}},
			{Kind: "pwchange", Pat: "caching_sha2_password", Users: []acct{{Auth: "pw1"}, {Auth: "pw2"}, {Auth: "pw1"}}},
			{Kind: "pwchange", Pat: native, Users: []acct{{Auth: "pw1"}, {Auth: "pw2"}}},
			{Kind: "hostpat", Host: "::1", Pat: "::%:1", Note: "overlap: must not match"},
			{Kind: "hostpat", Host: "fe80::1", Pat: "fe80::%::1", Note: "overlap: must not match"},
			{Kind: "hostpat", Host: "fe80::x::1", Pat: "fe80::%::1"},
			{Kind: "hostpat", Host: ":::1", Pat: "::%:1"},
			{Kind: "login", Enabled: true, Users: []acct{{Name: "carol", Host: "::%:1", Auth: stored("pw"), Plugin: native}}, Name: "carol", Host: "::1", Salt: salt, Resp: honest(salt, "pw"), Note: "overlap: account must not match"},
			{Kind: "login", Enabled: true, Users: []acct{{Name: "dave", Host: "fe80::%::1", Auth: stored("pw"), Plugin: native}}, Name: "dave", Host: "fe80::1", Salt: salt, Resp: honest(salt, "pw"), Note: "overlap: account must not match"},
			{Kind: "wire", Enabled: true, Users: []acct{{Name: "u", Host: "127.0.%0.0.1", Auth: stored("pw"), Plugin: native}}, Name: "u", Host: "127.0.0.1", Salt: salt, Pw: "pw", Note: "overlap: account must not match"},
			{Kind: "hostpat", Host: "10.0.0.5", Pat: "10.%"},
			{Kind: "hostpat", Host: "a\nb", Pat: "a%b"},
			{Kind: "hostpat", Host: "10x0", Pat: "10.%"},
			{Kind: "sha", Msg: []byte("abc")},
			{Kind: "sha", Msg: bytes.Repeat([]byte("a"), 119)},
			{Kind: "sha", Msg: bytes.Repeat([]byte("a"), 55)},
			{Kind: "sha", Msg: bytes.Repeat([]byte("a"), 56)},
			{Kind: "sha", Msg: bytes.Repeat([]byte("a"), 64)},
		}
		for _, cs := range corpus {
			run(c, cs)
		}
		for i := len(corpus); i < c.N; i++ {
			run(c, gen(c.R.Fork()))
		}
	})
}
