// Driver for C46 (sql/range_cut.go, range_column_expr.go, range_mysql.go, range_tree.go): runs the exported
// range operations of /repo on generated cuts / column expressions / ranges over a small Int64 key domain,
// records the observations for the Coq model, and evaluates the property predicate (point membership
// before/after, disjoint and sorted output) with an independent oracle written here.
package main

import (
	"context"
	"fmt"
	"strings"
	"time"

	"github.com/dolthub/go-mysql-server/sql"
	"github.com/dolthub/go-mysql-server/sql/types"

	"verifharness/lib"
)

var typ = types.Int64

const nKeys = 5      // cut keys 0..4
const stepBound = 300 // iterations of the RemoveOverlappingRanges loop before we call it a hang

// ---------- plain-data mirror of the inputs (replayable) ----------

// Cut codes: 0 BelowNull, 1 AboveNull, 2 AboveAll, 3+2k Below k, 4+2k Above k
type colT [2]int // lower, upper cut codes
type rangeT []colT

type caseT struct {
	Kind string   `json:"kind"` // cut | col | simp | range | ror
	Cuts []int    `json:"cuts,omitempty"`
	Cols []colT   `json:"cols,omitempty"`
	Rs   []rangeT `json:"ranges,omitempty"`
}

func mkCut(k int) sql.MySQLRangeCut {
	switch k {
	case 0:
		return sql.BelowNull{}
	case 1:
		return sql.AboveNull{}
	case 2:
		return sql.AboveAll{}
	}
	v := int64((k - 3) / 2)
	if (k-3)%2 == 0 {
		return sql.Below{Key: v, Typ: typ}
	}
	return sql.Above{Key: v, Typ: typ}
}

func cutCode(c sql.MySQLRangeCut) int {
	switch c := c.(type) {
	case sql.BelowNull:
		return 0
	case sql.AboveNull:
		return 1
	case sql.AboveAll:
		return 2
	case sql.Below:
		return 3 + 2*int(c.Key.(int64))
	case sql.Above:
		return 4 + 2*int(c.Key.(int64))
	}
	return -1 // nil cut (zero-value column expression)
}

func mkCol(c colT) sql.MySQLRangeColumnExpr {
	return sql.MySQLRangeColumnExpr{LowerBound: mkCut(c[0]), UpperBound: mkCut(c[1]), Typ: typ}
}
func colOf(e sql.MySQLRangeColumnExpr) colT { return colT{cutCode(e.LowerBound), cutCode(e.UpperBound)} }
func mkRange(r rangeT) sql.MySQLRange {
	out := make(sql.MySQLRange, len(r))
	for i, c := range r {
		out[i] = mkCol(c)
	}
	return out
}
func rangeOf(r sql.MySQLRange) rangeT {
	out := make(rangeT, len(r))
	for i, c := range r {
		out[i] = colOf(c)
	}
	return out
}
func rangesOf(rs []sql.MySQLRange) []rangeT {
	out := make([]rangeT, len(rs))
	for i, r := range rs {
		out[i] = rangeOf(r)
	}
	return out
}

// ---------- independent oracle: positions on one line ----------
// a cut / a key is a pair (band, offset) compared lexicographically; NULL is the lowest point.
func cutPos(k int) (int, int) {
	switch k {
	case 0:
		return 0, 0
	case 1:
		return 0, 2
	case 2:
		return 2, 0
	}
	v := (k - 3) / 2
	if (k-3)%2 == 0 {
		return 1, 3 * v
	}
	return 1, 3*v + 2
}

// points: -2 is NULL, otherwise the integer itself
const null = -100

func ptPos(p int) (int, int) {
	if p == null {
		return 0, 1
	}
	return 1, 3*p + 1
}
func less(b1, o1, b2, o2 int) bool { return b1 < b2 || (b1 == b2 && o1 < o2) }
func cutLess(a, b int) bool {
	b1, o1 := cutPos(a)
	b2, o2 := cutPos(b)
	return less(b1, o1, b2, o2)
}
func colHas(c colT, p int) bool {
	lb, lo := cutPos(c[0])
	ub, uo := cutPos(c[1])
	pb, po := ptPos(p)
	return less(lb, lo, pb, po) && less(pb, po, ub, uo)
}
func inverted(c colT) bool { return cutLess(c[1], c[0]) }                     // lower > upper
func degenerate(c colT) bool { return !cutLess(c[0], c[1]) && c != colT{2, 2} } // lower >= upper, not the canonical empty

var points = []int{null, -1, 0, 1, 2, 3, 4, 5}

func rangeHas(r rangeT, t []int) bool {
	if len(r) != len(t) {
		return false
	}
	for i := range r {
		if !colHas(r[i], t[i]) {
			return false
		}
	}
	return true
}
func unionHas(rs []rangeT, t []int) bool {
	for _, r := range rs {
		if rangeHas(r, t) {
			return true
		}
	}
	return false
}
func allTuples(n int) [][]int {
	out := [][]int{{}}
	for i := 0; i < n; i++ {
		var next [][]int
		for _, t := range out {
			for _, p := range points {
				next = append(next, append(append([]int{}, t...), p))
			}
		}
		out = next
	}
	return out
}
func ptStr(t []int) string {
	s := make([]string, len(t))
	for i, p := range t {
		if p == null {
			s[i] = "NULL"
		} else {
			s[i] = fmt.Sprint(p)
		}
	}
	return "(" + strings.Join(s, ",") + ")"
}
func rangeLess(a, b rangeT) bool { // MySQLRange order by the oracle positions
	for i := range a {
		if a[i][0] != b[i][0] {
			return cutLess(a[i][0], b[i][0])
		}
		if a[i][1] != b[i][1] {
			return cutLess(a[i][1], b[i][1])
		}
	}
	return false
}
func anyDegenerate(rs []rangeT) bool {
	for _, r := range rs {
		for _, c := range r {
			if degenerate(c) {
				return true
			}
		}
	}
	return false
}

// ---------- Coq printers ----------
func coqCut(k int) string {
	switch k {
	case 0:
		return "BN"
	case 1:
		return "AN"
	case 2:
		return "AA"
	}
	v := (k - 3) / 2
	if (k-3)%2 == 0 {
		return fmt.Sprintf("(B %d)", v)
	}
	return fmt.Sprintf("(A %d)", v)
}
func coqCol(c colT) string       { return "(R " + coqCut(c[0]) + " " + coqCut(c[1]) + ")" }
func coqRange(r rangeT) string   { return lib.CoqListOf(r, coqCol) }
func coqRanges(r []rangeT) string { return lib.CoqListOf(r, coqRange) }
func coqCols(r []colT) string    { return lib.CoqListOf(r, coqCol) }
func coqColB(c colT, b bool) string {
	return lib.CoqTuple(coqCol(c), lib.CoqBool(b))
}

// ---------- generators ----------
func genCol(r *lib.RNG, malformed bool) colT {
	for {
		var c colT
		switch r.Intn(10) {
		case 0: // constructor shapes
			k := r.Intn(nKeys)
			shapes := []colT{{2, 2}, {0, 2}, {0, 1}, {1, 2}, {3 + 2*k, 4 + 2*k}, {1, 3 + 2*k}, {1, 4 + 2*k}, {4 + 2*k, 2}, {3 + 2*k, 2}}
			c = lib.Pick(r, shapes)
		default:
			c = colT{r.Intn(3 + 2*nKeys), r.Intn(3 + 2*nKeys)}
		}
		if malformed || !degenerate(c) {
			return c
		}
	}
}
func genRange(r *lib.RNG, ncol int, malformed bool) rangeT {
	out := make(rangeT, ncol)
	for i := range out {
		out[i] = genCol(r, malformed && r.Chance(1, 3))
	}
	return out
}

// derive a range related to a (shares most columns) to reach the merge / overlap branches
func related(r *lib.RNG, a rangeT, malformed bool) rangeT {
	b := append(rangeT{}, a...)
	k := r.Range(1, len(a))
	for j := 0; j < k; j++ {
		if r.Chance(2, 3) {
			b[r.Intn(len(b))] = genCol(r, malformed && r.Chance(1, 3))
		}
	}
	return b
}

func gen(r *lib.RNG) caseT {
	malformed := r.Chance(1, 12)
	switch k := r.Intn(20); {
	case k < 1:
		return caseT{Kind: "cut", Cuts: []int{r.Intn(3 + 2*nKeys), r.Intn(3 + 2*nKeys)}}
	case k < 5:
		return caseT{Kind: "col", Cols: []colT{genCol(r, r.Chance(1, 4)), genCol(r, r.Chance(1, 4))}}
	case k < 7:
		n := r.Intn(7)
		cs := make([]colT, n)
		for i := range cs {
			cs[i] = genCol(r, r.Chance(1, 6))
		}
		return caseT{Kind: "simp", Cols: cs}
	case k < 12:
		ncol := r.Range(1, 3)
		a := genRange(r, ncol, malformed)
		var b rangeT
		if r.Chance(1, 2) {
			b = related(r, a, malformed)
		} else {
			b = genRange(r, ncol, malformed)
		}
		if r.Chance(1, 40) {
			b = genRange(r, r.Range(1, 3), malformed) // possibly different length
		}
		return caseT{Kind: "range", Rs: []rangeT{a, b}}
	default:
		ncol := r.Range(1, 3)
		n := r.Range(1, 7)
		rs := make([]rangeT, n)
		for i := range rs {
			if i > 0 && r.Chance(1, 3) {
				rs[i] = related(r, rs[r.Intn(i)], malformed)
			} else {
				rs[i] = genRange(r, ncol, malformed)
			}
		}
		return caseT{Kind: "ror", Rs: rs}
	}
}

// ---------- running the real code ----------
var ctx context.Context = sql.NewEmptyContext()

func cmpOf(a, b sql.MySQLRangeCut) int {
	c, err := a.Compare(ctx, b, typ)
	if err != nil {
		panic(err)
	}
	return c
}

func must[T any](v T, err error) T {
	if err != nil {
		panic(err)
	}
	return v
}

func runCut(c *lib.Ctx, cs caseT) {
	a, b := cs.Cuts[0], cs.Cuts[1]
	got := cmpOf(mkCut(a), mkCut(b))
	c.Count("kind_cut")
	id := c.Case(fmt.Sprintf("CCut %s %s %s", coqCut(a), coqCut(b), lib.CoqZ(int64(got))), cs, fmt.Sprint("cut", a, b))
	c.PredChecked()
	want := 0
	if cutLess(a, b) {
		want = -1
	} else if cutLess(b, a) {
		want = 1
	}
	if got != want {
		c.PredFail(id, "cut-compare/order", fmt.Sprintf("%v.Compare(%v) = %d, the documented order gives %d", mkCut(a), mkCut(b), got, want), cs)
	}
}

func runCol(c *lib.Ctx, cs caseT) {
	rc, oc := cs.Cols[0], cs.Cols[1]
	r, o := mkCol(rc), mkCol(oc)
	emp := must(r.IsEmpty(ctx))
	conn := must(r.IsConnected(ctx, o))
	ovE, ovOk, err := r.Overlaps(ctx, o)
	must(0, err)
	sub := must(r.Subtract(ctx, o))
	subset := must(r.IsSubsetOf(ctx, o))
	tiE, tiOk, err := r.TryIntersect(ctx, o)
	must(0, err)
	tuE, tuOk, err := r.TryUnion(ctx, o)
	must(0, err)
	ty := r.Type()
	eq := must(r.Equals(ctx, o))
	subC := make([]colT, len(sub))
	for i, s := range sub {
		subC[i] = colOf(s)
	}
	c.Count("kind_col")
	c.Count(fmt.Sprintf("col_subtract_%d_pieces", len(sub)))
	if ovOk {
		c.Count("col_overlapping")
	}
	tu := "None"
	if tuOk {
		tu = "(Some " + coqCol(colOf(tuE)) + ")"
	}
	term := fmt.Sprintf("CCol %s %s %s", coqCol(rc), coqCol(oc), lib.CoqTuple(
		lib.CoqBool(emp), lib.CoqBool(conn), coqColB(colOf(ovE), ovOk), coqCols(subC), lib.CoqBool(subset),
		coqColB(colOf(tiE), tiOk), tu, lib.CoqZ(int64(ty)), lib.CoqBool(eq)))
	id := c.Case(term, cs, fmt.Sprint("col", rc, oc))
	c.PredChecked()
	fail := func(sig, what string) { c.PredFail(id, sig, fmt.Sprintf("r=%v o=%v: %s", r, o, what), cs) }
	for _, p := range points {
		inR, inO := colHas(rc, p), colHas(oc, p)
		ps := ptStr([]int{p})
		if emp && inR {
			fail("col/is-empty-but-contains", "IsEmpty is true but r contains "+ps)
		}
		if ovOk && colHas(colOf(ovE), p) != (inR && inO) {
			fail("col/overlaps-not-intersection", "Overlaps region differs from r∩o at "+ps)
		}
		if !ovOk && inR && inO {
			fail("col/overlaps-false-but-common-point", "Overlaps is false but both contain "+ps)
		}
		if colHas(colOf(tiE), p) != (inR && inO) {
			fail("col/try-intersect-not-intersection", "TryIntersect differs from r∩o at "+ps)
		}
		if tuOk && colHas(colOf(tuE), p) != (inR || inO) {
			fail("col/try-union-not-union", "TryUnion differs from r∪o at "+ps)
		}
		if subset && inR && !inO {
			fail("col/subset-but-not-contained", "IsSubsetOf is true but o lacks "+ps)
		}
		n := 0
		for _, s := range subC {
			if colHas(s, p) {
				n++
			}
		}
		if (n > 0) != (inR && !inO) {
			fail("col/subtract-not-difference", "Subtract differs from r∖o at "+ps)
		}
		if n > 1 && !degenerate(oc) {
			fail("col/subtract-pieces-overlap", "Subtract pieces both contain "+ps)
		}
	}
}

func checkColList(in, out []colT) (string, string) {
	for _, p := range points {
		a, n := false, 0
		for _, x := range in {
			a = a || colHas(x, p)
		}
		for _, x := range out {
			if colHas(x, p) {
				n++
			}
		}
		if a != (n > 0) {
			return "union-changed", "membership of " + ptStr([]int{p}) + " changed"
		}
		if n > 1 {
			return "output-overlaps", ptStr([]int{p}) + " is in two output ranges"
		}
	}
	for i := 0; i+1 < len(out); i++ {
		if !cutLess(out[i][0], out[i+1][0]) {
			return "output-unsorted", fmt.Sprintf("output %d and %d are not in ascending order", i, i+1)
		}
	}
	return "", ""
}

func runSimp(c *lib.Ctx, cs caseT) {
	in := make([]sql.MySQLRangeColumnExpr, len(cs.Cols))
	for i, x := range cs.Cols {
		in[i] = mkCol(x)
	}
	out := must(sql.SimplifyRangeColumn(ctx, in...))
	outC := make([]colT, len(out))
	for i, s := range out {
		outC[i] = colOf(s)
	}
	c.Count("kind_simplify")
	c.Count(fmt.Sprintf("simplify_%d_to_%d", len(in), len(out)))
	id := c.Case(fmt.Sprintf("CSimp %s %s", coqCols(cs.Cols), coqCols(outC)), cs, fmt.Sprint("simp", cs.Cols))
	c.PredChecked()
	if sig, what := checkColList(cs.Cols, outC); sig != "" {
		c.PredFail(id, "simplify/"+sig, fmt.Sprintf("SimplifyRangeColumn(%v) = %v: %s", in, out, what), cs)
	}
}

func checkRanges(in, out []rangeT, ncol int, wantDisjoint, wantSorted bool) (string, string) {
	for _, t := range allTuples(ncol) {
		n := 0
		for _, x := range out {
			if rangeHas(x, t) {
				n++
			}
		}
		if unionHas(in, t) != (n > 0) {
			return "union-changed", "membership of " + ptStr(t) + " changed"
		}
		if n > 1 && wantDisjoint {
			return "output-overlaps", ptStr(t) + " is in two output ranges"
		}
	}
	if wantSorted {
		for i := 0; i+1 < len(out); i++ {
			if !rangeLess(out[i], out[i+1]) {
				return "output-unsorted", fmt.Sprintf("output ranges %d and %d are not in ascending order", i, i+1)
			}
		}
	}
	return "", ""
}

func coqOptRange(r sql.MySQLRange, ok bool) string {
	if !ok {
		return "None"
	}
	return "(Some " + coqRange(rangeOf(r)) + ")"
}

func runRange(c *lib.Ctx, cs caseT) {
	at, bt := cs.Rs[0], cs.Rs[1]
	a, b := mkRange(at), mkRange(bt)
	inter := must(a.Intersect(ctx, b))
	merged, mergeOk, err := a.TryMerge(ctx, b)
	must(0, err)
	subset := must(a.IsSubsetOf(ctx, b))
	ovl := must(a.Overlaps(ctx, b))
	cmp, cmpErr := a.Compare(ctx, b)
	ro, roOk, err := a.RemoveOverlap(ctx, b)
	must(0, err)
	eq := must(a.Equals(ctx, b))
	ir := sql.IntersectRanges(ctx, a, b)
	ir4 := sql.IntersectRanges(ctx, sql.MySQLRange{}, b, nil, a, b)
	c.Count("kind_range")
	c.Count(fmt.Sprintf("range_%dcol", len(at)))
	switch {
	case len(at) != len(bt):
		c.Count("range_length_mismatch")
	case mergeOk:
		c.Count("range_mergeable")
	case roOk:
		c.Count(fmt.Sprintf("range_overlap_split_into_%d", len(ro)))
	default:
		c.Count("range_apart")
	}
	cmpS := "None"
	if cmpErr == nil {
		cmpS = "(Some " + lib.CoqZ(int64(cmp)) + ")"
	}
	term := fmt.Sprintf("CRange %s %s %s", coqRange(at), coqRange(bt), lib.CoqTuple(
		coqRange(rangeOf(inter)), coqOptRange(merged, mergeOk), lib.CoqBool(subset), lib.CoqBool(ovl), cmpS,
		lib.CoqTuple(coqRanges(rangesOf(ro)), lib.CoqBool(roOk)), lib.CoqBool(eq), coqOptRange(ir, ir != nil), coqOptRange(ir4, ir4 != nil)))
	id := c.Case(term, cs, fmt.Sprint("range", at, bt))
	if len(at) != len(bt) {
		return
	}
	c.PredChecked()
	fail := func(sig, what string) { c.PredFail(id, sig, fmt.Sprintf("a=%v b=%v: %s", a, b, what), cs) }
	ncol := len(at)
	if ir == nil || ir4 == nil {
		fail("intersect-ranges/nil-for-equal-length-arguments", "IntersectRanges returned nil for arguments of equal non-zero length")
	}
	wf := !anyDegenerate([]rangeT{at, bt})
	interT, mergedT := rangeOf(inter), rangeOf(merged)
	for _, t := range allTuples(ncol) {
		inA, inB := rangeHas(at, t), rangeHas(bt, t)
		if rangeHas(interT, t) != (inA && inB) {
			fail("range/intersect-not-intersection", "Intersect differs from a∩b at "+ptStr(t))
			break
		}
		if mergeOk && rangeHas(mergedT, t) != (inA || inB) {
			fail("range/try-merge-not-union", "TryMerge differs from a∪b at "+ptStr(t))
			break
		}
		if subset && inA && !inB {
			fail("range/subset-but-not-contained", "IsSubsetOf is true but b lacks "+ptStr(t))
			break
		}
		if !ovl && inA && inB {
			fail("range/overlaps-false-but-common-point", "Overlaps is false but both contain "+ptStr(t))
			break
		}
		if ir4 != nil && rangeHas(rangeOf(ir4), t) != (inA && inB) {
			fail(fmt.Sprintf("intersect-ranges/result-of-intersect-discarded/%dcol", ncol),
				"IntersectRanges(nil,b,nil,a,b) = "+ir4.String()+" differs from a∩b at "+ptStr(t))
			break
		}
		if ir != nil && rangeHas(rangeOf(ir), t) != (inA && inB) {
			fail(fmt.Sprintf("intersect-ranges/result-of-intersect-discarded/%dcol", ncol),
				"IntersectRanges(a,b) = "+ir.String()+" differs from a∩b at "+ptStr(t))
			break
		}
	}
	if sig, what := checkRanges([]rangeT{at, bt}, rangesOf(ro), ncol, wf, false); sig != "" {
		fail("range/remove-overlap/"+sig, fmt.Sprintf("RemoveOverlap = %v: %s", ro, what))
	}
}

type rorTrace struct {
	finds [][]rangeT
	out   []rangeT
	err   error
	hung  bool
	steps int
}

// replica of the RemoveOverlappingRanges loop over the exported tree API, to observe what FindConnections
// returned in every iteration (the tree is deterministic, so the real call sees the same lists).
func rorReplica(in []sql.MySQLRange) (tr rorTrace) {
	ranges := append([]sql.MySQLRange{}, in...)
	tree, err := sql.NewMySQLRangeColumnExprTree(ranges[0], sql.GetColExprTypes(ranges))
	if err != nil {
		tr.err = err
		return
	}
	for i := 1; i < len(ranges); i++ {
		tr.steps++
		if tr.steps > stepBound {
			tr.hung = true
			return
		}
		rang := ranges[i]
		conns := must(tree.FindConnections(ctx, rang, 0))
		tr.finds = append(tr.finds, rangesOf(conns))
		found := false
		for _, cr := range conns {
			news, ok, err := cr.RemoveOverlap(ctx, rang)
			must(0, err)
			if ok {
				found = true
				must(0, tree.Remove(ctx, cr))
				ranges = append(ranges, news...)
				break
			}
		}
		if !found {
			must(0, tree.Insert(ctx, rang))
		}
	}
	coll := must(tree.GetRangeCollection(ctx))
	tr.out = rangesOf(coll)
	return
}

var abortRun bool
var maxSteps int

// fixed corpus: every known-finding input first
var corpus = []caseT{
	// RemoveOverlappingRanges returns "overlapping ranges" on well-formed 3-column input (tree misses a connection)
	{Kind: "ror", Rs: []rangeT{
		{{10, 2}, {8, 10}, {8, 11}}, {{12, 2}, {1, 10}, {4, 6}}, {{0, 2}, {9, 2}, {6, 8}},
		{{8, 11}, {3, 9}, {3, 7}}, {{3, 9}, {5, 6}, {10, 2}}, {{11, 12}, {0, 12}, {7, 12}}}},
	// RemoveOverlappingRanges never finishes when a column is degenerate (lower = upper) or inverted
	{Kind: "ror", Rs: []rangeT{{{9, 9}, {3, 12}}, {{3, 12}, {7, 10}}}},
	{Kind: "ror", Rs: []rangeT{{{11, 9}, {3, 12}}, {{3, 12}, {7, 10}}}},
	// IntersectRanges once dropped the intersection and returned its first argument (fixed in e18cb9b30; kept as regression inputs)
	{Kind: "range", Rs: []rangeT{{{3, 12}}, {{7, 2}}}},
	{Kind: "range", Rs: []rangeT{{{3, 8}, {0, 2}}, {{5, 12}, {1, 2}}}},
	{Kind: "range", Rs: []rangeT{{{3, 12}, {0, 2}, {8, 2}}, {{3, 12}, {9, 12}, {8, 2}}}},
	// plain shapes
	{Kind: "cut", Cuts: []int{4, 5}},
	{Kind: "col", Cols: []colT{{3, 12}, {6, 7}}},
	{Kind: "col", Cols: []colT{{3, 12}, {6, 5}}}, // subtracting an inverted range: pieces overlap
	{Kind: "simp", Cols: []colT{{5, 8}, {0, 1}, {7, 10}, {2, 2}, {12, 2}}},
	{Kind: "range", Rs: []rangeT{{{3, 8}, {3, 8}}, {{5, 12}, {5, 12}}}},
	{Kind: "ror", Rs: []rangeT{{{3, 8}, {3, 8}}, {{5, 12}, {5, 12}}, {{0, 1}, {0, 2}}}},
}

func runRor(c *lib.Ctx, cs caseT) {
	in := make([]sql.MySQLRange, len(cs.Rs))
	for i, r := range cs.Rs {
		in[i] = mkRange(r)
	}
	ncol := len(cs.Rs[0])
	wf := !anyDegenerate(cs.Rs)
	shape := fmt.Sprintf("%dcol/%s", ncol, map[bool]string{true: "wellformed", false: "inverted-or-degenerate-column"}[wf])
	tr := rorReplica(in)
	var out sql.MySQLRangeCollection
	var err error
	hung := tr.hung
	if !hung {
		done := make(chan struct{})
		go func() {
			out, err = sql.RemoveOverlappingRanges(ctx, in...)
			close(done)
		}()
		select {
		case <-done:
		case <-time.After(20 * time.Second):
			hung = true
			abortRun = true // the stuck goroutine keeps allocating; stop generating further cases
		}
	}
	c.Count("kind_ror")
	c.Count(fmt.Sprintf("ror_%s_%d_ranges", shape, len(in)))
	if !hung && tr.steps > maxSteps {
		maxSteps = tr.steps
	}
	res := "None"
	if !hung && err == nil {
		res = "(Some " + coqRanges(rangesOf(out)) + ")"
	}
	findsS := lib.CoqListOf(tr.finds, coqRanges)
	term := fmt.Sprintf("CRor %s %s %d %s %s", coqRanges(cs.Rs), findsS, stepBound, res, lib.CoqBool(hung))
	id := c.Case(term, cs, fmt.Sprint("ror", cs.Rs))
	c.PredChecked()
	fail := func(sig, what string) {
		c.PredFail(id, sig, fmt.Sprintf("RemoveOverlappingRanges(%v): %s", in, what), cs)
	}
	switch {
	case hung:
		fail("ror/nonterminating/"+shape, fmt.Sprintf("still running after %d loop iterations (the worklist keeps growing)", stepBound))
	case err != nil:
		fail(fmt.Sprintf("ror/error/%s/%dranges", shape, len(in)), "returned error: "+err.Error())
	default:
		if len(out) > 1 {
			c.Count("ror_output_multiple")
		}
		if sig, what := checkRanges(cs.Rs, rangesOf(out), ncol, true, true); sig != "" {
			fail("ror/"+sig+"/"+shape, fmt.Sprintf("= %v: %s", out, what))
		}
	}
}

func run(c *lib.Ctx, cs caseT) {
	p, pv := lib.Recover(func() {
		switch cs.Kind {
		case "cut":
			runCut(c, cs)
		case "col":
			runCol(c, cs)
		case "simp":
			runSimp(c, cs)
		case "range":
			runRange(c, cs)
		case "ror":
			runRor(c, cs)
		}
	})
	if p {
		id := c.CaseNoModel(cs, "panic")
		c.PredFail(id, "panic/"+cs.Kind, "range operation panicked or returned an error: "+pv, cs)
	}
}

func main() {
	lib.Main("C46", func(c *lib.Ctx) {
		c.Header = "From Coq Require Import List NArith ZArith.\nImport ListNotations.\nFrom GMS Require Import Range.Cut Corr.C46.\nOpen Scope N_scope."
		c.CaseType = "C46.case"
		c.MismatchFn = "C46.mismatches"
		c.SetRule("cuts over keys 0..4 plus BelowNull/AboveNull/AboveAll; column expressions = random cut pairs (kept only " +
			"when lower < upper or the canonical empty, except in the malformed stream: 1/12 of multi-column cases and 1/4 of " +
			"single-column cases also allow inverted/degenerate columns) and constructor shapes; ranges of 1-3 columns, pairs " +
			"either independent or derived from each other by re-drawing 1-3 columns; RemoveOverlappingRanges on 1-7 ranges. " +
			"Predicate: membership of every tuple over {NULL,-1..5}^n before/after, output disjoint and sorted. " +
			"Every case is non-trivial; distinct = distinct inputs.")
		if c.ReplayFile != "" {
			var cs caseT
			lib.LoadReplay(c.ReplayFile, &cs)
			run(c, cs)
			return
		}
		for _, cs := range corpus {
			run(c, cs)
		}
		for i := len(corpus); i < c.N && !abortRun; i++ {
			run(c, gen(c.R.Fork()))
		}
		c.SetExtra("max_ror_loop_iterations_observed", maxSteps)
		c.SetExtra("ror_step_bound", stepBound)
	})
}
