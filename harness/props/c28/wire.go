// End-to-end slice of C28: rows stored through the engine are read back by a real client (go-sql-driver/mysql)
// from a real server.Server on an ephemeral 127.0.0.1 port, once over the text protocol (COM_QUERY) and once over the
// binary protocol (prepared statement).  Every received column, converted with the column's Type.Convert, must
// compare equal to the stored value (read directly from the engine), and NULL must arrive as NULL.
package main

import (
	gosql "database/sql"
	"fmt"
	"math/big"
	"net"
	"strings"
	"time"

	_ "github.com/go-sql-driver/mysql"
	"github.com/sirupsen/logrus"

	"github.com/dolthub/go-mysql-server/memory"
	"github.com/dolthub/go-mysql-server/server"
	gsql "github.com/dolthub/go-mysql-server/sql"
	"github.com/dolthub/go-mysql-server/sql/types"

	"verifharness/lib"
	"verifharness/lib/eng"
)

// one row: SQL literals per column (same order as wireCols), "NULL" allowed
type wireT struct {
	Vals []string `json:"vals"`
}

var wireCols = []struct{ Name, Decl string }{
	{"i8", "TINYINT"}, {"u8", "TINYINT UNSIGNED"}, {"i16", "SMALLINT"}, {"u16", "SMALLINT UNSIGNED"},
	{"i24", "MEDIUMINT"}, {"u24", "MEDIUMINT UNSIGNED"}, {"i32", "INT"}, {"u32", "INT UNSIGNED"},
	{"i64", "BIGINT"}, {"u64", "BIGINT UNSIGNED"},
	{"d1", "DECIMAL(10,3)"}, {"d2", "DECIMAL(65,30)"}, {"d3", "DECIMAL(9,0)"},
	{"dt", "DATE"}, {"ts6", "DATETIME(6)"}, {"ts0", "DATETIME"}, {"ts3", "DATETIME(3)"}, {"tst", "TIMESTAMP(6)"},
	{"tm", "TIME(6)"}, {"y", "YEAR"}, {"b1", "BIT(1)"}, {"b12", "BIT(12)"}, {"b64", "BIT(64)"},
	{"en", "ENUM('a','B','x y','2','1')"}, {"st", "SET('a','B','x y','2','1')"},
	{"vc", "VARCHAR(10)"}, {"ch", "CHAR(5)"}, {"vb", "VARBINARY(6)"}, {"bn", "BINARY(4)"}, {"tx", "TEXT"}, {"js", "JSON"},
}

type wireEnv struct {
	e   *eng.E
	s   *eng.S
	db  *gosql.DB
	st  *gosql.Stmt
	srv *server.Server
	n   int
	cap *binCap // binary-protocol capture (rows of the quick table only)
	ev  int     // capture every ev-th row
}

func newWireEnv() *wireEnv {
	logrus.SetLevel(logrus.PanicLevel)
	e := eng.New("db")
	s := e.Session()
	var decl []string
	for _, c := range wireCols {
		decl = append(decl, c.Name+" "+c.Decl)
	}
	s.MustExec("CREATE TABLE w (id INT PRIMARY KEY, " + strings.Join(decl, ", ") + ")")
	ln, err := net.Listen("tcp", "127.0.0.1:0")
	if err != nil {
		panic(err)
	}
	cfg := server.Config{Protocol: "tcp", Address: ln.Addr().String(), Listener: ln}
	srv, err := server.NewServer(cfg, e.Engine, gsql.NewContext, memory.NewSessionBuilder(e.Pro), nil)
	if err != nil {
		panic(err)
	}
	go func() { _ = srv.Start() }()
	db, err := gosql.Open("mysql", fmt.Sprintf("root:@tcp(%s)/db?interpolateParams=false&timeout=30s&readTimeout=60s&writeTimeout=60s", ln.Addr().String()))
	if err != nil {
		panic(err)
	}
	db.SetMaxOpenConns(2)
	for i := 0; ; i++ {
		if err = db.Ping(); err == nil {
			break
		}
		if i > 100 {
			panic("server does not answer: " + err.Error())
		}
		time.Sleep(50 * time.Millisecond)
	}
	st, err := db.Prepare("SELECT * FROM w WHERE id = ?")
	if err != nil {
		panic(err)
	}
	w := &wireEnv{e: e, s: s, db: db, st: st, srv: srv, ev: 8}
	w.cap = newBinCap(ln.Addr().String())
	// warm-up row: the first statement of a server session fixes its view of the (still empty) table otherwise
	w.n = 1
	s.MustExec("INSERT INTO w (id) VALUES (1)")
	for _, q := range []func() (*gosql.Rows, error){
		func() (*gosql.Rows, error) { return db.Query("SELECT * FROM w WHERE id = 1") },
		func() (*gosql.Rows, error) { return st.Query(1) },
	} {
		if rows, err := q(); err == nil {
			rows.Close()
		}
	}
	return w
}

func (w *wireEnv) close() {
	w.cap.close()
	w.st.Close()
	w.db.Close()
	w.srv.Close()
}

func pickS(r *lib.RNG, xs ...string) string { return xs[r.Intn(len(xs))] }

func genWire(r *lib.RNG) caseT {
	var v []string
	intLit := func(name string) string {
		it := ityByName(name)
		cs := genInt(r)
		for cs.Ty != name {
			cs = genInt(r)
		}
		z := bi(cs.Val)
		if z.Cmp(it.Min) < 0 {
			z.Set(it.Min)
		}
		if z.Cmp(it.Max) > 0 {
			z.Set(it.Max)
		}
		return z.String()
	}
	decLit := func(p, s int) string {
		ip := randDigits(r, r.Range(0, p-s))
		txt := ip
		if s > 0 {
			fp := randDigits(r, s)
			txt = ip + "." + strings.Repeat("0", s-len(fp)) + fp
			if r.Chance(1, 4) {
				txt = ip + "." + randDigits(r, r.Range(1, s)) // fewer fraction digits
			}
		}
		if r.Chance(2, 5) {
			txt = "-" + txt
		}
		return txt
	}
	stamp := func(prec int, lo, hi int) string {
		y := r.Range(lo, hi)
		m := r.Range(1, 12)
		d := r.Range(1, 28)
		s := fmt.Sprintf("'%04d-%02d-%02d %02d:%02d:%02d", y, m, d, r.Intn(24), r.Intn(60), r.Intn(60))
		if prec > 0 && r.Bool() {
			s += "." + fmt.Sprintf("%06d", r.Intn(1000000))[:prec]
		}
		return s + "'"
	}
	for _, n := range []string{"i8", "u8", "i16", "u16", "i24", "u24", "i32", "u32", "i64", "u64"} {
		v = append(v, intLit(n))
	}
	v = append(v, decLit(10, 3), decLit(65, 30), decLit(9, 0))
	v = append(v, fmt.Sprintf("'%04d-%02d-%02d'", r.Range(1000, 9999), r.Range(1, 12), r.Range(1, 28)))
	v = append(v, stamp(6, 1000, 9999), stamp(0, 1000, 9999), stamp(3, 1000, 9999), stamp(6, 1971, 2037))
	tm := fmt.Sprintf("%d:%02d:%02d", r.Intn(839), r.Intn(60), r.Intn(60))
	if r.Bool() {
		tm += fmt.Sprintf(".%06d", r.Intn(1000000))
	}
	if r.Chance(1, 3) {
		tm = "-" + tm
	}
	v = append(v, "'"+tm+"'")
	v = append(v, fmt.Sprint(r.Range(1901, 2155)))
	v = append(v, fmt.Sprint(r.Intn(2)), fmt.Sprint(r.Intn(4096)), fmt.Sprint(r.Uint64()>>uint(r.Intn(64))))
	v = append(v, pickS(r, "'a'", "'B'", "'x y'", "'2'", "'1'"))
	v = append(v, pickS(r, "''", "'a'", "'a,B'", "'x y,1'", "'a,B,x y,2,1'", "'2'", "'1,2'"))
	v = append(v, pickS(r, "''", "'a'", "'日本語'", "'x y  '", "'0123456789'", "'€😀'"))
	v = append(v, pickS(r, "''", "'ab '", "'  a'", "'日本'", "'abcde'"))
	v = append(v, pickS(r, "''", "'a'", "x'00ff80'", "x'e697a5'", "'abcdef'"))
	v = append(v, pickS(r, "''", "'ab'", "x'00'", "x'ff00ff00'", "'abcd'"))
	v = append(v, pickS(r, "''", "'some text, with ''quotes'' and 日本'", "'"+strings.Repeat("long ", r.Intn(60))+"'"))
	v = append(v, pickS(r, "'null'", "'true'", "'0'", "'-9223372036854775808'", "'18446744073709551615'", "'\"a b\"'", "'\"日本\"'",
		"'[]'", "'[1, \"x\", null]'", "'{\"b\": 1, \"aa\": [true, \"y\"]}'", "'{\"k\": {\"n\": 9007199254740993}}'"))
	for i := range v {
		if r.Chance(1, 25) {
			v[i] = "NULL"
		}
	}
	return caseT{Kind: "wire", Val: "", Storable: true, Wire: &wireT{Vals: v}}
}

func (w *wireEnv) row(c *lib.Ctx, cs caseT) {
	w.n++
	id := w.n
	if len(cs.Wire.Vals) != len(wireCols) {
		panic("wire case does not match the table")
	}
	r := w.s.Query(fmt.Sprintf("INSERT INTO w VALUES (%d, %s)", id, strings.Join(cs.Wire.Vals, ", ")))
	if r.Err != nil || r.Panic != "" {
		c.CaseNoModel(cs, "")
		c.Count("wire_insert_rejected")
		return
	}
	st := w.s.Query(fmt.Sprintf("SELECT * FROM w WHERE id = %d", id))
	if st.Err != nil || len(st.Rows) != 1 {
		panic(fmt.Sprintf("stored row not readable: %v", st.Err))
	}
	cid := c.CaseNoModel(cs, "wire|"+strings.Join(cs.Wire.Vals, "|"))
	c.Count("wire_row")
	read := func(proto string) [][]byte {
		var rows *gosql.Rows
		var err error
		if proto == "text" {
			rows, err = w.db.Query(fmt.Sprintf("SELECT * FROM w WHERE id = %d", id))
		} else {
			rows, err = w.st.Query(id)
		}
		if err != nil {
			c.PredFail(cid, "wire/"+proto+"/query-error", err.Error(), cs)
			return nil
		}
		defer rows.Close()
		if !rows.Next() {
			c.PredFail(cid, "wire/"+proto+"/no-row", fmt.Sprintf("row %d not received: %v", id, rows.Err()), cs)
			return nil
		}
		raw := make([]gosql.RawBytes, len(wireCols)+1)
		ptr := make([]interface{}, len(raw))
		for i := range raw {
			ptr[i] = &raw[i]
		}
		if err := rows.Scan(ptr...); err != nil {
			c.PredFail(cid, "wire/"+proto+"/scan-error", err.Error(), cs)
			return nil
		}
		out := make([][]byte, len(raw))
		for i, b := range raw {
			if b != nil {
				out[i] = append([]byte{}, b...)
			}
		}
		return out
	}
	for _, proto := range []string{"text", "binary"} {
		got := read(proto)
		if got == nil {
			continue
		}
		c.PredChecked()
		for i, col := range wireCols {
			stored := st.Rows[0][i+1]
			t := st.Schema[i+1].Type
			recv := got[i+1]
			sig := fmt.Sprintf("wire/%s/%s", proto, col.Name)
			if (stored == nil) != (recv == nil) {
				c.PredFail(cid, sig+"/null-mismatch", fmt.Sprintf("%s %s: stored %v, client received %q", col.Name, col.Decl, stored, recv), cs)
				continue
			}
			if stored == nil {
				continue
			}
			if what, ok := wireDenotes(col.Decl, proto, stored, recv); !ok {
				c.PredFail(cid, sig+"/denotes-different-value", fmt.Sprintf("%s %s: stored %v, client received %q, which denotes %s", col.Name, col.Decl, stored, recv, what), cs)
				continue
			}
			back, _, err := t.Convert(ctx, string(recv))
			if err != nil {
				c.PredFail(cid, sig+"/not-convertible", fmt.Sprintf("%s %s: stored %v, client received %q: %v", col.Name, col.Decl, stored, recv, err), cs)
				continue
			}
			if cmp, err := t.Compare(ctx, back, stored); err != nil || cmp != 0 {
				c.PredFail(cid, sig+"/reads-back-different", fmt.Sprintf("%s %s: stored %v, client received %q = %v", col.Name, col.Decl, stored, recv, back), cs)
			}
		}
	}
	if w.cap != nil && (id%w.ev == 0 || w.ev == 1) {
		ts := make([]types2, len(st.Schema))
		for i := range st.Schema {
			ts[i] = st.Schema[i].Type
		}
		w.binaryRow(c, cs, id, st.Rows[0], ts)
	}
}

type types2 = gsql.Type

func runWire(c *lib.Ctx, cs caseT) {
	w := newWireEnv()
	w.ev = 1
	defer w.close()
	w.row(c, cs)
}

func wirePhase(c *lib.Ctx, n int) {
	if n > 1500 {
		n = 1500 + (n-1500)/20
	}
	w := newWireEnv()
	for i := 0; i < n; i++ {
		w.row(c, genWire(c.R.Fork()))
	}
	w.close()
	for i := 0; i < 2+n/2000; i++ {
		runWireSlow(c, caseT{Kind: "wireslow", P: c.R.Range(130, 900)})
	}
}

// wireDenotes: independent reading (math/big) of what the client received for integer and TIME columns.
func wireDenotes(decl, proto string, stored interface{}, recv []byte) (string, bool) {
	switch {
	case strings.Contains(decl, "INT"):
		z, ok := new(big.Int).SetString(string(recv), 10)
		if !ok {
			return "no integer", false
		}
		return z.String(), z.String() == fmt.Sprint(stored)
	case strings.HasPrefix(decl, "TIME(") && proto == "text": // binary: fraction lost, a known finding judged below
		x, ok := usOfTimeText(string(recv))
		if !ok {
			return "no time", false
		}
		return fmt.Sprintf("%d microseconds", x), x == int64(stored.(types.Timespan))
	}
	return "", true
}

// ---------- slow client, result of several hundred rows ----------
// The server spools results in batches of 128 rows through a queue; a client that reads more slowly than the engine
// produces must still receive, for every row, the values of THAT row (no value may alias a buffer reused for later rows).
// Each row carries values derived from its id and a ~1.5 kB distinct pad so that the socket fills up.

func slowPad(id int) string {
	return strings.Repeat(fmt.Sprintf("<%05d>", id), 214) // 1498 bytes
}

func runWireSlow(c *lib.Ctx, cs caseT) {
	n := cs.P
	w := newWireEnv()
	defer w.close()
	w.s.MustExec("CREATE TABLE big (id INT PRIMARY KEY, a BIGINT, u BIGINT UNSIGNED, d DECIMAL(20,5), ts DATETIME(6), tm TIME(6), e ENUM('a','B','x y'), pad VARCHAR(2000))")
	var sb strings.Builder
	for id := 1; id <= n; id++ {
		if sb.Len() > 0 {
			sb.WriteString(", ")
		}
		fmt.Fprintf(&sb, "(%d, %d, %d, '%d.%05d', '%04d-%02d-%02d %02d:%02d:%02d.%06d', '%s%d:%02d:%02d.%06d', %d, '%s')",
			id, int64(id)*-1000003, uint64(1)<<63+uint64(id)*7919, id*31, id%100000,
			1000+id*7%9000, 1+id%12, 1+id%28, id%24, id%60, (id*7)%60, (id*999983)%1000000,
			[]string{"", "-"}[id%2], id%839, id%60, (id*13)%60, (id*7919)%1000000, 1+id%3, slowPad(id))
		if id%100 == 0 || id == n {
			w.s.MustExec("INSERT INTO big VALUES " + sb.String())
			sb.Reset()
		}
	}
	st := w.s.Query("SELECT * FROM big ORDER BY id")
	if st.Err != nil || len(st.Rows) != n {
		panic(fmt.Sprintf("stored rows not readable: %v", st.Err))
	}
	cid := c.CaseNoModel(cs, fmt.Sprintf("wireslow|%d", n))
	c.Count("wire_slow_result")
	for _, proto := range []string{"text", "binary"} {
		var rows *gosql.Rows
		var err error
		if proto == "text" {
			rows, err = w.db.Query("SELECT * FROM big ORDER BY id")
		} else {
			rows, err = w.db.Query("SELECT * FROM big WHERE id > ? ORDER BY id", 0)
		}
		if err != nil {
			c.PredFail(cid, "wireslow/"+proto+"/query-error", err.Error(), cs)
			continue
		}
		c.PredChecked()
		time.Sleep(300 * time.Millisecond) // let the engine run ahead of the client
		got := 0
		bad := false
		for rows.Next() {
			raw := make([]gosql.RawBytes, 8)
			ptr := make([]interface{}, 8)
			for i := range raw {
				ptr[i] = &raw[i]
			}
			if err := rows.Scan(ptr...); err != nil {
				c.PredFail(cid, "wireslow/"+proto+"/scan-error", err.Error(), cs)
				bad = true
				break
			}
			if got >= n {
				got++
				continue
			}
			for i := range raw {
				stored := st.Rows[got][i]
				t := st.Schema[i].Type
				ok := raw[i] != nil && stored != nil
				if ok && i == 7 {
					ok = string(raw[i]) == stored.(string)
				} else if ok && (proto == "text" || i != 5) { // binary TIME(6): fraction lost (known finding)
					back, _, err := t.Convert(ctx, string(raw[i]))
					if err != nil {
						ok = false
					} else if cmp, err := t.Compare(ctx, back, stored); err != nil || cmp != 0 {
						ok = false
					}
				}
				if !ok && !bad {
					bad = true
					recv := string(raw[i])
					if len(recv) > 60 {
						recv = recv[:60] + "..."
					}
					c.PredFail(cid, "wireslow/"+proto+"/row-has-foreign-value",
						fmt.Sprintf("%d-row result read slowly: row %d column %s: stored %.60v, client received %q", n, got+1, st.Schema[i].Name, stored, recv), cs)
				}
			}
			got++
			if got%16 == 0 && got <= 400 {
				time.Sleep(2 * time.Millisecond)
			}
		}
		if err := rows.Err(); err != nil && !bad {
			c.PredFail(cid, "wireslow/"+proto+"/stream-error", err.Error(), cs)
		}
		rows.Close()
		if got != n && !bad {
			c.PredFail(cid, "wireslow/"+proto+"/row-count", fmt.Sprintf("%d rows stored, %d received", n, got), cs)
		}
	}
}
