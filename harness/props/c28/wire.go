package main

import "verifharness/lib"

type wireT struct{}

func runWire(c *lib.Ctx, cs caseT) {}
func wirePhase(c *lib.Ctx, n int) {}
