// Driver for C28 (values round-trip through their wire representation): calls sql.Type.SQL of /repo on generated
// values of the integer types, DECIMAL(p,s), YEAR, BIT(n), DATE, DATETIME(n), TIME, ENUM and SET, records the bytes
// and Type.Convert(string(bytes)) for the Coq model, and evaluates the property predicate on the implementation
// alone: for storable values the re-converted value compares equal (Type.Compare = 0) to the original and the text is
// no longer than Type.MaxTextResponseByteLength.  A second phase runs rows through server.NewServer and
// go-sql-driver/mysql (text and prepared/binary protocol) and compares client-received values with stored ones.
package main

import (
	"encoding/hex"
	"fmt"
	"math/big"
	"strings"
	"time"

	"github.com/cockroachdb/apd/v3"
	"github.com/dolthub/vitess/go/sqltypes"

	"github.com/dolthub/go-mysql-server/sql"
	"github.com/dolthub/go-mysql-server/sql/types"

	"verifharness/lib"
)

type caseT struct {
	Kind     string   `json:"kind"`            // int | decimal | year | bit | date | datetime | time | enum | set | wire
	Ty       string   `json:"ty,omitempty"`    // i8..u64
	P        int      `json:"p,omitempty"`     // decimal precision / datetime precision / bit width
	S        int      `json:"s,omitempty"`     // decimal scale
	Col      bool     `json:"col,omitempty"`   // decimal type defines a column
	Val      string   `json:"val"`             // integer text | coefficient (decimal) | microseconds | index | bit field
	Neg      bool     `json:"neg,omitempty"`   // decimal sign flag
	Exp      int      `json:"exp,omitempty"`   // decimal exponent
	Names    []string `json:"names,omitempty"` // enum / set members
	Storable bool     `json:"storable"`        // the value is a fixpoint of Type.Convert (predicate applies)
	Wire     *wireT   `json:"wire,omitempty"`
	Doc      *jdoc    `json:"doc,omitempty"`
}

var ctx = sql.NewEmptyContext()

type ityT struct {
	Name, Coq string
	Min, Max  *big.Int
	Signed    bool
	T         sql.Type
}

func bi(s string) *big.Int {
	z, ok := new(big.Int).SetString(s, 10)
	if !ok {
		panic("bad int " + s)
	}
	return z
}

var ityS = []ityT{
	{"i8", "I8", bi("-128"), bi("127"), true, types.Int8},
	{"u8", "U8", bi("0"), bi("255"), false, types.Uint8},
	{"i16", "I16", bi("-32768"), bi("32767"), true, types.Int16},
	{"u16", "U16", bi("0"), bi("65535"), false, types.Uint16},
	{"i24", "I24", bi("-8388608"), bi("8388607"), true, types.Int24},
	{"u24", "U24", bi("0"), bi("16777215"), false, types.Uint24},
	{"i32", "I32", bi("-2147483648"), bi("2147483647"), true, types.Int32},
	{"u32", "U32", bi("0"), bi("4294967295"), false, types.Uint32},
	{"i64", "I64", bi("-9223372036854775808"), bi("9223372036854775807"), true, types.Int64},
	{"u64", "U64", bi("0"), bi("18446744073709551615"), false, types.Uint64},
}

func ityByName(n string) *ityT {
	for i := range ityS {
		if ityS[i].Name == n {
			return &ityS[i]
		}
	}
	return nil
}

func coqOptZ(ok bool, z string) string { return lib.CoqOpt(ok, lib.CoqZStr(z)) }
func coqNames(ns []string) string      { return lib.CoqListOf(ns, lib.CoqStr) }
func coqDec(neg bool, coef string, exp int) string {
	return fmt.Sprintf("(mkdec %s %s %s)", lib.CoqBool(neg), lib.CoqZStr(coef), lib.CoqZ(int64(exp)))
}

// sqlText runs Type.SQL; ok=false when it returned an error.
func sqlText(t sql.Type, v interface{}) (txt []byte, ok bool, err error) {
	sv, err := t.SQL(ctx, nil, v)
	if err != nil {
		return nil, false, err
	}
	return append([]byte{}, sv.Raw()...), true, nil
}

// check evaluates the property predicate on the implementation alone for a storable value.
func check(c *lib.Ctx, id int, cs caseT, t sql.Type, v interface{}, txt []byte, back interface{}, cerr error, sigPrefix string) {
	c.PredChecked()
	// independent oracle: the text, read by a reader written here (math/big, time), denotes the value itself
	if want, ok := denotes(cs, v, txt); !ok {
		c.PredFail(id, sigPrefix+"/text-denotes-different-value",
			fmt.Sprintf("%s value %v is sent as %q, which denotes %s", t, v, txt, want), cs)
	}
	max := int(t.MaxTextResponseByteLength(ctx))
	if len(txt) > max {
		c.PredFail(id, sigPrefix+"/text-longer-than-announced",
			fmt.Sprintf("%s value %v: text %q has %d bytes, MaxTextResponseByteLength = %d", t, v, txt, len(txt), max), cs)
	}
	if cerr != nil {
		c.PredFail(id, sigPrefix+"/text-not-convertible",
			fmt.Sprintf("%s value %v: Convert(%q) fails: %v", t, v, txt, cerr), cs)
		return
	}
	cmp, err := t.Compare(ctx, back, v)
	if err != nil || cmp != 0 {
		c.PredFail(id, sigPrefix+"/reads-back-different",
			fmt.Sprintf("%s value %v: text %q converts back to %v (Compare=%d, err=%v)", t, v, txt, back, cmp, err), cs)
	}
}

// ratOfText reads [-]digits[.digits] with math/big only.
func ratOfText(txt string) (*big.Rat, bool) {
	body := strings.TrimPrefix(txt, "-")
	if body == "" || strings.Trim(body, "0123456789.") != "" || strings.Count(body, ".") > 1 || body == "." {
		return nil, false
	}
	r, ok := new(big.Rat).SetString(txt)
	return r, ok
}

// usOfTimeText reads [-]H+:MM:SS[.f{1,6}] into microseconds, independently of the engine.
func usOfTimeText(txt string) (int64, bool) {
	neg := strings.HasPrefix(txt, "-")
	body := strings.TrimPrefix(txt, "-")
	frac := ""
	if i := strings.IndexByte(body, '.'); i >= 0 {
		body, frac = body[:i], body[i+1:]
		if frac == "" || len(frac) > 6 || strings.Trim(frac, "0123456789") != "" {
			return 0, false
		}
	}
	parts := strings.Split(body, ":")
	if len(parts) != 3 || len(parts[0]) < 2 || len(parts[1]) != 2 || len(parts[2]) != 2 {
		return 0, false
	}
	var n [3]int64
	for i, p := range parts {
		if strings.Trim(p, "0123456789") != "" {
			return 0, false
		}
		z, ok := new(big.Int).SetString(p, 10)
		if !ok || !z.IsInt64() {
			return 0, false
		}
		n[i] = z.Int64()
	}
	if n[1] > 59 || n[2] > 59 {
		return 0, false
	}
	us := int64(0)
	if frac != "" {
		z, _ := new(big.Int).SetString(frac+strings.Repeat("0", 6-len(frac)), 10)
		us = z.Int64()
	}
	x := ((n[0]*60+n[1])*60+n[2])*1000000 + us
	if neg {
		x = -x
	}
	return x, true
}

// denotes says whether the wire text, read by an independent reader, is the value v; when not, it describes what the
// text does denote.  Kinds without an independent reader (enum, set: covered by Convert/Compare) return true.
func denotes(cs caseT, v interface{}, txt []byte) (string, bool) {
	t := string(txt)
	switch cs.Kind {
	case "int", "year":
		z, ok := new(big.Int).SetString(t, 10)
		if !ok || strings.HasPrefix(t, "+") {
			return "no integer", false
		}
		return z.String(), z.Cmp(bi(fmt.Sprint(v))) == 0
	case "decimal":
		r, ok := ratOfText(t)
		if !ok {
			return "no plain decimal number", false
		}
		want := new(big.Rat).SetInt(bi(cs.Val))
		p := new(big.Rat).SetInt(new(big.Int).Exp(big.NewInt(10), big.NewInt(int64(abs(cs.Exp))), nil))
		if cs.Exp < 0 {
			want.Quo(want, p)
		} else {
			want.Mul(want, p)
		}
		if cs.Neg {
			want.Neg(want)
		}
		return r.RatString(), r.Cmp(want) == 0
	case "bit":
		z := new(big.Int).SetBytes(txt)
		return z.String(), z.Cmp(bi(cs.Val)) == 0
	case "time":
		x, ok := usOfTimeText(t)
		if !ok {
			return "no [-]H:MM:SS[.ffffff] time", false
		}
		return fmt.Sprintf("%d microseconds", x), x == bi(cs.Val).Int64()
	case "date", "datetime":
		tv := v.(time.Time)
		if tv.Equal(types.ZeroTime) || tv.Year() < 1000 || tv.Year() > 9999 {
			return "", true // zero date / unpadded years: judged by Convert+Compare (known findings)
		}
		layout := "2006-01-02"
		if cs.Kind == "datetime" {
			layout = "2006-01-02 15:04:05"
			if cs.P > 0 {
				layout += "." + strings.Repeat("0", cs.P)
			}
		}
		got, err := time.Parse(layout, t)
		if err != nil {
			return "no " + layout + " text", false
		}
		return got.String(), got.Equal(tv)
	}
	return "", true
}

func abs(i int) int {
	if i < 0 {
		return -i
	}
	return i
}

// ---------- integers ----------

func runInt(c *lib.Ctx, cs caseT) {
	it := ityByName(cs.Ty)
	z := bi(cs.Val)
	var v interface{}
	if it.Signed {
		v = z.Int64()
	} else {
		v = z.Uint64()
	}
	cs.Storable = z.Cmp(it.Min) >= 0 && z.Cmp(it.Max) <= 0
	if cs.Storable {
		sv, _, err := it.T.Convert(ctx, v)
		if err != nil {
			panic(err)
		}
		v = sv
	}
	txt, ok, err := sqlText(it.T, v)
	if !ok {
		id := c.CaseNoModel(cs, "")
		c.PredFail(id, "int/"+it.Name+"/sql-error", fmt.Sprintf("%s.SQL(%v): %v", it.T, v, err), cs)
		return
	}
	back, _, cerr := it.T.Convert(ctx, string(txt))
	term := fmt.Sprintf("CInt %s %s %s %s", it.Coq, lib.CoqZStr(cs.Val), lib.CoqBytes(txt), coqOptZ(cerr == nil, fmt.Sprint(back)))
	key := ""
	if cs.Storable {
		key = "int|" + it.Name + "|" + cs.Val
	}
	id := c.Case(term, cs, key)
	c.Count("int_" + it.Name)
	if !cs.Storable {
		c.Count("int_clamped_input")
		return
	}
	sig := "int/" + it.Name
	check(c, id, cs, it.T, v, txt, back, cerr, sig)
}

func genInt(r *lib.RNG) caseT {
	it := lib.Pick(r, ityS)
	cs := caseT{Kind: "int", Ty: it.Name}
	z := new(big.Int)
	switch r.Intn(10) {
	case 0:
		z.Set(it.Min)
	case 1:
		z.Set(it.Max)
	case 2:
		z.Add(it.Min, big.NewInt(int64(r.Intn(3))))
	case 3:
		z.Sub(it.Max, big.NewInt(int64(r.Intn(3))))
	case 4: // around a power of ten
		p := new(big.Int).Exp(big.NewInt(10), big.NewInt(int64(r.Intn(20))), nil)
		p.Add(p, big.NewInt(int64(r.Intn(3)-1)))
		if it.Signed && r.Bool() {
			p.Neg(p)
		}
		z.Set(p)
	case 5: // small
		z.SetInt64(int64(r.Intn(21) - 10))
	case 6: // outside the type, inside 64 bits (the clamp of SQLxxx becomes visible)
		if it.Signed {
			z.SetInt64(int64(r.Uint64()))
		} else {
			z.SetUint64(r.Uint64())
		}
	default: // uniform over the width, random magnitude
		span := new(big.Int).Sub(it.Max, it.Min)
		x := new(big.Int).SetUint64(r.Uint64() >> uint(r.Intn(64)))
		x.Mod(x, new(big.Int).Add(span, big.NewInt(1)))
		z.Add(it.Min, x)
		if r.Bool() {
			z.Sub(it.Max, x)
		}
	}
	// keep inside the 64-bit carrier
	lo, hi := bi("-9223372036854775808"), bi("9223372036854775807")
	if !it.Signed {
		lo, hi = bi("0"), bi("18446744073709551615")
	}
	if z.Cmp(lo) < 0 {
		z.Set(lo)
	}
	if z.Cmp(hi) > 0 {
		z.Set(hi)
	}
	cs.Val = z.String()
	return cs
}

// ---------- decimals ----------

func mkDecType(col bool, p, s int) sql.DecimalType {
	if col {
		return types.MustCreateColumnDecimalType(uint8(p), uint8(s))
	}
	return types.MustCreateDecimalType(uint8(p), uint8(s))
}

func runDec(c *lib.Ctx, cs caseT) {
	t := mkDecType(cs.Col, cs.P, cs.S)
	coef := bi(cs.Val)
	d := new(apd.Decimal)
	d.Coeff.SetString(cs.Val, 10)
	d.Exponent = int32(cs.Exp)
	d.Negative = cs.Neg
	// storable: Convert accepts it and hands it back with the same coefficient, exponent and sign
	sv, _, err := t.Convert(ctx, d)
	cs.Storable = false
	if err == nil {
		if sd, ok := sv.(*apd.Decimal); ok && sd.Exponent == d.Exponent && sd.Negative == d.Negative && sd.Coeff.String() == coef.String() {
			cs.Storable = true
		}
	}
	txt, ok, err := sqlText(t, d)
	if !ok {
		id := c.CaseNoModel(cs, "")
		c.PredFail(id, "decimal/sql-error", fmt.Sprintf("%s.SQL(%v): %v", t, d, err), cs)
		return
	}
	back, _, cerr := t.Convert(ctx, string(txt))
	backTerm := "None"
	if cerr == nil {
		bd := back.(*apd.Decimal)
		backTerm = "(Some " + coqDec(bd.Negative, bd.Coeff.String(), int(bd.Exponent)) + ")"
	}
	term := fmt.Sprintf("CDec %s %s %s %s %s %s", lib.CoqBool(cs.Col), lib.CoqZ(int64(cs.P)), lib.CoqZ(int64(cs.S)),
		coqDec(cs.Neg, cs.Val, cs.Exp), lib.CoqBytes(txt), backTerm)
	key := ""
	if cs.Storable {
		key = fmt.Sprintf("dec|%v|%d|%d|%v|%s|%d", cs.Col, cs.P, cs.S, cs.Neg, cs.Val, cs.Exp)
	}
	id := c.Case(term, cs, key)
	if cs.Col {
		c.Count("decimal_column_type")
	} else {
		c.Count("decimal_expression_type")
	}
	if !cs.Storable {
		c.Count("decimal_rounded_input")
		return
	}
	sig := "decimal"
	if cs.P == cs.S && cs.Neg {
		sig = "decimal/precision-eq-scale/negative"
	}
	check(c, id, cs, t, d, txt, back, cerr, sig)
}

func randDigits(r *lib.RNG, n int) string {
	if n <= 0 {
		return "0"
	}
	var sb strings.Builder
	for i := 0; i < n; i++ {
		switch r.Intn(4) {
		case 0:
			sb.WriteByte('9')
		case 1:
			sb.WriteByte('0')
		default:
			sb.WriteByte(byte('0' + r.Intn(10)))
		}
	}
	s := strings.TrimLeft(sb.String(), "0")
	if s == "" {
		return "0"
	}
	return s
}

func genDec(r *lib.RNG) caseT {
	cs := caseT{Kind: "decimal", Col: !r.Chance(1, 6)}
	switch r.Intn(6) {
	case 0:
		cs.P = 65
	case 1:
		cs.P = r.Range(1, 4)
	default:
		cs.P = r.Range(1, 65)
	}
	maxS := cs.P
	if maxS > 30 {
		maxS = 30
	}
	switch r.Intn(5) {
	case 0:
		cs.S = 0
	case 1:
		cs.S = maxS
	default:
		cs.S = r.Range(0, maxS)
	}
	cs.Neg = r.Chance(2, 5)
	switch r.Intn(10) {
	case 0: // largest magnitude
		cs.Val = strings.Repeat("9", cs.P)
		cs.Exp = -cs.S
	case 1: // zero (possibly negative zero)
		cs.Val = "0"
		cs.Exp = -cs.S
	case 2: // integer-valued with exponent 0 or positive
		n := cs.P - cs.S
		e := 0
		if n > 1 && r.Bool() {
			e = r.Range(1, n-1)
		}
		cs.Val = randDigits(r, r.Range(0, n-e))
		cs.Exp = e
	case 3: // fewer fraction digits than the scale
		e := 0
		if cs.S > 0 {
			e = r.Range(0, cs.S)
		}
		cs.Val = randDigits(r, r.Range(1, cs.P-cs.S+e))
		cs.Exp = -e
	case 4: // more fraction digits than the scale (rounded by SQL; not storable)
		extra := r.Range(1, 4)
		cs.Val = randDigits(r, r.Range(1, cs.P+extra))
		cs.Exp = -(cs.S + extra)
	case 5: // small fractions: fewer digits than the scale
		cs.Val = randDigits(r, r.Range(1, 3))
		cs.Exp = -cs.S
	default:
		cs.Val = randDigits(r, r.Range(1, cs.P))
		cs.Exp = -cs.S
	}
	return cs
}

// ---------- year, bit ----------

func runYear(c *lib.Ctx, cs caseT) {
	y := bi(cs.Val).Int64()
	v := int16(y)
	cs.Storable = true
	txt, ok, err := sqlText(types.Year, v)
	if !ok {
		id := c.CaseNoModel(cs, "")
		c.PredFail(id, "year/sql-error", fmt.Sprintf("year.SQL(%v): %v", v, err), cs)
		return
	}
	back, _, cerr := types.Year.Convert(ctx, string(txt))
	id := c.Case(fmt.Sprintf("CYear %s %s %s", lib.CoqZ(y), lib.CoqBytes(txt), coqOptZ(cerr == nil, fmt.Sprint(back))), cs, "year|"+cs.Val)
	c.Count("year")
	sig := "year"
	if y == 0 {
		sig = "year/zero"
	}
	check(c, id, cs, types.Year, v, txt, back, cerr, sig)
}

func genYear(r *lib.RNG) caseT {
	y := r.Range(1901, 2155)
	switch r.Intn(8) {
	case 0:
		y = 0
	case 1:
		y = 1901
	case 2:
		y = 2155
	}
	return caseT{Kind: "year", Val: fmt.Sprint(y)}
}

func runBit(c *lib.Ctx, cs caseT) {
	t := types.MustCreateBitType(uint8(cs.P))
	v := bi(cs.Val).Uint64()
	cs.Storable = true
	txt, ok, err := sqlText(t, v)
	if !ok {
		id := c.CaseNoModel(cs, "")
		c.PredFail(id, "bit/sql-error", fmt.Sprintf("%s.SQL(%v): %v", t, v, err), cs)
		return
	}
	back, _, cerr := t.Convert(ctx, string(txt))
	id := c.Case(fmt.Sprintf("CBit %s %s %s %s", lib.CoqZ(int64(cs.P)), lib.CoqZStr(cs.Val), lib.CoqBytes(txt),
		coqOptZ(cerr == nil, fmt.Sprint(back))), cs, fmt.Sprintf("bit|%d|%s", cs.P, cs.Val))
	c.Count("bit")
	check(c, id, cs, t, v, txt, back, cerr, "bit")
}

func genBit(r *lib.RNG) caseT {
	n := r.Range(1, 64)
	if r.Chance(1, 4) {
		n = lib.Pick(r, []int{1, 7, 8, 9, 16, 17, 63, 64})
	}
	var v uint64
	max := uint64(1)<<uint(n) - 1
	if n == 64 {
		max = ^uint64(0)
	}
	switch r.Intn(5) {
	case 0:
		v = 0
	case 1:
		v = max
	case 2:
		v = uint64(1) << uint(n-1)
	default:
		v = (r.Uint64() >> uint(r.Intn(64))) & max
	}
	return caseT{Kind: "bit", P: n, Val: fmt.Sprint(v)}
}

// ---------- date, datetime, time ----------

const usPerDay = int64(86400000000)

var zeroUs = types.ZeroTime.UnixMicro()

func mkDatetimeType(n int) sql.Type { return types.MustCreateDatetimeType(sqltypes.Datetime, n) }

func runTemporal(c *lib.Ctx, cs caseT) {
	x := bi(cs.Val).Int64()
	v := time.UnixMicro(x).UTC()
	var t sql.Type
	var head string
	if cs.Kind == "date" {
		t = types.Date
		head = "CDate"
	} else {
		t = mkDatetimeType(cs.P)
		head = fmt.Sprintf("CDatetime %d", cs.P)
	}
	sv, _, err := t.Convert(ctx, v)
	cs.Storable = err == nil && sv.(time.Time).Equal(v)
	txt, ok, _ := sqlText(t, v)
	var back interface{}
	var cerr error = fmt.Errorf("no text")
	backTerm := "None"
	if ok {
		back, _, cerr = t.Convert(ctx, string(txt))
		if cerr == nil {
			backTerm = "(Some " + lib.CoqZ(back.(time.Time).UnixMicro()) + ")"
		}
	}
	term := fmt.Sprintf("%s %s %s %s", head, lib.CoqZ(x), lib.CoqOpt(ok, lib.CoqBytes(txt)), backTerm)
	key := ""
	if cs.Storable {
		key = fmt.Sprintf("%s|%d|%s", cs.Kind, cs.P, cs.Val)
	}
	id := c.Case(term, cs, key)
	c.Count(cs.Kind)
	if !cs.Storable {
		c.Count(cs.Kind + "_not_storable_input")
		return
	}
	if !ok {
		c.PredFail(id, cs.Kind+"/sql-error", fmt.Sprintf("%s.SQL(%v) fails for a value Convert accepts", t, v), cs)
		return
	}
	sig := cs.Kind
	if y := v.Year(); y >= 1 && y <= 999 {
		sig = cs.Kind + "/year-1-to-999"
	} else if y < 0 {
		sig = cs.Kind + "/negative-year"
	}
	check(c, id, cs, t, v, txt, back, cerr, sig)
}

func genTemporal(r *lib.RNG, kind string) caseT {
	cs := caseT{Kind: kind}
	if kind == "datetime" {
		cs.P = r.Intn(7)
	}
	var y int
	switch r.Intn(11) {
	case 0:
		cs.Val = fmt.Sprint(zeroUs)
		return cs
	case 10: // neighbourhood of the zero date and of the upper end of the range (truncation / rounding across them)
		base := zeroUs
		if r.Bool() {
			base = time.Date(10000, 1, 1, 0, 0, 0, 0, time.UTC).UnixMicro()
		}
		off := int64(r.Uint64()%uint64(2*usPerDay)) - usPerDay
		switch r.Intn(4) {
		case 0:
			off = int64(r.Intn(5)) - 2
		case 1:
			off = int64(r.Intn(2000001)) - 1000000
		}
		cs.Val = fmt.Sprint(base + off)
		return cs
	case 1:
		y = lib.Pick(r, []int{0, 1, 9, 10, 99, 100, 999, 1000, 9999, 1969, 1970, 2000, 2100, 2400})
	case 2:
		y = r.Range(0, 999)
	case 3: // just outside the range
		y = lib.Pick(r, []int{-1, 10000})
	default:
		y = r.Range(1000, 9999)
	}
	m := r.Range(1, 12)
	d := r.Range(1, 28)
	if r.Chance(1, 3) {
		d = time.Date(y, time.Month(m)+1, 0, 0, 0, 0, 0, time.UTC).Day() // last day of the month
	}
	if r.Chance(1, 10) {
		m, d = 2, 29 // normalised by time.Date when the year is not leap
	}
	us := int64(0)
	if kind == "datetime" || r.Chance(1, 4) {
		switch r.Intn(4) {
		case 0:
			us = 0
		case 1:
			us = usPerDay - 1
		default:
			us = int64(r.Uint64() % uint64(usPerDay))
		}
		if kind == "datetime" && !r.Chance(1, 5) { // storable at this precision
			unit := int64(1)
			for i := cs.P; i < 6; i++ {
				unit *= 10
			}
			us -= us % unit
		}
	}
	base := time.Date(y, time.Month(m), d, 0, 0, 0, 0, time.UTC).UnixMicro()
	cs.Val = fmt.Sprint(base + us)
	return cs
}

func runTime(c *lib.Ctx, cs caseT) {
	x := bi(cs.Val).Int64()
	v := types.Timespan(x)
	sv, _, err := types.Time.Convert(ctx, v)
	// TIME holds -838:59:59 .. 838:59:59 (Convert does not re-check a Timespan it is handed)
	cs.Storable = err == nil && sv.(types.Timespan) == v && x >= -3020399000000 && x <= 3020399000000
	txt, ok, err := sqlText(types.Time, v)
	if !ok {
		id := c.CaseNoModel(cs, "")
		c.PredFail(id, "time/sql-error", fmt.Sprintf("time.SQL(%v): %v", v, err), cs)
		return
	}
	back, _, cerr := types.Time.Convert(ctx, string(txt))
	backTerm := "None"
	if cerr == nil {
		backTerm = "(Some " + lib.CoqZ(int64(back.(types.Timespan))) + ")"
	}
	key := ""
	if cs.Storable {
		key = "time|" + cs.Val
	}
	id := c.Case(fmt.Sprintf("CTime %s %s %s", lib.CoqZ(x), lib.CoqBytes(txt), backTerm), cs, key)
	c.Count("time")
	if !cs.Storable {
		c.Count("time_not_storable_input")
		return
	}
	check(c, id, cs, types.Time, v, txt, back, cerr, "time")
}

func genTime(r *lib.RNG) caseT {
	const max = int64(3020399000000)
	var x int64
	switch r.Intn(8) {
	case 0:
		x = max
	case 1:
		x = max - int64(r.Intn(2000000))
	case 2:
		x = int64(r.Intn(2000000))
	case 3:
		x = int64(r.Range(0, 838))*3600000000 + int64(r.Intn(2))*3599999999
	case 4: // beyond the range (formatted, not storable)
		x = max + 1 + int64(r.Uint64()%uint64(max))
	default:
		x = int64(r.Uint64() % uint64(max+1))
	}
	if r.Chance(2, 5) {
		x = -x
	}
	return caseT{Kind: "time", Val: fmt.Sprint(x)}
}

// ---------- enum, set ----------

var namePool = []string{"a", "b", "B", "ab", "x y", "1", "2", "10", "red", "green", "blue", "日本", "é", "-", "0", "a.b", "A", "ä", "zz", "true"}

func genNames(r *lib.RNG, max int) []string {
	n := r.Range(1, max)
	perm := make([]string, len(namePool))
	copy(perm, namePool)
	for i := len(perm) - 1; i > 0; i-- {
		j := r.Intn(i + 1)
		perm[i], perm[j] = perm[j], perm[i]
	}
	if n > len(perm) {
		n = len(perm)
	}
	return perm[:n]
}

// the default collation is case- and accent-sensitive? members that collide under it are rejected at creation
func runEnum(c *lib.Ctx, cs caseT) {
	names := append([]string{}, cs.Names...)
	t, err := types.CreateEnumType(names, sql.Collation_utf8mb4_0900_bin)
	if err != nil {
		c.CaseNoModel(cs, "")
		c.Count("enum_type_rejected")
		return
	}
	i := bi(cs.Val).Int64()
	v := uint16(i)
	// index 0 (the '' error value) is only storable in non-strict mode: modelled, but nothing is demanded of it
	cs.Storable = i != 0
	txt, ok, err := sqlText(t, v)
	if !ok {
		id := c.CaseNoModel(cs, "")
		c.PredFail(id, "enum/sql-error", fmt.Sprintf("%s.SQL(%v): %v", t, v, err), cs)
		return
	}
	back, _, cerr := t.Convert(ctx, string(txt))
	id := c.Case(fmt.Sprintf("CEnum %s %s %s %s", coqNames(cs.Names), lib.CoqZ(i), lib.CoqBytes(txt),
		coqOptZ(cerr == nil, fmt.Sprint(back))), cs, enumKey(cs, i))
	c.Count("enum")
	if !cs.Storable {
		c.Count("enum_index_zero_input")
		return
	}
	check(c, id, cs, t, v, txt, back, cerr, "enum")
}

func enumKey(cs caseT, i int64) string {
	if i == 0 {
		return ""
	}
	return fmt.Sprintf("enum|%q|%d", cs.Names, i)
}

func genEnum(r *lib.RNG) caseT {
	names := genNames(r, 8)
	i := r.Range(1, len(names))
	if r.Chance(1, 12) {
		i = 0
	}
	return caseT{Kind: "enum", Names: names, Val: fmt.Sprint(i)}
}

func runSet(c *lib.Ctx, cs caseT) {
	t, err := types.CreateSetType(append([]string{}, cs.Names...), sql.Collation_utf8mb4_0900_bin)
	if err != nil {
		c.CaseNoModel(cs, "")
		c.Count("set_type_rejected")
		return
	}
	v := bi(cs.Val).Uint64()
	cs.Storable = true
	txt, ok, err := sqlText(t, v)
	if !ok {
		id := c.CaseNoModel(cs, "")
		c.PredFail(id, "set/sql-error", fmt.Sprintf("%s.SQL(%v): %v", t, v, err), cs)
		return
	}
	back, _, cerr := t.Convert(ctx, string(txt))
	id := c.Case(fmt.Sprintf("CSet %s %s %s %s", coqNames(cs.Names), lib.CoqZStr(cs.Val), lib.CoqBytes(txt),
		coqOptZ(cerr == nil, fmt.Sprint(back))), cs, fmt.Sprintf("set|%q|%d", cs.Names, v))
	c.Count("set")
	check(c, id, cs, t, v, txt, back, cerr, "set")
}

func genSet(r *lib.RNG) caseT {
	names := genNames(r, 10)
	max := uint64(1)<<uint(len(names)) - 1
	v := r.Uint64() & max
	switch r.Intn(6) {
	case 0:
		v = 0
	case 1:
		v = max
	case 2:
		v = uint64(1) << uint(r.Intn(len(names)))
	}
	return caseT{Kind: "set", Names: names, Val: fmt.Sprint(v)}
}

// ---------- strings ----------

var runePool = []string{"a", "b", "Z", "0", " ", "é", "ß", "日", "本", "€", "😀", "𝄞", "\x00", "'", "%"}

func coqSty(ty string, n int) string {
	switch ty {
	case "varchar":
		return fmt.Sprintf("(VarChar %d)", n)
	case "varbinary":
		return fmt.Sprintf("(VarBinary %d)", n)
	case "char":
		return fmt.Sprintf("(Char %d)", n)
	case "binary":
		return fmt.Sprintf("(Binary %d)", n)
	}
	return "Text"
}

func mkStrType(ty string, n int) sql.Type {
	switch ty {
	case "varchar":
		return types.MustCreateString(sqltypes.VarChar, int64(n), sql.Collation_utf8mb4_0900_bin)
	case "varbinary":
		return types.MustCreateBinary(sqltypes.VarBinary, int64(n))
	case "char":
		return types.MustCreateString(sqltypes.Char, int64(n), sql.Collation_utf8mb4_0900_bin)
	case "binary":
		return types.MustCreateBinary(sqltypes.Binary, int64(n))
	}
	return types.Text
}

// Val holds the value as hex.
func runStr(c *lib.Ctx, cs caseT) {
	raw, err := hex.DecodeString(cs.Val)
	if err != nil {
		panic(err)
	}
	t := mkStrType(cs.Ty, cs.P)
	var v interface{} = string(raw)
	if cs.Ty == "varbinary" || cs.Ty == "binary" {
		v = raw
	}
	st0, _, cerr0 := t.Convert(ctx, v)
	cs.Storable = false // storable = a fixpoint of Convert (BINARY(n): already padded to n bytes)
	if cerr0 == nil {
		switch b := st0.(type) {
		case string:
			cs.Storable = b == string(raw)
		case []byte:
			cs.Storable = string(b) == string(raw)
		}
	}
	txt, ok, err := sqlText(t, v)
	if !ok {
		id := c.CaseNoModel(cs, "")
		if cs.Storable {
			c.PredFail(id, "str/"+cs.Ty+"/sql-error", fmt.Sprintf("%s.SQL(%q): %v", t, raw, err), cs)
		}
		return
	}
	back, _, cerr := t.Convert(ctx, string(txt))
	backTerm := "None"
	if cerr == nil {
		switch b := back.(type) {
		case string:
			backTerm = "(Some " + lib.CoqStr(b) + ")"
		case []byte:
			backTerm = "(Some " + lib.CoqBytes(b) + ")"
		}
	}
	key := ""
	if cs.Storable {
		key = "str|" + cs.Ty + fmt.Sprint(cs.P) + "|" + cs.Val
	}
	id := c.Case(fmt.Sprintf("CStr %s %s %d %d %s %s", coqSty(cs.Ty, cs.P), lib.CoqBytes(raw), len([]rune(string(raw))),
		t.MaxTextResponseByteLength(ctx), lib.CoqBytes(txt), backTerm), cs, key)
	c.Count("str_" + cs.Ty)
	if !cs.Storable {
		c.Count("str_not_a_stored_value_input")
		return
	}
	check(c, id, cs, t, v, txt, back, cerr, "str/"+cs.Ty)
}

func genStr(r *lib.RNG) caseT {
	cs := caseT{Kind: "str", Ty: lib.Pick(r, []string{"varchar", "varchar", "varbinary", "text", "char", "binary", "binary"})}
	cs.P = lib.Pick(r, []int{1, 2, 3, 5, 8, 16, 40})
	target := cs.P + r.Intn(3) - 1 // around the limit: one below, exact, one above
	if r.Chance(1, 3) {
		target = r.Intn(cs.P + 1)
	}
	if cs.Ty == "text" {
		cs.P = 0
		target = r.Intn(60)
	}
	var sb []byte
	if cs.Ty == "binary" && r.Chance(2, 3) {
		target = cs.P // exactly n bytes: a stored value
	}
	if (cs.Ty == "varbinary" || cs.Ty == "binary") && r.Bool() { // arbitrary bytes, malformed UTF-8 included (rune counting only matters here)
		for i := 0; i < target; i++ {
			sb = append(sb, lib.Pick(r, []byte{0x00, 0x41, 0x7f, 0x80, 0xbf, 0xc0, 0xc2, 0xe0, 0xa0, 0xed, 0x9f, 0xf0, 0x90, 0xf4, 0x8f, 0xf5, 0xff, 0xe2, 0x82, 0xac}))
		}
	} else {
		for i := 0; i < target; i++ {
			if (cs.Ty == "varbinary" || cs.Ty == "binary") && len(sb) >= target {
				break
			}
			sb = append(sb, lib.Pick(r, runePool)...)
		}
	}
	cs.Val = hex.EncodeToString(sb)
	return cs
}

// ---------- dispatch ----------

func run(c *lib.Ctx, cs caseT) {
	switch cs.Kind {
	case "int":
		runInt(c, cs)
	case "decimal":
		runDec(c, cs)
	case "year":
		runYear(c, cs)
	case "bit":
		runBit(c, cs)
	case "date", "datetime":
		runTemporal(c, cs)
	case "time":
		runTime(c, cs)
	case "enum":
		runEnum(c, cs)
	case "set":
		runSet(c, cs)
	case "str":
		runStr(c, cs)
	case "wire":
		runWire(c, cs)
	case "wireslow":
		runWireSlow(c, cs)
	case "meta":
		runMeta(c, cs)
	case "json":
		runJSON(c, cs)
	default:
		panic("unknown kind " + cs.Kind)
	}
}

func gen(r *lib.RNG) caseT {
	switch r.Intn(24) {
	case 20, 21:
		return genStr(r)
	case 22, 23:
		return genJSON(r)
	case 0, 1, 2, 3:
		return genInt(r)
	case 4, 5, 6, 7, 8:
		return genDec(r)
	case 9:
		return genYear(r)
	case 10:
		return genBit(r)
	case 11, 12:
		return genTemporal(r, "date")
	case 13, 14, 15:
		return genTemporal(r, "datetime")
	case 16, 17:
		return genTime(r)
	case 18:
		return genEnum(r)
	default:
		return genSet(r)
	}
}

func dateUs(y, m, d int) string {
	return fmt.Sprint(time.Date(y, time.Month(m), d, 0, 0, 0, 0, time.UTC).UnixMicro())
}

func main() {
	lib.Main("C28", func(c *lib.Ctx) {
		c.Header = "From Coq Require Import List NArith ZArith.\nImport ListNotations.\nFrom GMS Require Import Codec.C28Json.\nFrom GMS Require Import Codec.C28Wire Codec.C28Str Codec.C28Bin Codec.C28Meta Corr.C28.\nOpen Scope N_scope."
		c.CaseType = "C28.case"
		c.MismatchFn = "C28.mismatches"
		c.SetRule("values of every modelled type handed to Type.SQL: integers of all 10 width/sign combinations (type bounds, " +
			"powers of ten +-1, random magnitudes, out-of-type values showing the clamp), DECIMAL(p,s) with p 1..65, s 0..30 " +
			"(all nines, negative zero, positive exponents, fewer/more fraction digits than the scale, expression types), YEAR " +
			"(0, 1901..2155), BIT(1..64), DATE / DATETIME(0..6) over years -1..10000 incl. zero date, years below 1000, month " +
			"ends, Feb 29, fractional seconds at and below the precision, TIME over +-838:59:59 and beyond, ENUM/SET over a " +
			"pool of members incl. multi-byte and numeric names; plus rows through server+client (text and binary protocol). " +
			"A case is non-trivial when the value is storable (a fixpoint of Type.Convert): the predicate applies to those.")
		if c.ReplayFile != "" {
			var cs caseT
			lib.LoadReplay(c.ReplayFile, &cs)
			run(c, cs)
			return
		}
		corpus := []caseT{
			// known findings first
			{Kind: "year", Val: "0"},
			{Kind: "decimal", Col: true, P: 2, S: 2, Neg: true, Val: "99", Exp: -2},
			{Kind: "decimal", Col: true, P: 2, S: 2, Neg: true, Val: "0", Exp: -2},
			{Kind: "date", Val: dateUs(999, 12, 31)},
			{Kind: "datetime", P: 6, Val: dateUs(1, 1, 1)},
			{Kind: "enum", Names: []string{"a", "b"}, Val: "0"},
			{Kind: "datetime", P: 6, Val: "-62167219200000001"}, // -0001-12-31 23:59:59.999999, accepted by DATETIME(6)
			// boundaries
			{Kind: "int", Ty: "i8", Val: "-128"},
			{Kind: "int", Ty: "u24", Val: "16777215"},
			{Kind: "int", Ty: "u24", Val: "16777217"},
			{Kind: "int", Ty: "i64", Val: "-9223372036854775808"},
			{Kind: "int", Ty: "u64", Val: "18446744073709551615"},
			{Kind: "decimal", Col: true, P: 65, S: 30, Neg: true, Val: strings.Repeat("9", 65), Exp: -30},
			{Kind: "decimal", Col: true, P: 5, S: 2, Val: "5", Exp: 2},
			{Kind: "decimal", Col: true, P: 5, S: 2, Val: "1005", Exp: -3},
			{Kind: "decimal", Col: false, P: 5, S: 2, Val: "15", Exp: -1},
			{Kind: "date", Val: fmt.Sprint(zeroUs)},
			{Kind: "date", Val: dateUs(0, 1, 1)},
			{Kind: "date", Val: "-62169937160312244"}, // zero day + 13 h: truncated to the zero date
			{Kind: "date", Val: "-62169897600000001"}, // last microsecond of the zero day
			{Kind: "date", Val: fmt.Sprint(zeroUs - 1)},
			{Kind: "datetime", P: 0, Val: fmt.Sprint(zeroUs - 1)},
			{Kind: "datetime", P: 6, Val: fmt.Sprint(zeroUs + 1)},
			{Kind: "datetime", P: 3, Val: fmt.Sprint(zeroUs + 499)},
			{Kind: "date", Val: dateUs(9999, 12, 31)},
			{Kind: "datetime", P: 0, Val: fmt.Sprint(zeroUs)},
			{Kind: "datetime", P: 6, Val: fmt.Sprint(time.Date(9999, 12, 31, 23, 59, 59, 999999000, time.UTC).UnixMicro())},
			{Kind: "datetime", P: 0, Val: fmt.Sprint(time.Date(9999, 12, 31, 23, 59, 59, 999999000, time.UTC).UnixMicro())},
			{Kind: "datetime", P: 3, Val: fmt.Sprint(time.Date(2024, 2, 29, 1, 2, 3, 120000000, time.UTC).UnixMicro())},
			{Kind: "time", Val: "3020399000000"},
			{Kind: "time", Val: "-3020399000000"},
			{Kind: "time", Val: "-1"},
			{Kind: "time", Val: "360000000000"},   // 100:00:00
			{Kind: "time", Val: "-360000000000"},  // -100:00:00
			{Kind: "time", Val: "359999999999"},   // 99:59:59.999999
			{Kind: "time", Val: "-1234567890123"}, // -342:56:07.890123
			{Kind: "int", Ty: "u64", Val: "9223372036854775808"},
			{Kind: "int", Ty: "u64", Val: "9223372036854775807"},
			{Kind: "int", Ty: "u64", Val: "12345678901234567890"},
			{Kind: "str", Ty: "varchar", P: 2, Val: hex.EncodeToString([]byte("日本"))},
			{Kind: "str", Ty: "varchar", P: 2, Val: hex.EncodeToString([]byte("日本語"))},
			{Kind: "str", Ty: "varchar", P: 3, Val: hex.EncodeToString([]byte("😀😀😀"))},
			{Kind: "str", Ty: "varbinary", P: 4, Val: "ff61f09f"},
			{Kind: "str", Ty: "varbinary", P: 3, Val: "ff61f09f"},
			{Kind: "str", Ty: "text", Val: hex.EncodeToString([]byte("x y €"))},
			{Kind: "meta"},
			{Kind: "json", Doc: &jdoc{K: "int", I: "9007199254740993"}},
			{Kind: "json", Doc: &jdoc{K: "int", I: "18446744073709551615"}},
			{Kind: "json", Doc: &jdoc{K: "int", I: "-9223372036854775808"}},
			{Kind: "json", Doc: &jdoc{K: "str", S: hexOf("a\"b\\c\n日本\x01")}},
			{Kind: "json", Doc: &jdoc{K: "obj", O: []jmember{{hexOf("b"), &jdoc{K: "int", I: "1"}}, {hexOf("aa"), &jdoc{K: "arr", A: []*jdoc{{K: "null"}, {K: "str", S: hexOf("x")}}}}}}},
			{Kind: "str", Ty: "char", P: 3, Val: hex.EncodeToString([]byte("ab "))},
			{Kind: "str", Ty: "char", P: 3, Val: hex.EncodeToString([]byte("日本語"))},
			{Kind: "str", Ty: "binary", P: 4, Val: "6162"},
			{Kind: "str", Ty: "binary", P: 4, Val: "61620000"},
			{Kind: "str", Ty: "binary", P: 2, Val: "616263"},
			{Kind: "wireslow", P: 700},
			{Kind: "wireslow", P: 300},
			{Kind: "bit", P: 64, Val: "18446744073709551615"},
			{Kind: "bit", P: 9, Val: "257"},
			{Kind: "set", Names: []string{"a", "B", "日本", "x y", "2", "1"}, Val: "63"},
			{Kind: "enum", Names: []string{"a", "B", "日本", "x y", "2", "1"}, Val: "5"},
		}
		for _, cs := range corpus {
			run(c, cs)
		}
		// the wire findings (fractional seconds of TIMESTAMP(6) / TIME(6) lost over the binary protocol)
		run(c, caseT{Kind: "wire", Storable: true, Wire: &wireT{Vals: []string{"1", "1", "1", "1", "1", "1", "1", "1", "1", "1", "1.000", "1", "1",
			"'2024-01-02'", "'2024-01-02 03:04:05.5'", "'2024-01-02 03:04:05'", "'2024-01-02 03:04:05.25'", "'1990-01-11 12:37:38.190440'",
			"'769:53:03.209061'", "2024", "1", "1", "1", "'a'", "'a'", "'v'", "'c '", "'b'", "'b'", "'t'", "'[1, \"x\"]'"}}})
		nWire := c.N / 10
		for i := len(corpus); i < c.N-nWire; i++ {
			run(c, gen(c.R.Fork()))
		}
		wirePhase(c, nWire)
	})
}
