// Binary-protocol capture for C28: a recording TCP proxy sits between go-sql-driver and the real server.Server; the
// bytes of the binary row the server sends for a prepared SELECT are cut out of the packet stream and split into
// column values (widths by column type).  Each value is recorded for the Coq model of vitess's val2MySQL together with
// the text Type.SQL produced, and decoded here by an independent reader (encoding/binary, time) against the stored value.
package main

import (
	gosql "database/sql"
	"encoding/binary"
	"fmt"
	"net"
	"strings"
	"sync"
	"time"

	"github.com/dolthub/go-mysql-server/sql/types"

	"verifharness/lib"
)

type tap struct {
	mu  sync.Mutex
	buf []byte
	ln  net.Listener
}

func startTap(target string) *tap {
	ln, err := net.Listen("tcp", "127.0.0.1:0")
	if err != nil {
		panic(err)
	}
	t := &tap{ln: ln}
	go func() {
		for {
			c, err := ln.Accept()
			if err != nil {
				return
			}
			s, err := net.Dial("tcp", target)
			if err != nil {
				c.Close()
				continue
			}
			go func() { // client -> server
				b := make([]byte, 32768)
				for {
					n, err := c.Read(b)
					if n > 0 {
						s.Write(b[:n])
					}
					if err != nil {
						s.Close()
						return
					}
				}
			}()
			go func() { // server -> client, recorded before it is forwarded
				b := make([]byte, 32768)
				for {
					n, err := s.Read(b)
					if n > 0 {
						t.mu.Lock()
						t.buf = append(t.buf, b[:n]...)
						t.mu.Unlock()
						c.Write(b[:n])
					}
					if err != nil {
						c.Close()
						return
					}
				}
			}()
		}
	}()
	return t
}

func (t *tap) reset() {
	t.mu.Lock()
	t.buf = t.buf[:0]
	t.mu.Unlock()
}

func (t *tap) packets() [][]byte {
	t.mu.Lock()
	b := append([]byte{}, t.buf...)
	t.mu.Unlock()
	var out [][]byte
	for len(b) >= 4 {
		l := int(b[0]) | int(b[1])<<8 | int(b[2])<<16
		if len(b) < 4+l {
			break
		}
		out = append(out, b[4:4+l])
		b = b[4+l:]
	}
	return out
}

type binCap struct {
	t  *tap
	db *gosql.DB
	st *gosql.Stmt
}

func newBinCap(serverAddr string) *binCap {
	t := startTap(serverAddr)
	db, err := gosql.Open("mysql", fmt.Sprintf("root:@tcp(%s)/db?interpolateParams=false&timeout=30s&readTimeout=60s&writeTimeout=60s", t.ln.Addr().String()))
	if err != nil {
		panic(err)
	}
	db.SetMaxOpenConns(1)
	st, err := db.Prepare("SELECT * FROM w WHERE id = ?")
	if err != nil {
		panic(err)
	}
	if rows, err := st.Query(1); err == nil {
		rows.Close()
	}
	return &binCap{t: t, db: db, st: st}
}

func (b *binCap) close() {
	b.st.Close()
	b.db.Close()
	b.t.ln.Close()
}

// rowPayload executes the prepared SELECT for one id and returns the payload of the (single) binary row packet.
func (b *binCap) rowPayload(id int) ([]byte, error) {
	b.t.reset()
	rows, err := b.st.Query(id)
	if err != nil {
		return nil, err
	}
	n := 0
	for rows.Next() {
		n++
	}
	rows.Close()
	if n != 1 {
		return nil, fmt.Errorf("%d rows received", n)
	}
	ps := b.t.packets()
	if len(ps) < 3 || len(ps[0]) != 1 {
		return nil, fmt.Errorf("unexpected response: %d packets", len(ps))
	}
	idx := 1 + int(ps[0][0])
	if idx < len(ps) && len(ps[idx]) < 9 && len(ps[idx]) > 0 && ps[idx][0] == 0xfe {
		idx++ // EOF after the column definitions
	}
	if idx >= len(ps) || len(ps[idx]) == 0 || ps[idx][0] != 0x00 {
		return nil, fmt.Errorf("no binary row packet at position %d of %d", idx, len(ps))
	}
	return ps[idx], nil
}

// colKind: how a column of table w travels in a binary row.
func colKind(decl string) string {
	switch {
	case strings.Contains(decl, "INT"):
		return "int"
	case decl == "YEAR":
		return "year"
	case strings.HasPrefix(decl, "DATE"), strings.HasPrefix(decl, "TIMESTAMP"):
		return "datetime"
	case strings.HasPrefix(decl, "TIME"):
		return "time"
	}
	return "str"
}

var intDeclTy = map[string]string{"TINYINT": "i8", "TINYINT UNSIGNED": "u8", "SMALLINT": "i16", "SMALLINT UNSIGNED": "u16",
	"MEDIUMINT": "i24", "MEDIUMINT UNSIGNED": "u24", "INT": "i32", "INT UNSIGNED": "u32", "BIGINT": "i64", "BIGINT UNSIGNED": "u64"}

func lenencRead(b []byte) (val []byte, rest []byte, ok bool) {
	if len(b) == 0 {
		return nil, nil, false
	}
	l, hdr := 0, 1
	switch {
	case b[0] < 251:
		l = int(b[0])
	case b[0] == 0xfc && len(b) >= 3:
		l, hdr = int(binary.LittleEndian.Uint16(b[1:])), 3
	case b[0] == 0xfd && len(b) >= 4:
		l, hdr = int(b[1])|int(b[2])<<8|int(b[3])<<16, 4
	default:
		return nil, nil, false
	}
	if len(b) < hdr+l {
		return nil, nil, false
	}
	return b[:hdr+l], b[hdr+l:], true
}

// binaryRow compares one stored row with the binary row the server sent for it.
func (w *wireEnv) binaryRow(c *lib.Ctx, cs caseT, id int, stored []interface{}, schemaTypes []types2) {
	payload, err := w.cap.rowPayload(id)
	if err != nil {
		cid := c.CaseNoModel(cs, "")
		c.PredFail(cid, "wirebin/no-row", err.Error(), cs)
		return
	}
	ncols := len(wireCols) + 1
	nb := (ncols + 7 + 2) / 8
	if len(payload) < 1+nb {
		cid := c.CaseNoModel(cs, "")
		c.PredFail(cid, "wirebin/short-row", fmt.Sprintf("row of %d bytes", len(payload)), cs)
		return
	}
	bitmap, rest := payload[1:1+nb], payload[1+nb:]
	var items []string
	type failT struct{ sig, what string }
	var fails []failT
	for i := 0; i < ncols; i++ {
		isNull := bitmap[(i+2)/8]>>(uint(i+2)%8)&1 == 1
		name, decl := "id", "INT"
		if i > 0 {
			name, decl = wireCols[i-1].Name, wireCols[i-1].Decl
		}
		if isNull != (stored[i] == nil) {
			fails = append(fails, failT{"wirebin/" + name + "/null-mismatch", fmt.Sprintf("%s: stored %v, NULL bit %v", name, stored[i], isNull)})
			break
		}
		if isNull {
			continue
		}
		txt, ok, _ := sqlText(schemaTypes[i], stored[i])
		if !ok {
			break
		}
		var val []byte
		kind := colKind(decl)
		switch kind {
		case "int":
			wd := map[string]int{"i8": 1, "u8": 1, "i16": 2, "u16": 2, "i24": 4, "u24": 4, "i32": 4, "u32": 4, "i64": 8, "u64": 8}[intDeclTy[decl]]
			if len(rest) < wd {
				ok = false
			} else {
				val, rest = rest[:wd], rest[wd:]
			}
		case "year":
			if len(rest) < 2 {
				ok = false
			} else {
				val, rest = rest[:2], rest[2:]
			}
		case "datetime", "time":
			if len(rest) < 1 || len(rest) < 1+int(rest[0]) {
				ok = false
			} else {
				val, rest = rest[:1+int(rest[0])], rest[1+int(rest[0]):]
			}
		default:
			val, rest, ok = lenencRead(rest)
		}
		if !ok {
			fails = append(fails, failT{"wirebin/" + name + "/truncated", fmt.Sprintf("%s %s: row ends inside the value", name, decl)})
			break
		}
		// independent reading of the bytes
		good, denotes := true, ""
		switch kind {
		case "int", "year":
			pad := append(append([]byte{}, val...), make([]byte, 8)...)
			u := binary.LittleEndian.Uint64(pad[:8])
			var got string
			signed := kind == "year" || strings.HasPrefix(intDeclTy[decl], "i")
			if signed {
				sh := uint(64 - 8*len(val))
				got = fmt.Sprint(int64(u<<sh) >> sh)
			} else {
				got = fmt.Sprint(u)
			}
			good, denotes = got == fmt.Sprint(stored[i]), got
			if kind == "int" {
				items = append(items, fmt.Sprintf("BInt %s %s %s %s", ityByName(intDeclTy[decl]).Coq, lib.CoqZStr(fmt.Sprint(stored[i])), lib.CoqBytes(txt), lib.CoqBytes(val)))
			} else {
				items = append(items, fmt.Sprintf("BYear %s %s %s", lib.CoqZStr(fmt.Sprint(stored[i])), lib.CoqBytes(txt), lib.CoqBytes(val)))
			}
		case "datetime":
			tv := stored[i].(time.Time)
			var got time.Time
			switch len(val) {
			case 1:
				got = types.ZeroTime
			case 5, 8, 12:
				f := append(append([]byte{}, val[1:]...), make([]byte, 11)...)
				got = time.Date(int(binary.LittleEndian.Uint16(f)), time.Month(f[2]), int(f[3]), int(f[4]), int(f[5]), int(f[6]),
					int(binary.LittleEndian.Uint32(f[7:]))*1000, time.UTC)
			default:
				good = false
			}
			good, denotes = good && got.Equal(tv), got.String()
			items = append(items, fmt.Sprintf("BDT %s %s %s", lib.CoqZ(tv.UnixMicro()), lib.CoqBytes(txt), lib.CoqBytes(val)))
		case "time":
			x := int64(stored[i].(types.Timespan))
			var got int64
			switch len(val) {
			case 1:
			case 9, 13:
				f := append(append([]byte{}, val[1:]...), make([]byte, 12)...)
				got = ((int64(binary.LittleEndian.Uint32(f[1:]))*24+int64(f[5]))*60+int64(f[6]))*60 + int64(f[7])
				got = got*1000000 + int64(binary.LittleEndian.Uint32(f[8:]))
				if f[0] != 0 {
					got = -got
				}
			default:
				good = false
			}
			good, denotes = good && got == x, fmt.Sprintf("%d microseconds", got)
			items = append(items, fmt.Sprintf("BTime %s %s %s", lib.CoqZ(x), lib.CoqBytes(txt), lib.CoqBytes(val)))
		default:
			body := val[len(val)-len(txt):]
			good, denotes = len(val) >= len(txt) && string(body) == string(txt), fmt.Sprintf("%q", body)
			items = append(items, fmt.Sprintf("BStr %s %s", lib.CoqBytes(txt), lib.CoqBytes(val)))
		}
		if !good {
			fails = append(fails, failT{"wirebin/" + name + "/denotes-different-value",
				fmt.Sprintf("%s %s: stored %v, binary value % x denotes %s", name, decl, stored[i], val, denotes)})
		}
	}
	nulls := make([]string, ncols)
	for i := range nulls {
		nulls[i] = lib.CoqBool(stored[i] == nil)
	}
	cid := c.Case("CBinRow "+lib.CoqBytes(bitmap)+" "+lib.CoqList(nulls)+" "+lib.CoqList(items), cs, "wirebin|"+strings.Join(cs.Wire.Vals, "|"))
	c.Count("wire_binary_row_captured")
	c.PredChecked()
	for _, f := range fails {
		c.PredFail(cid, f.sig, f.what, cs)
	}
}

// ---------- column definitions ----------

type metaCol struct {
	Name, Decl, Coq string
	NotNull         bool
	Unsigned        bool
	Frac            int // fraction digits values of the type are printed with (-1: not applicable)
}

var metaCols = []metaCol{
	{"i8", "TINYINT", "TInt I8", false, false, -1}, {"u8", "TINYINT UNSIGNED", "TInt U8", true, true, -1},
	{"i16", "SMALLINT", "TInt I16", true, false, -1}, {"u16", "SMALLINT UNSIGNED", "TInt U16", false, true, -1},
	{"i24", "MEDIUMINT", "TInt I24", false, false, -1}, {"u24", "MEDIUMINT UNSIGNED", "TInt U24", true, true, -1},
	{"i32", "INT", "TInt I32", true, false, -1}, {"u32", "INT UNSIGNED", "TInt U32", false, true, -1},
	{"i64", "BIGINT", "TInt I64", false, false, -1}, {"u64", "BIGINT UNSIGNED", "TInt U64", false, true, -1},
	{"d1", "DECIMAL(10,3)", "TDecimal 10 3", false, false, 3}, {"d2", "DECIMAL(65,30)", "TDecimal 65 30", true, false, 30},
	{"d3", "DECIMAL(9,0)", "TDecimal 9 0", false, false, 0}, {"d4", "DECIMAL(5,5)", "TDecimal 5 5", false, false, 5},
	{"y", "YEAR", "TYear", false, false, -1}, {"yn", "YEAR", "TYear", true, false, -1},
	{"b1", "BIT(1)", "TBit 1", false, false, -1}, {"b64", "BIT(64)", "TBit 64", true, false, -1},
	{"dt", "DATE", "TDate", false, false, -1}, {"dtn", "DATE", "TDate", true, false, -1},
	{"ts0", "DATETIME", "TDatetime 0", false, false, 0}, {"ts3", "DATETIME(3)", "TDatetime 3", true, false, 3},
	{"ts6", "DATETIME(6)", "TDatetime 6", false, false, 6},
	{"tt0", "TIMESTAMP", "TTimestamp 0", false, false, 0}, {"tt6", "TIMESTAMP(6)", "TTimestamp 6", false, false, 6},
	{"tm", "TIME(6)", "TTime", false, false, 6}, {"tmn", "TIME(6)", "TTime", true, false, 6},
	{"en", "ENUM('a','B','x y')", "TEnum [[97];[66];[120;32;121]]", false, false, -1},
	{"enn", "ENUM('a','B','x y')", "TEnum [[97];[66];[120;32;121]]", true, false, -1},
	{"st", "SET('a','B','日本')", "TSet [[97];[66];[230;151;165;230;156;172]]", false, false, -1},
	{"vc", "VARCHAR(10)", "TStr (VarChar 10)", false, false, -1}, {"vcn", "VARCHAR(3)", "TStr (VarChar 3)", true, false, -1},
	{"vb", "VARBINARY(7)", "TStr (VarBinary 7)", false, false, -1}, {"vbn", "VARBINARY(7)", "TStr (VarBinary 7)", true, false, -1},
	{"tx", "TEXT", "TStr Text", false, false, -1}, {"ch", "CHAR(5)", "TStr (Char 5)", false, false, -1},
	{"bn", "BINARY(6)", "TStr (Binary 6)", false, false, -1},
}

type colDef struct {
	Name                          string
	Charset, Type, Flags, Decimal int
	Length                        uint32
}

func parseColDef(p []byte) (colDef, bool) {
	var d colDef
	for i := 0; i < 6; i++ {
		val, rest, ok := lenencRead(p)
		if !ok {
			return d, false
		}
		if i == 4 {
			d.Name = string(val[1:]) // names here are shorter than 251 bytes
		}
		p = rest
	}
	if len(p) < 13 || p[0] != 0x0c {
		return d, false
	}
	d.Charset = int(binary.LittleEndian.Uint16(p[1:]))
	d.Length = binary.LittleEndian.Uint32(p[3:])
	d.Type = int(p[7])
	d.Flags = int(binary.LittleEndian.Uint16(p[8:]))
	d.Decimal = int(p[10])
	return d, true
}

func runMeta(c *lib.Ctx, cs caseT) {
	w := newWireEnv()
	defer w.close()
	var decl []string
	for _, m := range metaCols {
		d := m.Name + " " + m.Decl
		if m.NotNull {
			d += " NOT NULL"
		}
		decl = append(decl, d)
	}
	w.s.MustExec("CREATE TABLE m (id INT PRIMARY KEY AUTO_INCREMENT, " + strings.Join(decl, ", ") + ")")
	w.cap.t.reset()
	rows, err := w.cap.db.Query("SELECT * FROM m")
	if err != nil {
		id := c.CaseNoModel(cs, "")
		c.PredFail(id, "meta/query-error", err.Error(), cs)
		return
	}
	for rows.Next() {
	}
	rows.Close()
	ps := w.cap.t.packets()
	n := len(metaCols) + 1
	if len(ps) < 1+n || len(ps[0]) != 1 || int(ps[0][0]) != n {
		id := c.CaseNoModel(cs, "")
		c.PredFail(id, "meta/unexpected-response", fmt.Sprintf("%d packets, first % x", len(ps), ps[0]), cs)
		return
	}
	var terms []string
	type failT struct{ sig, what string }
	var fails []failT
	for i := 0; i < n; i++ {
		d, ok := parseColDef(ps[1+i])
		m := metaCol{"id", "INT", "TInt I32", true, false, -1}
		pk, ai := true, true
		if i > 0 {
			m, pk, ai = metaCols[i-1], false, false
		}
		if !ok || d.Name != m.Name {
			fails = append(fails, failT{"meta/column-definition-unreadable", fmt.Sprintf("column %d (%s): % x", i, m.Name, ps[1+i])})
			continue
		}
		terms = append(terms, fmt.Sprintf("(%s, (%s, %s, %s), (%d%%Z, %d%%Z, %d%%Z, %d%%Z, %d%%Z))", m.Coq, lib.CoqBool(m.NotNull), lib.CoqBool(pk), lib.CoqBool(ai),
			d.Type, d.Flags, d.Decimal, d.Length, d.Charset))
		// independent expectations (MySQL semantics of the fields a client relies on)
		kind := strings.ToLower(strings.Fields(strings.Split(m.Decl, "(")[0])[0])
		if (d.Flags&1 != 0) != m.NotNull {
			fails = append(fails, failT{"meta/" + kind + "/not-null-flag", fmt.Sprintf("%s %s: NOT NULL declared %v, flags %#x", m.Name, m.Decl, m.NotNull, d.Flags)})
		}
		if strings.Contains(m.Decl, "INT") && (d.Flags&32 != 0) != m.Unsigned {
			fails = append(fails, failT{"meta/" + kind + "/unsigned-flag", fmt.Sprintf("%s %s: flags %#x", m.Name, m.Decl, d.Flags)})
		}
		if m.Frac >= 0 && d.Decimal != m.Frac {
			fails = append(fails, failT{"meta/" + kind + "/decimals-not-announced",
				fmt.Sprintf("%s %s: values carry %d fraction digits, the column definition announces decimals = %d", m.Name, m.Decl, m.Frac, d.Decimal)})
		}
	}
	id := c.Case("CMeta "+lib.CoqList(terms), cs, "meta")
	c.Count("column_definitions_captured")
	c.PredChecked()
	for _, f := range fails {
		c.PredFail(id, f.sig, f.what, cs)
	}
}
