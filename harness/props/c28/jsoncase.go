// JSON columns for C28: documents of null / booleans / exact integers / strings / arrays / objects are handed to
// JsonType.SQL; the text and JsonType.Convert(text) are recorded for the copied C32 document model and judged on the
// implementation alone (Compare = 0, and encoding/json with UseNumber as an independent reader of the text).
package main

import (
	"bytes"
	"encoding/json"
	"fmt"
	"math/big"
	"sort"
	"strings"

	"github.com/dolthub/go-mysql-server/sql"
	"github.com/dolthub/go-mysql-server/sql/types"

	"verifharness/lib"
)

// jdoc is the replayable form of a document.
type jdoc struct {
	K string    `json:"k"` // null | bool | int | str | arr | obj
	B bool      `json:"b,omitempty"`
	I string    `json:"i,omitempty"`
	S string    `json:"s,omitempty"` // hex
	A []*jdoc   `json:"a,omitempty"`
	O []jmember `json:"o,omitempty"`
}
type jmember struct {
	Key string `json:"key"` // hex
	V   *jdoc  `json:"v"`
}

func unhex(h string) string {
	var out []byte
	fmt.Sscanf(h, "%x", &out)
	return string(out)
}

func (d *jdoc) goVal() interface{} {
	switch d.K {
	case "null":
		return nil
	case "bool":
		return d.B
	case "int":
		z := bi(d.I)
		if z.IsInt64() {
			return z.Int64()
		}
		return z.Uint64()
	case "str":
		return unhex(d.S)
	case "arr":
		out := make([]interface{}, len(d.A))
		for i, x := range d.A {
			out[i] = x.goVal()
		}
		return out
	}
	m := map[string]interface{}{}
	for _, kv := range d.O {
		m[unhex(kv.Key)] = kv.V.goVal()
	}
	return m
}

func (d *jdoc) coq() string {
	switch d.K {
	case "null":
		return "JNull"
	case "bool":
		return "(JBool " + lib.CoqBool(d.B) + ")"
	case "int":
		return "(JInt " + lib.CoqZStr(d.I) + ")"
	case "str":
		return "(JStr " + lib.CoqStr(unhex(d.S)) + ")"
	case "arr":
		return "(JArr " + lib.CoqListOf(d.A, func(x *jdoc) string { return x.coq() }) + ")"
	}
	return "(JObj " + lib.CoqListOf(d.O, func(kv jmember) string { return "(" + lib.CoqStr(unhex(kv.Key)) + ", " + kv.V.coq() + ")" }) + ")"
}

// coqOfGo prints what Convert returned; ok=false for values outside the modelled fragment (fractions).
func coqOfGo(v interface{}) (string, bool) {
	switch x := v.(type) {
	case nil:
		return "JNull", true
	case bool:
		return "(JBool " + lib.CoqBool(x) + ")", true
	case int64:
		return "(JInt " + lib.CoqZ(x) + ")", true
	case uint64:
		return "(JInt " + lib.CoqZStr(fmt.Sprint(x)) + ")", true
	case float64:
		f := new(big.Float).SetFloat64(x)
		if !f.IsInt() {
			return "", false
		}
		z, _ := f.Int(nil)
		return "(JInt " + lib.CoqZStr(z.String()) + ")", true
	case string:
		return "(JStr " + lib.CoqStr(x) + ")", true
	case []interface{}:
		items := make([]string, len(x))
		for i, e := range x {
			s, ok := coqOfGo(e)
			if !ok {
				return "", false
			}
			items[i] = s
		}
		return "(JArr " + lib.CoqList(items) + ")", true
	case map[string]interface{}:
		keys := make([]string, 0, len(x))
		for k := range x {
			keys = append(keys, k)
		}
		sort.Strings(keys)
		items := make([]string, len(keys))
		for i, k := range keys {
			s, ok := coqOfGo(x[k])
			if !ok {
				return "", false
			}
			items[i] = "(" + lib.CoqStr(k) + ", " + s + ")"
		}
		return "(JObj " + lib.CoqList(items) + ")", true
	}
	return "", false
}

// sameJSON: independent comparison of what encoding/json (UseNumber) reads from the text with the document.
func sameJSON(a interface{}, d *jdoc) bool {
	switch d.K {
	case "null":
		return a == nil
	case "bool":
		b, ok := a.(bool)
		return ok && b == d.B
	case "int":
		n, ok := a.(json.Number)
		if !ok {
			return false
		}
		z, ok := new(big.Int).SetString(n.String(), 10)
		return ok && z.Cmp(bi(d.I)) == 0
	case "str":
		s, ok := a.(string)
		return ok && s == unhex(d.S)
	case "arr":
		l, ok := a.([]interface{})
		if !ok || len(l) != len(d.A) {
			return false
		}
		for i := range l {
			if !sameJSON(l[i], d.A[i]) {
				return false
			}
		}
		return true
	}
	m, ok := a.(map[string]interface{})
	want := d.goVal().(map[string]interface{})
	if !ok || len(m) != len(want) {
		return false
	}
	last := map[string]*jdoc{} // a Go map keeps the last binding of a repeated key
	for _, kv := range d.O {
		last[unhex(kv.Key)] = kv.V
	}
	for k, v := range last {
		x, ok := m[k]
		if !ok || !sameJSON(x, v) {
			return false
		}
	}
	return true
}

func runJSON(c *lib.Ctx, cs caseT) {
	d := cs.Doc
	t := types.JSON
	doc := types.JSONDocument{Val: d.goVal()}
	cs.Storable = true
	txt, ok, err := sqlText(t, doc)
	if !ok {
		id := c.CaseNoModel(cs, "")
		c.PredFail(id, "json/sql-error", fmt.Sprintf("json.SQL(%s): %v", d.coq(), err), cs)
		return
	}
	back, _, cerr := t.Convert(ctx, string(txt))
	backTerm, modelled := "None", true
	if cerr == nil {
		var bv interface{}
		if w, ok := back.(sql.JSONWrapper); ok {
			bv, _ = w.ToInterface(ctx)
		}
		var s string
		s, modelled = coqOfGo(bv)
		backTerm = "(Some " + s + ")"
	}
	key := "json|" + d.coq()
	var id int
	if modelled {
		id = c.Case(fmt.Sprintf("CJson %s %s %s", d.coq(), lib.CoqBytes(txt), backTerm), cs, key)
	} else {
		id = c.CaseNoModel(cs, key)
	}
	c.Count("json_" + d.K)
	c.PredChecked()
	if cerr != nil {
		c.PredFail(id, "json/"+d.K+"/text-not-convertible", fmt.Sprintf("json %s: Convert(%q) fails: %v", d.coq(), txt, cerr), cs)
		return
	}
	if cmp, err := t.Compare(ctx, back, doc); err != nil || cmp != 0 {
		c.PredFail(id, "json/"+d.K+"/reads-back-different", fmt.Sprintf("json document sent as %q converts back to a different document (Compare=%d, err=%v)", txt, cmp, err), cs)
	}
	dec := json.NewDecoder(bytes.NewReader(txt))
	dec.UseNumber()
	var iv interface{}
	if err := dec.Decode(&iv); err != nil || !sameJSON(iv, d) {
		c.PredFail(id, "json/"+d.K+"/text-denotes-different-value", fmt.Sprintf("json document %s is sent as %q (encoding/json: %v, %v)", d.coq(), txt, iv, err), cs)
	}
	if max := t.MaxTextResponseByteLength(ctx); uint64(len(txt)) > uint64(max) {
		c.PredFail(id, "json/text-longer-than-announced", fmt.Sprintf("%d bytes, announced %d", len(txt), max), cs)
	}
}

var jsonStrPool = []string{"", "a", "b", "ab", "key", "日本", "é", "\"", "\\", "/", "\n", "\t", "\x01", "\x1f", "\x7f", "😀", "a b", "10", "A"}

func hexOf(s string) string { return fmt.Sprintf("%x", s) }

func genDoc(r *lib.RNG, depth int) *jdoc {
	k := r.Intn(10)
	if depth >= 2 && k >= 7 {
		k = r.Intn(7)
	}
	switch {
	case k == 0:
		return &jdoc{K: "null"}
	case k == 1:
		return &jdoc{K: "bool", B: r.Bool()}
	case k <= 3:
		return &jdoc{K: "int", I: genInt(r).Val}
	case k <= 6:
		n := r.Intn(4)
		var sb strings.Builder
		for i := 0; i < n; i++ {
			sb.WriteString(lib.Pick(r, jsonStrPool))
		}
		return &jdoc{K: "str", S: hexOf(sb.String())}
	case k <= 8:
		d := &jdoc{K: "arr", A: []*jdoc{}}
		for i := r.Intn(4); i > 0; i-- {
			d.A = append(d.A, genDoc(r, depth+1))
		}
		return d
	}
	d := &jdoc{K: "obj", O: []jmember{}}
	seen := map[string]bool{}
	for i := r.Intn(4); i > 0; i-- {
		key := lib.Pick(r, jsonStrPool) + lib.Pick(r, jsonStrPool)
		if seen[key] {
			continue
		}
		seen[key] = true
		d.O = append(d.O, jmember{Key: hexOf(key), V: genDoc(r, depth+1)})
	}
	return d
}

func genJSON(r *lib.RNG) caseT { return caseT{Kind: "json", Doc: genDoc(r, 0)} }
