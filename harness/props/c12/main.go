// Driver for C12 (prepared statements behave like the inlined statement text).
// A case is a history over one table: a parameterised statement is executed repeatedly with generated values,
// interleaved with plain DML / ALTER statements, in three engines that start from the same data:
//   api  : Engine.QueryWithBindings(query with ?, bindings built as the server does: querypb.BindVariable ->
//          sqltypes.BindVariableToValue -> sqlparser.ExprFromValue), same session (prepared AST cached in it)
//   sql  : PREPARE s FROM '...' once, then SET @pN = literal; EXECUTE s USING @p1, ...
//   text : the statement text with the values written as literals
// Predicate (implementation alone): after every step the three engines agree on result rows / error kind and on the
// table contents.  For the integer fragment the api result is also compared with the Coq model (Corr/C12.v).
package main

import (
	"context"
	"fmt"
	"io"
	"strings"

	"github.com/dolthub/vitess/go/sqltypes"
	querypb "github.com/dolthub/vitess/go/vt/proto/query"
	"github.com/dolthub/vitess/go/vt/sqlparser"

	"github.com/dolthub/go-mysql-server/sql"

	"verifharness/lib"
	"verifharness/lib/eng"
)

// ---------- values ----------

type param struct {
	Type string `json:"type"` // int, uint, str, null, dec
	Text string `json:"text"` // decimal digits / raw string / decimal text
}

func (p param) literal() string {
	switch p.Type {
	case "null":
		return "NULL"
	case "str":
		r := strings.NewReplacer(`\`, `\\`, `'`, `''`)
		return "'" + r.Replace(p.Text) + "'"
	default:
		return p.Text
	}
}

func (p param) bindExpr() (sqlparser.Expr, error) {
	var bv *querypb.BindVariable
	switch p.Type {
	case "null":
		bv = sqltypes.NullBindVariable
	case "int":
		bv = &querypb.BindVariable{Type: querypb.Type_INT64, Value: []byte(p.Text)}
	case "uint":
		bv = &querypb.BindVariable{Type: querypb.Type_UINT64, Value: []byte(p.Text)}
	case "dec":
		bv = &querypb.BindVariable{Type: querypb.Type_DECIMAL, Value: []byte(p.Text)}
	default:
		bv = &querypb.BindVariable{Type: querypb.Type_VARCHAR, Value: []byte(p.Text)}
	}
	v, err := sqltypes.BindVariableToValue(bv)
	if err != nil {
		return nil, err
	}
	return sqlparser.ExprFromValue(v)
}

func (p param) coq() string {
	if p.Type == "null" {
		return "VNull"
	}
	if strings.HasPrefix(p.Text, "-") {
		return "(VInt (" + p.Text + ")%Z)"
	}
	return "(VInt " + p.Text + "%Z)"
}

// ---------- case ----------

type tmplJ struct {
	Kind     string `json:"kind"`
	SQL      string `json:"sql"`
	CoqProj  string `json:"coq_proj,omitempty"`
	CoqWhere string `json:"coq_where,omitempty"`
}

type stepT struct {
	T      int     `json:"t,omitempty"`      // which statement of the session: 0 = Template, k = More[k-1]
	Params []param `json:"params,omitempty"` // an execution of the prepared statement
	Other  string  `json:"other,omitempty"`  // or a plain statement run in all three engines
}

type caseT struct {
	Kind     string   `json:"kind"`     // template class
	Template string   `json:"template"` // SQL with ? holes
	Setup    []string `json:"setup"`
	Steps    []stepT  `json:"steps"`
	CoqProj  string   `json:"coq_proj,omitempty"` // model terms for the integer fragment
	CoqWhere string   `json:"coq_where,omitempty"`
	More     []tmplJ  `json:"more,omitempty"` // further statements prepared and executed in the same session
}

func (c *caseT) tmpl(k int) tmplJ {
	if k == 0 {
		return tmplJ{Kind: c.Kind, SQL: c.Template, CoqProj: c.CoqProj, CoqWhere: c.CoqWhere}
	}
	return c.More[k-1]
}

const hole = "?"

func inline(tmpl string, ps []param) string {
	var sb strings.Builder
	k := 0
	for i := 0; i < len(tmpl); i++ {
		if tmpl[i] == '?' && k < len(ps) {
			sb.WriteString(ps[k].literal())
			k++
		} else {
			sb.WriteByte(tmpl[i])
		}
	}
	return sb.String()
}

// ---------- generator ----------

func smallInt(r *lib.RNG) param {
	if r.Chance(1, 7) {
		return param{Type: "null"}
	}
	return param{Type: "int", Text: fmt.Sprint(r.Range(-2, 6))}
}

var strPool = []string{"", "a", "A", "X", "x", "ab", "a'b", `a\b`, "a%", "%", "_b", "é", "日本", "x y", "NULL", "1", " 1", "0x41", "a\"b"}

func anyParam(r *lib.RNG, want string) param {
	if r.Chance(1, 8) {
		return param{Type: "null"}
	}
	switch want {
	case "int":
		switch r.Intn(8) {
		case 0:
			return param{Type: "int", Text: lib.Pick(r, []string{"9223372036854775807", "-9223372036854775808", "2147483647", "-2147483648", "2147483648"})}
		case 1:
			return param{Type: "uint", Text: lib.Pick(r, []string{"18446744073709551615", "9223372036854775808", "3"})}
		case 2:
			return param{Type: "dec", Text: lib.Pick(r, []string{"1.50", "2.00", "0.5", "-1.25", "3"})}
		case 3:
			return param{Type: "str", Text: lib.Pick(r, []string{"1", "2", " 3", "1a", "", "abc"})}
		default:
			return param{Type: "int", Text: fmt.Sprint(r.Range(-3, 8))}
		}
	case "dec":
		return param{Type: "dec", Text: lib.Pick(r, []string{"1.50", "2.00", "0.5", "-1.25", "10.10", "0.00", "99999999.99"})}
	default:
		if r.Chance(1, 6) {
			return param{Type: "int", Text: fmt.Sprint(r.Range(0, 3))}
		}
		return param{Type: "str", Text: lib.Pick(r, strPool)}
	}
}

// integer-fragment expression: returns SQL (with ?), Coq term, and appends the hole kinds
type gctx struct {
	r     *lib.RNG
	holes int
}

func (g *gctx) operand() (string, string) {
	switch g.r.Intn(6) {
	case 0:
		return "a", "(Col 0)"
	case 1, 2:
		return "b", "(Col 1)"
	case 3:
		v := smallInt(g.r)
		if v.Type == "null" {
			return "NULL", "(Lit VNull)"
		}
		return v.Text, "(Lit " + v.coq() + ")"
	default:
		k := g.holes
		g.holes++
		return hole, fmt.Sprintf("(Bind %d)", k)
	}
}

func (g *gctx) term() (string, string) {
	s, c := g.operand()
	if g.r.Chance(1, 4) {
		s2, c2 := g.operand()
		if g.r.Bool() {
			return "(" + s + " + " + s2 + ")", "(Add " + c + " " + c2 + ")"
		}
		return "(" + s + " - " + s2 + ")", "(Sub " + c + " " + c2 + ")"
	}
	return s, c
}

func (g *gctx) pred(depth int) (string, string) {
	if depth > 0 && g.r.Chance(1, 3) {
		s1, c1 := g.pred(depth - 1)
		k := g.r.Intn(3)
		if k == 2 {
			return "(NOT " + s1 + ")", "(Not " + c1 + ")"
		}
		s2, c2 := g.pred(depth - 1)
		if k == 0 {
			return "(" + s1 + " AND " + s2 + ")", "(And " + c1 + " " + c2 + ")"
		}
		return "(" + s1 + " OR " + s2 + ")", "(Or " + c1 + " " + c2 + ")"
	}
	switch g.r.Intn(8) {
	case 0:
		s, c := g.term()
		return "(" + s + " IS NULL)", "(IsNull " + c + ")"
	case 1:
		s, c := g.term()
		n := g.r.Range(1, 3)
		var ss, cs []string
		for i := 0; i < n; i++ {
			switch g.r.Intn(3) {
			case 0:
				v := smallInt(g.r)
				ss = append(ss, v.literal())
				cs = append(cs, "ALit "+v.coq())
			default:
				ss = append(ss, hole)
				cs = append(cs, fmt.Sprintf("ABind %d", g.holes))
				g.holes++
			}
		}
		return "(" + s + " IN (" + strings.Join(ss, ", ") + "))", "(InList " + c + " [" + strings.Join(cs, "; ") + "])"
	case 2:
		s, c := g.term()
		l, cl := g.term()
		h, ch := g.term()
		return "(" + s + " BETWEEN " + l + " AND " + h + ")", "(Between " + c + " " + cl + " " + ch + ")"
	case 3:
		s1, c1 := g.term()
		s2, c2 := g.term()
		return "(" + s1 + " <=> " + s2 + ")", "(NsEq " + c1 + " " + c2 + ")"
	case 4:
		s1, c1 := g.term()
		s2, c2 := g.term()
		return "(" + s1 + " < " + s2 + ")", "(Lt " + c1 + " " + c2 + ")"
	case 5:
		s1, c1 := g.term()
		s2, c2 := g.term()
		return "(" + s1 + " <= " + s2 + ")", "(Le " + c1 + " " + c2 + ")"
	default:
		s1, c1 := g.term()
		s2, c2 := g.term()
		return "(" + s1 + " = " + s2 + ")", "(Eq " + c1 + " " + c2 + ")"
	}
}

type tmplT struct {
	kind  string
	sql   string
	types []string // wanted type per hole
	coqP  string
	coqW  string
}

func genTemplate(r *lib.RNG) tmplT {
	switch r.Intn(12) {
	case 0, 1, 2, 3: // modelled integer fragment
		for {
			g := &gctx{r: r}
			proj, cproj := []string{"a", "b"}, []string{"(Col 0)", "(Col 1)"}
			if r.Chance(1, 3) {
				s, c := g.term()
				proj = append(proj, s)
				cproj = append(cproj, c)
			}
			w, cw := g.pred(2)
			if g.holes == 0 {
				continue
			}
			ts := make([]string, g.holes)
			for i := range ts {
				ts[i] = "small"
			}
			return tmplT{kind: "select-int", sql: "SELECT " + strings.Join(proj, ", ") + " FROM t WHERE " + w, types: ts,
				coqP: "[" + strings.Join(cproj, "; ") + "]", coqW: cw}
		}
	case 4:
		return lib.Pick(r, []tmplT{
			{kind: "select-str", sql: "SELECT a, c FROM t WHERE c = ?", types: []string{"str"}},
			{kind: "select-str", sql: "SELECT a, c FROM t WHERE c LIKE ?", types: []string{"str"}},
			{kind: "select-str", sql: "SELECT a, CONCAT(c, ?) FROM t WHERE c <> ? OR c IS NULL", types: []string{"str", "str"}},
			{kind: "select-str", sql: "SELECT a FROM t WHERE c IN (?, ?)", types: []string{"str", "str"}},
			{kind: "select-str", sql: "SELECT a, COALESCE(c, ?) FROM t", types: []string{"str"}},
		})
	case 5:
		return lib.Pick(r, []tmplT{
			{kind: "select-dec", sql: "SELECT a, d FROM t WHERE d > ?", types: []string{"dec"}},
			{kind: "select-dec", sql: "SELECT a, d + ? FROM t WHERE d = ?", types: []string{"dec", "dec"}},
			{kind: "select-mixed", sql: "SELECT a FROM t WHERE b = ?", types: []string{"int"}},
			{kind: "select-mixed", sql: "SELECT a, b * ? FROM t WHERE b < ?", types: []string{"int", "int"}},
			{kind: "select-mixed", sql: "SELECT a FROM t WHERE a = ? OR b = ?", types: []string{"int", "int"}},
		})
	case 6:
		return lib.Pick(r, []tmplT{
			{kind: "select-noholes-in-where", sql: "SELECT ?, ? FROM t WHERE a = 1", types: []string{"int", "str"}},
			{kind: "select-limit", sql: "SELECT a FROM t ORDER BY a LIMIT ?", types: []string{"limit"}},
			{kind: "select-star", sql: "SELECT * FROM t WHERE a = ?", types: []string{"int"}},
			{kind: "select-star", sql: "SELECT * FROM t WHERE b >= ? ORDER BY a", types: []string{"int"}},
			{kind: "select-agg", sql: "SELECT COUNT(*), SUM(b + ?) FROM t WHERE b <> ?", types: []string{"small", "small"}},
			{kind: "select-sub", sql: "SELECT a FROM t WHERE b IN (SELECT b FROM t WHERE a > ?)", types: []string{"small"}},
		})
	case 7, 8:
		return tmplT{kind: "insert", sql: "INSERT INTO t (a, b, c, d) VALUES (?, ?, ?, ?)", types: []string{"key", "int", "str", "dec"}}
	case 9:
		return lib.Pick(r, []tmplT{
			{kind: "update", sql: "UPDATE t SET b = ?, c = ? WHERE a = ?", types: []string{"int", "str", "key"}},
			{kind: "update", sql: "UPDATE t SET b = b + ? WHERE b < ?", types: []string{"small", "small"}},
			{kind: "update", sql: "UPDATE t SET d = ? WHERE a >= ?", types: []string{"dec", "key"}},
		})
	default:
		return lib.Pick(r, []tmplT{
			{kind: "delete", sql: "DELETE FROM t WHERE a = ?", types: []string{"key"}},
			{kind: "delete", sql: "DELETE FROM t WHERE b IN (?, ?)", types: []string{"small", "small"}},
			{kind: "delete", sql: "DELETE FROM t WHERE c = ? OR b > ?", types: []string{"str", "small"}},
		})
	}
}

func genParam(r *lib.RNG, want string) param {
	switch want {
	case "small":
		return smallInt(r)
	case "key":
		return param{Type: "int", Text: fmt.Sprint(r.Range(0, 12))}
	case "limit":
		return param{Type: "int", Text: fmt.Sprint(r.Range(0, 4))}
	default:
		return anyParam(r, want)
	}
}

// casePairs: two statement texts that differ only in letter case (inside a literal, an alias, a keyword or a
// column name); both are prepared / executed in the same session
func casePair(r *lib.RNG) (tmplT, tmplT) {
	type pr struct {
		kind, a, b string
		types      []string
	}
	p := lib.Pick(r, []pr{
		{"select-case-literal", "SELECT a, 'Total' FROM t WHERE b = ?", "SELECT a, 'TOTAL' FROM t WHERE b = ?", []string{"small"}},
		{"select-case-literal", "SELECT a, c FROM t WHERE c = 'X' OR b = ?", "SELECT a, c FROM t WHERE c = 'x' OR b = ?", []string{"small"}},
		{"select-case-literal", "SELECT a, CONCAT(c, 'Ab') FROM t WHERE a >= ?", "SELECT a, CONCAT(c, 'aB') FROM t WHERE a >= ?", []string{"key"}},
		{"select-case-alias", "SELECT a, b AS Total FROM t WHERE a > ?", "SELECT a, b AS TOTAL FROM t WHERE a > ?", []string{"key"}},
		{"select-case-keyword", "select a from t where b = ?", "SELECT a FROM t WHERE b = ?", []string{"small"}},
		{"update-case-literal", "UPDATE t SET c = 'Ab' WHERE a = ?", "UPDATE t SET c = 'AB' WHERE a = ?", []string{"key"}},
		{"insert-case-literal", "INSERT INTO t (a, b, c, d) VALUES (?, ?, 'k', 1.50)", "INSERT INTO t (a, b, c, d) VALUES (?, ?, 'K', 1.50)", []string{"key", "small"}},
		{"delete-case-literal", "DELETE FROM t WHERE c = 'a' AND a > ?", "DELETE FROM t WHERE c = 'A' AND a > ?", []string{"key"}},
	})
	x, y := tmplT{kind: p.kind, sql: p.a, types: p.types}, tmplT{kind: p.kind, sql: p.b, types: p.types}
	if r.Bool() {
		return y, x
	}
	return x, y
}

// manyHoles: statements with 10-15 placeholders whose values must not be permuted
func manyHoles(r *lib.RNG) tmplT {
	n := r.Range(10, 15)
	q := strings.TrimSuffix(strings.Repeat("?, ", n), ", ")
	distinct := func(k int) []string {
		ts := make([]string, k)
		for i := range ts {
			ts[i] = "distinct"
		}
		return ts
	}
	switch r.Intn(5) {
	case 0:
		return tmplT{kind: "select-many-holes", sql: "SELECT " + q, types: distinct(n)}
	case 1: // modelled: the holes are projected
		cp := []string{"(Col 0)"}
		for i := 0; i < n-1; i++ {
			cp = append(cp, fmt.Sprintf("(Bind %d)", i))
		}
		return tmplT{kind: "select-int", sql: "SELECT a, " + strings.TrimSuffix(strings.Repeat("?, ", n-1), ", ") + " FROM t WHERE (a <= ?)",
			types: append(distinct(n-1), "key"), coqP: "[" + strings.Join(cp, "; ") + "]", coqW: fmt.Sprintf("(Le (Col 0) (Bind %d))", n-1)}
	case 2:
		k := n / 2
		var parts []string
		for i := 0; i < k; i++ {
			parts = append(parts, "(a = ? AND b = ?)")
		}
		ts := make([]string, 2*k)
		for i := range ts {
			ts[i] = []string{"key", "small"}[i%2]
		}
		return tmplT{kind: "select-many-holes", sql: "SELECT a, b FROM t WHERE " + strings.Join(parts, " OR "), types: ts}
	case 3:
		return tmplT{kind: "insert-many-holes", sql: "INSERT INTO t (a, b, c, d) VALUES (?, ?, ?, ?), (?, ?, ?, ?), (?, ?, ?, ?)",
			types: []string{"key1", "small", "str", "dec", "key2", "small", "str", "dec", "key3", "small", "str", "dec"}}
	default:
		return tmplT{kind: "update-many-holes", sql: "UPDATE t SET b = ? + ? + ? + ? + ?, c = CONCAT(?, ?, ?) WHERE a IN (?, ?) OR b = ?",
			types: []string{"distinct", "distinct", "distinct", "distinct", "distinct", "str", "str", "str", "key", "key", "small"}}
	}
}

func gen(r *lib.RNG) caseT {
	var ts []tmplT
	switch r.Intn(6) {
	case 0, 1: // one statement
		ts = []tmplT{genTemplate(r)}
	case 2: // near-duplicate texts in one session, maybe with a third statement
		x, y := casePair(r)
		ts = []tmplT{x, y}
		if r.Bool() {
			ts = append(ts, genTemplate(r))
		}
	case 3:
		ts = []tmplT{manyHoles(r)}
		if r.Bool() {
			ts = append(ts, genTemplate(r))
		}
	default: // several different statements interleaved
		for i, n := 0, r.Range(2, 3); i < n; i++ {
			if r.Chance(1, 5) {
				ts = append(ts, manyHoles(r))
			} else {
				ts = append(ts, genTemplate(r))
			}
		}
	}
	t := ts[0]
	c := caseT{Kind: t.kind, Template: t.sql, CoqProj: t.coqP, CoqWhere: t.coqW}
	modelled, hasInsert := false, false
	for i, x := range ts {
		if i > 0 {
			c.More = append(c.More, tmplJ{Kind: x.kind, SQL: x.sql, CoqProj: x.coqP, CoqWhere: x.coqW})
		}
		modelled = modelled || x.kind == "select-int"
		hasInsert = hasInsert || strings.HasPrefix(x.kind, "insert")
	}
	c.Setup = []string{"CREATE TABLE t (a INT PRIMARY KEY, b INT, c VARCHAR(20), d DECIMAL(10,2))"}
	n := r.Range(0, 6)
	var vs []string
	for i := 0; i < n; i++ {
		vs = append(vs, fmt.Sprintf("(%d, %s, %s, %s)", i+1, smallInt(r).literal(),
			anyParam(r, "str").literal(), lib.Pick(r, []string{"NULL", "1.50", "2.00", "0.50", "-1.25"})))
	}
	if n > 0 {
		c.Setup = append(c.Setup, "INSERT INTO t VALUES "+strings.Join(vs, ", "))
	}
	ns := r.Range(2, 5) + 2*(len(ts)-1)
	altered := false
	for i := 0; i < ns; i++ {
		if i > 0 && r.Chance(1, 3) {
			var o string
			switch r.Intn(7) {
			case 0:
				o = fmt.Sprintf("INSERT INTO t (a, b, c, d) VALUES (%d, %s, 'n', 2.00)", 20+i, smallInt(r).literal())
			case 1:
				o = fmt.Sprintf("DELETE FROM t WHERE a = %d", r.Range(1, 6))
			case 2:
				o = fmt.Sprintf("UPDATE t SET b = %s WHERE a = %d", smallInt(r).literal(), r.Range(1, 6))
			case 3:
				if !altered && !modelled && !hasInsert {
					o = "ALTER TABLE t ADD COLUMN e INT DEFAULT 7"
					altered = true
				} else {
					o = "CREATE INDEX ib ON t (b)"
				}
			case 4:
				o = "CREATE INDEX ibc ON t (b, c)"
			case 5:
				if !modelled {
					o = "ALTER TABLE t MODIFY b BIGINT"
				} else {
					o = "CREATE INDEX ic ON t (c)"
				}
			default:
				o = "ALTER TABLE t MODIFY c VARCHAR(30)"
			}
			c.Steps = append(c.Steps, stepT{Other: o})
		}
		k := r.Intn(len(ts))
		if i < len(ts) { // every statement is executed at least once, in order, before the random interleaving
			k = i
		}
		ps := make([]param, len(ts[k].types))
		base := 100 + 20*r.Intn(4)
		for j, w := range ts[k].types {
			switch w {
			case "distinct":
				ps[j] = param{Type: "int", Text: fmt.Sprint(base + 3*j + r.Intn(3))}
			case "key1", "key2", "key3":
				ps[j] = param{Type: "int", Text: fmt.Sprint(30 + 10*i + int(w[3]-'0'))}
			default:
				ps[j] = genParam(r, w)
			}
		}
		c.Steps = append(c.Steps, stepT{T: k, Params: ps})
	}
	return c
}

// ---------- execution ----------

type obs struct {
	rows []string
	err  string
}

func (o obs) String() string { return fmt.Sprintf("%v %s", o.rows, o.err) }

func toObs(r eng.Result) obs {
	o := obs{rows: eng.Bag(r.Rows)}
	if r.Err != nil {
		o.err = eng.ErrKind(r.Err)
		o.rows = nil
	}
	return o
}

func queryWithBindings(s *eng.S, q string, ps []param) (res eng.Result) {
	defer func() {
		if r := recover(); r != nil {
			res.Panic = fmt.Sprint(r)
			res.Err = fmt.Errorf("panic: %v", r)
		}
	}()
	bindings := map[string]sqlparser.Expr{}
	for i, p := range ps {
		e, err := p.bindExpr()
		if err != nil {
			res.Err = err
			return
		}
		bindings[fmt.Sprintf("v%d", i+1)] = e
	}
	ctx := sql.NewContext(context.Background(), sql.WithSession(s.Ctx.Session))
	ctx.SetCurrentDatabase(s.Ctx.GetCurrentDatabase())
	sch, iter, _, err := s.E.Engine.QueryWithBindings(ctx, q, nil, bindings, nil)
	if err != nil {
		res.Err = err
		return
	}
	res.Schema = sch
	for {
		row, err := iter.Next(ctx)
		if err == io.EOF {
			break
		}
		if err != nil {
			res.Err = err
			iter.Close(ctx)
			return
		}
		res.Rows = append(res.Rows, row.Copy())
	}
	if err := iter.Close(ctx); err != nil {
		res.Err = err
	}
	return
}

func same(a, b obs) bool { return a.err == b.err && strings.Join(a.rows, "\n") == strings.Join(b.rows, "\n") }

func paramTypes(ps []param) string {
	m := map[string]bool{}
	for _, p := range ps {
		m[p.Type] = true
	}
	return strings.Join(lib.SortedKeys(m), "+")
}

func run(c *lib.Ctx, cs caseT) {
	var ss [3]*eng.S
	for i := range ss {
		ss[i] = eng.New("db").Session()
		for _, st := range cs.Setup {
			if r := ss[i].Query(st); r.Err != nil {
				c.CaseNoModel(cs, "")
				c.Count("setup-error")
				return
			}
		}
	}
	preps := make([]eng.Result, 1+len(cs.More))
	caseVariant := false
	for k := range preps {
		preps[k] = ss[1].Query(fmt.Sprintf("PREPARE s%d FROM '%s'", k, strings.ReplaceAll(cs.tmpl(k).SQL, "'", "''")))
		for j := 0; j < k; j++ {
			if cs.tmpl(j).SQL != cs.tmpl(k).SQL && strings.EqualFold(cs.tmpl(j).SQL, cs.tmpl(k).SQL) {
				caseVariant = true
			}
		}
	}
	if len(cs.More) > 0 {
		c.Count(fmt.Sprintf("statements-in-session=%d", 1+len(cs.More)))
	}
	if caseVariant {
		c.Count("session-with-texts-differing-only-in-case")
	}
	id := -1
	failed := false
	afterDDL := false
	nexec := 0
	for si, st := range cs.Steps {
		if st.Other != "" {
			for i := range ss {
				ss[i].Query(st.Other)
			}
			if strings.HasPrefix(st.Other, "ALTER") || strings.HasPrefix(st.Other, "CREATE") {
				afterDDL = true
			}
			c.Count("other:" + strings.SplitN(st.Other, " ", 2)[0])
			continue
		}
		nexec++
		tm := cs.tmpl(st.T)
		prep := preps[st.T]
		c.Count("kind:" + tm.Kind)
		if len(st.Params) >= 10 {
			c.Count("executions-with-10+-params")
		}
		// table before the step, for the model
		before := ss[0].Query("SELECT a, b FROM t ORDER BY a")
		// api
		oa := toObs(queryWithBindings(ss[0], tm.SQL, st.Params))
		// sql
		var ob obs
		if prep.Err != nil {
			ob = obs{err: eng.ErrKind(prep.Err)}
		} else {
			var using []string
			for k, p := range st.Params {
				ss[1].Query(fmt.Sprintf("SET @p%d = %s", k+1, p.literal()))
				using = append(using, fmt.Sprintf("@p%d", k+1))
			}
			q := fmt.Sprintf("EXECUTE s%d", st.T)
			if len(using) > 0 {
				q += " USING " + strings.Join(using, ", ")
			}
			ob = toObs(ss[1].Query(q))
		}
		// text
		oc := toObs(ss[2].Query(inline(tm.SQL, st.Params)))
		// effects
		var tabs [3]obs
		for i := range ss {
			tabs[i] = toObs(ss[i].Query("SELECT * FROM t ORDER BY a"))
		}
		c.Count("params:" + paramTypes(st.Params))
		if oc.err != "" {
			c.Count("text-error:" + oc.err)
		}
		key := ""
		if len(oc.rows) > 0 || strings.HasPrefix(tm.Kind, "insert") || strings.HasPrefix(tm.Kind, "update") || strings.HasPrefix(tm.Kind, "delete") {
			key = fmt.Sprintf("%s|%v|%v", tm.SQL, st.Params, tabs[2].rows)
		}
		rec := map[string]interface{}{"case": cs, "step": si}
		if tm.Kind == "select-int" && before.Err == nil {
			// Coq case: bindings, proj, where, table (a,b), observed api rows
			var bs, db []string
			for _, p := range st.Params {
				bs = append(bs, p.coq())
			}
			for _, r := range before.Rows {
				db = append(db, "["+coqVal(r[0])+"; "+coqVal(r[1])+"]")
			}
			res := queryWithBindingsRows(ss[0], tm.SQL, st.Params)
			term := fmt.Sprintf("(%s, %s, %s, %s, %s)", lib.CoqList(bs), tm.CoqProj, tm.CoqWhere, lib.CoqList(db), res)
			id = c.Case(term, cs, key)
			evals++
		} else {
			id = c.CaseNoModel(cs, key)
			evals++
		}
		_ = rec
		c.PredChecked()
		if failed {
			continue
		}
		ddl := ""
		if afterDDL {
			ddl = "/after-ddl"
		}
		first := ""
		if nexec > 1 {
			first = "/re-execution"
		}
		if len(st.Params) >= 10 {
			first += "/10+params"
		}
		if caseVariant {
			first += "/texts-differing-only-in-case-in-session"
		}
		report := func(way string, o obs, tab obs) bool {
			switch {
			case !same(o, oc):
				kind := "rows-differ"
				if o.err != oc.err {
					kind = "error-" + o.err + "-vs-" + map[bool]string{true: "ok", false: oc.err}[oc.err == ""]
				}
				c.PredFail(id, fmt.Sprintf("%s/%s/%s/%s%s%s", way, tm.Kind, paramTypes(st.Params), kind, ddl, first),
					fmt.Sprintf("%q with %v (step %d of %v over %q): %s returns %v, inlined text %q returns %v",
						tm.SQL, st.Params, si, cs.Steps, cs.Setup, way, o, inline(tm.SQL, st.Params), oc), cs)
				return true
			case !same(tab, tabs[2]):
				c.PredFail(id, fmt.Sprintf("%s/%s/%s/effect-differs%s%s", way, tm.Kind, paramTypes(st.Params), ddl, first),
					fmt.Sprintf("%q with %v (step %d of %v over %q): table after %s is %v, after inlined text %q it is %v",
						tm.SQL, st.Params, si, cs.Steps, cs.Setup, way, tab, inline(tm.SQL, st.Params), tabs[2]), cs)
				return true
			}
			return false
		}
		if report("api", oa, tabs[0]) || report("sql-prepare", ob, tabs[1]) {
			failed = true
		}
	}
}

func coqVal(v interface{}) string {
	if v == nil {
		return "VNull"
	}
	s := fmt.Sprintf("%d", v)
	if strings.HasPrefix(s, "-") {
		return "(VInt (" + s + ")%Z)"
	}
	return "(VInt " + s + "%Z)"
}

// observed rows of the api way as a Coq term: Some [[..];..] or None on error (re-run is safe: SELECT only)
func queryWithBindingsRows(s *eng.S, q string, ps []param) string {
	r := queryWithBindings(s, q, ps)
	if r.Err != nil {
		return "None"
	}
	var rows []string
	for _, row := range r.Rows {
		var vs []string
		for _, v := range row {
			switch x := v.(type) {
			case nil:
				vs = append(vs, "VNull")
			case bool:
				if x {
					vs = append(vs, "(VInt 1%Z)")
				} else {
					vs = append(vs, "(VInt 0%Z)")
				}
			case int8, int16, int32, int64, int, uint8, uint16, uint32, uint64:
				vs = append(vs, coqVal(x))
			default:
				vs = append(vs, fmt.Sprintf("(VInt 777777%%Z) (* unexpected %T %v *)", v, v))
			}
		}
		rows = append(rows, lib.CoqList(vs))
	}
	return "(Some " + lib.CoqList(rows) + ")"
}

var evals int

func corpus() []caseT {
	return []caseT{
		{Kind: "select-int", Template: "SELECT a, b FROM t WHERE (b = ?)", CoqProj: "[(Col 0); (Col 1)]", CoqWhere: "(Eq (Col 1) (Bind 0))",
			Setup: []string{"CREATE TABLE t (a INT PRIMARY KEY, b INT, c VARCHAR(20), d DECIMAL(10,2))", "INSERT INTO t VALUES (1, 5, 'x', 1.50), (2, NULL, 'y', NULL), (3, 7, NULL, 2.00)"},
			Steps: []stepT{{Params: []param{{Type: "int", Text: "5"}}}, {Other: "UPDATE t SET b = 7 WHERE a = 1"}, {Params: []param{{Type: "int", Text: "7"}}}, {Params: []param{{Type: "null"}}}}},
	}
}

func main() {
	lib.Main("C12", func(c *lib.Ctx) {
		c.Header = "From Coq Require Import List ZArith.\nImport ListNotations.\nFrom GMS Require Import Lang.C12Prepared Corr.C12.\nOpen Scope N_scope."
		c.CaseType = "C12.case"
		c.MismatchFn = "C12.mismatches"
		c.SetRule("histories of 2-5 executions of one parameterised statement (integer-fragment SELECTs with random predicates over =, <, <=, <=>, +, -, AND, OR, NOT, IS NULL, IN, BETWEEN; " +
			"string / decimal / mixed-type SELECTs, LIMIT ?, SELECT *, aggregates, subquery; INSERT / UPDATE / DELETE) with values over int64 boundaries, uint64, decimals, strings with quotes / " +
			"backslashes / wildcards / multi-byte, NULL; 1/3 of the gaps hold a plain DML, CREATE INDEX or ALTER TABLE. Three engines (api bindings, SQL PREPARE/EXECUTE, inlined text) are compared after every " +
			"execution on result bag, error kind and table contents; the api result of the integer fragment is compared with the Coq model. One evaluation = one execution step; non-trivial = non-empty result or DML.")
		if c.ReplayFile != "" {
			var cs caseT
			lib.LoadReplay(c.ReplayFile, &cs)
			run(c, cs)
			return
		}
		for _, cs := range corpus() {
			run(c, cs)
		}
		for evals < c.N {
			run(c, gen(c.R.Fork()))
		}
	})
}
