// Driver for C12 (prepared statements behave like the inlined statement text).
// A case is a history over one table: a parameterised statement is executed repeatedly with generated values,
// interleaved with plain DML / ALTER statements, in three engines that start from the same data:
//
//	api  : Engine.QueryWithBindings(query with ?, bindings built as the server does: querypb.BindVariable ->
//	       sqltypes.BindVariableToValue -> sqlparser.ExprFromValue), same session (prepared AST cached in it)
//	sql  : PREPARE s FROM '...' once, then SET @pN = literal; EXECUTE s USING @p1, ...
//	text : the statement text with the values written as literals
//
// Predicate (implementation alone): after every step the three engines agree on result rows / error kind and on the
// table contents.  For the integer fragment the api result is also compared with the Coq model (Corr/C12.v).
package main

import (
	"context"
	dsql "database/sql"
	"fmt"
	"io"
	"math/big"
	"net"
	"os"
	"sort"
	"strconv"
	"strings"
	"time"

	"github.com/sirupsen/logrus"

	"github.com/dolthub/vitess/go/sqltypes"
	querypb "github.com/dolthub/vitess/go/vt/proto/query"
	"github.com/dolthub/vitess/go/vt/sqlparser"
	gomysql "github.com/go-sql-driver/mysql"

	sqle "github.com/dolthub/go-mysql-server"
	"github.com/dolthub/go-mysql-server/memory"
	"github.com/dolthub/go-mysql-server/server"
	"github.com/dolthub/go-mysql-server/sql"
	"github.com/dolthub/go-mysql-server/sql/expression"
	"github.com/dolthub/go-mysql-server/sql/planbuilder"
	"github.com/dolthub/go-mysql-server/sql/types"

	"verifharness/lib"
	"verifharness/lib/eng"
)

// ---------- values ----------

type param struct {
	Type string `json:"type"` // int, uint, str, null, dec, bytes, time, float
	Text string `json:"text"` // decimal digits / raw string / decimal text / YYYY-MM-DD hh:mm:ss / float text
}

func quote(t string) string {
	r := strings.NewReplacer(`\`, `\\`, `'`, `''`)
	return "'" + r.Replace(t) + "'"
}

func floatText(t string) string {
	f, _ := strconv.ParseFloat(t, 64)
	return strconv.FormatFloat(f, 'e', -1, 64)
}

// literal: the text the inlining printer writes for the value
func (p param) literal() string {
	switch p.Type {
	case "null":
		return "NULL"
	case "str", "bytes", "time":
		return quote(p.Text)
	case "float":
		return floatText(p.Text)
	default:
		return p.Text
	}
}

// wireLiteral: the text for the value as go-sql-driver can send it (no DECIMAL parameter type: decimals travel as strings)
func (p param) wireLiteral() string {
	if p.Type == "dec" {
		return quote(p.Text)
	}
	if p.Type == "time" { // go-sql-driver writes a time.Time at midnight as the date alone
		return quote(strings.TrimSuffix(p.Text, " 00:00:00"))
	}
	return p.literal()
}

// wireArg: the Go argument handed to database/sql
func (p param) wireArg() interface{} {
	switch p.Type {
	case "null":
		return nil
	case "int":
		v, _ := strconv.ParseInt(p.Text, 10, 64)
		return v
	case "uint":
		v, _ := strconv.ParseUint(p.Text, 10, 64)
		return v
	case "bytes":
		return []byte(p.Text)
	case "float":
		v, _ := strconv.ParseFloat(p.Text, 64)
		return v
	case "time":
		t, err := time.Parse("2006-01-02 15:04:05", p.Text)
		if err != nil {
			return p.Text
		}
		return t
	default:
		return p.Text
	}
}

func (p param) qtype() querypb.Type {
	switch p.Type {
	case "null":
		return querypb.Type_NULL_TYPE
	case "int":
		return querypb.Type_INT64
	case "uint":
		return querypb.Type_UINT64
	case "dec":
		return querypb.Type_DECIMAL
	case "bytes":
		return querypb.Type_VARBINARY
	case "time":
		return querypb.Type_DATETIME
	case "float":
		return querypb.Type_FLOAT64
	default:
		return querypb.Type_VARCHAR
	}
}

func (p param) bindVar(t querypb.Type) *querypb.BindVariable {
	if p.Type == "null" {
		return sqltypes.NullBindVariable
	}
	return &querypb.BindVariable{Type: t, Value: []byte(p.Text)}
}

func (p param) bindExpr() (sqlparser.Expr, error) {
	v, err := sqltypes.BindVariableToValue(p.bindVar(p.qtype()))
	if err != nil {
		return nil, err
	}
	return sqlparser.ExprFromValue(v)
}

func coqString(t string) string { return `"` + strings.ReplaceAll(t, `"`, `""`) + `"%string` }

func coqZText(t string) string {
	if strings.HasPrefix(t, "-") {
		return "(" + t + ")%Z"
	}
	return t + "%Z"
}

func coqDigits(d string) string {
	var sb strings.Builder
	for _, c := range d {
		fmt.Fprintf(&sb, "(D%c ", c)
	}
	sb.WriteString("Nil")
	sb.WriteString(strings.Repeat(")", len(d)))
	return sb.String()
}

// decimal text as (VDec unscaled scale)
func coqDecVal(t string) string {
	neg := strings.HasPrefix(t, "-")
	t = strings.TrimPrefix(t, "-")
	i, f, _ := strings.Cut(t, ".")
	u := strings.TrimLeft(i+f, "0")
	if u == "" {
		u = "0"
	} else if neg {
		u = "-" + u
	}
	return fmt.Sprintf("(VDec %s %d%%N)", coqZText(u), len(f))
}

func (p param) modelled() bool {
	switch p.Type {
	case "time", "float":
		return false
	case "dec":
		return strings.Contains(p.Text, ".")
	}
	return true
}

// pval: the argument as a term of Lang.C12Binding.pval
func (p param) pval() string {
	switch p.Type {
	case "null":
		return "PNull"
	case "int":
		return "(PInt " + coqZText(p.Text) + ")"
	case "uint":
		return "(PUint " + coqZText(p.Text) + ")"
	case "dec":
		t := p.Text
		sign := "Pos"
		if strings.HasPrefix(t, "-") {
			sign, t = "Neg", t[1:]
		}
		i, f, _ := strings.Cut(t, ".")
		return "(PDec (" + sign + " " + coqDigits(i) + ") " + coqDigits(f) + ")"
	case "bytes":
		return "(PBytes " + coqString(p.Text) + ")"
	default:
		return "(PStr " + coqString(p.Text) + ")"
	}
}

// wire types of the argument's class, to observe the literal construction for every width
var wtypes = map[string][]struct {
	coq string
	q   querypb.Type
}{
	"null":  {{"WNull", querypb.Type_NULL_TYPE}},
	"int":   {{"WInt64", querypb.Type_INT64}, {"WInt8", querypb.Type_INT8}, {"WInt16", querypb.Type_INT16}, {"WInt24", querypb.Type_INT24}, {"WInt32", querypb.Type_INT32}},
	"uint":  {{"WUint64", querypb.Type_UINT64}, {"WUint8", querypb.Type_UINT8}, {"WUint16", querypb.Type_UINT16}, {"WUint24", querypb.Type_UINT24}, {"WUint32", querypb.Type_UINT32}},
	"dec":   {{"WDecimal", querypb.Type_DECIMAL}},
	"str":   {{"WVarChar", querypb.Type_VARCHAR}, {"WChar", querypb.Type_CHAR}, {"WText", querypb.Type_TEXT}},
	"bytes": {{"WVarBinary", querypb.Type_VARBINARY}, {"WBinary", querypb.Type_BINARY}, {"WBlob", querypb.Type_BLOB}},
}

var wnames = map[querypb.Type]string{querypb.Type_VARCHAR: "WVarChar", querypb.Type_CHAR: "WChar", querypb.Type_TEXT: "WText",
	querypb.Type_VARBINARY: "WVarBinary", querypb.Type_BINARY: "WBinary", querypb.Type_BLOB: "WBlob"}

// coqAny: an engine value as a term of the model's val ("" = a kind the model does not interpret)
func coqAny(v interface{}) string {
	switch x := v.(type) {
	case nil:
		return "VNull"
	case bool:
		if x {
			return "(VInt 1%Z)"
		}
		return "(VInt 0%Z)"
	case int8, int16, int32, int64, int, uint8, uint16, uint32, uint64, uint:
		return "(VInt " + coqZText(fmt.Sprintf("%d", x)) + ")"
	case string:
		return "(VStr " + coqString(x) + ")"
	case []byte:
		return "(VStr " + coqString(string(x)) + ")"
	case float32, float64, time.Time:
		return ""
	default:
		t := fmt.Sprint(v)
		if _, ok := new(big.Rat).SetString(t); ok && !strings.ContainsAny(t, "eE/") {
			return coqDecVal(t)
		}
		return ""
	}
}

func coqLitType(l *expression.Literal, ctx *sql.Context) string {
	t := l.Type(ctx)
	switch t {
	case types.Int8:
		return "TInt8"
	case types.Uint8:
		return "TUint8"
	case types.Int16:
		return "TInt16"
	case types.Uint16:
		return "TUint16"
	case types.Int32:
		return "TInt32"
	case types.Uint32:
		return "TUint32"
	case types.Int64:
		return "TInt64"
	case types.Uint64:
		return "TUint64"
	case types.Float64:
		return "TFloat64"
	case types.Null:
		return "TNull"
	case types.Time:
		return "TTime"
	case types.Year:
		return "TYear"
	}
	if dt, ok := t.(sql.DecimalType); ok {
		if dt.Equals(types.InternalDecimalType) {
			return "TDecimalInternal"
		}
		return "TDecimalLit"
	}
	if st, ok := t.(sql.StringType); ok {
		if st.Equals(types.CreateLongText(ctx.GetCollation())) {
			return "TLongText"
		}
		if n, ok := wnames[st.Type()]; ok {
			if st.Collation() == sql.Collation_binary {
				return fmt.Sprintf("(TBinary %s %d%%N)", n, st.Length())
			}
			return fmt.Sprintf("(TString %s %d%%N)", n, st.Length())
		}
	}
	if types.IsBit(t) {
		return "TBit64"
	}
	if types.IsDatetimeType(t) || types.IsDateType(t) || types.IsTimestampType(t) {
		return "(TDatetime WDatetime 0%N) (* " + t.String() + " *)"
	}
	return "TNull (* unexpected " + t.String() + " *)"
}

func coqObsLit(l *expression.Literal, ctx *sql.Context) string {
	v := coqAny(l.Value())
	if v == "" {
		v = "None"
	} else {
		v = "(Some " + v + ")"
	}
	return "(Some (" + coqLitType(l, ctx) + ", " + v + "))"
}

// typedArg: (wire type, argument, literal observed on the live path, literal observed from engine.go bindingsToExprs)
func (p param) typedArg(s *eng.S, pick int) string {
	ws := wtypes[p.Type]
	w := ws[pick%len(ws)]
	ctx := sql.NewContext(context.Background(), sql.WithSession(s.Ctx.Session))
	bv := p.bindVar(w.q)
	oh := func() (out string) {
		defer func() {
			if r := recover(); r != nil {
				out = "None"
			}
		}()
		v, err := sqltypes.BindVariableToValue(bv)
		if err != nil {
			return "None"
		}
		e, err := sqlparser.ExprFromValue(v)
		if err != nil {
			return "None"
		}
		b := planbuilder.New(ctx, s.E.Engine.Analyzer.Catalog, nil)
		switch x := e.(type) {
		case *sqlparser.NullVal:
			return "(Some (TNull, Some VNull))"
		case *sqlparser.SQLVal:
			if l, ok := b.ConvertVal(x).(*expression.Literal); ok {
				return coqObsLit(l, ctx)
			}
		}
		return "None"
	}()
	oe := func() (out string) {
		defer func() {
			if r := recover(); r != nil {
				out = "None"
			}
		}()
		m, err := sqle.VerifC12BindingsToExprs(ctx, map[string]*querypb.BindVariable{"v1": bv})
		if err != nil {
			return "None"
		}
		if l, ok := m["v1"].(*expression.Literal); ok {
			return coqObsLit(l, ctx)
		}
		return "None"
	}()
	return "(" + w.coq + ", " + p.pval() + ", " + oh + ", " + oe + ")"
}

// ---------- case ----------

type tmplJ struct {
	Kind    string `json:"kind"`
	SQL     string `json:"sql"`
	CoqStmt string `json:"coq_stmt,omitempty"` // the statement as a term of Lang.C12Prepared.stmt (modelled fragment)
}

type stepT struct {
	T      int     `json:"t,omitempty"`      // which statement of the session: 0 = Template, k = More[k-1]
	Params []param `json:"params,omitempty"` // an execution of the prepared statement
	Other  string  `json:"other,omitempty"`  // or a plain statement run in all three engines
}

type caseT struct {
	Kind     string   `json:"kind"`     // template class
	Template string   `json:"template"` // SQL with ? holes
	Setup    []string `json:"setup"`
	Steps    []stepT  `json:"steps"`
	CoqStmt  string   `json:"coq_stmt,omitempty"` // model term for the modelled fragment
	More     []tmplJ  `json:"more,omitempty"`     // further statements prepared and executed in the same session
}

func (c *caseT) tmpl(k int) tmplJ {
	if k == 0 {
		return tmplJ{Kind: c.Kind, SQL: c.Template, CoqStmt: c.CoqStmt}
	}
	return c.More[k-1]
}

const hole = "?"

func inline(tmpl string, ps []param) string { return inlineWith(tmpl, ps, param.literal) }

func inlineWith(tmpl string, ps []param, lit func(param) string) string {
	var sb strings.Builder
	k := 0
	for i := 0; i < len(tmpl); i++ {
		if tmpl[i] == '?' && k < len(ps) {
			sb.WriteString(lit(ps[k]))
			k++
		} else {
			sb.WriteByte(tmpl[i])
		}
	}
	return sb.String()
}

// ---------- generator ----------

func smallInt(r *lib.RNG) param {
	if r.Chance(1, 7) {
		return param{Type: "null"}
	}
	return param{Type: "int", Text: fmt.Sprint(r.Range(-2, 6))}
}

var strPool = []string{"", "a", "A", "X", "x", "ab", "a'b", `a\b`, "a%", "%", "_b", "é", "日本", "x y", "NULL", "1", " 1", "0x41", "a\"b"}

func anyParam(r *lib.RNG, want string) param {
	if r.Chance(1, 8) {
		return param{Type: "null"}
	}
	switch want {
	case "int":
		switch r.Intn(8) {
		case 0:
			return param{Type: "int", Text: lib.Pick(r, []string{"9223372036854775807", "-9223372036854775808", "2147483647", "-2147483648", "2147483648"})}
		case 1:
			return param{Type: "uint", Text: lib.Pick(r, []string{"18446744073709551615", "9223372036854775808", "3"})}
		case 2:
			return param{Type: "dec", Text: lib.Pick(r, []string{"1.50", "2.00", "0.5", "-1.25", "3"})}
		case 3:
			return param{Type: "str", Text: lib.Pick(r, []string{"1", "2", " 3", "1a", "", "abc"})}
		default:
			return param{Type: "int", Text: fmt.Sprint(r.Range(-3, 8))}
		}
	case "dec":
		return param{Type: "dec", Text: lib.Pick(r, []string{"1.50", "2.00", "0.5", "-1.25", "10.10", "0.00", "99999999.99"})}
	default:
		if r.Chance(1, 6) {
			return param{Type: "int", Text: fmt.Sprint(r.Range(0, 3))}
		}
		if r.Chance(1, 8) {
			return param{Type: "bytes", Text: lib.Pick(r, strPool)}
		}
		return param{Type: "str", Text: lib.Pick(r, strPool)}
	}
}

// modelled-fragment expressions: return SQL (with ?) and the Coq term; every hole records the kind of value it wants
type gctx struct {
	r     *lib.RNG
	types []string
	typed bool // also comparisons over strings / decimals / unsigned
}

func (g *gctx) hole(want string) (string, string) {
	k := len(g.types)
	g.types = append(g.types, want)
	return hole, fmt.Sprintf("(Bind %d)", k)
}

func (g *gctx) operand() (string, string) {
	switch g.r.Intn(6) {
	case 0:
		return "a", "(Col 0)"
	case 1, 2:
		return "b", "(Col 1)"
	case 3:
		v := smallInt(g.r)
		if v.Type == "null" {
			return "NULL", "(Lit VNull)"
		}
		return v.Text, "(Lit " + v.coq() + ")"
	default:
		return g.hole("small")
	}
}

func (g *gctx) term() (string, string) {
	s, c := g.operand()
	if g.r.Chance(1, 4) {
		s2, c2 := g.operand()
		if g.r.Bool() {
			return "(" + s + " + " + s2 + ")", "(Add " + c + " " + c2 + ")"
		}
		return "(" + s + " - " + s2 + ")", "(Sub " + c + " " + c2 + ")"
	}
	return s, c
}

var cmpOps = []struct{ sql, coq string }{{"=", "Eq"}, {"<", "Lt"}, {"<=", "Le"}, {"<=>", "NsEq"}}

// typedPred: a comparison over the string column c or over numbers of mixed kinds (INT / DECIMAL column, integer,
// unsigned and decimal holes)
func (g *gctx) typedPred() (string, string) {
	op := lib.Pick(g.r, cmpOps)
	switch g.r.Intn(5) {
	case 0, 1: // string column against a string hole or literal
		var rs, rc string
		if g.r.Chance(1, 4) {
			t := lib.Pick(g.r, []string{"a", "X", "ab", ""})
			rs, rc = quote(t), "(Lit (VStr "+coqString(t)+"))"
		} else {
			rs, rc = g.hole("mstr")
		}
		if g.r.Chance(1, 5) {
			s2, c2 := g.hole("mstr")
			return "(c IN (" + rs + ", " + s2 + "))", "(InList (Col 2) [" + atomOf(rc) + "; " + atomOf(c2) + "])"
		}
		if g.r.Bool() {
			return "(c " + op.sql + " " + rs + ")", "(" + op.coq + " (Col 2) " + rc + ")"
		}
		return "(" + rs + " " + op.sql + " c)", "(" + op.coq + " " + rc + " (Col 2))"
	case 2: // decimal column against a number
		rs, rc := "1.50", "(Lit (VDec 150%Z 2%N))"
		if !g.r.Chance(1, 4) {
			rs, rc = g.hole("mnum")
		}
		if g.r.Bool() {
			return "(d " + op.sql + " " + rs + ")", "(" + op.coq + " (Col 3) " + rc + ")"
		}
		return "(" + rs + " " + op.sql + " d)", "(" + op.coq + " " + rc + " (Col 3))"
	case 3: // integer column against a number of any kind
		rs, rc := g.hole("mnum")
		col, cc := "b", "(Col 1)"
		if g.r.Chance(1, 3) {
			col, cc = "a", "(Col 0)"
		}
		return "(" + col + " " + op.sql + " " + rs + ")", "(" + op.coq + " " + cc + " " + rc + ")"
	default: // decimal arithmetic
		rs, rc := g.hole("mdec")
		l, lc := lib.Pick(g.r, []string{"d", "b"}), ""
		if l == "d" {
			lc = "(Col 3)"
		} else {
			lc = "(Col 1)"
		}
		r2, rc2 := g.hole("mnum")
		return "((" + l + " + " + rs + ") " + op.sql + " " + r2 + ")", "(" + op.coq + " (Add " + lc + " " + rc + ") " + rc2 + ")"
	}
}

// atomOf: "(Bind k)" / "(Lit v)" as an IN-list atom
func atomOf(c string) string {
	c = strings.TrimSuffix(strings.TrimPrefix(c, "("), ")")
	if strings.HasPrefix(c, "Bind ") {
		return "ABind " + strings.TrimPrefix(c, "Bind ")
	}
	return "ALit " + strings.TrimPrefix(c, "Lit ")
}

func (g *gctx) pred(depth int) (string, string) {
	if depth > 0 && g.r.Chance(1, 3) {
		s1, c1 := g.pred(depth - 1)
		k := g.r.Intn(3)
		if k == 2 {
			return "(NOT " + s1 + ")", "(Not " + c1 + ")"
		}
		s2, c2 := g.pred(depth - 1)
		if k == 0 {
			return "(" + s1 + " AND " + s2 + ")", "(And " + c1 + " " + c2 + ")"
		}
		return "(" + s1 + " OR " + s2 + ")", "(Or " + c1 + " " + c2 + ")"
	}
	if g.typed && g.r.Chance(1, 2) {
		return g.typedPred()
	}
	switch g.r.Intn(8) {
	case 0:
		s, c := g.term()
		return "(" + s + " IS NULL)", "(IsNull " + c + ")"
	case 1:
		s, c := g.term()
		n := g.r.Range(1, 3)
		var ss, cs []string
		for i := 0; i < n; i++ {
			switch g.r.Intn(3) {
			case 0:
				v := smallInt(g.r)
				ss = append(ss, v.literal())
				cs = append(cs, "ALit "+v.coq())
			default:
				hs, hc := g.hole("small")
				ss = append(ss, hs)
				cs = append(cs, atomOf(hc))
			}
		}
		return "(" + s + " IN (" + strings.Join(ss, ", ") + "))", "(InList " + c + " [" + strings.Join(cs, "; ") + "])"
	case 2:
		s, c := g.term()
		l, cl := g.term()
		h, ch := g.term()
		return "(" + s + " BETWEEN " + l + " AND " + h + ")", "(Between " + c + " " + cl + " " + ch + ")"
	case 3:
		s1, c1 := g.term()
		s2, c2 := g.term()
		return "(" + s1 + " <=> " + s2 + ")", "(NsEq " + c1 + " " + c2 + ")"
	case 4:
		s1, c1 := g.term()
		s2, c2 := g.term()
		return "(" + s1 + " < " + s2 + ")", "(Lt " + c1 + " " + c2 + ")"
	case 5:
		s1, c1 := g.term()
		s2, c2 := g.term()
		return "(" + s1 + " <= " + s2 + ")", "(Le " + c1 + " " + c2 + ")"
	default:
		s1, c1 := g.term()
		s2, c2 := g.term()
		return "(" + s1 + " = " + s2 + ")", "(Eq " + c1 + " " + c2 + ")"
	}
}

type tmplT struct {
	kind  string
	sql   string
	types []string // wanted type per hole
	coqS  string   // Coq stmt term (modelled fragment only)
}

func genTemplate(r *lib.RNG) tmplT {
	switch r.Intn(12) {
	case 0, 1, 2, 3: // modelled fragment; holes are numbered in text order
		for {
			g := &gctx{r: r, typed: r.Chance(2, 3)}
			switch r.Intn(6) {
			case 0: // UPDATE of b (or c) on the rows selected by the predicate
				if g.typed && r.Chance(1, 3) {
					vs, vc := g.hole("mstr")
					w, cw := g.pred(2)
					return tmplT{kind: "update-model", sql: "UPDATE t SET c = " + vs + " WHERE " + w, types: g.types, coqS: "(Update 2 " + vc + " " + cw + ")"}
				}
				vs, vc := g.term()
				w, cw := g.pred(2)
				if len(g.types) == 0 {
					continue
				}
				return tmplT{kind: "update-model", sql: "UPDATE t SET b = " + vs + " WHERE " + w, types: g.types, coqS: "(Update 1 " + vc + " " + cw + ")"}
			case 1:
				w, cw := g.pred(2)
				if len(g.types) == 0 {
					continue
				}
				return tmplT{kind: "delete-model", sql: "DELETE FROM t WHERE " + w, types: g.types, coqS: "(Delete " + cw + ")"}
			}
			proj, cproj := []string{"a", "b"}, []string{"(Col 0)", "(Col 1)"}
			if g.typed {
				proj, cproj = append(proj, "c", "d"), append(cproj, "(Col 2)", "(Col 3)")
			}
			if r.Chance(1, 3) {
				s, c := g.term()
				proj = append(proj, s)
				cproj = append(cproj, c)
			}
			if g.typed && r.Chance(1, 3) {
				s, c := g.hole(lib.Pick(r, []string{"mstr", "mnum", "mdec"}))
				proj = append(proj, s)
				cproj = append(cproj, c)
			}
			if g.typed && r.Chance(1, 4) {
				s, c := g.hole("mdec")
				proj = append(proj, "d + "+s)
				cproj = append(cproj, "(Add (Col 3) "+c+")")
			}
			w, cw := g.pred(2)
			if len(g.types) == 0 {
				continue
			}
			return tmplT{kind: "select-int", sql: "SELECT " + strings.Join(proj, ", ") + " FROM t WHERE " + w, types: g.types,
				coqS: "(Select [" + strings.Join(cproj, "; ") + "] " + cw + ")"}
		}
	case 4:
		return lib.Pick(r, []tmplT{
			{kind: "select-str", sql: "SELECT a, c FROM t WHERE c = ?", types: []string{"str"}},
			{kind: "select-str", sql: "SELECT a, c FROM t WHERE c LIKE ?", types: []string{"str"}},
			{kind: "select-str", sql: "SELECT a, CONCAT(c, ?) FROM t WHERE c <> ? OR c IS NULL", types: []string{"str", "str"}},
			{kind: "select-str", sql: "SELECT a FROM t WHERE c IN (?, ?)", types: []string{"str", "str"}},
			{kind: "select-str", sql: "SELECT a, COALESCE(c, ?) FROM t", types: []string{"str"}},
			{kind: "select-time", sql: "SELECT a, ? FROM t WHERE ? > '2020-06-01'", types: []string{"time", "time"}},
			{kind: "select-time", sql: "SELECT a FROM t WHERE DATE_ADD(?, INTERVAL b DAY) < '2021-01-01 00:00:00'", types: []string{"time"}},
			{kind: "select-time", sql: "SELECT a, c FROM t WHERE c < ? OR ? IS NULL", types: []string{"time", "time"}},
		})
	case 5:
		return lib.Pick(r, []tmplT{
			{kind: "select-dec", sql: "SELECT a, d FROM t WHERE d > ?", types: []string{"dec"}},
			{kind: "select-dec", sql: "SELECT a, d + ? FROM t WHERE d = ?", types: []string{"dec", "dec"}},
			{kind: "select-mixed", sql: "SELECT a FROM t WHERE b = ?", types: []string{"int"}},
			{kind: "select-mixed", sql: "SELECT a, b * ? FROM t WHERE b < ?", types: []string{"int", "int"}},
			{kind: "select-mixed", sql: "SELECT a FROM t WHERE a = ? OR b = ?", types: []string{"int", "int"}},
			{kind: "select-float", sql: "SELECT a, b * ? FROM t WHERE d < ?", types: []string{"float", "float"}},
			{kind: "select-float", sql: "SELECT a FROM t WHERE b = ? OR d = ?", types: []string{"float", "float"}},
		})
	case 6:
		return lib.Pick(r, []tmplT{
			{kind: "select-noholes-in-where", sql: "SELECT ?, ? FROM t WHERE a = 1", types: []string{"int", "str"}},
			{kind: "select-limit", sql: "SELECT a FROM t ORDER BY a LIMIT ?", types: []string{"limit"}},
			{kind: "select-star", sql: "SELECT * FROM t WHERE a = ?", types: []string{"int"}},
			{kind: "select-star", sql: "SELECT * FROM t WHERE b >= ? ORDER BY a", types: []string{"int"}},
			{kind: "select-agg", sql: "SELECT COUNT(*), SUM(b + ?) FROM t WHERE b <> ?", types: []string{"small", "small"}},
			{kind: "select-sub", sql: "SELECT a FROM t WHERE b IN (SELECT b FROM t WHERE a > ?)", types: []string{"small"}},
		})
	case 7:
		return tmplT{kind: "insert", sql: "INSERT INTO t (a, b, c, d) VALUES (?, ?, ?, ?)", types: []string{"key", "int", "str", "dec"}}
	case 8: // modelled: a fresh key, values that the column types store unchanged
		return tmplT{kind: "insert-model", sql: "INSERT INTO t (a, b, c, d) VALUES (?, ?, ?, ?)", types: []string{"freshkey", "small", "mstr", "mdec2"},
			coqS: "(Insert [(Bind 0); (Bind 1); (Bind 2); (Bind 3)])"}
	case 9:
		return lib.Pick(r, []tmplT{
			{kind: "update", sql: "UPDATE t SET b = ?, c = ? WHERE a = ?", types: []string{"int", "str", "key"}},
			{kind: "update", sql: "UPDATE t SET b = b + ? WHERE b < ?", types: []string{"small", "small"}},
			{kind: "update", sql: "UPDATE t SET d = ? WHERE a >= ?", types: []string{"dec", "key"}},
		})
	default:
		return lib.Pick(r, []tmplT{
			{kind: "delete", sql: "DELETE FROM t WHERE a = ?", types: []string{"key"}},
			{kind: "delete", sql: "DELETE FROM t WHERE b IN (?, ?)", types: []string{"small", "small"}},
			{kind: "delete", sql: "DELETE FROM t WHERE c = ? OR b > ?", types: []string{"str", "small"}},
		})
	}
}

func genParam(r *lib.RNG, want string) param {
	switch want {
	case "small":
		return smallInt(r)
	case "key":
		return param{Type: "int", Text: fmt.Sprint(r.Range(0, 12))}
	case "limit":
		return param{Type: "int", Text: fmt.Sprint(r.Range(0, 4))}
	case "time":
		if r.Chance(1, 8) {
			return param{Type: "null"}
		}
		return param{Type: "time", Text: lib.Pick(r, []string{"2020-01-02 03:04:05", "2021-12-31 23:59:59", "1999-01-01 00:00:01", "2020-06-01 00:00:00"})}
	case "float":
		if r.Chance(1, 8) {
			return param{Type: "null"}
		}
		return param{Type: "float", Text: lib.Pick(r, []string{"0.5", "1.5", "-1.25", "2", "1e10", "3", "0"})}
	case "mstr":
		if r.Chance(1, 7) {
			return param{Type: "null"}
		}
		if r.Chance(1, 6) {
			return param{Type: "bytes", Text: lib.Pick(r, []string{"a", "X", "ab", ""})}
		}
		return param{Type: "str", Text: lib.Pick(r, strPool)}
	case "mdec2":
		if r.Chance(1, 7) {
			return param{Type: "null"}
		}
		return param{Type: "dec", Text: lib.Pick(r, []string{"1.50", "2.00", "0.50", "-1.25", "10.10", "0.00", "99999999.99"})}
	case "mdec":
		if r.Chance(1, 8) {
			return param{Type: "null"}
		}
		return param{Type: "dec", Text: lib.Pick(r, []string{"1.50", "2.00", "0.5", "-1.25", "10.10", "0.00", "3.0", "-0.5"})}
	case "mnum":
		switch r.Intn(8) {
		case 0:
			return param{Type: "null"}
		case 1:
			return param{Type: "uint", Text: lib.Pick(r, []string{"18446744073709551615", "9223372036854775808", "3", "0"})}
		case 2, 3, 4:
			return param{Type: "dec", Text: lib.Pick(r, []string{"1.50", "2.00", "0.5", "-1.25", "3.0", "0.00", "5.0"})}
		case 5:
			return param{Type: "int", Text: lib.Pick(r, []string{"9223372036854775807", "-9223372036854775808", "2147483648", "-129", "255", "256", "65535", "65536", "4294967295", "4294967296"})}
		default:
			return smallInt(r)
		}
	default:
		return anyParam(r, want)
	}
}

// casePairs: two statement texts that differ only in letter case (inside a literal, an alias, a keyword or a
// column name); both are prepared / executed in the same session
func casePair(r *lib.RNG) (tmplT, tmplT) {
	type pr struct {
		kind, a, b string
		types      []string
	}
	p := lib.Pick(r, []pr{
		{"select-case-literal", "SELECT a, 'Total' FROM t WHERE b = ?", "SELECT a, 'TOTAL' FROM t WHERE b = ?", []string{"small"}},
		{"select-case-literal", "SELECT a, c FROM t WHERE c = 'X' OR b = ?", "SELECT a, c FROM t WHERE c = 'x' OR b = ?", []string{"small"}},
		{"select-case-literal", "SELECT a, CONCAT(c, 'Ab') FROM t WHERE a >= ?", "SELECT a, CONCAT(c, 'aB') FROM t WHERE a >= ?", []string{"key"}},
		{"select-case-alias", "SELECT a, b AS Total FROM t WHERE a > ?", "SELECT a, b AS TOTAL FROM t WHERE a > ?", []string{"key"}},
		{"select-case-keyword", "select a from t where b = ?", "SELECT a FROM t WHERE b = ?", []string{"small"}},
		{"update-case-literal", "UPDATE t SET c = 'Ab' WHERE a = ?", "UPDATE t SET c = 'AB' WHERE a = ?", []string{"key"}},
		{"insert-case-literal", "INSERT INTO t (a, b, c, d) VALUES (?, ?, 'k', 1.50)", "INSERT INTO t (a, b, c, d) VALUES (?, ?, 'K', 1.50)", []string{"key", "small"}},
		{"delete-case-literal", "DELETE FROM t WHERE c = 'a' AND a > ?", "DELETE FROM t WHERE c = 'A' AND a > ?", []string{"key"}},
	})
	x, y := tmplT{kind: p.kind, sql: p.a, types: p.types}, tmplT{kind: p.kind, sql: p.b, types: p.types}
	if r.Bool() {
		return y, x
	}
	return x, y
}

// manyHoles: statements with 10-15 placeholders whose values must not be permuted
func manyHoles(r *lib.RNG) tmplT {
	n := r.Range(10, 15)
	q := strings.TrimSuffix(strings.Repeat("?, ", n), ", ")
	distinct := func(k int) []string {
		ts := make([]string, k)
		for i := range ts {
			ts[i] = "distinct"
		}
		return ts
	}
	switch r.Intn(5) {
	case 0:
		return tmplT{kind: "select-many-holes", sql: "SELECT " + q, types: distinct(n)}
	case 1: // modelled: the holes are projected
		cp := []string{"(Col 0)"}
		for i := 0; i < n-1; i++ {
			cp = append(cp, fmt.Sprintf("(Bind %d)", i))
		}
		return tmplT{kind: "select-int", sql: "SELECT a, " + strings.TrimSuffix(strings.Repeat("?, ", n-1), ", ") + " FROM t WHERE (a <= ?)",
			types: append(distinct(n-1), "key"), coqS: "(Select [" + strings.Join(cp, "; ") + "] " + fmt.Sprintf("(Le (Col 0) (Bind %d))", n-1) + ")"}
	case 2:
		k := n / 2
		var parts []string
		for i := 0; i < k; i++ {
			parts = append(parts, "(a = ? AND b = ?)")
		}
		ts := make([]string, 2*k)
		for i := range ts {
			ts[i] = []string{"key", "small"}[i%2]
		}
		return tmplT{kind: "select-many-holes", sql: "SELECT a, b FROM t WHERE " + strings.Join(parts, " OR "), types: ts}
	case 3:
		return tmplT{kind: "insert-many-holes", sql: "INSERT INTO t (a, b, c, d) VALUES (?, ?, ?, ?), (?, ?, ?, ?), (?, ?, ?, ?)",
			types: []string{"key1", "small", "str", "dec", "key2", "small", "str", "dec", "key3", "small", "str", "dec"}}
	default:
		return tmplT{kind: "update-many-holes", sql: "UPDATE t SET b = ? + ? + ? + ? + ?, c = CONCAT(?, ?, ?) WHERE a IN (?, ?) OR b = ?",
			types: []string{"distinct", "distinct", "distinct", "distinct", "distinct", "str", "str", "str", "key", "key", "small"}}
	}
}

func gen(r *lib.RNG) caseT {
	var ts []tmplT
	switch r.Intn(6) {
	case 0, 1: // one statement
		ts = []tmplT{genTemplate(r)}
	case 2: // near-duplicate texts in one session, maybe with a third statement
		x, y := casePair(r)
		ts = []tmplT{x, y}
		if r.Bool() {
			ts = append(ts, genTemplate(r))
		}
	case 3:
		ts = []tmplT{manyHoles(r)}
		if r.Bool() {
			ts = append(ts, genTemplate(r))
		}
	default: // several different statements interleaved
		for i, n := 0, r.Range(2, 3); i < n; i++ {
			if r.Chance(1, 5) {
				ts = append(ts, manyHoles(r))
			} else {
				ts = append(ts, genTemplate(r))
			}
		}
	}
	t := ts[0]
	c := caseT{Kind: t.kind, Template: t.sql, CoqStmt: t.coqS}
	modelled, hasInsert := false, false
	for i, x := range ts {
		if i > 0 {
			c.More = append(c.More, tmplJ{Kind: x.kind, SQL: x.sql, CoqStmt: x.coqS})
		}
		modelled = modelled || x.coqS != ""
		hasInsert = hasInsert || strings.HasPrefix(x.kind, "insert")
	}
	c.Setup = []string{"CREATE TABLE t (a INT PRIMARY KEY, b INT, c VARCHAR(20), d DECIMAL(10,2))"}
	n := r.Range(0, 6)
	var vs []string
	for i := 0; i < n; i++ {
		vs = append(vs, fmt.Sprintf("(%d, %s, %s, %s)", i+1, smallInt(r).literal(),
			anyParam(r, "str").literal(), lib.Pick(r, []string{"NULL", "1.50", "2.00", "0.50", "-1.25"})))
	}
	if n > 0 {
		c.Setup = append(c.Setup, "INSERT INTO t VALUES "+strings.Join(vs, ", "))
	}
	ns := r.Range(2, 5) + 2*(len(ts)-1)
	altered := false
	for i := 0; i < ns; i++ {
		if i > 0 && r.Chance(1, 3) {
			var o string
			switch r.Intn(7) {
			case 0:
				o = fmt.Sprintf("INSERT INTO t (a, b, c, d) VALUES (%d, %s, 'n', 2.00)", 20+i, smallInt(r).literal())
			case 1:
				o = fmt.Sprintf("DELETE FROM t WHERE a = %d", r.Range(1, 6))
			case 2:
				o = fmt.Sprintf("UPDATE t SET b = %s WHERE a = %d", smallInt(r).literal(), r.Range(1, 6))
			case 3:
				if !altered && !modelled && !hasInsert {
					o = "ALTER TABLE t ADD COLUMN e INT DEFAULT 7"
					altered = true
				} else {
					o = "CREATE INDEX ib ON t (b)"
				}
			case 4:
				o = "CREATE INDEX ibc ON t (b, c)"
			case 5:
				if !modelled {
					o = "ALTER TABLE t MODIFY b BIGINT"
				} else {
					o = "CREATE INDEX ic ON t (c)"
				}
			default:
				o = "ALTER TABLE t MODIFY c VARCHAR(30)"
			}
			c.Steps = append(c.Steps, stepT{Other: o})
		}
		k := r.Intn(len(ts))
		if i < len(ts) { // every statement is executed at least once, in order, before the random interleaving
			k = i
		}
		ps := make([]param, len(ts[k].types))
		base := 100 + 20*r.Intn(4)
		for j, w := range ts[k].types {
			switch w {
			case "distinct":
				ps[j] = param{Type: "int", Text: fmt.Sprint(base + 3*j + r.Intn(3))}
			case "key1", "key2", "key3":
				ps[j] = param{Type: "int", Text: fmt.Sprint(30 + 10*i + int(w[3]-'0'))}
			case "freshkey":
				ps[j] = param{Type: "int", Text: fmt.Sprint(200 + i)}
			default:
				ps[j] = genParam(r, w)
			}
		}
		c.Steps = append(c.Steps, stepT{T: k, Params: ps})
	}
	return c
}

// ---------- execution ----------

type obs struct {
	rows []string
	err  string
}

func (o obs) String() string { return fmt.Sprintf("%v %s", o.rows, o.err) }

func toObs(r eng.Result) obs {
	o := obs{rows: eng.Bag(r.Rows)}
	if r.Err != nil {
		o.err = eng.ErrKind(r.Err)
		o.rows = nil
	}
	return o
}

func queryWithBindings(s *eng.S, q string, ps []param) (res eng.Result) {
	defer func() {
		if r := recover(); r != nil {
			res.Panic = fmt.Sprint(r)
			res.Err = fmt.Errorf("panic: %v", r)
		}
	}()
	bindings := map[string]sqlparser.Expr{}
	for i, p := range ps {
		e, err := p.bindExpr()
		if err != nil {
			res.Err = err
			return
		}
		bindings[fmt.Sprintf("v%d", i+1)] = e
	}
	ctx := sql.NewContext(context.Background(), sql.WithSession(s.Ctx.Session))
	ctx.SetCurrentDatabase(s.Ctx.GetCurrentDatabase())
	sch, iter, _, err := s.E.Engine.QueryWithBindings(ctx, q, nil, bindings, nil)
	if err != nil {
		res.Err = err
		return
	}
	res.Schema = sch
	for {
		row, err := iter.Next(ctx)
		if err == io.EOF {
			break
		}
		if err != nil {
			res.Err = err
			iter.Close(ctx)
			return
		}
		res.Rows = append(res.Rows, row.Copy())
	}
	if err := iter.Close(ctx); err != nil {
		res.Err = err
	}
	return
}

func same(a, b obs) bool {
	return a.err == b.err && strings.Join(a.rows, "\n") == strings.Join(b.rows, "\n")
}

func paramTypes(ps []param) string {
	m := map[string]bool{}
	for _, p := range ps {
		m[p.Type] = true
	}
	return strings.Join(lib.SortedKeys(m), "+")
}

func run(c *lib.Ctx, cs caseT) {
	var ss [3]*eng.S
	for i := range ss {
		ss[i] = eng.New("db").Session()
		for _, st := range cs.Setup {
			if r := ss[i].Query(st); r.Err != nil {
				c.CaseNoModel(cs, "")
				c.Count("setup-error")
				return
			}
		}
	}
	wc := wireBegin(cs)
	defer wc.end()
	preps := make([]eng.Result, 1+len(cs.More))
	caseVariant := false
	for k := range preps {
		preps[k] = ss[1].Query(fmt.Sprintf("PREPARE s%d FROM '%s'", k, strings.ReplaceAll(cs.tmpl(k).SQL, "'", "''")))
		wc.prepare(k, cs.tmpl(k).SQL)
		for j := 0; j < k; j++ {
			if cs.tmpl(j).SQL != cs.tmpl(k).SQL && strings.EqualFold(cs.tmpl(j).SQL, cs.tmpl(k).SQL) {
				caseVariant = true
			}
		}
	}
	if len(cs.More) > 0 {
		c.Count(fmt.Sprintf("statements-in-session=%d", 1+len(cs.More)))
	}
	if caseVariant {
		c.Count("session-with-texts-differing-only-in-case")
	}
	id := -1
	failed := false
	afterDDL := false
	nexec := 0
	for si, st := range cs.Steps {
		if st.Other != "" {
			for i := range ss {
				ss[i].Query(st.Other)
			}
			wc.other(st.Other)
			if strings.HasPrefix(st.Other, "ALTER") || strings.HasPrefix(st.Other, "CREATE") {
				afterDDL = true
			}
			c.Count("other:" + strings.SplitN(st.Other, " ", 2)[0])
			continue
		}
		nexec++
		tm := cs.tmpl(st.T)
		prep := preps[st.T]
		c.Count("kind:" + tm.Kind)
		if len(st.Params) >= 10 {
			c.Count("executions-with-10+-params")
		}
		// table before the step, for the model
		before := ss[0].Query("SELECT a, b, c, d FROM t ORDER BY a")
		// api
		ra := queryWithBindings(ss[0], tm.SQL, st.Params)
		oa := toObs(ra)
		// sql
		var ob obs
		if prep.Err != nil {
			ob = obs{err: eng.ErrKind(prep.Err)}
		} else {
			var using []string
			for k, p := range st.Params {
				ss[1].Query(fmt.Sprintf("SET @p%d = %s", k+1, p.literal()))
				using = append(using, fmt.Sprintf("@p%d", k+1))
			}
			q := fmt.Sprintf("EXECUTE s%d", st.T)
			if len(using) > 0 {
				q += " USING " + strings.Join(using, ", ")
			}
			ob = toObs(ss[1].Query(q))
		}
		// text
		oc := toObs(ss[2].Query(inline(tm.SQL, st.Params)))
		// binary protocol: the prepared statement with typed arguments, and the inlined text on the twin
		wb, wt, wtabB, wtabT := wc.exec(st.T, tm.SQL, st.Params)
		// effects
		var tabs [3]obs
		for i := range ss {
			tabs[i] = toObs(ss[i].Query("SELECT * FROM t ORDER BY a"))
		}
		c.Count("params:" + paramTypes(st.Params))
		if oc.err != "" {
			c.Count("text-error:" + oc.err)
		}
		if wt.err != "" {
			c.Count("wire-text-error:" + wt.err)
		}
		key := ""
		if len(oc.rows) > 0 || strings.HasPrefix(tm.Kind, "insert") || strings.HasPrefix(tm.Kind, "update") || strings.HasPrefix(tm.Kind, "delete") {
			key = fmt.Sprintf("%s|%v|%v", tm.SQL, st.Params, tabs[2].rows)
		}
		allModelled := tm.CoqStmt != "" && before.Err == nil
		for _, p := range st.Params {
			allModelled = allModelled && p.modelled()
		}
		if allModelled {
			// Coq case: typed arguments with the observed literals, statement, table before, observed (rows, table after)
			var args, db []string
			for k, p := range st.Params {
				args = append(args, p.typedArg(ss[0], si+k))
			}
			for _, r := range before.Rows {
				db = append(db, coqRow(r))
			}
			observed := "None"
			after := ss[0].Query("SELECT a, b, c, d FROM t ORDER BY a")
			if ra.Err == nil && after.Err == nil {
				var rows, tab []string
				if strings.HasPrefix(tm.Kind, "select") {
					for _, r := range ra.Rows {
						rows = append(rows, coqRow(r))
					}
				}
				for _, r := range after.Rows {
					tab = append(tab, coqRow(r))
				}
				observed = "(Some (" + lib.CoqList(rows) + ", " + lib.CoqList(tab) + "))"
			}
			term := fmt.Sprintf("(%s, %s, %s, %s)", lib.CoqList(args), tm.CoqStmt, lib.CoqList(db), observed)
			id = c.Case(term, cs, key)
			c.Count("modelled:" + tm.Kind)
			evals++
		} else {
			id = c.CaseNoModel(cs, key)
			evals++
		}
		c.PredChecked()
		if failed {
			continue
		}
		ddl := ""
		if afterDDL {
			ddl = "/after-ddl"
		}
		first := ""
		if nexec > 1 {
			first = "/re-execution"
		}
		if len(st.Params) >= 10 {
			first += "/10+params"
		}
		if caseVariant {
			first += "/texts-differing-only-in-case-in-session"
		}
		report := func(way string, o obs, tab obs, ref obs, refTab obs, refText string) bool {
			switch {
			case !same(o, ref):
				kind := "rows-differ"
				if o.err != ref.err {
					kind = "error-" + o.err + "-vs-" + map[bool]string{true: "ok", false: ref.err}[ref.err == ""]
				}
				c.PredFail(id, fmt.Sprintf("%s/%s/%s/%s%s%s", way, tm.Kind, paramTypes(st.Params), kind, ddl, first),
					fmt.Sprintf("%q with %v (step %d of %v over %q): %s returns %v, inlined text %q returns %v",
						tm.SQL, st.Params, si, cs.Steps, cs.Setup, way, o, refText, ref), cs)
				return true
			case !same(tab, refTab):
				c.PredFail(id, fmt.Sprintf("%s/%s/%s/effect-differs%s%s", way, tm.Kind, paramTypes(st.Params), ddl, first),
					fmt.Sprintf("%q with %v (step %d of %v over %q): table after %s is %v, after inlined text %q it is %v",
						tm.SQL, st.Params, si, cs.Steps, cs.Setup, way, tab, refText, refTab), cs)
				return true
			}
			return false
		}
		txt := inline(tm.SQL, st.Params)
		if report("api", oa, tabs[0], oc, tabs[2], txt) || report("sql-prepare", ob, tabs[1], oc, tabs[2], txt) ||
			(wc.on && report("wire-binary", wb, wtabB, wt, wtabT, inlineWith(tm.SQL, st.Params, param.wireLiteral))) {
			failed = true
		}
	}
}

func coqRow(r sql.Row) string {
	var vs []string
	for _, v := range r {
		t := coqAny(v)
		if t == "" {
			t = fmt.Sprintf("(VInt 777777%%Z) (* unexpected %T %v *)", v, v)
		}
		vs = append(vs, t)
	}
	return lib.CoqList(vs)
}

// ---------- the binary protocol ----------
// Two servers over the memory backend on ephemeral 127.0.0.1 ports: on the first the statement is prepared once per
// case (COM_STMT_PREPARE) and executed with typed Go arguments (COM_STMT_EXECUTE: int64, uint64, float64, string,
// []byte, time.Time, nil); on the twin the text with the values inlined is prepared and executed without arguments,
// so both results travel in the binary row format.  Table contents are read in-process from the two engines.

type wireSrv struct {
	e   *eng.E
	db  *dsql.DB
	srv *server.Server
}

var wireB, wireT *wireSrv
var wireOff bool

func startWire() *wireSrv {
	logrus.SetLevel(logrus.PanicLevel)
	e := eng.New("db")
	ln, err := net.Listen("tcp", "127.0.0.1:0")
	if err != nil {
		panic(err)
	}
	cfg := server.Config{Protocol: "tcp", Address: ln.Addr().String(), Listener: ln}
	srv, err := server.NewServer(cfg, e.Engine, sql.NewContext, memory.NewSessionBuilder(e.Pro), nil)
	if err != nil {
		panic(err)
	}
	go func() { _ = srv.Start() }()
	mc := gomysql.NewConfig()
	mc.User, mc.Net, mc.Addr, mc.DBName = "root", "tcp", ln.Addr().String(), "db"
	mc.InterpolateParams = false
	mc.Loc = time.UTC
	db, err := dsql.Open("mysql", mc.FormatDSN())
	if err != nil {
		panic(err)
	}
	for i := 0; ; i++ {
		if err = db.Ping(); err == nil {
			break
		}
		if i > 200 {
			panic("wire server does not answer: " + err.Error())
		}
		time.Sleep(20 * time.Millisecond)
	}
	return &wireSrv{e: e, db: db, srv: srv}
}

type wireCase struct {
	on     bool
	cb, ct *dsql.Conn
	stmts  map[int]*dsql.Stmt
	perr   map[int]error
}

func wireBegin(cs caseT) *wireCase {
	w := &wireCase{stmts: map[int]*dsql.Stmt{}, perr: map[int]error{}}
	if wireOff {
		return w
	}
	if wireB == nil {
		wireB, wireT = startWire(), startWire()
	}
	ctx := context.Background()
	var err error
	if w.cb, err = wireB.db.Conn(ctx); err != nil {
		panic(err)
	}
	if w.ct, err = wireT.db.Conn(ctx); err != nil {
		panic(err)
	}
	w.on = true
	for _, c := range []*dsql.Conn{w.cb, w.ct} {
		if _, err := c.ExecContext(ctx, "DROP TABLE IF EXISTS t"); err != nil {
			panic(err)
		}
		for _, st := range cs.Setup {
			if _, err := c.ExecContext(ctx, st); err != nil {
				w.on = false
			}
		}
	}
	return w
}

func (w *wireCase) end() {
	for _, st := range w.stmts {
		st.Close()
	}
	if w.cb != nil {
		w.cb.Close()
	}
	if w.ct != nil {
		w.ct.Close()
	}
}

func (w *wireCase) prepare(k int, q string) {
	if !w.on {
		return
	}
	st, err := w.cb.PrepareContext(context.Background(), q)
	if err != nil {
		w.perr[k] = err
		return
	}
	w.stmts[k] = st
}

func (w *wireCase) other(q string) {
	if !w.on {
		return
	}
	w.cb.ExecContext(context.Background(), q)
	w.ct.ExecContext(context.Background(), q)
}

func wireErr(err error) string {
	if e, ok := err.(*gomysql.MySQLError); ok {
		return fmt.Sprintf("mysql-%d", e.Number)
	}
	return "driver: " + err.Error()
}

// wireRows: canonical bag of a binary-protocol result
func wireRows(rows *dsql.Rows, err error) obs {
	if err != nil {
		return obs{err: wireErr(err)}
	}
	defer rows.Close()
	cols, _ := rows.Columns()
	var out []string
	for rows.Next() {
		vals := make([]interface{}, len(cols))
		ptrs := make([]interface{}, len(cols))
		for i := range vals {
			ptrs[i] = &vals[i]
		}
		if err := rows.Scan(ptrs...); err != nil {
			return obs{err: wireErr(err)}
		}
		var sb strings.Builder
		for i, v := range vals {
			if i > 0 {
				sb.WriteString(" | ")
			}
			switch x := v.(type) {
			case nil:
				sb.WriteString("NULL")
			case []byte:
				fmt.Fprintf(&sb, "%q", string(x))
			case string:
				fmt.Fprintf(&sb, "%q", x)
			case float32:
				sb.WriteString(strconv.FormatFloat(float64(x), 'g', -1, 32))
			case float64:
				sb.WriteString(strconv.FormatFloat(x, 'g', -1, 64))
			case time.Time:
				sb.WriteString(x.UTC().Format("2006-01-02 15:04:05.999999"))
			default:
				fmt.Fprintf(&sb, "%v", x)
			}
		}
		out = append(out, sb.String())
	}
	if err := rows.Err(); err != nil {
		return obs{err: wireErr(err)}
	}
	sort.Strings(out)
	return obs{rows: out}
}

// exec: (bound result, inlined-text result on the twin, table after on either engine)
func (w *wireCase) exec(k int, q string, ps []param) (wb, wt, tabB, tabT obs) {
	if !w.on {
		return
	}
	ctx := context.Background()
	if st, ok := w.stmts[k]; ok {
		args := make([]interface{}, len(ps))
		for i, p := range ps {
			args[i] = p.wireArg()
		}
		wb = wireRows(st.QueryContext(ctx, args...))
	} else {
		wb = obs{err: wireErr(w.perr[k])}
	}
	st, err := w.ct.PrepareContext(ctx, inlineWith(q, ps, param.wireLiteral))
	if err != nil {
		wt = obs{err: wireErr(err)}
	} else {
		wt = wireRows(st.QueryContext(ctx))
		st.Close()
	}
	tabB = toObs(wireB.e.Session().Query("SELECT * FROM t ORDER BY a"))
	tabT = toObs(wireT.e.Session().Query("SELECT * FROM t ORDER BY a"))
	return
}

var evals int

func corpus() []caseT {
	return []caseT{
		{Kind: "select-int", Template: "SELECT a, b FROM t WHERE (b = ?)", CoqStmt: "(Select [(Col 0); (Col 1)] (Eq (Col 1) (Bind 0)))",
			Setup: []string{"CREATE TABLE t (a INT PRIMARY KEY, b INT, c VARCHAR(20), d DECIMAL(10,2))", "INSERT INTO t VALUES (1, 5, 'x', 1.50), (2, NULL, 'y', NULL), (3, 7, NULL, 2.00)"},
			Steps: []stepT{{Params: []param{{Type: "int", Text: "5"}}}, {Other: "UPDATE t SET b = 7 WHERE a = 1"}, {Params: []param{{Type: "int", Text: "7"}}}, {Params: []param{{Type: "null"}}}}},
	}
}

func main() {
	lib.Main("C12", func(c *lib.Ctx) {
		c.Header = "From Coq Require Import List ZArith NArith String Decimal.\nImport ListNotations.\nFrom GMS Require Import Lang.C12Prepared Lang.C12Binding Corr.C12.\nOpen Scope N_scope."
		c.CaseType = "C12.case"
		c.MismatchFn = "C12.mismatches"
		c.SetRule("histories of 2-5 executions of one parameterised statement (integer-fragment SELECTs with random predicates over =, <, <=, <=>, +, -, AND, OR, NOT, IS NULL, IN, BETWEEN; " +
			"string / decimal / mixed-type SELECTs, LIMIT ?, SELECT *, aggregates, subquery; INSERT / UPDATE / DELETE) with values over int64 boundaries, uint64, decimals, strings with quotes / " +
			"backslashes / wildcards / multi-byte, NULL; 1/3 of the gaps hold a plain DML, CREATE INDEX or ALTER TABLE. Three engines (api bindings, SQL PREPARE/EXECUTE, inlined text) are compared after every " +
			"execution on result bag, error kind and table contents; the api result of the integer fragment is compared with the Coq model. One evaluation = one execution step; non-trivial = non-empty result or DML.")
		if q := os.Getenv("C12_SQL"); q != "" { // debugging aid: run statements separated by ';;' on a fresh engine
			s := eng.New("db").Session()
			for _, st := range strings.Split(q, ";;") {
				r := s.Query(st)
				fmt.Println(st, "=>", eng.Rows(r.Rows), r.Err)
			}
			return
		}
		if c.ReplayFile != "" {
			var cs caseT
			lib.LoadReplay(c.ReplayFile, &cs)
			run(c, cs)
			return
		}
		for _, cs := range corpus() {
			run(c, cs)
		}
		for evals < c.N {
			run(c, gen(c.R.Fork()))
		}
	})
}

// coq: a small integer / NULL as a term of the model's val
func (p param) coq() string {
	if p.Type == "null" {
		return "VNull"
	}
	return "(VInt " + coqZText(p.Text) + ")"
}
