// Driver for C18 (foreign keys): generated foreign key graphs (chains, diamonds, self references) over tables
// (id INT PRIMARY KEY, f1 INT, f2 INT) with RESTRICT / NO ACTION / CASCADE / SET NULL, and DML histories run on the real
// engine.  Outcome kind and all table contents after every statement go to the Coq model (Store/C18FK.v).  Property
// predicate on the implementation alone: after every statement the orphan query (child LEFT JOIN parent ... WHERE
// parent.id IS NULL AND child.fk IS NOT NULL) is empty for every key, a failing statement changes nothing, and the
// effect of a successful statement equals an independent reference (reachability fixpoint for cascades).
package main

import (
	"fmt"
	"sort"
	"strings"

	"verifharness/lib"
	"verifharness/lib/eng"
)

type FK struct {
	Child  int    `json:"c"`
	Col    int    `json:"col"` // 1 or 2
	Parent int    `json:"p"`
	OnDel  string `json:"d"` // Restrict NoAction Cascade SetNull
	OnUpd  string `json:"u"`
}

type Stmt struct {
	K  string `json:"k"` // ins del updid updcol
	T  int    `json:"t"`
	ID int64  `json:"id"`
	A  *int64 `json:"a,omitempty"` // ins: f1; updid: new id; updcol: value
	B  *int64 `json:"b,omitempty"` // ins: f2
	C  int    `json:"c,omitempty"` // updcol: column 1|2
}

type caseT struct {
	NTab int    `json:"ntab"`
	FKs  []FK   `json:"fks"`
	H    []Stmt `json:"h"`
}

var actSQL = map[string]string{"Restrict": "RESTRICT", "NoAction": "NO ACTION", "Cascade": "CASCADE", "SetNull": "SET NULL"}

func optSQL(v *int64) string {
	if v == nil {
		return "NULL"
	}
	return fmt.Sprintf("%d", *v)
}

func coqZ(z int64) string {
	if z < 0 {
		return fmt.Sprintf("(%d)", z)
	}
	return fmt.Sprintf("%d", z)
}

func optCoq(v *int64) string {
	if v == nil {
		return "NUL"
	}
	return "(V " + coqZ(*v) + ")"
}

func (s Stmt) sql() string {
	t := fmt.Sprintf("t%d", s.T)
	switch s.K {
	case "ins":
		return fmt.Sprintf("INSERT INTO %s VALUES (%d, %s, %s)", t, s.ID, optSQL(s.A), optSQL(s.B))
	case "del":
		return fmt.Sprintf("DELETE FROM %s WHERE id = %d", t, s.ID)
	case "updid":
		return fmt.Sprintf("UPDATE %s SET id = %d WHERE id = %d", t, *s.A, s.ID)
	}
	return fmt.Sprintf("UPDATE %s SET f%d = %s WHERE id = %d", t, s.C, optSQL(s.A), s.ID)
}

func (s Stmt) coq() string {
	switch s.K {
	case "ins":
		return fmt.Sprintf("SInsert %d (R %s %s %s)", s.T, coqZ(s.ID), optCoq(s.A), optCoq(s.B))
	case "del":
		return fmt.Sprintf("SDelete %d %s", s.T, coqZ(s.ID))
	case "updid":
		return fmt.Sprintf("SUpdId %d %s %s", s.T, coqZ(s.ID), coqZ(*s.A))
	}
	return fmt.Sprintf("SUpdCol %d %s %s %s", s.T, coqZ(s.ID), lib.CoqBool(s.C == 2), optCoq(s.A))
}

func ip(z int64) *int64 { return &z }

// ---- generator ----

func gen(r *lib.RNG) caseT {
	var c caseT
	acts := []string{"Restrict", "NoAction", "Cascade", "Cascade", "SetNull", "SetNull"}
	fk := func(ch, col, p int) FK { return FK{ch, col, p, lib.Pick(r, acts), lib.Pick(r, acts)} }
	switch r.Intn(4) {
	case 0: // chain t0 <- t1 <- t2
		c.NTab = 3
		c.FKs = []FK{fk(1, 1, 0), fk(2, 1, 1)}
	case 1: // diamond t0 <- t1, t0 <- t2, t3 -> t1, t3 -> t2
		c.NTab = 4
		c.FKs = []FK{fk(1, 1, 0), fk(2, 1, 0), fk(3, 1, 1), fk(3, 2, 2)}
	case 2: // self reference, plus a child of it
		c.NTab = 2
		c.FKs = []FK{fk(0, 1, 0), fk(1, 1, 0)}
	default: // two keys from one child to one parent, and a grandchild
		c.NTab = 3
		c.FKs = []FK{fk(1, 1, 0), fk(1, 2, 0), fk(2, 1, 1)}
	}
	if r.Chance(1, 4) {
		for i, j := 0, len(c.FKs)-1; i < j; i, j = i+1, j-1 {
			c.FKs[i], c.FKs[j] = c.FKs[j], c.FKs[i]
		}
	}
	// ids per table: table t uses t*10+1 .. t*10+5
	live := make([][]int64, c.NTab)
	key := func(t int) *int64 {
		x := r.Intn(10)
		switch {
		case x < 2:
			return nil
		case x < 9 && len(live[t]) > 0:
			return ip(lib.Pick(r, live[t]))
		}
		return ip(int64(t*10 + r.Range(1, 6)))
	}
	parentOf := func(t, col int) int {
		for _, f := range c.FKs {
			if f.Child == t && f.Col == col {
				return f.Parent
			}
		}
		return -1
	}
	val := func(t, col int) *int64 {
		p := parentOf(t, col)
		if p < 0 {
			if r.Chance(1, 2) {
				return nil
			}
			return ip(int64(r.Range(1, 9)))
		}
		return key(p)
	}
	next := make([]int64, c.NTab)
	n := r.Range(8, 16)
	for i := 0; i < n; i++ {
		t := r.Intn(c.NTab)
		x := r.Intn(10)
		switch {
		case x < 5 || len(live[t]) == 0:
			if next[t] >= 6 {
				continue
			}
			next[t]++
			id := int64(t*10) + next[t]
			s := Stmt{K: "ins", T: t, ID: id, A: val(t, 1), B: val(t, 2)}
			if parentOf(t, 1) == t && r.Chance(1, 4) {
				s.A = ip(id) // self-referencing row
			}
			c.H = append(c.H, s)
			live[t] = append(live[t], id) // optimistic: may have failed, the id is then simply absent
		case x < 7:
			c.H = append(c.H, Stmt{K: "del", T: t, ID: lib.Pick(r, live[t])})
		case x < 8:
			nid := int64(t*10 + r.Range(1, 9))
			c.H = append(c.H, Stmt{K: "updid", T: t, ID: lib.Pick(r, live[t]), A: ip(nid)})
			live[t] = append(live[t], nid)
		default:
			col := r.Range(1, 2)
			c.H = append(c.H, Stmt{K: "updcol", T: t, ID: lib.Pick(r, live[t]), C: col, A: val(t, col)})
		}
	}
	return c
}

// ---- running ----

type rowT struct {
	ID int64
	F  [3]*int64 // F[1], F[2]
}
type dbT [][]rowT

func readDB(s *eng.S, n int) dbT {
	d := make(dbT, n)
	for t := 0; t < n; t++ {
		r := s.Query(fmt.Sprintf("SELECT id, f1, f2 FROM t%d ORDER BY id", t))
		if r.Err != nil {
			panic(r.Err)
		}
		for _, row := range r.Rows {
			x := rowT{ID: toI(row[0])}
			for j := 1; j <= 2; j++ {
				if row[j] != nil {
					x.F[j] = ip(toI(row[j]))
				}
			}
			d[t] = append(d[t], x)
		}
	}
	return d
}

func toI(v interface{}) int64 {
	switch x := v.(type) {
	case int32:
		return int64(x)
	case int64:
		return x
	}
	panic(fmt.Sprintf("unexpected value %T", v))
}

func (d dbT) coq() string {
	var ts []string
	for _, t := range d {
		var rs []string
		for _, r := range t {
			rs = append(rs, fmt.Sprintf("R %s %s %s", coqZ(r.ID), optCoq(r.F[1]), optCoq(r.F[2])))
		}
		ts = append(ts, lib.CoqList(rs))
	}
	return lib.CoqList(ts)
}

func (d dbT) String() string {
	var sb strings.Builder
	for t, rows := range d {
		fmt.Fprintf(&sb, "t%d:", t)
		for _, r := range rows {
			fmt.Fprintf(&sb, "(%d,%s,%s)", r.ID, optSQL(r.F[1]), optSQL(r.F[2]))
		}
		sb.WriteString(" ")
	}
	return sb.String()
}

func (d dbT) clone() dbT {
	out := make(dbT, len(d))
	for i := range d {
		out[i] = append([]rowT{}, d[i]...)
	}
	return out
}

func (d dbT) find(t int, id int64) int {
	for i, r := range d[t] {
		if r.ID == id {
			return i
		}
	}
	return -1
}

func eqp(a, b *int64) bool { return (a == nil) == (b == nil) && (a == nil || *a == *b) }

// refDelete: the prescribed effect of deleting (t,id) as a fixpoint, independent of the engine's recursion: the set of
// rows reachable through ON DELETE CASCADE edges is deleted, rows referencing a deleted row through SET NULL get NULL,
// and if a surviving row references a deleted row through a RESTRICT / NO ACTION key the statement must fail.
// mayFail: a row that is itself deleted references a deleted row through a RESTRICT / NO ACTION key (e.g. a row
// referencing itself); whether the engine meets that key before deleting the row depends on the order, both outcomes
// are accepted.
func refDelete(d dbT, fks []FK, t int, id int64) (out dbT, ok bool, mayFail bool) {
	type rk struct {
		t  int
		id int64
	}
	dead := map[rk]bool{{t, id}: true}
	for changed := true; changed; {
		changed = false
		for _, f := range fks {
			if f.OnDel != "Cascade" {
				continue
			}
			for _, r := range d[f.Child] {
				if v := r.F[f.Col]; v != nil && dead[rk{f.Parent, *v}] && !dead[rk{f.Child, r.ID}] {
					dead[rk{f.Child, r.ID}] = true
					changed = true
				}
			}
		}
	}
	out = make(dbT, len(d))
	for ti := range d {
		for _, r := range d[ti] {
			if dead[rk{ti, r.ID}] {
				for _, f := range fks {
					if v := r.F[f.Col]; f.Child == ti && v != nil && dead[rk{f.Parent, *v}] && (f.OnDel == "Restrict" || f.OnDel == "NoAction") {
						mayFail = true
					}
				}
				continue
			}
			nr := r
			for _, f := range fks {
				if f.Child != ti {
					continue
				}
				if v := r.F[f.Col]; v != nil && dead[rk{f.Parent, *v}] {
					switch f.OnDel {
					case "SetNull":
						nr.F[f.Col] = nil
					case "Restrict", "NoAction":
						return d, false, false
					}
				}
			}
			out[ti] = append(out[ti], nr)
		}
	}
	return out, true, mayFail
}

func sameDB(a, b dbT) bool {
	if len(a) != len(b) {
		return false
	}
	for t := range a {
		if len(a[t]) != len(b[t]) {
			return false
		}
		for i := range a[t] {
			if a[t][i].ID != b[t][i].ID || !eqp(a[t][i].F[1], b[t][i].F[1]) || !eqp(a[t][i].F[2], b[t][i].F[2]) {
				return false
			}
		}
	}
	return true
}

func errKind(err error) string {
	if err == nil {
		return "None"
	}
	m := err.Error()
	switch {
	case strings.Contains(m, "Foreign key violation"), eng.ErrKind(err) == "fk" && !strings.Contains(m, "depth"):
		return "(Some EFk)"
	case eng.ErrKind(err) == "dup-key":
		return "(Some EDup)"
	case strings.Contains(m, "depth"):
		return "(Some EDepth)"
	}
	return "other"
}

func run(c *lib.Ctx, cs caseT) {
	e := eng.New("db")
	s := e.Session()
	s.MustExec("SET foreign_key_checks = 1")
	for t := 0; t < cs.NTab; t++ {
		s.MustExec(fmt.Sprintf("CREATE TABLE t%d (id INT PRIMARY KEY, f1 INT, f2 INT)", t))
	}
	for i, f := range cs.FKs {
		s.MustExec(fmt.Sprintf("ALTER TABLE t%d ADD CONSTRAINT fk%d FOREIGN KEY (f%d) REFERENCES t%d (id) ON DELETE %s ON UPDATE %s",
			f.Child, i, f.Col, f.Parent, actSQL[f.OnDel], actSQL[f.OnUpd]))
	}
	type failT struct{ sig, what string }
	var fails []failT
	fail := func(sig, what string) { fails = append(fails, failT{sig, what}) }
	prev := readDB(s, cs.NTab)
	prevOrphans := map[int]int64{}
	var events []string
	nCascade := 0
	for si, st := range cs.H {
		q := st.sql()
		r := s.Query(q)
		kind := errKind(r.Err)
		if r.Panic != "" {
			fail("panic", q+" panicked: "+r.Panic)
			kind = "(Some EFk)"
		} else if kind == "other" {
			fail("unexpected-error/"+st.K, fmt.Sprintf("%s failed: %v", q, r.Err))
			kind = "(Some EFk)"
		}
		cur := readDB(s, cs.NTab)
		// the one shape the model does not cover: DELETE of a row with >= 2 ON DELETE CASCADE children in its own table
		shape := st.K
		if st.K == "del" {
			for _, f := range cs.FKs {
				if f.Child == st.T && f.Parent == st.T && f.OnDel == "Cascade" {
					n := 0
					for _, rw := range prev[st.T] {
						if v := rw.F[f.Col]; v != nil && *v == st.ID && rw.ID != st.ID {
							n++
						}
					}
					if n >= 2 {
						shape = "del-self-referential-cascade-siblings"
					}
				}
			}
		}
		if shape == "del-self-referential-cascade-siblings" {
			c.Count("stmt/" + shape)
			events = append(events, fmt.Sprintf("EvSkip %s", cur.coq()))
		} else {
			events = append(events, fmt.Sprintf("Ev (%s) %s %s", st.coq(), kind, cur.coq()))
		}
		// 1. referential integrity by the orphan query
		for i, f := range cs.FKs {
			oq := fmt.Sprintf("SELECT COUNT(*) FROM t%d c LEFT JOIN t%d p ON c.f%d = p.id WHERE p.id IS NULL AND c.f%d IS NOT NULL", f.Child, f.Parent, f.Col, f.Col)
			rr := s.Query(oq)
			if rr.Err != nil || len(rr.Rows) != 1 {
				panic(fmt.Sprintf("orphan query failed: %v", rr.Err))
			}
			n := toI(rr.Rows[0][0])
			was := prevOrphans[i]
			prevOrphans[i] = n
			if n > was {
				fail(fmt.Sprintf("orphan-rows/%s/on-delete-%s", shape, f.OnDel),
					fmt.Sprintf("after statement %d %s: %d row(s) of t%d.f%d reference a missing t%d.id (fk%d) [%s]; tables %s", si, q, n, f.Child, f.Col, f.Parent, i, oq, cur))
			}
		}
		// 2. a failing statement changes nothing
		if kind != "None" && !sameDB(prev, cur) {
			fail("failed-statement-changed-tables/"+st.K, fmt.Sprintf("statement %d %s failed (%v) but tables changed from %s to %s", si, q, r.Err, prev, cur))
		}
		// 3. exact effect, by an independent reference
		switch st.K {
		case "del":
			if prev.find(st.T, st.ID) >= 0 {
				want, ok, mayFail := refDelete(prev, cs.FKs, st.T, st.ID)
				if !sameDB(want, prev) && ok {
					nCascade++
				}
				switch {
				case ok && kind != "None" && kind != "(Some EDepth)" && !mayFail:
					// the engine may legitimately be stricter only through RESTRICT met during the cascade; the
					// reference already accounts for that, so a refusal here is a wrong refusal
					fail("delete-wrongly-refused", fmt.Sprintf("statement %d %s failed (%v) although no RESTRICT key is reached; tables %s", si, q, r.Err, prev))
				case !ok && kind == "None":
					fail("delete-ignored-restrict", fmt.Sprintf("statement %d %s succeeded although a RESTRICT/NO ACTION key references a deleted row; before %s after %s", si, q, prev, cur))
				case ok && kind == "None" && !sameDB(want, cur):
					fail("delete-effect-differs/"+shape, fmt.Sprintf("statement %d %s: expected %s, got %s", si, q, want, cur))
				}
			}
		case "ins":
			if kind == "None" {
				want := prev.clone()
				want[st.T] = append(want[st.T], rowT{ID: st.ID, F: [3]*int64{nil, st.A, st.B}})
				sort.Slice(want[st.T], func(i, j int) bool { return want[st.T][i].ID < want[st.T][j].ID })
				if !sameDB(want, cur) {
					fail("insert-effect-differs", fmt.Sprintf("statement %d %s: expected %s, got %s", si, q, want, cur))
				}
			}
		}
		prev = cur
	}
	var fks []string
	for _, f := range cs.FKs {
		fks = append(fks, fmt.Sprintf("FK %d %s %d %s %s", f.Child, lib.CoqBool(f.Col == 2), f.Parent, f.OnDel, f.OnUpd))
	}
	term := fmt.Sprintf("Case %d %s %s", cs.NTab, lib.CoqList(fks), lib.CoqList(events))
	key := fmt.Sprintf("%v|", fks)
	for _, st := range cs.H {
		key += st.sql() + ";"
		c.Count("stmt/" + st.K)
	}
	c.Count(fmt.Sprintf("tables/%d", cs.NTab))
	if nCascade > 0 {
		c.Count("case-with-cascading-delete")
	}
	id := c.Case(term, cs, key)
	c.PredChecked()
	seen := map[string]bool{}
	for _, f := range fails {
		if !seen[f.sig] {
			seen[f.sig] = true
			c.PredFail(id, f.sig, f.what, cs)
		}
	}
}

func main() {
	lib.Main("C18", func(c *lib.Ctx) {
		c.Header = "From Coq Require Import List ZArith.\nImport ListNotations.\nFrom GMS Require Import Store.C18FK Corr.C18.\nOpen Scope N_scope."
		c.CaseType = "C18.case"
		c.MismatchFn = "C18.mismatches"
		c.SetRule("2-4 tables (id INT PRIMARY KEY, f1 INT, f2 INT); foreign key graphs: chain, diamond, self reference + child, double key + grandchild, " +
			"random ON DELETE / ON UPDATE in RESTRICT, NO ACTION, CASCADE, SET NULL, random declaration order; histories of 8-16 single-row " +
			"INSERT, DELETE by id, UPDATE of the id, UPDATE of a key column, keys mostly taken from live parent ids, some dangling, some NULL. " +
			"One case in four uses a COMPOSITE key t1 (f1, f2) -> t0 (f1, f2) (UNIQUE on the parent, values in 1..3 or NULL, parent updates of the " +
			"non-last key column, child rows with one NULL part): those are checked by the implementation-side predicate only. " +
			"Every case is non-trivial; distinct = distinct (graph, history).")
		if c.ReplayFile != "" {
			var cc compCase
			lib.LoadReplay(c.ReplayFile, &cc)
			if cc.Composite {
				runComposite(c, cc)
				return
			}
			var cs caseT
			lib.LoadReplay(c.ReplayFile, &cs)
			run(c, cs)
			return
		}
		corpus := []caseT{
			{NTab: 3, FKs: []FK{{1, 1, 0, "Cascade", "Cascade"}, {2, 1, 0, "Cascade", "SetNull"}, {2, 2, 1, "Cascade", "Restrict"}},
				H: []Stmt{{K: "ins", T: 0, ID: 1}, {K: "ins", T: 0, ID: 2}, {K: "ins", T: 1, ID: 10, A: ip(1)}, {K: "ins", T: 1, ID: 11, A: ip(2)},
					{K: "ins", T: 2, ID: 20, A: ip(1), B: ip(10)}, {K: "ins", T: 2, ID: 21, A: ip(2), B: ip(10)}, {K: "ins", T: 2, ID: 22, A: ip(1), B: ip(11)},
					{K: "ins", T: 2, ID: 23, A: ip(3)}, {K: "del", T: 0, ID: 1}, {K: "updid", T: 0, ID: 2, A: ip(5)}, {K: "updid", T: 1, ID: 11, A: ip(12)}}},
			{NTab: 1, FKs: []FK{{0, 1, 0, "Cascade", "Cascade"}},
				H: []Stmt{{K: "ins", T: 0, ID: 1, A: ip(1)}, {K: "ins", T: 0, ID: 2, A: ip(1)}, {K: "ins", T: 0, ID: 3, A: ip(2)}, {K: "ins", T: 0, ID: 6, A: ip(7)},
					{K: "updid", T: 0, ID: 1, A: ip(9)}, {K: "del", T: 0, ID: 2}, {K: "del", T: 0, ID: 1}}},
			{NTab: 2, FKs: []FK{{1, 1, 0, "SetNull", "SetNull"}, {1, 2, 0, "Restrict", "Cascade"}},
				H: []Stmt{{K: "ins", T: 0, ID: 1}, {K: "ins", T: 0, ID: 2}, {K: "ins", T: 1, ID: 10, A: ip(1), B: ip(2)}, {K: "del", T: 0, ID: 2},
					{K: "del", T: 0, ID: 1}, {K: "updid", T: 0, ID: 2, A: ip(3)}, {K: "updcol", T: 1, ID: 10, C: 2, A: ip(7)}, {K: "updcol", T: 1, ID: 10, C: 2}}},
		}
		// known finding: self-referential ON DELETE CASCADE skips siblings: (4,1) survives the delete of row 1
		corpus = append(corpus, caseT{NTab: 1, FKs: []FK{{0, 1, 0, "Cascade", "Restrict"}},
			H: []Stmt{{K: "ins", T: 0, ID: 1}, {K: "ins", T: 0, ID: 2, A: ip(1)}, {K: "ins", T: 0, ID: 3, A: ip(1)}, {K: "ins", T: 0, ID: 4, A: ip(1)}, {K: "del", T: 0, ID: 1}}})
		for _, cs := range corpus {
			run(c, cs)
		}
		// a child key column that is NULL (after ON DELETE SET NULL) updated to a value without parent: must be rejected
		run(c, caseT{NTab: 2, FKs: []FK{{1, 1, 0, "SetNull", "Cascade"}},
			H: []Stmt{{K: "ins", T: 0, ID: 1}, {K: "ins", T: 0, ID: 2}, {K: "ins", T: 1, ID: 11, A: ip(1)}, {K: "del", T: 0, ID: 1},
				{K: "updcol", T: 1, ID: 11, C: 1, A: ip(7)}, {K: "updcol", T: 1, ID: 11, C: 1, A: ip(2)}, {K: "updcol", T: 1, ID: 11, C: 1, A: ip(9)}}})
		nc := 4
		for _, a := range []string{"Restrict", "Cascade", "SetNull"} {
			// composite key: parent UPDATE of the NON-LAST key column; child with one NULL part updated to a dangling key
			runComposite(c, compCase{Composite: true, OnDel: "SetNull", OnUpd: a, H: []Stmt{
				{K: "ins", T: 0, ID: 1, A: ip(1), B: ip(1)}, {K: "ins", T: 0, ID: 2, A: ip(1), B: ip(2)}, {K: "ins", T: 1, ID: 11, A: ip(1), B: ip(1)},
				{K: "ins", T: 1, ID: 12, B: ip(2)}, {K: "updcol", T: 0, ID: 1, C: 1, A: ip(3)}, {K: "updcol", T: 1, ID: 12, C: 1, A: ip(3)},
				{K: "updcol", T: 1, ID: 12, C: 1, A: ip(1)}, {K: "del", T: 0, ID: 2}, {K: "updcol", T: 1, ID: 12, C: 1, A: ip(2)}, {K: "updcol", T: 1, ID: 12, C: 2, A: ip(2)}}})
		}
		for i := len(corpus) + nc; i < c.N; i++ {
			if i%4 == 0 {
				runComposite(c, genComposite(c.R.Fork()))
			} else {
				run(c, gen(c.R.Fork()))
			}
		}
	})
}

// ---------------------------------------------------------------------------------------------------------------
// Composite (two-column) keys: t1 (f1, f2) REFERENCES t0 (f1, f2), t0 has UNIQUE KEY (f1, f2).  Not in the Coq model
// (single-column keys there): these cases are checked by the implementation-side predicate only, against the
// independent reference below (MATCH SIMPLE: a row with a NULL key column is exempt).

type compCase struct {
	Composite bool   `json:"composite"`
	OnDel     string `json:"d"`
	OnUpd     string `json:"u"`
	H         []Stmt `json:"h"` // kinds ins del updcol on tables 0 (parent) and 1 (child)
}

func keyOf(r rowT) (int64, int64, bool) {
	if r.F[1] == nil || r.F[2] == nil {
		return 0, 0, false
	}
	return *r.F[1], *r.F[2], true
}

func hasParent(d dbT, a, b int64) bool {
	for _, p := range d[0] {
		if x, y, ok := keyOf(p); ok && x == a && y == b {
			return true
		}
	}
	return false
}

func restrictish(a string) bool { return a == "Restrict" || a == "NoAction" }

// refComposite: the prescribed outcome of one statement (want, must fail?)
func refComposite(prev dbT, cc compCase, st Stmt) (dbT, bool) {
	d := prev.clone()
	switch {
	case st.K == "ins" && st.T == 0:
		nr := rowT{ID: st.ID, F: [3]*int64{nil, st.A, st.B}}
		if a, b, ok := keyOf(nr); ok && hasParent(d, a, b) {
			return prev, true // unique key
		}
		d[0] = append(d[0], nr)
	case st.K == "ins" && st.T == 1:
		nr := rowT{ID: st.ID, F: [3]*int64{nil, st.A, st.B}}
		if a, b, ok := keyOf(nr); ok && !hasParent(d, a, b) {
			return prev, true
		}
		d[1] = append(d[1], nr)
	case st.K == "del" && st.T == 1:
		if i := d.find(1, st.ID); i >= 0 {
			d[1] = append(d[1][:i], d[1][i+1:]...)
		}
	case st.K == "del" && st.T == 0:
		i := d.find(0, st.ID)
		if i < 0 {
			return prev, false
		}
		a, b, ok := keyOf(d[0][i])
		d[0] = append(d[0][:i], d[0][i+1:]...)
		if ok {
			var keep []rowT
			for _, c := range d[1] {
				x, y, cok := keyOf(c)
				if !(cok && x == a && y == b) {
					keep = append(keep, c)
					continue
				}
				switch {
				case restrictish(cc.OnDel):
					return prev, true
				case cc.OnDel == "SetNull":
					c.F[1], c.F[2] = nil, nil
					keep = append(keep, c)
				}
			}
			d[1] = keep
		}
	case st.K == "updcol" && st.T == 1:
		i := d.find(1, st.ID)
		if i < 0 || eqp(d[1][i].F[st.C], st.A) {
			return prev, false
		}
		d[1][i].F[st.C] = st.A
		if a, b, ok := keyOf(d[1][i]); ok && !hasParent(d, a, b) {
			return prev, true
		}
	case st.K == "updcol" && st.T == 0:
		i := d.find(0, st.ID)
		if i < 0 || eqp(d[0][i].F[st.C], st.A) {
			return prev, false
		}
		oa, ob, ook := keyOf(d[0][i])
		d[0][i].F[st.C] = st.A
		if na, nb, nok := keyOf(d[0][i]); nok {
			for j, p := range d[0] {
				if x, y, ok := keyOf(p); j != i && ok && x == na && y == nb {
					return prev, true // unique key
				}
			}
		}
		if ook {
			for j, c := range d[1] {
				x, y, cok := keyOf(c)
				if !(cok && x == oa && y == ob) {
					continue
				}
				switch {
				case restrictish(cc.OnUpd):
					return prev, true
				case cc.OnUpd == "Cascade":
					d[1][j].F[1], d[1][j].F[2] = d[0][i].F[1], d[0][i].F[2]
				default:
					d[1][j].F[1], d[1][j].F[2] = nil, nil
				}
			}
		}
	}
	for t := range d {
		sort.Slice(d[t], func(i, j int) bool { return d[t][i].ID < d[t][j].ID })
	}
	return d, false
}

func genComposite(r *lib.RNG) compCase {
	acts := []string{"Restrict", "NoAction", "Cascade", "Cascade", "SetNull", "SetNull"}
	cc := compCase{Composite: true, OnDel: lib.Pick(r, acts), OnUpd: lib.Pick(r, acts)}
	v := func() *int64 {
		if r.Chance(1, 6) {
			return nil
		}
		return ip(int64(r.Range(1, 3)))
	}
	type pk struct{ a, b *int64 }
	var parents []pk
	next := [2]int64{0, 0}
	live := [2][]int64{}
	for i, n := 0, r.Range(8, 16); i < n; i++ {
		switch x := r.Intn(12); {
		case x < 3 || len(live[0]) == 0:
			next[0]++
			p := pk{v(), v()}
			parents = append(parents, p)
			live[0] = append(live[0], next[0])
			cc.H = append(cc.H, Stmt{K: "ins", T: 0, ID: next[0], A: p.a, B: p.b})
		case x < 6:
			next[1]++
			a, b := v(), v()
			if r.Chance(3, 4) {
				p := lib.Pick(r, parents)
				a, b = p.a, p.b
				if r.Chance(1, 5) {
					a = nil // one part of the composite key NULL
				}
			}
			live[1] = append(live[1], 10+next[1])
			cc.H = append(cc.H, Stmt{K: "ins", T: 1, ID: 10 + next[1], A: a, B: b})
		case x < 9:
			// parent update; the NON-LAST key column (f1) twice as often as the last one
			col := 1
			if r.Chance(1, 3) {
				col = 2
			}
			cc.H = append(cc.H, Stmt{K: "updcol", T: 0, ID: lib.Pick(r, live[0]), C: col, A: v()})
		case x < 11 && len(live[1]) > 0:
			cc.H = append(cc.H, Stmt{K: "updcol", T: 1, ID: lib.Pick(r, live[1]), C: r.Range(1, 2), A: v()})
		default:
			t := r.Intn(2)
			if len(live[t]) > 0 {
				cc.H = append(cc.H, Stmt{K: "del", T: t, ID: lib.Pick(r, live[t])})
			}
		}
	}
	return cc
}

func runComposite(c *lib.Ctx, cc compCase) {
	e := eng.New("db")
	s := e.Session()
	s.MustExec("SET foreign_key_checks = 1",
		"CREATE TABLE t0 (id INT PRIMARY KEY, f1 INT, f2 INT, UNIQUE KEY ab (f1, f2))",
		"CREATE TABLE t1 (id INT PRIMARY KEY, f1 INT, f2 INT)",
		fmt.Sprintf("ALTER TABLE t1 ADD CONSTRAINT fk0 FOREIGN KEY (f1, f2) REFERENCES t0 (f1, f2) ON DELETE %s ON UPDATE %s", actSQL[cc.OnDel], actSQL[cc.OnUpd]))
	type failT struct{ sig, what string }
	var fails []failT
	prev := readDB(s, 2)
	orphans := int64(0)
	for si, st := range cc.H {
		q := st.sql()
		r := s.Query(q)
		cur := readDB(s, 2)
		shape := fmt.Sprintf("%s-t%d/on-delete-%s/on-update-%s", st.K, st.T, cc.OnDel, cc.OnUpd)
		if r.Panic != "" {
			fails = append(fails, failT{"composite-panic", q + " panicked: " + r.Panic})
		}
		oq := "SELECT COUNT(*) FROM t1 c LEFT JOIN t0 p ON c.f1 = p.f1 AND c.f2 = p.f2 WHERE p.id IS NULL AND c.f1 IS NOT NULL AND c.f2 IS NOT NULL"
		rr := s.Query(oq)
		if rr.Err != nil || len(rr.Rows) != 1 {
			panic(fmt.Sprintf("orphan query failed: %v", rr.Err))
		}
		if n := toI(rr.Rows[0][0]); n > orphans {
			fails = append(fails, failT{"composite-orphan-rows/" + shape, fmt.Sprintf("after statement %d %s: %d child row(s) reference a missing parent key; tables %s", si, q, n, cur)})
			orphans = n
		} else {
			orphans = n
		}
		want, mustFail := refComposite(prev, cc, st)
		switch {
		case r.Err != nil && !sameDB(prev, cur):
			fails = append(fails, failT{"composite-failed-statement-changed-tables/" + shape, fmt.Sprintf("statement %d %s failed (%v) but tables changed from %s to %s", si, q, r.Err, prev, cur)})
		case mustFail && r.Err == nil:
			fails = append(fails, failT{"composite-violation-accepted/" + shape, fmt.Sprintf("statement %d %s succeeded but must be rejected; before %s after %s", si, q, prev, cur)})
		case !mustFail && r.Err != nil:
			fails = append(fails, failT{"composite-wrongly-refused/" + shape, fmt.Sprintf("statement %d %s failed (%v) but violates nothing; tables %s", si, q, r.Err, prev)})
		case !mustFail && !sameDB(want, cur):
			fails = append(fails, failT{"composite-effect-differs/" + shape, fmt.Sprintf("statement %d %s: expected %s, got %s", si, q, want, cur)})
		}
		c.Count("composite-stmt/" + st.K + fmt.Sprintf("-t%d", st.T))
		prev = cur
	}
	c.Count("composite-key-cases")
	id := c.CaseNoModel(cc, fmt.Sprintf("%v", cc))
	c.PredChecked()
	seen := map[string]bool{}
	for _, f := range fails {
		if !seen[f.sig] {
			seen[f.sig] = true
			c.PredFail(id, f.sig, f.what, cc)
		}
	}
}
