// Driver for C36: N goroutine sessions run generated read-only queries concurrently against one engine over a
// fixed in-memory database (driver built with -race).  Every result is compared with the result of the same
// query run alone; the process list and the status counters are checked at quiescence (and recorded for the
// Coq model); a data race reported by the race detector is a predicate failure.
// The process re-executes itself as a child with GORACE=log_path=... so that race reports can be collected.
package main

import (
	"context"
	"encoding/json"
	"fmt"
	"io"
	"os"
	"os/exec"
	"path/filepath"
	"sort"
	"strings"
	"sync"
	"sync/atomic"

	"github.com/sirupsen/logrus"

	"github.com/dolthub/go-mysql-server/sql"

	"verifharness/lib"
	"verifharness/lib/eng"
)

type caseT struct {
	Sessions [][]string `json:"sessions"` // per session: the queries it runs, in order
	Stress   bool       `json:"stress,omitempty"`
	Special  string     `json:"special,omitempty"` // status-isolation | snapshot-aliasing
}

var engine *eng.E
var baseline = map[string]string{}
var nextConn uint32 = 100
var nextPid atomic.Uint64

func setup() {
	engine = eng.New("db")
	s := engine.Session()
	s.MustExec(
		"CREATE TABLE t1 (id INT PRIMARY KEY, a INT, b VARCHAR(20), KEY ia (a))",
		"CREATE TABLE t2 (id INT PRIMARY KEY, t1_id INT, v INT, KEY it (t1_id))",
		"CREATE TABLE t3 (k VARCHAR(10) PRIMARY KEY, d DECIMAL(10,2), j JSON)",
	)
	for i := 1; i <= 60; i++ {
		s.MustExec(fmt.Sprintf("INSERT INTO t1 VALUES (%d, %d, 'b%d')", i, i%7, i%5))
	}
	for i := 1; i <= 90; i++ {
		s.MustExec(fmt.Sprintf("INSERT INTO t2 VALUES (%d, %d, %d)", i, i%40+1, i*3%11))
	}
	for i := 1; i <= 12; i++ {
		s.MustExec(fmt.Sprintf("INSERT INTO t3 VALUES ('k%d', %d.%02d, '{\"x\": %d}')", i, i, i*7%100, i))
	}
	s.MustExec("CREATE VIEW v1 AS SELECT a, COUNT(*) c FROM t1 GROUP BY a")
}

const (
	qShowSess   = "SHOW STATUS LIKE 'Com_select'"
	qShowGlobal = "SHOW GLOBAL STATUS LIKE 'Com_select'"
	qShowAll    = "SHOW STATUS"
	qShowGAll   = "SHOW GLOBAL STATUS"
	qShowProcs  = "SHOW PROCESSLIST"
)

func isRegistryQuery(q string) bool { return strings.HasPrefix(q, "SHOW ") }
func isSelect(q string) bool        { return strings.HasPrefix(q, "SELECT") }

func genQuery(r *lib.RNG) string {
	p := r.Range(0, 8)
	if r.Chance(1, 5) { // registry readers: status variables (session / global) and the process list
		return lib.Pick(r, []string{qShowSess, qShowSess, qShowGlobal, qShowAll, qShowGAll, qShowProcs, qShowProcs})
	}
	switch r.Intn(14) {
	case 0:
		return fmt.Sprintf("SELECT id, a, b FROM t1 WHERE a = %d ORDER BY id", p%7)
	case 1:
		return fmt.Sprintf("SELECT t1.id, t2.v FROM t1 JOIN t2 ON t1.id = t2.t1_id WHERE t2.v > %d ORDER BY t1.id, t2.id", p)
	case 2:
		return fmt.Sprintf("SELECT a, COUNT(*), SUM(id) FROM t1 WHERE id > %d GROUP BY a ORDER BY a", p*5)
	case 3:
		return fmt.Sprintf("SELECT id FROM t1 WHERE id IN (SELECT t1_id FROM t2 WHERE v = %d) ORDER BY id", p)
	case 4:
		return fmt.Sprintf("SELECT DISTINCT b FROM t1 WHERE a <> %d ORDER BY b", p%7)
	case 5:
		return fmt.Sprintf("SELECT * FROM v1 WHERE c > %d ORDER BY a", p)
	case 6:
		return fmt.Sprintf("SELECT t1.a, MAX(t2.v) FROM t1 LEFT JOIN t2 ON t1.id = t2.t1_id AND t2.v < %d GROUP BY t1.a ORDER BY t1.a", p+2)
	case 7:
		return fmt.Sprintf("SELECT id, (SELECT COUNT(*) FROM t2 WHERE t2.t1_id = t1.id) n FROM t1 WHERE id <= %d ORDER BY id", p*4+3)
	case 8:
		return fmt.Sprintf("SELECT k, d * 2, JSON_EXTRACT(j, '$.x') FROM t3 WHERE d > %d ORDER BY k", p)
	case 9:
		return fmt.Sprintf("SELECT id FROM t1 WHERE EXISTS (SELECT 1 FROM t2 WHERE t2.t1_id = t1.id AND t2.v = %d) ORDER BY id LIMIT 10", p)
	case 10:
		return "SELECT table_name FROM information_schema.tables WHERE table_schema = 'db' ORDER BY table_name"
	case 11:
		return fmt.Sprintf("SELECT a FROM t1 WHERE id < %d UNION SELECT v FROM t2 WHERE id < %d ORDER BY 1", p*3+2, p*2+2)
	case 12:
		return fmt.Sprintf("SELECT id, ROW_NUMBER() OVER (PARTITION BY a ORDER BY id) rn FROM t1 WHERE a = %d ORDER BY id", p%7)
	default:
		return fmt.Sprintf("SELECT CONCAT(b, '-', a), UPPER(b), a + %d FROM t1 WHERE id BETWEEN %d AND %d ORDER BY id", p, p, p+9)
	}
}

func canon(r eng.Result) string {
	if r.Panic != "" {
		return "PANIC: " + r.Panic
	}
	if r.Err != nil {
		return "ERR: " + eng.ErrKind(r.Err)
	}
	return strings.Join(eng.Rows(r.Rows), "\n")
}

// queryVia runs q in session s with a registered process-list entry, as server/handler.go does.
func queryVia(s *eng.S, q string) (res eng.Result, beginErr error) {
	pl := engine.Engine.ProcessList
	ctx := sql.NewContext(context.Background(), sql.WithSession(s.Ctx.Session), sql.WithPid(nextPid.Add(1)), sql.WithProcessList(pl),
		sql.WithMemoryManager(engine.Engine.MemoryManager)) // the server shares one memory manager among all sessions
	ctx.SetCurrentDatabase("db")
	ctx, beginErr = pl.BeginQuery(ctx, q)
	if beginErr != nil {
		return
	}
	defer pl.EndQuery(ctx)
	defer func() {
		if r := recover(); r != nil {
			res.Panic = fmt.Sprint(r)
		}
	}()
	_, iter, _, err := engine.Engine.Query(ctx, q)
	if err != nil {
		res.Err = err
		return
	}
	for {
		row, err := iter.Next(ctx)
		if err == io.EOF {
			break
		}
		if err != nil {
			res.Err = err
			iter.Close(ctx)
			return
		}
		res.Rows = append(res.Rows, row.Copy())
	}
	if err := iter.Close(ctx); err != nil {
		res.Err = err
	}
	return
}

func statusVar(name string) uint64 {
	_, v, ok := sql.StatusVariables.GetGlobal(name)
	if !ok {
		panic("status variable missing: " + name)
	}
	return v.(uint64)
}

// counterStress: many goroutines increment one global status counter; no update may be lost.
func counterStress(c *lib.Ctx, cs caseT) {
	const g, n = 8, 20000
	before := statusVar("Questions")
	var wg sync.WaitGroup
	for i := 0; i < g; i++ {
		wg.Add(1)
		go func() {
			defer wg.Done()
			for k := 0; k < n; k++ {
				sql.StatusVariables.IncrementGlobal("Questions", 1)
			}
		}()
	}
	wg.Wait()
	got := statusVar("Questions") - before
	c.Count("counter_stress")
	id := c.CaseNoModel(cs, "counter-stress")
	c.PredChecked()
	if got != g*n {
		c.PredFail(id, "questions-counter-lost-updates", fmt.Sprintf("%d goroutines x %d IncrementGlobal(\"Questions\", 1) moved the counter by %d", g, n, got), cs)
	}
}

// checkRegistry: what a registry-reading statement may return while other sessions run.
func checkRegistry(q string, r eng.Result, connID uint32, nsel, g0, totalSel uint64) string {
	if r.Err != nil || r.Panic != "" {
		return "failed: " + canon(r)
	}
	find := func(name string) (uint64, bool) {
		for _, row := range r.Rows {
			if fmt.Sprint(row[0]) == name {
				var v uint64
				if _, err := fmt.Sscan(fmt.Sprint(row[1]), &v); err != nil {
					return 0, false
				}
				return v, true
			}
		}
		return 0, false
	}
	switch q {
	case qShowSess, qShowAll:
		// session scope: the session's own Com_select, whatever other sessions do
		if v, ok := find("Com_select"); !ok || v != nsel {
			return fmt.Sprintf("session-scope Com_select = %d (found %v), this session has run %d SELECTs", v, ok, nsel)
		}
	case qShowGlobal, qShowGAll:
		// global scope: between the start value plus this session's SELECTs and the start value plus all SELECTs of the batch
		if v, ok := find("Com_select"); !ok || v < g0+nsel || v > g0+totalSel {
			return fmt.Sprintf("global Com_select = %d (found %v), must lie in [%d, %d]", v, ok, g0+nsel, g0+totalSel)
		}
	case qShowProcs:
		own := false
		for _, row := range r.Rows {
			if fmt.Sprint(row[0]) == fmt.Sprint(connID) {
				own = true
			}
		}
		if !own {
			return fmt.Sprintf("own connection %d not listed in %d rows", connID, len(r.Rows))
		}
	}
	if q == qShowAll || q == qShowGAll {
		if v, ok := find("Threads_connected"); !ok || v == 0 {
			return "Threads_connected missing or zero while this session is connected"
		}
	}
	return ""
}

// statusIsolation (sequential, deterministic): a session's SHOW STATUS must not leak its values into the global
// registry or into another session.
func statusIsolation(c *lib.Ctx, cs caseT) {
	c.Count("status_isolation")
	id := c.CaseNoModel(cs, "status-isolation")
	c.PredChecked()
	pl := engine.Engine.ProcessList
	s1, s2, s3 := engine.Session(), engine.Session(), engine.Session()
	for _, s := range []*eng.S{s1, s2, s3} {
		pl.AddConnection(s.Ctx.Session.ID(), "h")
		pl.ConnectionReady(s.Ctx.Session)
	}
	defer func() {
		for _, s := range []*eng.S{s1, s2, s3} {
			pl.RemoveConnection(s.Ctx.Session.ID())
		}
	}()
	g0 := statusVar("Com_select")
	for i := 0; i < 3; i++ {
		queryVia(s1, "SELECT a FROM t1 WHERE id = 1")
	}
	for i := 0; i < 5; i++ {
		queryVia(s2, "SELECT a FROM t1 WHERE id = 2")
	}
	val := func(s *eng.S, q string) string {
		r, _ := queryVia(s, q)
		for _, row := range r.Rows {
			if fmt.Sprint(row[0]) == "Com_select" {
				return fmt.Sprint(row[1])
			}
		}
		return "missing: " + canon(r)
	}
	steps := []struct {
		s    *eng.S
		q    string
		want uint64
		who  string
	}{
		{s1, qShowAll, 3, "session 1 (3 SELECTs) SHOW STATUS"},
		{s3, qShowGAll, g0 + 8, "session 3 SHOW GLOBAL STATUS after session 1's SHOW STATUS"},
		{s2, qShowSess, 5, "session 2 (5 SELECTs) SHOW STATUS LIKE"},
		{s1, qShowGlobal, g0 + 8, "session 1 SHOW GLOBAL STATUS LIKE"},
		{s3, qShowAll, 0, "session 3 (0 SELECTs) SHOW STATUS"},
		{s2, qShowGAll, g0 + 8, "session 2 SHOW GLOBAL STATUS"},
		{s1, qShowSess, 3, "session 1 SHOW STATUS LIKE again"},
	}
	for _, st := range steps {
		if got := val(st.s, st.q); got != fmt.Sprint(st.want) {
			c.PredFail(id, "show-status-scopes-mixed", fmt.Sprintf("%s: Com_select = %s, expected %d (global start value %d, sessions ran 3 / 5 / 0 SELECTs)", st.who, got, st.want, g0), cs)
			return
		}
	}
	if got := statusVar("Com_select"); got != g0+8 {
		c.PredFail(id, "show-status-scopes-mixed", fmt.Sprintf("global Com_select = %d after the SHOW statements, expected %d", got, g0+8), cs)
	}
}

func progressText(ps []sql.Process) string {
	var out []string
	for _, p := range ps {
		var ts []string
		for tn, tp := range p.Progress {
			var parts []string
			for pn, pp := range tp.PartitionsProgress {
				parts = append(parts, fmt.Sprintf("%s=%d/%d", pn, pp.Done, pp.Total))
			}
			sort.Strings(parts)
			ts = append(ts, fmt.Sprintf("%s:%d/%d%v", tn, tp.Done, tp.Total, parts))
		}
		sort.Strings(ts)
		out = append(out, fmt.Sprintf("%d %s %q pid%d %v", p.Connection, p.Command, p.Query, p.QueryPid, ts))
	}
	sort.Strings(out)
	return strings.Join(out, "; ")
}

// snapshotAliasing: what Processes() returned must not change afterwards, and reading it while the query makes
// progress must not race (-race observes the second part).
func snapshotAliasing(c *lib.Ctx, cs caseT) {
	c.Count("snapshot_aliasing")
	id := c.CaseNoModel(cs, "snapshot-aliasing")
	c.PredChecked()
	pl := engine.Engine.ProcessList
	s := engine.Session()
	cid := s.Ctx.Session.ID()
	pl.AddConnection(cid, "h")
	pl.ConnectionReady(s.Ctx.Session)
	pid := nextPid.Add(1)
	ctx := sql.NewContext(context.Background(), sql.WithSession(s.Ctx.Session), sql.WithPid(pid), sql.WithProcessList(pl))
	ctx, err := pl.BeginQuery(ctx, "scan")
	if err != nil {
		c.PredFail(id, "begin-query-failed", err.Error(), cs)
		return
	}
	pl.AddTableProgress(pid, "t", 10)
	pl.AddPartitionProgress(pid, "t", "p0", 5)
	pl.AddPartitionProgress(pid, "t", "p1", 5)
	pl.UpdateTableProgress(pid, "t", 1)
	snap := pl.Processes()
	before := progressText(snap)
	pl.UpdateTableProgress(pid, "t", 3)
	pl.UpdatePartitionProgress(pid, "t", "p0", 2)
	pl.AddPartitionProgress(pid, "t", "p2", 7)
	pl.RemovePartitionProgress(pid, "t", "p1")
	pl.AddTableProgress(pid, "u", 4)
	if after := progressText(snap); after != before {
		c.PredFail(id, "processes-snapshot-aliases-live-progress", fmt.Sprintf("a Processes() snapshot changed after it was taken: %q became %q", before, after), cs)
	}
	// readers of snapshots against a writer of progress
	var wg sync.WaitGroup
	var stop atomic.Bool
	for g := 0; g < 3; g++ {
		wg.Add(1)
		go func() {
			defer wg.Done()
			for !stop.Load() {
				_ = progressText(pl.Processes())
			}
		}()
	}
	for i := 0; i < 3000; i++ {
		pn := fmt.Sprintf("p%d", i%7)
		pl.AddPartitionProgress(pid, "t", pn, int64(i))
		pl.UpdatePartitionProgress(pid, "t", pn, 1)
		pl.UpdateTableProgress(pid, "t", 1)
		if i%3 == 0 {
			pl.RemovePartitionProgress(pid, "t", pn)
		}
	}
	stop.Store(true)
	wg.Wait()
	pl.EndQuery(ctx)
	pl.RemoveConnection(cid)
}

func run(c *lib.Ctx, cs caseT) {
	switch cs.Special {
	case "status-isolation":
		statusIsolation(c, cs)
		return
	case "snapshot-aliasing":
		snapshotAliasing(c, cs)
		return
	}
	if cs.Stress {
		counterStress(c, cs)
		return
	}
	// sequential baseline: every distinct query once, alone
	for _, qs := range cs.Sessions {
		for _, q := range qs {
			if _, ok := baseline[q]; !ok && !isRegistryQuery(q) {
				s := engine.Session()
				baseline[q] = canon(s.Query(q))
			}
		}
	}
	pl := engine.Engine.ProcessList
	base := [4]uint64{statusVar("Threads_connected"), statusVar("Threads_running"), statusVar("Questions"), statusVar("Com_select")}
	totalSel := 0
	for _, qs := range cs.Sessions {
		for _, q := range qs {
			if isSelect(q) {
				totalSel++
			}
		}
	}
	var regFails []string
	type diff struct {
		sess, idx   int
		q, got, exp string
	}
	var mu sync.Mutex
	var diffs []diff
	var beginErrs []string
	var wg sync.WaitGroup
	start := make(chan struct{})
	total := 0
	for si, qs := range cs.Sessions {
		total += len(qs)
		wg.Add(1)
		s := engine.Session() // created here: eng.E.Session is not safe for concurrent use
		go func(si int, qs []string) {
			defer wg.Done()
			id := s.Ctx.Session.ID()
			<-start
			pl.AddConnection(id, "h")
			pl.ConnectionReady(s.Ctx.Session)
			nsel := uint64(0) // SELECTs this session has run so far = its session-scope Com_select
			for qi, q := range qs {
				r, berr := queryVia(s, q)
				got := canon(r)
				if isSelect(q) {
					nsel++
				}
				mu.Lock()
				if berr != nil {
					beginErrs = append(beginErrs, berr.Error())
				} else if isRegistryQuery(q) {
					if msg := checkRegistry(q, r, id, nsel, base[3], uint64(totalSel)); msg != "" {
						regFails = append(regFails, fmt.Sprintf("session %d query %d %q: %s", si, qi, q, msg))
					}
				} else if got != baseline[q] {
					diffs = append(diffs, diff{si, qi, q, got, baseline[q]})
				}
				mu.Unlock()
			}
			pl.RemoveConnection(id)
		}(si, qs)
	}
	close(start)
	wg.Wait()
	procs := pl.Processes()
	tcv, trv, qv := statusVar("Threads_connected")-base[0], statusVar("Threads_running")-base[1], statusVar("Questions")-base[2]
	selv := statusVar("Com_select") - base[3]

	c.Count(fmt.Sprintf("sessions_%d", len(cs.Sessions)))
	c.Count(fmt.Sprintf("queries_%03d-%03d", total/50*50, total/50*50+49))
	counts := make([]string, len(cs.Sessions))
	for i, qs := range cs.Sessions {
		counts[i] = fmt.Sprint(len(qs))
	}
	ncaches := engine.Engine.MemoryManager.NumCaches()
	term := fmt.Sprintf("Case %s %d%%Z %d%%Z %d %d%%Z %d", lib.CoqList(counts), tcv, trv, len(procs), qv, ncaches)
	id := c.Case(term, cs, fmt.Sprint(cs.Sessions))
	c.PredChecked()
	for _, e := range beginErrs {
		c.PredFail(id, "begin-query-failed", e, cs)
		break
	}
	for _, d := range diffs {
		sig := "concurrent-result-differs-from-sequential/" + strings.SplitN(strings.TrimPrefix(d.q, "SELECT "), " ", 2)[0]
		c.PredFail(id, sig, fmt.Sprintf("session %d query %d %q: concurrent %.200s, alone %.200s", d.sess, d.idx, d.q, d.got, d.exp), cs)
		break
	}
	if len(procs) != 0 || tcv != 0 || trv != 0 {
		c.PredFail(id, "registry-inconsistent-at-quiescence", fmt.Sprintf("after all sessions finished: %d process-list entries, Threads_connected delta %d, Threads_running delta %d", len(procs), tcv, trv), cs)
	}
	for _, m := range regFails {
		c.PredFail(id, "registry-read-inconsistent/"+strings.SplitN(strings.SplitN(m, "\"", 3)[1], " LIKE", 2)[0], m, cs)
		break
	}
	if selv != uint64(totalSel) {
		c.PredFail(id, "com_select-counter-wrong-at-quiescence", fmt.Sprintf("global Com_select moved by %d for %d SELECTs", selv, totalSel), cs)
	}
	if ncaches != 0 {
		c.PredFail(id, "cache-registry-not-empty-at-quiescence", fmt.Sprintf("MemoryManager.NumCaches() = %d after all queries finished", ncaches), cs)
	}
	if qv != uint64(total) {
		c.PredFail(id, "questions-counter-lost-updates", fmt.Sprintf("Questions moved by %d for %d queries", qv, total), cs)
	}
}

func gen(r *lib.RNG) caseT {
	var cs caseT
	n := r.Range(2, 8)
	pool := make([]string, r.Range(3, 10))
	for i := range pool {
		pool[i] = genQuery(r)
	}
	for i := 0; i < n; i++ {
		var qs []string
		for k, m := 0, r.Range(3, 20); k < m; k++ {
			if r.Chance(2, 3) {
				qs = append(qs, lib.Pick(r, pool)) // the same query text in several sessions at once
			} else {
				qs = append(qs, genQuery(r))
			}
		}
		cs.Sessions = append(cs.Sessions, qs)
	}
	return cs
}

func infoQ(n int) []string {
	qs := make([]string, n)
	for i := range qs {
		qs[i] = "SELECT table_name FROM information_schema.tables WHERE table_schema = 'db' ORDER BY table_name"
	}
	return qs
}

func child() {
	logrus.SetOutput(io.Discard)
	setup()
	lib.Main("C36", func(c *lib.Ctx) {
		c.Header = "From Coq Require Import List NArith ZArith.\nImport ListNotations.\nFrom GMS Require Import Corr.C36.\nOpen Scope N_scope."
		c.CaseType = "C36.case"
		c.MismatchFn = "C36.mismatches"
		c.SetRule("each case: 2-8 goroutine sessions x 3-20 read-only queries (14 templates: point/range filters, joins, GROUP BY, IN/EXISTS/scalar " +
			"subqueries, DISTINCT, view, UNION, window, JSON/decimal functions, information_schema; one in five is a registry reader: SHOW [GLOBAL] STATUS [LIKE 'Com_select'] checked against the session's own SELECT count / the global bounds, SHOW PROCESSLIST) over a fixed database (3 tables + 1 view), two " +
			"thirds drawn from a shared pool so that sessions run the same text at the same time; every session registers with the engine's " +
			"ProcessList as the server does; results compared with the same query run alone; driver built with -race. distinct = distinct schedules of query texts.")
		if c.ReplayFile != "" {
			var cs caseT
			lib.LoadReplay(c.ReplayFile, &cs)
			run(c, cs)
			return
		}
		corpus := []caseT{{Sessions: [][]string{
			{"SELECT a, COUNT(*), SUM(id) FROM t1 WHERE id > 5 GROUP BY a ORDER BY a", "SELECT * FROM v1 WHERE c > 2 ORDER BY a"},
			{"SELECT a, COUNT(*), SUM(id) FROM t1 WHERE id > 5 GROUP BY a ORDER BY a", "SELECT * FROM v1 WHERE c > 2 ORDER BY a"},
			{"SELECT table_name FROM information_schema.tables WHERE table_schema = 'db' ORDER BY table_name"}}},
			// known finding: concurrent information_schema queries race on the shared table object (AssignCatalog)
			{Sessions: [][]string{infoQ(12), infoQ(12), infoQ(12), infoQ(12)}},
			{Stress: true},
			{Special: "status-isolation"},
			{Special: "snapshot-aliasing"},
			// registry readers against scans: SHOW STATUS from several sessions at once, SHOW PROCESSLIST during table scans
			{Sessions: [][]string{{qShowAll, qShowAll, qShowSess, qShowAll, qShowAll, qShowAll}, {qShowAll, qShowGAll, qShowAll, qShowAll, qShowGlobal, qShowAll},
				{"SELECT a, COUNT(*), SUM(id) FROM t1 WHERE id > 5 GROUP BY a ORDER BY a", qShowAll, "SELECT id, a, b FROM t1 WHERE a = 3 ORDER BY id", qShowSess, qShowGAll}}},
			{Sessions: [][]string{{qShowProcs, qShowProcs, qShowProcs, qShowProcs, qShowProcs, qShowProcs, qShowProcs, qShowProcs},
				{"SELECT t1.id, t2.v FROM t1 JOIN t2 ON t1.id = t2.t1_id WHERE t2.v > 1 ORDER BY t1.id, t2.id", "SELECT id, a, b FROM t1 WHERE a = 3 ORDER BY id", "SELECT DISTINCT b FROM t1 WHERE a <> 2 ORDER BY b", "SELECT k, d * 2, JSON_EXTRACT(j, '$.x') FROM t3 WHERE d > 1 ORDER BY k"},
				{"SELECT a, COUNT(*), SUM(id) FROM t1 WHERE id > 5 GROUP BY a ORDER BY a", "SELECT id, a, b FROM t1 WHERE a = 1 ORDER BY id", qShowProcs, "SELECT id, a, b FROM t1 WHERE a = 2 ORDER BY id"}}}}
		for _, cs := range corpus {
			run(c, cs)
		}
		for i := len(corpus); i < c.N; i++ {
			run(c, gen(c.R.Fork()))
		}
	})
}

func main() {
	if os.Getenv("C36_CHILD") == "1" {
		child()
		return
	}
	out := ""
	for i, a := range os.Args {
		if a == "-out" && i+1 < len(os.Args) {
			out = os.Args[i+1]
		}
	}
	if out == "" {
		fmt.Fprintln(os.Stderr, "-out required")
		os.Exit(3)
	}
	_ = os.MkdirAll(out, 0o755)
	cmd := exec.Command(os.Args[0], os.Args[1:]...)
	cmd.Env = append(os.Environ(), "C36_CHILD=1", "GORACE=log_path="+filepath.Join(out, "race")+" halt_on_error=0 exitcode=0")
	var errBuf strings.Builder
	cmd.Stdout, cmd.Stderr = os.Stdout, io.MultiWriter(os.Stderr, &errBuf)
	if err := cmd.Run(); err != nil {
		// the Go runtime kills the process on e.g. "fatal error: concurrent map writes": that is an observation about the
		// implementation, reported as a predicate failure (no per-case data survives)
		msg := errBuf.String()
		sig := "engine-crashed"
		for _, ln := range strings.Split(msg, "\n") {
			if strings.HasPrefix(ln, "fatal error:") || strings.HasPrefix(ln, "panic:") {
				sig = "engine-crashed/" + strings.TrimSpace(ln)
				break
			}
		}
		if len(msg) > 3000 {
			msg = msg[:3000]
		}
		summ := map[string]interface{}{"property": "C36", "seed": 0, "evaluations": 0, "distinct_nontrivial": 0, "rule": "child process crashed",
			"samples": []interface{}{}, "distribution": map[string]int{"child_crashed": 1}, "predicate_checked": 1, "shards": []string{}, "driver_panics": 0,
			"predicate_failures": []interface{}{map[string]interface{}{"case_id": 0, "signature": sig, "what": "the concurrent run crashed (" + err.Error() + "): " + msg,
				"replay": map[string]interface{}{"note": "re-run the whole check"}}}}
		nb, _ := json.MarshalIndent(summ, "", " ")
		_ = os.WriteFile(filepath.Join(out, "summary.json"), nb, 0o644)
		_ = os.WriteFile(filepath.Join(out, "replays.json"), []byte("[]"), 0o644)
		return
	}
	logs, _ := filepath.Glob(filepath.Join(out, "race.*"))
	if len(logs) == 0 {
		return
	}
	// a race report = the atomicity premise of the model does not hold: one predicate failure per racing function
	var text string
	for _, lg := range logs {
		b, _ := os.ReadFile(lg)
		text += string(b)
	}
	type rep struct{ sig, text string }
	var reps []rep
	for _, r := range strings.Split(text, "WARNING: DATA RACE")[1:] {
		access := r
		if i := strings.Index(access, "\nGoroutine "); i > 0 {
			access = access[:i] // only the two access stacks, not the goroutine creation stacks
		}
		sig := "data-race/outside-the-engine"
		inWrite := false // name the race after the writing function (every race has a writer)
		for _, ln := range strings.Split(access, "\n") {
			ln = strings.TrimSpace(ln)
			if strings.HasPrefix(ln, "Write at") || strings.HasPrefix(ln, "Previous write at") || strings.HasPrefix(ln, "Atomic write at") {
				inWrite = true
			} else if strings.HasSuffix(ln, ":") && (strings.HasPrefix(ln, "Read at") || strings.HasPrefix(ln, "Previous read at")) {
				inWrite = false
			}
			if inWrite && strings.HasPrefix(ln, "github.com/dolthub/go-mysql-server") {
				sig = "data-race/" + strings.TrimSuffix(strings.TrimPrefix(ln, "github.com/dolthub/go-mysql-server/"), "()")
				break
			}
		}
		dup := false
		for _, x := range reps {
			dup = dup || x.sig == sig
		}
		if !dup {
			if len(r) > 1500 {
				r = r[:1500]
			}
			reps = append(reps, rep{sig, r})
		}
	}
	sp := filepath.Join(out, "summary.json")
	var summ map[string]interface{}
	sb, err := os.ReadFile(sp)
	if err != nil || json.Unmarshal(sb, &summ) != nil {
		fmt.Fprintln(os.Stderr, "cannot read summary.json")
		os.Exit(4)
	}
	pf, _ := summ["predicate_failures"].([]interface{})
	for _, r := range reps {
		pf = append(pf, map[string]interface{}{"case_id": 0, "signature": r.sig, "what": "race detector report: WARNING: DATA RACE" + r.text,
			"replay": map[string]interface{}{"note": "re-run the whole check; the reports are in " + logs[0]}})
	}
	summ["predicate_failures"] = pf
	nb, _ := json.MarshalIndent(summ, "", " ")
	_ = os.WriteFile(sp, nb, 0o644)
}
