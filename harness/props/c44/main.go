// Driver for C44 (system and user variables): reads the registry the running engine has (reflection over
// sql.SystemVariables), calls Type.Convert of every modelled variable on generated Go values, runs multi-session
// SET GLOBAL / SET SESSION / SET @u histories through the real engine with SELECT @@x / @@global.x / @@session.x / @u
// after every step, records everything as Coq terms for the model, and evaluates the property predicate with an
// independent reference (math/big range validation + ideal scoping) derived from the run-time registry.
package main

import (
	"context"
	"fmt"
	"math"
	"math/big"
	"reflect"
	"strconv"
	"strings"

	"github.com/cockroachdb/apd/v3"

	"github.com/dolthub/go-mysql-server/memory"
	"github.com/dolthub/go-mysql-server/sql"
	"github.com/dolthub/go-mysql-server/sql/types"
	"github.com/dolthub/go-mysql-server/sql/variables"

	"verifharness/lib"
	"verifharness/lib/eng"
)

// ---------- model values ----------

// gv mirrors Coq's gval. K: nil bool int float dec str opq.
type gv struct {
	K    string `json:"k"`
	Kind string `json:"kind,omitempty"` // Go integer kind (int8 ... uint64) when K == int
	B    bool   `json:"b,omitempty"`
	Z    string `json:"z,omitempty"` // integer value
	F    string `json:"f,omitempty"` // float64 printed with strconv 'g' -1 (round-trips)
	D    string `json:"d,omitempty"` // decimal text
	S    string `json:"s,omitempty"`
}

var coqKind = map[string]string{"int": "KInt", "int8": "KInt8", "int16": "KInt16", "int32": "KInt32", "int64": "KInt64",
	"uint": "KUint", "uint8": "KUint8", "uint16": "KUint16", "uint32": "KUint32", "uint64": "KUint64"}

func coqString(s string) string {
	var sb strings.Builder
	sb.WriteByte('"')
	for _, c := range []byte(s) {
		if c == '"' {
			sb.WriteString(`""`)
		} else if c < 32 || c > 126 {
			sb.WriteByte('?') // the generators only produce printable ASCII
		} else {
			sb.WriteByte(c)
		}
	}
	sb.WriteByte('"')
	return sb.String()
}

func coqBigZ(z *big.Int) string {
	if z.Sign() < 0 {
		return "(" + z.String() + ")%Z"
	}
	return z.String() + "%Z"
}

func bigOf(s string) *big.Int {
	z, ok := new(big.Int).SetString(s, 10)
	if !ok {
		panic("bad integer " + s)
	}
	return z
}

func (g gv) rat() *big.Rat {
	switch g.K {
	case "int":
		return new(big.Rat).SetInt(bigOf(g.Z))
	case "float":
		f, _ := strconv.ParseFloat(g.F, 64)
		r := new(big.Rat)
		if r.SetFloat64(f) == nil {
			return nil
		}
		return r
	case "dec":
		r, ok := new(big.Rat).SetString(g.D)
		if !ok {
			return nil
		}
		return r
	}
	return nil
}

func (g gv) coq() string {
	switch g.K {
	case "nil":
		return "GNil"
	case "bool":
		return "(GBool " + lib.CoqBool(g.B) + ")"
	case "int":
		return "(GI " + coqKind[g.Kind] + " " + coqBigZ(bigOf(g.Z)) + ")"
	case "float", "dec":
		r := g.rat()
		if r == nil {
			return "(GOpq " + coqString(g.F+g.D) + ")"
		}
		c := "GF"
		if g.K == "dec" {
			c = "GD"
		}
		return fmt.Sprintf("(%s %s %s%%positive)", c, coqBigZ(r.Num()), r.Denom().String())
	case "str":
		return "(GS " + coqString(g.S) + ")"
	}
	return "(GOpq " + coqString(g.S) + ")"
}

func fromGo(v interface{}) gv {
	i := func(kind string, z int64) gv { return gv{K: "int", Kind: kind, Z: strconv.FormatInt(z, 10)} }
	u := func(kind string, z uint64) gv { return gv{K: "int", Kind: kind, Z: strconv.FormatUint(z, 10)} }
	switch x := v.(type) {
	case nil:
		return gv{K: "nil"}
	case bool:
		return gv{K: "bool", B: x}
	case int:
		return i("int", int64(x))
	case int8:
		return i("int8", int64(x))
	case int16:
		return i("int16", int64(x))
	case int32:
		return i("int32", int64(x))
	case int64:
		return i("int64", x)
	case uint:
		return u("uint", uint64(x))
	case uint8:
		return u("uint8", uint64(x))
	case uint16:
		return u("uint16", uint64(x))
	case uint32:
		return u("uint32", uint64(x))
	case uint64:
		return u("uint64", x)
	case float64:
		if math.IsInf(x, 0) || math.IsNaN(x) {
			return gv{K: "opq", S: fmt.Sprint(x)}
		}
		return gv{K: "float", F: strconv.FormatFloat(x, 'g', -1, 64)}
	case float32:
		return fromGo(float64(x))
	case *apd.Decimal:
		if x == nil || x.Form != apd.Finite {
			return gv{K: "opq", S: fmt.Sprint(x)}
		}
		return gv{K: "dec", D: x.Text('f')}
	case string:
		for _, c := range []byte(x) {
			if c < 32 || c > 126 {
				return gv{K: "opq", S: "non-ascii string"}
			}
		}
		return gv{K: "str", S: x}
	}
	return gv{K: "opq", S: fmt.Sprintf("%T", v)}
}

func (g gv) toGo() interface{} {
	switch g.K {
	case "nil":
		return nil
	case "bool":
		return g.B
	case "int":
		z := bigOf(g.Z)
		switch g.Kind {
		case "int":
			return int(z.Int64())
		case "int8":
			return int8(z.Int64())
		case "int16":
			return int16(z.Int64())
		case "int32":
			return int32(z.Int64())
		case "int64":
			return z.Int64()
		case "uint":
			return uint(z.Uint64())
		case "uint8":
			return uint8(z.Uint64())
		case "uint16":
			return uint16(z.Uint64())
		case "uint32":
			return uint32(z.Uint64())
		default:
			return z.Uint64()
		}
	case "float":
		f, _ := strconv.ParseFloat(g.F, 64)
		return f
	case "dec":
		d, _, err := apd.NewFromString(g.D)
		if err != nil {
			panic(err)
		}
		return d
	case "str":
		return g.S
	}
	return struct{}{}
}

func (g gv) eq(h gv) bool {
	if g.K != h.K {
		return false
	}
	switch g.K {
	case "int":
		return g.Kind == h.Kind && bigOf(g.Z).Cmp(bigOf(h.Z)) == 0
	case "float", "dec":
		a, b := g.rat(), h.rat()
		return a != nil && b != nil && a.Cmp(b) == 0
	case "bool":
		return g.B == h.B
	case "str", "opq":
		return g.S == h.S
	}
	return true
}

// sameValue ignores the Go integer kind.
func (g gv) sameValue(h gv) bool {
	if g.K == "int" && h.K == "int" {
		return bigOf(g.Z).Cmp(bigOf(h.Z)) == 0
	}
	return g.eq(h)
}

func (g gv) String() string {
	switch g.K {
	case "int":
		return g.Kind + "(" + g.Z + ")"
	case "float":
		return "float64(" + g.F + ")"
	case "dec":
		return "decimal(" + g.D + ")"
	case "str":
		return fmt.Sprintf("%q", g.S)
	case "bool":
		return fmt.Sprint(g.B)
	case "nil":
		return "nil"
	}
	return "<" + g.S + ">"
}

// ---------- registry as the running engine has it ----------

type tdesc struct {
	Kind   string // bool int uint double enum set string other
	Lo, Hi *big.Int
	Neg1   bool
	Vals   []string
	Coll   string
}

type vdesc struct {
	Key, Name string
	Scope     string // ScGlobal ...
	Dynamic   bool
	T         tdesc
	Default   interface{}
	Notify    bool
	ValueFn   bool
	typ       sql.Type
}

var scopeName = map[sql.MysqlSVScopeType]string{
	sql.SystemVariableScope_Global: "ScGlobal", sql.SystemVariableScope_Session: "ScSession", sql.SystemVariableScope_Both: "ScBoth",
	sql.SystemVariableScope_Persist: "ScPersist", sql.SystemVariableScope_PersistOnly: "ScPersistOnly",
	sql.SystemVariableScope_ResetPersist: "ScResetPersist",
}

func floatToInt(f float64) *big.Int {
	r := new(big.Rat)
	if r.SetFloat64(f) == nil || !r.IsInt() {
		return nil
	}
	return new(big.Int).Set(r.Num())
}

func describeType(t sql.Type) tdesc {
	rv := reflect.ValueOf(t)
	switch rv.Type().Name() {
	case "SystemBoolType":
		return tdesc{Kind: "bool"}
	case "systemStringType":
		return tdesc{Kind: "string"}
	case "systemIntType":
		return tdesc{Kind: "int", Lo: big.NewInt(rv.FieldByName("lowerbound").Int()), Hi: big.NewInt(rv.FieldByName("upperbound").Int()),
			Neg1: rv.FieldByName("negativeOne").Bool()}
	case "systemUintType":
		return tdesc{Kind: "uint", Lo: new(big.Int).SetUint64(rv.FieldByName("lowerbound").Uint()), Hi: new(big.Int).SetUint64(rv.FieldByName("upperbound").Uint())}
	case "systemDoubleType":
		lo, hi := floatToInt(rv.FieldByName("lowerbound").Float()), floatToInt(rv.FieldByName("upperbound").Float())
		if lo == nil || hi == nil {
			return tdesc{Kind: "other"}
		}
		return tdesc{Kind: "double", Lo: lo, Hi: hi}
	case "systemEnumType":
		f := rv.FieldByName("indexToVal")
		vals := make([]string, f.Len())
		for i := range vals {
			vals[i] = f.Index(i).String()
		}
		return tdesc{Kind: "enum", Vals: vals}
	case "systemSetType":
		if st, ok := t.(sql.SetType); ok {
			return tdesc{Kind: "set", Vals: st.Values(), Coll: "sql.Collation_" + st.Collation().Name()}
		}
	}
	if t != nil && t.Equals(types.Uint32) {
		return tdesc{Kind: "uint32"}
	}
	if t != nil && t.Equals(types.Text) {
		return tdesc{Kind: "text"}
	}
	return tdesc{Kind: "other"}
}

// setNames: the members whose bit is set, in declaration order (what SELECT @@x shows for a SET-typed variable).
func (t tdesc) setNames(bits *big.Int) string {
	var out []string
	for i, v := range t.Vals {
		if bits.Bit(i) == 1 {
			out = append(out, strings.TrimRight(v, " "))
		}
	}
	return strings.Join(out, ",")
}

// shownGo: a SET-typed variable's stored bit field as the engine shows it.
func (t tdesc) shownGo(g gv) gv {
	if t.Kind == "set" && g.K == "int" && g.Kind == "uint64" {
		return gv{K: "str", S: t.setNames(bigOf(g.Z))}
	}
	return g
}

func (t tdesc) coq() string {
	switch t.Kind {
	case "bool":
		return "TBool"
	case "string":
		return "TString"
	case "int":
		return fmt.Sprintf("(TInt %s %s %s)", coqBigZ(t.Lo), coqBigZ(t.Hi), lib.CoqBool(t.Neg1))
	case "uint":
		return fmt.Sprintf("(TUint %s %s)", coqBigZ(t.Lo), coqBigZ(t.Hi))
	case "double":
		return fmt.Sprintf("(TDouble %s %s)", coqBigZ(t.Lo), coqBigZ(t.Hi))
	case "enum":
		return "(TEnum " + lib.CoqListOf(t.Vals, coqString) + ")"
	case "set":
		return "(TSet " + coqString(t.Coll) + " " + lib.CoqListOf(t.Vals, coqString) + ")"
	case "uint32":
		return `(TOther "types.Uint32")`
	case "text":
		return `(TOther "types.Text")`
	}
	return `(TOther "")`
}

func loadRegistry() []vdesc {
	all := sql.SystemVariables.GetAllGlobalVariables()
	var out []vdesc
	for _, k := range lib.SortedKeys(all) {
		sv, _, ok := sql.SystemVariables.GetGlobal(k)
		if !ok || sv == nil {
			out = append(out, vdesc{Key: k, Name: "?", Scope: "ScOther", T: tdesc{Kind: "other"}})
			continue
		}
		m, ok := sv.(*sql.MysqlSystemVariable)
		if !ok {
			out = append(out, vdesc{Key: k, Name: sv.GetName(), Scope: "ScOther", T: tdesc{Kind: "other"}})
			continue
		}
		sc := "ScOther"
		if m.Scope != nil {
			if s, ok := scopeName[m.Scope.Type]; ok {
				sc = s
			}
		}
		out = append(out, vdesc{Key: k, Name: m.Name, Scope: sc, Dynamic: m.Dynamic, T: describeType(m.Type), Default: m.Default,
			Notify: m.NotifyChanged != nil, ValueFn: m.ValueFunction != nil, typ: m.Type})
	}
	return out
}

func (v vdesc) coq() string {
	return fmt.Sprintf("(mkVar %s %s %s %s %s %s %s %s)", coqString(v.Key), coqString(v.Name), v.Scope, lib.CoqBool(v.Dynamic),
		v.T.coq(), fromGo(v.Default).coq(), lib.CoqBool(v.Notify), lib.CoqBool(v.ValueFn))
}

// ---------- independent reference: what the property demands ----------

const (
	mustAccept = iota
	mustReject
	mayEither // lenient zone: the property does not say; when accepted the stored value must be `want`
)

var (
	minI64 = new(big.Int).Neg(new(big.Int).Lsh(big.NewInt(1), 63))
	maxI64 = new(big.Int).Sub(new(big.Int).Lsh(big.NewInt(1), 63), big.NewInt(1))
	maxU64 = new(big.Int).Sub(new(big.Int).Lsh(big.NewInt(1), 64), big.NewInt(1))
)

func intGV(kind string, z *big.Int) gv { return gv{K: "int", Kind: kind, Z: z.String()} }

// plainInt: optional sign followed by decimal digits only
func plainInt(s string) (*big.Int, bool) {
	t := s
	if strings.HasPrefix(t, "-") || strings.HasPrefix(t, "+") {
		t = t[1:]
	}
	if t == "" {
		return nil, false
	}
	for _, c := range t {
		if c < '0' || c > '9' {
			return nil, false
		}
	}
	z, ok := new(big.Int).SetString(s, 10)
	return z, ok
}

// inputClass names the shape of the assigned value (used in finding signatures).
func inputClass(in gv) string {
	switch in.K {
	case "int":
		z := bigOf(in.Z)
		if z.Sign() < 0 {
			return "negative-int"
		}
		if z.Cmp(maxI64) > 0 {
			return "uint64-above-int64"
		}
		return "int"
	case "float", "dec":
		r := in.rat()
		n := map[string]string{"float": "float", "dec": "decimal"}[in.K]
		if r == nil {
			return n
		}
		if r.Sign() < 0 {
			return "negative-" + n
		}
		if !r.IsInt() {
			return "fractional-" + n
		}
		return "integral-" + n
	case "str":
		if _, ok := plainInt(in.S); ok {
			return "numeric-string"
		}
		return "string"
	}
	return in.K
}

// ideal decides, from the mathematical value of the input alone (no wrap-around), whether the assignment is valid
// for the type and which value the variable must then hold.
func ideal(t tdesc, in gv) (int, gv) {
	none := gv{K: "nil"}
	inRange := func(z *big.Int) bool {
		return (z.Cmp(t.Lo) >= 0 && z.Cmp(t.Hi) <= 0) || (t.Neg1 && z.Cmp(big.NewInt(-1)) == 0)
	}
	// the integer the input denotes, if any, and whether an integer of that spelling must be accepted
	var z *big.Int
	strict := false
	switch in.K {
	case "int":
		z, strict = bigOf(in.Z), true
	case "float", "dec":
		if r := in.rat(); r != nil && r.IsInt() {
			z = new(big.Int).Set(r.Num())
		}
	case "str":
		if p, ok := plainInt(in.S); ok {
			z = p
		}
	case "bool":
		z = big.NewInt(0)
		if in.B {
			z = big.NewInt(1)
		}
	}
	verdict := func(valid bool, want gv) (int, gv) {
		if !valid {
			return mustReject, none
		}
		if strict {
			return mustAccept, want
		}
		return mayEither, want
	}
	switch t.Kind {
	case "int":
		if z == nil {
			return mustReject, none
		}
		return verdict(inRange(z), intGV("int64", z))
	case "uint":
		if z == nil {
			if r := in.rat(); r != nil && (in.K == "float" || in.K == "dec") && r.Sign() >= 0 {
				return mayEither, gv{K: "opq"} // non-negative fraction: rounding to the variable's type is a conversion
			}
			return mustReject, none
		}
		return verdict(inRange(z), intGV("uint64", z))
	case "bool":
		if in.K == "bool" {
			return mustAccept, intGV("int8", z)
		}
		if in.K == "str" {
			switch strings.ToLower(in.S) {
			case "on", "true":
				return mustAccept, intGV("int8", big.NewInt(1))
			case "off", "false":
				return mustAccept, intGV("int8", big.NewInt(0))
			}
		}
		if z == nil {
			return mustReject, none
		}
		return verdict(z.Sign() == 0 || z.Cmp(big.NewInt(1)) == 0, intGV("int8", z))
	case "enum":
		if in.K == "str" {
			var hit []string
			for _, v := range t.Vals {
				if strings.EqualFold(v, in.S) {
					hit = append(hit, v)
				}
			}
			if len(hit) == 1 {
				return mustAccept, gv{K: "str", S: hit[0]}
			}
			if len(hit) > 1 {
				return mayEither, gv{K: "opq"} // ambiguous name: any of them
			}
		}
		if z == nil || in.K == "bool" {
			return mustReject, none
		}
		if z.Sign() >= 0 && z.Cmp(big.NewInt(int64(len(t.Vals)))) < 0 {
			return verdict(true, gv{K: "str", S: t.Vals[z.Int64()]})
		}
		return mustReject, none
	case "string":
		if in.K == "str" {
			return mustAccept, in
		}
		if in.K == "nil" {
			return mayEither, gv{K: "str", S: ""}
		}
		return mustReject, none
	case "set":
		all := new(big.Int).Sub(new(big.Int).Lsh(big.NewInt(1), uint(len(t.Vals))), big.NewInt(1))
		switch in.K {
		case "str":
			bits := new(big.Int)
			lenient := false
			for _, piece := range strings.Split(in.S, ",") {
				if piece == "" {
					continue
				}
				name := strings.TrimRight(piece, " ")
				hit := -1
				for i, v := range t.Vals {
					if strings.EqualFold(strings.TrimRight(v, " "), name) {
						hit = i
					}
				}
				if hit >= 0 {
					bits.SetBit(bits, hit, 1)
				} else if _, ok := plainInt(piece); ok {
					lenient = true // a number inside the list: the property does not say
				} else {
					return mustReject, none
				}
			}
			if lenient {
				return mayEither, gv{K: "opq"}
			}
			return mustAccept, gv{K: "str", S: t.setNames(bits)}
		case "int":
			if z.Sign() >= 0 && z.Cmp(all) <= 0 {
				return mustAccept, gv{K: "str", S: t.setNames(z)}
			}
			return mustReject, none
		case "float", "dec", "bool":
			return mayEither, gv{K: "opq"}
		}
		return mustReject, none
	case "uint32":
		if in.K == "int" {
			if z.Sign() < 0 {
				return mustReject, none
			}
			if z.Cmp(big.NewInt(4294967295)) <= 0 {
				return mustAccept, intGV("uint32", z)
			}
		}
		return mayEither, gv{K: "opq"} // an ordinary SQL type: saturation, rounding, NULL are its conversions
	case "text":
		if in.K == "str" {
			return mustAccept, in
		}
		return mayEither, gv{K: "opq"}
	case "double":
		r := in.rat()
		if in.K == "str" {
			return mayEither, gv{K: "opq"}
		}
		if r == nil {
			return mustReject, none
		}
		if r.Cmp(new(big.Rat).SetInt(t.Lo)) < 0 || r.Cmp(new(big.Rat).SetInt(t.Hi)) > 0 {
			return mustReject, none
		}
		f, _ := r.Float64()
		return mustAccept, fromGo(f)
	}
	return mayEither, gv{K: "opq"}
}

func valueGoKind(t tdesc) string {
	return map[string]string{"bool": "int8", "int": "int64", "uint": "uint64", "double": "float", "enum": "str", "string": "str",
		"set": "str", "uint32": "uint32", "text": "str"}[t.Kind]
}

// checkStored compares a value read back (or returned by Convert) with what the reference expects.
func checkStored(t tdesc, want, got gv) string {
	if want.K == "opq" {
		return ""
	}
	if !want.sameValue(got) {
		return "wrong-value"
	}
	k := got.K
	if k == "int" {
		k = got.Kind
	}
	if k != valueGoKind(t) {
		return "wrong-go-type"
	}
	return ""
}

// ---------- cases ----------

// asgT is one assignment of a SET statement.
type asgT struct {
	Tg   string `json:"tg"`             // global session user persist persist_only
	X    string `json:"x"`              // target name as typed
	Form int    `json:"form,omitempty"` // spelling of the scope: 0 keyword (GLOBAL x), 1 @@GLOBAL.x / @@SESSION.x, 2 @@global.x / @@x, 3 bare x
	Src  string `json:"src"`            // lit default bare global session user
	Lit  string `json:"lit,omitempty"`  // SQL text of a literal right-hand side
	Y    string `json:"y,omitempty"`    // source variable (bare / global / session) or user variable
}

type opT struct {
	Op   string `json:"op"` // new | set | (single-assignment spelling) global session user
	S    int    `json:"s"`
	A    []asgT `json:"a,omitempty"`
	X    string `json:"x,omitempty"`
	Lit  string `json:"lit,omitempty"`
	Form int    `json:"form,omitempty"`
}

type caseT struct {
	Kind string `json:"kind"` // conv hist reg
	Var  string `json:"var,omitempty"`
	In   *gv    `json:"in,omitempty"`
	Ops  []opT  `json:"ops,omitempty"`
	Vars []string `json:"vars,omitempty"` // variables read after every step
	Out  string `json:"out,omitempty"`
	NameSeed uint64 `json:"name_seed,omitempty"` // when non-zero the reads spell variable names in random letter case
}

var reg []vdesc
var regByKey = map[string]*vdesc{}

// variables whose assignment does more than store the value (besides NotifyChanged / ValueFunction ones)
var sideEffects = map[string]string{
	"sql_select_limit":       "limits the rows of the following SELECTs",
	"max_execution_time":     "may cancel the following statements",
	"time_zone":              "validated by rowexec.validateSystemVariableValue",
	"character_set_database": "read from the current database",
	"collation_database":     "read from the current database",
	"lc_time_names":          "integer literals are rewritten to strings by the planbuilder",
	"autocommit":             "changes transaction handling of the session",
}

func modelled(v *vdesc) bool {
	if v.Notify || v.ValueFn || strings.Contains(v.Key, ".") || sideEffects[v.Key] != "" {
		return false
	}
	switch v.T.Kind {
	case "bool", "int", "uint", "double", "enum", "string", "set", "uint32", "text":
		return true
	}
	return false
}

// ----- direct Type.Convert -----

func runConv(c *lib.Ctx, cs caseT) {
	v := regByKey[cs.Var]
	if v == nil || v.typ == nil {
		c.CaseNoModel(cs, "")
		return
	}
	in := *cs.In
	var got interface{}
	var err error
	p, pv := lib.Recover(func() { got, _, err = v.typ.Convert(context.Background(), in.toGo()) })
	if p {
		cs.Out = "panic: " + pv
		id := c.CaseNoModel(cs, "panic")
		c.PredFail(id, "convert/"+v.T.Kind+"/"+inputClass(in)+"/panic", fmt.Sprintf("%s Convert(%s) panicked: %s", v.Key, in, pv), cs)
		return
	}
	obs := "Err"
	var gotV gv
	if err == nil {
		gotV = fromGo(got)
		obs = "(Ok " + gotV.coq() + ")"
		cs.Out = gotV.String()
	} else {
		cs.Out = "error"
	}
	c.Count("conv:" + v.T.Kind + ":" + inputClass(in) + ":" + map[bool]string{true: "accepted", false: "rejected"}[err == nil])
	id := c.Case(fmt.Sprintf("(CConv %s %s %s)", coqString(v.Key), in.coq(), obs), cs, "conv|"+v.Key+"|"+in.String())
	c.PredChecked()
	verdict, want := ideal(v.T, in)
	sig := "convert/" + v.T.Kind + "/" + inputClass(in) + "/"
	switch {
	case err == nil && verdict == mustReject:
		c.PredFail(id, sig+"accepted-invalid", fmt.Sprintf("%s (%s): Convert(%s) = %s, but the value is not valid for the variable", v.Key, v.T.coq(), in, gotV), cs)
	case err != nil && verdict == mustAccept:
		c.PredFail(id, sig+"rejected-valid", fmt.Sprintf("%s (%s): Convert(%s) fails (%v) although the value is valid", v.Key, v.T.coq(), in, err), cs)
	case err == nil:
		if f := checkStored(v.T, want, v.T.shownGo(gotV)); f != "" {
			c.PredFail(id, sig+f, fmt.Sprintf("%s (%s): Convert(%s) = %s, expected %s", v.Key, v.T.coq(), in, gotV, want), cs)
		}
	}
}

// ----- histories of whole SET statements -----

type refVal struct {
	v       gv
	alts    []gv // when non-empty: any of these (SET x = DEFAULT: the compiled default or the current global)
	unknown bool // after a defect was reported for this slot, or when the property does not fix it
	set     bool // assigned in this history (then the Go type is checked too)
}

func (r *refVal) copyOf() *refVal { c := *r; c.alts = append([]gv(nil), r.alts...); return &c }

func litValue(s *eng.S, lit string) (gv, bool) {
	switch strings.ToUpper(lit) {
	case "ON", "OFF": // the parser hands the bare keywords over as the string literal that was typed
		return gv{K: "str", S: lit}, true
	}
	r := s.Query("SELECT " + lit)
	if r.Err != nil || len(r.Rows) != 1 || len(r.Rows[0]) != 1 {
		return gv{}, false
	}
	g := fromGo(r.Rows[0][0])
	return g, g.K != "opq"
}

func coqNat(i int) string { return strconv.Itoa(i) + "%nat" }

// normalise turns the single-assignment spelling of an op (used by the corpus and the recorded findings) into a statement.
func (o opT) normalise() opT {
	switch o.Op {
	case "global", "session", "user":
		return opT{Op: "set", S: o.S, A: []asgT{{Tg: o.Op, X: o.X, Form: o.Form, Src: "lit", Lit: o.Lit}}}
	}
	return o
}

func (a asgT) sqlTarget(first bool) string {
	f := a.Form % 4
	if f == 3 && !first {
		f = 0 // a bare name after the first assignment would inherit the preceding scope keyword
	}
	switch a.Tg {
	case "global":
		return []string{"GLOBAL ", "@@GLOBAL.", "@@global.", "GLOBAL "}[f] + a.X
	case "session":
		return []string{"SESSION ", "@@SESSION.", "@@", ""}[f] + a.X
	case "persist":
		return []string{"PERSIST ", "@@PERSIST."}[f%2] + a.X
	case "persist_only":
		return []string{"PERSIST_ONLY ", "@@PERSIST_ONLY."}[f%2] + a.X
	}
	return "@" + a.X
}

func (a asgT) sqlSource() string {
	switch a.Src {
	case "default":
		return "DEFAULT"
	case "bare":
		return "@@" + a.Y
	case "global":
		return "@@GLOBAL." + a.Y
	case "session":
		return "@@SESSION." + a.Y
	case "user":
		return "@" + a.Y
	}
	return a.Lit
}

func runHist(c *lib.Ctx, cs caseT) {
	variables.InitSystemVariables()
	e := eng.New("db")
	var sess []*eng.S
	refGlobal := map[string]*refVal{}
	var refSess []map[string]*refVal
	var refUser []map[string]*refVal
	var persisted []map[string]gv // what the driver itself saw in each session's persisted store
	track := map[string]bool{}
	for _, x := range cs.Vars {
		track[x] = true
	}
	for _, o := range cs.Ops { // every variable a statement mentions is tracked and read
		for _, a := range o.normalise().A {
			if a.Tg != "user" {
				track[strings.ToLower(a.X)] = true
			}
			if a.Src == "bare" || a.Src == "global" || a.Src == "session" {
				track[strings.ToLower(a.Y)] = true
			}
		}
	}
	var vars []string
	for _, x := range lib.SortedKeys(track) {
		if v := regByKey[x]; v != nil {
			vars = append(vars, x)
			refGlobal[x] = &refVal{v: fromGo(v.Default)}
		}
	}
	userNames := map[string]bool{}
	persNames := map[string]bool{}
	for _, o := range cs.Ops {
		for _, a := range o.normalise().A {
			if a.Tg == "user" {
				userNames[strings.ToLower(a.X)] = true
			}
			if a.Src == "user" {
				userNames[strings.ToLower(a.Y)] = true
			}
			if a.Tg == "persist" || a.Tg == "persist_only" {
				persNames[a.X] = true
				persNames[strings.ToLower(a.X)] = true
			}
		}
	}
	type fail struct{ sig, what string }
	var fails []fail
	addFail := func(sig, what string) { fails = append(fails, fail{sig, what}) }
	var steps []string
	modelOK := true
	var nameRNG *lib.RNG
	if cs.NameSeed != 0 {
		nameRNG = lib.NewRNG(cs.NameSeed)
	}
	spell := func(x string) string {
		if nameRNG == nil || nameRNG.Chance(1, 3) {
			return x
		}
		return mixCase(nameRNG, x)
	}
	query := func(s *eng.S, q string) (gv, bool, bool) { // value, ok, usable
		r := s.Query(q)
		if r.Panic != "" {
			addFail("panic", q+": "+r.Panic)
			return gv{}, false, false
		}
		if r.Err != nil {
			return gv{}, false, true
		}
		if len(r.Rows) != 1 || len(r.Rows[0]) != 1 {
			return gv{}, false, false
		}
		return fromGo(r.Rows[0][0]), true, true
	}
	readPersisted := func(si int, name string) gv {
		v, _ := sess[si].Ctx.Session.(*memory.Session).GetPersistedValue(name)
		return fromGo(v)
	}

	for i, o0 := range cs.Ops {
		o := o0.normalise()
		var stmtTerm, q string
		accepted := true
		desc := fmt.Sprintf("step %d", i)
		switch o.Op {
		case "new":
			ns := e.Session()
			ns.Ctx.Session.(*memory.Session).SetGlobals(map[string]interface{}{})
			sess = append(sess, ns)
			m := map[string]*refVal{}
			for k, rv := range refGlobal {
				m[k] = rv.copyOf()
			}
			refSess = append(refSess, m)
			refUser = append(refUser, map[string]*refVal{})
			persisted = append(persisted, map[string]gv{})
			stmtTerm = "SNew"
		case "set":
			if o.S >= len(sess) || len(o.A) == 0 {
				modelOK = false
				continue
			}
			si := o.S
			// SQL text and model term
			var parts, terms []string
			vals := make([]gv, len(o.A))
			good := true
			for k, a := range o.A {
				parts = append(parts, a.sqlTarget(k == 0)+" = "+a.sqlSource())
				var tg, src string
				switch a.Tg {
				case "global":
					tg = "TgGlobal " + coqString(a.X)
				case "session":
					tg = "TgSession " + lib.CoqBool(a.Form%4 == 1) + " " + coqString(a.X)
				case "persist":
					tg = "TgPersist false " + coqString(a.X)
				case "persist_only":
					tg = "TgPersist true " + coqString(a.X)
				default:
					tg = "TgUser " + coqString(a.X)
				}
				switch a.Src {
				case "default":
					src = "SrcDefault"
				case "bare":
					src = "SrcBare " + coqString(a.Y)
				case "global":
					src = "SrcGlobal " + coqString(a.Y)
				case "session":
					src = "SrcSession " + coqString(a.Y)
				case "user":
					src = "SrcUser " + coqString(a.Y)
				default:
					v, ok := litValue(sess[si], a.Lit)
					if !ok {
						good = false
					}
					vals[k] = v
					src = "SrcVal " + v.coq()
				}
				terms = append(terms, "("+tg+", "+src+")")
			}
			if !good {
				modelOK = false
				continue
			}
			q = "SET " + strings.Join(parts, ", ")
			desc = fmt.Sprintf("step %d session %d: %s", i, si, q)
			stmtTerm = fmt.Sprintf("SSet %s %s", coqNat(si), lib.CoqList(terms))
			persBefore := map[string]gv{}
			for n := range persNames {
				persBefore[n] = readPersisted(si, n)
			}
			r := sess[si].Query(q)
			if r.Panic != "" {
				addFail("panic", q+": "+r.Panic)
				modelOK = false
				continue
			}
			accepted = r.Err == nil

			// ---- reference: what the property demands of this statement ----
			type plan struct {
				slot    *refVal
				want    gv
				alts    []gv
				verdict int
				bad     string // non-empty: this assignment must make the statement fail (reason)
				cls     string
				kind    string
				noValue bool // PERSIST_ONLY: running values untouched
			}
			plans := make([]plan, len(o.A))
			// a scratch copy of the reference on which the assignments are replayed in order
			scratchG := map[string]*refVal{}
			for k, rv := range refGlobal {
				scratchG[k] = rv.copyOf()
			}
			scratchS := map[string]*refVal{}
			for k, rv := range refSess[si] {
				scratchS[k] = rv.copyOf()
			}
			scratchU := map[string]*refVal{}
			for k, rv := range refUser[si] {
				scratchU[k] = rv.copyOf()
			}
			known := func(rv *refVal) (gv, bool) {
				if rv == nil || rv.unknown || len(rv.alts) > 0 || rv.v.K == "opq" {
					return gv{}, false
				}
				return rv.v, true
			}
			for k, a := range o.A {
				pl := &plans[k]
				key := strings.ToLower(a.X)
				// the value assigned, as far as the reference knows it
				var val gv
				valKnown := true
				isDefault := false
				switch a.Src {
				case "lit":
					val = vals[k]
				case "default":
					isDefault = true
				case "global":
					val, valKnown = known(scratchG[strings.ToLower(a.Y)])
				case "bare", "session":
					yv := regByKey[strings.ToLower(a.Y)]
					if yv != nil && yv.Scope == "ScGlobal" {
						valKnown = false // stale snapshot / error: see the bare-read finding
					} else {
						val, valKnown = known(scratchS[strings.ToLower(a.Y)])
					}
				case "user":
					if rv, ok := scratchU[strings.ToLower(a.Y)]; ok {
						val, valKnown = known(rv)
					} else {
						val = gv{K: "nil"}
					}
				}
				srcMayFail := false // reading @@SESSION.y of a GLOBAL-only y is an error of its own
				if a.Src == "session" {
					if yv := regByKey[strings.ToLower(a.Y)]; yv != nil && yv.Scope == "ScGlobal" {
						srcMayFail = true
					}
				}
				if a.Tg == "user" {
					pl.kind = "user"
					if isDefault {
						pl.bad = "default-for-user-variable"
						continue
					}
					nv := &refVal{v: val, unknown: !valKnown, set: true}
					scratchU[key] = nv
					pl.slot = nv
					pl.verdict = mustAccept
					if srcMayFail {
						pl.verdict = mayEither
					}
					continue
				}
				v := regByKey[key]
				if v == nil {
					pl.bad = "unknown-variable"
					continue
				}
				pl.kind = v.T.Kind
				global := a.Tg == "global" || a.Tg == "persist"
				if a.Tg != "persist_only" {
					if !v.Dynamic {
						pl.bad = "non-dynamic"
					} else if global && v.Scope == "ScSession" {
						pl.bad = "session-only"
					} else if !global && v.Scope == "ScGlobal" {
						pl.bad = "global-only"
					}
				}
				if isDefault {
					if a.Tg == "persist" || a.Tg == "persist_only" {
						pl.verdict = mayEither
						pl.noValue = true
						continue
					}
					pl.verdict = mayEither
					d := fromGo(v.Default)
					pl.alts = []gv{d}
					if g, ok := known(scratchG[key]); ok && !global {
						pl.alts = append(pl.alts, g)
					}
					if d.K == "opq" {
						pl.alts = nil
						pl.want = gv{K: "opq"}
					}
					pl.cls = "default"
				} else if !valKnown {
					pl.verdict, pl.want, pl.cls = mayEither, gv{K: "opq"}, "unknown-source"
				} else {
					pl.verdict, pl.want = ideal(v.T, val)
					pl.cls = inputClass(val)
					if pl.verdict == mustReject && pl.bad == "" {
						pl.bad = "invalid-value"
					}
				}
				if a.Tg == "persist_only" {
					pl.noValue = true
					if pl.verdict == mustAccept {
						pl.verdict = mayEither
					}
					continue
				}
				if a.Tg == "persist" && pl.verdict == mustAccept {
					pl.verdict = mayEither // whether the session can persist at all is not the property's business
				}
				nv := &refVal{v: pl.want, alts: pl.alts, unknown: pl.want.K == "opq" && len(pl.alts) == 0, set: true}
				if pl.bad == "" {
					if global {
						scratchG[key] = nv
					} else {
						scratchS[key] = nv
					}
				}
				pl.slot = nv
			}
			firstBad := -1
			allMust := true
			for k := range plans {
				if plans[k].bad != "" && firstBad < 0 {
					firstBad = k
				}
				if plans[k].verdict != mustAccept || plans[k].bad != "" {
					allMust = false
				}
			}
			multi := "set" // signatures name the root cause, not the number of assignments
			switch {
			case accepted && firstBad >= 0:
				pl := plans[firstBad]
				sig := multi + "/" + pl.kind + "/" + pl.cls + "/accepted-invalid"
				switch pl.bad {
				case "non-dynamic":
					sig = multi + "/non-dynamic-accepted"
				case "session-only", "global-only":
					sig = multi + "/wrong-scope-accepted/" + pl.bad
				case "unknown-variable", "default-for-user-variable":
					sig = multi + "/" + pl.bad + "-accepted"
				}
				addFail(sig, fmt.Sprintf("%s succeeds although assignment %d must be refused (%s)", desc, firstBad+1, pl.bad))
				// the reference no longer knows the targets of this statement
				for k, a := range o.A {
					key := strings.ToLower(a.X)
					switch a.Tg {
					case "global", "persist":
						if rv := refGlobal[key]; rv != nil {
							rv.unknown = true
						}
					case "session":
						if rv := refSess[si][key]; rv != nil {
							rv.unknown = true
						}
					case "user":
						refUser[si][key] = &refVal{unknown: true}
					}
					_ = k
				}
			case accepted:
				// every assignment took effect, in order
				for k, rv := range scratchG {
					refGlobal[k] = rv
				}
				for k, rv := range scratchS {
					refSess[si][k] = rv
				}
				for k, rv := range scratchU {
					refUser[si][k] = rv
				}
			case !accepted && allMust:
				addFail(multi+"/"+plans[0].kind+"/"+plans[0].cls+"/rejected-valid", fmt.Sprintf("%s fails (%v) although every assignment is valid", desc, r.Err))
			default:
				// rejected: the offending assignment and everything after it have no effect; with several assignments the
				// earlier ones may or may not have run (the code runs them: C44_multi_set_not_atomic_fact)
				if len(o.A) > 1 {
					// only an assignment that is refused for its scope / dynamic flag / name is sure to stop the statement; one
					// with an invalid value may be an instance of a known validation defect and have run
					lim := len(o.A)
					for k := range plans {
						if b := plans[k].bad; b != "" && b != "invalid-value" {
							lim = k
							break
						}
					}
					for k := 0; k < lim; k++ {
						a := o.A[k]
						key := strings.ToLower(a.X)
						switch a.Tg {
						case "global", "persist":
							if rv := refGlobal[key]; rv != nil {
								rv.unknown = true
							}
						case "session":
							if rv := refSess[si][key]; rv != nil {
								rv.unknown = true
							}
						case "user":
							refUser[si][key] = &refVal{unknown: true}
						}
					}
				}
				// nothing may have been persisted by a (single-assignment) statement that failed
				for _, n := range lib.SortedKeys(persBefore) {
					if len(o.A) != 1 {
						break
					}
					if now := readPersisted(si, n); !now.eq(persBefore[n]) {
						reason := "other"
						if firstBad >= 0 {
							reason = plans[firstBad].bad
						}
						addFail("persist/rejected-but-persisted/"+reason, fmt.Sprintf("%s fails (%v) but the session's persisted store now has %s = %s (was %s)", desc, r.Err, n, now, persBefore[n]))
					}
				}
			}
		default:
			modelOK = false
			continue
		}

		// ---- reads after the step ----
		var reads []string
		for si, s := range sess {
			for _, x := range vars {
				v := regByKey[x]
				check := func(what string, slot *refVal, got gv) {
					if slot == nil || slot.unknown {
						return
					}
					if len(slot.alts) > 0 {
						for _, a := range slot.alts {
							if a.sameValue(got) {
								return
							}
						}
						addFail("read/"+what+"/not-a-default", fmt.Sprintf("after %s: session %d %s = %s, expected one of %v", desc, si, what+x, got, slot.alts))
						slot.unknown = true
						return
					}
					if slot.set {
						if f := checkStored(v.T, slot.v, got); f != "" {
							addFail("read/"+what+"/"+f, fmt.Sprintf("after %s: session %d %s = %s, the value assigned is %s", desc, si, what+x, got, slot.v))
							slot.unknown = true
						}
					} else if !slot.v.sameValue(got) && slot.v.K != "opq" {
						addFail("read/"+what+"/changed-without-assignment", fmt.Sprintf("after %s: session %d %s = %s, expected the untouched %s", desc, si, what+x, got, slot.v))
						slot.unknown = true
					}
				}
				xg, xb, xs := spell(x), spell(x), spell(x)
				if g, ok, usable := query(s, "SELECT @@"+lib.Pick(lib.NewRNG(uint64(i*131+si)+cs.NameSeed), []string{"global", "GLOBAL", "Global"})+"."+xg); usable {
					if ok {
						reads = append(reads, fmt.Sprintf("(RdGlobal %s %s, OVal %s)", coqNat(si), coqString(xg), g.coq()))
						check("@@global.", refGlobal[x], g)
					} else {
						reads = append(reads, fmt.Sprintf("(RdGlobal %s %s, OErr)", coqNat(si), coqString(xg)))
						addFail("read/@@global./error", fmt.Sprintf("after %s: SELECT @@global.%s fails", desc, x))
					}
				}
				if g, ok, usable := query(s, "SELECT @@"+xb); usable {
					if ok {
						reads = append(reads, fmt.Sprintf("(RdBare %s %s, OVal %s)", coqNat(si), coqString(xb), g.coq()))
						if v.Scope == "ScGlobal" {
							slot := refGlobal[x]
							if !slot.unknown && slot.set && len(slot.alts) == 0 && checkStored(v.T, slot.v, g) != "" {
								addFail("read/global-only-variable/bare-read-stale-after-set-global",
									fmt.Sprintf("after %s: session %d SELECT @@%s = %s although SET GLOBAL assigned %s (@@global.%s shows it)", desc, si, x, g, slot.v, x))
							} else if !slot.set {
								check("@@", slot, g)
							}
						} else {
							check("@@", refSess[si][x], g)
						}
					} else {
						reads = append(reads, fmt.Sprintf("(RdBare %s %s, OErr)", coqNat(si), coqString(xb)))
						addFail("read/@@/error", fmt.Sprintf("after %s: SELECT @@%s fails", desc, x))
					}
				}
				if (i+si)%3 == 0 {
					if g, ok, usable := query(s, "SELECT @@session."+xs); usable {
						if ok {
							reads = append(reads, fmt.Sprintf("(RdSession %s %s, OVal %s)", coqNat(si), coqString(xs), g.coq()))
							if v.Scope != "ScGlobal" {
								check("@@session.", refSess[si][x], g)
							}
						} else {
							reads = append(reads, fmt.Sprintf("(RdSession %s %s, OErr)", coqNat(si), coqString(xs)))
							if v.Scope != "ScGlobal" {
								addFail("read/@@session./error", fmt.Sprintf("after %s: SELECT @@session.%s fails", desc, x))
							}
						}
					}
				}
			}
			for _, n := range lib.SortedKeys(userNames) {
				if g, ok, usable := query(s, "SELECT @"+n); usable && ok {
					reads = append(reads, fmt.Sprintf("(RdUser %s %s, OVal %s)", coqNat(si), coqString(n), g.coq()))
					rv, has := refUser[si][n]
					if !has {
						rv = &refVal{v: gv{K: "nil"}}
					}
					if !rv.unknown && rv.v.K != "opq" && !rv.v.eq(g) {
						addFail("user-variable/wrong-value", fmt.Sprintf("after %s: session %d SELECT @%s = %s, assigned %s", desc, si, n, g, rv.v))
					}
				}
			}
			for _, n := range lib.SortedKeys(persNames) {
				reads = append(reads, fmt.Sprintf("(RdPersist %s %s, OVal %s)", coqNat(si), coqString(n), readPersisted(si, n).coq()))
			}
		}
		steps = append(steps, fmt.Sprintf("(%s, %s, %s)", stmtTerm, lib.CoqBool(accepted), lib.CoqList(reads)))
		if o.Op == "set" {
			c.Count(fmt.Sprintf("hist-stmt:%d-assignments:%s", len(o.A), map[bool]string{true: "accepted", false: "rejected"}[accepted]))
			for _, a := range o.A {
				c.Count("hist-assign:" + a.Tg + ":" + a.Src)
			}
		}
	}
	var id int
	if modelOK {
		id = c.Case("(CHist "+lib.CoqList(steps)+")", cs, fmt.Sprintf("hist|%v", cs.Ops))
	} else {
		id = c.CaseNoModel(cs, "")
		c.Count("hist:not-compared-with-model")
	}
	c.PredChecked()
	seen := map[string]bool{}
	for _, f := range fails {
		if !seen[f.sig] {
			seen[f.sig] = true
			c.PredFail(id, f.sig, f.what, cs)
		}
	}
}

// ----- registry -----

func runReg(c *lib.Ctx) {
	c.Case(fmt.Sprintf("(CRegCount %d%%N)", len(reg)), caseT{Kind: "reg", Var: "#count"}, "")
	for i := range reg {
		v := &reg[i]
		cs := caseT{Kind: "reg", Var: v.Key}
		id := c.Case("(CReg "+v.coq()+")", cs, "reg|"+v.Key)
		c.Count("registry:" + v.T.Kind + ":" + v.Scope)
		// the property makes no demand on defaults; count the ones outside their own range (Coq: C44_default_outside_range_fact)
		_ = id
		if v.T.Kind == "set" || v.T.Kind == "other" || v.ValueFn {
			continue
		}
		if verdict, _ := ideal(v.T, fromGo(v.Default)); verdict == mustReject {
			c.Count("registry:default-outside-range:" + v.Key)
		}
	}
}

// ---------- generators ----------

func fitKind(r *lib.RNG, z *big.Int) string {
	// a Go integer kind that can hold z (the SQL layer picks the smallest, direct calls may use any)
	var ks []string
	type rg struct {
		k      string
		lo, hi *big.Int
	}
	u := func(bits uint) *big.Int { return new(big.Int).Sub(new(big.Int).Lsh(big.NewInt(1), bits), big.NewInt(1)) }
	n := func(bits uint) *big.Int { return new(big.Int).Neg(new(big.Int).Lsh(big.NewInt(1), bits)) }
	for _, k := range []rg{{"int8", n(7), u(7)}, {"int16", n(15), u(15)}, {"int32", n(31), u(31)}, {"int64", n(63), u(63)}, {"int", n(63), u(63)},
		{"uint8", big.NewInt(0), u(8)}, {"uint16", big.NewInt(0), u(16)}, {"uint32", big.NewInt(0), u(32)}, {"uint64", big.NewInt(0), u(64)}, {"uint", big.NewInt(0), u(64)}} {
		if z.Cmp(k.lo) >= 0 && z.Cmp(k.hi) <= 0 {
			ks = append(ks, k.k)
		}
	}
	if len(ks) == 0 {
		return ""
	}
	return lib.Pick(r, ks)
}

// interesting integers for a type
func candInts(r *lib.RNG, t tdesc) []*big.Int {
	one := big.NewInt(1)
	out := []*big.Int{big.NewInt(0), big.NewInt(1), big.NewInt(-1), big.NewInt(2), new(big.Int).Set(maxI64), new(big.Int).Set(minI64),
		new(big.Int).Set(maxU64), new(big.Int).Add(maxI64, one), big.NewInt(int64(r.Intn(100000))), big.NewInt(-int64(r.Intn(100000))),
		new(big.Int).SetUint64(r.Uint64()), big.NewInt(int64(r.Uint64()))}
	if t.Lo != nil {
		out = append(out, t.Lo, t.Hi, new(big.Int).Sub(t.Lo, one), new(big.Int).Add(t.Hi, one), new(big.Int).Add(t.Lo, one), new(big.Int).Sub(t.Hi, one))
		span := new(big.Int).Sub(t.Hi, t.Lo)
		if span.Sign() > 0 {
			x := new(big.Int).Mod(new(big.Int).SetUint64(r.Uint64()), new(big.Int).Add(span, one))
			out = append(out, x.Add(x, t.Lo))
		}
		// values that only fit after wrapping around 2^64
		out = append(out, new(big.Int).Add(new(big.Int).Lsh(one, 64), t.Lo), new(big.Int).Sub(t.Hi, new(big.Int).Lsh(one, 64)))
	}
	if t.Kind == "enum" {
		out = append(out, big.NewInt(int64(len(t.Vals))), big.NewInt(int64(len(t.Vals)-1)), big.NewInt(int64(r.Intn(len(t.Vals)+1))))
	}
	return out
}

func mixCase(r *lib.RNG, s string) string {
	b := []byte(s)
	for i := range b {
		if r.Bool() {
			b[i] = []byte(strings.ToUpper(string(b[i])))[0]
		} else {
			b[i] = []byte(strings.ToLower(string(b[i])))[0]
		}
	}
	return string(b)
}

// genValue produces one Go value (as gv) to assign to a variable of type t.
func genValue(r *lib.RNG, t tdesc, sqlOnly bool) gv {
	ints := candInts(r, t)
	pickInt := func() *big.Int {
		for {
			z := lib.Pick(r, ints)
			if z.Cmp(minI64) >= 0 && z.Cmp(maxU64) <= 0 {
				return z
			}
		}
	}
	strs := []string{"", "on", "OFF", "True", "false", "abc", "1", "0", " 1", "1 ", "+5", "-1", "0x10", "1e3", "1.0", "default", "null"}
	for _, v := range t.Vals {
		strs = append(strs, v, mixCase(r, v), v+" ", v+"x")
	}
	switch n := r.Intn(20); {
	case n < 9:
		z := pickInt()
		return intGV(fitKind(r, z), z)
	case n < 11: // integral float
		z := pickInt()
		f, _ := new(big.Float).SetInt(z).Float64()
		return fromGo(f)
	case n < 12:
		return fromGo(lib.Pick(r, []float64{0.5, 1.5, -0.5, 1e30, -1e30, 2.25, 1e-3}))
	case n < 14: // decimal
		z := pickInt()
		if z.BitLen() > 40 {
			z = big.NewInt(int64(r.Intn(1000)) - 100)
		}
		return gv{K: "dec", D: z.String() + lib.Pick(r, []string{".0", ".5", ".00", ".25"})}
	case n < 17:
		if r.Bool() {
			return gv{K: "str", S: pickInt().String()}
		}
		return gv{K: "str", S: lib.Pick(r, strs)}
	case n < 19:
		return gv{K: "bool", B: r.Bool()}
	default:
		if sqlOnly {
			return gv{K: "bool", B: r.Bool()}
		}
		return gv{K: "nil"}
	}
}

// sqlLit renders a value as the SQL expression the driver assigns; bare says a bool may be spelled ON / OFF.
func sqlLit(r *lib.RNG, g gv) string {
	switch g.K {
	case "nil":
		return "NULL"
	case "bool":
		switch r.Intn(3) {
		case 0:
			return map[bool]string{true: "ON", false: "OFF"}[g.B]
		case 1:
			return map[bool]string{true: "on", false: "Off"}[g.B]
		}
		return map[bool]string{true: "TRUE", false: "FALSE"}[g.B]
	case "int":
		return g.Z
	case "float":
		f, _ := strconv.ParseFloat(g.F, 64)
		return strconv.FormatFloat(f, 'e', -1, 64)
	case "dec":
		return g.D
	default:
		return "'" + strings.ReplaceAll(g.S, "'", "''") + "'"
	}
}

var modelledVars []*vdesc

// genLit: the SQL text assigned in a history step; besides the value families of genValue, fractional numerics around
// valid values written as decimals, floats and divisions (7/2 evaluates to the decimal 3.5000).
func genLit(r *lib.RNG, t tdesc) string {
	if t.Lo != nil && r.Chance(1, 4) {
		ints := candInts(r, t)
		z := lib.Pick(r, ints)
		for z.BitLen() > 50 {
			z = lib.Pick(r, ints)
		}
		switch r.Intn(4) {
		case 0:
			if t.Kind == "double" { // only fractions a float64 holds exactly (the model takes decimals as exact)
				return z.String() + lib.Pick(r, []string{".5", ".25", ".75", ".50"})
			}
			return z.String() + lib.Pick(r, []string{".5", ".4", ".6", ".25", ".75", ".50"})
		case 1:
			odd := new(big.Int).Add(new(big.Int).Mul(z, big.NewInt(2)), big.NewInt(1))
			if odd.Sign() < 0 {
				return "(" + odd.String() + ")/2"
			}
			return odd.String() + "/2"
		case 2:
			return z.String() + lib.Pick(r, []string{".5e0", ".25e0", ".75e0"})
		default:
			return z.String() + lib.Pick(r, []string{".0", ".00", "e0"})
		}
	}
	return sqlLit(r, genValue(r, t, true))
}

func genConv(r *lib.RNG) caseT {
	v := lib.Pick(r, modelledVars)
	g := genValue(r, v.T, false)
	return caseT{Kind: "conv", Var: v.Key, In: &g}
}

// user variables take every value type: integers of all sizes, decimals, floats, strings, NULL, booleans
func genUserLit(r *lib.RNG) string {
	return lib.Pick(r, []string{"0", "7", "-7", "200", "-300", "70000", "3000000000", "-3000000000", "9223372036854775807", "18446744073709551615",
		"1.5", "1.50", "-0.25", "123456789.125", "7/2", "1e0", "2.5e0", "-1.5e3", "'abc'", "''", "'on'", "'1.5'", "NULL", "TRUE", "FALSE", "ON", "'it''s'"})
}

func genLitFor(r *lib.RNG, v *vdesc) string {
	if v.T.Kind == "set" {
		names := v.T.Vals
		switch r.Intn(8) {
		case 0:
			return "''"
		case 1:
			return "'" + lib.Pick(r, []string{"x", "ANSI,", " ansi", "ansi ,", "1", "0,2", ", ,", "nope,ANSI"}) + "'"
		case 2:
			if v.Key != "sql_mode" { // integer literals for sql_mode are rewritten by the planbuilder
				return strconv.Itoa(r.Intn(1<<uint(len(names)) + 2))
			}
			return lib.Pick(r, []string{"1.0", "2e0", "NULL", "TRUE", "1.5"})
		default:
			n := r.Range(1, 3)
			var ps []string
			for k := 0; k < n; k++ {
				nm := lib.Pick(r, names)
				switch r.Intn(4) {
				case 0:
					nm = mixCase(r, nm)
				case 1:
					nm = strings.ToLower(nm)
				}
				if r.Chance(1, 8) {
					nm += " "
				}
				ps = append(ps, nm)
			}
			if r.Chance(1, 8) {
				ps = append(ps, "")
			}
			return "'" + strings.Join(ps, ",") + "'"
		}
	}
	return genLit(r, v.T)
}

func genAssign(r *lib.RNG, vs []*vdesc, users []string) asgT {
	v := lib.Pick(r, vs)
	name := v.Key
	switch r.Intn(4) {
	case 0:
		name = mixCase(r, name)
	case 1:
		name = strings.ToUpper(name)
	}
	a := asgT{X: name, Form: r.Intn(4)}
	switch k := r.Intn(20); {
	case k < 8:
		a.Tg = "session"
	case k < 14:
		a.Tg = "global"
	case k < 17:
		a.Tg, a.X = "user", lib.Pick(r, users)
	case k < 19:
		a.Tg = "persist"
	default:
		a.Tg = "persist_only"
	}
	other := lib.Pick(r, vs)
	y := v.Key
	if r.Chance(1, 3) {
		y = other.Key
	}
	if r.Chance(1, 3) {
		y = mixCase(r, y)
	}
	switch k := r.Intn(20); {
	case k < 13:
		a.Src = "lit"
		if a.Tg == "user" {
			if r.Bool() {
				a.Lit = genUserLit(r)
			} else {
				a.Lit = genLitFor(r, v)
			}
		} else {
			a.Lit = genLitFor(r, v)
		}
	case k < 15:
		a.Src = "default"
	case k < 17:
		a.Src, a.Y = "global", y
	case k < 18:
		a.Src, a.Y = "bare", y
	case k < 19:
		a.Src, a.Y = "session", y
	default:
		a.Src, a.Y = "user", lib.Pick(r, users)
	}
	return a
}

func genHist(r *lib.RNG) caseT {
	var cs caseT
	cs.Kind = "hist"
	nv := r.Range(1, 2)
	var vs []*vdesc
	for len(vs) < nv {
		v := lib.Pick(r, modelledVars)
		if r.Chance(2, 3) && !v.Dynamic {
			continue // mostly assignable ones
		}
		if r.Chance(1, 12) { // the SET-typed and SQL-typed variables are few: pick them on purpose now and then
			v = regByKey[lib.Pick(r, []string{"sql_mode", "log_output", "protocol_compression_algorithms", "server_id", "server_uuid"})]
		}
		dup := false
		for _, w := range vs {
			dup = dup || w == v
		}
		if !dup && v != nil {
			vs = append(vs, v)
			cs.Vars = append(cs.Vars, v.Key)
		}
	}
	cs.Ops = append(cs.Ops, opT{Op: "new"})
	ns := 1
	n := r.Range(4, 9)
	users := []string{"u", "V", "u2"}
	for i := 0; i < n; i++ {
		if r.Chance(1, 5) && ns < 4 {
			cs.Ops = append(cs.Ops, opT{Op: "new"})
			ns++
			continue
		}
		o := opT{Op: "set", S: r.Intn(ns)}
		na := 1
		if r.Chance(1, 4) {
			na = r.Range(2, 3)
		}
		for k := 0; k < na; k++ {
			o.A = append(o.A, genAssign(r, vs, users))
		}
		cs.Ops = append(cs.Ops, o)
	}
	if r.Chance(2, 3) {
		cs.Ops = append(cs.Ops, opT{Op: "new"})
	}
	cs.NameSeed = r.Uint64() | 1
	return cs
}

func run(c *lib.Ctx, cs caseT) {
	switch cs.Kind {
	case "conv":
		runConv(c, cs)
	case "hist":
		runHist(c, cs)
	case "reg":
		runReg(c)
	}
}

func strp(k, kind, z string) *gv { return &gv{K: k, Kind: kind, Z: z} }

func main() {
	lib.Main("C44", func(c *lib.Ctx) {
		c.Header = "From Coq Require Import String ZArith NArith List.\nImport ListNotations.\nFrom GMS Require Import Sys.C44SysVarsBase Sys.C44SysVars Sys.C44SysVarsStmt Corr.C44.\nOpen Scope string_scope.\nOpen Scope N_scope."
		c.CaseType = "C44.case"
		c.MismatchFn = "C44.mismatches"
		c.SetRule("registry: every variable the running engine has (reflection) against the translated table; " +
			"conv: Type.Convert of a random modelled variable on boundary / boundary+-1 / wrapping / random integers of every Go kind, " +
			"integral and fractional floats and decimals, numeric and keyword strings, enum names in mixed case, bools, nil; " +
			"hist: 1-2 variables, up to 4 sessions, 4-10 SET GLOBAL / SET SESSION / SET @u / new-session steps with the same value " +
			"families as SQL literals, every variable read as @@x, @@global.x (and @@session.x) in every session after every step. " +
			"Non-trivial = distinct conv inputs / distinct histories / registry entries.")
		variables.InitSystemVariables()
		reg = loadRegistry()
		for i := range reg {
			regByKey[reg[i].Key] = &reg[i]
			if modelled(&reg[i]) {
				modelledVars = append(modelledVars, &reg[i])
			}
		}
		var excluded []string
		for i := range reg {
			if !modelled(&reg[i]) {
				excluded = append(excluded, reg[i].Key)
			}
		}
		c.SetExtra("variables", len(reg))
		c.SetExtra("modelled_variables", len(modelledVars))
		c.SetExtra("excluded_from_set_cases", excluded)
		if c.ReplayFile != "" {
			var cs caseT
			lib.LoadReplay(c.ReplayFile, &cs)
			run(c, cs)
			return
		}
		corpus := []caseT{
			// findings on the unchanged tree
			{Kind: "hist", Vars: []string{"max_connections"}, Ops: []opT{{Op: "new"}, {Op: "global", S: 0, X: "max_connections", Lit: "200"}, {Op: "new"}}},
			{Kind: "conv", Var: "group_concat_max_len", In: strp("int", "int8", "-1")},
			{Kind: "hist", Vars: []string{"group_concat_max_len"}, Ops: []opT{{Op: "new"}, {Op: "session", S: 0, X: "group_concat_max_len", Lit: "-1"}}},
			{Kind: "conv", Var: "group_concat_max_len", In: &gv{K: "dec", D: "-5.0"}},
			{Kind: "conv", Var: "group_concat_max_len", In: &gv{K: "dec", D: "4.5"}},
			{Kind: "conv", Var: "max_join_size", In: &gv{K: "float", F: "-1"}},
			{Kind: "conv", Var: "server_id", In: strp("int", "int8", "-1")},
			// fractional numerics on signed INT variables are rejected without effect
			{Kind: "hist", Vars: []string{"auto_increment_increment", "max_connections"}, NameSeed: 7, Ops: []opT{{Op: "new"},
				{Op: "session", S: 0, X: "auto_increment_increment", Lit: "2.5", Form: 2}, {Op: "session", S: 0, X: "auto_increment_increment", Lit: "7/2", Form: 2},
				{Op: "global", S: 0, X: "max_connections", Lit: "100.4"}, {Op: "global", S: 0, X: "auto_increment_increment", Lit: "2.5e0"},
				{Op: "session", S: 0, X: "auto_increment_increment", Lit: "3.0"}, {Op: "new"}}},
			// upper / mixed case names with GLOBAL scope, read back as @@global.x and by a new session
			{Kind: "hist", Vars: []string{"max_connections", "auto_increment_increment"}, NameSeed: 9, Ops: []opT{{Op: "new"},
				{Op: "global", S: 0, X: "MAX_CONNECTIONS", Lit: "321"}, {Op: "global", S: 0, X: "Auto_Increment_Increment", Lit: "5", Form: 1}, {Op: "new"},
				{Op: "global", S: 1, X: "AUTO_INCREMENT_INCREMENT", Lit: "6", Form: 2}, {Op: "new"}}},
			// whole statements: several assignments, DEFAULT, @@y, PERSIST, SET-typed and SQL-typed variables, user variables of every type
			{Kind: "hist", Vars: []string{"wait_timeout", "auto_increment_increment", "sql_log_bin"}, NameSeed: 11, Ops: []opT{{Op: "new"},
				{Op: "set", S: 0, A: []asgT{{Tg: "session", X: "wait_timeout", Src: "lit", Lit: "5"}, {Tg: "session", X: "auto_increment_increment", Src: "lit", Lit: "0"}, {Tg: "session", X: "sql_log_bin", Src: "lit", Lit: "1"}}},
				{Op: "set", S: 0, A: []asgT{{Tg: "session", X: "wait_timeout", Src: "lit", Lit: "6"}, {Tg: "session", X: "wait_timeout", Src: "lit", Lit: "'abc'"}}},
				{Op: "set", S: 0, A: []asgT{{Tg: "session", X: "wait_timeout", Form: 2, Src: "lit", Lit: "8"}, {Tg: "session", X: "max_connections", Form: 1, Src: "lit", Lit: "3"}}},
				{Op: "set", S: 0, A: []asgT{{Tg: "session", X: "wait_timeout", Form: 2, Src: "lit", Lit: "9"}, {Tg: "session", X: "max_connections", Form: 2, Src: "lit", Lit: "3"}}},
				{Op: "set", S: 0, A: []asgT{{Tg: "global", X: "wait_timeout", Src: "lit", Lit: "77"}, {Tg: "session", X: "wait_timeout", Form: 1, Src: "global", Y: "wait_timeout"}, {Tg: "user", X: "u", Src: "bare", Y: "wait_timeout"}}},
				{Op: "set", S: 0, A: []asgT{{Tg: "session", X: "wait_timeout", Src: "default"}}}, {Op: "new"}}},
			{Kind: "hist", Vars: []string{"version", "insert_id", "wait_timeout"}, NameSeed: 13, Ops: []opT{{Op: "new"},
				{Op: "set", S: 0, A: []asgT{{Tg: "persist", X: "wait_timeout", Src: "lit", Lit: "100"}}},
				{Op: "set", S: 0, A: []asgT{{Tg: "persist_only", X: "wait_timeout", Form: 1, Src: "lit", Lit: "66"}}},
				{Op: "set", S: 0, A: []asgT{{Tg: "persist_only", X: "version", Src: "lit", Lit: "'x'"}}},
				{Op: "set", S: 0, A: []asgT{{Tg: "persist", X: "version", Src: "lit", Lit: "'y'"}}},
				{Op: "set", S: 0, A: []asgT{{Tg: "persist", X: "insert_id", Src: "lit", Lit: "4"}}},
				{Op: "set", S: 0, A: []asgT{{Tg: "persist", X: "wait_timeout", Src: "lit", Lit: "0"}}},
				{Op: "set", S: 0, A: []asgT{{Tg: "persist", X: "wait_timeout", Src: "default"}}}, {Op: "new"}}},
			{Kind: "hist", Vars: []string{"sql_mode", "log_output", "server_id", "server_uuid"}, NameSeed: 15, Ops: []opT{{Op: "new"},
				{Op: "set", S: 0, A: []asgT{{Tg: "session", X: "sql_mode", Src: "lit", Lit: "'ansi_quotes,,ANSI ,'"}, {Tg: "user", X: "m", Src: "bare", Y: "sql_mode"}}},
				{Op: "set", S: 0, A: []asgT{{Tg: "global", X: "log_output", Src: "lit", Lit: "5"}}}, {Op: "set", S: 0, A: []asgT{{Tg: "global", X: "log_output", Src: "lit", Lit: "8"}}},
				{Op: "set", S: 0, A: []asgT{{Tg: "global", X: "log_output", Src: "lit", Lit: "'TABLE ,2, ,,0'"}}}, {Op: "set", S: 0, A: []asgT{{Tg: "global", X: "log_output", Src: "default"}}},
				{Op: "set", S: 0, A: []asgT{{Tg: "global", X: "server_id", Src: "lit", Lit: "5"}}}, {Op: "set", S: 0, A: []asgT{{Tg: "global", X: "server_id", Src: "lit", Lit: "-1"}}},
				{Op: "set", S: 0, A: []asgT{{Tg: "global", X: "server_id", Src: "lit", Lit: "4294967296"}}}, {Op: "set", S: 0, A: []asgT{{Tg: "session", X: "server_id", Src: "lit", Lit: "NULL"}}},
				{Op: "set", S: 0, A: []asgT{{Tg: "global", X: "server_uuid", Src: "lit", Lit: "'abc'"}}}, {Op: "set", S: 0, A: []asgT{{Tg: "session", X: "sql_mode", Src: "default"}}}, {Op: "new"}}},
			{Kind: "hist", Vars: []string{"wait_timeout"}, NameSeed: 17, Ops: []opT{{Op: "new"}, {Op: "new"},
				{Op: "set", S: 0, A: []asgT{{Tg: "user", X: "a", Src: "lit", Lit: "7"}, {Tg: "user", X: "b", Src: "lit", Lit: "1.50"}, {Tg: "user", X: "c", Src: "lit", Lit: "'txt'"}}},
				{Op: "set", S: 0, A: []asgT{{Tg: "user", X: "d", Src: "lit", Lit: "NULL"}, {Tg: "user", X: "e", Src: "lit", Lit: "2.5e0"}, {Tg: "user", X: "f", Src: "lit", Lit: "18446744073709551615"}}},
				{Op: "set", S: 1, A: []asgT{{Tg: "user", X: "A", Src: "user", Y: "a"}, {Tg: "session", X: "wait_timeout", Src: "user", Y: "A"}}},
				{Op: "set", S: 0, A: []asgT{{Tg: "session", X: "wait_timeout", Src: "user", Y: "a"}, {Tg: "user", X: "g", Src: "default"}}},
				{Op: "set", S: 0, A: []asgT{{Tg: "session", X: "wait_timeout", Src: "user", Y: "a"}, {Tg: "session", X: "wait_timeout", Src: "user", Y: "c"}}}}},
			// ordinary behaviour
			{Kind: "hist", Vars: []string{"wait_timeout"}, Ops: []opT{{Op: "new"}, {Op: "new"}, {Op: "session", S: 0, X: "wait_timeout", Lit: "5"},
				{Op: "global", S: 1, X: "WAIT_TIMEOUT", Lit: "77"}, {Op: "new"}, {Op: "session", S: 2, X: "wait_timeout", Lit: "0"}, {Op: "session", S: 2, X: "wait_timeout", Lit: "'abc'"},
				{Op: "user", S: 1, X: "u", Lit: "'x'"}, {Op: "user", S: 1, X: "U", Lit: "7"}}},
			{Kind: "hist", Vars: []string{"sql_log_bin", "default_storage_engine"}, Ops: []opT{{Op: "new"}, {Op: "session", S: 0, X: "sql_log_bin", Lit: "OFF"},
				{Op: "session", S: 0, X: "default_storage_engine", Lit: "'myisam'"}, {Op: "session", S: 0, X: "default_storage_engine", Lit: "3"},
				{Op: "global", S: 0, X: "default_storage_engine", Lit: "9"}, {Op: "session", S: 0, X: "sql_log_bin", Lit: "2"}}},
			{Kind: "hist", Vars: []string{"version", "insert_id"}, Ops: []opT{{Op: "new"}, {Op: "global", S: 0, X: "version", Lit: "'9'"}, {Op: "session", S: 0, X: "version", Lit: "'9'"},
				{Op: "global", S: 0, X: "insert_id", Lit: "5"}, {Op: "session", S: 0, X: "insert_id", Lit: "5"}}},
		}
		run(c, caseT{Kind: "reg"})
		for _, cs := range corpus {
			run(c, cs)
		}
		for i := 0; i < c.N; i++ {
			r := c.R.Fork()
			if i%5 < 3 {
				run(c, genConv(r))
			} else {
				run(c, genHist(r))
			}
		}
	})
}
