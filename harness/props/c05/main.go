// Driver for C05 (a predicate partitions rows into TRUE / FALSE / NULL parts; WHERE / HAVING / ON keep exactly TRUE rows).
// Per generated predicate p over a generated table it runs, on the real engine, Q, WHERE p, WHERE NOT p, WHERE p IS NULL,
// SELECT p / NOT p / p IS NULL, HAVING p and an inner join ON p; it calls simplifyExpression and pushNotFiltersHelper
// from sql/analyzer on the planbuilder's expression; it records everything for the Coq model and evaluates the
// property predicate on the implementation alone.
package main

import (
	"encoding/json"
	"fmt"
	"sort"
	"strings"

	"github.com/dolthub/go-mysql-server/sql"
	"github.com/dolthub/go-mysql-server/sql/analyzer"
	"github.com/dolthub/go-mysql-server/sql/expression"
	"github.com/dolthub/go-mysql-server/sql/plan"
	"github.com/dolthub/go-mysql-server/sql/planbuilder"
	"github.com/dolthub/go-mysql-server/sql/transform"

	"verifharness/lib"
	x "verifharness/lib/c05expr"
	"verifharness/lib/eng"
)

// likeT: a LIKE case (engine level over a column of strings, or rule level for incrementLastRune)
type likeT struct {
	Kind   string   `json:"kind"` // "like" | "like-incr"
	Vals   []*string `json:"vals,omitempty"`
	Pat    string   `json:"pat,omitempty"`
	Prefix []int32  `json:"prefix,omitempty"`
}

type caseT struct {
	Kind    string    `json:"kind,omitempty"`
	Rows    [][]x.Val `json:"rows"` // columns a b d e s u f g
	Indexed bool      `json:"indexed"`
	P       *x.Ex     `json:"p"`
	SQL     string    `json:"sql,omitempty"`
}

var colNames = []string{"a", "b", "d", "e", "s", "u", "f", "g"}
var colTypes = []string{"int", "int", "dec", "dec", "str", "str", "bool", "bool"}
var colIdx = map[string]int{"a": 0, "b": 1, "d": 2, "e": 3, "s": 4, "u": 5, "f": 6, "g": 7}

// ---------- engine state ----------

type env struct {
	e      *eng.E
	s      *eng.S
	tables map[string]string
	c      *lib.Ctx
	defs   map[string]string // rows key -> Coq name of the dataset definition in the shard header
}

func newEnv() *env {
	e := eng.New("db")
	s := e.Session()
	s.MustExec("CREATE TABLE one (x INT PRIMARY KEY)", "INSERT INTO one VALUES (1)")
	return &env{e: e, s: s, tables: map[string]string{}, defs: map[string]string{}}
}

// rowsCoq returns the name of a Coq definition (kept in the shard header) holding the rows.
func (v *env) rowsCoq(rows [][]x.Val) string {
	kb, _ := json.Marshal(rows)
	if n, ok := v.defs[string(kb)]; ok {
		return n
	}
	name := fmt.Sprintf("ds%d", len(v.defs))
	v.defs[string(kb)] = name
	v.c.Header += "\nDefinition " + name + " : list row := " +
		lib.CoqListOf(rows, func(r []x.Val) string { return lib.CoqListOf(r, func(v x.Val) string { return v.Coq() }) }) + "."
	return name
}

func (v *env) table(rows [][]x.Val, indexed bool) string {
	kb, _ := json.Marshal(rows)
	key := fmt.Sprintf("%v|%s", indexed, kb)
	if n, ok := v.tables[key]; ok {
		return n
	}
	name := fmt.Sprintf("t%d", len(v.tables))
	v.s.MustExec("CREATE TABLE " + name + " (id INT PRIMARY KEY, a INT, b INT, d DECIMAL(10,2), e DECIMAL(10,2), s VARCHAR(20), u VARCHAR(20), f TINYINT(1), g TINYINT(1))")
	if indexed {
		v.s.MustExec("CREATE INDEX "+name+"_a ON "+name+" (a)", "CREATE INDEX "+name+"_bd ON "+name+" (b, d)", "CREATE INDEX "+name+"_s ON "+name+" (s)")
	}
	for i, r := range rows {
		vals := []string{fmt.Sprintf("%d", i)}
		for _, c := range r {
			vals = append(vals, c.SQL())
		}
		v.s.MustExec("INSERT INTO " + name + " VALUES (" + strings.Join(vals, ", ") + ")")
	}
	v.tables[key] = name
	return name
}

// ---------- generators ----------

var intPool = []int64{-3, -1, 0, 1, 2, 3, 5, 10}
var decPool = []int64{-150, 0, 50, 100, 150, 200, 225, 1000}
var strPool = []string{"", "a", "A", "ab", "b", "a ", "1", "abc", "B"}

func genRows(r *lib.RNG) [][]x.Val {
	n := r.Range(5, 9)
	rows := make([][]x.Val, n)
	for i := range rows {
		row := make([]x.Val, 8)
		for j := range row {
			if r.Chance(1, 5) {
				row[j] = x.Null()
				continue
			}
			switch colTypes[j] {
			case "int":
				row[j] = x.Int(lib.Pick(r, intPool))
			case "dec":
				row[j] = x.Dec(lib.Pick(r, decPool), 2)
			case "str":
				row[j] = x.Str(lib.Pick(r, strPool))
			default:
				if r.Chance(1, 6) {
					row[j] = x.Int(lib.Pick(r, []int64{2, 5, -1}))
				} else {
					row[j] = x.Int(int64(r.Intn(2)))
				}
			}
		}
		rows[i] = row
	}
	return rows
}

type gen struct {
	r   *lib.RNG
	raw bool // allow engine-only constructs
}

func (g *gen) col(t string) *x.Ex {
	var c []int
	for i, ct := range colTypes {
		if ct == t {
			c = append(c, i)
		}
	}
	i := lib.Pick(g.r, c)
	return x.Col(i, colNames[i], t)
}

func (g *gen) nullLit() *x.Ex { return x.Lit(x.Null(), "null") }

func (g *gen) num(d int) *x.Ex {
	r := g.r
	if d <= 0 || r.Chance(2, 5) {
		switch r.Intn(6) {
		case 0, 1, 2:
			return g.col("int")
		case 3, 4:
			return x.Lit(x.Int(lib.Pick(r, intPool)), "int")
		default:
			if r.Chance(1, 3) {
				return g.nullLit()
			}
			return x.Lit(x.Int(int64(r.Range(0, 4))), "int")
		}
	}
	switch r.Intn(8) {
	case 0, 1, 2, 3:
		return x.Bin("arith", lib.Pick(r, []string{"+", "-", "*"}), g.num(d-1), g.num(d-1))
	case 4:
		return x.Un("neg", g.num(d-1))
	case 5:
		if g.raw {
			switch r.Intn(6) {
			case 0:
				return &x.Ex{K: "raw", T: "int", Raw: "ABS(%s)", A: []*x.Ex{g.num(d - 1)}}
			case 1:
				return &x.Ex{K: "raw", T: "int", Raw: "COALESCE(%s, %s)", A: []*x.Ex{g.num(d - 1), g.num(d - 1)}}
			case 2:
				return &x.Ex{K: "raw", T: "int", Raw: "LENGTH(%s)", A: []*x.Ex{g.str(d - 1)}}
			case 3:
				return &x.Ex{K: "raw", T: "int", Raw: "NULLIF(%s, %s)", A: []*x.Ex{g.num(d - 1), g.num(d - 1)}}
			case 4:
				return &x.Ex{K: "raw", T: "int", Raw: "IF(%s, %s, %s)", A: []*x.Ex{g.cond(d - 1), g.num(d - 1), g.num(d - 1)}}
			default:
				return &x.Ex{K: "raw", T: "int", Raw: "CASE %s WHEN %s THEN %s WHEN %s THEN %s END", A: []*x.Ex{g.num(d - 1), g.num(0), g.num(d - 1), g.num(0), g.num(d - 1)}}
			}
		}
		fallthrough
	default:
		return &x.Ex{K: "case", A: []*x.Ex{g.cond(d - 1), g.num(d - 1), g.num(d - 1)}}
	}
}

func (g *gen) dec() *x.Ex {
	r := g.r
	if r.Chance(3, 5) {
		return g.col("dec")
	}
	if g.raw && r.Chance(1, 4) {
		if r.Bool() {
			return x.Lit(x.Dec(lib.Pick(r, []int64{1495, 1499, 1500, 1505, 500, 2254}), 3), "dec")
		}
		return x.Lit(x.Dec(lib.Pick(r, []int64{15, 5, 10, 20, 0}), 1), "dec")
	}
	if r.Chance(1, 8) {
		return g.nullLit()
	}
	return x.Lit(x.Dec(lib.Pick(r, []int64{0, 50, 100, 150, 200, 225, 149, 151}), 2), "dec")
}

func (g *gen) str(d int) *x.Ex {
	r := g.r
	if d > 0 && r.Chance(1, 6) {
		return &x.Ex{K: "case", A: []*x.Ex{g.cond(d - 1), g.str(d - 1), g.str(d - 1)}}
	}
	if g.raw && d > 0 && r.Chance(1, 8) {
		if r.Bool() {
			return &x.Ex{K: "raw", T: "str", Raw: "CONCAT(%s, %s)", A: []*x.Ex{g.str(d - 1), g.str(d - 1)}}
		}
		return &x.Ex{K: "raw", T: "str", Raw: "UPPER(%s)", A: []*x.Ex{g.str(d - 1)}}
	}
	switch r.Intn(5) {
	case 0, 1, 2:
		return g.col("str")
	case 3:
		if r.Chance(1, 4) {
			return g.nullLit()
		}
		fallthrough
	default:
		return x.Lit(x.Str(lib.Pick(r, strPool)), "str")
	}
}

// an operand in boolean position
func (g *gen) cond(d int) *x.Ex {
	switch g.r.Intn(10) {
	case 0:
		return g.num(d)
	case 1:
		return g.dec()
	default:
		return g.boolean(d)
	}
}

// two or three operands of one comparison class
func (g *gen) operands(d, n int) []*x.Ex {
	r := g.r
	out := make([]*x.Ex, n)
	cls := r.Intn(10)
	for i := range out {
		switch {
		case cls < 4:
			out[i] = g.num(d)
		case cls < 6:
			out[i] = g.dec()
		case cls < 7:
			if r.Bool() {
				out[i] = g.num(d)
			} else {
				out[i] = g.dec()
			}
		case cls < 9:
			out[i] = g.str(d)
		default:
			if i == 0 {
				out[i] = g.boolean(d)
				if r.Chance(1, 3) {
					out[i] = x.Un("not", x.Un("not", lib.Pick(r, []*x.Ex{g.col("int"), g.col("int"), g.col("dec"), g.col("bool")})))
				}
			} else {
				out[i] = lib.Pick(r, []*x.Ex{x.Lit(x.Int(1), "bool"), x.Lit(x.Int(0), "bool"), x.Lit(x.Int(1), "int"), x.Lit(x.Int(0), "int"), x.Lit(x.Int(2), "int"), g.col("bool")})
			}
		}
	}
	if g.raw && r.Chance(1, 12) {
		// cross-class comparison (string against number): engine only
		out[n-1] = g.str(0)
		out[0] = g.num(0)
	}
	return out
}

func (g *gen) boolean(d int) *x.Ex {
	r := g.r
	if d <= 0 {
		switch r.Intn(8) {
		case 0, 1:
			return g.col("bool")
		case 2:
			return x.Lit(x.Int(int64(r.Intn(2))), "bool")
		case 3:
			return g.nullLit()
		default:
			o := g.operands(0, 2)
			return x.Bin("cmp", lib.Pick(r, []string{"=", "<", "<=", ">", ">="}), o[0], o[1])
		}
	}
	switch r.Intn(20) {
	case 0, 1, 2, 3:
		o := g.operands(d-1, 2)
		return x.Bin("cmp", lib.Pick(r, []string{"=", "<", "<=", ">", ">="}), o[0], o[1])
	case 4:
		o := g.operands(d-1, 2)
		return x.Bin("nseq", "", o[0], o[1])
	case 5, 6:
		return x.Bin("and", "", g.cond(d-1), g.cond(d-1))
	case 7, 8:
		return x.Bin("or", "", g.cond(d-1), g.cond(d-1))
	case 9:
		return x.Bin("xor", "", g.cond(d-1), g.cond(d-1))
	case 10, 11:
		if r.Chance(1, 4) {
			// double negation, also of non-boolean operands
			var c *x.Ex
			switch r.Intn(3) {
			case 0:
				c = g.num(d - 1)
			case 1:
				c = g.dec()
			default:
				c = g.cond(d - 1)
			}
			return x.Un("not", x.Un("not", c))
		}
		e := x.Un("not", g.cond(d-1))
		e.Alt = r.Bool()
		return e
	case 12:
		var c *x.Ex
		switch r.Intn(4) {
		case 0:
			c = g.num(d - 1)
		case 1:
			c = g.dec()
		case 2:
			c = g.str(d - 1)
		default:
			c = g.boolean(d - 1)
		}
		return x.Un("isnull", c)
	case 13:
		e := x.Un("istrue", g.cond(d-1))
		e.Op = lib.Pick(r, []string{"true", "false"})
		return e
	case 14, 15:
		n := r.Range(1, 4)
		o := g.operands(d-1, n+1)
		if r.Chance(1, 4) {
			o[r.Range(1, n)] = g.nullLit()
		}
		return &x.Ex{K: "in", A: o}
	case 16, 17:
		o := g.operands(d-1, 3)
		switch r.Intn(8) {
		case 0:
			if o[1].K == "col" {
				o[2] = o[1]
			}
		case 1:
			if o[0].K == "col" {
				o[1] = o[0]
			}
		case 2:
			if o[0].K == "col" {
				o[2] = o[0]
			}
		}
		return &x.Ex{K: "between", A: o}
	case 18:
		if g.raw {
			switch r.Intn(3) {
			case 0:
				return &x.Ex{K: "raw", T: "bool", Raw: "%s LIKE " + lib.Pick(r, []string{"'a%%'", "'%%b'", "'a_'", "'A%%'", "''"}), A: []*x.Ex{g.str(d - 1)}}
			case 1:
				return &x.Ex{K: "raw", T: "bool", Raw: "IFNULL(%s, %s)", A: []*x.Ex{g.boolean(d - 1), g.boolean(d - 1)}}
			default:
				return &x.Ex{K: "raw", T: "bool", Raw: "CASE WHEN %s THEN %s WHEN %s THEN %s ELSE %s END", A: []*x.Ex{g.cond(d - 1), g.cond(d - 1), g.cond(d - 1), g.cond(d - 1), g.cond(d - 1)}}
			}
		}
		fallthrough
	default:
		return &x.Ex{K: "case", A: []*x.Ex{g.cond(d - 1), g.boolean(d - 1), g.boolean(d - 1)}}
	}
}

// indexShape: disjunctions / conjunctions of range comparisons and IS NULL on one indexed nullable column, with
// the bound taken from the value pool (so that some row has exactly that value).
func (g *gen) indexShape() *x.Ex {
	r := g.r
	var c *x.Ex
	var k, k2 *x.Ex
	switch r.Intn(4) {
	case 0, 1:
		c = x.Col(0, "a", "int")
		k, k2 = x.Lit(x.Int(lib.Pick(r, intPool)), "int"), x.Lit(x.Int(lib.Pick(r, intPool)), "int")
	case 2:
		c = x.Col(1, "b", "int")
		k, k2 = x.Lit(x.Int(lib.Pick(r, intPool)), "int"), x.Lit(x.Int(lib.Pick(r, intPool)), "int")
	default:
		c = x.Col(4, "s", "str")
		k, k2 = x.Lit(x.Str(lib.Pick(r, strPool)), "str"), x.Lit(x.Str(lib.Pick(r, strPool)), "str")
	}
	cmp := func(op string, b *x.Ex) *x.Ex { cc := *c; return x.Bin("cmp", op, &cc, b) }
	isnull := func() *x.Ex { cc := *c; return x.Un("isnull", &cc) }
	not := func(e *x.Ex) *x.Ex { return x.Un("not", e) }
	or := func(a, b *x.Ex) *x.Ex { return x.Bin("or", "", a, b) }
	and := func(a, b *x.Ex) *x.Ex { return x.Bin("and", "", a, b) }
	ops := []string{"<=", ">=", "<", ">", "="}
	op := lib.Pick(r, ops)
	var rng *x.Ex
	switch r.Intn(6) {
	case 0, 1:
		rng = cmp(op, k)
	case 2:
		rng = not(cmp(lib.Pick(r, []string{">", "<", ">=", "<="}), k))
	case 3:
		rng = &x.Ex{K: "between", A: []*x.Ex{c, k, k2}}
	case 4:
		rng = or(cmp("<", k), cmp("=", k))
	default:
		rng = and(cmp(">=", k), cmp("<=", k2))
	}
	switch r.Intn(6) {
	case 0, 1:
		return or(rng, isnull())
	case 2:
		return or(isnull(), rng)
	case 3:
		return and(rng, not(isnull()))
	case 4:
		return or(rng, cmp(lib.Pick(r, ops), k2))
	default:
		return rng
	}
}

func genCase(r *lib.RNG, rows [][]x.Val) caseT {
	g := &gen{r: r, raw: r.Chance(1, 3)}
	if r.Chance(1, 6) {
		return caseT{Rows: rows, Indexed: r.Chance(3, 4), P: g.indexShape()}
	}
	var p *x.Ex
	switch r.Intn(12) {
	case 0:
		p = g.num(2)
	case 1:
		p = g.dec()
	default:
		p = g.boolean(r.Range(1, 3))
	}
	return caseT{Rows: rows, Indexed: r.Bool(), P: p}
}

// ---------- running one case ----------

func ids(res eng.Result) ([]int, error) {
	if res.Err != nil {
		return nil, res.Err
	}
	out := make([]int, 0, len(res.Rows))
	for _, r := range res.Rows {
		v, err := x.ValFromGo(r[0])
		if err != nil || v.K != "int" {
			return nil, fmt.Errorf("bad id %v", r[0])
		}
		out = append(out, int(v.I))
	}
	sort.Ints(out)
	return out, nil
}

func eqInts(a, b []int) bool {
	if len(a) != len(b) {
		return false
	}
	for i := range a {
		if a[i] != b[i] {
			return false
		}
	}
	return true
}

func coqIDs(a []int) string { return lib.CoqListOf(a, func(i int) string { return fmt.Sprintf("%d", i) }) }

// features of the predicate that identify the known defects
func features(p *x.Ex, rows [][]x.Val) []string {
	var fs []string
	nonBool := map[int]bool{}
	for _, r := range rows {
		for j := 6; j < 8; j++ {
			if r[j].K == "int" && r[j].I != 0 && r[j].I != 1 {
				nonBool[j] = true
			}
		}
	}
	// a Boolean-typed operand whose value is a TINYINT(1) column holding something else than 0/1
	var nbOperand func(e *x.Ex) bool
	nbOperand = func(e *x.Ex) bool {
		switch e.K {
		case "col":
			return e.T == "bool" && nonBool[e.I]
		case "case":
			return x.TyOf(e) == "bool" && (nbOperand(e.A[1]) || nbOperand(e.A[2]))
		}
		return false
	}
	nbRewrite := false
	scaleMix := func(es []*x.Ex) bool {
		sc := map[int]bool{}
		for _, e := range es {
			e.Walk(func(n *x.Ex) {
				if n.K == "lit" && n.V.K == "dec" {
					sc[n.V.S] = true
				}
				if n.K == "col" && n.T == "dec" {
					sc[2] = true
				}
			})
		}
		return len(sc) > 1
	}
	mixBetween, mixIn, inIntFirst := false, false, false
	p.Walk(func(n *x.Ex) {
		switch n.K {
		case "and", "or":
			// (literal AND/OR x) => x  when x is Boolean-typed
			if (closedEx(n.A[0]) && nbOperand(n.A[1])) || (closedEx(n.A[1]) && nbOperand(n.A[0])) {
				nbRewrite = true
			}
		case "not":
			// NOT NOT x => x  when x is Boolean-typed
			if n.A[0].K == "not" && nbOperand(n.A[0].A[0]) {
				nbRewrite = true
			}
		case "between":
			if scaleMix(n.A) {
				mixBetween = true
			}
		case "in":
			if scaleMix(n.A) {
				mixIn = true
			}
			// HashInTuple takes its comparison type from the left operand and the first element only
			intLike := func(t string) bool { return t == "int" || t == "bool" }
			if len(n.A) > 2 && intLike(x.TyOf(n.A[0])) && intLike(x.TyOf(n.A[1])) {
				for _, el := range n.A[2:] {
					if x.TyOf(el) == "dec" {
						inIntFirst = true
					}
				}
			}
		}
	})
	if nbRewrite {
		fs = append(fs, "tinyint1-nonboolean-value-under-and-or-not-rewrite")
	}
	if mixBetween {
		fs = append(fs, "between-decimal-scale-mix")
	}
	if mixIn {
		fs = append(fs, "in-decimal-scale-mix")
	}
	if inIntFirst {
		fs = append(fs, "in-list-integer-first-element-then-decimal")
	}
	return fs
}

func closedEx(e *x.Ex) bool {
	c := true
	e.Walk(func(n *x.Ex) {
		if n.K == "col" {
			c = false
		}
	})
	return c
}

func sig(kind string, p *x.Ex, rows [][]x.Val) string {
	fs := features(p, rows)
	if len(fs) == 0 {
		return kind
	}
	return kind + "/" + fs[0]
}

func run(c *lib.Ctx, v *env, cs caseT) {
	tbl := v.table(cs.Rows, cs.Indexed)
	p := cs.P.SQL()
	cs.SQL = "SELECT id FROM " + tbl + " WHERE " + p
	n := len(cs.Rows)
	s := v.s
	modelled := !cs.P.HasRaw() && x.Wt(cs.P)
	if modelled {
		c.Count("stream:modelled")
	} else {
		c.Count("stream:engine-only")
	}
	c.Count("root:" + cs.P.K)
	if cs.Indexed {
		c.Count("table:indexed")
	} else {
		c.Count("table:plain")
	}

	// ---- rule level ----
	var pb *x.Ex // the planbuilder's expression, converted
	ruleTerm := ""
	func() {
		ctx := s.Ctx
		b := planbuilder.New(ctx, v.e.Engine.Analyzer.Catalog, nil)
		node, _, _, qf, err := b.Parse("SELECT * FROM "+tbl+" WHERE "+p, nil, false)
		if err != nil {
			c.Count("rule:parse-error")
			return
		}
		var fe sql.Expression
		transform.Inspect(node, func(nd sql.Node) bool {
			if f, ok := nd.(*plan.Filter); ok && fe == nil {
				fe = f.Expression
			}
			return true
		})
		if fe == nil {
			c.Count("rule:no-filter")
			return
		}
		e0, err := x.FromGo(ctx, fe, colIdx)
		if err != nil {
			c.Count("rule:unmodelled-input")
			return
		}
		pb = e0
		if !x.Equal(e0, cs.P) {
			c.Count("rule:planbuilder-differs-from-generated")
		}
		var se, pe, be sql.Expression
		panicked, pv := lib.Recover(func() {
			se, _, err = analyzer.VerifC05SimplifyExpression(ctx, v.e.Engine.Analyzer, nil, nil, qf, fe)
			if err != nil {
				return
			}
			pe, err = analyzer.VerifC05PushNotFiltersHelper(ctx, fe)
			if err != nil {
				return
			}
			be, err = analyzer.VerifC05PushNotFiltersHelper(ctx, se)
		})
		if panicked {
			id := c.CaseNoModel(cs, "")
			c.PredFail(id, "rule-panic", "simplifyExpression/pushNotFiltersHelper panicked on "+p+": "+pv, cs)
			return
		}
		if err != nil {
			c.Count("rule:error")
			return
		}
		s1, e1 := x.FromGo(ctx, se, colIdx)
		s2, e2 := x.FromGo(ctx, pe, colIdx)
		s3, e3 := x.FromGo(ctx, be, colIdx)
		if e1 != nil || e2 != nil || e3 != nil {
			c.Count("rule:unmodelled-output")
			return
		}
		if !x.Wt(e0) {
			c.Count("rule:outside-fragment")
			return
		}
		if !x.Equal(s1, e0) {
			c.Count("rule:simplify-rewrote")
		}
		if !x.Equal(s2, e0) {
			c.Count("rule:pushnot-rewrote")
		}
		ruleTerm = "(RuleCase " + e0.Coq() + " " + s1.Coq() + " " + s2.Coq() + " " + s3.Coq() + ")"
	}()
	if ruleTerm != "" {
		c.Case(ruleTerm, cs, "rule|"+p)
	}

	// ---- engine level ----
	q := func(sqlText string) eng.Result { return s.Query(sqlText) }
	rq := q("SELECT id, a, b, d, e, s, u, f, g FROM " + tbl + " ORDER BY id")
	rw := q("SELECT id FROM " + tbl + " WHERE " + p)
	rwn := q("SELECT id FROM " + tbl + " WHERE NOT " + p)
	rwu := q("SELECT id FROM " + tbl + " WHERE " + p + " IS NULL")
	rsel := q("SELECT id, " + p + ", NOT " + p + ", " + p + " IS NULL FROM " + tbl + " ORDER BY id")
	rhav := q("SELECT id, a, b, d, e, s, u, f, g FROM " + tbl + " HAVING " + p)
	ron := q("SELECT t.id FROM " + tbl + " t JOIN one ON " + p)
	all := []eng.Result{rq, rw, rwn, rwu, rsel, rhav, ron}
	nerr := 0
	for _, r := range all {
		if r.Panic != "" {
			id := c.CaseNoModel(cs, "")
			c.PredFail(id, "engine-panic", "engine panicked on predicate "+p+": "+r.Panic, cs)
			return
		}
		if r.Err != nil {
			nerr++
		}
	}
	if nerr > 0 {
		kinds := map[string]bool{}
		for _, r := range all {
			if r.Err != nil {
				kinds[eng.ErrKind(r.Err)] = true
			}
		}
		c.Count("engine:error:" + strings.Join(lib.SortedKeys(kinds), "+"))
		if modelled {
			// the model has no errors in its fragment: record a case that cannot match
			c.Case("(EngCase [] "+cs.P.Coq()+" [VNull] [] [] [])", cs, "")
		} else {
			c.CaseNoModel(cs, "")
		}
		if nerr != len(all)-1 && rq.Err == nil {
			c.Count("engine:error-in-some-forms-only")
		}
		return
	}
	w, e1 := ids(rw)
	wn, e2 := ids(rwn)
	wu, e3 := ids(rwu)
	hav, e4 := ids(rhav)
	on, e5 := ids(ron)
	if e1 != nil || e2 != nil || e3 != nil || e4 != nil || e5 != nil || len(rq.Rows) != n || len(rsel.Rows) != n {
		panic(fmt.Sprintf("driver: unexpected result shape for %s", p))
	}
	// select-list values
	selVals := make([][3]x.Val, n)
	selOK := true
	for i, r := range rsel.Rows {
		for j := 0; j < 3; j++ {
			val, err := x.ValFromGo(r[j+1])
			if err != nil {
				selOK = false
				val = x.Null()
			}
			selVals[i][j] = val
		}
	}
	if !selOK {
		c.Count("engine:unmodelled-select-value")
	}

	nontriv := ""
	if len(w) > 0 && len(w) < n {
		nontriv = "eng|" + tbl + "|" + p
		c.Count("selectivity:some")
	} else if len(w) == 0 {
		c.Count("selectivity:none")
	} else {
		c.Count("selectivity:all")
	}
	var id int
	if modelled && pb != nil && x.Wt(pb) && selOK {
		rowsCoq := v.rowsCoq(cs.Rows)
		sel := make([]string, n)
		for i := range selVals {
			sel[i] = selVals[i][0].Coq()
		}
		id = c.Case("(EngCase "+rowsCoq+" "+pb.Coq()+" "+lib.CoqList(sel)+" "+coqIDs(w)+" "+coqIDs(wn)+" "+coqIDs(wu)+")", cs, nontriv)
	} else {
		id = c.CaseNoModel(cs, nontriv)
	}

	// ---- the property predicate on the implementation alone ----
	c.PredChecked()
	// (1) Q is the disjoint union of the three filtered results
	cnt := make([]int, n)
	for _, l := range [][]int{w, wn, wu} {
		for _, i := range l {
			if i >= 0 && i < n {
				cnt[i]++
			}
		}
	}
	for i := range cnt {
		if cnt[i] != 1 {
			c.PredFail(id, sig("tlp-partition", cs.P, cs.Rows),
				fmt.Sprintf("row id %d of %s appears %d times in (WHERE p) + (WHERE NOT p) + (WHERE p IS NULL) for p = %s; WHERE p=%v NOT p=%v IS NULL=%v", i, tbl, cnt[i], p, w, wn, wu), cs)
			break
		}
	}
	// (2) each filter keeps exactly the rows whose select-list value is TRUE
	if selOK {
		names := []string{"p", "NOT p", "p IS NULL"}
		for j, got := range [][]int{w, wn, wu} {
			var want []int
			for i := 0; i < n; i++ {
				if selVals[i][j].K != "null" && x.Truthy(selVals[i][j]) {
					want = append(want, i)
				}
			}
			if !eqInts(got, want) {
				c.PredFail(id, sig("where-vs-select", cs.P, cs.Rows),
					fmt.Sprintf("WHERE %s keeps ids %v but the select-list value of it is TRUE for ids %v (p = %s, table %s rows %s)", names[j], got, want, p, tbl, rowsText(cs.Rows)), cs)
				break
			}
		}
	}
	// (3) HAVING and inner-join ON keep the same rows as WHERE
	if !eqInts(hav, w) {
		c.PredFail(id, sig("having-vs-where", cs.P, cs.Rows), fmt.Sprintf("HAVING p keeps ids %v, WHERE p keeps %v (p = %s)", hav, w, p), cs)
	}
	if !eqInts(on, w) {
		c.PredFail(id, sig("on-vs-where", cs.P, cs.Rows), fmt.Sprintf("JOIN one ON p keeps ids %v, WHERE p keeps %v (p = %s)", on, w, p), cs)
	}
}

func rowsText(rows [][]x.Val) string {
	var sb strings.Builder
	for i, r := range rows {
		if i > 0 {
			sb.WriteString(" ")
		}
		sb.WriteString("(")
		for j, v := range r {
			if j > 0 {
				sb.WriteString(",")
			}
			sb.WriteString(v.SQL())
		}
		sb.WriteString(")")
	}
	return sb.String()
}

// ---------- pushFilters at rule level ----------

type pushT struct {
	Kind string `json:"kind"` // "push"
	SQL  string `json:"sql"`
}

var pushCols = map[string]int{"ida": 0, "a1": 1, "b1": 2, "s1": 3, "idb": 4, "a2": 5, "b2": 6, "s2": 7, "idc": 8, "a3": 9, "b3": 10, "s3": 11}
var pushTabs = map[string]int{"pa": 0, "pb": 1, "pc": 2}

const pushOwn = "[0;0;0;0;1;1;1;1;2;2;2;2]%nat"

func (v *env) pushTables() {
	if _, ok := v.tables["push"]; ok {
		return
	}
	v.tables["push"] = "pa"
	v.s.MustExec("CREATE TABLE pa (ida INT PRIMARY KEY, a1 INT, b1 INT, s1 VARCHAR(20))",
		"CREATE TABLE pb (idb INT PRIMARY KEY, a2 INT, b2 INT, s2 VARCHAR(20))",
		"CREATE TABLE pc (idc INT PRIMARY KEY, a3 INT, b3 INT, s3 VARCHAR(20))",
		"INSERT INTO pa VALUES (0,1,2,'x'),(1,2,NULL,'y'),(2,NULL,0,'x'),(3,3,3,NULL),(4,2,2,'x'),(5,0,1,'z')",
		"INSERT INTO pb VALUES (0,1,NULL,'x'),(1,2,0,'x'),(2,2,3,'y'),(3,NULL,1,NULL),(4,5,-1,'x')",
		"INSERT INTO pc VALUES (0,1,NULL,'x'),(1,2,1,'y'),(2,NULL,0,'q'),(3,2,3,'x')")
}

// planCoq converts an engine plan to the model plan term (Project nodes are transparent)
func planCoq(ctx *sql.Context, n sql.Node) (string, error) {
	switch nd := n.(type) {
	case *plan.Project:
		return planCoq(ctx, nd.Child)
	case *plan.Filter:
		e, err := x.FromGo(ctx, nd.Expression, pushCols)
		if err != nil {
			return "", err
		}
		c, err := planCoq(ctx, nd.Child)
		if err != nil {
			return "", err
		}
		return "(PFilter " + e.Coq() + " " + c + ")", nil
	case *plan.JoinNode:
		lo := "false"
		switch {
		case nd.Op.IsLeftOuter():
			lo = "true"
		case nd.Op.IsInner() || nd.Op.IsCross():
		default:
			return "", fmt.Errorf("unmodelled join %s", nd.Op)
		}
		cond := "lit_true"
		if nd.Filter != nil {
			e, err := x.FromGo(ctx, nd.Filter, pushCols)
			if err != nil {
				return "", err
			}
			cond = e.Coq()
		}
		a, err := planCoq(ctx, nd.Left())
		if err != nil {
			return "", err
		}
		b, err := planCoq(ctx, nd.Right())
		if err != nil {
			return "", err
		}
		return "(PJoin " + lo + " " + cond + " " + a + " " + b + ")", nil
	case *plan.Limit:
		l, ok := nd.Limit.(*expression.Literal)
		if !ok {
			return "", fmt.Errorf("unmodelled limit")
		}
		lv, err := x.ValFromGo(l.Value())
		if err != nil {
			return "", err
		}
		c, err := planCoq(ctx, nd.Child)
		if err != nil {
			return "", err
		}
		return fmt.Sprintf("(PLimit %d%%nat %s)", lv.I, c), nil
	case *plan.ResolvedTable:
		t, ok := pushTabs[strings.ToLower(nd.Name())]
		if !ok {
			return "", fmt.Errorf("unknown table %s", nd.Name())
		}
		return fmt.Sprintf("(PTable %d%%nat)", t), nil
	case *plan.TableAlias:
		return planCoq(ctx, nd.Child)
	}
	return "", fmt.Errorf("unmodelled node %T", n)
}

func genPush(r *lib.RNG) pushT {
	single := [][]string{
		{"a1 > 1", "b1 IS NULL", "s1 = 'x'", "a1 + b1 < 5", "a1 IN (1, 2)", "NOT (b1 = 2)"},
		{"a2 > 1", "b2 IS NULL", "s2 = 'x'", "a2 BETWEEN 1 AND 3", "b2 <= 0"},
		{"a3 > 1", "b3 IS NULL", "s3 <> 'y'"},
	}
	multi := map[string][]string{
		"ab": {"a1 = a2", "b1 < b2", "a1 + 1 = b2", "s1 = s2", "a1 = a2 OR b1 = b2"},
		"ac": {"a1 = a3", "b1 > b3"},
		"bc": {"a2 = a3", "b2 <= b3", "s2 = s3"},
	}
	consts := []string{"1 = 1", "2 > 1"}
	three := r.Chance(1, 3)
	pick := func(scope string) string {
		// a conjunct whose tables lie within the scope ("ab", "abc")
		var pool []string
		for i, t := range "abc" {
			if strings.ContainsRune(scope, t) {
				pool = append(pool, single[i]...)
			}
		}
		for k, l := range multi {
			if strings.Contains(scope, k[:1]) && strings.Contains(scope, k[1:]) {
				pool = append(pool, l...)
			}
		}
		if r.Chance(1, 10) {
			return lib.Pick(r, consts)
		}
		return lib.Pick(r, pool)
	}
	conj := func(scope string, n int) string {
		parts := make([]string, n)
		for i := range parts {
			parts[i] = pick(scope)
		}
		return strings.Join(parts, " AND ")
	}
	j1 := lib.Pick(r, []string{"JOIN", "JOIN", "LEFT JOIN"})
	q := "SELECT * FROM pa " + j1 + " pb ON " + conj("ab", r.Range(1, 3))
	scope := "ab"
	if three {
		j2 := lib.Pick(r, []string{"JOIN", "JOIN", "LEFT JOIN"})
		q += " " + j2 + " pc ON " + conj("abc", r.Range(1, 2))
		scope = "abc"
	}
	if r.Chance(4, 5) {
		q += " WHERE " + conj(scope, r.Range(1, 3))
	}
	return pushT{Kind: "push", SQL: q}
}

func runPush(c *lib.Ctx, v *env, cs pushT) {
	v.pushTables()
	ctx := v.s.Ctx
	b := planbuilder.New(ctx, v.e.Engine.Analyzer.Catalog, nil)
	node, _, _, qf, err := b.Parse(cs.SQL, nil, false)
	if err != nil {
		c.Count("push:parse-error")
		return
	}
	before, err := planCoq(ctx, node)
	if err != nil {
		c.Count("push:unmodelled-input")
		return
	}
	var out sql.Node
	p, pv := lib.Recover(func() { out, _, err = analyzer.VerifC05PushFilters(ctx, v.e.Engine.Analyzer, node, nil, nil, qf) })
	if p {
		id := c.CaseNoModel(cs, "")
		c.PredFail(id, "push-filters-panic", "pushFilters panicked on "+cs.SQL+": "+pv, cs)
		return
	}
	if err != nil {
		c.Count("push:error")
		return
	}
	after, err := planCoq(ctx, out)
	if err != nil {
		c.Count("push:unmodelled-output")
		return
	}
	if before != after {
		c.Count("push:rewrote")
	} else {
		c.Count("push:unchanged")
	}
	id := c.Case("(PushCase "+pushOwn+" "+before+" "+after+")", cs, "push|"+cs.SQL)
	// implementation alone: the same filter evaluated above a LIMIT (which blocks the push-down) keeps the same rows
	if i := strings.Index(cs.SQL, " WHERE "); i > 0 {
		q2 := "SELECT * FROM (" + cs.SQL[:i] + " LIMIT 1000) x WHERE " + cs.SQL[i+7:]
		r1, r2 := v.s.Query(cs.SQL), v.s.Query(q2)
		if r1.Err != nil || r2.Err != nil {
			c.Count("push:engine-error")
			return
		}
		c.PredChecked()
		b1, b2 := eng.Bag(r1.Rows), eng.Bag(r2.Rows)
		if strings.Join(b1, "|") != strings.Join(b2, "|") {
			c.PredFail(id, "push/filter-below-join-vs-filter-above-limit",
				fmt.Sprintf("[%s] => %v  but  [%s] => %v", cs.SQL, b1, q2, b2), cs)
		}
	}
}

// ---------- LIKE ----------

func coqRunes(rs []rune) string {
	if len(rs) == 0 {
		return "[]"
	}
	parts := make([]string, len(rs))
	for i, r := range rs {
		parts[i] = fmt.Sprintf("%d", r)
	}
	return "[" + strings.Join(parts, ";") + "]"
}

var likeVals = []string{"", "a", "ab", "abc", "abd", "ac", "b", "A", "Ab", "aé", "é", "a%", "a_b", "ab\U0010FFFF", "ab\U0010FFFFz", "\uD7FF", "\uE000", "az"}
var likePats = []string{"a%", "ab%", "é%", "%", "a", "ab", "a_", "%b", "a%c", "_", "", "aé%", "A%", "ab\U0010FFFF%", "\uD7FF%", "a%%", "b%", "abc%", "z%", "a_%"}

func runLike(c *lib.Ctx, v *env, cs likeT) {
	if cs.Kind == "like-incr" {
		pre := string(cs.Prefix)
		var out string
		var ok bool
		p, pv := lib.Recover(func() { out, ok = analyzer.VerifC05IncrementLastRune(pre) })
		if p {
			id := c.CaseNoModel(cs, "")
			c.PredFail(id, "like/increment-last-rune-panic", "incrementLastRune panicked on "+fmt.Sprintf("%q", pre)+": "+pv, cs)
			return
		}
		obs := "None"
		if ok {
			obs = "(Some " + coqRunes([]rune(out)) + ")"
		}
		c.Count("like:incr")
		id := c.Case("(LikeIncrCase "+coqRunes([]rune(pre))+" "+obs+")", cs, "like-incr|"+pre)
		// predicate on the implementation: the bound is above every extension of the prefix and nothing else fits between
		c.PredChecked()
		if ok {
			for _, ext := range []string{"", "a", "\U0010FFFF", "\U0010FFFF\U0010FFFF"} {
				if !(pre+ext < out) {
					c.PredFail(id, "like/upper-bound-not-above-prefix", fmt.Sprintf("incrementLastRune(%q) = %q is not above %q", pre, out, pre+ext), cs)
				}
			}
		}
		return
	}
	// engine level
	name := fmt.Sprintf("lk%d", len(v.tables))
	v.tables["like|"+name] = name
	v.s.MustExec("CREATE TABLE " + name + " (id INT PRIMARY KEY, s VARCHAR(40))")
	for i, s := range cs.Vals {
		lit := "NULL"
		if s != nil {
			lit = x.Str(*s).SQL()
		}
		v.s.MustExec(fmt.Sprintf("INSERT INTO %s VALUES (%d, %s)", name, i, lit))
	}
	pat := x.Str(cs.Pat).SQL()
	rw := v.s.Query("SELECT id FROM " + name + " WHERE s LIKE " + pat)
	rs := v.s.Query("SELECT id, s LIKE " + pat + " FROM " + name + " ORDER BY id")
	v.s.MustExec("DROP TABLE " + name)
	if rw.Err != nil || rs.Err != nil || rw.Panic != "" || rs.Panic != "" {
		c.Count("like:error")
		c.CaseNoModel(cs, "")
		return
	}
	w, _ := ids(rw)
	var sel []int
	for i, r := range rs.Rows {
		val, err := x.ValFromGo(r[1])
		if err == nil && val.K != "null" && x.Truthy(val) {
			sel = append(sel, i)
		}
	}
	vals := make([]string, len(cs.Vals))
	for i, s := range cs.Vals {
		if s == nil {
			vals[i] = "None"
		} else {
			vals[i] = "(Some " + coqRunes([]rune(*s)) + ")"
		}
	}
	c.Count("like:engine")
	key := ""
	if len(w) > 0 && len(w) < len(cs.Vals) {
		key = "like|" + cs.Pat
	}
	id := c.Case("(LikeCase "+lib.CoqList(vals)+" "+coqRunes([]rune(cs.Pat))+" "+coqIDs(w)+" "+coqIDs(sel)+")", cs, key)
	c.PredChecked()
	if !eqInts(w, sel) {
		c.PredFail(id, "like/where-vs-select", fmt.Sprintf("WHERE s LIKE %s keeps ids %v but SELECT s LIKE %s is TRUE for ids %v (values %q)", pat, w, pat, sel, derefs(cs.Vals)), cs)
	}
}

func derefs(vs []*string) []string {
	out := make([]string, len(vs))
	for i, s := range vs {
		if s == nil {
			out[i] = "NULL"
		} else {
			out[i] = *s
		}
	}
	return out
}

func genLike(r *lib.RNG) likeT {
	if r.Chance(1, 3) {
		n := r.Range(1, 3)
		var pre []int32
		for i := 0; i < n; i++ {
			pre = append(pre, lib.Pick(r, []int32{'a', 'b', 'z', 'A', 0xE9, 0xD7FF, 0xE000, 0xFFFF, 0x10FFFF, 0x10FFFE, 0x7F, 0x7FF}))
		}
		return likeT{Kind: "like-incr", Prefix: pre}
	}
	cs := likeT{Kind: "like", Pat: lib.Pick(r, likePats)}
	for i := r.Range(5, 9); i > 0; i-- {
		if r.Chance(1, 8) {
			cs.Vals = append(cs.Vals, nil)
		} else {
			s := lib.Pick(r, likeVals)
			cs.Vals = append(cs.Vals, &s)
		}
	}
	return cs
}

// ---------- corpus ----------

func corpus() []caseT {
	i := func(n int64) x.Val { return x.Int(n) }
	d := func(m int64) x.Val { return x.Dec(m, 2) }
	st := func(b string) x.Val { return x.Str(b) }
	nl := x.Null()
	rows := [][]x.Val{
		{i(1), i(2), d(150), d(100), st("a"), st("A"), i(5), i(1)},
		{nl, i(3), nl, d(0), nl, st("b"), nl, i(0)},
		{i(0), i(0), d(0), nl, st(""), st(""), i(0), nl},
		{i(3), i(3), d(225), d(225), st("ab"), st("ab"), i(1), i(2)},
	}
	a, b, dd, f := x.Col(0, "a", "int"), x.Col(1, "b", "int"), x.Col(2, "d", "dec"), x.Col(6, "f", "bool")
	li := func(n int64) *x.Ex { return x.Lit(x.Int(n), "int") }
	lfalse := x.Lit(x.Int(0), "bool")
	var out []caseT
	add := func(p *x.Ex) {
		out = append(out, caseT{Rows: rows, Indexed: false, P: p}, caseT{Rows: rows, Indexed: true, P: p})
	}
	add(x.Bin("cmp", ">", a, li(1)))
	add(&x.Ex{K: "not", Alt: true, A: []*x.Ex{{K: "between", A: []*x.Ex{a, b, li(3)}}}})
	add(&x.Ex{K: "not", Alt: true, A: []*x.Ex{{K: "in", A: []*x.Ex{a, li(1), li(2), x.Lit(x.Null(), "null")}}}})
	// known: TINYINT(1) column holding 5 is trusted to be 0/1 by (FALSE OR f) => f and NOT NOT f => f
	add(x.Bin("cmp", "=", x.Bin("or", "", lfalse, f), li(1)))
	add(x.Bin("cmp", "=", x.Un("not", x.Un("not", f)), li(1)))
	// known: BETWEEN in the select list compares at the scale of the bounds, the simplified filter at the scale of the column
	add(&x.Ex{K: "between", A: []*x.Ex{dd, x.Lit(x.Dec(1495, 3), "dec"), x.Lit(x.Dec(1499, 3), "dec")}})
	// known: IN in the select list rounds the element to the column's scale, the hashed IN of the filter does not
	add(&x.Ex{K: "in", A: []*x.Ex{dd, x.Lit(x.Dec(1495, 3), "dec")}})
	add(x.Bin("and", "", x.Bin("cmp", "<", x.Bin("arith", "+", a, b), li(5)), x.Un("isnull", dd)))
	// range or NULL on the indexed nullable column, bound equal to a stored value
	add(x.Bin("or", "", x.Bin("cmp", "<=", a, li(1)), x.Un("isnull", a)))
	add(x.Bin("or", "", x.Un("isnull", a), x.Un("not", x.Bin("cmp", ">", a, li(3)))))
	// double negation of a non-boolean operand inside a comparison
	add(x.Bin("cmp", "=", x.Un("not", x.Un("not", b)), li(1)))
	// known: hashed IN takes the comparison type from the first element (1.500 is rounded to 2)
	add(&x.Ex{K: "in", A: []*x.Ex{b, li(0), x.Lit(x.Dec(1500, 3), "dec")}})
	return out
}

func main() {
	lib.Main("C05", func(c *lib.Ctx) {
		c.Header = "From Coq Require Import List NArith ZArith.\nImport ListNotations.\nFrom GMS Require Import Expr.C05Expr Plan.C05Pushdown Corr.C05.\nOpen Scope N_scope."
		c.CaseType = "C05.case"
		c.MismatchFn = "C05.mismatches"
		c.SetRule("typed random predicates (depth 1-3: comparisons, <=>, + - *, unary minus, AND/OR/XOR/NOT, IS NULL, IS TRUE/FALSE, IN lists with NULLs, " +
			"BETWEEN incl. repeated-column forms, CASE) over 8-column tables (INT, DECIMAL(10,2), VARCHAR, TINYINT(1); 5-9 rows, 1/5 NULLs, " +
			"TINYINT(1) occasionally holding 2/5/-1; plain and indexed copies); one third of the predicates also use engine-only constructs " +
			"(functions, LIKE, multi-branch CASE, decimals of other scales, string/number comparisons). Each predicate yields a rule-level case " +
			"(simplifyExpression / pushNotFiltersHelper output vs the model) and an engine-level case (SELECT p, WHERE p, WHERE NOT p, WHERE p IS NULL " +
			"vs the model; HAVING and ON vs WHERE). Non-trivial = the filter keeps some but not all rows, or a rule-level case; distinct by predicate text.")
		v := newEnv()
		v.c = c
		if c.ReplayFile != "" {
			var k struct {
				Kind string `json:"kind"`
			}
			lib.LoadReplay(c.ReplayFile, &k)
			if k.Kind == "push" {
				var pc pushT
				lib.LoadReplay(c.ReplayFile, &pc)
				runPush(c, v, pc)
				return
			}
			if k.Kind == "like" || k.Kind == "like-incr" {
				var lc likeT
				lib.LoadReplay(c.ReplayFile, &lc)
				runLike(c, v, lc)
				return
			}
			var cs caseT
			lib.LoadReplay(c.ReplayFile, &cs)
			run(c, v, cs)
			return
		}
		cp := corpus()
		for _, cs := range cp {
			run(c, v, cs)
		}
		sp := func(s string) *string { return &s }
		runLike(c, v, likeT{Kind: "like", Pat: "ab%", Vals: []*string{sp("ab"), sp("abc"), sp("ac"), sp("a"), nil, sp("ab\U0010FFFF"), sp("Ab")}})
		runLike(c, v, likeT{Kind: "like", Pat: "ab\U0010FFFF%", Vals: []*string{sp("ab\U0010FFFF"), sp("ab\U0010FFFFz"), sp("ab"), sp("b")}})
		runLike(c, v, likeT{Kind: "like", Pat: "\uD7FF%", Vals: []*string{sp("\uD7FF"), sp("\uD7FFa"), sp("\uE000"), sp("a")}})
		runLike(c, v, likeT{Kind: "like-incr", Prefix: []int32{'a', 0xD7FF}})
		runLike(c, v, likeT{Kind: "like-incr", Prefix: []int32{'a', 0x10FFFF}})
		runPush(c, v, pushT{Kind: "push", SQL: "SELECT * FROM pa JOIN pb ON a1 = a2 AND b2 IS NULL WHERE a1 > 1 AND b1 < b2 AND s2 = 'x'"})
		runPush(c, v, pushT{Kind: "push", SQL: "SELECT * FROM pa LEFT JOIN pb ON a1 = a2 AND b2 IS NULL WHERE a1 > 1 AND s2 = 'x'"})
		runPush(c, v, pushT{Kind: "push", SQL: "SELECT * FROM pa JOIN pb ON a1 = a2 LEFT JOIN pc ON a2 = a3 AND b3 IS NULL WHERE b3 IS NULL AND a2 > 1 AND 1 = 1"})
		var rows [][]x.Val
		for i := len(cp); i < c.N; i++ {
			r := c.R.Fork()
			if i%8 == 7 {
				runLike(c, v, genLike(r))
				continue
			}
			if i%8 == 3 {
				runPush(c, v, genPush(r))
				continue
			}
			if rows == nil || i%40 == 0 {
				rows = genRows(r)
			}
			run(c, v, genCase(r, rows))
		}
	})
}
