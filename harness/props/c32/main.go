// Driver for C32: (1) internal/strings Quote / Unquote / UnquoteBytes (through /repo/verifhooks/strings_c32.go) on
// generated strings and escape soups, recorded for the Coq model; predicate on the implementation alone: no panic,
// Unquote(Quote(s)) = s for valid UTF-8, Quote(s) is a JSON string literal that encoding/json reads back as s;
// (2) SQL-level laws on generated JSON documents (implementation only, no model): JSON_UNQUOTE(JSON_QUOTE(s)) = s,
// print/parse idempotence and key-order independence, comparison trichotomy, JSON_EXTRACT(JSON_SET(d,p,v),p) = v,
// JSON_REMOVE then JSON_CONTAINS_PATH = 0, JSON_ARRAY_APPEND adds exactly one element.
package main

import (
	"bytes"
	"encoding/hex"
	"encoding/json"
	"fmt"
	"sort"
	"strings"
	"unicode/utf8"

	"github.com/dolthub/go-mysql-server/verifhooks"

	"verifharness/lib"
	"verifharness/lib/eng"
)

type caseT struct {
	Kind string   `json:"kind"` // str | sql
	Op   int      `json:"op"`   // str: 0 Quote 1 Unquote 2 UnquoteBytes
	S    string   `json:"s,omitempty"` // hex
	Law  string   `json:"law,omitempty"`
	Args []string `json:"args,omitempty"`
	Obs  string   `json:"obs,omitempty"`
}

var opNames = []string{"Quote", "Unquote", "UnquoteBytes"}

type obsT struct {
	out   []byte
	err   int // 0 none, 1 "Invalid unicode", 2 hex invalid byte, 9 other
	emsg  string
	panic string
}

func (o obsT) coq() string {
	switch {
	case o.panic != "":
		return "RPanic"
	case o.err != 0:
		return fmt.Sprintf("(RErr %d)", o.err)
	}
	return "(ROk " + lib.CoqBytes(o.out) + ")"
}
func (o obsT) String() string {
	switch {
	case o.panic != "":
		return "panic: " + o.panic
	case o.err != 0:
		return "error: " + o.emsg
	}
	return fmt.Sprintf("%q", o.out)
}

func errKind(err error) int {
	switch {
	case err == nil:
		return 0
	case strings.HasPrefix(err.Error(), "Invalid unicode"):
		return 1
	case strings.HasPrefix(err.Error(), "encoding/hex: invalid byte"):
		return 2
	}
	return 9
}

func runOp(op int, s []byte) (o obsT) {
	p, pv := lib.Recover(func() {
		switch op {
		case 0:
			o.out = []byte(verifhooks.C32Quote(string(s)))
		case 1:
			r, err := verifhooks.C32Unquote(string(s))
			o.out, o.err = []byte(r), errKind(err)
			if err != nil {
				o.emsg = err.Error()
			}
		default:
			b := make([]byte, len(s))
			copy(b, s)
			r, err := verifhooks.C32UnquoteBytes(b[:len(s):len(s)])
			o.out, o.err = append([]byte{}, r...), errKind(err)
			if err != nil {
				o.emsg = err.Error()
			}
		}
	})
	if p {
		return obsT{panic: pv}
	}
	if o.err != 0 {
		o.out = nil
	}
	return o
}

// ---------- string generators ----------
var plainAlpha = []string{"a", "b", "z", "0", "9", " ", "/", "u", "d", "8", "\"", "\\", "\n", "\t", "\r", "\b", "\f", "\x00", "\x01", "\x1f", "\x7f",
	"é", "ß", "日", "€", " ", "😀", "�", "߿", "ࠀ", "퟿", ""}
var badBytes = []string{"\xff", "\xc3", "\xe6\x97", "\x80", "\xed\xa0\x80", "\xf0\x9f", "\xc0\x80", "\xf4\x90\x80\x80"}
var soup = []string{"\\", "\\", "u", "\\u", "\\u00", "\\u0041", "\\u00e9", "\\u65e5", "\\ud83d", "\\ude00", "\\udfff", "\\ud7ff", "\\ue000", "\\uFFFF", "\\uffff",
	"\\u12", "\\u123", "\\u12g4", "\\uzzzz", "\"", "\"", "a", "b", "0", "f", "F", "d", "8", "\\n", "\\t", "\\b", "\\f", "\\r", "\\\"", "\\\\", "\\/", "\\x", "é", "日", "\xff", " "}

func genPlain(r *lib.RNG, valid bool) []byte {
	n := r.Intn(9)
	if r.Chance(1, 15) {
		n = r.Range(9, 40)
	}
	var sb bytes.Buffer
	for i := 0; i < n; i++ {
		if !valid && r.Chance(1, 4) {
			sb.WriteString(lib.Pick(r, badBytes))
		} else {
			sb.WriteString(lib.Pick(r, plainAlpha))
		}
	}
	return sb.Bytes()
}

func genSoup(r *lib.RNG) []byte {
	n := r.Intn(8)
	var sb bytes.Buffer
	if r.Chance(1, 3) {
		sb.WriteString("\"")
	}
	for i := 0; i < n; i++ {
		sb.WriteString(lib.Pick(r, soup))
	}
	if r.Chance(1, 3) {
		sb.WriteString("\"")
	}
	b := sb.Bytes()
	if len(b) > 0 && r.Chance(1, 8) {
		b = b[:r.Intn(len(b))] // cut anywhere: truncated escapes
	}
	return b
}

// shape of an Unquote input that triggers one of the known crashes (computed from the input alone)
func crashShape(s []byte, bytesVariant bool) string {
	for i := 0; i < len(s); i++ {
		if s[i] != '\\' {
			continue
		}
		i++
		if i == len(s) {
			if bytesVariant {
				return "trailing-backslash"
			}
			return ""
		}
		if s[i] == 'u' {
			rest := len(s) - i - 1
			if rest == 3 {
				return "u-escape-with-three-bytes-left"
			}
			if rest < 3 {
				return ""
			}
			h := strings.ToLower(string(s[i+1 : i+5]))
			if _, err := hex.DecodeString(h); err != nil {
				return ""
			}
			if h[0] == 'd' && h[1] >= '8' {
				return "u-escape-surrogate"
			}
			i += 4
		}
	}
	return ""
}

func runStr(c *lib.Ctx, cs caseT) {
	s, _ := hex.DecodeString(cs.S)
	o := runOp(cs.Op, s)
	cs.Obs = o.String()
	c.Count("op_" + opNames[cs.Op])
	key := ""
	if o.panic == "" && o.err == 0 && len(o.out) > 0 {
		key = fmt.Sprintf("%d|%s", cs.Op, cs.S)
	}
	switch {
	case o.panic != "":
		c.Count("result_panic")
	case o.err != 0:
		c.Count(fmt.Sprintf("result_err%d", o.err))
	default:
		c.Count("result_ok")
	}
	id := c.Case("C32.CStr "+fmt.Sprint(cs.Op)+" "+lib.CoqBytes(s)+" "+o.coq(), cs, key)
	c.PredChecked()
	what := func(f string, a ...interface{}) string { return fmt.Sprintf("%s(%q): ", opNames[cs.Op], s) + fmt.Sprintf(f, a...) }
	if o.panic != "" {
		// Since d9436d51b neither Quote nor Unquote panics on any input (C32_unquote_never_panics); a returning panic
		// of Quote or Unquote (JSON_QUOTE / JSON_UNQUOTE) is reported with its input.  UnquoteBytes has no caller in
		// /repo: its panics are left to the correspondence (the model has no panic outcome).
		c.Count("panic_shape_" + crashShape(s, cs.Op == 2))
		if cs.Op == 0 {
			c.PredFail(id, "quote-panics", what("%s", o.panic), cs)
		} else if cs.Op == 1 {
			c.PredFail(id, "panic/Unquote/"+crashShape(s, false), what("%s", o.panic), cs)
		}
		return
	}
	if o.err == 9 {
		c.PredFail(id, "unexpected-error/"+opNames[cs.Op], what("%s", o.emsg), cs)
	}
	if cs.Op == 0 {
		// Quote(s) must be a JSON string literal for s (independent reader: encoding/json) and Unquote must undo it
		if utf8.Valid(s) {
			var back string
			if err := json.Unmarshal(o.out, &back); err != nil || back != string(s) {
				c.PredFail(id, "quote-not-a-json-literal-of-its-argument", what("= %q, encoding/json reads %q (%v)", o.out, back, err), cs)
			}
		}
		if !utf8.Valid(o.out) {
			// a JSON string literal is UTF-8 text whatever bytes went in (invalid bytes are to be written as \ufffd)
			c.PredFail(id, "quote-output-not-valid-utf8", what("= %q", o.out), cs)
		}
		u := runOp(1, o.out)
		want := s
		if !utf8.Valid(s) {
			want = []byte(strings.ToValidUTF8(string(s), "\x00")) // placeholder, compared below per byte class
		}
		if u.panic != "" || u.err != 0 {
			c.PredFail(id, "unquote-of-quote-fails", what("= %q, Unquote of that: %s", o.out, u), cs)
		} else if utf8.Valid(s) && !bytes.Equal(u.out, want) {
			c.PredFail(id, "unquote-of-quote-differs", what("= %q, Unquote of that = %q", o.out, u.out), cs)
		}
	}
}

// ---------- JSON documents and SQL laws ----------
type doc interface{}
type kv struct {
	k string
	v doc
}
type obj []kv

var keys = []string{"a", "b", "c", "aa", "ab", "k1", "x y", "é"}
var strVals = []string{"", "a", "abc", "hello world", "é", "日本", "A", "10", "true"}
var numVals = []string{"0", "1", "-1", "42", "9007199254740991", "9007199254740993", "-9007199254740993", "9223372036854775807", "18446744073709551615", "0.5", "1.25", "-2.5", "100"}

func genDoc(r *lib.RNG, depth int) doc {
	k := r.Intn(10)
	if depth <= 0 && k >= 6 {
		k = r.Intn(6)
	}
	switch {
	case k < 2:
		return json.Number(lib.Pick(r, numVals))
	case k < 4:
		return lib.Pick(r, strVals)
	case k == 4:
		return r.Bool()
	case k == 5:
		return nil
	case k < 8:
		n := r.Intn(4)
		a := make([]doc, n)
		for i := range a {
			a[i] = genDoc(r, depth-1)
		}
		return a
	default:
		n := r.Intn(4)
		var o obj
		seen := map[string]bool{}
		for i := 0; i < n; i++ {
			key := lib.Pick(r, keys)
			if seen[key] {
				continue
			}
			seen[key] = true
			if r.Chance(1, 4) {
				o = append(o, kv{key, nil})
				continue
			}
			o = append(o, kv{key, genDoc(r, depth-1)})
		}
		return o
	}
}

func text(d doc) string {
	switch v := d.(type) {
	case nil:
		return "null"
	case bool:
		return fmt.Sprint(v)
	case json.Number:
		return string(v)
	case string:
		b, _ := json.Marshal(v)
		return string(b)
	case []doc:
		parts := make([]string, len(v))
		for i, x := range v {
			parts[i] = text(x)
		}
		return "[" + strings.Join(parts, ", ") + "]"
	case obj:
		parts := make([]string, len(v))
		for i, x := range v {
			kb, _ := json.Marshal(x.k)
			parts[i] = string(kb) + ": " + text(x.v)
		}
		return "{" + strings.Join(parts, ", ") + "}"
	}
	return "null"
}

func shuffled(r *lib.RNG, d doc) doc {
	switch v := d.(type) {
	case []doc:
		a := make([]doc, len(v))
		for i, x := range v {
			a[i] = shuffled(r, x)
		}
		return a
	case obj:
		o := make(obj, len(v))
		for i, x := range v {
			o[i] = kv{x.k, shuffled(r, x.v)}
		}
		for i := len(o) - 1; i > 0; i-- {
			j := r.Intn(i + 1)
			o[i], o[j] = o[j], o[i]
		}
		return o
	}
	return d
}

type pathT struct {
	p       string
	target  doc
	lastKey bool // the last leg is an object key
	lastIdx bool // the last leg is the last index of its array
}

func paths(d doc, prefix string, out *[]pathT) {
	switch v := d.(type) {
	case []doc:
		for i, x := range v {
			p := fmt.Sprintf("%s[%d]", prefix, i)
			*out = append(*out, pathT{p, x, false, i == len(v)-1})
			paths(x, p, out)
		}
	case obj:
		for _, x := range v {
			p := prefix + `."` + x.k + `"`
			*out = append(*out, pathT{p, x.v, true, false})
			paths(x.v, p, out)
		}
	}
}

func sqlLit(s string) string {
	return "'" + strings.ReplaceAll(strings.ReplaceAll(s, `\`, `\\`), "'", "''") + "'"
}

var sess *eng.S

func q1(sql string) (val string, isNull bool, res eng.Result) {
	if sess == nil {
		sess = eng.New("db").Session()
	}
	res = sess.Query(sql)
	if res.Err != nil || res.Panic != "" || len(res.Rows) != 1 || len(res.Rows[0]) < 1 {
		return "", false, res
	}
	if res.Rows[0][0] == nil {
		return "", true, res
	}
	switch v := res.Rows[0][0].(type) {
	case string:
		return v, false, res
	case []byte:
		return string(v), false, res
	case bool:
		if v {
			return "1", false, res
		}
		return "0", false, res
	}
	return fmt.Sprint(res.Rows[0][0]), false, res
}

// bigDoc: an array (or object) of distinct tokens whose printed form has a length near one of the given sizes
func bigDoc(r *lib.RNG) string {
	target := lib.Pick(r, []int{1024, 3072, 7168, 2048, 4096, 8192}) + r.Range(-48, 48)
	object := r.Chance(1, 3)
	var sb strings.Builder
	if object {
		sb.WriteString("{")
	} else {
		sb.WriteString("[")
	}
	for i := 0; ; i++ {
		var tok string
		if object {
			tok = fmt.Sprintf("\"k%05d\": ", i)
		}
		switch r.Intn(3) {
		case 0:
			tok += fmt.Sprintf("%d", 100000+i*7919)
		case 1:
			tok += fmt.Sprintf("\"t%05d-%s\"", i, strings.Repeat(string(rune('a'+i%26)), r.Intn(9)))
		default:
			tok += fmt.Sprintf("\"%d\"", i)
		}
		if sb.Len()+len(tok)+3 > target && i > 0 {
			break
		}
		if i > 0 {
			sb.WriteString(", ")
		}
		sb.WriteString(tok)
	}
	// pad with one last string token so that the total length is exactly the target
	if pad := target - sb.Len() - 5; pad >= 1 && !object {
		sb.WriteString(", \"" + strings.Repeat("z", pad) + "\"")
	} else if pad := target - sb.Len() - 15; pad >= 1 && object {
		sb.WriteString(", \"k99999\": \"" + strings.Repeat("z", pad) + "\"")
	}
	if object {
		sb.WriteString("}")
	} else {
		sb.WriteString("]")
	}
	return sb.String()
}

// nestNull: a document in which a member holding JSON null exists at the given depth; returns the document and the path
func nestNull(r *lib.RNG, depth int) (doc, string) {
	var d doc = obj{{lib.Pick(r, keys), genDoc(r, 1)}, {"n", nil}}
	path := `."n"`
	for i := 0; i < depth; i++ {
		if r.Bool() {
			k := lib.Pick(r, keys)
			d = obj{{"z", genDoc(r, 0)}, {k, d}}
			path = `."` + k + `"` + path
		} else {
			d = []doc{genDoc(r, 0), d}
			path = "[1]" + path
		}
	}
	return d, "$" + path
}

func genSQL(r *lib.RNG) caseT {
	d := genDoc(r, 3)
	if r.Chance(1, 8) {
		return caseT{Kind: "sql", Law: "big-print", Args: []string{bigDoc(r)}}
	}
	if r.Chance(1, 6) {
		nd, np := nestNull(r, r.Intn(4))
		v := text(genDoc(r, 1))
		return caseT{Kind: "sql", Law: lib.Pick(r, []string{"remove", "replace", "insert-existing", "extract-set"}), Args: []string{text(nd), np, v}}
	}
	switch r.Intn(7) {
	case 0:
		var sb strings.Builder
		n := r.Intn(8)
		for i := 0; i < n; i++ {
			sb.WriteString(lib.Pick(r, []string{"a", "b", " ", "\"", "\\", "\n", "\t", "é", "日", "😀", "/", "u", "'", "0"}))
		}
		return caseT{Kind: "sql", Law: "unquote-quote", Args: []string{sb.String()}}
	case 1:
		return caseT{Kind: "sql", Law: "print-parse", Args: []string{text(d), text(shuffled(r, d))}}
	case 2:
		return caseT{Kind: "sql", Law: "compare", Args: []string{text(d), text(genDoc(r, 2)), text(genDoc(r, 1))}}
	default:
		var ps []pathT
		paths(d, "$", &ps)
		if len(ps) == 0 {
			return caseT{Kind: "sql", Law: "print-parse", Args: []string{text(d), text(shuffled(r, d))}}
		}
		p := ps[r.Intn(len(ps))]
		if r.Bool() { // prefer members that hold JSON null
			var nulls []pathT
			for _, x := range ps {
				if x.target == nil {
					nulls = append(nulls, x)
				}
			}
			if len(nulls) > 0 {
				p = nulls[r.Intn(len(nulls))]
			}
		}
		v := text(genDoc(r, 1))
		if r.Chance(1, 3) {
			return caseT{Kind: "sql", Law: lib.Pick(r, []string{"replace", "insert-existing"}), Args: []string{text(d), p.p, v}}
		}
		switch r.Intn(3) {
		case 0:
			return caseT{Kind: "sql", Law: "extract-set", Args: []string{text(d), p.p, v}}
		case 1:
			for try := 0; try < 8 && !(p.lastKey || p.lastIdx); try++ {
				p = ps[r.Intn(len(ps))]
			}
			if !(p.lastKey || p.lastIdx) {
				return caseT{Kind: "sql", Law: "extract-set", Args: []string{text(d), p.p, v}}
			}
			return caseT{Kind: "sql", Law: "remove", Args: []string{text(d), p.p}}
		default:
			for try := 0; try < 8; try++ {
				if _, isObj := p.target.(obj); !isObj {
					break
				}
				p = ps[r.Intn(len(ps))]
			}
			if _, isObj := p.target.(obj); isObj {
				return caseT{Kind: "sql", Law: "extract-set", Args: []string{text(d), p.p, v}}
			}
			return caseT{Kind: "sql", Law: "array-append", Args: []string{text(d), p.p, v}}
		}
	}
}

func runSQL(c *lib.Ctx, cs caseT) {
	c.Count("sql_" + cs.Law)
	id := c.CaseNoModel(cs, "sql|"+cs.Law+"|"+strings.Join(cs.Args, "|"))
	c.PredChecked()
	fail := func(sig, what string) { c.PredFail(id, sig, what, cs) }
	bad := func(sql string, res eng.Result) bool {
		if res.Panic != "" {
			sig := "sql/panic/" + cs.Law
			if cs.Law == "raw" && strings.Contains(res.Panic, "slice bounds out of range") {
				sig = "sql/json_unquote/panic/slice-out-of-range"
			}
			fail(sig, fmt.Sprintf("%s panics: %s", sql, res.Panic))
			return true
		}
		if res.Err != nil {
			fail("sql/error/"+cs.Law, fmt.Sprintf("%s fails: %v", sql, res.Err))
			return true
		}
		return false
	}
	a := cs.Args
	switch cs.Law {
	case "raw":
		for _, sql := range a {
			_, _, res := q1(sql)
			if res.Panic != "" {
				bad(sql, res)
				return
			}
		}
	case "unquote-quote":
		sql := "SELECT JSON_UNQUOTE(JSON_QUOTE(" + sqlLit(a[0]) + "))"
		v, null, res := q1(sql)
		if bad(sql, res) {
			return
		}
		if null || v != a[0] {
			fail("sql/unquote-quote-differs", fmt.Sprintf("%s = %q, expected %q", sql, v, a[0]))
		}
	case "print-parse":
		sql1 := "SELECT CAST(CAST(" + sqlLit(a[0]) + " AS JSON) AS CHAR)"
		p1, _, res := q1(sql1)
		if bad(sql1, res) {
			return
		}
		sql2 := "SELECT CAST(CAST(" + sqlLit(p1) + " AS JSON) AS CHAR)"
		p2, _, res := q1(sql2)
		if bad(sql2, res) {
			return
		}
		if p1 != p2 {
			fail("sql/print-parse-not-idempotent", fmt.Sprintf("%s = %q but printing its parse gives %q", sql1, p1, p2))
			return
		}
		sql3 := "SELECT CAST(CAST(" + sqlLit(a[1]) + " AS JSON) AS CHAR)"
		p3, _, res := q1(sql3)
		if bad(sql3, res) {
			return
		}
		if p1 != p3 {
			fail("sql/print-depends-on-key-order", fmt.Sprintf("%s = %q but the same document with permuted keys prints %q", sql1, p1, p3))
			return
		}
		if a[0] != "null" {
			sql4 := "SELECT CAST(" + sqlLit(a[0]) + " AS JSON) = CAST(" + sqlLit(p1) + " AS JSON)"
			v, null, res := q1(sql4)
			if bad(sql4, res) {
				return
			}
			if null || v != "1" && v != "true" {
				fail("sql/parse-of-print-not-equal", fmt.Sprintf("%s = %q", sql4, v))
			}
		}
	case "compare":
		cj := func(x string) string { return "CAST(" + sqlLit(x) + " AS JSON)" }
		rel := func(x, y, op string) (bool, bool) {
			sql := "SELECT " + cj(x) + " " + op + " " + cj(y)
			v, null, res := q1(sql)
			if bad(sql, res) || null {
				return false, false
			}
			return v == "1" || v == "true", true
		}
		for _, pr := range [][2]string{{a[0], a[1]}, {a[1], a[2]}, {a[0], a[0]}} {
			lt, ok1 := rel(pr[0], pr[1], "<")
			eq, ok2 := rel(pr[0], pr[1], "=")
			gt, ok3 := rel(pr[0], pr[1], ">")
			if !(ok1 && ok2 && ok3) {
				return
			}
			n := 0
			for _, b := range []bool{lt, eq, gt} {
				if b {
					n++
				}
			}
			if n != 1 {
				fail("sql/compare-not-trichotomous", fmt.Sprintf("%s vs %s: < %v, = %v, > %v", pr[0], pr[1], lt, eq, gt))
				return
			}
			lt2, ok4 := rel(pr[1], pr[0], ">")
			if ok4 && lt2 != lt {
				fail("sql/compare-not-antisymmetric", fmt.Sprintf("%s < %s is %v but the converse > is %v", pr[0], pr[1], lt, lt2))
				return
			}
		}
		le := func(x, y string) (bool, bool) {
			gt, ok := rel(x, y, ">")
			return !gt, ok
		}
		ab, o1 := le(a[0], a[1])
		bc, o2 := le(a[1], a[2])
		ac, o3 := le(a[0], a[2])
		if o1 && o2 && o3 && ab && bc && !ac {
			fail("sql/compare-not-transitive", fmt.Sprintf("%s <= %s <= %s but not %s <= %s", a[0], a[1], a[2], a[0], a[2]))
		}
	case "extract-set", "replace":
		fn := "JSON_SET"
		if cs.Law == "replace" {
			fn = "JSON_REPLACE"
		}
		// compared as printed text so that JSON null values are judged too
		sql := "SELECT CAST(JSON_EXTRACT(" + fn + "(" + sqlLit(a[0]) + ", " + sqlLit(a[1]) + ", CAST(" + sqlLit(a[2]) + " AS JSON)), " + sqlLit(a[1]) + ") AS CHAR)"
		v, null, res := q1(sql)
		if bad(sql, res) {
			return
		}
		sqlv := "SELECT CAST(CAST(" + sqlLit(a[2]) + " AS JSON) AS CHAR)"
		want, _, res2 := q1(sqlv)
		if bad(sqlv, res2) {
			return
		}
		if null || v != want {
			fail("sql/extract-after-"+strings.ToLower(fn[5:])+"-differs", fmt.Sprintf("%s = %q (null=%v), expected %q", sql, v, null, want))
		}
	case "insert-existing":
		// the member exists (whatever it holds, JSON null included): JSON_INSERT must leave the document unchanged
		sql := "SELECT CAST(JSON_INSERT(" + sqlLit(a[0]) + ", " + sqlLit(a[1]) + ", CAST(" + sqlLit(a[2]) + " AS JSON)) AS CHAR)"
		v, null, res := q1(sql)
		if bad(sql, res) {
			return
		}
		sqld := "SELECT CAST(CAST(" + sqlLit(a[0]) + " AS JSON) AS CHAR)"
		want, _, res2 := q1(sqld)
		if bad(sqld, res2) {
			return
		}
		if null || v != want {
			fail("sql/insert-changes-existing-member", fmt.Sprintf("%s = %q (null=%v), expected the unchanged document %q", sql, v, null, want))
		}
	case "big-print":
		// documents around 1K/3K/7K: the generated text is already in printed form (", " and ": " separators, keys ascending)
		sql := "SELECT CAST(CAST(" + sqlLit(a[0]) + " AS JSON) AS CHAR)"
		v, null, res := q1(sql)
		if bad(sql, res) {
			return
		}
		if null || v != a[0] {
			i := 0
			for i < len(v) && i < len(a[0]) && v[i] == a[0][i] {
				i++
			}
			fail("sql/large-document-text-round-trip-differs", fmt.Sprintf("document of %d bytes prints as %d bytes; first difference at byte %d", len(a[0]), len(v), i))
		}
	case "remove":
		sql := "SELECT JSON_CONTAINS_PATH(JSON_REMOVE(" + sqlLit(a[0]) + ", " + sqlLit(a[1]) + "), 'one', " + sqlLit(a[1]) + ")"
		v, null, res := q1(sql)
		if bad(sql, res) {
			return
		}
		if null || v != "0" && v != "false" {
			fail("sql/path-present-after-remove", fmt.Sprintf("%s = %q (null=%v)", sql, v, null))
		}
	case "array-append":
		sql := "SELECT JSON_LENGTH(JSON_ARRAY_APPEND(" + sqlLit(a[0]) + ", " + sqlLit(a[1]) + ", CAST(" + sqlLit(a[2]) + " AS JSON)), " + sqlLit(a[1]) + ") - JSON_LENGTH(" + sqlLit(a[0]) + ", " + sqlLit(a[1]) + ")"
		v, null, res := q1(sql)
		if bad(sql, res) {
			return
		}
		if null || v != "1" {
			fail("sql/array-append-not-one-element", fmt.Sprintf("%s = %q (null=%v)", sql, v, null))
		}
	}
}

// ---------- documents tied to the Coq model (integers and strings only) ----------
var mKeys = []string{"a", "b", "c", "aa", "ab", "ba", "k1", "k10", "k2", "x y", "é", "B", "zz", "abc"}
var mStrs = []string{"", "a", "abc", "hello world", "é", "日本", "A", "10", "true", "q\"uote", "back\\slash", "line\nbreak", "tab\t", "a/b", "<&>", "\x7f", "😀", "\x01"}
var mInts = []string{"0", "1", "-1", "42", "-17", "1000000", "9007199254740991", "-9007199254740991", "9007199254740993", "-9007199254740993",
	"9223372036854775807", "-9223372036854775808", "9223372036854775808", "18446744073709551615", "123456789012"}

func genMDoc(r *lib.RNG, depth int) doc {
	k := r.Intn(10)
	if depth <= 0 && k >= 6 {
		k = r.Intn(6)
	}
	switch {
	case k < 2:
		if r.Chance(1, 3) {
			return json.Number(fmt.Sprint(r.Range(-50, 50)))
		}
		return json.Number(lib.Pick(r, mInts))
	case k < 4:
		return lib.Pick(r, mStrs)
	case k == 4:
		return r.Bool()
	case k == 5:
		return nil
	case k < 8:
		n := r.Intn(4)
		a := make([]doc, n)
		for i := range a {
			a[i] = genMDoc(r, depth-1)
		}
		return a
	default:
		n := r.Intn(5)
		var o obj
		seen := map[string]bool{}
		for i := 0; i < n; i++ {
			key := lib.Pick(r, mKeys)
			if seen[key] {
				continue
			}
			seen[key] = true
			if r.Chance(1, 5) {
				o = append(o, kv{key, nil})
				continue
			}
			o = append(o, kv{key, genMDoc(r, depth-1)})
		}
		return o
	}
}

func coqDoc(d doc) string {
	switch v := d.(type) {
	case nil:
		return "JNull"
	case bool:
		return "(JBool " + lib.CoqBool(v) + ")"
	case json.Number:
		return "(JInt " + lib.CoqZStr(string(v)) + ")"
	case string:
		return "(JStr " + lib.CoqStr(v) + ")"
	case []doc:
		return "(JArr " + lib.CoqListOf(v, coqDoc) + ")"
	case obj:
		return "(JObj " + lib.CoqListOf(v, func(x kv) string { return "(" + lib.CoqStr(x.k) + ", " + coqDoc(x.v) + ")" }) + ")"
	}
	return "JNull"
}

type mleg struct {
	key   string
	idx   int
	isKey bool
}

func legsText(ls []mleg) string {
	var sb strings.Builder
	sb.WriteString("$")
	for _, l := range ls {
		if l.isKey {
			sb.WriteString(`."` + l.key + `"`)
		} else {
			fmt.Fprintf(&sb, "[%d]", l.idx)
		}
	}
	return sb.String()
}
func legsCoq(ls []mleg) string {
	return lib.CoqListOf(ls, func(l mleg) string {
		if l.isKey {
			return "LKey " + lib.CoqStr(l.key)
		}
		return fmt.Sprintf("LIdx %d", l.idx)
	})
}

// genLegs: mostly a path that exists in d, then possibly perturbed: extended by a new key / index, index past the
// end, a key leg on an array or an index leg on an object or scalar
func genLegs(r *lib.RNG, d doc) []mleg {
	var ls []mleg
	cur := d
	for depth := 0; depth < 5; depth++ {
		switch v := cur.(type) {
		case []doc:
			if len(v) == 0 || r.Chance(1, 6) {
				goto done
			}
			i := r.Intn(len(v))
			ls = append(ls, mleg{idx: i})
			cur = v[i]
		case obj:
			if len(v) == 0 || r.Chance(1, 6) {
				goto done
			}
			x := v[r.Intn(len(v))]
			ls = append(ls, mleg{key: x.k, isKey: true})
			cur = x.v
		default:
			goto done
		}
	}
done:
	switch r.Intn(8) {
	case 0:
		ls = append(ls, mleg{key: lib.Pick(r, mKeys), isKey: true})
	case 1:
		ls = append(ls, mleg{idx: r.Intn(4)})
	case 2:
		ls = append(ls, mleg{idx: r.Intn(3)}, mleg{key: lib.Pick(r, mKeys), isKey: true})
	case 3:
		ls = append(ls, mleg{key: lib.Pick(r, mKeys), isKey: true}, mleg{idx: r.Intn(2)})
	}
	if len(ls) == 0 {
		ls = append(ls, mleg{key: lib.Pick(r, mKeys), isKey: true})
	}
	return ls
}

type jcase struct {
	Kind string `json:"kind"`
	Sub  string `json:"sub"` // print | cmp | path
	Op   int    `json:"op"`
	D    string `json:"d"`
	D2   string `json:"d2,omitempty"`
	Path string `json:"path,omitempty"`
	Coq  string `json:"coq"`
}

var pathFns = []string{"JSON_EXTRACT", "JSON_CONTAINS_PATH", "JSON_SET", "JSON_INSERT", "JSON_REPLACE", "JSON_REMOVE", "JSON_ARRAY_APPEND"}

func genModelCase(r *lib.RNG) jcase {
	d := genMDoc(r, 3)
	switch r.Intn(4) {
	case 0:
		return jcase{Kind: "jdoc", Sub: "print", D: text(shuffled(r, d)), Coq: coqDoc(d)}
	case 1:
		var e doc
		switch r.Intn(3) {
		case 0:
			e = genMDoc(r, 2)
		case 1:
			e = shuffled(r, d)
		default: // a near copy: same shape, one scalar replaced
			e = mutateDoc(r, d)
		}
		return jcase{Kind: "jdoc", Sub: "cmp", D: text(d), D2: text(e), Coq: coqDoc(d) + " " + coqDoc(e)}
	default:
		ls := genLegs(r, d)
		v := genMDoc(r, 1)
		op := r.Intn(len(pathFns))
		return jcase{Kind: "jdoc", Sub: "path", Op: op, D: text(d), D2: text(v), Path: legsText(ls), Coq: coqDoc(d) + " " + legsCoq(ls) + " " + coqDoc(v)}
	}
}

func mutateDoc(r *lib.RNG, d doc) doc {
	switch v := d.(type) {
	case []doc:
		if len(v) == 0 {
			return []doc{genMDoc(r, 0)}
		}
		a := append([]doc{}, v...)
		i := r.Intn(len(a))
		if r.Chance(1, 4) {
			return a[:i]
		}
		a[i] = mutateDoc(r, a[i])
		return a
	case obj:
		if len(v) == 0 {
			return obj{{lib.Pick(r, mKeys), genMDoc(r, 0)}}
		}
		o := append(obj{}, v...)
		i := r.Intn(len(o))
		if r.Chance(1, 4) {
			return append(o[:i:i], o[i+1:]...)
		}
		o[i] = kv{o[i].k, mutateDoc(r, o[i].v)}
		return o
	default:
		return genMDoc(r, 0)
	}
}

func runModelCase(c *lib.Ctx, cs jcase) {
	c.Count("model_" + cs.Sub)
	cj := func(x string) string { return "CAST(" + sqlLit(x) + " AS JSON)" }
	key := "jdoc|" + cs.Sub + "|" + fmt.Sprint(cs.Op) + "|" + cs.D + "|" + cs.D2 + "|" + cs.Path
	skip := func(why string) {
		c.Count("model_skipped_" + why)
		c.CaseNoModel(cs, "")
	}
	switch cs.Sub {
	case "print":
		v, null, res := q1("SELECT CAST(" + cj(cs.D) + " AS CHAR)")
		if res.Err != nil || res.Panic != "" || null {
			skip("print-error")
			return
		}
		c.Case("C32.CPrint "+cs.Coq+" "+lib.CoqStr(v), cs, key)
	case "cmp":
		sign := 2
		for i, op := range []string{"<", "=", ">"} {
			v, null, res := q1("SELECT " + cj(cs.D) + " " + op + " " + cj(cs.D2))
			if res.Err != nil || res.Panic != "" || null {
				skip("cmp-null-or-error")
				return
			}
			if v == "1" || v == "true" {
				if sign != 2 {
					skip("cmp-not-trichotomous")
					return
				}
				sign = i - 1
			}
		}
		if sign == 2 {
			skip("cmp-not-trichotomous")
			return
		}
		c.Case("C32.CCmp "+cs.Coq+" ("+lib.CoqZ(int64(sign))+")", cs, key)
	case "path":
		var sql string
		switch cs.Op {
		case 0:
			sql = "SELECT CAST(JSON_EXTRACT(" + sqlLit(cs.D) + ", " + sqlLit(cs.Path) + ") AS CHAR)"
		case 1:
			sql = "SELECT JSON_CONTAINS_PATH(" + sqlLit(cs.D) + ", 'one', " + sqlLit(cs.Path) + ")"
		case 5:
			sql = "SELECT CAST(JSON_REMOVE(" + sqlLit(cs.D) + ", " + sqlLit(cs.Path) + ") AS CHAR)"
		default:
			sql = "SELECT CAST(" + pathFns[cs.Op] + "(" + sqlLit(cs.D) + ", " + sqlLit(cs.Path) + ", " + cj(cs.D2) + ") AS CHAR)"
		}
		v, null, res := q1(sql)
		if res.Panic != "" {
			// C32 states no crash clause (crashes are C10's): e.g. JSON_EXTRACT('{"a": null}', '$.a[1]') dereferences nil
			// in the path library.  The model has no outcome for it; the case is counted and left out of the tie.
			c.Count("model_path_function_panic")
			c.CaseNoModel(cs, "")
			return
		}
		if res.Err != nil {
			skip("path-error")
			return
		}
		obs := "None"
		if !null {
			if cs.Op == 1 && v == "true" {
				v = "1"
			} else if cs.Op == 1 && v == "false" {
				v = "0"
			}
			obs = "(Some " + lib.CoqStr(v) + ")"
		}
		c.Case(fmt.Sprintf("C32.CPath %d %s %s", cs.Op, cs.Coq, obs), cs, key)
	}
}

func runCase(c *lib.Ctx, cs caseT) {
	if cs.Kind == "sql" {
		runSQL(c, cs)
	} else {
		runStr(c, cs)
	}
}

func main() {
	lib.Main("C32", func(c *lib.Ctx) {
		c.Header = "From Coq Require Import List NArith ZArith.\nImport ListNotations.\nFrom GMS Require Import Codec.JsonQuote Codec.C32Json Corr.C32.\nOpen Scope N_scope."
		c.CaseType = "C32.case"
		c.MismatchFn = "C32.mismatches"
		c.SetRule("2/3 string cases for the model: Quote on 0-8 (1/15: 9-40) symbols from an alphabet with controls, quote, backslash, DEL, " +
			"2/3/4-byte characters and (half of the cases) invalid UTF-8 fragments; Unquote / UnquoteBytes on Quote outputs and on escape soups " +
			"(backslash-u with 0-4 hex digits, surrogates, non-hex, trailing backslash, optional surrounding quotes, random cut). " +
			"1/3 SQL cases (implementation only): JSON_UNQUOTE(JSON_QUOTE(s)), and laws on random documents of depth <= 3 " +
			"(numbers around 2^53/2^63, dyadic fractions, unicode keys): print/parse, key order, comparison, extract-set, remove, array-append. " +
			"Non-trivial = successful non-empty result / every SQL law instance; distinct by input.")
		if c.ReplayFile != "" {
			var cs caseT
			lib.LoadReplay(c.ReplayFile, &cs)
			if cs.Kind == "jdoc" {
				var jc jcase
				lib.LoadReplay(c.ReplayFile, &jc)
				runModelCase(c, jc)
				return
			}
			runCase(c, cs)
			return
		}
		hx := func(s string) string { return hex.EncodeToString([]byte(s)) }
		corpus := []caseT{
			{Kind: "str", Op: 1, S: hx(`\u123`)},   // panicked before d9436d51b (slice s[i+1:i+5] out of range)
			{Kind: "str", Op: 1, S: hx(`\ud800`)},  // panicked before d9436d51b (RuneLen = -1)
			{Kind: "str", Op: 1, S: hx(`"\ud83d\ude00"`)},
			{Kind: "sql", Law: "raw", Args: []string{`SELECT JSON_UNQUOTE('"\\ud83d\\ude00"')`, `SELECT JSON_UNQUOTE('\\u123')`, `SELECT JSON_UNQUOTE('\\ud800')`}},
			{Kind: "str", Op: 1, S: hx(`"😀"`)},
			{Kind: "str", Op: 2, S: hx(`a\`)},      // panicked before d9436d51b (index out of range)
			{Kind: "str", Op: 2, S: hx(`\u123`)},
			{Kind: "str", Op: 2, S: hx(`\udc00`)},
			{Kind: "str", Op: 1, S: hx(`a\`)},
			{Kind: "str", Op: 1, S: hx(`\u12`)},
			{Kind: "str", Op: 1, S: hx(`\u00zz`)},
			{Kind: "str", Op: 1, S: hx(`é`)},
			{Kind: "str", Op: 2, S: hx(`éx`)}, // keeps only the first byte of the two-byte result
			{Kind: "str", Op: 1, S: hx(`"a\""`)},
			{Kind: "str", Op: 1, S: hx(`"`)},
			{Kind: "str", Op: 1, S: hx(`""`)},
			{Kind: "str", Op: 0, S: hx("a\x00\x1f\"\\\n\x7fé\xff")},
			{Kind: "str", Op: 0, S: hx("")},
			{Kind: "str", Op: 0, S: hx("😀\xe6\x97")},
			{Kind: "sql", Law: "unquote-quote", Args: []string{"a\"b\\c\n'é"}},
			{Kind: "sql", Law: "print-parse", Args: []string{`{"b": 1, "a": [1, 2, {"c": null}], "aa": "x"}`, `{"aa": "x", "a": [1, 2, {"c": null}], "b": 1}`}},
			{Kind: "sql", Law: "extract-set", Args: []string{`{"a": [1, 2]}`, `$."a"[1]`, `"v"`}},
			{Kind: "sql", Law: "remove", Args: []string{`{"a": [1, 2], "b": 3}`, `$."b"`}},
			{Kind: "sql", Law: "array-append", Args: []string{`{"a": [1, 2]}`, `$."a"`, `3`}},
			{Kind: "sql", Law: "compare", Args: []string{`1`, `"a"`, `[1]`}},
			{Kind: "sql", Law: "remove", Args: []string{`{"a": null, "b": 1}`, `$."a"`}},
			{Kind: "sql", Law: "remove", Args: []string{`{"x": [0, {"a": {"n": null}}]}`, `$."x"[1]."a"."n"`}},
			{Kind: "sql", Law: "replace", Args: []string{`{"a": null, "b": 1}`, `$."a"`, `7`}},
			{Kind: "sql", Law: "replace", Args: []string{`[1, {"k": {"n": null}}]`, `$[1]."k"."n"`, `"v"`}},
			{Kind: "sql", Law: "insert-existing", Args: []string{`{"a": null, "b": 1}`, `$."a"`, `7`}},
			{Kind: "sql", Law: "insert-existing", Args: []string{`[1, {"k": {"n": null}}]`, `$[1]."k"."n"`, `"v"`}},
			{Kind: "sql", Law: "extract-set", Args: []string{`{"a": null}`, `$."a"`, `null`}},
		}
		for _, cs := range corpus {
			runCase(c, cs)
		}
		// fixed document cases for the Coq model (quirks of the path walker included)
		mk := func(op int, d doc, ls []mleg, v doc) jcase {
			return jcase{Kind: "jdoc", Sub: "path", Op: op, D: text(d), D2: text(v), Path: legsText(ls), Coq: coqDoc(d) + " " + legsCoq(ls) + " " + coqDoc(v)}
		}
		K := func(k string) mleg { return mleg{key: k, isKey: true} }
		I := func(i int) mleg { return mleg{idx: i} }
		n5 := json.Number("5")
		for _, jc := range []jcase{
			mk(2, obj{}, []mleg{K("a"), I(0)}, n5),                                 // a missing member is walked into as JSON null
			mk(2, obj{{"a", json.Number("1")}}, []mleg{I(0), K("a")}, n5),          // index leg on an object: rest of the path ignored
			mk(2, []doc{json.Number("1")}, []mleg{I(5), K("x")}, n5),               // past the end: appended
			mk(3, "s", []mleg{I(2)}, n5),
			mk(5, obj{{"a", nil}, {"b", json.Number("1")}}, []mleg{K("a")}, nil),   // remove a member holding JSON null
			mk(1, obj{{"a", nil}}, []mleg{K("a")}, nil),
			mk(4, []doc{obj{{"n", nil}}}, []mleg{I(0), K("n")}, "v"),
			mk(3, obj{{"n", nil}}, []mleg{K("n")}, "v"),
			mk(6, obj{{"a", []doc{json.Number("1")}}, {"b", "x"}}, []mleg{K("a")}, n5),
			mk(6, obj{{"b", "x"}}, []mleg{K("b")}, n5),
			mk(0, obj{{"k10", json.Number("1")}, {"k2", json.Number("2")}, {"b", obj{{"zz", nil}, {"a", "q\"\\"}}}}, []mleg{K("b")}, nil),
			{Kind: "jdoc", Sub: "print", D: `{"k10": 1, "k2": [true, null, -9223372036854775808, 18446744073709551615], "b": {"zz": "\u0001\n", "a": "é"}}`,
				Coq: coqDoc(obj{{"k10", json.Number("1")}, {"k2", []doc{true, nil, json.Number("-9223372036854775808"), json.Number("18446744073709551615")}}, {"b", obj{{"zz", "\x01\n"}, {"a", "é"}}}})},
			{Kind: "jdoc", Sub: "cmp", D: `{"b": 1, "a": 2}`, D2: `{"a": 2, "b": 1}`, Coq: coqDoc(obj{{"b", json.Number("1")}, {"a", json.Number("2")}}) + " " + coqDoc(obj{{"a", json.Number("2")}, {"b", json.Number("1")}})},
			{Kind: "jdoc", Sub: "cmp", D: `[1, "a"]`, D2: `[1, "a", null]`, Coq: coqDoc([]doc{json.Number("1"), "a"}) + " " + coqDoc([]doc{json.Number("1"), "a", nil})},
			{Kind: "jdoc", Sub: "cmp", D: `9007199254740993`, D2: `9007199254740992`, Coq: "(JInt 9007199254740993%Z) (JInt 9007199254740992%Z)"},
		} {
			runModelCase(c, jc)
		}
		for i := len(corpus); i < c.N; i++ {
			r := c.R.Fork()
			if r.Intn(3) == 0 {
				runCase(c, genSQL(r))
				continue
			}
			if r.Intn(2) == 0 {
				runModelCase(c, genModelCase(r))
				continue
			}
			var cs caseT
			switch k := r.Intn(10); {
			case k < 4:
				cs = caseT{Kind: "str", Op: 0, S: hex.EncodeToString(genPlain(r, r.Bool()))}
			case k < 6:
				q := verifhooks.C32Quote(string(genPlain(r, r.Chance(3, 4))))
				cs = caseT{Kind: "str", Op: 1 + r.Intn(2), S: hx(q)}
			default:
				cs = caseT{Kind: "str", Op: 1 + r.Intn(2), S: hex.EncodeToString(genSoup(r))}
			}
			runCase(c, cs)
		}
		_ = sort.Strings
	})
}
