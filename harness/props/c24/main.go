// Driver for C24 (stored procedures): generated procedure bodies are created with CREATE PROCEDURE, called with
// generated arguments, and their effect (user variables set by the body) is read back with SELECT @u...; the operation
// list procedures.Parse builds for the body is recorded as well.  Predicate on the implementation alone: the result of
// CALL equals a direct structured interpretation of the body written here in Go.
package main

import (
	"context"
	"fmt"
	"io"
	"os"
	"os/exec"
	"sort"
	"strings"
	"time"

	"github.com/dolthub/go-mysql-server/sql"
	"github.com/dolthub/go-mysql-server/sql/procedures"
	ast "github.com/dolthub/vitess/go/vt/sqlparser"
	"github.com/sirupsen/logrus"

	"verifharness/lib"
	"verifharness/lib/eng"
)

// ---------- source AST ----------

type Expr struct {
	K    string `json:"k"` // const null var user bin not isnull
	Z    int64  `json:"z,omitempty"`
	ID   int    `json:"id,omitempty"`
	Op   string `json:"op,omitempty"`
	A    *Expr  `json:"a,omitempty"`
	B    *Expr  `json:"b,omitempty"`
}

type Stmt struct {
	K     string  `json:"k"` // declare set setuser block if while repeat loop leave iterate handler raise
	Exit  bool    `json:"exit,omitempty"` // handler: EXIT (else CONTINUE)
	User  bool    `json:"user,omitempty"` // handler statement assigns @u<ID> instead of v<ID>
	Dup   bool    `json:"dup,omitempty"`  // raise: duplicate-key INSERT (else SIGNAL)
	ID    int     `json:"id,omitempty"`
	Z     *int64  `json:"z,omitempty"` // declare default (nil = NULL default)
	L     int     `json:"l,omitempty"` // label number, 0 = none
	E     *Expr   `json:"e,omitempty"`
	Body  []*Stmt `json:"body,omitempty"`
	Else  []*Stmt `json:"else,omitempty"`
}

type caseT struct {
	Body   []*Stmt `json:"body"`
	Params []int64 `json:"params"` // values of parameters v100, v101 (IN)
	NUsers int     `json:"nusers"`
	SQL    string  `json:"sql,omitempty"`
	Engine string  `json:"engine,omitempty"`
	Ref    string  `json:"ref,omitempty"`
}

var binSQL = map[string]string{"Add": "+", "Sub": "-", "Mul": "*", "Lt": "<", "Le": "<=", "Eq": "=", "Ne": "<>"}

func (e *Expr) sql() string {
	switch e.K {
	case "const":
		return fmt.Sprint(e.Z)
	case "null":
		return "NULL"
	case "var":
		return fmt.Sprintf("v%d", e.ID)
	case "user":
		return fmt.Sprintf("@u%d", e.ID)
	case "bin":
		return "(" + e.A.sql() + " " + binSQL[e.Op] + " " + e.B.sql() + ")"
	case "not":
		return "(NOT " + e.A.sql() + ")"
	default:
		return "(" + e.A.sql() + " IS NULL)"
	}
}

func (e *Expr) coq() string {
	switch e.K {
	case "const":
		return "(EConst " + lib.CoqZ(e.Z) + ")"
	case "null":
		return "ENull"
	case "var":
		return fmt.Sprintf("(EVar %d%%N)", e.ID)
	case "user":
		return fmt.Sprintf("(EUser %d%%N)", e.ID)
	case "bin":
		return "(EBin " + e.Op + " " + e.A.coq() + " " + e.B.coq() + ")"
	case "not":
		return "(ENot " + e.A.coq() + ")"
	default:
		return "(EIsNull " + e.A.coq() + ")"
	}
}

func lbl(l int) string {
	if l == 0 {
		return ""
	}
	return fmt.Sprintf("l%d: ", l)
}
func endlbl(l int) string {
	if l == 0 {
		return ""
	}
	return fmt.Sprintf(" l%d", l)
}

func seqSQL(ss []*Stmt) string {
	var sb strings.Builder
	for _, s := range ss {
		sb.WriteString(s.sql())
		sb.WriteString("; ")
	}
	return sb.String()
}

func (s *Stmt) sql() string {
	switch s.K {
	case "declare":
		if s.Z == nil {
			return fmt.Sprintf("declare v%d int default null", s.ID)
		}
		return fmt.Sprintf("declare v%d int default %d", s.ID, *s.Z)
	case "set":
		return fmt.Sprintf("set v%d = %s", s.ID, s.E.sql())
	case "setuser":
		return fmt.Sprintf("set @u%d = %s", s.ID, s.E.sql())
	case "block":
		return lbl(s.L) + "begin " + seqSQL(s.Body) + "end" + endlbl(s.L)
	case "if":
		r := "if " + s.E.sql() + " then " + seqSQL(s.Body)
		if len(s.Else) > 0 {
			r += "else " + seqSQL(s.Else)
		}
		return r + "end if"
	case "while":
		return lbl(s.L) + "while " + s.E.sql() + " do " + seqSQL(s.Body) + "end while" + endlbl(s.L)
	case "repeat":
		return lbl(s.L) + "repeat " + seqSQL(s.Body) + "until " + s.E.sql() + " end repeat" + endlbl(s.L)
	case "loop":
		return lbl(s.L) + "loop " + seqSQL(s.Body) + "end loop" + endlbl(s.L)
	case "leave":
		return fmt.Sprintf("leave l%d", s.L)
	case "handler":
		act, tgt := "continue", fmt.Sprintf("v%d", s.ID)
		if s.Exit {
			act = "exit"
		}
		if s.User {
			tgt = fmt.Sprintf("@u%d", s.ID)
		}
		return fmt.Sprintf("declare %s handler for sqlexception set %s = %s", act, tgt, s.E.sql())
	case "raise":
		if s.Dup {
			return "insert into dup values (1)"
		}
		return "signal sqlstate '45000'"
	default:
		return fmt.Sprintf("iterate l%d", s.L)
	}
}

func seqCoq(ss []*Stmt) string {
	if len(ss) == 0 {
		return "SSkip"
	}
	if len(ss) == 1 {
		return ss[0].coq()
	}
	return "(SSeq " + ss[0].coq() + " " + seqCoq(ss[1:]) + ")"
}

func (s *Stmt) coq() string {
	switch s.K {
	case "declare":
		if s.Z == nil {
			return fmt.Sprintf("(SDeclare %d%%N None)", s.ID)
		}
		return fmt.Sprintf("(SDeclare %d%%N (Some %s))", s.ID, lib.CoqZ(*s.Z))
	case "set":
		return fmt.Sprintf("(SSet %d%%N %s)", s.ID, s.E.coq())
	case "setuser":
		return fmt.Sprintf("(SSetUser %d%%N %s)", s.ID, s.E.coq())
	case "block":
		return fmt.Sprintf("(SBlock %d%%N %s)", s.L, seqCoq(s.Body))
	case "if":
		return fmt.Sprintf("(SIf %s %s %s)", s.E.coq(), seqCoq(s.Body), seqCoq(s.Else))
	case "while":
		return fmt.Sprintf("(SWhile %d%%N %s %s)", s.L, s.E.coq(), seqCoq(s.Body))
	case "repeat":
		return fmt.Sprintf("(SRepeat %d%%N %s %s)", s.L, seqCoq(s.Body), s.E.coq())
	case "loop":
		return fmt.Sprintf("(SLoop %d%%N %s)", s.L, seqCoq(s.Body))
	case "leave":
		return fmt.Sprintf("(SLeave %d%%N)", s.L)
	case "handler":
		k, h := "HContinue", "HSet"
		if s.Exit {
			k = "HExit"
		}
		if s.User {
			h = "HSetUser"
		}
		return fmt.Sprintf("(SHandler %s (%s %d%%N %s))", k, h, s.ID, s.E.coq())
	case "raise":
		return fmt.Sprintf("(SRaise %s)", lib.CoqBool(s.Dup))
	default:
		return fmt.Sprintf("(SIterate %d%%N)", s.L)
	}
}

// ---------- independent structured interpreter (the oracle of the predicate) ----------

type value struct {
	null bool
	z    int64
}

type frame struct {
	vars     map[int]*value
	handlers []*Stmt
}

func newFrame() *frame { return &frame{vars: map[int]*value{}} }

type interp struct {
	frames []*frame // innermost last
	users  map[int]value
	steps  int
	// shape of the run, used to classify a disagreement
	exitFired      bool
	leakVisible    bool // an EXIT handler fired and the frames it left shadow outer variables, or a raise followed
	nestedHandlers bool // a raise found handlers in two or more frames
	handlerRows    bool // a handler whose statement assigns a user variable fired
	exitNested     bool // an EXIT handler fired for a condition raised in a block nested in the handler's block
	untilNull      bool // an UNTIL condition evaluated to NULL
}

type ctl struct {
	kind  int // 0 normal, 1 leave, 2 iterate, 3 exit the block at depth label
	label int
}

type abort struct{ why string }

func (in *interp) tick() {
	in.steps++
	if in.steps > 200000 {
		panic(abort{"steps"})
	}
}

func (in *interp) find(id int) *value {
	for i := len(in.frames) - 1; i >= 0; i-- {
		if v, ok := in.frames[i].vars[id]; ok {
			return v
		}
	}
	panic(abort{fmt.Sprintf("unknown variable v%d", id)})
}

func (in *interp) eval(e *Expr) value {
	switch e.K {
	case "const":
		return value{z: e.Z}
	case "null":
		return value{null: true}
	case "var":
		return *in.find(e.ID)
	case "user":
		if v, ok := in.users[e.ID]; ok {
			return v
		}
		return value{null: true}
	case "not":
		a := in.eval(e.A)
		if a.null {
			return a
		}
		if a.z == 0 {
			return value{z: 1}
		}
		return value{z: 0}
	case "isnull":
		if in.eval(e.A).null {
			return value{z: 1}
		}
		return value{z: 0}
	}
	a, b := in.eval(e.A), in.eval(e.B)
	if a.null || b.null {
		return value{null: true}
	}
	bv := func(c bool) value {
		if c {
			return value{z: 1}
		}
		return value{z: 0}
	}
	switch e.Op {
	case "Add":
		return value{z: a.z + b.z}
	case "Sub":
		return value{z: a.z - b.z}
	case "Mul":
		return value{z: a.z * b.z}
	case "Lt":
		return bv(a.z < b.z)
	case "Le":
		return bv(a.z <= b.z)
	case "Eq":
		return bv(a.z == b.z)
	default:
		return bv(a.z != b.z)
	}
}

func (in *interp) cond(e *Expr) bool {
	v := in.eval(e)
	return !v.null && v.z != 0
}

func (in *interp) seq(ss []*Stmt) ctl {
	for _, s := range ss {
		if c := in.stmt(s); c.kind != 0 {
			return c
		}
	}
	return ctl{}
}

// loopCtl interprets the outcome of one loop body: (exit loop?, propagate?)
func loopCtl(c ctl, l int) (leave bool, prop bool) {
	if c.kind == 0 {
		return false, false
	}
	if c.kind == 3 {
		return false, true
	}
	if l != 0 && c.label == l {
		return c.kind == 1, false
	}
	return false, true
}

func (in *interp) stmt(s *Stmt) ctl {
	in.tick()
	switch s.K {
	case "declare":
		v := &value{null: true}
		if s.Z != nil {
			v = &value{z: *s.Z}
		}
		in.frames[len(in.frames)-1].vars[s.ID] = v
	case "handler":
		f := in.frames[len(in.frames)-1]
		f.handlers = append(f.handlers, s)
	case "raise":
		if in.exitFired {
			in.leakVisible = true
		}
		withHandlers := 0
		for _, f := range in.frames {
			if len(f.handlers) > 0 {
				withHandlers++
			}
		}
		if withHandlers > 1 {
			in.nestedHandlers = true
		}
		for d := len(in.frames) - 1; d >= 0; d-- {
			hs := in.frames[d].handlers
			if len(hs) == 0 {
				continue
			}
			h := hs[len(hs)-1]
			v := in.eval(h.E)
			if h.User {
				in.users[h.ID] = v
				in.handlerRows = true
			} else {
				*in.find(h.ID) = v
			}
			if !h.Exit {
				return ctl{}
			}
			in.exitFired = true
			if len(in.frames)-1 > d {
				in.exitNested = true
			}
			for _, f := range in.frames[d:] {
				for id := range f.vars {
					for _, o := range in.frames[:d] {
						if _, ok := o.vars[id]; ok {
							in.leakVisible = true
						}
					}
				}
			}
			return ctl{3, d}
		}
		panic(abort{"unhandled"})
	case "set":
		v := in.eval(s.E)
		*in.find(s.ID) = v
	case "setuser":
		in.users[s.ID] = in.eval(s.E)
	case "block":
		in.frames = append(in.frames, newFrame())
		depth := len(in.frames) - 1
		c := in.seq(s.Body)
		in.frames = in.frames[:len(in.frames)-1]
		if c.kind == 1 && s.L != 0 && c.label == s.L {
			return ctl{}
		}
		if c.kind == 3 && c.label == depth {
			return ctl{}
		}
		return c
	case "if":
		if in.cond(s.E) {
			return in.seq(s.Body)
		}
		return in.seq(s.Else)
	case "while":
		for in.cond(s.E) {
			in.tick()
			c := in.seq(s.Body)
			leave, prop := loopCtl(c, s.L)
			if prop {
				return c
			}
			if leave {
				break
			}
		}
	case "repeat":
		for {
			in.tick()
			c := in.seq(s.Body)
			leave, prop := loopCtl(c, s.L)
			if prop {
				return c
			}
			if in.eval(s.E).null {
				in.untilNull = true
			}
			if leave || in.cond(s.E) {
				break
			}
		}
	case "loop":
		for {
			in.tick()
			c := in.seq(s.Body)
			leave, prop := loopCtl(c, s.L)
			if prop {
				return c
			}
			if leave {
				break
			}
		}
	case "leave":
		return ctl{1, s.L}
	case "iterate":
		return ctl{2, s.L}
	}
	return ctl{}
}

// reference runs the body directly; status "ok", "error" (unhandled condition) or "unfinished"
func reference(cs *caseT) (map[int]value, string, *interp) {
	in := &interp{frames: []*frame{newFrame()}, users: map[int]value{}}
	for i, p := range cs.Params {
		in.frames[0].vars[100+i] = &value{z: p}
	}
	status := "ok"
	func() {
		defer func() {
			if r := recover(); r != nil {
				if a, is := r.(abort); is {
					status = "unfinished"
					if a.why == "unhandled" {
						status = "error"
					}
					return
				}
				panic(r)
			}
		}()
		in.seq(cs.Body)
	}()
	return in.users, status, in
}

// ---------- generator ----------

type genT struct {
	forceBlockFirst bool // the next loop is a LOOP whose body is one shadowing block with ITERATE inside
	raises   int
	r        *lib.RNG
	nextVar  int
	nextLbl  int
	nUsers   int
	features map[string]bool
	oldLbls  []int // labels of finished LOOP/REPEAT constructs (candidates for reuse)
}

type scopeInfo struct {
	vars      []int // visible non-counter variables
	loopLbls  []int // enclosing loop labels (ITERATE/LEAVE targets)
	blockLbls []int // enclosing block labels (LEAVE targets)
	handler   bool  // a handler is active here
	inRepeat  bool  // inside a REPEAT body (compiled twice): labelled LOOP / REPEAT in here hit the stale-label defect
	noShadow  bool  // inside the block of an EXIT handler: declare only fresh variables (else the known scope leak shows)
}

func (g *genT) expr(sc *scopeInfo, depth int) *Expr {
	if depth <= 0 || g.r.Chance(1, 3) {
		switch g.r.Intn(6) {
		case 0:
			return &Expr{K: "const", Z: int64(g.r.Range(-3, 9))}
		case 1:
			if g.r.Chance(1, 4) {
				return &Expr{K: "null"}
			}
			return &Expr{K: "const", Z: int64(g.r.Range(0, 3))}
		case 2:
			return &Expr{K: "user", ID: g.r.Intn(g.nUsers)}
		default:
			return &Expr{K: "var", ID: lib.Pick(g.r, sc.vars)}
		}
	}
	switch g.r.Intn(8) {
	case 0:
		return &Expr{K: "not", A: g.expr(sc, depth-1)}
	case 1:
		return &Expr{K: "isnull", A: g.expr(sc, depth-1)}
	default:
		op := lib.Pick(g.r, []string{"Add", "Sub", "Mul", "Lt", "Le", "Eq", "Ne", "Add", "Sub"})
		a, b := g.expr(sc, depth-1), g.expr(sc, depth-1)
		if op == "Mul" { // keep values small
			b = &Expr{K: "const", Z: int64(g.r.Range(-2, 3))}
		}
		return &Expr{K: "bin", Op: op, A: a, B: b}
	}
}

// clamp keeps stored values small: v = e becomes IF-free arithmetic on a bounded expression is not possible, so values are
// bounded by construction instead: every assignment is of depth <= 2 over small operands and loops run <= 4 times.
func (g *genT) assign(sc *scopeInfo) *Stmt {
	e := g.expr(sc, 2)
	if g.r.Chance(1, 3) {
		return &Stmt{K: "setuser", ID: g.r.Intn(g.nUsers), E: e}
	}
	return &Stmt{K: "set", ID: lib.Pick(g.r, sc.vars), E: e}
}

func (g *genT) label(loop bool) int {
	if g.r.Chance(1, 3) {
		return 0
	}
	if loop && len(g.oldLbls) > 0 && !g.features["leave-block"] && g.r.Chance(1, 6) {
		g.features["reused-label"] = true
		return lib.Pick(g.r, g.oldLbls)
	}
	g.nextLbl++
	return g.nextLbl
}

func (g *genT) jump(sc *scopeInfo) *Stmt {
	// LEAVE / ITERATE of an enclosing construct, guarded by a condition
	var j *Stmt
	n := len(sc.loopLbls) + len(sc.blockLbls)
	if n == 0 {
		return nil
	}
	k := g.r.Intn(n)
	if k < len(sc.loopLbls) {
		if g.r.Bool() {
			j = &Stmt{K: "leave", L: sc.loopLbls[k]}
		} else {
			j = &Stmt{K: "iterate", L: sc.loopLbls[k]}
			g.features["iterate"] = true
		}
	} else {
		if g.features["reused-label"] || !g.r.Chance(1, 3) {
			return nil
		}
		j = &Stmt{K: "leave", L: sc.blockLbls[k-len(sc.loopLbls)]}
		g.features["leave-block"] = true
	}
	return &Stmt{K: "if", E: g.expr(sc, 2), Body: []*Stmt{j}}
}

func (g *genT) stmts(sc *scopeInfo, depth, n int) []*Stmt {
	var out []*Stmt
	for i := 0; i < n; i++ {
		choice := g.r.Intn(10)
		if depth <= 0 && choice >= 4 {
			choice = g.r.Intn(4)
		}
		if g.raises < 2 && ((sc.handler && g.r.Chance(1, 5)) || g.r.Chance(1, 150)) {
			// raise a condition (unhandled ones are rare: the whole CALL must fail then)
			g.raises++
			out = append(out, &Stmt{K: "raise", Dup: g.r.Bool()})
			continue
		}
		switch choice {
		case 0, 1, 2:
			out = append(out, g.assign(sc))
		case 3:
			if j := g.jump(sc); j != nil {
				out = append(out, j)
			} else {
				out = append(out, g.assign(sc))
			}
		case 4, 5:
			s := &Stmt{K: "if", E: g.expr(sc, 2), Body: g.stmts(sc, depth-1, g.r.Range(1, 2))}
			if g.r.Bool() {
				s.Else = g.stmts(sc, depth-1, g.r.Range(1, 2))
				if n := len(s.Else); s.Else[n-1].K == "block" && !g.r.Chance(1, 8) {
					s.Else = append(s.Else, g.assign(sc)) // an ELSE ending with a block hits a known scope leak
				}
			}
			out = append(out, s)
		case 6:
			// nested block with declarations (possibly shadowing)
			l := g.label(false)
			inner := &scopeInfo{vars: append([]int{}, sc.vars...), loopLbls: sc.loopLbls, blockLbls: sc.blockLbls, handler: sc.handler, noShadow: sc.noShadow, inRepeat: sc.inRepeat}
			if l != 0 {
				inner.blockLbls = append(append([]int{}, sc.blockLbls...), l)
			}
			var hdl *Stmt
			if g.r.Chance(1, 3) && (!sc.handler || g.r.Chance(1, 8)) {
				hdl = &Stmt{K: "handler", Exit: g.r.Bool(), ID: lib.Pick(g.r, sc.vars), E: &Expr{K: "const", Z: int64(g.r.Range(10, 19))}}
				inner.handler = true
				if hdl.Exit && !g.r.Chance(1, 8) {
					inner.noShadow = true
				}
			}
			var body []*Stmt
			declared := map[int]bool{}
			for k := g.r.Range(1, 2); k > 0; k-- {
				id := 0
				if g.r.Bool() && !inner.noShadow {
					id = lib.Pick(g.r, sc.vars) // shadow
					if id >= 100 || declared[id] {
						id = 0
					}
				}
				if id == 0 {
					g.nextVar++
					id = g.nextVar
					inner.vars = append(inner.vars, id)
				}
				declared[id] = true
				z := int64(g.r.Range(-2, 5))
				body = append(body, &Stmt{K: "declare", ID: id, Z: &z})
			}
			if hdl != nil {
				body = append(body, hdl)
			}
			body = append(body, g.stmts(inner, depth-1, g.r.Range(1, 3))...)
			out = append(out, &Stmt{K: "block", L: l, Body: body})
		default:
			// a loop bounded by its own counter, which the body cannot assign
			g.nextVar++
			ctr := 50 + g.nextVar // counters live in 50..99, never in sc.vars
			l := g.label(true)
			force := g.forceBlockFirst
			g.forceBlockFirst = false
			if force && l == 0 {
				g.nextLbl++
				l = g.nextLbl
			}
			bound := int64(g.r.Range(1, 4))
			if force && bound < 2 {
				bound = 2
			}
			zero := int64(0)
			inner := &scopeInfo{vars: sc.vars, loopLbls: sc.loopLbls, blockLbls: sc.blockLbls, handler: sc.handler, noShadow: sc.noShadow, inRepeat: sc.inRepeat}
			if l != 0 {
				inner.loopLbls = append(append([]int{}, sc.loopLbls...), l)
			}
			inc := &Stmt{K: "set", ID: ctr, E: &Expr{K: "bin", Op: "Add", A: &Expr{K: "var", ID: ctr}, B: &Expr{K: "const", Z: 1}}}
			body := append([]*Stmt{inc}, g.stmts(inner, depth-1, g.r.Range(1, 3))...)
			lt := &Expr{K: "bin", Op: "Lt", A: &Expr{K: "var", ID: ctr}, B: &Expr{K: "const", Z: bound}}
			ge := &Expr{K: "bin", Op: "Le", A: &Expr{K: "const", Z: bound}, B: &Expr{K: "var", ID: ctr}}
			var loop *Stmt
			kind := g.r.Intn(3)
			if l == 0 && kind == 2 {
				kind = 0 // LOOP needs a label to be left
			}
			if force {
				kind = 2
			}
			if sc.inRepeat && kind != 0 && l != 0 && !force && !g.r.Chance(1, 10) {
				kind = 0 // mostly avoid the known stale-label shape
			}
			if kind == 1 {
				inner.inRepeat = true
			}
			switch kind {
			case 0:
				loop = &Stmt{K: "while", L: l, E: lt, Body: body}
			case 1:
				if !sc.inRepeat {
					body = append([]*Stmt{inc}, g.stmts(inner, depth-1, g.r.Range(1, 3))...) // again, now knowing it is a REPEAT body
				}
				loop = &Stmt{K: "repeat", L: l, E: ge, Body: body}
			default:
				body = append([]*Stmt{inc, {K: "if", E: ge, Body: []*Stmt{{K: "leave", L: l}}}}, body[1:]...)
				if force || g.r.Bool() {
					// the LOOP body is one BEGIN..END block that declares a (shadowing) variable; ITERATE from inside it
					// jumps backwards onto the block's ScopeBegin
					id := lib.Pick(g.r, sc.vars)
					if force {
						for _, v := range sc.vars { // shadow a local that is read after the loop
							if v < 100 {
								id = v
							}
						}
					}
					if id >= 100 || sc.noShadow {
						g.nextVar++
						id = g.nextVar
					}
					z := int64(g.r.Range(20, 29))
					one := &Expr{K: "bin", Op: "Eq", A: &Expr{K: "var", ID: ctr}, B: &Expr{K: "const", Z: 1}}
					blk := []*Stmt{{K: "declare", ID: id, Z: &z}, body[0], body[1], {K: "if", E: one, Body: []*Stmt{{K: "iterate", L: l}}}}
					blk = append(blk, body[2:]...)
					blk = append(blk, &Stmt{K: "set", ID: id, E: &Expr{K: "bin", Op: "Add", A: &Expr{K: "var", ID: id}, B: &Expr{K: "const", Z: 1}}})
					body = []*Stmt{{K: "block", Body: blk}}
					g.features["loop-block-first"] = true
				}
				loop = &Stmt{K: "loop", L: l, Body: body}
			}
			// the counter is declared in a block of its own around the loop
			out = append(out, &Stmt{K: "block", Body: []*Stmt{{K: "declare", ID: ctr, Z: &zero}, loop}})
			if l != 0 && kind != 0 {
				g.oldLbls = append(g.oldLbls, l)
			}
		}
	}
	return out
}

// exitNested builds: BEGIN DECLARE EXIT HANDLER ... SET v = c; stmts; BEGIN [DECLARE fresh]; stmts; <raise>; stmts; END; stmts; END
// -- the statements after the raise and after the nested block must not run
func (g *genT) exitNested(sc *scopeInfo, depth int) *Stmt {
	inner := &scopeInfo{vars: append([]int{}, sc.vars...), loopLbls: sc.loopLbls, blockLbls: sc.blockLbls, handler: true, noShadow: true}
	hv := sc.vars[0]
	for _, v := range sc.vars {
		if v < 100 {
			hv = v
		}
	}
	hdl := &Stmt{K: "handler", Exit: true, ID: hv, E: &Expr{K: "const", Z: int64(g.r.Range(10, 19))}}
	saved := g.raises
	g.raises = 2 // no other raise inside
	var nested []*Stmt
	if g.r.Bool() {
		g.nextVar++
		z := int64(g.r.Range(-2, 5))
		nested = append(nested, &Stmt{K: "declare", ID: g.nextVar, Z: &z})
	}
	nested = append(nested, g.stmts(inner, depth-1, g.r.Range(0, 2))...)
	nested = append(nested, &Stmt{K: "raise", Dup: g.r.Bool()})
	nested = append(nested, g.assign(inner))
	body := []*Stmt{hdl}
	body = append(body, g.stmts(inner, depth-1, g.r.Range(0, 2))...)
	body = append(body, &Stmt{K: "block", Body: nested})
	body = append(body, g.assign(inner), g.assign(inner))
	g.raises = saved + 1
	return &Stmt{K: "block", Body: body}
}

func gen(r *lib.RNG) (*caseT, map[string]bool) {
	g := &genT{r: r, nUsers: 3, features: map[string]bool{}}
	cs := &caseT{NUsers: 3, Params: []int64{int64(r.Range(-2, 6)), int64(r.Range(0, 3))}}
	sc := &scopeInfo{vars: []int{100, 101}}
	var body []*Stmt
	for k := r.Range(1, 3); k > 0; k-- {
		g.nextVar++
		z := int64(r.Range(-2, 5))
		body = append(body, &Stmt{K: "declare", ID: g.nextVar, Z: &z})
		sc.vars = append(sc.vars, g.nextVar)
	}
	shapeA, shapeB := r.Intn(100) < 16, r.Intn(100) < 22
	body = append(body, g.stmts(sc, 3, r.Range(1, 3))...)
	if shapeA {
		g.forceBlockFirst = true
		for try := 0; g.forceBlockFirst && try < 200; try++ { // draw statements until one contains the forced loop
			st := g.stmts(sc, 2, 1)
			if !g.forceBlockFirst {
				body = append(body, st...)
			}
		}
		g.forceBlockFirst = false
	}
	if shapeB {
		body = append(body, g.exitNested(sc, 2))
	}
	body = append(body, g.stmts(sc, 3, r.Range(1, 2))...)
	// make the final values of the locals observable
	for i, v := range sc.vars {
		if i < 3 {
			body = append(body, &Stmt{K: "setuser", ID: i, E: &Expr{K: "bin", Op: "Add", A: &Expr{K: "user", ID: i}, B: &Expr{K: "var", ID: v}}})
		}
	}
	cs.Body = []*Stmt{{K: "block", Body: body}}
	return cs, g.features
}

// features recomputes the classification of a body from its text (so that replayed and corpus cases get it too)
func features(ss []*Stmt, f map[string]bool, blockLbls map[int]bool, seenLoopLbl map[int]bool) {
	inRepeat := blockLbls[-1] // pseudo entry: we are inside a REPEAT body, which ConvertStmt compiles twice
	for _, s := range ss {
		switch s.K {
		case "block":
			nb := blockLbls
			if s.L != 0 {
				nb = map[int]bool{s.L: true}
				for k := range blockLbls {
					nb[k] = true
				}
			}
			features(s.Body, f, nb, seenLoopLbl)
		case "if":
			if n := len(s.Else); n > 0 && s.Else[n-1].K == "block" {
				f["else-ends-with-block"] = true
			}
			features(s.Body, f, blockLbls, seenLoopLbl)
			features(s.Else, f, blockLbls, seenLoopLbl)
		case "while", "repeat", "loop":
			if s.L != 0 && seenLoopLbl[s.L] {
				f["reused-label"] = true
			}
			if s.L != 0 && s.K != "while" && inRepeat {
				// the second compilation of the enclosing REPEAT body finds this label already registered
				f["reused-label"] = true
			}
			if s.K == "repeat" && s.L != 0 && len(s.Body) > 0 && s.Body[len(s.Body)-1].K == "block" && containsIterate(s.Body, s.L) {
				// ITERATE from the first copy is a forward jump that skips the ScopeEnd the body ends with
				f["iterate-repeat-ending-in-block"] = true
			}
			if s.K == "repeat" && !inRepeat {
				nb := map[int]bool{-1: true}
				for k := range blockLbls {
					nb[k] = true
				}
				features(s.Body, f, nb, seenLoopLbl)
				if s.L != 0 {
					seenLoopLbl[s.L] = true
				}
				continue
			}
			features(s.Body, f, blockLbls, seenLoopLbl)
			if s.L != 0 && s.K != "while" {
				seenLoopLbl[s.L] = true
			}
		case "leave":
			if blockLbls[s.L] {
				f["leave-block"] = true
			}
		case "declare":
			if s.Z == nil {
				f["declare-null"] = true
			}
		}
	}
}

// ---------- running ----------

func valStr(v value) string {
	if v.null {
		return "NULL"
	}
	return fmt.Sprint(v.z)
}

func labelNum(s string) uint64 {
	var n uint64
	fmt.Sscanf(s, "l%d", &n)
	return n
}

func run(c *lib.Ctx, cs *caseT) {
	sqlBody := cs.Body[0].sql()
	create := "create procedure p(v100 int, v101 int) " + sqlBody
	cs.SQL = create
	feat := map[string]bool{}
	features(cs.Body, feat, map[int]bool{}, map[int]bool{})
	var fs []string
	for k := range feat {
		fs = append(fs, k)
	}
	sort.Strings(fs)
	fsig := strings.Join(fs, "+")
	if fsig == "" {
		fsig = "plain"
	}

	// the operation list the engine compiles the body to
	var opsTerm []string
	stmt, err := ast.Parse(create)
	if err != nil {
		id := c.CaseNoModel(cs, "")
		c.PredFail(id, "generator/unparsable", "generated body does not parse: "+err.Error(), cs)
		return
	}
	ddl, _ := stmt.(*ast.DDL)
	if ddl == nil || ddl.ProcedureSpec == nil {
		id := c.CaseNoModel(cs, "")
		c.PredFail(id, "generator/not-a-procedure", "not a CREATE PROCEDURE", cs)
		return
	}
	ops, err := procedures.Parse(ddl.ProcedureSpec.Body)
	if err != nil {
		id := c.CaseNoModel(cs, "")
		c.PredFail(id, "parse-error/"+fsig, "procedures.Parse failed: "+err.Error(), cs)
		return
	}
	for _, o := range ops {
		idx := int64(o.Index)
		switch o.OpCode {
		case procedures.OpCode_If, procedures.OpCode_Goto, procedures.OpCode_ScopeBegin, procedures.OpCode_ScopeEnd:
		default:
			idx = 0
		}
		opsTerm = append(opsTerm, lib.CoqTuple(lib.CoqZ(int64(o.OpCode)), lib.CoqZ(idx), fmt.Sprintf("%d%%N", labelNum(o.Target))))
	}
	c.Count(fmt.Sprintf("ops_%02d0s", len(ops)/10))

	// a handler whose statement assigns a user variable makes the interpreter restart the procedure in a loop that
	// ignores context cancellation: try such bodies in a child process first and only run them here if they return
	childHangs := func(limit time.Duration) bool {
		cmd := exec.Command(os.Args[0])
		cmd.Env = append(os.Environ(), "C24_CHILD_CREATE="+create, fmt.Sprintf("C24_CHILD_CALL=call p(%d, %d)", cs.Params[0], cs.Params[1]))
		if err := cmd.Start(); err != nil {
			return false
		}
		ch := make(chan error, 1)
		go func() { ch <- cmd.Wait() }()
		select {
		case <-ch:
			return false
		case <-time.After(limit):
			cmd.Process.Kill()
			<-ch
			return true
		}
	}
	childHung := false
	if hasUserHandler(cs.Body) {
		childHung = childHangs(4 * time.Second)
	}
	// the engine
	e := eng.New("db")
	s := e.Session()
	if r := s.Query(create); r.Err != nil {
		id := c.CaseNoModel(cs, "")
		c.PredFail(id, "create-error/"+fsig, "CREATE PROCEDURE failed: "+r.Err.Error(), cs)
		return
	}
	s.MustExec("create table dup (i int primary key)", "insert into dup values (1)")
	for i := 0; i < cs.NUsers; i++ {
		s.MustExec(fmt.Sprintf("set @u%d = null", i))
	}
	type callRes struct {
		err   error
		panic string
	}
	done := make(chan callRes, 2)
	cctx, cancel := context.WithCancel(context.Background())
	go func() {
		if childHung {
			return
		}
		var res callRes
		defer func() {
			if r := recover(); r != nil {
				res.panic = fmt.Sprint(r)
			}
			done <- res
		}()
		ctx := sql.NewContext(cctx, sql.WithSession(s.Ctx.Session))
		ctx.SetCurrentDatabase("db")
		_, iter, _, err := e.Engine.Query(ctx, fmt.Sprintf("call p(%d, %d)", cs.Params[0], cs.Params[1]))
		if err != nil {
			res.err = err
			return
		}
		for {
			_, err := iter.Next(ctx)
			if err == io.EOF {
				break
			}
			if err != nil {
				res.err = err
				break
			}
		}
		iter.Close(ctx)
	}()
	var res callRes
	timedOut := false
	if childHung {
		timedOut = true
		cancel()
		done <- callRes{}
	}
	select {
	case res = <-done:
	case <-time.After(12 * time.Second):
		timedOut = true
		cancel()
		select {
		case res = <-done:
		case <-time.After(5 * time.Second):
			fmt.Println("FATAL: CALL does not stop after cancellation; aborting the driver:", create)
			panic("runaway CALL")
		}
	}
	cancel()
	obs := ""
	got := map[int]string{}
	switch {
	case timedOut:
		obs = "RTimeout"
		cs.Engine = "timeout"
	case res.err != nil || res.panic != "":
		obs = "RErr"
		cs.Engine = "error: " + fmt.Sprint(res.err) + res.panic
	default:
		var items []string
		for i := 0; i < cs.NUsers; i++ {
			r := s.Query(fmt.Sprintf("select @u%d", i))
			v := "?"
			if r.Err == nil && len(r.Rows) == 1 {
				v = eng.Val(r.Rows[0][0])
			}
			got[i] = v
			if v == "NULL" {
				items = append(items, fmt.Sprintf("(%d%%N, None)", i))
			} else {
				var z int64
				if _, err := fmt.Sscanf(v, "%d", &z); err != nil {
					items = append(items, fmt.Sprintf("(%d%%N, Some 999999999%%Z)", i))
				} else {
					items = append(items, fmt.Sprintf("(%d%%N, Some %s)", i, lib.CoqZ(z)))
				}
			}
		}
		obs = "(RDone " + lib.CoqList(items) + ")"
		cs.Engine = fmt.Sprint(got)
	}
	params := fmt.Sprintf("[(100%%N, Some %s); (101%%N, Some %s)]", lib.CoqZ(cs.Params[0]), lib.CoqZ(cs.Params[1]))
	term := lib.CoqTuple(cs.Body[0].coq(), params, lib.CoqList(opsTerm), obs)
	key := ""
	if len(ops) > 6 {
		key = sqlBody
	}

	// predicate: CALL == direct structured interpretation
	want, status, in := reference(cs)
	cs.Ref = status
	if status == "ok" {
		ws := map[int]string{}
		for i := 0; i < cs.NUsers; i++ {
			if v, ok := want[i]; ok {
				ws[i] = valStr(v)
			} else {
				ws[i] = "NULL"
			}
		}
		cs.Ref = fmt.Sprint(ws)
	}
	// shape of the reference run (decides the signature of a disagreement)
	if in.leakVisible {
		fs = append(fs, "exit-handler-leak")
	}
	if in.nestedHandlers {
		fs = append(fs, "nested-handlers")
	}
	if in.handlerRows {
		fs = append(fs, "handler-assigns-user-variable")
	}
	if in.untilNull {
		fs = append(fs, "until-null")
	}
	if in.exitNested {
		c.Count("shape:exit-handler-fired-from-nested-block")
	}
	if loopBlockFirst(cs.Body) {
		c.Count("shape:loop-body-is-shadowing-block-with-iterate")
	}
	// one root cause per signature: the first applicable shape in this order names the disagreement
	fsig = "plain"
	for _, f := range []string{"handler-assigns-user-variable", "reused-label", "nested-handlers", "exit-handler-leak", "until-null", "iterate-repeat-ending-in-block", "leave-block", "else-ends-with-block", "declare-null"} {
		for _, g := range fs {
			if g == f {
				fsig = f
			}
		}
		if fsig != "plain" {
			break
		}
	}
	if in.exitFired {
		c.Count("run:exit-handler-fired")
	}
	c.Count("run-shape:" + fsig)
	var id int
	if timedOut && fsig == "plain" {
		id = c.CaseNoModel(cs, key) // judged below after a second run
	} else if feat["declare-null"] {
		id = c.CaseNoModel(cs, key) // DEFAULT NULL is kept as an unevaluated AST node by the engine: not modelled
	} else {
		id = c.Case(term, cs, key)
	}
	if status == "unfinished" {
		c.Count("reference-did-not-finish")
		return
	}
	if timedOut && fsig == "plain" && !childHung && !childHangs(60*time.Second) {
		// no known defect shape and a second, isolated run does return: the machine was merely too slow
		c.Count("slow-but-finite")
		return
	}
	c.PredChecked()
	switch {
	case timedOut:
		c.PredFail(id, "call-does-not-return/"+fsig, fmt.Sprintf("CALL does not return within 12 s; direct interpretation: %s; %s", cs.Ref, create), cs)
	case status == "error" && obs == "RErr":
		c.Count("agree-error")
	case status == "error":
		c.PredFail(id, "call-succeeds-on-unhandled-condition/"+fsig, fmt.Sprintf("CALL gives %s although the body raises a condition no handler covers; %s", cs.Engine, create), cs)
	case obs == "RErr":
		c.PredFail(id, "call-fails/"+fsig, fmt.Sprintf("CALL fails (%s); direct interpretation gives %s; %s", cs.Engine, cs.Ref, create), cs)
	case cs.Engine != cs.Ref:
		c.PredFail(id, "result-differs/"+fsig, fmt.Sprintf("CALL gives %s, direct interpretation gives %s; %s", cs.Engine, cs.Ref, create), cs)
	default:
		c.Count("agree")
	}
}

// loopBlockFirst: some LOOP's first body statement is a block that declares a variable and contains ITERATE of that loop
func loopBlockFirst(ss []*Stmt) bool {
	for _, s := range ss {
		if s.K == "loop" && len(s.Body) > 0 && s.Body[0].K == "block" && len(s.Body[0].Body) > 0 && s.Body[0].Body[0].K == "declare" &&
			containsIterate(s.Body[0].Body, s.L) {
			return true
		}
		if loopBlockFirst(s.Body) || loopBlockFirst(s.Else) {
			return true
		}
	}
	return false
}

func containsIterate(ss []*Stmt, l int) bool {
	for _, s := range ss {
		if (s.K == "iterate" && s.L == l) || containsIterate(s.Body, l) || containsIterate(s.Else, l) {
			return true
		}
	}
	return false
}

func hasUserHandler(ss []*Stmt) bool {
	for _, s := range ss {
		if (s.K == "handler" && s.User) || hasUserHandler(s.Body) || hasUserHandler(s.Else) {
			return true
		}
	}
	return false
}

// childMain runs one CREATE PROCEDURE + CALL and exits; the parent kills it when it does not return
func childMain() {
	logrus.SetOutput(io.Discard)
	e := eng.New("db")
	s := e.Session()
	s.Query("create table dup (i int primary key)")
	s.Query("insert into dup values (1)")
	s.Query(os.Getenv("C24_CHILD_CREATE"))
	s.Query(os.Getenv("C24_CHILD_CALL"))
	os.Exit(0)
}

func i64(z int64) *int64 { return &z }

func main() {
	if os.Getenv("C24_CHILD_CREATE") != "" {
		childMain()
	}
	lib.Main("C24", func(c *lib.Ctx) {
		logrus.SetOutput(io.Discard)
		c.Header = "From Coq Require Import List ZArith NArith.\nImport ListNotations.\nFrom GMS Require Import Lang.C24Proc Corr.C24.\nOpen Scope N_scope."
		c.CaseType = "C24.case"
		c.MismatchFn = "C24.mismatches"
		c.SetRule("procedure bodies: outer block with 1-3 declarations, 2-5 statements of nesting depth <= 3 drawn from SET (local, parameter, " +
			"@user), IF/ELSE, nested [labelled] BEGIN..END with (shadowing) declarations, WHILE/REPEAT/LOOP bounded by a private counter " +
			"(1-4 iterations), guarded LEAVE/ITERATE of any enclosing loop label and LEAVE of enclosing block labels, labels sometimes reused after a " +
			"finished loop; integer expressions with NULL, + - * < <= = <> NOT, IS NULL over locals, two IN parameters and three user variables; the " +
			"final locals are added into @u0..@u2.  Non-trivial = more than 6 operations; distinct = distinct bodies.")
		if c.ReplayFile != "" {
			var cs caseT
			lib.LoadReplay(c.ReplayFile, &cs)
			run(c, &cs)
			return
		}
		v := func(id int) *Expr { return &Expr{K: "var", ID: id} }
		k := func(z int64) *Expr { return &Expr{K: "const", Z: z} }
		bin := func(op string, a, b *Expr) *Expr { return &Expr{K: "bin", Op: op, A: a, B: b} }
		corpus := []*caseT{
			// LEAVE of a labelled block leaks its scope (Coq: leak_prog)
			{NUsers: 3, Params: []int64{0, 0}, Body: []*Stmt{{K: "block", Body: []*Stmt{
				{K: "declare", ID: 1, Z: i64(1)},
				{K: "block", L: 1, Body: []*Stmt{{K: "declare", ID: 1, Z: i64(2)}, {K: "leave", L: 1}}},
				{K: "setuser", ID: 0, E: v(1)}}}}},
			// label reused after a LOOP: ITERATE jumps into the finished loop (Coq: stale_prog)
			{NUsers: 3, Params: []int64{0, 0}, Body: []*Stmt{{K: "block", Body: []*Stmt{
				{K: "declare", ID: 1, Z: i64(0)},
				{K: "loop", L: 1, Body: []*Stmt{{K: "set", ID: 1, E: bin("Add", v(1), k(1))}, {K: "if", E: bin("Lt", k(2), v(1)), Body: []*Stmt{{K: "leave", L: 1}}}}},
				{K: "set", ID: 1, E: k(0)},
				{K: "while", L: 1, E: bin("Lt", v(1), k(3)), Body: []*Stmt{
					{K: "set", ID: 1, E: bin("Add", v(1), k(1))},
					{K: "if", E: bin("Eq", v(1), k(2)), Body: []*Stmt{{K: "iterate", L: 1}}},
					{K: "setuser", ID: 0, E: v(1)}}}}}}},
			// plain nested control flow (Coq: good_prog)
			{NUsers: 3, Params: []int64{3, 1}, Body: []*Stmt{{K: "block", Body: []*Stmt{
				{K: "declare", ID: 1, Z: i64(0)}, {K: "declare", ID: 2, Z: i64(0)},
				{K: "while", L: 1, E: bin("Lt", v(1), k(5)), Body: []*Stmt{
					{K: "set", ID: 1, E: bin("Add", v(1), k(1))},
					{K: "if", E: bin("Eq", v(1), k(2)), Body: []*Stmt{{K: "iterate", L: 1}}},
					{K: "if", E: bin("Eq", v(1), k(4)), Body: []*Stmt{{K: "leave", L: 1}}},
					{K: "block", Body: []*Stmt{{K: "declare", ID: 2, Z: i64(100)}, {K: "set", ID: 2, E: bin("Add", v(2), v(1))}}},
					{K: "set", ID: 2, E: bin("Add", v(2), v(1))}}},
				{K: "setuser", ID: 0, E: v(1)}, {K: "setuser", ID: 1, E: v(2)}, {K: "setuser", ID: 2, E: bin("Add", v(100), v(101))}}}}},
		}
		hd := func(exit bool, id int, z int64) *Stmt { return &Stmt{K: "handler", Exit: exit, ID: id, E: k(z)} }
		corpus = append(corpus,
			// EXIT handler leaves its block without popping it (Coq: exit_leak_prog)
			&caseT{NUsers: 3, Params: []int64{0, 0}, Body: []*Stmt{{K: "block", Body: []*Stmt{
				{K: "declare", ID: 1, Z: i64(0)}, {K: "declare", ID: 2, Z: i64(1)},
				{K: "block", Body: []*Stmt{{K: "declare", ID: 2, Z: i64(2)}, hd(true, 1, 1), {K: "raise"}, {K: "setuser", ID: 1, E: k(1)}}},
				{K: "setuser", ID: 0, E: v(2)}}}}},
			// nested handlers: the outermost runs (Coq: nested_handler_prog)
			&caseT{NUsers: 3, Params: []int64{0, 0}, Body: []*Stmt{{K: "block", Body: []*Stmt{
				{K: "declare", ID: 1, Z: i64(0)}, hd(false, 1, 10),
				{K: "block", Body: []*Stmt{hd(false, 1, 20), {K: "raise"}}},
				{K: "setuser", ID: 0, E: v(1)}}}}},
			// a handler assigning a user variable restarts the procedure (Coq: restart_prog)
			&caseT{NUsers: 3, Params: []int64{0, 0}, Body: []*Stmt{{K: "block", Body: []*Stmt{
				{K: "handler", User: true, ID: 0, E: k(1)}, {K: "raise"}, {K: "setuser", ID: 1, E: k(2)}}}}},
			// EXIT handler in an outer block, error in a nested block, no shadowing (Coq: handler_good_prog)
			&caseT{NUsers: 3, Params: []int64{0, 0}, Body: []*Stmt{{K: "block", Body: []*Stmt{
				{K: "declare", ID: 1, Z: i64(0)},
				{K: "block", Body: []*Stmt{hd(true, 1, 1),
					{K: "block", Body: []*Stmt{{K: "raise", Dup: true}, {K: "setuser", ID: 1, E: k(1)}}},
					{K: "setuser", ID: 2, E: k(1)}}},
				{K: "setuser", ID: 0, E: v(1)}}}}},
			// LOOP whose body is a shadowing block, ITERATE from inside it (Coq: loop_block_prog)
			&caseT{NUsers: 3, Params: []int64{0, 0}, Body: []*Stmt{{K: "block", Body: []*Stmt{
				{K: "declare", ID: 1, Z: i64(1)}, {K: "declare", ID: 2, Z: i64(0)},
				{K: "loop", L: 1, Body: []*Stmt{{K: "block", Body: []*Stmt{
					{K: "declare", ID: 1, Z: i64(50)},
					{K: "set", ID: 2, E: bin("Add", v(2), k(1))},
					{K: "if", E: bin("Le", k(3), v(2)), Body: []*Stmt{{K: "leave", L: 1}}},
					{K: "if", E: bin("Eq", v(2), k(1)), Body: []*Stmt{{K: "iterate", L: 1}}},
					{K: "set", ID: 1, E: bin("Add", v(1), k(1))}}}}},
				{K: "setuser", ID: 0, E: v(1)}}}}},
			// IF taken, ELSE branch ends with a block: the skipping Goto leaks a scope (Coq: else_block_prog)
			&caseT{NUsers: 3, Params: []int64{0, 0}, Body: []*Stmt{{K: "block", Body: []*Stmt{
				{K: "declare", ID: 1, Z: i64(1)},
				{K: "block", Body: []*Stmt{{K: "declare", ID: 1, Z: i64(2)},
					{K: "if", E: k(1), Body: []*Stmt{{K: "setuser", ID: 1, E: k(1)}}, Else: []*Stmt{{K: "block", Body: []*Stmt{{K: "setuser", ID: 1, E: k(2)}}}}}}},
				{K: "setuser", ID: 0, E: v(1)}}}}},
			// UNTIL evaluating to NULL: the compiled IF NOT cond leaves the loop (Coq: until_null_prog)
			&caseT{NUsers: 3, Params: []int64{0, 0}, Body: []*Stmt{{K: "block", Body: []*Stmt{
				{K: "declare", ID: 1, Z: i64(0)}, {K: "declare", ID: 2, Z: i64(0)},
				{K: "set", ID: 2, E: &Expr{K: "null"}},
				{K: "repeat", E: bin("Eq", v(2), k(1)), Body: []*Stmt{
					{K: "set", ID: 1, E: bin("Add", v(1), k(1))},
					{K: "if", E: bin("Le", k(3), v(1)), Body: []*Stmt{{K: "set", ID: 2, E: k(1)}}}}},
				{K: "setuser", ID: 0, E: v(1)}}}}},
			// ITERATE of a REPEAT whose body ends with a block (Coq: iterate_repeat_prog)
			&caseT{NUsers: 3, Params: []int64{0, 0}, Body: []*Stmt{{K: "block", Body: []*Stmt{
				{K: "declare", ID: 1, Z: i64(1)},
				{K: "repeat", L: 1, E: k(1), Body: []*Stmt{{K: "block", Body: []*Stmt{
					{K: "declare", ID: 1, Z: i64(2)}, {K: "if", E: k(1), Body: []*Stmt{{K: "iterate", L: 1}}}}}}},
				{K: "setuser", ID: 0, E: v(1)}}}}},
			// unhandled condition: CALL must fail
			&caseT{NUsers: 3, Params: []int64{0, 0}, Body: []*Stmt{{K: "block", Body: []*Stmt{
				{K: "setuser", ID: 0, E: k(1)}, {K: "raise"}, {K: "setuser", ID: 1, E: k(2)}}}}},
		)
		// DECLARE ... DEFAULT NULL: the default is kept as an unevaluated AST node
		corpus = append(corpus, &caseT{NUsers: 3, Params: []int64{1, 1}, Body: []*Stmt{{K: "block", Body: []*Stmt{
			{K: "declare", ID: 1},
			{K: "setuser", ID: 0, E: bin("Add", v(1), k(1))}}}}})
		for _, cs := range corpus {
			run(c, cs)
		}
		for n := len(corpus); n < c.N; n++ {
			// keep bodies short enough to finish well inside the time limit (each operation is a full engine query)
			r := c.R.Fork()
			var cs *caseT
			for try := 0; try < 8; try++ {
				cs, _ = gen(r)
				if _, _, in := reference(cs); in.steps <= 150 {
					break
				}
			}
			run(c, cs)
		}
	})
}
