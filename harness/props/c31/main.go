// Driver for C31 (dates): flat SQL calls DATEDIFF / DATE_ADD / DATE_SUB / STR_TO_DATE / TIMESTAMPDIFF /
// DATE_FORMAT through the real engine; every modelled call is recorded for Corr/C31.v, and the property's
// identities (add/sub inverse without clamping, DATEDIFF and TIMESTAMPDIFF as differences of day / second
// counts, DATE_FORMAT/STR_TO_DATE inverse for complete formats, invalid dates rejected) are evaluated on the
// implementation's outputs alone, with Go's time package as an independent calendar.
package main

import (
	"fmt"
	"strings"
	"time"

	"verifharness/lib"
	"verifharness/lib/eng"
)

type Call struct {
	Fn   int     `json:"fn"`
	SQL  string  `json:"sql"`
	Args []int64 `json:"args"`
	Null bool    `json:"null"`
	Out  []int64 `json:"out"`
	Err  string  `json:"err,omitempty"`
}

type caseT struct {
	Fam   string  `json:"fam"`
	In    []int64 `json:"in"`
	Fmt   string  `json:"fmt,omitempty"`
	Calls []Call  `json:"calls,omitempty"`
}

type runner struct {
	s  *eng.S
	cs *caseT
}

type res struct {
	null bool
	err  string
	t    time.Time
	isT  bool
	n    int64
	isN  bool
	s    string
}

func (r *runner) query(q string) res {
	out := r.s.Query(q)
	if out.Panic != "" {
		return res{err: "panic: " + out.Panic}
	}
	if out.Err != nil {
		return res{err: out.Err.Error()}
	}
	if len(out.Rows) != 1 || len(out.Rows[0]) != 1 {
		return res{err: "shape"}
	}
	switch v := out.Rows[0][0].(type) {
	case nil:
		return res{null: true}
	case time.Time:
		return res{t: v.UTC(), isT: true}
	case string:
		for _, layout := range []string{"2006-01-02", "2006-01-02 15:04:05", "2006-01-02 15:04:05.999999"} {
			if t, err := time.Parse(layout, v); err == nil {
				return res{t: t, isT: true, s: v}
			}
		}
		return res{s: v}
	case int64:
		return res{n: v, isN: true}
	case int32:
		return res{n: int64(v), isN: true}
	case int:
		return res{n: int64(v), isN: true}
	}
	return res{err: fmt.Sprintf("unexpected %T", out.Rows[0][0])}
}

// record a modelled call whose result is a date or a number
func (r *runner) rec(fn int, q string, args []int64, x res, date bool) {
	c := Call{Fn: fn, SQL: q, Args: args, Null: x.null, Err: x.err}
	if x.isT && date {
		c.Out = []int64{int64(x.t.Year()), int64(x.t.Month()), int64(x.t.Day())}
	} else if x.isN && !date {
		c.Out = []int64{x.n}
	} else if !x.null {
		c.Err = "unexpected result: " + x.err + x.s
		c.Out = []int64{-999999}
	}
	r.cs.Calls = append(r.cs.Calls, c)
}

func ddSig(want int64) string {
	if want > 106751 || want < -106751 {
		return "datediff/saturates-beyond-292-years"
	}
	return "datediff/not-day-difference"
}

// modelledFormat: only specifiers of the Coq renderer (Codec/C31Format.v) and plain ASCII literals.
func modelledFormat(fm string) bool {
	for i := 0; i < len(fm); i++ {
		if fm[i] == '%' {
			if i+1 >= len(fm) || strings.IndexByte("YymcdeHkhIlisSfpTr%bMDjaW", fm[i+1]) < 0 {
				return false
			}
			i++
		}
	}
	return true
}

// greedyAdjacent: a specifier parsed with takeNumber (all following digits) is directly followed by a
// specifier or literal that renders with a leading digit.
func greedyAdjacent(fm string) bool {
	const greedy = "cefHkhIlisSjD"
	const digitFirst = "YymcdeDHkhIlisSfjTr"
	for i := 0; i+1 < len(fm); i++ {
		if fm[i] == '%' && strings.IndexByte(greedy, fm[i+1]) >= 0 && fm[i+1] != 'D' {
			j := i + 2
			if j < len(fm) && ((fm[j] >= '0' && fm[j] <= '9') || (fm[j] == '%' && j+1 < len(fm) && strings.IndexByte(digitFirst, fm[j+1]) >= 0)) {
				return true
			}
		}
		if fm[i] == '%' {
			i++
		}
	}
	return false
}

func ymd(y, m, d int64) string { return fmt.Sprintf("%04d-%02d-%02d", y, m, d) }
func hms(t int64) string       { return fmt.Sprintf("%02d:%02d:%02d", t/3600, t/60%60, t%60) }

func dim(y, m int64) int64 { return int64(time.Date(int(y), time.Month(m)+1, 0, 0, 0, 0, 0, time.UTC).Day()) }

func genDate(r *lib.RNG) (int64, int64, int64) {
	y := int64(r.Range(1900, 2100))
	switch r.Intn(6) {
	case 0:
		y = int64(lib.Pick(r, []int{1, 100, 400, 1000, 1600, 1700, 1900, 2000, 2024, 2100, 9000, 9990}))
	case 1:
		y = int64(r.Range(1, 9990))
	}
	m := int64(r.Range(1, 12))
	if r.Chance(1, 4) {
		m = int64(lib.Pick(r, []int{1, 2, 3, 12}))
	}
	d := int64(r.Range(1, int(dim(y, m))))
	if r.Chance(1, 3) {
		d = dim(y, m) - int64(r.Intn(3))
	}
	return y, m, d
}

var units = []struct {
	name string
	secs int64
}{{"MINUTE", 60}, {"HOUR", 3600}, {"DAY", 86400}, {"WEEK", 604800}}

var fmtPieces = [][]string{
	{"%Y", "%y"}, {"-", "/", " ", ""}, {"%m", "%c", "%b", "%M"}, {"-", "/", " "}, {"%d", "%e", "%D"},
	{" ", "T", " at "}, {"%H", "%k", "%h %p", "%I %p", "%l%p"}, {":", "."}, {"%i"}, {":"}, {"%s", "%S"}, {"", ".%f"},
}

func gen(r *lib.RNG) caseT {
	fams := []string{"parse", "parse", "parse", "adddays", "addmonths", "addyears", "datediff", "datediffdt", "datediffdt", "addsubday", "addsubday", "tsdiff", "strdate", "strdate", "format", "format", "castdate"}
	f := lib.Pick(r, fams)
	y, m, d := genDate(r)
	switch f {
	case "adddays":
		n := int64(r.Range(-800, 800))
		if r.Chance(1, 5) {
			n = int64(r.Range(-300000, 300000))
		}
		return caseT{Fam: f, In: []int64{y, m, d, n}}
	case "addmonths":
		return caseT{Fam: f, In: []int64{y, m, d, int64(r.Range(-40, 40))}}
	case "addyears":
		if r.Chance(1, 3) {
			y, m, d = int64(lib.Pick(r, []int{1896, 1904, 2000, 2020, 2024, 2096})), 2, 29
		}
		return caseT{Fam: f, In: []int64{y, m, d, int64(r.Range(-120, 120))}}
	case "datediff":
		y2, m2, d2 := genDate(r)
		if r.Bool() {
			y2 = y + int64(r.Range(-2, 2))
			if y2 < 1 {
				y2 = 1
			}
			if d2 > dim(y2, m2) {
				d2 = dim(y2, m2)
			}
		}
		return caseT{Fam: f, In: []int64{y, m, d, y2, m2, d2}}
	case "parse":
		// (string, format) pairs for the STR_TO_DATE parser model: formats over the modelled specifiers and literals,
		// strings = the DATE_FORMAT rendering of a random moment, often damaged by a few edits, or random text
		specs := []string{"%Y", "%y", "%m", "%c", "%d", "%e", "%H", "%k", "%h", "%I", "%l", "%i", "%s", "%S", "%f", "%p", "%T", "%r", "%%",
			"%b", "%M", "%D", "%j", "%a", "%W", "%Y", "%d"}
		lits := []string{" ", "-", "/", ":", ".", "T", "x", " ", "-", ":"}
		var sb strings.Builder
		if r.Chance(1, 2) {
			for _, p := range fmtPieces {
				sb.WriteString(lib.Pick(r, p))
			}
		} else {
			n := r.Range(1, 8)
			for i := 0; i < n; i++ {
				if r.Chance(3, 5) {
					sb.WriteString(lib.Pick(r, specs))
				}
				if r.Chance(3, 5) {
					sb.WriteString(lib.Pick(r, lits))
				}
			}
		}
		fm := sb.String()
		switch r.Intn(30) {
		case 0:
			fm += "%"
		case 1:
			fm += lib.Pick(r, []string{"%Q", "%U", "%w", "%z"})
		case 2:
			fm = " " + fm + " "
		}
		// in[5]: number of edits, in[6]: seed of the edits; in[7] = 1: random text instead of a rendering
		edits := int64(0)
		if r.Bool() {
			edits = int64(r.Range(1, 3))
		}
		raw := int64(0)
		if r.Chance(1, 8) {
			raw = 1
		}
		if y < 1000 {
			y += 1000
		}
		if d > dim(y, m) {
			d = dim(y, m)
		}
		return caseT{Fam: f, Fmt: fm, In: []int64{y, m, d, int64(r.Intn(86400)), int64(r.Intn(1000000)) * int64(r.Intn(2)), edits, int64(r.Int63()), raw}}
	case "datediffdt":
		// datetimes with (possibly zero) time parts, before 1970, after it and across the epoch
		if r.Chance(2, 3) {
			y = int64(r.Range(1960, 1972))
			if r.Chance(1, 3) {
				y, m, d = 1969, 12, int64(r.Range(29, 31))
			}
			if d > dim(y, m) {
				d = dim(y, m)
			}
		}
		y2, m2, d2 := y, m, d
		switch r.Intn(4) {
		case 0:
			y2, m2, d2 = genDate(r)
		case 1:
			y2, m2, d2 = 1970, 1, int64(r.Range(1, 3))
		default:
			t := time.Date(int(y), time.Month(m), int(d), 0, 0, 0, 0, time.UTC).AddDate(0, 0, r.Range(-3, 3))
			y2, m2, d2 = int64(t.Year()), int64(t.Month()), int64(t.Day())
		}
		tod := func() int64 {
			switch r.Intn(4) {
			case 0:
				return -1 // date-only string
			case 1:
				return lib.Pick(r, []int64{0, 1, 43199, 43200, 43201, 86399})
			}
			return int64(r.Intn(86400))
		}
		return caseT{Fam: f, In: []int64{y, m, d, tod(), y2, m2, d2, tod()}}
	case "addsubday":
		if r.Chance(1, 3) {
			y, m, d = int64(lib.Pick(r, []int{1969, 1970, 1999, 2000, 2024})), int64(lib.Pick(r, []int{1, 2, 12})), 1
			if r.Bool() {
				d = dim(y, m)
			}
		}
		n := int64(r.Range(-100, 100))
		switch r.Intn(4) {
		case 0:
			n = lib.Pick(r, []int64{1, -1, 5, -5, 999999, 1000000, 1000001, 59, 60, 61, 86399, 86400, 3600, 24, 25, -24})
		case 1:
			n = int64(r.Range(-200000, 200000))
		}
		// unit index, argument shape: 0 date-only string, 1 DATE()-typed expression, 2 datetime string
		return caseT{Fam: f, In: []int64{y, m, d, n, int64(r.Intn(4)), int64(r.Intn(3)), int64(r.Intn(86400))}}
	case "tsdiff":
		y2, m2, d2 := y, m, d
		if r.Bool() {
			y2, m2, d2 = genDate(r)
		}
		return caseT{Fam: f, In: []int64{y, m, d, int64(r.Intn(86400)), y2, m2, d2, int64(r.Intn(86400)), int64(r.Intn(len(units)))}}
	case "strdate":
		// field-wise plausible dates, a third of them non-existent
		if r.Chance(1, 3) {
			d = int64(r.Range(28, 31))
		}
		if r.Chance(1, 12) {
			m = int64(r.Range(0, 14))
		}
		if r.Chance(1, 12) {
			d = int64(r.Range(0, 40))
		}
		if y < 1000 {
			y += 1000
		}
		return caseT{Fam: f, In: []int64{y, m, d, int64(r.Intn(2))}}
	case "castdate":
		if r.Chance(1, 2) {
			d = int64(r.Range(28, 31))
		}
		if y < 1000 {
			y += 1000
		}
		return caseT{Fam: f, In: []int64{y, m, d}}
	}
	var sb strings.Builder
	for _, p := range fmtPieces {
		sb.WriteString(lib.Pick(r, p))
	}
	fm := sb.String()
	if r.Chance(1, 6) {
		fm = lib.Pick(r, []string{"%Y-%m-%d %T", "%Y-%m-%d %r", "%Y%m%d%H%i%s", "%d/%m/%Y %H:%i:%s.%f", "%Y-%j %T",
			"%H:%i:%s %d.%m.%Y", "%T %e/%c/%Y", "%k.%i.%S on %e-%c-%Y"})
	}
	if y < 1000 {
		y += 1000
	}
	if strings.Contains(fm, "%y") {
		y = int64(r.Range(1970, 2069))
	}
	if d > dim(y, m) { // the year may have changed: stay on an existing date
		d = dim(y, m)
	}
	return caseT{Fam: "format", Fmt: fm, In: []int64{y, m, d, int64(r.Intn(86400)), int64(r.Intn(1000000)) * int64(r.Intn(2))}}
}

func run(c *lib.Ctx, e *eng.E, cs caseT) {
	cs.Calls = nil
	r := &runner{s: e.Session(), cs: &cs}
	type pf struct{ sig, what string }
	var fails []pf
	fail := func(sig, what string) { fails = append(fails, pf{sig, what}) }
	in := cs.In
	nontrivial := true
	goDate := func(y, m, d int64) time.Time { return time.Date(int(y), time.Month(m), int(d), 0, 0, 0, 0, time.UTC) }
	sameDay := func(x res, t time.Time) bool {
		return x.isT && x.t.Year() == t.Year() && x.t.Month() == t.Month() && x.t.Day() == t.Day()
	}
	inRange := func(t time.Time) bool { return t.Year() >= 1 && t.Year() <= 9999 }

	addsub := func(fn int, unit string, clampFree func(y, m, d, n int64) bool, want func(y, m, d, n int64) time.Time) {
		y, m, d, n := in[0], in[1], in[2], in[3]
		w := want(y, m, d, n)
		if !inRange(w) {
			nontrivial = false
			return
		}
		q := fmt.Sprintf("SELECT DATE_ADD('%s', INTERVAL %d %s)", ymd(y, m, d), n, unit)
		a := r.query(q)
		r.rec(fn, q, []int64{y, m, d, n}, a, true)
		if !sameDay(a, w) {
			fail(strings.ToLower(unit)+"-add/wrong", fmt.Sprintf("%s = %s%s, expected %s", q, a.s, a.err, w.Format("2006-01-02")))
			return
		}
		q2 := fmt.Sprintf("SELECT DATE_SUB('%s', INTERVAL %d %s)", a.t.Format("2006-01-02"), n, unit)
		b := r.query(q2)
		r.rec(fn, q2, []int64{int64(a.t.Year()), int64(a.t.Month()), int64(a.t.Day()), -n}, b, true)
		if clampFree(y, m, d, n) {
			if !sameDay(b, goDate(y, m, d)) {
				fail(strings.ToLower(unit)+"-add-sub/not-inverse", fmt.Sprintf("DATE_SUB(DATE_ADD('%s', %d %s), %d %s) = %s%s", ymd(y, m, d), n, unit, n, unit, b.s, b.err))
			}
		} else {
			nontrivial = false
		}
		// DATEDIFF agrees with the day count
		q3 := fmt.Sprintf("SELECT DATEDIFF('%s', '%s')", a.t.Format("2006-01-02"), ymd(y, m, d))
		dd := r.query(q3)
		r.rec(1, q3, []int64{int64(a.t.Year()), int64(a.t.Month()), int64(a.t.Day()), y, m, d}, dd, false)
		wd := (w.Unix() - goDate(y, m, d).Unix()) / 86400
		if !dd.isN || dd.n != wd {
			fail(ddSig(wd), fmt.Sprintf("%s = %d%s, expected %d", q3, dd.n, dd.err, wd))
		}
	}

	switch cs.Fam {
	case "adddays":
		addsub(2, "DAY", func(y, m, d, n int64) bool { return true }, func(y, m, d, n int64) time.Time { return goDate(y, m, d).AddDate(0, 0, int(n)) })
	case "addmonths":
		tgt := func(y, m, d, n int64) (int64, int64) {
			t := y*12 + (m - 1) + n
			ty := t / 12
			tm := t%12 + 1
			if t < 0 && t%12 != 0 {
				ty--
				tm = (t%12+12)%12 + 1
			}
			return ty, tm
		}
		addsub(3, "MONTH", func(y, m, d, n int64) bool { ty, tm := tgt(y, m, d, n); return ty >= 1 && d <= dim(ty, tm) },
			func(y, m, d, n int64) time.Time {
				ty, tm := tgt(y, m, d, n)
				if ty < 1 {
					return time.Date(0, 1, 1, 0, 0, 0, 0, time.UTC)
				}
				dd := d
				if dd > dim(ty, tm) {
					dd = dim(ty, tm)
				}
				return goDate(ty, tm, dd)
			})
	case "addyears":
		addsub(4, "YEAR", func(y, m, d, n int64) bool { return y+n >= 1 && d <= dim(y+n, m) },
			func(y, m, d, n int64) time.Time {
				if y+n < 1 {
					return time.Date(0, 1, 1, 0, 0, 0, 0, time.UTC)
				}
				dd := d
				if dd > dim(y+n, m) {
					dd = dim(y+n, m)
				}
				return goDate(y+n, m, dd)
			})
	case "datediff":
		q := fmt.Sprintf("SELECT DATEDIFF('%s', '%s')", ymd(in[0], in[1], in[2]), ymd(in[3], in[4], in[5]))
		dd := r.query(q)
		r.rec(1, q, in[:6], dd, false)
		wd := (goDate(in[0], in[1], in[2]).Unix() - goDate(in[3], in[4], in[5]).Unix()) / 86400
		if !dd.isN || dd.n != wd {
			fail(ddSig(wd), fmt.Sprintf("%s = %d%s, expected %d", q, dd.n, dd.err, wd))
		}
		q2 := fmt.Sprintf("SELECT DATEDIFF('%s', '%s')", ymd(in[3], in[4], in[5]), ymd(in[0], in[1], in[2]))
		d2 := r.query(q2)
		r.rec(1, q2, []int64{in[3], in[4], in[5], in[0], in[1], in[2]}, d2, false)
		if dd.isN && (!d2.isN || d2.n != -dd.n) {
			fail("datediff/not-antisymmetric", fmt.Sprintf("%s = %d but reversed = %d", q, dd.n, d2.n))
		}
	case "parse":
		y, m, d, tod, us := in[0], in[1], in[2], in[3], in[4]
		fm := cs.Fmt
		rr := lib.NewRNG(uint64(in[6]))
		txt := ""
		if in[7] == 1 {
			al := "0123456789 :-/.APMapm%xT"
			n := rr.Intn(14)
			for i := 0; i < n; i++ {
				txt += string(al[rr.Intn(len(al))])
			}
		} else {
			lit := fmt.Sprintf("%s %s.%06d", ymd(y, m, d), hms(tod), us)
			x := r.query(fmt.Sprintf("SELECT DATE_FORMAT('%s', '%s')", lit, strings.TrimSuffix(fm, "%")))
			txt = x.s
			b := []byte(txt)
			al := "0123456789 :-/.APMapm%xTstndrhJuly"
			for i := int64(0); i < in[5]; i++ {
				switch rr.Intn(3) {
				case 0:
					if len(b) > 0 {
						p := rr.Intn(len(b))
						b = append(b[:p], b[p+1:]...)
					}
				case 1:
					if len(b) > 0 {
						b[rr.Intn(len(b))] = al[rr.Intn(len(al))]
					}
				default:
					p := rr.Intn(len(b) + 1)
					b = append(b[:p], append([]byte{al[rr.Intn(len(al))]}, b[p:]...)...)
				}
			}
			txt = string(b)
		}
		q := fmt.Sprintf("SELECT STR_TO_DATE('%s', '%s')", txt, fm)
		x := r.query(q)
		args := []int64{int64(len(txt))}
		for _, ch := range []byte(txt) {
			args = append(args, int64(ch))
		}
		for _, ch := range []byte(fm) {
			args = append(args, int64(ch))
		}
		cl := Call{Fn: 12, SQL: q, Args: args, Null: x.null, Err: x.err, Out: []int64{-1}}
		if x.isT {
			t := x.t
			cl.Out = []int64{int64(t.Year()), int64(t.Month()), int64(t.Day()), (int64(t.Hour())*3600+int64(t.Minute())*60+int64(t.Second()))*1000000 + int64(t.Nanosecond()/1000)}
		}
		r.cs.Calls = append(r.cs.Calls, cl)
		if strings.HasPrefix(x.err, "panic") {
			fail("str_to_date/panic", q+": "+x.err)
		}
		nontrivial = x.isT
	case "datediffdt":
		lit := func(y, m, d, t int64) string {
			if t < 0 {
				return ymd(y, m, d)
			}
			return ymd(y, m, d) + " " + hms(t)
		}
		q := fmt.Sprintf("SELECT DATEDIFF('%s', '%s')", lit(in[0], in[1], in[2], in[3]), lit(in[4], in[5], in[6], in[7]))
		dd := r.query(q)
		t1, t2 := in[3], in[7]
		if t1 < 0 {
			t1 = 0
		}
		if t2 < 0 {
			t2 = 0
		}
		r.rec(10, q, []int64{in[0], in[1], in[2], t1, in[4], in[5], in[6], t2}, dd, false)
		// the day numbers of the DATE parts only (midnight Unix times are exact multiples of 86400)
		wd := goDate(in[0], in[1], in[2]).Unix()/86400 - goDate(in[4], in[5], in[6]).Unix()/86400
		if !dd.isN || dd.n != wd {
			sig := ddSig(wd)
			if sig == "datediff/not-day-difference" && (in[3] > 0 || in[7] > 0) {
				sig = "datediff/time-part-changes-result"
			}
			fail(sig, fmt.Sprintf("%s = %d%s, expected %d (difference of the date parts)", q, dd.n, dd.err, wd))
		}
	case "addsubday":
		y, m, d, n := in[0], in[1], in[2], in[3]
		u := []struct {
			name string
			us   int64
		}{{"MICROSECOND", 1}, {"SECOND", 1000000}, {"MINUTE", 60000000}, {"HOUR", 3600000000}}[in[4]]
		shape := in[5]
		tod := int64(0)
		arg := "'" + ymd(y, m, d) + "'"
		switch shape {
		case 1:
			arg = "DATE('" + ymd(y, m, d) + "')"
		case 2:
			tod = in[6]
			arg = "'" + ymd(y, m, d) + " " + hms(tod) + "'"
		}
		start := goDate(y, m, d).Add(time.Duration(tod) * time.Second)
		want := start.Add(time.Duration(n*u.us) * time.Microsecond)
		moment := func(x res) []int64 {
			t := x.t
			return []int64{int64(t.Year()), int64(t.Month()), int64(t.Day()), (int64(t.Hour())*3600+int64(t.Minute())*60+int64(t.Second()))*1000000 + int64(t.Nanosecond()/1000)}
		}
		if !inRange(want) || want.Year() < 2 || want.Year() > 9998 { // stay inside the supported range
			nontrivial = false
			break
		}
		q := fmt.Sprintf("SELECT DATE_ADD(%s, INTERVAL %d %s)", arg, n, u.name)
		a := r.query(q)
		ca := Call{Fn: 11, SQL: q, Args: []int64{y, m, d, tod * 1000000, n * u.us}, Null: a.null, Err: a.err, Out: []int64{-1}}
		if a.isT {
			ca.Out = moment(a)
		}
		r.cs.Calls = append(r.cs.Calls, ca)
		if !a.isT || !a.t.Equal(want) {
			fail("subday-add/wrong-value", fmt.Sprintf("%s = %s%s, expected %s", q, a.s, a.err, want.Format("2006-01-02 15:04:05.000000")))
			break
		}
		q2 := fmt.Sprintf("SELECT DATE_SUB(DATE_ADD(%s, INTERVAL %d %s), INTERVAL %d %s)", arg, n, u.name, n, u.name)
		b := r.query(q2)
		if !b.isT || !b.t.Equal(start) {
			fail("subday-add-sub/not-inverse", fmt.Sprintf("%s = %s%s, expected %s", q2, b.s, b.err, start.Format("2006-01-02 15:04:05.000000")))
		}
		// the same in two steps, feeding the printed intermediate value back as a literal
		lit := want.Format("2006-01-02 15:04:05.000000")
		q3 := fmt.Sprintf("SELECT DATE_SUB('%s', INTERVAL %d %s)", lit, n, u.name)
		c3 := r.query(q3)
		mw := []int64{int64(want.Year()), int64(want.Month()), int64(want.Day()), (int64(want.Hour())*3600+int64(want.Minute())*60+int64(want.Second()))*1000000 + int64(want.Nanosecond()/1000)}
		cb := Call{Fn: 11, SQL: q3, Args: append(mw, -n*u.us), Null: c3.null, Err: c3.err, Out: []int64{-1}}
		if c3.isT {
			cb.Out = moment(c3)
		}
		r.cs.Calls = append(r.cs.Calls, cb)
		if !c3.isT || !c3.t.Equal(start) {
			fail("subday-add-sub/not-inverse", fmt.Sprintf("%s = %s%s, expected %s", q3, c3.s, c3.err, start.Format("2006-01-02 15:04:05.000000")))
		}
	case "tsdiff":
		a := fmt.Sprintf("%s %s", ymd(in[0], in[1], in[2]), hms(in[3]))
		b := fmt.Sprintf("%s %s", ymd(in[4], in[5], in[6]), hms(in[7]))
		q := fmt.Sprintf("SELECT TIMESTAMPDIFF(SECOND, '%s', '%s')", a, b)
		x := r.query(q)
		r.rec(7, q, in[:8], x, false)
		ws := goDate(in[4], in[5], in[6]).Unix() + in[7] - goDate(in[0], in[1], in[2]).Unix() - in[3]
		if !x.isN || x.n != ws {
			fail("timestampdiff/second-not-difference-of-second-counts", fmt.Sprintf("%s = %d%s, expected %d", q, x.n, x.err, ws))
		}
		{ // calendar units: full months between the two moments, truncated toward zero per unit
			mu := []struct {
				name string
				per  int64
			}{{"MONTH", 1}, {"QUARTER", 3}, {"YEAR", 12}}[in[8]%3]
			qm := fmt.Sprintf("SELECT TIMESTAMPDIFF(%s, '%s', '%s')", mu.name, a, b)
			xm := r.query(qm)
			r.rec(14, qm, append([]int64{mu.per}, in[:8]...), xm, false)
			// reference: count whole months by stepping (independent of monthsDiff's formula)
			t1 := goDate(in[0], in[1], in[2]).Add(time.Duration(in[3]) * time.Second)
			t2 := goDate(in[4], in[5], in[6]).Add(time.Duration(in[7]) * time.Second)
			sign := int64(1)
			if t1.After(t2) {
				t1, t2, sign = t2, t1, -1
			}
			months := int64(t2.Year()-t1.Year())*12 + int64(t2.Month()) - int64(t1.Month())
			d1 := t1.Day()*86400 + t1.Hour()*3600 + t1.Minute()*60 + t1.Second()
			d2 := t2.Day()*86400 + t2.Hour()*3600 + t2.Minute()*60 + t2.Second()
			if d2 < d1 {
				months--
			}
			want := sign * months / mu.per
			if !xm.isN || xm.n != want {
				sig := "timestampdiff/calendar-unit-wrong"
				// root cause from the input's shape: equal day of the month and the sign of the time-of-day difference
				// changes when the minutes are left out
				full := (in[7] - in[3]) * sign
				noMin := ((in[7]/3600-in[3]/3600)*3600 + (in[7]%60 - in[3]%60)) * sign
				if in[2] == in[6] && ((full < 0) != (noMin < 0)) {
					sig = "timestampdiff/month-tie-break-ignores-minutes"
				}
				fail(sig, fmt.Sprintf("%s = %d%s, expected %d", qm, xm.n, xm.err, want))
			}
		}
		u := units[in[8]]
		q2 := fmt.Sprintf("SELECT TIMESTAMPDIFF(%s, '%s', '%s')", u.name, a, b)
		x2 := r.query(q2)
		r.rec(8, q2, append([]int64{u.secs}, in[:8]...), x2, false)
		if !x2.isN || x2.n != ws/u.secs {
			fail("timestampdiff/unit-not-truncated-quotient", fmt.Sprintf("%s = %d%s, expected %d", q2, x2.n, x2.err, ws/u.secs))
		}
	case "strdate":
		y, m, d := in[0], in[1], in[2]
		fn, fm, txt := 5, "%Y-%m-%d", ymd(y, m, d)
		if in[3] == 1 {
			fn, fm, txt = 6, "%Y-%c-%e", fmt.Sprintf("%04d-%d-%d", y, m, d)
		}
		q := fmt.Sprintf("SELECT STR_TO_DATE('%s', '%s')", txt, fm)
		x := r.query(q)
		r.rec(fn, q, []int64{y, m, d}, x, true)
		valid := m >= 1 && m <= 12 && d >= 1 && d <= dim(y, m)
		switch {
		case valid && !sameDay(x, goDate(y, m, d)):
			fail("str_to_date/wrong", fmt.Sprintf("%s = %s%s", q, x.s, x.err))
		case !valid && x.isT && m >= 1 && m <= 12 && d >= 1 && d <= 31:
			fail("str_to_date/nonexistent-day-shifted", fmt.Sprintf("%s = %s instead of NULL: the non-existent date is shifted into the next month", q, x.t.Format("2006-01-02")))
		case !valid && x.isT && x.t.Year() > 0:
			fail("str_to_date/out-of-range-field-shifted", fmt.Sprintf("%s = %s instead of NULL", q, x.t.Format("2006-01-02")))
		}
		nontrivial = valid || x.isT
	case "castdate":
		y, m, d := in[0], in[1], in[2]
		q := fmt.Sprintf("SELECT CAST('%s' AS DATE)", ymd(y, m, d))
		x := r.query(q)
		r.rec(13, q, []int64{y, m, d}, x, true)
		valid := d <= dim(y, m)
		if valid && !sameDay(x, goDate(y, m, d)) {
			fail("cast-date/wrong", fmt.Sprintf("%s = %s%s", q, x.s, x.err))
		}
		if !valid && x.isT {
			fail("cast-date/nonexistent-day-misparsed", fmt.Sprintf("%s = %s instead of NULL or an error", q, x.t.Format("2006-01-02")))
		}
		q2 := fmt.Sprintf("SELECT DATE('%s')", ymd(y, m, d))
		x2 := r.query(q2)
		if !valid && x2.isT {
			fail("date-fn/nonexistent-day-accepted", fmt.Sprintf("%s = %s", q2, x2.t.Format("2006-01-02")))
		}
		if valid && !sameDay(x2, goDate(y, m, d)) {
			fail("date-fn/wrong", fmt.Sprintf("%s = %s%s", q2, x2.s, x2.err))
		}
	case "format":
		y, m, d, tod, us := in[0], in[1], in[2], in[3], in[4]
		fm := cs.Fmt
		if !strings.Contains(fm, "%f") {
			us = 0
		}
		lit := fmt.Sprintf("%s %s.%06d", ymd(y, m, d), hms(tod), us)
		q := fmt.Sprintf("SELECT DATE_FORMAT('%s', '%s')", lit, fm)
		x := r.query(q)
		if x.err != "" || x.null {
			fail("date_format/failed", fmt.Sprintf("%s failed: %s", q, x.err))
			break
		}
		if modelledFormat(fm) { // record the rendering for the Coq renderer model
			args := []int64{y, m, d, tod / 3600, tod / 60 % 60, tod % 60, us}
			for _, ch := range []byte(fm) {
				args = append(args, int64(ch))
			}
			var outb []int64
			for _, ch := range []byte(x.s) {
				outb = append(outb, int64(ch))
			}
			r.cs.Calls = append(r.cs.Calls, Call{Fn: 9, SQL: q, Args: args, Out: outb})
		}
		if strings.Contains(fm, "%y") {
			qy := fmt.Sprintf("SELECT DATE_FORMAT('%s', '%%y')", lit)
			xy := r.query(qy)
			if xy.s != fmt.Sprintf("%02d", y%100) && !xy.isN {
				fail("date_format/two-digit-year-unpadded", fmt.Sprintf("%s = '%s', expected '%02d'", qy, xy.s, y%100))
			}
		}
		q2 := fmt.Sprintf("SELECT STR_TO_DATE('%s', '%s')", x.s, fm)
		b := r.query(q2)
		want := time.Date(int(y), time.Month(m), int(d), 0, 0, 0, 0, time.UTC).Add(time.Duration(tod)*time.Second + time.Duration(us)*time.Microsecond)
		if !b.isT || !b.t.Equal(want) {
			// root cause computed from the shape of the input (format + value), in a fixed order
			sig := "format-parse/not-inverse"
			pm := tod >= 12*3600 || tod < 3600
			switch {
			case strings.Contains(fm, "%y") && y%100 < 10:
				sig = "date_format/two-digit-year-unpadded"
			case (strings.Contains(fm, "%p") || strings.Contains(fm, "%r")) && pm:
				sig = "str_to_date/am-pm-ignored"
			case greedyAdjacent(fm):
				sig = "str_to_date/adjacent-numeric-fields-greedy"
			}
			got := b.err + b.s
			if b.isT {
				got = b.t.Format("2006-01-02 15:04:05.000000")
			}
			if b.null {
				got = "NULL"
			}
			fail(sig, fmt.Sprintf("STR_TO_DATE(DATE_FORMAT('%s','%s') = '%s', same format) = %s", lit, fm, x.s, got))
		}
	default:
		panic("unknown family " + cs.Fam)
	}

	terms := make([]string, len(cs.Calls))
	for i, cl := range cs.Calls {
		out := "None"
		if !cl.Null {
			out = "(Some " + lib.CoqListOf(cl.Out, lib.CoqZ) + ")"
		}
		terms[i] = lib.CoqTuple(fmt.Sprintf("%d%%N", cl.Fn), lib.CoqListOf(cl.Args, lib.CoqZ), out)
	}
	key := ""
	if nontrivial {
		key = fmt.Sprintf("%s|%v|%s", cs.Fam, cs.In, cs.Fmt)
	}
	c.Count("family_" + cs.Fam)
	id := c.Case(lib.CoqList(terms), cs, key)
	c.PredChecked()
	for _, f := range fails {
		c.PredFail(id, f.sig, f.what, cs)
	}
}

func main() {
	lib.Main("C31", func(c *lib.Ctx) {
		c.Header = "From Coq Require Import List NArith ZArith.\nImport ListNotations.\nFrom GMS Require Import Corr.C31.\nOpen Scope N_scope."
		c.CaseType = "C31.case"
		c.MismatchFn = "C31.mismatches"
		c.SetRule("dates in years 1..9990 (leap years, century rules, month ends over-represented); DATE_ADD/DATE_SUB with DAY/MONTH/YEAR " +
			"intervals of both signs, sub-day units (MICROSECOND/SECOND/MINUTE/HOUR) on date-only strings, DATE()-typed values and datetimes, " +
			"DATEDIFF pairs incl. datetimes with time parts before 1970 and across the epoch, TIMESTAMPDIFF in SECOND/MINUTE/HOUR/DAY/WEEK with times of day, STR_TO_DATE on " +
			"field-wise plausible but partly non-existent dates, CAST/DATE of non-existent dates, DATE_FORMAT/STR_TO_DATE round trips over " +
			"formats assembled from the specifier set. Non-trivial = inside the identity's domain; distinct = distinct inputs.")
		e := eng.New("db")
		if c.ReplayFile != "" {
			var cs caseT
			lib.LoadReplay(c.ReplayFile, &cs)
			run(c, e, cs)
			return
		}
		corpus := []caseT{
			{Fam: "strdate", In: []int64{2023, 2, 30, 0}},
			{Fam: "strdate", In: []int64{2023, 1, 45, 1}},
			{Fam: "castdate", In: []int64{2023, 2, 30}},
			{Fam: "format", Fmt: "%Y-%m-%d %r", In: []int64{2024, 1, 2, 54245, 0}},
			{Fam: "format", Fmt: "%Y-%m-%d %H:%i:%s.%f", In: []int64{2024, 2, 29, 86399, 123456}},
			{Fam: "format", Fmt: "%Y%m%d%H%i%s", In: []int64{2032, 2, 28, 86329, 0}},
			{Fam: "datediff", In: []int64{2337, 10, 4, 1964, 2, 21}},
			{Fam: "format", Fmt: "%y%m/%d at %H.%i:%S", In: []int64{2002, 8, 30, 76556, 0}},
			{Fam: "datediffdt", In: []int64{1969, 12, 31, 43200, 1969, 12, 30, -1}},
			{Fam: "datediffdt", In: []int64{1970, 1, 1, 43200, 1969, 12, 31, 46800}},
			{Fam: "datediffdt", In: []int64{1969, 12, 30, -1, 1969, 12, 31, 43200}},
			{Fam: "addsubday", In: []int64{2024, 1, 15, 5, 0, 0, 0}},
			{Fam: "addsubday", In: []int64{2024, 1, 15, 5, 0, 1, 0}},
			{Fam: "addsubday", In: []int64{1970, 1, 1, -1, 1, 0, 0}},
			{Fam: "addsubday", In: []int64{2024, 2, 29, 25, 3, 1, 0}},
			{Fam: "tsdiff", In: []int64{2024, 1, 31, 0, 2024, 2, 29, 0, 0}},
			{Fam: "tsdiff", In: []int64{1950, 4, 29, 44567, 1950, 4, 29, 45495, 0}},
			{Fam: "tsdiff", In: []int64{2020, 2, 29, 0, 2024, 2, 28, 0, 2}},
			{Fam: "parse", Fmt: "%W %D %M %Y", In: []int64{2024, 1, 2, 0, 0, 0, 1, 0}},
			{Fam: "parse", Fmt: "%a %b %e %Y %j", In: []int64{2024, 3, 9, 0, 0, 0, 1, 0}},
			{Fam: "addmonths", In: []int64{2024, 1, 31, 1}},
			{Fam: "addmonths", In: []int64{2024, 1, 15, -1}},
			{Fam: "addyears", In: []int64{2024, 2, 29, 1}},
			{Fam: "adddays", In: []int64{2000, 2, 28, 2}},
			{Fam: "adddays", In: []int64{1900, 2, 28, 1}},
			{Fam: "datediff", In: []int64{2024, 3, 1, 2024, 2, 1}},
			{Fam: "tsdiff", In: []int64{2024, 1, 1, 43200, 2024, 1, 2, 43199, 2}},
		}
		for _, cs := range corpus {
			run(c, e, cs)
		}
		for i := len(corpus); i < c.N; i++ {
			run(c, e, gen(c.R.Fork()))
		}
	})
}
