// Driver for C50 (SELECT ... INTO OUTFILE / LOAD DATA INFILE round trip).  Every case runs the real engine:
// a source table is filled, exported with generated FIELDS/LINES options into a scratch directory, and the file is
// loaded back with the same options into (a) an empty copy with the same column types and (b) an all-TEXT copy.
// The file bytes and both loaded contents go to the Coq model (writer and reader, byte for byte); the property
// predicate (reloaded rows = original rows) is evaluated on the implementation alone.  A second stream feeds
// hand-made (often malformed) files to LOAD DATA only.
package main

import (
	"fmt"
	"time"

	"github.com/cockroachdb/apd/v3"
	"os"
	"path/filepath"
	"strings"

	"github.com/dolthub/go-mysql-server/sql"

	"verifharness/lib"
	"verifharness/lib/eng"
)

// ---------- case description (replayable) ----------

type optT struct {
	// nil pointer = clause not written in the statement
	FT, Enc, Esc, LS, LT *string
	Opt                  bool // OPTIONALLY
}

type valT struct {
	Null bool   `json:"null,omitempty"`
	Int  *int64 `json:"int,omitempty"`
	Str  *string `json:"str,omitempty"`
	Dec  *int64  `json:"dec_cents,omitempty"` // DECIMAL(12,2) value in hundredths
	Date []int   `json:"date,omitempty"`      // y m d  or  y m d hh mi ss
	Blob *string `json:"blob,omitempty"`
}

type caseT struct {
	Kind string   `json:"kind"` // "roundtrip" | "readonly"
	Opt  optT     `json:"opt"`
	Cols []int    `json:"cols,omitempty"`   // roundtripx: exported / loaded column list (indices), nil = all
	Ign  int      `json:"ignore,omitempty"` // roundtripx: IGNORE n LINES
	Tys  []string `json:"tys"` // "int" | "text" | "dec" | "date" | "datetime" | "blob"
	Rows [][]valT `json:"rows,omitempty"`
	File *string  `json:"file,omitempty"` // readonly: the bytes to load
	N    int      `json:"ncols,omitempty"`
	// observations (informative in replay files)
	ObsFile   string   `json:"obs_file,omitempty"`
	ObsTyped  []string `json:"obs_typed,omitempty"`
	ObsText   []string `json:"obs_text,omitempty"`
	ObsErr    string   `json:"obs_err,omitempty"`
	Statement string   `json:"statement,omitempty"`
}

// effective options after the planbuilder defaults (plan/into.go, planbuilder/dml.go buildInto, load.go)
type eff struct {
	ft, enc, esc, ls, lt string
	opt                  bool
}

func (o optT) eff() eff {
	e := eff{ft: "\t", enc: "", esc: "\\", ls: "", lt: "\n", opt: false}
	if o.FT != nil && len(*o.FT) != 0 {
		e.ft = *o.FT
	}
	if o.Enc != nil {
		e.enc = *o.Enc
		e.opt = o.Opt
	}
	if o.Esc != nil {
		e.esc = *o.Esc
	}
	if o.LS != nil {
		e.ls = *o.LS
	}
	if o.LT != nil {
		e.lt = *o.LT
	}
	return e
}

func sqlQuote(s string) string {
	var sb strings.Builder
	sb.WriteByte('\'')
	for i := 0; i < len(s); i++ {
		switch c := s[i]; c {
		case '\\':
			sb.WriteString(`\\`)
		case '\'':
			sb.WriteString(`\'`)
		case '\n':
			sb.WriteString(`\n`)
		case '\r':
			sb.WriteString(`\r`)
		case '\t':
			sb.WriteString(`\t`)
		case 0:
			sb.WriteString(`\0`)
		case 26:
			sb.WriteString(`\Z`)
		default:
			sb.WriteByte(c)
		}
	}
	sb.WriteByte('\'')
	return sb.String()
}

func (o optT) clause() string {
	var f, l []string
	if o.FT != nil {
		f = append(f, "TERMINATED BY "+sqlQuote(*o.FT))
	}
	if o.Enc != nil {
		p := "ENCLOSED BY "
		if o.Opt {
			p = "OPTIONALLY ENCLOSED BY "
		}
		f = append(f, p+sqlQuote(*o.Enc))
	}
	if o.Esc != nil {
		f = append(f, "ESCAPED BY "+sqlQuote(*o.Esc))
	}
	if o.LS != nil {
		l = append(l, "STARTING BY "+sqlQuote(*o.LS))
	}
	if o.LT != nil {
		l = append(l, "TERMINATED BY "+sqlQuote(*o.LT))
	}
	s := ""
	if len(f) > 0 {
		s += " FIELDS " + strings.Join(f, " ")
	}
	if len(l) > 0 {
		s += " LINES " + strings.Join(l, " ")
	}
	return s
}

// ---------- Coq printers ----------

func coqOpts(e eff) string {
	return fmt.Sprintf("(mkOpts %s %s %s %s %s %s)", lib.CoqStr(e.ft), lib.CoqStr(e.enc), lib.CoqBool(e.opt),
		lib.CoqStr(e.esc), lib.CoqStr(e.ls), lib.CoqStr(e.lt))
}

func coqTys(tys []string) string {
	return lib.CoqListOf(tys, func(t string) string {
		if t == "int" {
			return "TInt"
		}
		return "TText"
	})
}

func coqVal(v interface{}) string {
	switch x := v.(type) {
	case nil:
		return "VNull"
	case int64:
		return "(VInt " + lib.CoqZ(x) + ")"
	case string:
		return "(VStr " + lib.CoqStr(x) + ")"
	case []byte:
		return "(VStr " + lib.CoqBytes(x) + ")"
	default:
		// not representable: forces a visible mismatch
		return fmt.Sprintf("(VStr [999999] (* %T *))", v)
	}
}

func coqRows(rs []sql.Row) string {
	return lib.CoqListOf(rs, func(r sql.Row) string {
		return lib.CoqListOf([]interface{}(r), coqVal)
	})
}

// ---------- engine state ----------

type world struct {
	e    *eng.E
	s    *eng.S
	dir  string
	have map[string]bool
	seq  int
}

func sigOf(tys []string) string {
	var sb strings.Builder
	for _, t := range tys {
		if t == "datetime" {
			sb.WriteByte('m')
			continue
		}
		if t == "dec" {
			sb.WriteByte('c')
			continue
		}
		sb.WriteByte(t[0])
	}
	return sb.String()
}

func (w *world) ensure(name string, tys []string) {
	if w.have[name] {
		w.s.MustExec("DELETE FROM " + name)
		return
	}
	cols := make([]string, len(tys))
	for i, t := range tys {
		ty := "TEXT"
		switch t {
		case "int":
			ty = "BIGINT"
		case "dec":
			ty = "DECIMAL(12,2)"
		case "date":
			ty = "DATE"
		case "datetime":
			ty = "DATETIME"
		case "blob":
			ty = "BLOB"
		}
		cols[i] = fmt.Sprintf("c%d %s", i, ty)
	}
	w.s.MustExec(fmt.Sprintf("CREATE TABLE %s (%s)", name, strings.Join(cols, ", ")))
	w.have[name] = true
}

func allText(n int) []string {
	t := make([]string, n)
	for i := range t {
		t[i] = "text"
	}
	return t
}

// ---------- classification of a failed round trip (narrow signatures, one per cause) ----------

func classify(e eff, tys []string, rows []sql.Row) string {
	var strs []string
	hasNull := false
	for _, r := range rows {
		for _, v := range r {
			switch x := v.(type) {
			case nil:
				hasNull = true
			case string:
				strs = append(strs, x)
			}
		}
	}
	any := func(p func(string) bool) bool {
		for _, s := range strs {
			if p(s) {
				return true
			}
		}
		return false
	}
	switch {
	case any(func(s string) bool { return strings.Contains(s, e.lt) }):
		return "line-terminator-in-value"
	case any(func(s string) bool { return s == "NULL" }):
		return "string-NULL-loaded-as-null"
	case e.esc != "" && e.esc != e.enc && any(func(s string) bool { return strings.Contains(s, e.esc) }):
		return "escape-char-in-value"
	case e.enc != "" && any(func(s string) bool { return strings.Contains(s, e.enc) }):
		return "enclosure-char-in-value"
	case e.enc == "" && any(func(s string) bool { return strings.Contains(s, e.ft) }):
		return "field-terminator-in-unenclosed-value"
	case e.enc != "" && e.enc == e.esc && hasNull:
		return "null-marker-when-enclosure-equals-escape"
	case any(func(s string) bool {
		return (len(e.lt) > 1 && strings.Contains(s, e.lt[:1])) || (e.enc == "" && len(e.ft) > 1 && strings.Contains(s, e.ft[:1]))
	}):
		return "terminator-first-byte-in-value"
	}
	return "roundtrip-mismatch"
}

// ---------- running one case ----------

func toRows(vs [][]valT) []sql.Row {
	out := make([]sql.Row, len(vs))
	for i, r := range vs {
		row := make(sql.Row, len(r))
		for j, v := range r {
			switch {
			case v.Int != nil:
				row[j] = *v.Int
			case v.Str != nil:
				row[j] = *v.Str
			default:
				row[j] = nil
			}
		}
		out[i] = row
	}
	return out
}

func litOf(v interface{}) string {
	switch x := v.(type) {
	case nil:
		return "NULL"
	case int64:
		return fmt.Sprintf("%d", x)
	case string:
		return sqlQuote(x)
	}
	return "NULL"
}

func shape(e eff) string {
	enc := "noenc"
	if e.enc != "" {
		enc = "enc"
		if e.opt {
			enc = "optenc"
		}
		if e.enc == e.esc {
			enc += "=esc"
		}
	}
	esc := "esc"
	if e.esc == "" {
		esc = "noesc"
	}
	ls := "nols"
	if e.ls != "" {
		ls = "ls"
	}
	return fmt.Sprintf("ft%d/%s/%s/%s/lt%d", len(e.ft), enc, esc, ls, len(e.lt))
}

func (w *world) run(c *lib.Ctx, cs caseT) {
	e := cs.Opt.eff()
	w.seq++
	file := filepath.Join(w.dir, fmt.Sprintf("f%d.txt", w.seq))
	defer os.Remove(file)
	clause := cs.Opt.clause()

	if cs.Kind == "roundtripx" {
		w.runX(c, cs)
		return
	}
	if cs.Kind == "readonly" {
		n := cs.N
		dst := fmt.Sprintf("x_%d", n)
		w.ensure(dst, allText(n))
		if err := os.WriteFile(file, []byte(*cs.File), 0o644); err != nil {
			panic(err)
		}
		r := w.s.Query(fmt.Sprintf("LOAD DATA INFILE %s INTO TABLE %s%s", sqlQuote(file), dst, clause))
		if r.Err != nil {
			cs.ObsErr = r.Err.Error()
			id := c.CaseNoModel(cs, "")
			c.PredChecked()
			c.PredFail(id, "load-into-text-table-failed", "LOAD DATA into an all-TEXT table failed: "+r.Err.Error(), cs)
			return
		}
		got := w.s.Query("SELECT * FROM " + dst)
		cs.ObsText = eng.Rows(got.Rows)
		term := fmt.Sprintf("(ReadOnly %s %d%%nat %s %s)", coqOpts(e), n, lib.CoqStr(*cs.File), coqRows(got.Rows))
		c.Count("readonly")
		c.Case(term, cs, fmt.Sprintf("ro|%q|%q", clause, *cs.File))
		return
	}

	// round trip
	sig := sigOf(cs.Tys)
	src, dst, txt := "s_"+sig, "d_"+sig, fmt.Sprintf("x_%d", len(cs.Tys))
	w.ensure(src, cs.Tys)
	w.ensure(dst, cs.Tys)
	w.ensure(txt, allText(len(cs.Tys)))
	want := toRows(cs.Rows)
	for _, r := range want {
		lits := make([]string, len(r))
		for i, v := range r {
			lits[i] = litOf(v)
		}
		w.s.MustExec(fmt.Sprintf("INSERT INTO %s VALUES (%s)", src, strings.Join(lits, ",")))
	}
	orig := w.s.Query("SELECT * FROM " + src)
	if orig.Err != nil || strings.Join(eng.Rows(orig.Rows), ";") != strings.Join(eng.Rows(want), ";") {
		panic(fmt.Sprintf("driver: source table does not hold the generated rows: %v %q vs %q", orig.Err, eng.Rows(orig.Rows), eng.Rows(want)))
	}
	stmt := fmt.Sprintf("SELECT * FROM %s INTO OUTFILE %s%s", src, sqlQuote(file), clause)
	cs.Statement = stmt
	out := w.s.Query(stmt)
	if out.Err != nil {
		cs.ObsErr = out.Err.Error()
		id := c.CaseNoModel(cs, "")
		c.PredChecked()
		c.PredFail(id, "outfile-statement-failed", "INTO OUTFILE failed: "+out.Err.Error(), cs)
		return
	}
	fb, err := os.ReadFile(file)
	if err != nil {
		panic(err)
	}
	cs.ObsFile = string(fb)
	ld := w.s.Query(fmt.Sprintf("LOAD DATA INFILE %s INTO TABLE %s%s", sqlQuote(file), dst, clause))
	var typed []sql.Row
	typedOK := ld.Err == nil
	if typedOK {
		typed = w.s.Query("SELECT * FROM " + dst).Rows
		cs.ObsTyped = eng.Rows(typed)
	} else {
		cs.ObsErr = ld.Err.Error()
	}
	lt := w.s.Query(fmt.Sprintf("LOAD DATA INFILE %s INTO TABLE %s%s", sqlQuote(file), txt, clause))
	if lt.Err != nil {
		cs.ObsErr = lt.Err.Error()
		id := c.CaseNoModel(cs, "")
		c.PredChecked()
		c.PredFail(id, "load-into-text-table-failed", "LOAD DATA into an all-TEXT table failed: "+lt.Err.Error(), cs)
		return
	}
	text := w.s.Query("SELECT * FROM " + txt).Rows
	cs.ObsText = eng.Rows(text)

	typedTerm := "None"
	if typedOK {
		typedTerm = "(Some " + coqRows(typed) + ")"
	}
	term := fmt.Sprintf("(RoundTrip %s %s %s %s %s %s)", coqOpts(e), coqTys(cs.Tys), coqRows(want), lib.CoqBytes(fb), typedTerm, coqRows(text))
	key := ""
	if len(want) > 0 {
		key = fmt.Sprintf("rt|%q|%s|%q", clause, sig, eng.Rows(want))
	}
	id := c.Case(term, cs, key)
	c.Count("roundtrip")
	c.Count("opts:" + shape(e))
	c.Count(fmt.Sprintf("rows_%d", len(want)))
	c.Count(fmt.Sprintf("cols_%d", len(cs.Tys)))

	// property predicate on the implementation alone: the reloaded table equals the exported one
	c.PredChecked()
	same := typedOK && strings.Join(eng.Rows(typed), ";") == strings.Join(eng.Rows(want), ";") && len(typed) == len(want)
	if same {
		c.Count("roundtrip_identical")
		return
	}
	sg := classify(e, cs.Tys, want)
	what := fmt.Sprintf("%s then LOAD DATA with the same options: exported rows %q, file %q, reloaded ", stmt, eng.Rows(want), fb)
	if typedOK {
		what += fmt.Sprintf("rows %q", eng.Rows(typed))
	} else {
		what += "fails: " + ld.Err.Error()
	}
	c.PredFail(id, sg, what, cs)
}

// ---------- extended round trip: other column types, IGNORE n LINES, column lists ----------

func hexLit(b string) string { return fmt.Sprintf("X'%x'", b) }

func litX(v valT) string {
	switch {
	case v.Int != nil:
		return fmt.Sprintf("%d", *v.Int)
	case v.Str != nil:
		return sqlQuote(*v.Str)
	case v.Dec != nil:
		c := *v.Dec
		sign := ""
		if c < 0 {
			sign, c = "-", -c
		}
		return fmt.Sprintf("%s%d.%02d", sign, c/100, c%100)
	case len(v.Date) == 3:
		return fmt.Sprintf("'%04d-%02d-%02d'", v.Date[0], v.Date[1], v.Date[2])
	case len(v.Date) == 6:
		return fmt.Sprintf("'%04d-%02d-%02d %02d:%02d:%02d'", v.Date[0], v.Date[1], v.Date[2], v.Date[3], v.Date[4], v.Date[5])
	case v.Blob != nil:
		return hexLit(*v.Blob)
	}
	return "NULL"
}

// coqX prints an engine value as an xval; ty is the column type name of the driver.
func coqX(v interface{}, ty string) string {
	switch x := v.(type) {
	case nil:
		return "XNull"
	case int64:
		return "(XInt " + lib.CoqZ(x) + ")"
	case string:
		return "(XStr " + lib.CoqStr(x) + ")"
	case []byte:
		return "(XBlob " + lib.CoqBytes(x) + ")"
	case *apd.Decimal:
		co := x.Coeff.String()
		if x.Negative && co != "0" {
			co = "-" + co
		}
		if x.Exponent > 0 {
			return fmt.Sprintf("(XStr [999998] (* positive exponent %d *))", x.Exponent)
		}
		return fmt.Sprintf("(XDec %s %d%%nat)", lib.CoqZStr(co), -x.Exponent)
	case time.Time:
		if ty == "date" {
			return fmt.Sprintf("(XDate %d %d %d)", x.Year(), int(x.Month()), x.Day())
		}
		return fmt.Sprintf("(XDateTime %d %d %d %d %d %d)", x.Year(), int(x.Month()), x.Day(), x.Hour(), x.Minute(), x.Second())
	}
	return fmt.Sprintf("(XStr [999999] (* %T *))", v)
}

func coqTyX(t string) string {
	switch t {
	case "int":
		return "TInt"
	case "text":
		return "TText"
	case "blob":
		return "(TOther true)"
	}
	return "(TOther false)"
}

func (w *world) runX(c *lib.Ctx, cs caseT) {
	e := cs.Opt.eff()
	w.seq++
	file := filepath.Join(w.dir, fmt.Sprintf("f%d.txt", w.seq))
	defer os.Remove(file)
	clause := cs.Opt.clause()
	cols := cs.Cols
	listed := cols != nil
	if !listed {
		for i := range cs.Tys {
			cols = append(cols, i)
		}
	}
	sig := sigOf(cs.Tys)
	src, dst, txt := "sx_"+sig, "dx_"+sig, fmt.Sprintf("x_%d", len(cols))
	w.ensure(src, cs.Tys)
	w.ensure(dst, cs.Tys)
	w.ensure(txt, allText(len(cols)))
	for _, r := range cs.Rows {
		lits := make([]string, len(r))
		for i, v := range r {
			lits[i] = litX(v)
		}
		w.s.MustExec(fmt.Sprintf("INSERT INTO %s VALUES (%s)", src, strings.Join(lits, ",")))
	}
	orig := w.s.Query("SELECT * FROM " + src)
	if orig.Err != nil || len(orig.Rows) != len(cs.Rows) {
		panic(fmt.Sprintf("driver: source table does not hold the generated rows: %v", orig.Err))
	}
	names := make([]string, len(cols))
	for i, j := range cols {
		names[i] = fmt.Sprintf("c%d", j)
	}
	sel, colList := "*", ""
	if listed {
		sel = strings.Join(names, ", ")
		colList = " (" + sel + ")"
	}
	ignore := ""
	if cs.Ign > 0 {
		ignore = fmt.Sprintf(" IGNORE %d LINES", cs.Ign)
	}
	stmt := fmt.Sprintf("SELECT %s FROM %s INTO OUTFILE %s%s", sel, src, sqlQuote(file), clause)
	loadStmt := fmt.Sprintf("LOAD DATA INFILE %s INTO TABLE %s%s%s%s", sqlQuote(file), dst, clause, ignore, colList)
	cs.Statement = stmt + " ; " + loadStmt
	out := w.s.Query(stmt)
	if out.Err != nil {
		cs.ObsErr = out.Err.Error()
		id := c.CaseNoModel(cs, "")
		c.PredChecked()
		c.PredFail(id, "outfile-statement-failed", "INTO OUTFILE failed: "+out.Err.Error(), cs)
		return
	}
	fb, err := os.ReadFile(file)
	if err != nil {
		panic(err)
	}
	cs.ObsFile = string(fb)
	ld := w.s.Query(loadStmt)
	var typed []sql.Row
	typedOK := ld.Err == nil
	if typedOK {
		typed = w.s.Query("SELECT * FROM " + dst).Rows
		cs.ObsTyped = eng.Rows(typed)
	} else {
		cs.ObsErr = ld.Err.Error()
	}
	lt := w.s.Query(fmt.Sprintf("LOAD DATA INFILE %s INTO TABLE %s%s%s", sqlQuote(file), txt, clause, ignore))
	if lt.Err != nil {
		cs.ObsErr = lt.Err.Error()
		id := c.CaseNoModel(cs, "")
		c.PredChecked()
		c.PredFail(id, "load-into-text-table-failed", "LOAD DATA into an all-TEXT table failed: "+lt.Err.Error(), cs)
		return
	}
	text := w.s.Query("SELECT * FROM " + txt).Rows
	cs.ObsText = eng.Rows(text)

	// Coq term
	projRows := lib.CoqListOf(orig.Rows, func(r sql.Row) string {
		items := make([]string, len(cols))
		for i, j := range cols {
			items[i] = coqX(r[j], cs.Tys[j])
		}
		return lib.CoqList(items)
	})
	typedTerm := "None"
	if typedOK {
		typedTerm = "(Some " + lib.CoqListOf(typed, func(r sql.Row) string {
			items := make([]string, len(r))
			for j, v := range r {
				items[j] = coqX(v, cs.Tys[j])
			}
			return lib.CoqList(items)
		}) + ")"
	}
	term := fmt.Sprintf("(RoundTripX %s %s %s %d%%nat %s %s %s %s)", coqOpts(e), lib.CoqListOf(cs.Tys, coqTyX),
		lib.CoqListOf(cols, func(j int) string { return fmt.Sprintf("%d%%nat", j) }), cs.Ign, projRows, lib.CoqBytes(fb), typedTerm, coqRows(text))
	key := ""
	if len(orig.Rows) > cs.Ign {
		key = fmt.Sprintf("rtx|%q|%s|%v|%d|%q", clause, sig, cs.Cols, cs.Ign, eng.Rows(orig.Rows))
	}
	id := c.Case(term, cs, key)
	c.Count("roundtripx")
	if listed {
		c.Count("roundtripx_column_list")
	}
	if cs.Ign > 0 {
		c.Count("roundtripx_ignore_lines")
	}
	for _, t := range cs.Tys {
		c.Count("coltype:" + t)
	}

	// predicate: the reloaded table holds the exported rows after the ignored ones, listed columns filled, others NULL
	c.PredChecked()
	var want []sql.Row
	for i, r := range orig.Rows {
		if i < cs.Ign {
			continue
		}
		row := make(sql.Row, len(cs.Tys))
		for _, j := range cols {
			row[j] = r[j]
		}
		want = append(want, row)
	}
	if typedOK && strings.Join(eng.Rows(typed), ";") == strings.Join(eng.Rows(want), ";") && len(typed) == len(want) {
		c.Count("roundtrip_identical")
		return
	}
	// a BLOB value is printed with %v as a Go slice ("[97 98]") and comes back as that text
	hasBlob := false
	for _, r := range want {
		for _, j := range cols {
			if _, ok := r[j].([]byte); ok {
				hasBlob = true
			}
		}
	}
	sg := classify(e, cs.Tys, want)
	if hasBlob {
		sg = "binary-written-as-go-slice"
	}
	what := fmt.Sprintf("%s then %s: expected rows %q, file %q, reloaded ", stmt, loadStmt, eng.Rows(want), fb)
	if typedOK {
		what += fmt.Sprintf("rows %q", eng.Rows(typed))
	} else {
		what += "fails: " + ld.Err.Error()
	}
	c.PredFail(id, sg, what, cs)
}

func genRoundTripX(r *lib.RNG) caseT {
	cs := caseT{Kind: "roundtripx", Opt: genOpts(r)}
	e := cs.Opt.eff()
	ncols := r.Range(1, 4)
	other := r.Chance(1, 2)
	for i := 0; i < ncols; i++ {
		switch {
		case other && r.Chance(1, 2):
			cs.Tys = append(cs.Tys, lib.Pick(r, []string{"dec", "dec", "date", "datetime", "blob"}))
		case r.Chance(1, 3):
			cs.Tys = append(cs.Tys, "int")
		default:
			cs.Tys = append(cs.Tys, "text")
		}
	}
	nrows := r.Intn(5)
	for i := 0; i < nrows; i++ {
		row := make([]valT, ncols)
		for j, t := range cs.Tys {
			if r.Chance(1, 7) {
				row[j] = valT{Null: true}
				continue
			}
			switch t {
			case "int":
				z := int64(r.Intn(200001)) - 100000
				row[j] = valT{Int: &z}
			case "text":
				s := genStr(r, e, false)
				row[j] = valT{Str: &s}
			case "dec":
				z := int64(r.Intn(2000001)) - 1000000
				if r.Chance(1, 6) {
					z = lib.Pick(r, []int64{0, 1, -1, 99, -100, 999999999999})
				}
				row[j] = valT{Dec: &z}
			case "date":
				row[j] = valT{Date: []int{r.Range(1000, 9999), r.Range(1, 12), r.Range(1, 28)}}
			case "datetime":
				row[j] = valT{Date: []int{r.Range(1000, 9999), r.Range(1, 12), r.Range(1, 28), r.Intn(24), r.Intn(60), r.Intn(60)}}
			case "blob":
				n := r.Intn(5)
				b := make([]byte, n)
				for k := range b {
					b[k] = lib.Pick(r, []byte{0, 'a', 'b', 0xff, ' ', 0x80, '1', ','})
				}
				s := string(b)
				row[j] = valT{Blob: &s}
			}
		}
		cs.Rows = append(cs.Rows, row)
	}
	if r.Chance(1, 3) {
		// a column list: a non-empty subset of the columns in random order
		perm := make([]int, ncols)
		for i := range perm {
			perm[i] = i
		}
		for i := ncols - 1; i > 0; i-- {
			j := r.Intn(i + 1)
			perm[i], perm[j] = perm[j], perm[i]
		}
		cs.Cols = perm[:r.Range(1, ncols)]
	}
	if r.Chance(1, 3) {
		cs.Ign = r.Intn(nrows + 2)
	}
	return cs
}

// ---------- generators ----------

func sp(s string) *string { return &s }

var ftChoices = []string{",", ";", "|", "\t", "ab", "||", ", ", "#"}
var encChoices = []string{"\"", "'", "|", "", "$"}
var escChoices = []string{"\\", "", "!", "\"", "$", "^"}
var lsChoices = []string{"", ">", "xx", ">>", "row:"}
var ltChoices = []string{"\n", "\r\n", ";", "||", "END", "\n\n", "~"}

func overlap(a, b string) bool { return a != "" && b != "" && strings.ContainsAny(a, b) }

func genOpts(r *lib.RNG) optT {
	for {
		var o optT
		if r.Chance(2, 3) {
			o.FT = sp(lib.Pick(r, ftChoices))
		}
		if r.Chance(1, 2) {
			o.Enc = sp(lib.Pick(r, encChoices))
			o.Opt = r.Bool()
		}
		if r.Chance(1, 2) {
			o.Esc = sp(lib.Pick(r, escChoices))
		}
		if r.Chance(1, 3) {
			o.LS = sp(lib.Pick(r, lsChoices))
		}
		if r.Chance(1, 2) {
			o.LT = sp(lib.Pick(r, ltChoices))
		}
		if r.Chance(1, 40) && o.FT == nil {
			o.FT = sp("") // '' falls back to the default
		}
		e := o.eff()
		// inherently ambiguous combinations (two different delimiters sharing bytes) are not generated, except
		// enclosure = escape, which the reader supports explicitly (doubling rule)
		if overlap(e.ft, e.lt) || overlap(e.ft, e.enc) || overlap(e.ft, e.esc) || overlap(e.ft, e.ls) ||
			overlap(e.lt, e.enc) || overlap(e.lt, e.esc) || overlap(e.lt, e.ls) || overlap(e.ls, e.enc) || overlap(e.ls, e.esc) {
			continue
		}
		if e.enc != "" && e.enc == e.esc && !r.Chance(1, 2) {
			continue
		}
		return o
	}
}

var cleanAlpha = []string{"a", "b", "c", "x", "y", "z", "0", "1", "7", " ", "é", "_", "N", "U", "L", "E", "D", "-", "."}

func genStr(r *lib.RNG, e eff, hazard bool) string {
	if hazard && r.Chance(1, 12) {
		return "NULL"
	}
	n := r.Intn(6)
	var sb strings.Builder
	hz := []string{e.ft, e.enc, e.enc, e.enc + e.ft, e.esc, e.lt, e.ls, "\\", "\"", "'", "\n", "\t", "\r", ",", "N", "\\N", "NULL", e.ft[:1], e.lt[:1], "\x00", "\x1a", "\b"}
	for i := 0; i < n; i++ {
		if hazard && r.Chance(1, 4) {
			sb.WriteString(lib.Pick(r, hz))
		} else {
			sb.WriteString(lib.Pick(r, cleanAlpha))
		}
	}
	return sb.String()
}

var intChoices = []int64{0, 1, -1, 7, 10, 42, -100, 9223372036854775807, -9223372036854775808, 1234567890123}

func genRoundTrip(r *lib.RNG) caseT {
	cs := caseT{Kind: "roundtrip", Opt: genOpts(r)}
	e := cs.Opt.eff()
	ncols := r.Range(1, 4)
	for i := 0; i < ncols; i++ {
		if r.Chance(1, 3) {
			cs.Tys = append(cs.Tys, "int")
		} else {
			cs.Tys = append(cs.Tys, "text")
		}
	}
	hazard := r.Chance(2, 5)
	nrows := r.Intn(5)
	for i := 0; i < nrows; i++ {
		row := make([]valT, ncols)
		for j, t := range cs.Tys {
			switch {
			case r.Chance(1, 7):
				row[j] = valT{Null: true}
			case t == "int":
				var z int64
				if r.Chance(1, 2) {
					z = lib.Pick(r, intChoices)
				} else {
					z = int64(r.Intn(200001)) - 100000
				}
				row[j] = valT{Int: &z}
			default:
				s := genStr(r, e, hazard && r.Chance(1, 2))
				row[j] = valT{Str: &s}
			}
		}
		cs.Rows = append(cs.Rows, row)
	}
	return cs
}

func genReadOnly(r *lib.RNG) caseT {
	cs := caseT{Kind: "readonly", Opt: genOpts(r), N: r.Range(1, 4)}
	e := cs.Opt.eff()
	pieces := []string{e.ft, e.ft, e.lt, e.lt, e.enc, e.enc, e.esc, e.esc, e.ls, e.enc + "a" + e.enc + e.ft, e.enc + "b" + e.enc + e.ft + e.lt, e.enc + e.ft, "a", "b", "N", "NULL", "0", "n", "t", "Z", "r", "\\", "\"",
		e.ft[:1], e.lt[:1], " ", "é", "x"}
	var sb strings.Builder
	n := r.Intn(24)
	if e.ls != "" && r.Chance(3, 4) {
		sb.WriteString(e.ls)
	}
	for i := 0; i < n; i++ {
		p := lib.Pick(r, pieces)
		sb.WriteString(p)
		if p == e.lt && e.ls != "" && r.Chance(3, 4) {
			sb.WriteString(e.ls)
		}
	}
	if r.Chance(1, 2) {
		sb.WriteString(e.lt)
	}
	s := sb.String()
	cs.File = &s
	return cs
}

// ---------- fixed corpus (every known-finding input first) ----------

func sv(s string) valT  { return valT{Str: &s} }
func ip(z int64) *int64 { return &z }
func iv(z int64) valT   { return valT{Int: &z} }
func nv() valT          { return valT{Null: true} }

func corpus() []caseT {
	tt := []string{"text", "text"}
	return []caseT{
		// findings
		{Kind: "roundtrip", Tys: tt, Rows: [][]valT{{sv("a\tb"), sv("c")}}},                                                // field terminator in value
		{Kind: "roundtrip", Opt: optT{FT: sp(","), Enc: sp("\"")}, Tys: tt, Rows: [][]valT{{sv("a\",b"), sv("c")}}},        // enclosure in value
		{Kind: "roundtrip", Tys: tt, Rows: [][]valT{{sv("a\\b"), sv("c")}}},                                                // escape char in value
		{Kind: "roundtrip", Tys: []string{"text"}, Rows: [][]valT{{sv("NULL")}}},                                           // 'NULL' string
		{Kind: "roundtrip", Tys: tt, Rows: [][]valT{{sv("a\nb"), sv("c")}}},                                                // newline in value
		{Kind: "roundtrip", Opt: optT{FT: sp(","), Enc: sp("\""), Esc: sp("\"")}, Tys: tt, Rows: [][]valT{{nv(), sv("c")}}}, // enc = esc, NULL marker
		{Kind: "roundtrip", Opt: optT{LT: sp("||")}, Tys: tt, Rows: [][]valT{{sv("a"), sv("c|")}}},                         // first byte of terminator
		{Kind: "roundtripx", Tys: []string{"int", "date"}, Rows: [][]valT{{iv(1), {Date: []int{2024, 2, 29}}}}},                      // DATE leaves in Go's layout and still loads back
		{Kind: "roundtripx", Tys: []string{"blob", "int"}, Rows: [][]valT{{{Blob: sp("ab")}, iv(1)}}},                                // BLOB as Go slice
		{Kind: "roundtripx", Tys: []string{"dec", "text"}, Rows: [][]valT{{{Dec: ip(-1)}, sv("x")}, {{Dec: ip(1250)}, nv()}}},         // DECIMAL round-trips
		{Kind: "roundtripx", Tys: []string{"int", "text", "text"}, Cols: []int{2, 0}, Ign: 1, Rows: [][]valT{{iv(1), sv("a"), sv("b")}, {iv(2), sv("c"), sv("d")}, {iv(3), sv("e"), sv("f")}}},
		// clean ones
		{Kind: "roundtrip", Tys: []string{"int", "text", "text"}, Rows: [][]valT{{iv(1), sv("x"), sv("y")}, {nv(), sv(""), nv()}, {iv(-5), sv("a,b"), sv("q\"r")}}},
		{Kind: "roundtrip", Opt: optT{FT: sp(","), Enc: sp("\""), Opt: true, Esc: sp("")}, Tys: []string{"int", "text"}, Rows: [][]valT{{iv(7), sv("a,b")}, {nv(), nv()}}},
		{Kind: "roundtrip", Opt: optT{LS: sp(">>"), LT: sp("\r\n")}, Tys: []string{"text", "int"}, Rows: [][]valT{{sv("l1\nl2"), iv(-9223372036854775808)}}},
		{Kind: "roundtrip", Tys: []string{"text"}, Rows: nil},
		{Kind: "readonly", N: 3, File: sp("a\\tb\t\\N\tNULL\nq\\\n\n\\0\\Z\\n\\r\\b\\x\txx")},
		{Kind: "readonly", N: 2, Opt: optT{FT: sp(","), Enc: sp("$"), Esc: sp("$")}, File: sp("$a$$b$,$c\n$d,e$,f\n$g")},
		{Kind: "readonly", N: 2, Opt: optT{LS: sp("xx"), FT: sp(",")}, File: sp("junkxxa,b\nnoprefix\nxx\nxxc")},
		{Kind: "readonly", N: 2, Opt: optT{FT: sp(","), Enc: sp("\"")}, File: sp("\"a\",\n\"b\",c\n\"d\"x,\"e\"\n\"f\",")},
	}
}

func main() {
	lib.Main("C50", func(c *lib.Ctx) {
		c.Header = "From Coq Require Import List NArith ZArith.\nImport ListNotations.\nFrom GMS Require Import Codec.Outfile Codec.C50Fmt Corr.C50.\nOpen Scope N_scope."
		c.CaseType = "C50.case"
		c.MismatchFn = "C50.mismatches"
		c.SetRule("3/4 round trips: 1-4 columns (BIGINT 1/3, TEXT 2/3), 0-4 rows, 1/7 NULLs, strings of 0-5 symbols; 2/5 of the cases mix in hazard " +
			"symbols (the active field/line terminators, enclosure, escape, their first bytes, quotes, backslash, control bytes, \"NULL\"); " +
			"options: each of FIELDS TERMINATED/[OPTIONALLY] ENCLOSED/ESCAPED BY and LINES STARTING/TERMINATED BY present or absent with values " +
			"from small pools (1-4 bytes), delimiters pairwise byte-disjoint, enclosure = escape in a minority. 1/4 reader-only cases: files built " +
			"from delimiter pieces, escape letters and text, loaded into an all-TEXT table. Non-trivial = at least one row; distinct = distinct (options, types, rows).")
		dir, err := os.MkdirTemp("", "verif-c50-")
		if err != nil {
			panic(err)
		}
		defer os.RemoveAll(dir)
		e := eng.New("db")
		w := &world{e: e, s: e.Session(), dir: dir, have: map[string]bool{}}
		if c.ReplayFile != "" {
			var cs caseT
			lib.LoadReplay(c.ReplayFile, &cs)
			w.run(c, cs)
			return
		}
		cp := corpus()
		for _, cs := range cp {
			w.run(c, cs)
		}
		for i := len(cp); i < c.N; i++ {
			r := c.R.Fork()
			if r.Chance(1, 4) {
				w.run(c, genReadOnly(r))
			} else if r.Chance(1, 3) {
				w.run(c, genRoundTripX(r))
			} else {
				w.run(c, genRoundTrip(r))
			}
		}
	})
}
