// Driver for C45 (sql/sqlredact): generates SQL statements in which every identifier and literal position carries
// a unique marker (or a non-reserved keyword used as a name), redacts them with the real RedactSQLForTrace /
// RedactSQLForTraceInto, records for the Coq model what the vitess parser and tokenizer said about the text
// (parse ok, identifier set of the AST walk, token stream) together with the redacted output and the final
// Mapping, and evaluates the property on the implementation alone: no marker survives, equal lexemes map to equal
// placeholders and different lexemes to different ones, unparseable input yields only the marker, concurrent
// redactions into one Mapping stay consistent.
package main

import (
	"fmt"
	"sort"
	"strings"
	"sync"

	"github.com/dolthub/go-mysql-server/sql/sqlredact"
	"github.com/dolthub/vitess/go/vt/sqlparser"

	"verifharness/lib"
)

type kwT struct {
	Name string `json:"name"`
	Hole int    `json:"hole"` // which {i} of the template it fills
}

type caseT struct {
	Stmts      []string `json:"stmts"`                // redacted one after the other into ONE Mapping
	Templates  []string `json:"templates"`            // the shape of every statement
	Markers    []string `json:"markers"`              // every identifier / literal lexeme that must not survive
	KwNames    [][]kwT  `json:"keyword_names"`        // per statement: non-reserved keywords used as names
	Concurrent bool     `json:"concurrent,omitempty"` // 16 goroutines share the Mapping (predicate only)
}

// ---------- oracle: what vitess says about a text ----------
func classOf(typ int) string {
	switch typ {
	case sqlparser.ID:
		return "CId"
	case sqlparser.STRING:
		return "CStr"
	case sqlparser.INTEGRAL, sqlparser.FLOAT, sqlparser.HEXNUM:
		return "CNum"
	case sqlparser.HEX:
		return "CHex"
	case sqlparser.BIT_LITERAL:
		return "CBit"
	case sqlparser.VALUE_ARG, sqlparser.LIST_ARG:
		return "CArg"
	case sqlparser.COMMENT:
		return "CComment"
	case sqlparser.LEX_ERROR:
		return "CLexErr"
	case sqlparser.LE:
		return "(CSym SLE)"
	case sqlparser.GE:
		return "(CSym SGE)"
	case sqlparser.NE:
		return "(CSym SNE)"
	case sqlparser.SHIFT_LEFT:
		return "(CSym SSHL)"
	case sqlparser.SHIFT_RIGHT:
		return "(CSym SSHR)"
	case sqlparser.NULL_SAFE_EQUAL:
		return "(CSym SNSE)"
	case sqlparser.JSON_EXTRACT_OP:
		return "(CSym SJEX)"
	case sqlparser.JSON_UNQUOTE_EXTRACT_OP:
		return "(CSym SJUEX)"
	case sqlparser.AND:
		return "(CSym SAND)"
	case sqlparser.OR:
		return "(CSym SOR)"
	case sqlparser.CONCAT:
		return "(CSym SCONCAT)"
	}
	if typ < 256 {
		return fmt.Sprintf("(CChar %d)", typ)
	}
	return "COther"
}

type tokT struct {
	typ int
	val string
}

func tokenize(sql string) []tokT {
	tk := sqlparser.NewStringTokenizer(sql)
	var r []tokT
	for {
		typ, val := tk.Scan()
		if typ == 0 {
			return r
		}
		r = append(r, tokT{typ, string(val)})
		if typ == sqlparser.LEX_ERROR {
			return r
		}
	}
}

func identSet(stmt sqlparser.Statement) []string {
	set := map[string]bool{}
	_ = sqlparser.Walk(func(n sqlparser.SQLNode) (bool, error) {
		switch v := n.(type) {
		case sqlparser.TableIdent:
			if !v.IsEmpty() {
				set[v.String()] = true
			}
		case sqlparser.ColIdent:
			if !v.IsEmpty() {
				set[v.String()] = true
			}
		}
		return true, nil
	}, stmt)
	return lib.SortedKeys(set)
}

func coqPairs(m map[string]string, prefix string) string {
	type kv struct {
		k, v string
		n    int
	}
	var l []kv
	for k, v := range m {
		n := 0
		fmt.Sscanf(strings.TrimPrefix(v, prefix), "%d", &n)
		l = append(l, kv{k, v, n})
	}
	sort.Slice(l, func(i, j int) bool { return l[i].n < l[j].n || l[i].n == l[j].n && l[i].k < l[j].k })
	return lib.CoqListOf(l, func(e kv) string { return lib.CoqTuple(lib.CoqStr(e.k), lib.CoqStr(e.v)) })
}

// ---------- the property on the implementation alone ----------
func containsFold(hay, needle string) bool {
	return strings.Contains(strings.ToLower(hay), strings.ToLower(needle))
}

func injective(m map[string]string, prefix string) (bool, string) {
	seen := map[string]string{}
	for k, v := range m {
		if k2, dup := seen[v]; dup {
			return false, fmt.Sprintf("%q and %q both map to %s", k, k2, v)
		}
		seen[v] = k
		n := 0
		if _, err := fmt.Sscanf(v, prefix+"%d", &n); err != nil || n < 1 || n > len(m) || v != fmt.Sprintf("%s%d", prefix, n) {
			return false, fmt.Sprintf("%q maps to %q, not one of %s1..%s%d", k, v, prefix, prefix, len(m))
		}
	}
	return true, ""
}

var kwSigCount = map[string]int{}

func hasWord(text, w string) bool {
	for _, f := range strings.FieldsFunc(strings.ToLower(text), func(r rune) bool {
		return !(r == '_' || r >= 'a' && r <= 'z' || r >= '0' && r <= '9')
	}) {
		if f == strings.ToLower(w) {
			return true
		}
	}
	return false
}

func checkOutput(c *lib.Ctx, id int, cs caseT, si int, out string, err error, parseOK bool, fresh bool, m *sqlredact.Mapping) {
	sql := cs.Stmts[si]
	if !parseOK {
		if out != sqlredact.UnparseableMarker || err == nil {
			c.PredFail(id, "unparseable-input-not-marker-only", fmt.Sprintf("%q does not parse but redacts to %q (err=%v)", sql, out, err), cs)
		}
		if fresh && (len(m.Idents()) != 0 || len(m.Values()) != 0) {
			c.PredFail(id, "unparseable-input-leaves-mapping-entries", fmt.Sprintf("%q does not parse but the mapping has entries", sql), cs)
		}
		return
	}
	for _, mk := range cs.Markers {
		if containsFold(sql, mk) && containsFold(out, mk) {
			c.PredFail(id, "lexeme-survives/"+markerKind(mk), fmt.Sprintf("%q redacts to %q which still contains the input lexeme %q", sql, out, mk), cs)
			return
		}
	}
	if si >= len(cs.KwNames) || si >= len(cs.Templates) {
		return
	}
	for _, kw := range cs.KwNames[si] {
		if hasWord(cs.Templates[si], kw.Name) {
			continue // the statement also uses the word as a keyword: its survival proves nothing
		}
		if hasWord(out, kw.Name) {
			sig := "keyword-named-identifier-survives/" + cs.Templates[si]
			kwSigCount[sig]++
			if kwSigCount[sig] > 2 { // the list of recorded failures is capped: keep room for other signatures
				c.Count("predicate_failure_not_recorded_again:" + sig)
				return
			}
			c.PredFail(id, sig,
				fmt.Sprintf("%q redacts to %q: the name %q (a non-reserved keyword used as an identifier, hole %d of %q) survives", sql, out, kw.Name, kw.Hole, cs.Templates[si]), cs)
			return
		}
	}
}

func markerKind(mk string) string {
	mk = strings.ToLower(mk)
	switch {
	case strings.HasPrefix(mk, "zqi") || strings.HasSuffix(mk, "zqi"):
		return "identifier"
	case strings.HasPrefix(mk, "zqs"):
		return "string-literal"
	case strings.HasPrefix(mk, "zqv"):
		return "user-variable"
	case strings.HasPrefix(mk, "zqc"):
		return "comment"
	case strings.HasPrefix(mk, "77"):
		return "number-literal"
	}
	return "hex-or-bit-literal"
}

func run(c *lib.Ctx, cs caseT) {
	if cs.Concurrent {
		runConcurrent(c, cs)
		return
	}
	m := sqlredact.NewMapping()
	var terms []string
	type res struct {
		sql, out string
		err      error
		ok       bool
	}
	var results []res
	anyOK := false
	for i, sql := range cs.Stmts {
		stmt, perr := sqlparser.Parse(sql)
		var ids []string
		if perr == nil {
			ids = identSet(stmt)
			anyOK = true
		}
		toks := tokenize(sql)
		var out string
		var err error
		panicked, pv := lib.Recover(func() {
			if i == 0 && len(cs.Stmts) == 1 {
				out, m, err = sqlredact.RedactSQLForTrace(sql)
			} else {
				out, err = sqlredact.RedactSQLForTraceInto(sql, m)
			}
		})
		if panicked {
			id := c.CaseNoModel(cs, "panic")
			c.PredFail(id, "panic", fmt.Sprintf("redacting %q panicked: %s", sql, pv), cs)
			return
		}
		results = append(results, res{sql, out, err, perr == nil})
		terms = append(terms, lib.CoqTuple(lib.CoqBool(perr == nil), lib.CoqListOf(ids, lib.CoqStr),
			lib.CoqListOf(toks, func(t tokT) string { return lib.CoqTuple(classOf(t.typ), lib.CoqStr(t.val)) }), lib.CoqStr(out)))
		for _, t := range toks {
			if t.typ != sqlparser.COMMENT {
				c.Count("token_" + strings.Trim(strings.SplitN(classOf(t.typ), " ", 2)[0], "()"))
			}
		}
		if perr != nil {
			c.Count("stmt_unparseable")
		} else {
			c.Count("stmt_parsed")
		}
	}
	key := ""
	if anyOK {
		key = strings.Join(cs.Stmts, ";")
	}
	for i, t := range cs.Templates {
		c.Count("template: " + t)
		if i < len(cs.KwNames) && len(cs.KwNames[i]) > 0 {
			c.Count("stmt_with_keyword_used_as_name")
		}
	}
	term := lib.CoqTuple(lib.CoqList(terms), coqPairs(m.Idents(), "n"), coqPairs(m.Values(), "v"))
	id := c.Case(term, cs, key)

	c.PredChecked()
	for i, r := range results {
		checkOutput(c, id, cs, i, r.out, r.err, r.ok, i == 0 && len(results) == 1, m)
	}
	if ok, why := injective(m.Idents(), "n"); !ok {
		c.PredFail(id, "identifier-mapping-not-injective", why, cs)
	}
	if ok, why := injective(m.Values(), "v"); !ok {
		c.PredFail(id, "value-mapping-not-injective", why, cs)
	}
	// equal lexemes -> equal placeholders: redacting the same statements again into the same Mapping changes nothing
	before := fmt.Sprint(m.Idents(), m.Values())
	for _, r := range results {
		out2, _ := sqlredact.RedactSQLForTraceInto(r.sql, m)
		if out2 != r.out {
			c.PredFail(id, "same-statement-redacts-differently-with-same-mapping", fmt.Sprintf("%q: first %q, again %q", r.sql, r.out, out2), cs)
			break
		}
	}
	if fmt.Sprint(m.Idents(), m.Values()) != before {
		c.PredFail(id, "mapping-changes-on-known-lexemes", "redacting the same statements again minted new placeholders", cs)
	}
}

func runConcurrent(c *lib.Ctx, cs caseT) {
	m := sqlredact.NewMapping()
	outs := make([]string, len(cs.Stmts))
	errs := make([]error, len(cs.Stmts))
	var wg sync.WaitGroup
	for i := range cs.Stmts {
		wg.Add(1)
		go func(i int) {
			defer wg.Done()
			outs[i], errs[i] = sqlredact.RedactSQLForTraceInto(cs.Stmts[i], m)
		}(i)
	}
	wg.Wait()
	c.Count("concurrent_shared_mapping")
	id := c.CaseNoModel(cs, "concurrent|"+strings.Join(cs.Stmts, ";"))
	c.PredChecked()
	for i, sql := range cs.Stmts {
		_, perr := sqlparser.Parse(sql)
		checkOutput(c, id, cs, i, outs[i], errs[i], perr == nil, false, m)
		if perr == nil { // consistent: the same text redacts to the same output once every lexeme is known
			again, _ := sqlredact.RedactSQLForTraceInto(sql, m)
			if again != outs[i] {
				c.PredFail(id, "concurrent-redaction-inconsistent", fmt.Sprintf("%q: concurrently %q, afterwards %q with the same Mapping", sql, outs[i], again), cs)
			}
		}
	}
	if ok, why := injective(m.Idents(), "n"); !ok {
		c.PredFail(id, "identifier-mapping-not-injective/concurrent", why, cs)
	}
	if ok, why := injective(m.Values(), "v"); !ok {
		c.PredFail(id, "value-mapping-not-injective/concurrent", why, cs)
	}
}

// ---------- generator ----------
var templates = []string{
	"SELECT {i}, {i} FROM {i} WHERE {i} = {s} AND {i} > {n}",
	"SELECT {i}.{i}, {i}.{i} AS {i} FROM {i}.{i} AS {i} JOIN {i} ON {i}.{i} = {i}.{i} WHERE {i} IN ({n}, {n}, {f}) ORDER BY {i} DESC LIMIT {n}",
	"INSERT INTO {i} ({i}, {i}) VALUES ({s}, {n}), ({x}, {b})",
	"UPDATE {i} SET {i} = {s}, {i} = {i} + {n} WHERE {i} <=> {q}",
	"DELETE FROM {i} WHERE {i} LIKE {s} OR {i} BETWEEN {n} AND {f}",
	"CREATE TABLE {i} ({i} INT PRIMARY KEY, {i} VARCHAR(20) DEFAULT {s} COMMENT {s}, KEY {i} ({i}))",
	"ALTER TABLE {i} ADD COLUMN {i} INT, DROP COLUMN {i}, ADD INDEX {i} ({i})",
	"ALTER TABLE {i} RENAME TO {i}",
	"ALTER TABLE {i} RENAME COLUMN {i} TO {i}",
	"DROP TABLE {i}, {i}",
	"CREATE INDEX {i} ON {i} ({i}, {i})",
	"DROP INDEX {i} ON {i}",
	"SELECT {i}({i}, {s}) FROM {i} GROUP BY {i} HAVING COUNT(*) > {n}",
	"WITH {i} ({i}) AS (SELECT {n}) SELECT * FROM {i}",
	"SELECT * FROM {i} {c} WHERE {i} = {v}",
	"SET {v} = {s}",
	"SET {i} = {n}",
	"SELECT {i}->{s}, {i}->>{s} FROM {i}",
	"SELECT {n} << {n}, {n} >> {n}, {n} != {n}, {n} <= {n}, {n} >= {n}, {s} || {s}, {n} && {n}, {n} <> {n}",
	"SELECT CASE WHEN {i} = {s} THEN {n} ELSE {f} END FROM {i}",
	"SELECT _utf8mb4 {s}, DATE {s}, TIMESTAMP {s}",
	"CREATE DATABASE {i}",
	"USE {i}",
	"SHOW TABLES FROM {i}",
	"SHOW CREATE TABLE {i}",
	"SHOW COLUMNS FROM {i} FROM {i}",
	"CREATE USER {s}@{s} IDENTIFIED BY {s}",
	"CREATE USER {i}@{i}",
	"GRANT SELECT ON {i}.{i} TO {s}@{s}",
	"SAVEPOINT {i}",
	"ROLLBACK TO SAVEPOINT {i}",
	"RELEASE SAVEPOINT {i}",
	"CALL {i}({n}, {s})",
	"CREATE PROCEDURE {i}({i} INT) SELECT {i}",
	"DROP PROCEDURE {i}",
	"CREATE TRIGGER {i} BEFORE INSERT ON {i} FOR EACH ROW SET NEW.{i} = {n}",
	"DROP TRIGGER {i}",
	"CREATE VIEW {i} AS SELECT {i} FROM {i}",
	"PREPARE {i} FROM {s}",
	"EXECUTE {i} USING {v}",
	"DEALLOCATE PREPARE {i}",
	"SELECT * FROM {i} AS OF {s}",
	"ALTER TABLE {i} ADD CONSTRAINT {i} FOREIGN KEY ({i}) REFERENCES {i} ({i})",
	"ALTER TABLE {i} ADD CONSTRAINT {i} CHECK ({i} > {n})",
	"ALTER TABLE {i} DROP CONSTRAINT {i}",
	"SELECT {i} FROM {i} USE INDEX ({i})",
	"SELECT ROW_NUMBER() OVER {i} FROM {i} WINDOW {i} AS (PARTITION BY {i})",
	"LOAD DATA INFILE {s} INTO TABLE {i}",
	"SELECT * FROM {i} INTO OUTFILE {s}",
	"CREATE EVENT {i} ON SCHEDULE EVERY {n} DAY DO SELECT {n}",
	"DROP EVENT {i}",
	"ANALYZE TABLE {i}",
	"SELECT /*!50000 {i}, */ {i} FROM {i}",
	"SELECT {i} FROM {i} WHERE {i} = {q} AND {i} IN ::zqlist",
	"SELECT {i} FROM {i} WHERE {i} REGEXP {s} AND NOT {i} IS NULL XOR {i} = {n} % {n}",
	"SELECT * FROM {i} PARTITION ({i})",
	"ALTER TABLE {i} DROP PARTITION {i}",
	"CREATE TABLE {i} ({i} INT) CHARACTER SET {i} COLLATE {i} COMMENT={s} ENGINE={i}",
	"SELECT {i} COLLATE {i} FROM {i}",
	"SELECT CAST({i} AS CHAR CHARACTER SET {i}) FROM {i}",
	"SELECT CONVERT({i} USING {i}) FROM {i}",
	"SELECT * FROM JSON_TABLE({s}, {s} COLUMNS({i} INT PATH {s})) AS {i}",
	"SELECT {i} FROM {i} FOR UPDATE OF {i}",
	"LOCK TABLES {i} READ, {i} AS {i} WRITE",
	"KILL QUERY {n}",
	"CREATE ROLE {i}",
	"SET PASSWORD FOR {s}@{s} = {s}",
	"ALTER USER {s}@{s} IDENTIFIED BY {s}",
	"RENAME USER {s}@{s} TO {s}@{s}",
	"DROP USER {i}@{s}",
	"SELECT {i} FROM {i} UNION SELECT {s} FROM DUAL",
	"EXPLAIN SELECT {i} FROM {i}",
	"SELECT {f} * {n} - -{n} / +{f} DIV {n} MOD {n} | {n} & {n} ^ ~{n}",
	"BEGIN",
	"SELEC {i} FRM {i} WHERE {s}",
	"SELECT {i} FROM WHERE {i} = 'zqsunterminated",
}

// non-reserved keywords of the vitess grammar that commonly occur as names
var kwPool = []string{"status", "name", "user", "data", "comment", "action", "account", "format", "value", "type", "level", "key_block_size",
	"position", "source", "channel", "event", "events", "role", "password", "engine", "engines", "tables", "columns", "fields", "host", "hosts",
	"language", "version", "path", "time", "date", "timestamp", "year", "text", "json", "enum", "bit", "bool", "signed", "unsigned",
	"begin", "start", "end", "commit", "offset", "only", "view", "trigger", "triggers", "variables", "warnings", "work", "write", "read",
	"no", "nested", "ordinality", "plugins", "processlist", "query", "replica", "replication", "reset", "row_format", "schemas",
	"serializable", "session", "global", "local", "slave", "sql_security", "temporary", "transaction", "uncommitted", "committed",
	"repeatable", "isolation", "identified", "indexes", "invoker", "definer", "duplicate", "each", "enforced", "expire", "first", "after",
	"following", "preceding", "unbounded", "current", "found", "full", "grants", "handler", "history", "last_insert_id", "merge", "mode",
	"names", "nchar", "never", "none", "open", "optionally", "partitions", "privileges", "procedure_analyse"}

type genState struct {
	r       *lib.RNG
	n       int
	hole    int
	markers []string
	kws     []kwT
	reuse   []string // previously used renderings, to get equal lexemes

	plainOnly bool // sweep mode: plain markers everywhere except forceHole, which gets forceKw
	forceHole int
	forceKw   string
}

var kwSet = func() map[string]bool {
	m := map[string]bool{}
	for _, k := range kwPool {
		m[k] = true
	}
	return m
}()

func (g *genState) fresh() int { g.n++; return g.n }

func (g *genState) ident() string {
	g.hole++
	if g.plainOnly {
		if g.hole == g.forceHole {
			g.kws = append(g.kws, kwT{g.forceKw, g.hole})
			return g.forceKw
		}
		mk := fmt.Sprintf("zqi%da", g.fresh())
		g.markers = append(g.markers, mk)
		return mk
	}
	if len(g.reuse) > 0 && g.r.Chance(1, 5) {
		s := lib.Pick(g.r, g.reuse)
		if bare := strings.Trim(s, "`"); kwSet[strings.ToLower(bare)] {
			g.kws = append(g.kws, kwT{bare, g.hole})
		}
		return s
	}
	var s string
	switch x := g.r.Intn(20); {
	case x < 9:
		mk := fmt.Sprintf("zqi%da", g.fresh())
		g.markers = append(g.markers, mk)
		s = mk
	case x < 11:
		mk := fmt.Sprintf("ZQI%dB", g.fresh())
		g.markers = append(g.markers, mk)
		s = mk
	case x < 14:
		mk := fmt.Sprintf("zqi%dq", g.fresh())
		g.markers = append(g.markers, mk)
		s = "`" + mk + "`"
	case x < 15:
		mk := fmt.Sprintf("zqi%d q", g.fresh())
		g.markers = append(g.markers, mk)
		s = "`" + mk + "`"
	case x < 16:
		mk := fmt.Sprintf("zqi%dé日", g.fresh())
		g.markers = append(g.markers, mk)
		s = "`" + mk + "`"
	case x < 17:
		mk := fmt.Sprintf("%dzqi", 5000+g.fresh()) // an identifier starting with digits
		g.markers = append(g.markers, mk)
		s = mk
	default:
		kw := lib.Pick(g.r, kwPool)
		if g.r.Chance(1, 3) {
			kw = strings.ToUpper(kw[:1]) + kw[1:]
		}
		g.kws = append(g.kws, kwT{kw, g.hole})
		s = kw
		if g.r.Chance(1, 4) {
			s = "`" + kw + "`"
		}
	}
	g.reuse = append(g.reuse, s)
	return s
}

func (g *genState) str() string {
	mk := fmt.Sprintf("zqs%dz", g.fresh())
	g.markers = append(g.markers, mk)
	switch g.r.Intn(6) {
	case 0:
		return `"` + mk + `"`
	case 1:
		return "'" + mk + `\' x'` // escaped quote inside
	case 2:
		return "'" + mk + " with space and 日本'"
	case 3:
		return "'" + mk + "''s'"
	}
	return "'" + mk + "'"
}

func (g *genState) fill(t string) string {
	var sb strings.Builder
	for i := 0; i < len(t); i++ {
		if t[i] == '{' && i+2 < len(t) && t[i+2] == '}' {
			switch t[i+1] {
			case 'i':
				sb.WriteString(g.ident())
			case 's':
				sb.WriteString(g.str())
			case 'n':
				mk := fmt.Sprintf("77%d7", 1000+g.fresh())
				g.markers = append(g.markers, mk)
				sb.WriteString(mk)
			case 'f':
				mk := fmt.Sprintf("77%d7", 1000+g.fresh())
				g.markers = append(g.markers, mk)
				sb.WriteString(lib.Pick(g.r, []string{mk + ".5", mk + "e3", "." + mk, mk + ".25E-2"}))
			case 'x':
				mk := fmt.Sprintf("AB%dCD", 1000+g.fresh())
				g.markers = append(g.markers, mk)
				sb.WriteString(lib.Pick(g.r, []string{"x'" + mk + "'", "X'" + mk + "'", "0x" + mk}))
			case 'b':
				mk := fmt.Sprintf("10110%b", 64+g.fresh())
				g.markers = append(g.markers, mk)
				sb.WriteString(lib.Pick(g.r, []string{"b'" + mk + "'", "B'" + mk + "'", "0b" + mk}))
			case 'c':
				mk := fmt.Sprintf("zqc%dc", g.fresh())
				g.markers = append(g.markers, mk)
				sb.WriteString(lib.Pick(g.r, []string{"/* " + mk + " */", "-- " + mk + "\n", "# " + mk + "\n"}))
			case 'v':
				mk := fmt.Sprintf("zqv%dv", g.fresh())
				g.markers = append(g.markers, mk)
				sb.WriteString(lib.Pick(g.r, []string{"@" + mk, "@`" + mk + "`", "@@" + mk, "@@session." + mk}))
			case 'q':
				sb.WriteString(lib.Pick(g.r, []string{"?", ":v1", ":zqarg"}))
			}
			i += 2
			continue
		}
		sb.WriteByte(t[i])
	}
	return sb.String()
}

func gen(r *lib.RNG) caseT {
	g := &genState{r: r}
	var cs caseT
	n := 1
	if r.Chance(1, 4) {
		n = r.Range(2, 4)
	}
	if r.Chance(1, 30) {
		cs.Concurrent = true
		n = 16
	}
	for i := 0; i < n; i++ {
		t := templates[r.Intn(len(templates))]
		g.hole, g.kws = 0, []kwT{}
		s := g.fill(t)
		cs.Templates = append(cs.Templates, t)
		cs.KwNames = append(cs.KwNames, g.kws)
		if r.Chance(1, 12) {
			s = s + " /* zqc0c trailing */"
			g.markers = append(g.markers, "zqc0c")
		}
		if r.Chance(1, 25) {
			s = strings.ToLower(s)
		}
		cs.Stmts = append(cs.Stmts, s)
	}
	cs.Markers = g.markers
	if cs.Markers == nil {
		cs.Markers = []string{}
	}
	return cs
}

// sweep: every template x every identifier hole x every keyword of the pool, all other holes plain markers.
// Deterministic; only the first failing statement of every template is recorded as a case.
func sweep(c *lib.Ctx) {
	seen := map[string]bool{}
	for _, t := range templates {
		holes := strings.Count(t, "{i}")
		for h := 1; h <= holes; h++ {
			for _, kw := range kwPool {
				if hasWord(t, kw) {
					continue
				}
				g := &genState{r: lib.NewRNG(1), plainOnly: true, forceHole: h, forceKw: kw}
				sql := g.fill(t)
				c.Count("sweep_statements")
				c.PredChecked()
				out, _, err := sqlredact.RedactSQLForTrace(sql)
				if err != nil {
					c.Count("sweep_unparseable")
					continue
				}
				cs := caseT{Stmts: []string{sql}, Templates: []string{t}, Markers: g.markers, KwNames: [][]kwT{{{kw, h}}}}
				bad := hasWord(out, kw)
				for _, mk := range g.markers {
					bad = bad || containsFold(out, mk)
				}
				if bad && !seen[t] {
					seen[t] = true
					run(c, cs) // records the case (with the model's view of it) and the predicate failure
				}
			}
		}
	}
}

func main() {
	lib.Main("C45", func(c *lib.Ctx) {
		c.Header = "From Coq Require Import List NArith.\nImport ListNotations.\nFrom GMS Require Import Sys.Redact Corr.C45.\nOpen Scope N_scope."
		c.CaseType = "C45.case"
		c.MismatchFn = "C45.mismatches"
		c.SetRule(fmt.Sprintf("1-4 statements from %d templates (DML, DDL, users/grants, procedures/triggers/events, savepoints, prepared "+
			"statements, window/CTE/JSON_TABLE, operators, special comments, 2 unparseable shapes) redacted into one Mapping; every identifier "+
			"position holds a unique marker (plain, upper case, back-quoted, with space / multi-byte, digit-initial) or one of %d non-reserved "+
			"keywords, every literal position a unique string / number / float / hex / bit literal, plus comments, user and system variables, "+
			"bind arguments; 1/5 of the identifiers repeat an earlier lexeme; 1/30 of the cases run 16 goroutines on a shared Mapping "+
			"(predicate only). Non-trivial = at least one statement parses.", len(templates), len(kwPool)))
		if c.ReplayFile != "" {
			var cs caseT
			lib.LoadReplay(c.ReplayFile, &cs)
			run(c, cs)
			return
		}
		one := func(sql, tmpl string, markers []string, kws ...kwT) caseT {
			return caseT{Stmts: []string{sql}, Templates: []string{tmpl}, Markers: markers, KwNames: [][]kwT{kws}}
		}
		corpus := []caseT{
			one("SELECT name, zqi1a FROM zqi2a WHERE status = 'zqs3z' AND zqi1a > 7710047", "SELECT {i}, {i} FROM {i} WHERE {i} = {s} AND {i} > {n}",
				[]string{"zqi1a", "zqi2a", "zqs3z", "7710047"}, kwT{"name", 1}, kwT{"status", 4}),
			one("SELECT `` FROM zqi1a", "corpus", []string{"zqi1a"}),
			one("SELECT 'zqi1a', zqi1a, ''", "corpus", []string{}),
			{Stmts: []string{"SELECT zqi1a FROM zqi2a", "SELECT zqi2a FROM zqi1a WHERE zqi3a = 'zqs5z'", "SELEC zqi4a"}, Templates: []string{"corpus", "corpus", "corpus"},
				Markers: []string{"zqi1a", "zqi2a", "zqi3a", "zqi4a", "zqs5z"}, KwNames: [][]kwT{{}, {}, {}}},
			one("SELECT 1 FROM zqi1a WHERE x'ABC'", "corpus", []string{"zqi1a"}),
			// known findings: a non-reserved keyword used as a name where the AST walk does not report it
			one("EXPLAIN SELECT status FROM zqi1a", "EXPLAIN SELECT {i} FROM {i}", []string{"zqi1a"}, kwT{"status", 1}),
		}
		for _, cs := range corpus {
			run(c, cs)
		}
		sweep(c)
		for i := len(corpus); i < c.N; i++ {
			run(c, gen(c.R.Fork()))
		}
	})
}
