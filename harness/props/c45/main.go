// Driver for C45 (sql/sqlredact): generates SQL statements in which every identifier and literal position carries
// a unique marker (or a non-reserved keyword used as a name), redacts them with the real RedactSQLForTrace /
// RedactSQLForTraceInto, records for the Coq model what the vitess parser and tokenizer said about the text
// (parse ok, identifier set of the AST walk, token stream) together with the redacted output and the final
// Mapping, and evaluates the property on the implementation alone: no marker survives, equal lexemes map to equal
// placeholders and different lexemes to different ones, unparseable input yields only the marker, concurrent
// redactions into one Mapping stay consistent.
package main

import (
	"fmt"
	"sort"
	"strings"
	"sync"

	"github.com/dolthub/go-mysql-server/sql/sqlredact"
	"github.com/dolthub/vitess/go/vt/sqlparser"

	"verifharness/lib"
)

type kwT struct {
	Name string `json:"name"`
	Hole int    `json:"hole"` // which {i} of the template it fills
}

type caseT struct {
	Stmts      []string `json:"stmts"`                // redacted one after the other into ONE Mapping
	Templates  []string `json:"templates"`            // the shape of every statement
	Markers    []string `json:"markers"`              // every identifier / literal lexeme that must not survive
	KwNames    [][]kwT  `json:"keyword_names"`        // per statement: non-reserved keywords used as names
	Concurrent bool     `json:"concurrent,omitempty"` // 16 goroutines share the Mapping (predicate only)
	Cold       int      `json:"cold_rounds,omitempty"` // >0: barrier-started goroutines on a fresh Mapping, this many rounds
}

// ---------- oracle: what vitess says about a text ----------
func classOf(typ int) string {
	switch typ {
	case sqlparser.ID:
		return "CId"
	case sqlparser.STRING:
		return "CStr"
	case sqlparser.INTEGRAL, sqlparser.FLOAT, sqlparser.HEXNUM:
		return "CNum"
	case sqlparser.HEX:
		return "CHex"
	case sqlparser.BIT_LITERAL:
		return "CBit"
	case sqlparser.VALUE_ARG, sqlparser.LIST_ARG:
		return "CArg"
	case sqlparser.COMMENT:
		return "CComment"
	case sqlparser.LEX_ERROR:
		return "CLexErr"
	case sqlparser.LE:
		return "(CSym SLE)"
	case sqlparser.GE:
		return "(CSym SGE)"
	case sqlparser.NE:
		return "(CSym SNE)"
	case sqlparser.SHIFT_LEFT:
		return "(CSym SSHL)"
	case sqlparser.SHIFT_RIGHT:
		return "(CSym SSHR)"
	case sqlparser.NULL_SAFE_EQUAL:
		return "(CSym SNSE)"
	case sqlparser.JSON_EXTRACT_OP:
		return "(CSym SJEX)"
	case sqlparser.JSON_UNQUOTE_EXTRACT_OP:
		return "(CSym SJUEX)"
	case sqlparser.AND:
		return "(CSym SAND)"
	case sqlparser.OR:
		return "(CSym SOR)"
	case sqlparser.CONCAT:
		return "(CSym SCONCAT)"
	}
	if typ < 256 {
		return fmt.Sprintf("(CChar %d)", typ)
	}
	return "COther"
}

type tokT struct {
	typ int
	val string
}

func tokenize(sql string) []tokT {
	tk := sqlparser.NewStringTokenizer(sql)
	var r []tokT
	for {
		typ, val := tk.Scan()
		if typ == 0 {
			return r
		}
		r = append(r, tokT{typ, string(val)})
		if typ == sqlparser.LEX_ERROR {
			return r
		}
	}
}

func identSet(stmt sqlparser.Statement) []string {
	set := map[string]bool{}
	_ = sqlparser.Walk(func(n sqlparser.SQLNode) (bool, error) {
		switch v := n.(type) {
		case sqlparser.TableIdent:
			if !v.IsEmpty() {
				set[v.String()] = true
			}
		case sqlparser.ColIdent:
			if !v.IsEmpty() {
				set[v.String()] = true
			}
		}
		return true, nil
	}, stmt)
	return lib.SortedKeys(set)
}

func coqPairs(m map[string]string, prefix string) string {
	type kv struct {
		k, v string
		n    int
	}
	var l []kv
	for k, v := range m {
		n := 0
		fmt.Sscanf(strings.TrimPrefix(v, prefix), "%d", &n)
		l = append(l, kv{k, v, n})
	}
	sort.Slice(l, func(i, j int) bool { return l[i].n < l[j].n || l[i].n == l[j].n && l[i].k < l[j].k })
	return lib.CoqListOf(l, func(e kv) string { return lib.CoqTuple(lib.CoqStr(e.k), lib.CoqStr(e.v)) })
}

// ---------- the property on the implementation alone ----------
func containsFold(hay, needle string) bool {
	return strings.Contains(strings.ToLower(hay), strings.ToLower(needle))
}

func injective(m map[string]string, prefix string) (bool, string) {
	seen := map[string]string{}
	for k, v := range m {
		if k2, dup := seen[v]; dup {
			return false, fmt.Sprintf("%q and %q both map to %s", k, k2, v)
		}
		seen[v] = k
		n := 0
		if _, err := fmt.Sscanf(v, prefix+"%d", &n); err != nil || n < 1 || n > len(m) || v != fmt.Sprintf("%s%d", prefix, n) {
			return false, fmt.Sprintf("%q maps to %q, not one of %s1..%s%d", k, v, prefix, prefix, len(m))
		}
	}
	return true, ""
}

var kwSigCount = map[string]int{}

func hasWord(text, w string) bool {
	for _, f := range strings.FieldsFunc(strings.ToLower(text), func(r rune) bool {
		return !(r == '_' || r >= 'a' && r <= 'z' || r >= '0' && r <= '9')
	}) {
		if f == strings.ToLower(w) {
			return true
		}
	}
	return false
}

// hasWordExact: the word occurs in text with exactly this spelling
func hasWordExact(text, w string) bool {
	for _, f := range strings.FieldsFunc(text, func(r rune) bool {
		return !(r == '_' || r >= 'a' && r <= 'z' || r >= 'A' && r <= 'Z' || r >= '0' && r <= '9')
	}) {
		if f == w {
			return true
		}
	}
	return false
}

// lexTemplate splits a template into words, holes ("_" for an identifier hole, "?" for a literal hole) and punctuation.
func lexTemplate(t string) []string {
	var r []string
	for i := 0; i < len(t); {
		ch := t[i]
		switch {
		case ch == ' ':
			i++
		case ch == '{' && i+2 < len(t) && t[i+2] == '}':
			if t[i+1] == 'i' {
				r = append(r, "_")
			} else {
				r = append(r, "?")
			}
			i += 3
		case ch == '_' || ch >= 'a' && ch <= 'z' || ch >= 'A' && ch <= 'Z' || ch >= '0' && ch <= '9':
			j := i
			for j < len(t) && (t[j] == '_' || t[j] >= 'a' && t[j] <= 'z' || t[j] >= 'A' && t[j] <= 'Z' || t[j] >= '0' && t[j] <= '9') {
				j++
			}
			r = append(r, strings.ToUpper(t[i:j]))
			i = j
		default:
			r = append(r, string(ch))
			i++
		}
	}
	return r
}

// posClass names the syntactic position of the hole-th identifier hole of a template: the statement kind (leading
// keywords) and the two lexical items to the left of the hole.  It is the root-cause key of a keyword-name leak:
// which AST position the identifier walk of the redactor does not reach.
func posClass(t string, hole int) string {
	idx, from := -1, 0
	for k := 0; k < hole; k++ {
		j := strings.Index(t[from:], "{i}")
		if j < 0 {
			return "unknown-position"
		}
		idx = from + j
		from = idx + 3
	}
	all := lexTemplate(t)
	kind := []string{}
	for _, w := range all {
		if len(kind) == 2 || !(w[0] >= 'A' && w[0] <= 'Z') {
			break
		}
		kind = append(kind, w)
	}
	left := lexTemplate(t[:idx])
	if len(left) > 2 {
		left = left[len(left)-2:]
	}
	return strings.Join(kind, " ") + " | " + strings.Join(left, " ") + " _"
}

func checkOutput(c *lib.Ctx, id int, cs caseT, si int, out string, err error, parseOK bool, fresh bool, m *sqlredact.Mapping) {
	sql := cs.Stmts[si]
	if !parseOK {
		if out != sqlredact.UnparseableMarker || err == nil {
			c.PredFail(id, "unparseable-input-not-marker-only", fmt.Sprintf("%q does not parse but redacts to %q (err=%v)", sql, out, err), cs)
		}
		if fresh && (len(m.Idents()) != 0 || len(m.Values()) != 0) {
			c.PredFail(id, "unparseable-input-leaves-mapping-entries", fmt.Sprintf("%q does not parse but the mapping has entries", sql), cs)
		}
		return
	}
	for _, mk := range cs.Markers {
		if containsFold(sql, mk) && containsFold(out, mk) {
			c.PredFail(id, "lexeme-survives/"+markerKind(mk), fmt.Sprintf("%q redacts to %q which still contains the input lexeme %q", sql, out, mk), cs)
			return
		}
	}
	if si >= len(cs.KwNames) || si >= len(cs.Templates) {
		return
	}
	for _, kw := range cs.KwNames[si] {
		if hasWord(cs.Templates[si], kw.Name) {
			continue // the statement also uses the word as a keyword: its survival proves nothing
		}
		if hasWordExact(out, kw.Name) {
			// the spelling survives: it is in no walked position (else the identifier set would hold it), so this hole leaks
			sig := "keyword-named-identifier-survives/" + posClass(cs.Templates[si], kw.Hole)
			kwSigCount[sig]++
			if kwSigCount[sig] > 2 { // the list of recorded failures is capped: keep room for other signatures
				c.Count("predicate_failure_not_recorded_again:" + sig)
				return
			}
			c.PredFail(id, sig,
				fmt.Sprintf("%q redacts to %q: the name %q (a non-reserved keyword used as an identifier, hole %d of %q) survives", sql, out, kw.Name, kw.Hole, cs.Templates[si]), cs)
			return
		}
	}
}

func markerKind(mk string) string {
	mk = strings.ToLower(mk)
	switch {
	case strings.HasPrefix(mk, "zqi") || strings.HasSuffix(mk, "zqi"):
		return "identifier"
	case strings.HasPrefix(mk, "zqs"):
		return "string-literal"
	case strings.HasPrefix(mk, "zqv"):
		return "user-variable"
	case strings.HasPrefix(mk, "zqc"):
		return "comment"
	case strings.HasPrefix(mk, "77"):
		return "number-literal"
	}
	return "hex-or-bit-literal"
}

func run(c *lib.Ctx, cs caseT) {
	if cs.Cold > 0 {
		runCold(c, cs)
		return
	}
	if cs.Concurrent {
		runConcurrent(c, cs)
		return
	}
	m := sqlredact.NewMapping()
	var terms []string
	type res struct {
		sql, out string
		err      error
		ok       bool
	}
	var results []res
	anyOK := false
	for i, sql := range cs.Stmts {
		stmt, perr := sqlparser.Parse(sql)
		var ids []string
		if perr == nil {
			ids = identSet(stmt)
			anyOK = true
		}
		toks := tokenize(sql)
		var out string
		var err error
		panicked, pv := lib.Recover(func() {
			if i == 0 && len(cs.Stmts) == 1 {
				out, m, err = sqlredact.RedactSQLForTrace(sql)
			} else {
				out, err = sqlredact.RedactSQLForTraceInto(sql, m)
			}
		})
		if panicked {
			id := c.CaseNoModel(cs, "panic")
			c.PredFail(id, "panic", fmt.Sprintf("redacting %q panicked: %s", sql, pv), cs)
			return
		}
		results = append(results, res{sql, out, err, perr == nil})
		terms = append(terms, lib.CoqTuple(lib.CoqBool(perr == nil), lib.CoqListOf(ids, lib.CoqStr),
			lib.CoqListOf(toks, func(t tokT) string { return lib.CoqTuple(classOf(t.typ), lib.CoqStr(t.val)) }), lib.CoqStr(out)))
		for _, t := range toks {
			if t.typ != sqlparser.COMMENT {
				c.Count("token_" + strings.Trim(strings.SplitN(classOf(t.typ), " ", 2)[0], "()"))
			}
		}
		if perr != nil {
			c.Count("stmt_unparseable")
		} else {
			c.Count("stmt_parsed")
		}
	}
	key := ""
	if anyOK {
		key = strings.Join(cs.Stmts, ";")
	}
	for i, t := range cs.Templates {
		c.Count("template: " + t)
		if i < len(cs.KwNames) && len(cs.KwNames[i]) > 0 {
			c.Count("stmt_with_keyword_used_as_name")
		}
	}
	term := lib.CoqTuple(lib.CoqList(terms), coqPairs(m.Idents(), "n"), coqPairs(m.Values(), "v"))
	id := c.Case(term, cs, key)

	c.PredChecked()
	for i, r := range results {
		checkOutput(c, id, cs, i, r.out, r.err, r.ok, i == 0 && len(results) == 1, m)
	}
	if ok, why := injective(m.Idents(), "n"); !ok {
		c.PredFail(id, "identifier-mapping-not-injective", why, cs)
	}
	if ok, why := injective(m.Values(), "v"); !ok {
		c.PredFail(id, "value-mapping-not-injective", why, cs)
	}
	// equal lexemes -> equal placeholders: redacting the same statements again into the same Mapping changes nothing
	before := fmt.Sprint(m.Idents(), m.Values())
	for _, r := range results {
		out2, _ := sqlredact.RedactSQLForTraceInto(r.sql, m)
		if out2 != r.out {
			c.PredFail(id, "same-statement-redacts-differently-with-same-mapping", fmt.Sprintf("%q: first %q, again %q", r.sql, r.out, out2), cs)
			break
		}
	}
	if fmt.Sprint(m.Idents(), m.Values()) != before {
		c.PredFail(id, "mapping-changes-on-known-lexemes", "redacting the same statements again minted new placeholders", cs)
	}
}

func runConcurrent(c *lib.Ctx, cs caseT) {
	m := sqlredact.NewMapping()
	outs := make([]string, len(cs.Stmts))
	errs := make([]error, len(cs.Stmts))
	var wg sync.WaitGroup
	for i := range cs.Stmts {
		wg.Add(1)
		go func(i int) {
			defer wg.Done()
			outs[i], errs[i] = sqlredact.RedactSQLForTraceInto(cs.Stmts[i], m)
		}(i)
	}
	wg.Wait()
	c.Count("concurrent_shared_mapping")
	id := c.CaseNoModel(cs, "concurrent|"+strings.Join(cs.Stmts, ";"))
	c.PredChecked()
	for i, sql := range cs.Stmts {
		_, perr := sqlparser.Parse(sql)
		checkOutput(c, id, cs, i, outs[i], errs[i], perr == nil, false, m)
		if perr == nil { // consistent: the same text redacts to the same output once every lexeme is known
			again, _ := sqlredact.RedactSQLForTraceInto(sql, m)
			if again != outs[i] {
				c.PredFail(id, "concurrent-redaction-inconsistent", fmt.Sprintf("%q: concurrently %q, afterwards %q with the same Mapping", sql, outs[i], again), cs)
			}
		}
	}
	if ok, why := injective(m.Idents(), "n"); !ok {
		c.PredFail(id, "identifier-mapping-not-injective/concurrent", why, cs)
	}
	if ok, why := injective(m.Values(), "v"); !ok {
		c.PredFail(id, "value-mapping-not-injective/concurrent", why, cs)
	}
}

// runCold: G goroutines released by a barrier redact the same statements into a COLD (fresh) Mapping, so that the
// first minting of every lexeme races; repeated for many rounds.  The same lexeme must never come out as two
// different placeholders (within or between outputs) and the counters must not skip or repeat.
func runCold(c *lib.Ctx, cs caseT) {
	const G = 8
	rounds := cs.Cold
	c.Count("concurrent_cold_start_barrier")
	id := c.CaseNoModel(cs, "cold|"+strings.Join(cs.Stmts, ";"))
	c.PredChecked()
	// sequential reference: how many distinct lexemes there are
	ref := sqlredact.NewMapping()
	for _, sql := range cs.Stmts {
		_, _ = sqlredact.RedactSQLForTraceInto(sql, ref)
	}
	wantI, wantV := len(ref.Idents()), len(ref.Values())
	lex := []string{} // distinct lexemes for the direct API rounds
	for _, mk := range cs.Markers {
		dup := false
		for _, l := range lex {
			dup = dup || l == mk
		}
		if !dup {
			lex = append(lex, mk)
		}
	}
	if len(lex) == 0 {
		lex = []string{"zqi0a"}
	}
	failed := map[string]bool{}
	fail := func(sig, what string) {
		if !failed[sig] {
			failed[sig] = true
			c.PredFail(id, sig, what, cs)
		}
	}
	for round := 0; round < rounds; round++ {
		m := sqlredact.NewMapping()
		outs := make([][]string, G)
		start := make(chan struct{})
		var wg sync.WaitGroup
		for g := 0; g < G; g++ {
			wg.Add(1)
			go func(g int) {
				defer wg.Done()
				outs[g] = make([]string, len(cs.Stmts))
				<-start
				if round%2 == 0 { // whole statements
					for k := range cs.Stmts {
						i := (k + g) % len(cs.Stmts)
						outs[g][i], _ = sqlredact.RedactSQLForTraceInto(cs.Stmts[i], m)
					}
				} else { // the Mapping API directly, every goroutine the same lexemes
					for k := range lex {
						mk := lex[(k+g)%len(lex)]
						a, b := m.RedactIdent(mk), m.RedactValue(mk)
						if a2 := m.RedactIdent(mk); a2 != a {
							outs[g][0] += "!ident " + mk + " " + a + " " + a2
						}
						if b2 := m.RedactValue(mk); b2 != b {
							outs[g][0] += "!value " + mk + " " + b + " " + b2
						}
					}
				}
			}(g)
		}
		close(start)
		wg.Wait()
		if round%2 == 0 {
			for i, sql := range cs.Stmts {
				for g := 1; g < G; g++ {
					if outs[g][i] != outs[0][i] {
						fail("concurrent-cold-mint/same-statement-two-redactions", fmt.Sprintf("round %d: %q redacted concurrently into one fresh Mapping gives %q and %q", round, sql, outs[0][i], outs[g][i]))
					}
				}
				if again, _ := sqlredact.RedactSQLForTraceInto(sql, m); again != outs[0][i] {
					fail("concurrent-cold-mint/placeholder-changes-afterwards", fmt.Sprintf("round %d: %q: concurrently %q, afterwards %q", round, sql, outs[0][i], again))
				}
			}
			if len(m.Idents()) != wantI || len(m.Values()) != wantV {
				fail("concurrent-cold-mint/wrong-number-of-entries", fmt.Sprintf("round %d: %d identifiers / %d values in the Mapping, %d / %d distinct lexemes", round, len(m.Idents()), len(m.Values()), wantI, wantV))
			}
		} else {
			for g := 0; g < G; g++ {
				if outs[g][0] != "" {
					fail("concurrent-cold-mint/same-lexeme-two-placeholders", fmt.Sprintf("round %d: %s", round, outs[g][0]))
				}
			}
			if len(m.Idents()) != len(lex) || len(m.Values()) != len(lex) {
				fail("concurrent-cold-mint/wrong-number-of-entries", fmt.Sprintf("round %d: %d identifiers / %d values for %d lexemes", round, len(m.Idents()), len(m.Values()), len(lex)))
			}
		}
		if ok, why := injective(m.Idents(), "n"); !ok {
			fail("concurrent-cold-mint/identifier-counter-skips-or-repeats", fmt.Sprintf("round %d: %s", round, why))
		}
		if ok, why := injective(m.Values(), "v"); !ok {
			fail("concurrent-cold-mint/value-counter-skips-or-repeats", fmt.Sprintf("round %d: %s", round, why))
		}
	}
}

// ---------- generator ----------
var templates = []string{
	"SELECT {i}, {i} FROM {i} WHERE {i} = {s} AND {i} > {n}",
	"SELECT {i}.{i}, {i}.{i} AS {i} FROM {i}.{i} AS {i} JOIN {i} ON {i}.{i} = {i}.{i} WHERE {i} IN ({n}, {n}, {f}) ORDER BY {i} DESC LIMIT {n}",
	"INSERT INTO {i} ({i}, {i}) VALUES ({s}, {n}), ({x}, {b})",
	"UPDATE {i} SET {i} = {s}, {i} = {i} + {n} WHERE {i} <=> {q}",
	"DELETE FROM {i} WHERE {i} LIKE {s} OR {i} BETWEEN {n} AND {f}",
	"CREATE TABLE {i} ({i} INT PRIMARY KEY, {i} VARCHAR(20) DEFAULT {s} COMMENT {s}, KEY {i} ({i}))",
	"ALTER TABLE {i} ADD COLUMN {i} INT, DROP COLUMN {i}, ADD INDEX {i} ({i})",
	"ALTER TABLE {i} RENAME TO {i}",
	"ALTER TABLE {i} RENAME COLUMN {i} TO {i}",
	"DROP TABLE {i}, {i}",
	"CREATE INDEX {i} ON {i} ({i}, {i})",
	"DROP INDEX {i} ON {i}",
	"SELECT {i}({i}, {s}) FROM {i} GROUP BY {i} HAVING COUNT(*) > {n}",
	"WITH {i} ({i}) AS (SELECT {n}) SELECT * FROM {i}",
	"SELECT * FROM {i} {c} WHERE {i} = {v}",
	"SET {v} = {s}",
	"SET {i} = {n}",
	"SELECT {i}->{s}, {i}->>{s} FROM {i}",
	"SELECT {n} << {n}, {n} >> {n}, {n} != {n}, {n} <= {n}, {n} >= {n}, {s} || {s}, {n} && {n}, {n} <> {n}",
	"SELECT CASE WHEN {i} = {s} THEN {n} ELSE {f} END FROM {i}",
	"SELECT _utf8mb4 {s}, DATE {s}, TIMESTAMP {s}",
	"CREATE DATABASE {i}",
	"USE {i}",
	"SHOW TABLES FROM {i}",
	"SHOW CREATE TABLE {i}",
	"SHOW COLUMNS FROM {i} FROM {i}",
	"CREATE USER {s}@{s} IDENTIFIED BY {s}",
	"CREATE USER {i}@{i}",
	"GRANT SELECT ON {i}.{i} TO {s}@{s}",
	"SAVEPOINT {i}",
	"ROLLBACK TO SAVEPOINT {i}",
	"RELEASE SAVEPOINT {i}",
	"CALL {i}({n}, {s})",
	"CREATE PROCEDURE {i}({i} INT) SELECT {i}",
	"DROP PROCEDURE {i}",
	"CREATE TRIGGER {i} BEFORE INSERT ON {i} FOR EACH ROW SET NEW.{i} = {n}",
	"DROP TRIGGER {i}",
	"CREATE VIEW {i} AS SELECT {i} FROM {i}",
	"PREPARE {i} FROM {s}",
	"EXECUTE {i} USING {v}",
	"DEALLOCATE PREPARE {i}",
	"SELECT * FROM {i} AS OF {s}",
	"ALTER TABLE {i} ADD CONSTRAINT {i} FOREIGN KEY ({i}) REFERENCES {i} ({i})",
	"ALTER TABLE {i} ADD CONSTRAINT {i} CHECK ({i} > {n})",
	"ALTER TABLE {i} DROP CONSTRAINT {i}",
	"SELECT {i} FROM {i} USE INDEX ({i})",
	"SELECT ROW_NUMBER() OVER {i} FROM {i} WINDOW {i} AS (PARTITION BY {i})",
	"LOAD DATA INFILE {s} INTO TABLE {i}",
	"SELECT * FROM {i} INTO OUTFILE {s}",
	"CREATE EVENT {i} ON SCHEDULE EVERY {n} DAY DO SELECT {n}",
	"DROP EVENT {i}",
	"ANALYZE TABLE {i}",
	"SELECT /*!50000 {i}, */ {i} FROM {i}",
	"SELECT {i} FROM {i} WHERE {i} = {q} AND {i} IN ::zqlist",
	"SELECT {i} FROM {i} WHERE {i} REGEXP {s} AND NOT {i} IS NULL XOR {i} = {n} % {n}",
	"SELECT * FROM {i} PARTITION ({i})",
	"ALTER TABLE {i} DROP PARTITION {i}",
	"CREATE TABLE {i} ({i} INT) CHARACTER SET {i} COLLATE {i} COMMENT={s} ENGINE={i}",
	"SELECT {i} COLLATE {i} FROM {i}",
	"SELECT CAST({i} AS CHAR CHARACTER SET {i}) FROM {i}",
	"SELECT CONVERT({i} USING {i}) FROM {i}",
	"SELECT * FROM JSON_TABLE({s}, {s} COLUMNS({i} INT PATH {s})) AS {i}",
	"SELECT {i} FROM {i} FOR UPDATE OF {i}",
	"LOCK TABLES {i} READ, {i} AS {i} WRITE",
	"KILL QUERY {n}",
	"CREATE ROLE {i}",
	"SET PASSWORD FOR {s}@{s} = {s}",
	"ALTER USER {s}@{s} IDENTIFIED BY {s}",
	"RENAME USER {s}@{s} TO {s}@{s}",
	"DROP USER {i}@{s}",
	"SELECT {i} FROM {i} UNION SELECT {s} FROM DUAL",
	"EXPLAIN SELECT {i} FROM {i}",
	"SELECT {f} * {n} - -{n} / +{f} DIV {n} MOD {n} | {n} & {n} ^ ~{n}",
	"SELECT {n} IN ({n}, {i}) FROM {i}",
	"SELECT {i} FROM {i} WHERE {n} IN ({n}, {i}, {s})",
	"SELECT {i} FROM {i} WHERE ({n}, {i}) = ({n}, {n})",
	"SELECT {i} FROM {i} WHERE ({s}, {n}, {i}) IN (({s}, {n}, {i}), ({n}, {i}, {i}))",
	"INSERT INTO {i} VALUES ({n}, {i})",
	"INSERT INTO {i} ({i}) VALUES ({s}, {i}), ({n}, {i})",
	"INSERT INTO {i} VALUES ({n}, {i}) ON DUPLICATE KEY UPDATE {i} = {i}",
	"REPLACE INTO {i} VALUES ({f}, {i}, {s})",
	"SELECT * FROM (VALUES ROW({n}, {i}), ROW({s}, {i})) AS {i}",
	"SELECT ({n}, {i}), ({i}, {n}) FROM {i}",
	"SELECT {i}({n}, {i}), COALESCE({s}, {i}), IF({n}, {i}, {i}) FROM {i}",
	"SELECT {i} FROM {i} WHERE {i} NOT IN ({n}, {i}) OR {n} BETWEEN {n} AND {i}",
	"UPDATE {i} SET {i} = ({n}, {i}) WHERE {n} = {i}",
	"SELECT {n} + {i}, {s} = {i}, -{i}, NOT {i}, {n} < {i} FROM {i}",
	"BEGIN",
	"SELEC {i} FRM {i} WHERE {s}",
	"SELECT {i} FROM WHERE {i} = 'zqsunterminated",
}

// non-reserved keywords of the vitess grammar that commonly occur as names
var kwPool = []string{"status", "name", "user", "data", "comment", "action", "account", "format", "value", "type", "level", "key_block_size",
	"position", "source", "channel", "event", "events", "role", "password", "engine", "engines", "tables", "columns", "fields", "host", "hosts",
	"language", "version", "path", "time", "date", "timestamp", "year", "text", "json", "enum", "bit", "bool", "signed", "unsigned",
	"begin", "start", "end", "commit", "offset", "only", "view", "trigger", "triggers", "variables", "warnings", "work", "write", "read",
	"no", "nested", "ordinality", "plugins", "processlist", "query", "replica", "replication", "reset", "row_format", "schemas",
	"serializable", "session", "global", "local", "slave", "sql_security", "temporary", "transaction", "uncommitted", "committed",
	"repeatable", "isolation", "identified", "indexes", "invoker", "definer", "duplicate", "each", "enforced", "expire", "first", "after",
	"following", "preceding", "unbounded", "current", "found", "full", "grants", "handler", "history", "last_insert_id", "merge", "mode",
	"names", "nchar", "never", "none", "open", "optionally", "partitions", "privileges", "procedure_analyse"}

type genState struct {
	r       *lib.RNG
	n       int
	hole    int
	markers []string
	kws     []kwT
	reuse   []string // previously used renderings, to get equal lexemes

	plainOnly bool // sweep mode: plain markers everywhere except forceHole, which gets forceKw
	forceHole int
	forceKw   string
}

var kwSet = func() map[string]bool {
	m := map[string]bool{}
	for _, k := range kwPool {
		m[k] = true
	}
	return m
}()

func (g *genState) fresh() int { g.n++; return g.n }

func (g *genState) ident() string {
	g.hole++
	if g.plainOnly {
		if g.hole == g.forceHole {
			g.kws = append(g.kws, kwT{g.forceKw, g.hole})
			return g.forceKw
		}
		mk := fmt.Sprintf("zqi%da", g.fresh())
		g.markers = append(g.markers, mk)
		return mk
	}
	if len(g.reuse) > 0 && g.r.Chance(1, 5) {
		s := lib.Pick(g.r, g.reuse)
		if bare := strings.Trim(s, "`"); kwSet[strings.ToLower(bare)] {
			g.kws = append(g.kws, kwT{bare, g.hole})
		}
		return s
	}
	var s string
	switch x := g.r.Intn(20); {
	case x < 9:
		mk := fmt.Sprintf("zqi%da", g.fresh())
		g.markers = append(g.markers, mk)
		s = mk
	case x < 11:
		mk := fmt.Sprintf("ZQI%dB", g.fresh())
		g.markers = append(g.markers, mk)
		s = mk
	case x < 14:
		mk := fmt.Sprintf("zqi%dq", g.fresh())
		g.markers = append(g.markers, mk)
		s = "`" + mk + "`"
	case x < 15:
		mk := fmt.Sprintf("zqi%d q", g.fresh())
		g.markers = append(g.markers, mk)
		s = "`" + mk + "`"
	case x < 16:
		mk := fmt.Sprintf("zqi%dé日", g.fresh())
		g.markers = append(g.markers, mk)
		s = "`" + mk + "`"
	case x < 17:
		mk := fmt.Sprintf("%dzqi", 5000+g.fresh()) // an identifier starting with digits
		g.markers = append(g.markers, mk)
		s = mk
	default:
		kw := lib.Pick(g.r, kwPool)
		if g.r.Chance(1, 3) {
			kw = strings.ToUpper(kw[:1]) + kw[1:]
		}
		g.kws = append(g.kws, kwT{kw, g.hole})
		s = kw
		if g.r.Chance(1, 4) {
			s = "`" + kw + "`"
		}
	}
	g.reuse = append(g.reuse, s)
	return s
}

func (g *genState) str() string {
	mk := fmt.Sprintf("zqs%dz", g.fresh())
	g.markers = append(g.markers, mk)
	switch g.r.Intn(6) {
	case 0:
		return `"` + mk + `"`
	case 1:
		return "'" + mk + `\' x'` // escaped quote inside
	case 2:
		return "'" + mk + " with space and 日本'"
	case 3:
		return "'" + mk + "''s'"
	}
	return "'" + mk + "'"
}

func (g *genState) fill(t string) string {
	var sb strings.Builder
	for i := 0; i < len(t); i++ {
		if t[i] == '{' && i+2 < len(t) && t[i+2] == '}' {
			switch t[i+1] {
			case 'i':
				sb.WriteString(g.ident())
			case 's':
				sb.WriteString(g.str())
			case 'n':
				mk := fmt.Sprintf("77%d7", 1000+g.fresh())
				g.markers = append(g.markers, mk)
				sb.WriteString(mk)
			case 'f':
				mk := fmt.Sprintf("77%d7", 1000+g.fresh())
				g.markers = append(g.markers, mk)
				sb.WriteString(lib.Pick(g.r, []string{mk + ".5", mk + "e3", "." + mk, mk + ".25E-2"}))
			case 'x':
				mk := fmt.Sprintf("AB%dCD", 1000+g.fresh())
				g.markers = append(g.markers, mk)
				sb.WriteString(lib.Pick(g.r, []string{"x'" + mk + "'", "X'" + mk + "'", "0x" + mk}))
			case 'b':
				mk := fmt.Sprintf("10110%b", 64+g.fresh())
				g.markers = append(g.markers, mk)
				sb.WriteString(lib.Pick(g.r, []string{"b'" + mk + "'", "B'" + mk + "'", "0b" + mk}))
			case 'c':
				mk := fmt.Sprintf("zqc%dc", g.fresh())
				g.markers = append(g.markers, mk)
				sb.WriteString(lib.Pick(g.r, []string{"/* " + mk + " */", "-- " + mk + "\n", "# " + mk + "\n"}))
			case 'v':
				mk := fmt.Sprintf("zqv%dv", g.fresh())
				g.markers = append(g.markers, mk)
				sb.WriteString(lib.Pick(g.r, []string{"@" + mk, "@`" + mk + "`", "@@" + mk, "@@session." + mk}))
			case 'q':
				sb.WriteString(lib.Pick(g.r, []string{"?", ":v1", ":zqarg"}))
			}
			i += 2
			continue
		}
		sb.WriteByte(t[i])
	}
	return sb.String()
}

func gen(r *lib.RNG) caseT {
	g := &genState{r: r}
	var cs caseT
	n := 1
	if r.Chance(1, 4) {
		n = r.Range(2, 4)
	}
	if r.Chance(1, 30) {
		cs.Concurrent = true
		n = 16
	} else if r.Chance(1, 40) {
		cs.Cold = 60
		n = r.Range(1, 3)
	}
	for i := 0; i < n; i++ {
		t := templates[r.Intn(len(templates))]
		g.hole, g.kws = 0, []kwT{}
		s := g.fill(t)
		cs.Templates = append(cs.Templates, t)
		cs.KwNames = append(cs.KwNames, g.kws)
		if r.Chance(1, 12) {
			s = s + " /* zqc0c trailing */"
			g.markers = append(g.markers, "zqc0c")
		}
		if r.Chance(1, 25) {
			s = strings.ToLower(s)
		}
		cs.Stmts = append(cs.Stmts, s)
	}
	cs.Markers = g.markers
	if cs.Markers == nil {
		cs.Markers = []string{}
	}
	return cs
}

// sweep: every template x every identifier hole x every keyword of the pool, all other holes plain markers.
// Deterministic; the first failing statement of every leaking position class is recorded as a case.
func sweep(c *lib.Ctx) {
	seen := map[string]bool{}
	for _, t := range templates {
		holes := strings.Count(t, "{i}")
		for h := 1; h <= holes; h++ {
			for _, kw := range kwPool {
				if hasWord(t, kw) {
					continue
				}
				g := &genState{r: lib.NewRNG(1), plainOnly: true, forceHole: h, forceKw: kw}
				sql := g.fill(t)
				c.Count("sweep_statements")
				c.PredChecked()
				out, _, err := sqlredact.RedactSQLForTrace(sql)
				if err != nil {
					c.Count("sweep_unparseable")
					continue
				}
				cs := caseT{Stmts: []string{sql}, Templates: []string{t}, Markers: g.markers, KwNames: [][]kwT{{{kw, h}}}}
				bad, key := false, ""
				if hasWordExact(out, kw) {
					bad, key = true, posClass(t, h)
				}
				for _, mk := range g.markers {
					if containsFold(out, mk) {
						bad, key = true, "marker|"+t
					}
				}
				if bad && !seen[key] {
					seen[key] = true
					run(c, cs) // records the case (with the model's view of it) and the predicate failure
				}
			}
		}
	}
}

func main() {
	lib.Main("C45", func(c *lib.Ctx) {
		c.Header = "From Coq Require Import List NArith.\nImport ListNotations.\nFrom GMS Require Import Sys.Redact Corr.C45.\nOpen Scope N_scope."
		c.CaseType = "C45.case"
		c.MismatchFn = "C45.mismatches"
		c.SetRule(fmt.Sprintf("1-4 statements from %d templates (DML, DDL, users/grants, procedures/triggers/events, savepoints, prepared "+
			"statements, window/CTE/JSON_TABLE, operators, special comments, 2 unparseable shapes) redacted into one Mapping; every identifier "+
			"position holds a unique marker (plain, upper case, back-quoted, with space / multi-byte, digit-initial) or one of %d non-reserved "+
			"keywords, every literal position a unique string / number / float / hex / bit literal, plus comments, user and system variables, "+
			"bind arguments; 1/5 of the identifiers repeat an earlier lexeme; 1/30 of the cases run 16 goroutines on a shared Mapping "+
			"(predicate only); cold-start phase: 8 barrier-started goroutines first-mint the same lexemes in a fresh Mapping, 3 x 300 fixed rounds + 1/40 of the cases x 60 rounds. Non-trivial = at least one statement parses.", len(templates), len(kwPool)))
		if c.ReplayFile != "" {
			var cs caseT
			lib.LoadReplay(c.ReplayFile, &cs)
			run(c, cs)
			return
		}
		one := func(sql, tmpl string, markers []string, kws ...kwT) caseT {
			return caseT{Stmts: []string{sql}, Templates: []string{tmpl}, Markers: markers, KwNames: [][]kwT{kws}}
		}
		corpus := []caseT{
			one("SELECT name, zqi1a FROM zqi2a WHERE status = 'zqs3z' AND zqi1a > 7710047", "SELECT {i}, {i} FROM {i} WHERE {i} = {s} AND {i} > {n}",
				[]string{"zqi1a", "zqi2a", "zqs3z", "7710047"}, kwT{"name", 1}, kwT{"status", 4}),
			one("SELECT `` FROM zqi1a", "corpus", []string{"zqi1a"}),
			one("SELECT 'zqi1a', zqi1a, ''", "corpus", []string{}),
			{Stmts: []string{"SELECT zqi1a FROM zqi2a", "SELECT zqi2a FROM zqi1a WHERE zqi3a = 'zqs5z'", "SELEC zqi4a"}, Templates: []string{"corpus", "corpus", "corpus"},
				Markers: []string{"zqi1a", "zqi2a", "zqi3a", "zqi4a", "zqs5z"}, KwNames: [][]kwT{{}, {}, {}}},
			one("SELECT 1 FROM zqi1a WHERE x'ABC'", "corpus", []string{"zqi1a"}),
			// known findings: a non-reserved keyword used as a name where the AST walk does not report it
			one("EXPLAIN SELECT status FROM zqi1a", "EXPLAIN SELECT {i} FROM {i}", []string{"zqi1a"}, kwT{"status", 1}),
		}
		for _, cs := range corpus {
			run(c, cs)
		}
		sweep(c)
		for _, cs := range []caseT{
			{Cold: 300, Stmts: []string{"SELECT zqi1a FROM zqi2a WHERE zqi1a = 'zqs3z'"}, Templates: []string{"cold"}, Markers: []string{"zqi1a", "zqi2a", "zqs3z"}, KwNames: [][]kwT{{}}},
			{Cold: 300, Stmts: []string{"SELECT zqi1a, zqi2a, zqi3a, zqi4a FROM zqi5a WHERE zqi6a IN (7710017, 7710027, 'zqs7z', 'zqs8z')",
				"UPDATE zqi5a SET zqi1a = 7710017, zqi9a = 'zqs7z' WHERE zqi2a = 7710027"}, Templates: []string{"cold", "cold"},
				Markers: []string{"zqi1a", "zqi2a", "zqi3a", "zqi4a", "zqi5a", "zqi6a", "zqi9a", "7710017", "7710027", "zqs7z", "zqs8z"}, KwNames: [][]kwT{{}, {}}},
			{Cold: 300, Stmts: []string{"SELECT zqi1a", "SELECT zqi1a", "SELECT 'zqi1a'", "SELECT zqi1a FROM zqi1a WHERE zqi1a = 'zqi1a'"},
				Templates: []string{"cold", "cold", "cold", "cold"}, Markers: []string{"zqi1a"}, KwNames: [][]kwT{{}, {}, {}, {}}},
		} {
			run(c, cs)
		}
		for i := len(corpus); i < c.N; i++ {
			run(c, gen(c.R.Fork()))
		}
	})
}
